(* C11 proofs: the model of ansi.go refines the grammar / SGR spec, for all byte strings. *)
From Fzf Require Import Prelude AnsiSpec AnsiModel.
Open Scope Z_scope.

Ltac bz :=
  unfold in_rng, is_cont, rune_start in *;
  repeat match goal with
  | H : (_ && _) = true |- _ => apply andb_true_iff in H; destruct H
  | H : (_ || _) = false |- _ => apply orb_false_iff in H; destruct H
  | H : negb _ = true |- _ => apply negb_true_iff in H
  | H : negb _ = false |- _ => apply negb_false_iff in H
  | H : (_ <=? _) = true |- _ => apply Z.leb_le in H
  | H : (_ <=? _) = false |- _ => apply Z.leb_gt in H
  | H : (_ <? _) = true |- _ => apply Z.ltb_lt in H
  | H : (_ <? _) = false |- _ => apply Z.ltb_ge in H
  | H : (_ =? _) = true |- _ => apply Z.eqb_eq in H
  | H : (_ =? _) = false |- _ => apply Z.eqb_neq in H
  end.

(* ---- rune_len ---- *)
Lemma rune_len_bounds : forall c r, (1 <= rune_len (c :: r) <= 4)%nat /\ (rune_len (c :: r) <= length (c :: r))%nat.
Proof.
  intros c r. unfold rune_len.
  destruct (c <? 128); [cbn; lia|].
  destruct (in_rng 194 223 c).
  { destruct r as [|b1 r]; [cbn; lia|]. destruct (is_cont b1); cbn; lia. }
  destruct (in_rng 224 239 c).
  { destruct r as [|b1 [|b2 r]]; try (cbn; lia).
    match goal with |- context [if ?x then _ else _] => destruct x end; cbn; lia. }
  destruct (in_rng 240 244 c).
  { destruct r as [|b1 [|b2 [|b3 r]]]; try (cbn; lia).
    match goal with |- context [if ?x then _ else _] => destruct x end; cbn; lia. }
  cbn; lia.
Qed.

Lemma rune_len_pos : forall c r, (1 <= rune_len (c :: r))%nat.
Proof. intros; apply rune_len_bounds. Qed.

(* a byte followed by a byte < 128 is a rune of its own *)
Lemma rune_len_before_ascii : forall c b r, b < 128 -> rune_len (c :: b :: r) = 1%nat.
Proof.
  intros c b r Hb. unfold rune_len.
  destruct (c <? 128); [reflexivity|].
  assert (Hc : is_cont b = false) by (unfold is_cont, in_rng; apply andb_false_iff; left; apply Z.leb_gt; lia).
  destruct (in_rng 194 223 c). { now rewrite Hc. }
  destruct (in_rng 224 239 c).
  { destruct r as [|b2 r]; [reflexivity|].
    replace (in_rng (if c =? 224 then 160 else 128) (if c =? 237 then 159 else 191) b) with false; [reflexivity|].
    symmetry; unfold in_rng; apply andb_false_iff; left; apply Z.leb_gt; destruct (c =? 224); lia. }
  destruct (in_rng 240 244 c).
  { destruct r as [|b2 [|b3 r]]; try reflexivity.
    replace (in_rng (if c =? 240 then 144 else 128) (if c =? 244 then 143 else 191) b) with false; [reflexivity|].
    symmetry; unfold in_rng; apply andb_false_iff; left; apply Z.leb_gt; destruct (c =? 240); lia. }
  reflexivity.
Qed.

(* shape of a multi-byte rune *)
Definition lead2 c := in_rng 194 223 c.
Definition ok3 c b1 := in_rng 224 239 c && in_rng (if c =? 224 then 160 else 128) (if c =? 237 then 159 else 191) b1.
Definition ok4 c b1 := in_rng 240 244 c && in_rng (if c =? 240 then 144 else 128) (if c =? 244 then 143 else 191) b1.

Lemma rune_len_cases : forall c r,
  (rune_len (c :: r) = 1%nat) \/
  (rune_len (c :: r) = 2%nat /\ 128 <= c /\ exists b1 r', r = b1 :: r' /\ lead2 c = true /\ is_cont b1 = true) \/
  (rune_len (c :: r) = 3%nat /\ 128 <= c /\ exists b1 b2 r', r = b1 :: b2 :: r' /\ ok3 c b1 = true /\ is_cont b2 = true) \/
  (rune_len (c :: r) = 4%nat /\ 128 <= c /\ exists b1 b2 b3 r', r = b1 :: b2 :: b3 :: r' /\ ok4 c b1 = true /\ is_cont b2 = true /\ is_cont b3 = true).
Proof.
  intros c r. unfold rune_len, lead2, ok3, ok4.
  destruct (c <? 128) eqn:E0; [now left|]. apply Z.ltb_ge in E0.
  destruct (in_rng 194 223 c) eqn:E2.
  { destruct r as [|b1 r]; [now left|]. destruct (is_cont b1) eqn:C1; [|now left].
    right; left. repeat split; try lia. now exists b1, r. }
  destruct (in_rng 224 239 c) eqn:E3.
  { destruct r as [|b1 [|b2 r]]; try now left.
    match goal with |- context [if ?x then _ else _] => destruct x eqn:C end; [|now left].
    apply andb_true_iff in C as [C1 C2].
    right; right; left. repeat split; try lia. exists b1, b2, r. now rewrite C1, C2. }
  destruct (in_rng 240 244 c) eqn:E4.
  { destruct r as [|b1 [|b2 [|b3 r]]]; try now left.
    match goal with |- context [if ?x then _ else _] => destruct x eqn:C end; [|now left].
    apply andb_true_iff in C as [C12 C3]. apply andb_true_iff in C12 as [C1 C2].
    right; right; right. repeat split; try lia. exists b1, b2, b3, r. now rewrite C1, C2, C3. }
  now left.
Qed.

Lemma ok3_cont c b : ok3 c b = true -> is_cont b = true /\ rune_start c = true /\ 128 <= c.
Proof.
  unfold ok3, is_cont, rune_start, in_rng. intro H.
  apply andb_true_iff in H as [H1 H2]. apply andb_true_iff in H1 as [H1 H1']. apply andb_true_iff in H2 as [H2 H2'].
  apply Z.leb_le in H1, H1', H2, H2'.
  destruct (c =? 224), (c =? 237); repeat split; try lia;
  try (apply andb_true_iff; split; apply Z.leb_le; lia);
  try (apply negb_true_iff, andb_false_iff; right; apply Z.leb_gt; lia).
Qed.
Lemma ok4_cont c b : ok4 c b = true -> is_cont b = true /\ rune_start c = true /\ 128 <= c.
Proof.
  unfold ok4, is_cont, rune_start, in_rng. intro H.
  apply andb_true_iff in H as [H1 H2]. apply andb_true_iff in H1 as [H1 H1']. apply andb_true_iff in H2 as [H2 H2'].
  apply Z.leb_le in H1, H1', H2, H2'.
  destruct (c =? 240), (c =? 244); repeat split; try lia;
  try (apply andb_true_iff; split; apply Z.leb_le; lia);
  try (apply negb_true_iff, andb_false_iff; right; apply Z.leb_gt; lia).
Qed.
Lemma lead2_start c : lead2 c = true -> rune_start c = true /\ 128 <= c.
Proof.
  unfold lead2, rune_start, in_rng. intro H. apply andb_true_iff in H as [H1 H2]. apply Z.leb_le in H1, H2.
  split; [|lia]. apply negb_true_iff, andb_false_iff; right; apply Z.leb_gt; lia.
Qed.
Lemma cont_ge c : is_cont c = true -> 128 <= c /\ rune_start c = false.
Proof.
  unfold is_cont, rune_start. intro H. rewrite H. split; [|reflexivity].
  unfold in_rng in H. apply andb_true_iff in H as [H _]. now apply Z.leb_le in H.
Qed.

(* bytes strictly inside a rune are >= 128 *)
Lemma rune_len_inner : forall u k b, (0 < k < rune_len u)%nat -> nth_error u k = Some b -> 128 <= b.
Proof.
  intros [|c r] k b Hk Hn; [cbn in Hk; lia|].
  destruct (rune_len_cases c r) as [H|[(H & _ & b1 & r' & -> & _ & C1)|[(H & _ & b1 & b2 & r' & -> & O & C2)|(H & _ & b1 & b2 & b3 & r' & -> & O & C2 & C3)]]];
    rewrite H in Hk.
  - lia.
  - assert (k = 1%nat) by lia; subst k. cbn in Hn. inversion Hn; subst. now apply cont_ge in C1.
  - apply ok3_cont in O as (C1 & _). apply cont_ge in C1, C2.
    destruct k as [|[|[|k]]]; try lia; cbn in Hn; inversion Hn; subst; tauto.
  - apply ok4_cont in O as (C1 & _). apply cont_ge in C1, C2, C3.
    destruct k as [|[|[|[|k]]]]; try lia; cbn in Hn; inversion Hn; subst; tauto.
Qed.

Lemma rune_len_head_multi : forall c r, (2 <= rune_len (c :: r))%nat -> 128 <= c.
Proof.
  intros c r H. destruct (rune_len_cases c r) as [E|[(E & ? & _)|[(E & ? & _)|(E & ? & _)]]]; lia.
Qed.
(* ---- building runes from facts ---- *)
Lemma in_rng_excl a b c d x : in_rng a b x = true -> (b < c \/ d < a) -> in_rng c d x = false.
Proof.
  unfold in_rng. intros H D. apply andb_true_iff in H as [H1 H2]. apply Z.leb_le in H1, H2.
  apply andb_false_iff. destruct D; [left|right]; apply Z.leb_gt; lia.
Qed.

Lemma rl2 c b1 r : lead2 c = true -> is_cont b1 = true -> rune_len (c :: b1 :: r) = 2%nat.
Proof.
  unfold lead2. intros L C. unfold rune_len.
  assert (c <? 128 = false) as -> by (unfold in_rng in L; apply andb_true_iff in L as [L _]; apply Z.leb_le in L; apply Z.ltb_ge; lia).
  now rewrite L, C.
Qed.
Lemma rl3 c b1 b2 r : ok3 c b1 = true -> is_cont b2 = true -> rune_len (c :: b1 :: b2 :: r) = 3%nat.
Proof.
  unfold ok3. intros O C. apply andb_true_iff in O as [L O]. unfold rune_len.
  assert (c <? 128 = false) as -> by (unfold in_rng in L; apply andb_true_iff in L as [L _]; apply Z.leb_le in L; apply Z.ltb_ge; lia).
  rewrite (in_rng_excl _ _ 194 223 _ L) by lia.
  now rewrite L, O, C.
Qed.
Lemma rl4 c b1 b2 b3 r : ok4 c b1 = true -> is_cont b2 = true -> is_cont b3 = true -> rune_len (c :: b1 :: b2 :: b3 :: r) = 4%nat.
Proof.
  unfold ok4. intros O C2 C3. apply andb_true_iff in O as [L O]. unfold rune_len.
  assert (c <? 128 = false) as -> by (unfold in_rng in L; apply andb_true_iff in L as [L _]; apply Z.leb_le in L; apply Z.ltb_ge; lia).
  rewrite (in_rng_excl _ _ 194 223 _ L) by lia.
  rewrite (in_rng_excl _ _ 224 239 _ L) by lia.
  now rewrite L, O, C2, C3.
Qed.

(* a complete multi-byte rune is not changed by what follows *)
Lemma rune_len_complete : forall w x, (2 <= length w)%nat -> rune_len w = length w -> rune_len (w ++ x) = length w.
Proof.
  intros [|c r] x Hl He; [cbn in Hl; lia|].
  destruct (rune_len_cases c r) as [H|[(H & _ & b1 & r' & -> & L & C1)|[(H & _ & b1 & b2 & r' & -> & O & C2)|(H & _ & b1 & b2 & b3 & r' & -> & O & C2 & C3)]]];
    rewrite H in He; cbn [length] in *.
  - lia.
  - destruct r'; [|cbn in He; lia]. cbn [app]. now apply rl2.
  - destruct r'; [|cbn in He; lia]. cbn [app]. now apply rl3.
  - destruct r'; [|cbn in He; lia]. cbn [app]. now apply rl4.
Qed.

(* ---- DecodeLastRune agrees with forward decoding before a backspace ---- *)
Lemma last_rune_fwd : forall c back t',
  exists pre0 w, rev (c :: back) = pre0 ++ w /\ length w = last_rune_len (c :: back)
                 /\ rune_len (w ++ BS :: t') = last_rune_len (c :: back)
                 /\ (last_rune_len (c :: back) = 1%nat -> w = [c]).
Proof.
  intros c back t'. remember (last_rune_len (c :: back)) as n eqn:En.
  assert (One : n = 1%nat ->
     exists pre0 w, rev (c :: back) = pre0 ++ w /\ length w = n /\ rune_len (w ++ BS :: t') = n /\ (n = 1%nat -> w = [c])).
  { intros ->. exists (rev back), [c]. repeat split; try reflexivity.
    cbn [app]. apply rune_len_before_ascii. unfold BS; lia. }
  assert (Win : forall rest w, c :: back = rev w ++ rest -> (2 <= length w)%nat ->
     n = (if Nat.eqb (rune_len w) (length w) then rune_len w else 1%nat) ->
     exists pre0 w, rev (c :: back) = pre0 ++ w /\ length w = n /\ rune_len (w ++ BS :: t') = n /\ (n = 1%nat -> w = [c])).
  { intros rest w Hrp Hl E. destruct (Nat.eqb (rune_len w) (length w)) eqn:T.
    - apply Nat.eqb_eq in T. exists (rev rest), w. rewrite Hrp, rev_app_distr, rev_involutive.
      repeat split; try congruence.
      + rewrite E, T. now apply rune_len_complete.
      + intro; lia.
    - now apply One. }
  unfold last_rune_len in En.
  destruct (c <? 128) eqn:E0. { now apply One. }
  destruct back as [|x1 back1].
  { apply One. rewrite En. cbn [length]. destruct (Nat.eqb (rune_len [c]) 1) eqn:T; [now apply Nat.eqb_eq in T|reflexivity]. }
  destruct (rune_start x1) eqn:S1. { apply (Win back1 [x1; c]); cbn; [reflexivity|lia|exact En]. }
  destruct back1 as [|x2 back2]. { apply (Win [] [x1; c]); cbn; [reflexivity|lia|exact En]. }
  destruct (rune_start x2) eqn:S2. { apply (Win back2 [x2; x1; c]); cbn; [reflexivity|lia|exact En]. }
  destruct back2 as [|x3 back3]. { apply (Win [] [x2; x1; c]); cbn; [reflexivity|lia|exact En]. }
  apply (Win back3 [x3; x2; x1; c]); cbn; [reflexivity|lia|exact En].
Qed.

Lemma last_rune_bwd : forall rp pre0 w t',
  rev rp = pre0 ++ w -> (2 <= length w)%nat -> rune_len (w ++ BS :: t') = length w -> last_rune_len rp = length w.
Proof.
  intros rp pre0 w t' Hrev Hl He.
  assert (Hrp : rp = rev w ++ rev pre0) by (rewrite <- rev_app_distr, <- Hrev; symmetry; apply rev_involutive).
  destruct w as [|a r]; [cbn in Hl; lia|].
  cbn [app] in He.
  destruct (rune_len_cases a (r ++ BS :: t')) as [H|[(H & Ha & b1 & r' & Er & L & C1)|[(H & Ha & b1 & b2 & r' & Er & O & C2)|(H & Ha & b1 & b2 & b3 & r' & Er & O & C2 & C3)]]];
    rewrite H in He; cbn [length] in *.
  - lia.
  - destruct r as [|y [|z r]]; cbn in He; try lia. cbn in Er. inversion Er; subst y r'. clear Er.
    subst rp. cbn [rev app length]. apply lead2_start in L as Ls. destruct Ls as [Ls _]. apply cont_ge in C1 as C1'. destruct C1' as [G1 _].
    unfold last_rune_len. assert (b1 <? 128 = false) as -> by (apply Z.ltb_ge; lia).
    rewrite Ls. rewrite (rl2 a b1 [] L C1). reflexivity.
  - destruct r as [|y [|z [|z' r]]]; cbn in He; try lia. cbn in Er. inversion Er; subst y z r'. clear Er.
    subst rp. cbn [rev app length]. apply ok3_cont in O as O'. destruct O' as (C1 & Ls & _).
    apply cont_ge in C1 as [_ S1]. apply cont_ge in C2 as C2'. destruct C2' as [G2 _].
    unfold last_rune_len. assert (b2 <? 128 = false) as -> by (apply Z.ltb_ge; lia).
    rewrite S1, Ls. rewrite (rl3 a b1 b2 [] O C2). reflexivity.
  - destruct r as [|y [|z [|z' [|z'' r]]]]; cbn in He; try lia. cbn in Er. inversion Er; subst y z z' r'. clear Er.
    subst rp. cbn [rev app length]. apply ok4_cont in O as O'. destruct O' as (C1 & Ls & _).
    apply cont_ge in C1 as [_ S1]. apply cont_ge in C2 as C2'. destruct C2' as [_ S2]. apply cont_ge in C3 as C3'. destruct C3' as [G3 _].
    unfold last_rune_len. assert (b3 <? 128 = false) as -> by (apply Z.ltb_ge; lia).
    rewrite S2, S1. rewrite (rl4 a b1 b2 b3 [] O C2 C3). reflexivity.
Qed.
(* ---- the grammar scanned with look-behind (proof device between model and spec) ---- *)
Definition alts14 (t : str) : option nat := orelse (m_csi t) (orelse (m_osc t) (orelse (m_esc2 t) (m_shift t))).

Lemma match_at_alts t : match_at t = orelse (alts14 t) (m_bs t).
Proof. unfold match_at, alts14. destruct (m_csi t), (m_osc t), (m_esc2 t), (m_shift t); reflexivity. Qed.

Fixpoint fm_back (rp t : str) (i : nat) : option (nat * nat) :=
  match t with
  | [] => None
  | c :: t' =>
    match alts14 t with
    | Some k => Some (i, (i + k)%nat)
    | None =>
      if c =? BS then
        match rp with
        | p :: _ => if negb (p =? LF) then Some ((i - last_rune_len rp)%nat, S i) else fm_back (c :: rp) t' (S i)
        | [] => fm_back (c :: rp) t' (S i)
        end
      else fm_back (c :: rp) t' (S i)
    end
  end.

Lemma alts14_head c t k : alts14 (c :: t) = Some k -> c = ESC \/ c = SO \/ c = SI.
Proof.
  unfold alts14, m_csi, m_osc, m_esc2, m_shift. intro H.
  destruct (c =? ESC) eqn:E; [left; now apply Z.eqb_eq|].
  destruct ((c =? SO) || (c =? SI)) eqn:E2.
  { apply orb_true_iff in E2 as [E2|E2]; apply Z.eqb_eq in E2; auto. }
  exfalso. destruct t as [|d t]; cbn in H; [discriminate|]. discriminate.
Qed.

Lemma m_bs_some u k : m_bs u = Some k ->
  exists c r rest, u = c :: r /\ c <> LF /\ k = S (rune_len u) /\ skipn (rune_len u) u = BS :: rest.
Proof.
  unfold m_bs. destruct u as [|c r]; [discriminate|].
  destruct (c =? LF) eqn:E; [discriminate|]. apply Z.eqb_neq in E.
  destruct (skipn (rune_len (c :: r)) (c :: r)) as [|b rest] eqn:S; [discriminate|].
  destruct (b =? BS) eqn:Eb; [|discriminate]. apply Z.eqb_eq in Eb. subst b.
  intro H; inversion H. now exists c, r, rest.
Qed.

Lemma skipn_cons_lt {A} n (u : list A) x rest : skipn n u = x :: rest -> (n < length u)%nat.
Proof. intro H. assert (L := skipn_length n u). rewrite H in L. cbn in L. lia. Qed.

Lemma skipn_app_len {A} (u t : list A) : skipn (length u) (u ++ t) = t.
Proof. induction u; cbn; auto. Qed.
Lemma nth_error_app_len {A} (u : list A) c t : nth_error (u ++ c :: t) (length u) = Some c.
Proof. induction u; cbn; auto. Qed.
Lemma skipn_nth_error {A} n (u : list A) x rest : skipn n u = x :: rest -> nth_error u n = Some x.
Proof. revert u; induction n; intros [|a u] H; cbn in *; try discriminate; [now inversion H|auto]. Qed.

(* characterisation of the leftmost match *)
Lemma fm_none : forall s off, (forall pre u, s = pre ++ u -> u <> [] -> match_at u = None) -> first_match_from off s = None.
Proof.
  induction s as [|c s IH]; intros off H; [reflexivity|].
  cbn [first_match_from]. rewrite (H [] (c :: s)) by (auto; discriminate).
  apply IH. intros pre u E Hu. apply (H (c :: pre) u); [now rewrite E|exact Hu].
Qed.
Lemma fm_some : forall pre u off n, match_at u = Some n ->
  (forall pre' u', pre = pre' ++ u' -> u' <> [] -> match_at (u' ++ u) = None) ->
  first_match_from off (pre ++ u) = Some ((off + length pre)%nat, (off + length pre + n)%nat).
Proof.
  induction pre as [|x pre IH]; intros u off n Hm Hn.
  - cbn. destruct u; [discriminate|]. cbn [first_match_from]. rewrite Hm. f_equal. f_equal; lia.
  - assert (H0 := Hn [] (x :: pre) eq_refl ltac:(discriminate)). cbn [app] in H0.
    cbn [app first_match_from]. rewrite H0.
    rewrite (IH u (S off) n Hm).
    + cbn [length]. f_equal. f_equal; lia.
    + intros pre' u' E Hu. apply (Hn (x :: pre') u'); [now rewrite E|exact Hu].
Qed.

Definition Inv (rp t : str) : Prop :=
  forall pre u, rev rp = pre ++ u -> u <> [] ->
    alts14 (u ++ t) = None /\ (m_bs (u ++ t) = None \/ (length u <= rune_len (u ++ t))%nat).

Lemma app_snoc_split {A} (a pre u : list A) c : a ++ [c] = pre ++ u -> u <> [] -> exists u0, u = u0 ++ [c] /\ a = pre ++ u0.
Proof.
  intros E Hu. destruct (exists_last Hu) as (u0 & x & ->).
  rewrite app_assoc in E. apply app_inj_tail in E as [E ->]. now exists u0.
Qed.

(* a pending backspace candidate cannot point at or beyond a byte < 128 other than BS *)
Lemma pending_bs_contra u c t' k :
  u <> [] -> m_bs (u ++ c :: t') = Some k -> (length u <= rune_len (u ++ c :: t'))%nat -> c < 128 -> c <> BS -> False.
Proof.
  intros Hu Hm Hl Hc Hb. apply m_bs_some in Hm as (h & r & rest & Eu & _ & _ & Hs).
  destruct (Nat.eq_dec (rune_len (u ++ c :: t')) (length u)) as [E|E].
  - rewrite E, skipn_app_len in Hs. inversion Hs. congruence.
  - assert (G : 128 <= c).
    { apply (rune_len_inner (u ++ c :: t') (length u) c); [|apply nth_error_app_len].
      split; [|lia]. destruct u; [congruence|cbn; lia]. }
    lia.
Qed.

Lemma Inv_step rp c t' :
  Inv rp (c :: t') -> alts14 (c :: t') = None ->
  (c = BS -> match rp with p0 :: _ => p0 = LF | [] => True end) ->
  Inv (c :: rp) t'.
Proof.
  intros HI Ha Hb pre u E Hu. cbn [rev] in E.
  apply app_snoc_split in E as (u0 & -> & E); [|exact Hu].
  rewrite <- app_assoc. cbn [app].
  destruct u0 as [|h u1].
  - cbn [app]. split; [exact Ha|]. right. cbn [length]. apply rune_len_pos.
  - destruct (HI pre (h :: u1) E ltac:(discriminate)) as [A B]. split; [exact A|].
    destruct B as [B|B]; [now left|].
    destruct (m_bs ((h :: u1) ++ c :: t')) as [k|] eqn:Em; [|now left]. right.
    rewrite app_length. cbn [length] in *.
    destruct (Nat.eq_dec (rune_len ((h :: u1) ++ c :: t')) (S (length u1))) as [El|El]; [exfalso|lia].
    apply m_bs_some in Em as (h' & r & rest & Eu & Hh & _ & Hs).
    rewrite El in Hs. change (S (length u1)) with (length (h :: u1)) in Hs. rewrite skipn_app_len in Hs.
    inversion Hs; subst c rest. specialize (Hb eq_refl).
    destruct rp as [|p0 back]. { destruct pre; discriminate. }
    subst p0. cbn [rev] in E.
    apply app_snoc_split in E as (u2 & E2 & _); [|discriminate].
    destruct u2 as [|h2 u3].
    + cbn in E2. inversion E2; subst. cbn in Eu. inversion Eu. congruence.
    + (* LF strictly inside the rune *)
      assert (G : 128 <= LF).
      { apply (rune_len_inner ((h :: u1) ++ BS :: t') (length u1) LF).
        - rewrite El. split; [|lia]. rewrite E2 in *. destruct u1; [destruct u3; discriminate|cbn; lia].
        - assert (L : length (h :: u1) = length ((h2 :: u3) ++ [LF])) by congruence.
          rewrite app_length in L. cbn [length] in L.
          replace (length u1) with (length (h2 :: u3)) by (cbn [length]; lia).
          rewrite E2, <- app_assoc. cbn [app]. apply (nth_error_app_len (h2 :: u3)). }
      unfold LF in G; lia.
Qed.
Lemma ctl_lt c : c = ESC \/ c = SO \/ c = SI -> c < 128 /\ c <> BS.
Proof. unfold ESC, SO, SI, BS. intros [H|[H|H]]; subst c; split; lia. Qed.

Lemma fm_back_correct : forall t rp, Inv rp t -> fm_back rp t (length rp) = first_match (rev rp ++ t).
Proof.
  induction t as [|c t' IH]; intros rp HI.
  - cbn [fm_back]. symmetry. apply fm_none. intros pre u E Hu. rewrite app_nil_r in E.
    destruct (HI pre u E Hu) as [A B]. rewrite app_nil_r in A, B.
    rewrite match_at_alts, A. cbn [orelse].
    destruct B as [B|B]; [exact B|].
    destruct (m_bs u) as [k|] eqn:Em; [exfalso|reflexivity].
    apply m_bs_some in Em as (h & r & rest & _ & _ & _ & Hs). apply skipn_cons_lt in Hs. lia.
  - cbn [fm_back]. destruct (alts14 (c :: t')) as [k|] eqn:Ea.
    + (* a sequence starts here *)
      assert (Hc := ctl_lt c (alts14_head _ _ _ Ea)). destruct Hc as [Hc1 Hc2].
      unfold first_match. rewrite (fm_some (rev rp) (c :: t') 0 k).
      * now rewrite rev_length.
      * now rewrite match_at_alts, Ea.
      * intros pre' u' E Hu. destruct (HI pre' u' E Hu) as [A B].
        rewrite match_at_alts, A. cbn [orelse].
        destruct B as [B|B]; [exact B|].
        destruct (m_bs (u' ++ c :: t')) as [k'|] eqn:Em; [exfalso|reflexivity].
        eapply pending_bs_contra; eauto.
    + assert (Cont : (c = BS -> match rp with p0 :: _ => p0 = LF | [] => True end) ->
                     fm_back (c :: rp) t' (S (length rp)) = first_match (rev rp ++ c :: t')).
      { intro Hb. change (S (length rp)) with (length (c :: rp)). rewrite IH by (now apply Inv_step).
        cbn [rev]. now rewrite <- app_assoc. }
      destruct (c =? BS) eqn:Eb; [|apply Cont; intros ->; discriminate].
      apply Z.eqb_eq in Eb. subst c.
      destruct rp as [|p0 back]; [now apply Cont|].
      destruct (p0 =? LF) eqn:El; cbn [negb]; [apply Z.eqb_eq in El; now apply Cont|].
      apply Z.eqb_neq in El.
      (* the backspace strikes out the rune before it *)
      destruct (last_rune_fwd p0 back t') as (pre0 & w & Erev & Hlw & Hrl & Hone).
      set (n := last_rune_len (p0 :: back)) in *.
      assert (Hn : (1 <= n)%nat).
      { rewrite <- Hrl. destruct w; cbn [app]; apply rune_len_pos. }
      assert (Hw : w <> []) by (intro Ew; rewrite Ew in Hlw; cbn [length] in Hlw; lia).
      unfold first_match. rewrite Erev, <- app_assoc.
      rewrite (fm_some pre0 (w ++ BS :: t') 0 (S n)).
      * assert (L : length (rev (p0 :: back)) = length (pre0 ++ w)) by congruence.
        rewrite rev_length, app_length in L. f_equal. f_equal; lia.
      * destruct (HI pre0 w Erev Hw) as [A _]. rewrite match_at_alts, A. cbn [orelse].
        unfold m_bs. destruct w as [|h w']; [congruence|]. cbn [app].
        assert (Hh : h <> LF).
        { destruct (Nat.eq_dec n 1) as [E1|E1].
          - specialize (Hone E1). inversion Hone; subst. exact El.
          - assert (G : 128 <= h) by (apply (rune_len_head_multi h (w' ++ BS :: t')); cbn [app] in Hrl; lia).
            unfold LF; lia. }
        apply Z.eqb_neq in Hh. rewrite Hh.
        cbn [app] in Hrl. rewrite Hrl, <- Hlw.
        change (h :: w' ++ BS :: t') with ((h :: w') ++ BS :: t'). rewrite skipn_app_len.
        now rewrite Z.eqb_refl.
      * intros pre' u' E Hu.
        assert (E' : rev (p0 :: back) = pre' ++ (u' ++ w)) by (rewrite Erev, E; now rewrite app_assoc).
        assert (Huw : u' ++ w <> []) by (destruct u'; [congruence|discriminate]).
        destruct (HI pre' (u' ++ w) E' Huw) as [A B]. rewrite <- app_assoc in A, B.
        rewrite match_at_alts, A. cbn [orelse].
        destruct B as [B|B]; [exact B|].
        destruct (m_bs (u' ++ w ++ BS :: t')) as [k'|] eqn:Em; [exfalso|reflexivity].
        apply m_bs_some in Em as (h & r & rest & _ & _ & _ & Hs).
        destruct (Nat.eq_dec (rune_len (u' ++ w ++ BS :: t')) (length (u' ++ w))) as [Eq|Ne].
        -- assert (L2 : last_rune_len (p0 :: back) = length (u' ++ w)).
           { apply (last_rune_bwd (p0 :: back) pre' (u' ++ w) t' E').
             - rewrite app_length. destruct u'; [congruence|]. cbn [length]. lia.
             - now rewrite <- app_assoc. }
           fold n in L2. rewrite app_length in L2. destruct u'; [congruence|]. cbn [length] in L2. lia.
        -- assert (G : 128 <= BS).
           { apply (rune_len_inner (u' ++ w ++ BS :: t') (length (u' ++ w)) BS).
             - split; [|lia]. rewrite app_length. destruct u'; [congruence|cbn; lia].
             - rewrite app_assoc. apply nth_error_app_len. }
           unfold BS in G; lia.
Qed.

Lemma Inv_nil t : Inv [] t.
Proof. intros pre u E Hu. destruct pre, u; cbn in E; try discriminate; congruence. Qed.

Theorem fm_back_eq_first_match s : fm_back [] s 0 = first_match s.
Proof. exact (fm_back_correct s [] (Inv_nil s)). Qed.
(* ---- model scanner = look-behind grammar scanner ---- *)
Lemma get_at {A} (P : list A) x rest k : k = length P -> get (P ++ x :: rest) k = Ok x.
Proof. intros ->. induction P; cbn; auto. Qed.
Lemma skipn_at {A} (P rest : list A) k : k = length P -> skipn k (P ++ rest) = rest.
Proof. intros ->. apply skipn_app_len. Qed.
Lemma firstn_at {A} (P rest : list A) k : k = length P -> firstn k (P ++ rest) = P.
Proof. intros ->. induction P; cbn; [now destruct rest|congruence]. Qed.

Lemma tw_dw (p : Z -> bool) (s : str) : s = take_while p s ++ drop_while p s.
Proof. induction s as [|c s IH]; cbn; [reflexivity|]. destruct (p c); cbn; congruence. Qed.
Lemma dw_head (p : Z -> bool) (s : str) : match drop_while p s with [] => True | x :: _ => p x = false end.
Proof. induction s as [|c s IH]; cbn; [exact I|]. destruct (p c) eqn:E; [exact IH|exact E]. Qed.

Lemma is_param_alt c : is_digit c || (c =? 59) || (c =? 58) || (c =? 63) = is_param c.
Proof. unfold is_param, is_sep. now rewrite !orb_assoc. Qed.

Lemma mcs_loop_spec : forall r i,
  mcs_loop r i = match drop_while is_param r with
                 | f :: _ => if is_final f then Some (S (i + length (take_while is_param r))) else None
                 | [] => None
                 end.
Proof.
  induction r as [|c r IH]; intro i; cbn [mcs_loop drop_while take_while]; [reflexivity|].
  rewrite is_param_alt. destruct (is_param c) eqn:E.
  - rewrite IH. cbn [length]. destruct (drop_while is_param r); [reflexivity|].
    destruct (is_final z); [|reflexivity]. f_equal; lia.
  - cbn [length]. unfold is_final. rewrite Nat.add_0_r. reflexivity.
Qed.

Lemma esc_csi_eq r : esc_csi (ESC :: r) = Ok (m_csi (ESC :: r)).
Proof.
  unfold esc_csi, m_csi. destruct r as [|c r]; [reflexivity|].
  rewrite Z.eqb_refl. cbn [andb length get].
  destruct r as [|d r].
  - cbn. destruct (is_intro c); reflexivity.
  - cbn [Nat.ltb Nat.leb length]. cbn [bind]. destruct (is_intro c); [|reflexivity].
    unfold match_control_sequence. cbn [skipn]. rewrite mcs_loop_spec.
    destruct (drop_while is_param (d :: r)); [reflexivity|]. destruct (is_final z); reflexivity.
Qed.

Lemma skip_digits_spec : forall r j, skip_digits r j = (j + length (take_while is_digit r))%nat.
Proof. induction r as [|c r IH]; intro j; cbn; [lia|]. destruct (is_digit c); cbn; [rewrite IH|]; lia. Qed.
Lemma skip_print_spec : forall r j, skip_print r j = (j + length (take_while is_print r))%nat.
Proof. induction r as [|c r IH]; intro j; cbn; [lia|]. destruct (is_print c); cbn; [rewrite IH|]; lia. Qed.

Lemma str_eqb_snoc a b x y : str_eqb (a ++ [x]) (b ++ [y]) = str_eqb a b && (x =? y).
Proof.
  revert b; induction a as [|c a IH]; intros [|d b]; cbn.
  - now rewrite andb_true_r.
  - destruct b; cbn; now rewrite andb_false_r.
  - destruct a; cbn; now rewrite andb_false_r.
  - rewrite IH. now rewrite andb_assoc.
Qed.

Lemma match92 {T} x (r : str) (A B : T) : (x =? 92) = false ->
  match x :: r with 92 :: _ => A | _ => B end = B.
Proof.
  intro H. destruct x as [|p|p]; try reflexivity.
  do 7 (destruct p as [p|p|]; try reflexivity). discriminate.
Qed.

Lemma esc_osc_eq r : esc_osc (ESC :: r) = Ok (m_osc (ESC :: r)).
Proof.
  unfold esc_osc, m_osc. destruct r as [|c r1]; [reflexivity|].
  rewrite Z.eqb_refl. cbn [andb].
  set (t := ESC :: c :: r1).
  destruct (c =? 93) eqn:Ec.
  2:{ destruct (Nat.ltb 5 (length t)); [|reflexivity]. cbn [t get bind]. now rewrite Ec. }
  apply Z.eqb_eq in Ec. subst c.
  assert (Hg1 : get t 1 = Ok 93) by reflexivity.
  (* decompose r1 = ds ++ rest1 *)
  assert (D1 := tw_dw is_digit r1). assert (H1 := dw_head is_digit r1).
  set (ds := take_while is_digit r1) in *. set (rest1 := drop_while is_digit r1) in *.
  assert (Hj : skip_digits (skipn 2 t) 2 = (2 + length ds)%nat) by (cbn [t skipn]; apply skip_digits_spec).
  rewrite Hj. clear Hj.
  assert (Ht : t = (ESC :: 93 :: ds) ++ rest1) by (unfold t; cbn [app]; congruence).
  assert (Hn : length t = (2 + length ds + length rest1)%nat) by (rewrite Ht, app_length; reflexivity).
  destruct ds as [|d0 ds'] eqn:Eds.
  { (* no digit *) cbn [length]. replace (Nat.ltb 2 (2 + 0)) with false by reflexivity. cbn [andb].
    destruct (Nat.ltb 5 (length t)); [rewrite Hg1; cbn [bind]; rewrite Z.eqb_refl|]; destruct rest1; reflexivity. }
  rewrite <- Eds in *. assert (Hd : (1 <= length ds)%nat) by (rewrite Eds; cbn; lia).
  replace (match ds with [] => None | _ :: _ => match rest1 with [] => None | sep :: r2 => if is_sep sep then let ps := take_while is_print r2 in match ps with [] => None | _ :: _ => match drop_while is_print r2 with [] => None | t0 :: r3 => let n := (3 + length ds + length ps)%nat in if t0 =? BEL then Some (S n) else if t0 =? ESC then match r3 with 92 :: _ => Some (S (S n)) | _ => if str_eqb (ESC :: 93 :: ds ++ sep :: ps) osc8_close_head then Some (S n) else None end else None end end else None end end)
    with (match rest1 with [] => None | sep :: r2 => if is_sep sep then let ps := take_while is_print r2 in match ps with [] => None | _ :: _ => match drop_while is_print r2 with [] => None | t0 :: r3 => let n := (3 + length ds + length ps)%nat in if t0 =? BEL then Some (S n) else if t0 =? ESC then match r3 with 92 :: _ => Some (S (S n)) | _ => if str_eqb (ESC :: 93 :: ds ++ sep :: ps) osc8_close_head then Some (S n) else None end else None end end else None end)
    by (rewrite Eds; reflexivity).
  clear Eds d0 ds'.
  destruct rest1 as [|sep r2].
  { destruct (Nat.ltb 5 (length t)); [|reflexivity]. rewrite Hg1; cbn [bind]. rewrite Z.eqb_refl.
    replace (Nat.ltb (2 + length ds + 1) (length t)) with false by (symmetry; apply Nat.ltb_ge; cbn [length] in Hn; lia).
    now rewrite andb_false_r. }
  destruct r2 as [|cp r2'].
  { destruct (Nat.ltb 5 (length t)); [|cbn; now destruct (is_sep sep)]. rewrite Hg1; cbn [bind]. rewrite Z.eqb_refl.
    replace (Nat.ltb (2 + length ds + 1) (length t)) with false by (symmetry; apply Nat.ltb_ge; cbn [length] in Hn; lia).
    rewrite andb_false_r. cbn. now destruct (is_sep sep). }
  cbn [length] in Hn.
  assert (Gs : get t (2 + length ds) = Ok sep) by (rewrite Ht; apply get_at; reflexivity).
  assert (Gp : get t (2 + length ds + 1) = Ok cp).
  { rewrite Ht. change ((ESC :: 93 :: ds) ++ sep :: cp :: r2') with ((ESC :: 93 :: ds) ++ [sep] ++ cp :: r2').
    rewrite app_assoc. apply get_at. rewrite app_length. cbn. lia. }
  change ((sep =? 59) || (sep =? 58)) with (is_sep sep).
  cbn [take_while drop_while].
  destruct (is_print cp) eqn:Ecp.
  2:{ destruct (Nat.ltb 5 (length t)); [|now destruct (is_sep sep)]. rewrite Hg1; cbn [bind]. rewrite Z.eqb_refl.
      destruct (Nat.ltb 2 (2 + length ds) && Nat.ltb (2 + length ds + 1) (length t)); [|now destruct (is_sep sep)].
      rewrite Gs; cbn [bind]. change ((sep =? 59) || (sep =? 58)) with (is_sep sep).
      destruct (is_sep sep); [|reflexivity]. rewrite Gp; cbn [bind]. now rewrite Ecp. }
  assert (D2 := tw_dw is_print r2'). assert (H2 := dw_head is_print r2').
  set (ps' := take_while is_print r2') in *. set (rest3 := drop_while is_print r2') in *.
  cbn [length].
  assert (Ht2 : t = (ESC :: 93 :: ds ++ sep :: cp :: ps') ++ rest3).
  { rewrite Ht, D2. cbn [app]. rewrite <- !app_assoc. reflexivity. }
  assert (Hi : skip_print (skipn (2 + length ds + 2) t) (2 + length ds + 2) = (3 + length ds + S (length ps'))%nat).
  { rewrite skip_print_spec. rewrite Ht.
    change ((ESC :: 93 :: ds) ++ sep :: cp :: r2') with ((ESC :: 93 :: ds) ++ [sep; cp] ++ r2').
    rewrite app_assoc, skipn_at by (rewrite app_length; cbn; lia). fold ps'. lia. }
  assert (Hn2 : length t = (3 + length ds + S (length ps') + length rest3)%nat).
  { rewrite Ht2, app_length. cbn [length]. rewrite app_length. cbn [length]. lia. }
  destruct rest3 as [|tm r3].
  { (* unterminated *)
    destruct (Nat.ltb 5 (length t)); [|now destruct (is_sep sep)]. rewrite Hg1; cbn [bind]. rewrite Z.eqb_refl.
    destruct (Nat.ltb 2 (2 + length ds) && Nat.ltb (2 + length ds + 1) (length t)); [|now destruct (is_sep sep)].
    rewrite Gs; cbn [bind]. change ((sep =? 59) || (sep =? 58)) with (is_sep sep).
    destruct (is_sep sep); [|reflexivity]. rewrite Gp; cbn [bind]. rewrite Ecp.
    unfold match_osc. rewrite Hi.
    replace (Nat.ltb (3 + length ds + S (length ps')) (length t)) with false by (symmetry; apply Nat.ltb_ge; cbn [length] in Hn2; lia).
    reflexivity. }
  cbn [length] in Hn2.
  replace (Nat.ltb 5 (length t)) with true by (symmetry; apply Nat.ltb_lt; lia).
  rewrite Hg1; cbn [bind]. rewrite Z.eqb_refl.
  replace (Nat.ltb 2 (2 + length ds)) with true by (symmetry; apply Nat.ltb_lt; lia).
  replace (Nat.ltb (2 + length ds + 1) (length t)) with true by (symmetry; apply Nat.ltb_lt; lia).
  cbn [andb]. rewrite Gs; cbn [bind]. change ((sep =? 59) || (sep =? 58)) with (is_sep sep).
  destruct (is_sep sep); [|reflexivity]. rewrite Gp; cbn [bind]. rewrite Ecp.
  unfold match_osc. rewrite Hi.
  set (i := (3 + length ds + S (length ps'))%nat) in *.
  replace (Nat.ltb i (length t)) with true by (symmetry; apply Nat.ltb_lt; lia).
  assert (Gt : get t i = Ok tm) by (rewrite Ht2; apply get_at; cbn [length]; rewrite app_length; cbn [length]; lia).
  rewrite Gt; cbn [bind].
  assert (Sl : slice t 0 (S i) = Ok ((ESC :: 93 :: ds ++ sep :: cp :: ps') ++ [tm])).
  { unfold slice. replace (Nat.leb 0 (S i) && Nat.leb (S i) (length t)) with true
      by (symmetry; apply andb_true_iff; split; apply Nat.leb_le; lia).
    cbn [skipn]. rewrite Nat.sub_0_r. f_equal. rewrite Ht2.
    change ((ESC :: 93 :: ds ++ sep :: cp :: ps') ++ tm :: r3) with ((ESC :: 93 :: ds ++ sep :: cp :: ps') ++ [tm] ++ r3).
    rewrite app_assoc. apply firstn_at. rewrite app_length. cbn [length]. rewrite app_length. cbn [length]. lia. }
  destruct (tm =? BEL) eqn:Eb; [reflexivity|].
  change [ESC; 93; 56; 59; 59; ESC] with (osc8_close_head ++ [ESC]).
  destruct (tm =? ESC) eqn:Ee.
  - destruct r3 as [|x r3'].
    + replace (Nat.ltb i (length t - 1)) with false by (symmetry; apply Nat.ltb_ge; cbn [length] in Hn2; lia).
      cbn [bind]. rewrite Sl; cbn [bind]. rewrite str_eqb_snoc, Ee, andb_true_r. destruct (str_eqb _ osc8_close_head); reflexivity.
    + replace (Nat.ltb i (length t - 1)) with true by (symmetry; apply Nat.ltb_lt; cbn [length] in Hn2; lia).
      assert (Gx : get t (S i) = Ok x).
      { rewrite Ht2. change ((ESC :: 93 :: ds ++ sep :: cp :: ps') ++ tm :: x :: r3') with ((ESC :: 93 :: ds ++ sep :: cp :: ps') ++ [tm] ++ x :: r3').
        rewrite app_assoc. apply get_at. rewrite app_length. cbn [length]. rewrite app_length. cbn [length]. lia. }
      rewrite Gx; cbn [bind].
      destruct (x =? 92) eqn:Ex.
      * apply Z.eqb_eq in Ex. subst x. reflexivity.
      * cbn [bind]. rewrite Sl; cbn [bind]. rewrite str_eqb_snoc, Ee, andb_true_r.
        rewrite (match92 x r3' _ _ Ex).
        destruct (str_eqb _ osc8_close_head); reflexivity.
  - cbn [bind]. rewrite Sl; cbn [bind]. rewrite str_eqb_snoc, Ee, andb_false_r. reflexivity.
Qed.
Lemma esc_two_eq r : esc_two (ESC :: r) = Ok (m_esc2 (ESC :: r)).
Proof.
  unfold esc_two, m_esc2. destruct r as [|c r]; [reflexivity|].
  rewrite Z.eqb_refl. cbn [andb length get Nat.ltb Nat.leb bind skipn].
  destruct (negb (c =? LF)); [|reflexivity].
  destruct (c <? 128) eqn:E; [|reflexivity].
  unfold rune_len. now rewrite E.
Qed.

Lemma m_shift_esc r : m_shift (ESC :: r) = None.
Proof. reflexivity. Qed.

Lemma esc_case_eq r : esc_case (ESC :: r) = Ok (alts14 (ESC :: r)).
Proof.
  unfold esc_case, alts14. rewrite esc_csi_eq. cbn [bind].
  destruct (m_csi (ESC :: r)); [reflexivity|].
  rewrite esc_osc_eq. cbn [bind orelse].
  destruct (m_osc (ESC :: r)); [reflexivity|].
  rewrite esc_two_eq, m_shift_esc. cbn [orelse]. destruct (m_esc2 (ESC :: r)); reflexivity.
Qed.

Lemma alts14_other c r : (c =? ESC) = false -> alts14 (c :: r) = if (c =? SO) || (c =? SI) then Some 1%nat else None.
Proof.
  intro E. unfold alts14, m_csi, m_osc, m_esc2, m_shift.
  destruct r as [|d r]; rewrite ?E; cbn [andb orelse]; reflexivity.
Qed.

Lemma last_rune_len_ascii p back : (p <? 128) = true -> last_rune_len (p :: back) = 1%nat.
Proof. intro H. unfold last_rune_len. now rewrite H. Qed.

Lemma scan_loop_eq : forall t rp i, scan_loop rp t i = Ok (fm_back rp t i).
Proof.
  induction t as [|c t' IH]; intros rp i; [reflexivity|].
  cbn [scan_loop fm_back].
  destruct (c =? BS) eqn:Eb.
  - apply Z.eqb_eq in Eb. subst c. rewrite alts14_other by reflexivity. cbn [orb].
    change (BS =? SO) with false. change (BS =? SI) with false. cbn [orb].
    destruct rp as [|p back]; [apply IH|].
    destruct (negb (p =? LF)); [|apply IH].
    destruct (p <? 128) eqn:Ep; [|reflexivity].
    rewrite last_rune_len_ascii by exact Ep. reflexivity.
  - destruct (c =? ESC) eqn:Ee.
    + apply Z.eqb_eq in Ee. subst c. rewrite esc_case_eq. cbn [bind].
      destruct (alts14 (ESC :: t')); [reflexivity|apply IH].
    + rewrite alts14_other by exact Ee.
      destruct ((c =? SO) || (c =? SI)); [|apply IH].
      f_equal. f_equal. f_equal. lia.
Qed.

Lemma prescan_eq : forall t rp i,
  match prescan rp t i with None => Ok None | Some (rp', t'', i') => scan_loop rp' t'' i' end = scan_loop rp t i.
Proof.
  induction t as [|c t' IH]; intros rp i; [reflexivity|].
  cbn [prescan]. destruct ((c =? SO) || (c =? SI) || (c =? ESC) || (c =? BS)) eqn:E; [reflexivity|].
  rewrite IH. cbn [scan_loop].
  apply orb_false_iff in E as [E E4]. apply orb_false_iff in E as [E E3]. apply orb_false_iff in E as [E1 E2].
  now rewrite E4, E3, E1, E2.
Qed.

(* ★ the hand-written scanner (fast pre-scan, CSI/OSC matchers, backspace rule) IS the grammar *)
Theorem scanner_eq_grammar_proof : forall s, next_ansi s = Ok (first_match s).
Proof.
  intro s. unfold next_ansi.
  assert (H := prescan_eq s [] 0%nat).
  destruct (prescan [] s 0) as [[[rp t] i]|]; rewrite H, scan_loop_eq, fm_back_eq_first_match; reflexivity.
Qed.
(* ================= stripping ================= *)
Lemma orelse_some {A} (a b : option A) x : orelse a b = Some x -> a = Some x \/ (a = None /\ b = Some x).
Proof. destruct a; cbn; intro H; [left; congruence|right; auto]. Qed.

Lemma tw_len_le (p : Z -> bool) (s : str) : (length (take_while p s) + length (drop_while p s) = length s)%nat.
Proof. rewrite <- app_length, <- tw_dw. reflexivity. Qed.

(* a match is non-empty, lies inside the string, and has >= 2 bytes when it starts with ESC *)
Lemma match_at_bounds s n : match_at s = Some n -> (1 <= n <= length s)%nat /\ (hd 0 s = ESC -> (2 <= n)%nat).
Proof.
  unfold match_at. intro H.
  apply orelse_some in H as [H|[_ H]].
  { unfold m_csi in H. destruct s as [|e [|c r]]; try discriminate.
    destruct ((e =? ESC) && is_intro c); [|discriminate].
    assert (L := tw_len_le is_param r).
    destruct (drop_while is_param r) as [|f ?] eqn:D; [discriminate|]. destruct (is_final f); [|discriminate].
    inversion H. cbn [length] in *. lia. }
  apply orelse_some in H as [H|[_ H]].
  { unfold m_osc in H. destruct s as [|e [|c r]]; try discriminate.
    destruct ((e =? ESC) && (c =? 93)); [|discriminate].
    assert (L := tw_len_le is_digit r).
    destruct (take_while is_digit r) as [|d0 ds] eqn:T; [discriminate|].
    destruct (drop_while is_digit r) as [|sep r2] eqn:D; [discriminate|].
    destruct (is_sep sep); [|discriminate].
    assert (L2 := tw_len_le is_print r2).
    destruct (take_while is_print r2) as [|p0 ps] eqn:T2; [discriminate|].
    destruct (drop_while is_print r2) as [|tm r3] eqn:D2; [discriminate|].
    cbn [length] in *.
    destruct (tm =? BEL); [inversion H; lia|].
    destruct (tm =? ESC); [|discriminate].
    destruct r3 as [|x r3'].
    - destruct (str_eqb _ _); [inversion H; cbn [length] in *; lia|discriminate].
    - cbn [length] in *.
      assert (n = S (S (3 + S (length ds) + S (length ps))) \/ n = S (3 + S (length ds) + S (length ps)))%nat as [->| ->]; [|lia|lia].
      destruct (x =? 92) eqn:Ex.
      + apply Z.eqb_eq in Ex; subst x. inversion H. now left.
      + rewrite (match92 x r3' _ _ Ex) in H. destruct (str_eqb _ _); [inversion H; now right|discriminate]. }
  apply orelse_some in H as [H|[_ H]].
  { unfold m_esc2 in H. destruct s as [|e [|c r]]; try discriminate.
    destruct ((e =? ESC) && negb (c =? LF)); [|discriminate].
    assert (E : n = (1 + rune_len (c :: r))%nat) by congruence. rewrite E. clear H E.
    assert (B := rune_len_bounds c r). set (rl := rune_len (c :: r)) in *. clearbody rl. cbn [length] in *. split; [lia|intros _; lia]. }
  apply orelse_some in H as [H|[_ H]].
  { unfold m_shift in H. destruct s as [|c r]; [discriminate|].
    destruct ((c =? SO) || (c =? SI)) eqn:E; [|discriminate]. inversion H. cbn [length hd]. split; [lia|].
    intros ->. discriminate. }
  apply m_bs_some in H as (c & r & rest & -> & _ & -> & Hs).
  apply skipn_cons_lt in Hs. assert (B := rune_len_pos c r). cbn [length hd] in *. lia.
Qed.

Lemma strip_skip : forall k r, strip_aux k r = strip_aux 0 (skipn k r).
Proof.
  induction k as [|k IH]; intros r; [reflexivity|].
  destruct r as [|c r]; [reflexivity|]. cbn [strip_aux skipn]. apply IH.
Qed.

Lemma fm_from_shift : forall s off, first_match_from off s =
  match first_match_from 0 s with Some (a, b) => Some ((off + a)%nat, (off + b)%nat) | None => None end.
Proof.
  induction s as [|c s IH]; intro off; [reflexivity|].
  cbn [first_match_from]. destruct (match_at (c :: s)).
  - f_equal. f_equal; lia.
  - rewrite (IH (S off)), (IH 1%nat). destruct (first_match_from 0 s) as [[a b]|]; [|reflexivity].
    f_equal. f_equal; lia.
Qed.

Lemma first_match_bounds s a b : first_match s = Some (a, b) -> (a < b <= length s)%nat.
Proof.
  unfold first_match. revert a b. induction s as [|c s IH]; intros a b H; [discriminate|].
  cbn [first_match_from] in H. destruct (match_at (c :: s)) as [n|] eqn:M.
  - inversion H; subst. apply match_at_bounds in M as [M _]. lia.
  - rewrite fm_from_shift in H. destruct (first_match_from 0 s) as [[a' b']|] eqn:F; [|discriminate].
    inversion H; subst. specialize (IH a' b' eq_refl). cbn [length]. lia.
Qed.

Lemma first_match_at s a b : first_match s = Some (a, b) -> match_at (skipn a s) = Some (b - a)%nat.
Proof.
  unfold first_match. revert a b. induction s as [|c s IH]; intros a b H; [discriminate|].
  cbn [first_match_from] in H. destruct (match_at (c :: s)) as [n|] eqn:M.
  - inversion H; subst. cbn [skipn]. rewrite M. f_equal. lia.
  - rewrite fm_from_shift in H. destruct (first_match_from 0 s) as [[a' b']|] eqn:F; [|discriminate].
    inversion H; subst. cbn [Nat.add skipn]. rewrite (IH a' b' eq_refl). f_equal.
Qed.

(* deleting matches left to right = repeatedly deleting the leftmost match *)
Lemma strip_unfold s : strip_spec s =
  match first_match s with
  | None => s
  | Some (a, b) => firstn a s ++ strip_spec (skipn b s)
  end.
Proof.
  unfold strip_spec, first_match. induction s as [|c s IH]; [reflexivity|].
  cbn [strip_aux first_match_from]. destruct (match_at (c :: s)) as [n|] eqn:M.
  - apply match_at_bounds in M as [[M1 _] _]. cbn [firstn app Nat.add]. rewrite strip_skip.
    destruct n; [lia|]. replace (S n - 1)%nat with n by lia. reflexivity.
  - rewrite fm_from_shift, IH. destruct (first_match_from 0 s) as [[a b]|]; reflexivity.
Qed.
(* ================= totality of interpretCode ================= *)
Lemma get_ok {A} (l : list A) k : (k < length l)%nat -> exists x, get l k = Ok x.
Proof. revert k; induction l as [|a l IH]; intros k H; cbn in H; [lia|]. destruct k; cbn; [eauto|apply IH; lia]. Qed.
Lemma slice_ok s a b : (a <= b <= length s)%nat -> slice s a b = Ok (firstn (b - a) (skipn a s)).
Proof.
  intro H. unfold slice. replace (Nat.leb a b && Nat.leb b (length s)) with true; [reflexivity|].
  symmetry; apply andb_true_iff; split; apply Nat.leb_le; lia.
Qed.

Lemma index_byte_spec c : forall s i k, index_byte c s i = Some k ->
  (i <= k < i + length s)%nat /\ nth_error s (k - i) = Some c.
Proof.
  induction s as [|x s IH]; intros i k H; [discriminate|]. cbn [index_byte] in H.
  destruct (x =? c) eqn:E.
  - inversion H; subst. apply Z.eqb_eq in E. subst. rewrite Nat.sub_diag. cbn. split; [lia|reflexivity].
  - apply IH in H as [H1 H2]. cbn [length]. split; [lia|].
    replace (k - i)%nat with (S (k - S i)) by lia. exact H2.
Qed.

Lemma parse_total s : s <> [] -> exists num rest, parse_ansi_code s = Ok (num, rest) /\ (length rest < length s)%nat.
Proof.
  intro Hs. unfold parse_ansi_code.
  destruct (match index_byte 59 s 0 with Some i => Some i | None => index_byte 58 s 0 end) as [i|] eqn:Ei.
  - assert (Hi : (i < length s)%nat).
    { destruct (index_byte 59 s 0) eqn:E1; [inversion Ei; subst; apply index_byte_spec in E1; lia|apply index_byte_spec in Ei; lia]. }
    rewrite !slice_ok by lia. cbn [bind].
    destruct (firstn (i - 0) (skipn 0 s)); eexists _, _; (split; [reflexivity|]);
      rewrite firstn_length, skipn_length; lia.
  - cbn [bind]. destruct s; [congruence|]. eexists _, _; split; [reflexivity|cbn; lia].
Qed.

Lemma sgr_loop_total : forall fuel code st, (length code < fuel)%nat -> exists st', sgr_loop fuel code st = Ok st'.
Proof.
  induction fuel as [|fuel IH]; intros code st H; [lia|].
  destruct code as [|c code]; [cbn; eauto|].
  cbn [sgr_loop]. destruct (parse_total (c :: code)) as (num & rest & -> & L); [discriminate|].
  cbn [bind]. apply IH. cbn [length] in *. lia.
Qed.

Lemma nth_error_skipn {A} : forall n (l : list A) k, nth_error (skipn n l) k = nth_error l (n + k).
Proof. induction n; intros [|a l] k; cbn; auto. now destruct k. Qed.

Lemma has_suffix_nth s suf k : has_suffix s suf = true -> (k < length suf)%nat ->
  nth_error s (length s - length suf + k) = nth_error suf k.
Proof.
  unfold has_suffix. intros H Hk. apply andb_true_iff in H as [_ H]. apply str_eqb_eq in H.
  now rewrite <- H at 2; rewrite nth_error_skipn.
Qed.
Lemma has_suffix_len s suf : has_suffix s suf = true -> (length suf <= length s)%nat.
Proof. unfold has_suffix. intro H. apply andb_true_iff in H as [H _]. now apply Nat.leb_le. Qed.
Lemma has_prefix_len s pre : has_prefix s pre = true -> (length pre <= length s)%nat.
Proof. unfold has_prefix. intro H. apply andb_true_iff in H as [H _]. now apply Nat.leb_le. Qed.

Lemma interp_total code prev : (1 <= length code)%nat -> (hd 0 code = ESC -> (2 <= length code)%nat) ->
  exists ns fresh, interpret_code code prev = Ok (ns, fresh).
Proof.
  intros H1 H2. unfold interpret_code.
  set (st0 := match prev with None => _ | Some p => p end).
  destruct (get_ok code 0 ltac:(lia)) as (c0 & G0). rewrite G0. cbn [bind].
  assert (Hns : exists b, (if negb (c0 =? ESC) then Ok true else
            do c1 <- get code 1; if negb (c1 =? 91) then Ok true else
            do cl <- get code (length code - 1); Ok (negb (cl =? 109))) = Ok b).
  { destruct (c0 =? ESC) eqn:E0; cbn [negb]; [|eauto].
    apply Z.eqb_eq in E0. assert (hd 0 code = ESC) by (destruct code; cbn in *; [lia|congruence]).
    destruct (get_ok code 1 ltac:(auto)) as (c1 & G1). rewrite G1. cbn [bind].
    destruct (negb (c1 =? 91)); [eauto|].
    destruct (get_ok code (length code - 1) ltac:(lia)) as (cl & Gl). rewrite Gl. cbn [bind]. eauto. }
  destruct Hns as (b & ->). cbn [bind]. destruct b.
  - destruct (match prev with Some _ => has_suffix code [48; 75] | None => false end); [eauto|].
    destruct (has_prefix code OSC8) eqn:Hp; cbn [andb]; [|eauto].
    destruct (has_suffix code ST || has_suffix code [BEL]) eqn:Hsuf; [|eauto].
    apply has_prefix_len in Hp. cbn [OSC8 length] in Hp.
    set (stlen := if has_suffix code [BEL] then 1%nat else 2%nat).
    assert (Hsl : exists suf, has_suffix code suf = true /\ length suf = stlen /\ ~ In 59 suf).
    { unfold stlen. destruct (has_suffix code [BEL]) eqn:Hb.
      - exists [BEL]. repeat split; auto. cbn. unfold BEL. intros [?|[]]; lia.
      - rewrite orb_false_r in Hsuf. exists ST. repeat split; auto. cbn. unfold ESC. intros [?|[?|[]]]; lia. }
    destruct Hsl as (suf & Hsf & Hsl & Hnot).
    assert (C4 : exists c4, (if Nat.eqb (length code) (5 + stlen) then get code 4 else Ok 0) = Ok c4).
    { destruct (Nat.eqb (length code) (5 + stlen)) eqn:E; [|eauto]. apply Nat.eqb_eq in E. apply get_ok. lia. }
    destruct C4 as (c4 & ->). cbn [bind].
    destruct (Nat.eqb (length code) (5 + stlen) && (c4 =? 59)); [eauto|].
    rewrite slice_ok by lia. cbn [bind].
    destruct (index_byte 59 (firstn (length code - 4) (skipn 4 code)) 0) as [pe|] eqn:Ei; [|eauto].
    apply index_byte_spec in Ei as [Hpe Hn]. rewrite Nat.sub_0_r in Hn.
    rewrite firstn_length, skipn_length in Hpe.
    rewrite firstn_all2 in Hn by (rewrite skipn_length; lia). rewrite nth_error_skipn in Hn.
    assert (Hb : (5 + pe <= length code - stlen)%nat).
    { destruct (Nat.le_gt_cases (5 + pe) (length code - stlen)) as [?|G]; [assumption|exfalso].
      apply has_suffix_len in Hsf as Hl.
      assert (Hk : (4 + pe - (length code - length suf) < length suf)%nat) by lia.
      assert (X := has_suffix_nth code suf _ Hsf Hk).
      replace (length code - length suf + (4 + pe - (length code - length suf)))%nat with (4 + pe)%nat in X by lia.
      rewrite Hn in X. symmetry in X. apply nth_error_In in X. contradiction. }
    rewrite !slice_ok by lia. cbn [bind]. eauto.
  - destruct (Nat.leb (length code) 3) eqn:E3; [eauto|]. apply Nat.leb_gt in E3.
    rewrite slice_ok by lia. cbn [bind].
    match goal with |- context [sgr_loop ?f ?c ?s] => destruct (sgr_loop_total f c s ltac:(lia)) as (st' & ->) end.
    cbn [bind]. eauto.
Qed.
(* ================= extractColor ================= *)
Lemma kept_skip : forall k cur r, kept_runes_aux k cur r = kept_runes_aux 0 cur (skipn k r).
Proof.
  induction k as [|k IH]; intros cur r; [reflexivity|].
  destruct r as [|c r]; [reflexivity|]. cbn [kept_runes_aux skipn]. apply IH.
Qed.

Lemma kept_unfold_gen : forall s cur, kept_runes_aux 0 cur s =
  match first_match s with
  | None => rune_count (rev cur ++ s)
  | Some (a, b) => (rune_count (rev cur ++ firstn a s) + kept_runes (skipn b s))%nat
  end.
Proof.
  unfold first_match, kept_runes. induction s as [|c s IH]; intro cur.
  - cbn. now rewrite app_nil_r.
  - cbn [kept_runes_aux first_match_from]. destruct (match_at (c :: s)) as [n|] eqn:M.
    + apply match_at_bounds in M as [[M1 _] _]. cbn [firstn Nat.add]. rewrite app_nil_r, kept_skip.
      destruct n; [lia|]. replace (S n - 1)%nat with n by lia. reflexivity.
    + rewrite fm_from_shift, IH. cbn [rev]. destruct (first_match_from 0 s) as [[a b]|]; cbn [Nat.add firstn skipn];
        rewrite <- !app_assoc; reflexivity.
Qed.
Lemma kept_unfold s : kept_runes s =
  match first_match s with
  | None => rune_count s
  | Some (a, b) => (rune_count (firstn a s) + kept_runes (skipn b s))%nat
  end.
Proof. unfold kept_runes at 1. now rewrite kept_unfold_gen. Qed.

Fixpoint chain_ok (offs : list aoff) (hi : nat) : Prop :=
  match offs with
  | [] => True
  | o :: r => (o_b o <= o_e o <= hi)%nat /\ chain_ok r (o_b o)
  end.
Definition first_is (offs : list aoff) (st : astate) : Prop := exists e tl, offs = tl ++ [mkOff 0 e st].

Lemma chain_mono offs hi hi' : chain_ok offs hi -> (hi <= hi')%nat -> chain_ok offs hi'.
Proof. destruct offs; cbn; [auto|]. intros [H1 H2] L. split; [lia|exact H2]. Qed.

Lemma update_last_ok offs e hi : offs <> [] -> chain_ok offs hi -> (hi <= e)%nat ->
  exists offs', update_last offs e = Ok offs' /\ chain_ok offs' e /\ offs' <> [] /\
                (forall st0, first_is offs st0 -> first_is offs' st0).
Proof.
  destruct offs as [|o r]; [congruence|]. intros _ [H1 H2] L. eexists; split; [reflexivity|].
  cbn. repeat split; try lia; try exact H2; try discriminate.
  intros st0 (e0 & tl & E). destruct tl as [|x tl]; cbn in E; injection E as Eo Er; subst o r.
  - now exists e, [].
  - exists e0, (mkOff (o_b x) e (o_col x) :: tl). reflexivity.
Qed.

Lemma first_is_cons o offs st0 : first_is offs st0 -> first_is (o :: offs) st0.
Proof. intros (e & tl & ->). now exists e, (o :: tl). Qed.

Lemma hd_firstn {A} (d : A) n l : (1 <= n)%nat -> hd d (firstn n l) = hd d l.
Proof. destruct n; [lia|]. now destruct l. Qed.

Lemma ec_loop_spec : forall fuel rest state offs out rc any,
  (length rest < fuel)%nat -> (state <> None -> offs <> []) -> chain_ok offs rc ->
  exists rest' state' offs' out' rc' any',
    ec_loop fuel rest state offs out rc any = Ok (rest', state', offs', out', rc', any') /\
    out' ++ rest' = out ++ strip_spec rest /\
    (state' <> None -> offs' <> []) /\ chain_ok offs' rc' /\
    (rc' + rune_count rest' = rc + kept_runes rest)%nat /\
    (any' = false -> out' = out /\ rest' = rest) /\ (any = true -> any' = true) /\
    (forall st0, first_is offs st0 -> first_is offs' st0) /\ (offs <> [] -> offs' <> []).
Proof.
  induction fuel as [|fuel IH]; intros rest state offs out rc any Hf Hso Hch; [lia|].
  destruct rest as [|c r].
  { cbn [ec_loop]. do 6 eexists. split; [reflexivity|]. repeat split; auto. }
  cbn [ec_loop]. rewrite scanner_eq_grammar_proof. cbn [bind].
  set (rest := c :: r) in *.
  rewrite (strip_unfold rest), (kept_unfold rest).
  destruct (first_match rest) as [[a b]|] eqn:Fm.
  2:{ do 6 eexists. split; [reflexivity|]. repeat split; auto. }
  assert (Hb := first_match_bounds _ _ _ Fm).
  assert (Hm := first_match_at _ _ _ Fm). apply match_at_bounds in Hm as [Hm1 Hm2].
  rewrite !slice_ok by lia. cbn [bind]. rewrite Nat.sub_0_r. cbn [skipn].
  rewrite (firstn_all2 (skipn b rest)) by (rewrite skipn_length; lia).
  set (prev := firstn a rest). set (code := firstn (b - a) (skipn a rest)). set (rest' := skipn b rest).
  assert (Lc : length code = (b - a)%nat) by (unfold code; rewrite firstn_length, skipn_length; lia).
  destruct (interp_total code state) as (ns & fresh & Hi).
  { lia. } { intro E. rewrite Lc. apply Hm2. unfold code in E. now rewrite hd_firstn in E by lia. }
  rewrite Hi. cbn [bind].
  set (rc1 := (rc + rune_count prev)%nat).
  assert (Lr : (length rest' < fuel)%nat) by (unfold rest'; rewrite skipn_length; lia).
  assert (Fin : forall state2 offs2,
     (state2 <> None -> offs2 <> []) -> chain_ok offs2 rc1 ->
     (forall st0, first_is offs st0 -> first_is offs2 st0) -> (offs <> [] -> offs2 <> []) ->
     exists rest'0 state' offs' out' rc' any',
       ec_loop fuel rest' state2 offs2 (out ++ prev) rc1 true = Ok (rest'0, state', offs', out', rc', any') /\
       out' ++ rest'0 = out ++ prev ++ strip_spec rest' /\
       (state' <> None -> offs' <> []) /\ chain_ok offs' rc' /\
       (rc' + rune_count rest'0)%nat = (rc + (rune_count prev + kept_runes rest'))%nat /\
       (any' = false -> out' = out /\ rest'0 = rest) /\ (any = true -> any' = true) /\
       (forall st0, first_is offs st0 -> first_is offs' st0) /\ (offs <> [] -> offs' <> [])).
  { intros state2 offs2 A1 A2 A3 A4.
    destruct (IH rest' state2 offs2 (out ++ prev) rc1 true Lr A1 A2)
      as (r0 & s0 & o0 & ou0 & rc0 & an0 & E & B1 & B2 & B3 & B4 & B5 & B6 & B7 & B8).
    exists r0, s0, o0, ou0, rc0, an0. split; [exact E|].
    rewrite <- app_assoc in B1.
    split; [exact B1|]. split; [exact B2|]. split; [exact B3|]. split; [unfold rc1 in B4; lia|].
    split; [intro X; rewrite (B6 eq_refl) in X; discriminate|].
    split; [intros _; exact (B6 eq_refl)|].
    split; [intros st0 F; apply B7; apply A3; exact F|].
    intro X; apply B8; apply A4; exact X. }
  destruct (negb (st_equals ns fresh state)).
  - assert (U : exists offs1, match state with Some _ => update_last offs rc1 | None => Ok offs end = Ok offs1 /\
               chain_ok offs1 rc1 /\ (forall st0, first_is offs st0 -> first_is offs1 st0) /\ (offs <> [] -> offs1 <> [])).
    { destruct state as [st|].
      - destruct (update_last_ok offs rc1 rc (Hso ltac:(discriminate)) Hch ltac:(unfold rc1; lia)) as (o1 & E & C1 & C2 & C3).
        exists o1. auto.
      - exists offs. repeat split; auto. apply (chain_mono _ rc); [assumption|unfold rc1; lia]. }
    destruct U as (offs1 & -> & C1 & C3 & C4). cbn [bind].
    destruct (colored ns).
    + apply Fin.
      * intros _. discriminate.
      * cbn. repeat split; try lia. exact C1.
      * intros st0 F. apply first_is_cons. auto.
      * intros _. discriminate.
    + apply Fin; auto; try congruence.
  - apply Fin; auto; try (apply (chain_mono _ rc); [assumption|unfold rc1; lia]).
Qed.

Definition be (o : aoff) : nat * nat := (o_b o, o_e o).

Lemma spans_snoc : forall l lo b e n, spans_ok lo l b -> (b <= e <= n)%nat -> spans_ok lo (l ++ [(b, e)]) n.
Proof.
  induction l as [|[b' e'] l IH]; intros lo b e n H L; cbn in *; [lia|].
  destruct H as (H1 & H2 & H3). repeat split; auto.
Qed.
Lemma chain_spans : forall offs hi, chain_ok offs hi -> spans_ok 0 (map be (rev offs)) hi.
Proof.
  induction offs as [|o r IH]; intros hi H; cbn in *; [lia|].
  destruct H as [H1 H2]. rewrite map_app. cbn [map]. apply spans_snoc; auto.
Qed.

(* ★ total + strip + spans + state carry, for all byte strings and all carried states *)
Theorem extract_color_spec : forall s st,
  exists offs st', extract_color s st = Ok (strip_spec s, offs, st') /\
    (forall l, offs = Some l -> spans_ok 0 (map be l) (kept_runes s)) /\
    (forall st0, st = Some st0 -> exists e tl, offs = Some (mkOff 0 e st0 :: tl)).
Proof.
  intros s st. unfold extract_color.
  set (offs0 := match st with Some st0 => [mkOff 0 0 st0] | None => [] end).
  destruct (ec_loop_spec (S (length s)) s st offs0 [] 0%nat false ltac:(lia)) as
    (rest' & st' & offs' & out' & rc' & any' & E & B1 & B2 & B3 & B4 & B5 & _ & B7 & B8).
  { unfold offs0. destruct st; [discriminate|congruence]. }
  { unfold offs0. destruct st; cbn; [lia|exact I]. }
  rewrite E. cbn [bind].
  assert (Ht : (if any' then out' ++ rest' else s) = strip_spec s).
  { destruct any'; [exact B1|]. destruct (B5 eq_refl) as [-> ->]. exact B1. }
  rewrite Ht.
  assert (U : offs' <> [] -> exists offs2, match st' with Some _ => update_last offs' (rc' + rune_count rest')%nat | None => Ok offs' end = Ok offs2 /\
              chain_ok offs2 (rc' + rune_count rest')%nat /\ (forall st0, first_is offs' st0 -> first_is offs2 st0)).
  { intro Hne. destruct st' as [x|].
    - destruct (update_last_ok offs' (rc' + rune_count rest')%nat rc' Hne B3 ltac:(lia)) as (o1 & E1 & C1 & C2 & C3).
      exists o1. auto.
    - exists offs'. repeat split; auto. apply (chain_mono _ rc'); [assumption|lia]. }
  destruct offs' as [|o' r'].
  - exists None, st'. split; [reflexivity|]. split; [discriminate|].
    intros st0 ->. exfalso. apply B8; [discriminate|reflexivity].
  - destruct (U ltac:(discriminate)) as (offs2 & U1 & U2 & U3). rewrite U1. cbn [bind].
    exists (Some (rev offs2)), st'. split; [reflexivity|]. split.
    + intros l X. inversion X; subst l. rewrite B4 in U2. cbn [Nat.add] in U2. now apply chain_spans.
    + intros st0 ->. destruct (U3 st0 (B7 st0 ltac:(now exists 0%nat, []))) as (e & tl & ->).
      exists e, (rev tl). now rewrite rev_app_distr.
Qed.
(* ================= text without control bytes ================= *)
Lemma prescan_plain : forall s rp i, control_free s -> prescan rp s i = None.
Proof.
  induction s as [|c s IH]; intros rp i H; [reflexivity|].
  inversion H as [|? ? Hc Hs]; subst. cbn [prescan].
  unfold is_ctl in Hc.
  replace ((c =? SO) || (c =? SI) || (c =? ESC) || (c =? BS)) with false; [now apply IH|].
  symmetry. apply orb_false_iff in Hc as [Hc H4]. apply orb_false_iff in Hc as [Hc H3]. apply orb_false_iff in Hc as [H1 H2].
  now rewrite H1, H2, H3, H4.
Qed.

Lemma first_match_plain s : control_free s -> first_match s = None.
Proof.
  intro H. assert (E := scanner_eq_grammar_proof s). unfold next_ansi in E.
  rewrite prescan_plain in E by exact H. congruence.
Qed.

Theorem strip_plain_proof : forall s st, control_free s ->
  strip_spec s = s /\ exists offs st', extract_color s st = Ok (s, offs, st').
Proof.
  intros s st H.
  assert (E : strip_spec s = s) by (rewrite strip_unfold, first_match_plain; auto).
  split; [exact E|]. destruct (extract_color_spec s st) as (offs & st' & X & _). rewrite E in X. eauto.
Qed.
(* ================= interleavings of text and complete sequences ================= *)
Lemma tw_app_stop (p : Z -> bool) ps f r : all_true p ps -> p f = false ->
  take_while p (ps ++ f :: r) = ps /\ drop_while p (ps ++ f :: r) = f :: r.
Proof.
  intros H Hf. induction H as [|c ps Hc _ IH]; cbn.
  - now rewrite Hf.
  - rewrite Hc. destruct IH as [-> ->]. auto.
Qed.

Lemma final_ge c : is_final c = true -> 64 <= c.
Proof.
  unfold is_final, in_rng. intro H.
  apply orb_true_iff in H as [H|H]; [apply orb_true_iff in H as [H|H]; apply andb_true_iff in H as [H _]; apply Z.leb_le in H; lia|].
  apply Z.eqb_eq in H. lia.
Qed.
Lemma param_le c : is_param c = true -> c <= 63.
Proof.
  unfold is_param, is_sep, is_digit, in_rng. intro H.
  apply orb_true_iff in H as [H|H]; [|apply Z.eqb_eq in H; lia].
  apply orb_true_iff in H as [H|H].
  - apply andb_true_iff in H as [_ H]. apply Z.leb_le in H. lia.
  - apply orb_true_iff in H as [H|H]; apply Z.eqb_eq in H; lia.
Qed.
Lemma final_not_param f : is_final f = true -> is_param f = false.
Proof. intro H. apply final_ge in H. destruct (is_param f) eqn:E; [apply param_le in E; lia|reflexivity]. Qed.
Lemma sep_not_digit c : is_sep c = true -> is_digit c = false.
Proof.
  unfold is_sep, is_digit, in_rng. intro H. apply orb_true_iff in H as [H|H]; apply Z.eqb_eq in H; subst; reflexivity.
Qed.

Lemma len_cons {A} (a : A) l : length (a :: l) = S (length l).
Proof. reflexivity. Qed.
Ltac lens := repeat (rewrite len_cons || rewrite app_length); change (@length Z []) with 0%nat.

Lemma seq_exact q : wf_seq q -> forall rest, match_at (q ++ rest) = Some (length q).
Proof.
  intros W rest. destruct W as [i ps f Hi Hps Hf | ds sep ps tm Hds Dds Hsep Hps Pps Htm | w [Hw Hr] Hlf Hin H93 | c Hc | w [Hw Hr] Hlf Hctl].
  - unfold match_at. replace (m_csi ((ESC :: i :: ps ++ [f]) ++ rest)) with (Some (length (ESC :: i :: ps ++ [f]))); [reflexivity|].
    cbn [app]. rewrite <- app_assoc. cbn [app]. unfold m_csi. rewrite Z.eqb_refl, Hi. cbn [andb].
    destruct (tw_app_stop is_param ps f rest Hps (final_not_param f Hf)) as [-> ->]. rewrite Hf.
    f_equal. lens. lia.
  - unfold match_at. replace (m_csi ((ESC :: 93 :: ds ++ sep :: ps ++ tm) ++ rest)) with (@None nat) by reflexivity.
    cbn [orelse].
    replace (m_osc ((ESC :: 93 :: ds ++ sep :: ps ++ tm) ++ rest)) with (Some (length (ESC :: 93 :: ds ++ sep :: ps ++ tm))); [reflexivity|].
    cbn [app]. rewrite <- app_assoc. cbn [app]. rewrite <- app_assoc.
    unfold m_osc. rewrite Z.eqb_refl. cbn [andb Z.eqb Pos.eqb].
    destruct (tw_app_stop is_digit ds sep (ps ++ tm ++ rest) Dds (sep_not_digit sep Hsep)) as [-> ->].
    destruct ds as [|d0 ds']; [congruence|]. rewrite Hsep.
    assert (Ht : exists t0 r0, tm ++ rest = t0 :: r0 /\ is_print t0 = false /\ (t0 = BEL \/ t0 = ESC)).
    { destruct Htm as [->| ->]; cbn; eauto 6. }
    destruct Ht as (t0 & r0 & Et & Pt & _). rewrite Et.
    destruct (tw_app_stop is_print ps t0 r0 Pps Pt) as [-> ->].
    destruct ps as [|p0 ps']; [congruence|].
    destruct Htm as [->| ->]; cbn in Et; inversion Et; subst.
    + rewrite Z.eqb_refl. f_equal. lens. lia.
    + change (ESC =? BEL) with false. rewrite Z.eqb_refl. f_equal. lens. lia.
  - destruct w as [|h w']; [congruence|]. cbn [hd] in *. unfold match_at.
    replace (m_csi ((ESC :: h :: w') ++ rest)) with (@None nat) by (cbn [app]; unfold m_csi; now rewrite Hin, andb_false_r).
    assert (E93 : (h =? 93) = false) by now apply Z.eqb_neq.
    replace (m_osc ((ESC :: h :: w') ++ rest)) with (@None nat) by (cbn [app]; unfold m_osc; now rewrite E93, andb_false_r).
    cbn [orelse app]. unfold m_esc2. rewrite Z.eqb_refl. apply Z.eqb_neq in Hlf. rewrite Hlf. cbn [andb negb orelse].
    change (h :: w' ++ rest) with ((h :: w') ++ rest). rewrite Hr. reflexivity.
  - rewrite match_at_alts. cbn [app]. rewrite alts14_other by (destruct Hc; subst; reflexivity).
    replace ((c =? SO) || (c =? SI)) with true by (destruct Hc; subst; reflexivity). reflexivity.
  - destruct w as [|h w']; [congruence|]. cbn [hd] in *. rewrite match_at_alts, <- app_assoc. cbn [app].
    unfold is_ctl in Hctl. apply orb_false_iff in Hctl as [Hctl _]. apply orb_false_iff in Hctl as [Hctl H3]. apply orb_false_iff in Hctl as [H1 H2].
    rewrite alts14_other by exact H1. rewrite H2, H3. cbn [orb orelse].
    unfold m_bs. apply Z.eqb_neq in Hlf. rewrite Hlf.
    change (h :: w' ++ BS :: rest) with ((h :: w') ++ BS :: rest). rewrite Hr, skipn_app_len, Z.eqb_refl.
    f_equal. lens. lia.
Qed.

Definition starts_ok (R : str) : Prop := match R with [] => True | x :: _ => x <> BS end.

Lemma text_no_match u R : control_free u -> u <> [] -> (forall rest, (rune_len (u ++ rest) <= length u)%nat) ->
  starts_ok R -> match_at (u ++ R) = None.
Proof.
  intros Hc Hu Hl HR. destruct u as [|c t]; [congruence|].
  inversion Hc as [|? ? Hcc Hct]; subst.
  rewrite match_at_alts. cbn [app].
  unfold is_ctl in Hcc. apply orb_false_iff in Hcc as [Hcc _]. apply orb_false_iff in Hcc as [Hcc H3]. apply orb_false_iff in Hcc as [H1 H2].
  rewrite alts14_other by exact H1. rewrite H2, H3. cbn [orb orelse].
  destruct (m_bs (c :: t ++ R)) as [k|] eqn:Em; [exfalso|reflexivity].
  apply m_bs_some in Em as (h & r & rest & _ & _ & _ & Hs).
  specialize (Hl R). cbn [app] in Hl.
  set (rl := rune_len (c :: t ++ R)) in *.
  destruct (Nat.eq_dec rl (length (c :: t))) as [E|E].
  - rewrite E in Hs. change (c :: t ++ R) with ((c :: t) ++ R) in Hs. rewrite skipn_app_len in Hs.
    subst R. cbn in HR. congruence.
  - apply skipn_nth_error in Hs. change (c :: t ++ R) with ((c :: t) ++ R) in Hs.
    rewrite nth_error_app1 in Hs by lia. apply nth_error_In in Hs.
    unfold control_free in Hc. rewrite Forall_forall in Hc. specialize (Hc BS Hs). discriminate.
Qed.

Lemma self_contained_tl c t : self_contained (c :: t) -> self_contained t.
Proof. intros H pre u rest E Hu. apply (H (c :: pre) u rest); [now rewrite E|exact Hu]. Qed.

Lemma text_then : forall t R, control_free t -> self_contained t -> starts_ok R ->
  strip_aux 0 (t ++ R) = t ++ strip_aux 0 R.
Proof.
  induction t as [|c t IH]; intros R Hc Hs HR; [reflexivity|].
  assert (M : match_at ((c :: t) ++ R) = None).
  { apply text_no_match; auto; [discriminate|]. intro rest. apply (Hs [] (c :: t) rest); [reflexivity|discriminate]. }
  cbn [app] in *. cbn [strip_aux]. rewrite M. f_equal.
  inversion Hc; subst. apply IH; auto. now apply self_contained_tl in Hs.
Qed.

Lemma seq_head_ok q : wf_seq q -> exists h r, q = h :: r /\ h <> BS.
Proof.
  intros [i ps f _ _ _ | ds sep ps tm _ _ _ _ _ _ | w [Hw _] _ _ _ | c Hc | w [Hw _] _ Hctl].
  - eexists _, _; split; [reflexivity|]. unfold ESC, BS; lia.
  - eexists _, _; split; [reflexivity|]. unfold ESC, BS; lia.
  - eexists _, _; split; [reflexivity|]. unfold ESC, BS; lia.
  - eexists _, _; split; [reflexivity|]. destruct Hc; subst; unfold SO, SI, BS; lia.
  - destruct w as [|h w']; [congruence|]. exists h, (w' ++ [BS]). split; [reflexivity|].
    cbn [hd] in Hctl. intros ->. discriminate.
Qed.

(* ★ a stream of control-free text and complete sequences strips to exactly its text:
   no sequence swallows what follows it, no text is lost *)
Theorem strip_interleaving_proof : forall ps, Forall piece_ok ps -> strip_spec (render_pieces ps) = texts_of ps.
Proof.
  unfold strip_spec, render_pieces, texts_of.
  intros ps H.
  assert (G : strip_aux 0 (concat (map (fun p => match p with TX t => t | SQ q => q end) ps))
              = concat (map (fun p => match p with TX t => t | SQ _ => [] end) ps)
              /\ starts_ok (concat (map (fun p => match p with TX t => t | SQ q => q end) ps))).
  { induction H as [|p ps Hp _ [IH1 IH2]]; [split; [reflexivity|exact I]|].
    cbn [map concat]. destruct p as [t|q]; cbn [piece_ok] in Hp.
    - destruct Hp as [Hc Hs]. split.
      + rewrite text_then by assumption. now rewrite IH1.
      + destruct t as [|c t]; [exact IH2|]. cbn. inversion Hc as [|? ? Hcc _]; subst. intros ->. discriminate.
    - destruct (seq_head_ok q Hp) as (h & r & Eq & Hh). split.
      + assert (M := seq_exact q Hp (concat (map (fun p => match p with TX t => t | SQ q0 => q0 end) ps))).
        rewrite Eq in *. cbn [app strip_aux]. cbn [app] in M. rewrite M. cbn [length app].
        rewrite strip_skip. replace (S (length r) - 1)%nat with (length r) by lia.
        rewrite skipn_app_len. exact IH1.
      + rewrite Eq. cbn. exact Hh. }
  exact (proj1 G).
Qed.

(* ASCII text is self-contained and ASCII characters are whole *)
Lemma ascii_self_contained t : Forall (fun c => c < 128) t -> self_contained t.
Proof.
  intros H pre u rest E Hu. destruct u as [|c u]; [congruence|].
  assert (Hc : c < 128). { rewrite Forall_forall in H. apply H. rewrite E. apply in_or_app. right. now left. }
  cbn [app]. unfold rune_len. apply Z.ltb_lt in Hc. rewrite Hc. cbn. lia.
Qed.
Lemma ascii_whole_rune c : c < 128 -> whole_rune [c].
Proof. intro H. split; [discriminate|]. intro rest. cbn [app]. unfold rune_len. apply Z.ltb_lt in H. now rewrite H. Qed.
(* ================= SGR: interpretCode = reference interpreter on the documented domain ================= *)
Definition enc_state (a : sgr) (l : Z) (u : option url) : astate :=
  mkA (enc_colour (s_fg a)) (enc_colour (s_bg a)) (enc_attrs (s_at a)) l u.
Definition enc_i (a : sgr) (s256 : Z) (pb : bool) (n : nat) : istate :=
  mkI (enc_colour (s_fg a)) (enc_colour (s_bg a)) (enc_attrs (s_at a)) s256 pb n.

Ltac attrs_cases a := destruct a as [[] [] [] [] [] [] []]; reflexivity.
Lemma at_set1 a : Z.lor (enc_attrs a) A_BOLD = enc_attrs (set_at a 1 true). Proof. attrs_cases a. Qed.
Lemma at_set2 a : Z.lor (enc_attrs a) A_DIM = enc_attrs (set_at a 2 true). Proof. attrs_cases a. Qed.
Lemma at_set3 a : Z.lor (enc_attrs a) A_ITALIC = enc_attrs (set_at a 3 true). Proof. attrs_cases a. Qed.
Lemma at_set4 a : Z.lor (enc_attrs a) A_UNDERLINE = enc_attrs (set_at a 4 true). Proof. attrs_cases a. Qed.
Lemma at_set5 a : Z.lor (enc_attrs a) A_BLINK = enc_attrs (set_at a 5 true). Proof. attrs_cases a. Qed.
Lemma at_set7 a : Z.lor (enc_attrs a) A_REVERSE = enc_attrs (set_at a 7 true). Proof. attrs_cases a. Qed.
Lemma at_set9 a : Z.lor (enc_attrs a) A_STRIKE = enc_attrs (set_at a 9 true). Proof. attrs_cases a. Qed.
Lemma at_clr22 a : Z.ldiff (Z.ldiff (enc_attrs a) A_BOLD) A_DIM = enc_attrs (set_at (set_at a 1 false) 2 false). Proof. attrs_cases a. Qed.
Lemma at_clr3 a : Z.ldiff (enc_attrs a) A_ITALIC = enc_attrs (set_at a 3 false). Proof. attrs_cases a. Qed.
Lemma at_clr4 a : Z.ldiff (enc_attrs a) A_UNDERLINE = enc_attrs (set_at a 4 false). Proof. attrs_cases a. Qed.
Lemma at_clr5 a : Z.ldiff (enc_attrs a) A_BLINK = enc_attrs (set_at a 5 false). Proof. attrs_cases a. Qed.
Lemma at_clr7 a : Z.ldiff (enc_attrs a) A_REVERSE = enc_attrs (set_at a 7 false). Proof. attrs_cases a. Qed.
Lemma at_clr9 a : Z.ldiff (enc_attrs a) A_STRIKE = enc_attrs (set_at a 9 false). Proof. attrs_cases a. Qed.

Lemma step_simple p a pb n : (p =? 38) = false -> (p =? 48) = false -> 0 <= p ->
  step_num (enc_i a 0 pb n) p = enc_i (sgr_one p a) 0 pb (S n).
Proof.
  intros E38 E48 Hp. destruct a as [f b at_]. unfold step_num, enc_i, sgr_one.
  cbn [i_256 i_fg i_bg i_attr i_ptr_bg i_count s_fg s_bg s_at set_fg set_bg set_attr with_fg with_bg with_at].
  change (0 =? 0) with true. cbv iota. rewrite E38, E48.
  destruct (p =? 39) eqn:E39. { apply Z.eqb_eq in E39; subst p. reflexivity. }
  destruct (p =? 49) eqn:E49. { apply Z.eqb_eq in E49; subst p. reflexivity. }
  destruct (p =? 1) eqn:E1. { apply Z.eqb_eq in E1; subst p. cbn. now rewrite at_set1. }
  destruct (p =? 2) eqn:E2. { apply Z.eqb_eq in E2; subst p. cbn. now rewrite at_set2. }
  destruct (p =? 3) eqn:E3. { apply Z.eqb_eq in E3; subst p. cbn. now rewrite at_set3. }
  destruct (p =? 4) eqn:E4. { apply Z.eqb_eq in E4; subst p. cbn. now rewrite at_set4. }
  destruct (p =? 5) eqn:E5. { apply Z.eqb_eq in E5; subst p. cbn. now rewrite at_set5. }
  destruct (p =? 7) eqn:E7. { apply Z.eqb_eq in E7; subst p. cbn. now rewrite at_set7. }
  destruct (p =? 9) eqn:E9. { apply Z.eqb_eq in E9; subst p. cbn. now rewrite at_set9. }
  destruct (p =? 22) eqn:E22. { apply Z.eqb_eq in E22; subst p. cbn. now rewrite at_clr22. }
  destruct (p =? 23) eqn:E23. { apply Z.eqb_eq in E23; subst p. cbn. now rewrite at_clr3. }
  destruct (p =? 24) eqn:E24. { apply Z.eqb_eq in E24; subst p. cbn. now rewrite at_clr4. }
  destruct (p =? 25) eqn:E25. { apply Z.eqb_eq in E25; subst p. cbn. now rewrite at_clr5. }
  destruct (p =? 27) eqn:E27. { apply Z.eqb_eq in E27; subst p. cbn. now rewrite at_clr7. }
  destruct (p =? 29) eqn:E29. { apply Z.eqb_eq in E29; subst p. cbn. now rewrite at_clr9. }
  destruct (p =? 0) eqn:E0. { apply Z.eqb_eq in E0; subst p. reflexivity. }
  cbn [orb].
  destruct (in_rng 30 37 p) eqn:R1. { reflexivity. }
  assert (N39 : (p =? 39) = false) by exact E39. 
  destruct (in_rng 40 47 p) eqn:R2. { reflexivity. }
  destruct (in_rng 90 97 p) eqn:R3. { reflexivity. }
  destruct (in_rng 100 107 p) eqn:R4. { reflexivity. }
  reflexivity.
Qed.

Lemma wrap32_id x : 0 <= x < 2147483648 -> wrap32 x = x.
Proof. intro H. unfold wrap32. rewrite Z.mod_small by lia. lia. Qed.
Lemma wrap64_id x : 0 <= x < 9223372036854775808 -> wrap64 x = x.
Proof. intro H. unfold wrap64. rewrite Z.mod_small by lia. lia. Qed.

Lemma lor_add hi lo k : 0 <= k -> 0 <= lo < 2 ^ k -> Z.lor (hi * 2 ^ k) lo = hi * 2 ^ k + lo.
Proof.
  intros Hk Hlo. rewrite <- Z.shiftl_mul_pow2 by lia.
  assert (L : Z.land (Z.shiftl hi k) lo = 0).
  { apply Z.bits_inj'. intros n Hn. rewrite Z.land_spec, Z.bits_0.
    destruct (Z.lt_ge_cases n k) as [Lt|Ge].
    - rewrite Z.shiftl_spec_low by lia. reflexivity.
    - destruct (Z.eq_dec lo 0) as [->|Ne]; [now rewrite Z.bits_0, andb_false_r|].
      rewrite (Z.bits_above_log2 lo n); [now rewrite andb_false_r|lia|].
      apply Z.log2_lt_pow2; [lia|]. apply Z.lt_le_trans with (2 ^ k); [lia|]. apply Z.pow_le_mono_r; lia. }
  rewrite Z.add_nocarry_lxor by exact L. symmetry. now apply Z.lxor_lor.
Qed.

Lemma rgb_lor r g b : 0 <= r <= 255 -> 0 <= g <= 255 -> 0 <= b <= 255 ->
  Z.lor (Z.lor (Z.lor 16777216 (wrap32 (r * 65536))) (wrap32 (g * 256))) (wrap32 b) = 16777216 + r * 65536 + g * 256 + b.
Proof.
  intros Hr Hg Hb. rewrite !wrap32_id by lia.
  assert (P24 : 2 ^ 24 = 16777216) by reflexivity.
  assert (P16 : 2 ^ 16 = 65536) by reflexivity.
  assert (P8 : 2 ^ 8 = 256) by reflexivity.
  assert (S1 := lor_add 1 (r * 65536) 24 ltac:(lia) ltac:(rewrite P24; lia)). rewrite P24, Z.mul_1_l in S1. rewrite S1.
  assert (S2 := lor_add (256 + r) (g * 256) 16 ltac:(lia) ltac:(rewrite P16; lia)). rewrite P16 in S2.
  replace (16777216 + r * 65536) with ((256 + r) * 65536) by lia. rewrite S2.
  assert (S3 := lor_add (65536 + r * 256 + g) b 8 ltac:(lia) ltac:(rewrite P8; lia)). rewrite P8 in S3.
  replace ((256 + r) * 65536 + g * 256) with ((65536 + r * 256 + g) * 256) by lia. rewrite S3. lia.
Qed.

Lemma byte_val_rng n : byte_val n = true -> 0 <= n <= 255.
Proof. unfold byte_val, in_rng. intro H. apply andb_true_iff in H as [H1 H2]. apply Z.leb_le in H1, H2. lia. Qed.

Lemma st38 f b t pb n : step_num (mkI f b t 0 pb n) 38 = mkI f b t 1 false (S n). Proof. reflexivity. Qed.
Lemma st48 f b t pb n : step_num (mkI f b t 0 pb n) 48 = mkI f b t 1 true (S n). Proof. reflexivity. Qed.
Lemma s1_5 f b t pb n : step_num (mkI f b t 1 pb n) 5 = mkI f b t 2 pb (S n). Proof. reflexivity. Qed.
Lemma s1_2 f b t pb n : step_num (mkI f b t 1 pb n) 2 = mkI f b t 10 pb (S n). Proof. reflexivity. Qed.
Lemma s2_fg f b t n v : step_num (mkI f b t 2 false n) v = mkI (wrap32 v) b t 0 false (S n). Proof. reflexivity. Qed.
Lemma s2_bg f b t n v : step_num (mkI f b t 2 true n) v = mkI f (wrap32 v) t 0 true (S n). Proof. reflexivity. Qed.
Lemma s10_fg f b t n v : step_num (mkI f b t 10 false n) v = mkI (Z.lor 16777216 (wrap32 (v * 65536))) b t 11 false (S n). Proof. reflexivity. Qed.
Lemma s10_bg f b t n v : step_num (mkI f b t 10 true n) v = mkI f (Z.lor 16777216 (wrap32 (v * 65536))) t 11 true (S n). Proof. reflexivity. Qed.
Lemma s11_fg f b t n v : step_num (mkI f b t 11 false n) v = mkI (Z.lor f (wrap32 (v * 256))) b t 12 false (S n). Proof. reflexivity. Qed.
Lemma s11_bg f b t n v : step_num (mkI f b t 11 true n) v = mkI f (Z.lor b (wrap32 (v * 256))) t 12 true (S n). Proof. reflexivity. Qed.
Lemma s12_fg f b t n v : step_num (mkI f b t 12 false n) v = mkI (Z.lor f (wrap32 v)) b t 0 false (S n). Proof. reflexivity. Qed.
Lemma s12_bg f b t n v : step_num (mkI f b t 12 true n) v = mkI f (Z.lor b (wrap32 v)) t 0 true (S n). Proof. reflexivity. Qed.

Lemma idx_fg a pb n v : 0 <= v <= 255 ->
  step_num (step_num (step_num (enc_i a 0 pb n) 38) 5) v = enc_i (with_fg a (CIdx v)) 0 false (S (S (S n))).
Proof. intro H. unfold enc_i. rewrite st38, s1_5, s2_fg, wrap32_id by lia. reflexivity. Qed.
Lemma idx_bg a pb n v : 0 <= v <= 255 ->
  step_num (step_num (step_num (enc_i a 0 pb n) 48) 5) v = enc_i (with_bg a (CIdx v)) 0 true (S (S (S n))).
Proof. intro H. unfold enc_i. rewrite st48, s1_5, s2_bg, wrap32_id by lia. reflexivity. Qed.
Lemma rgb_fg a pb n r g b : 0 <= r <= 255 -> 0 <= g <= 255 -> 0 <= b <= 255 ->
  step_num (step_num (step_num (step_num (step_num (enc_i a 0 pb n) 38) 2) r) g) b
  = enc_i (with_fg a (CRGB r g b)) 0 false (S (S (S (S (S n))))).
Proof. intros. unfold enc_i. rewrite st38, s1_2, s10_fg, s11_fg, s12_fg, rgb_lor by lia. reflexivity. Qed.
Lemma rgb_bg a pb n r g b : 0 <= r <= 255 -> 0 <= g <= 255 -> 0 <= b <= 255 ->
  step_num (step_num (step_num (step_num (step_num (enc_i a 0 pb n) 48) 2) r) g) b
  = enc_i (with_bg a (CRGB r g b)) 0 true (S (S (S (S (S n))))).
Proof. intros. unfold enc_i. rewrite st48, s1_2, s10_bg, s11_bg, s12_bg, rgb_lor by lia. reflexivity. Qed.

Lemma wf_inv fuel p r : sgr_wf_aux (S fuel) (p :: r) = true ->
  ((p =? 38) = false /\ (p =? 48) = false /\ 0 <= p /\ sgr_wf_aux fuel r = true) \/
  ((p = 38 \/ p = 48) /\
   ((exists v r', r = 5 :: v :: r' /\ 0 <= v <= 255 /\ sgr_wf_aux fuel r' = true) \/
    (exists cr cg cb r', r = 2 :: cr :: cg :: cb :: r' /\ 0 <= cr <= 255 /\ 0 <= cg <= 255 /\ 0 <= cb <= 255 /\ sgr_wf_aux fuel r' = true))).
Proof.
  cbn [sgr_wf_aux]. intro W.
  destruct ((p =? 38) || (p =? 48)) eqn:E.
  - right. split; [apply orb_true_iff in E as [E|E]; apply Z.eqb_eq in E; auto|].
    destruct r as [|m r]; [discriminate|].
    assert (Hm : m = 5 \/ m = 2).
    { destruct m as [|m|m]; try discriminate W.
      destruct m as [m|m|]; try discriminate W.
      - destruct m as [m|m|]; try discriminate W. destruct m as [m|m|]; try discriminate W. now left.
      - destruct m as [m|m|]; try discriminate W. now right. }
    destruct Hm as [->| ->].
    + left. destruct r as [|v r']; [discriminate|]. apply andb_true_iff in W as [Bv W]. apply byte_val_rng in Bv. eauto.
    + right. destruct r as [|cr [|cg [|cb r']]]; try discriminate.
      apply andb_true_iff in W as [W W4]. apply andb_true_iff in W as [W W3]. apply andb_true_iff in W as [W1 W2].
      apply byte_val_rng in W1, W2, W3. exists cr, cg, cb, r'. auto.
  - left. apply orb_false_iff in E as [E38 E48]. apply andb_true_iff in W as [Hp W]. apply Z.leb_le in Hp. auto.
Qed.

Lemma sp_simple fuel p r a : (p =? 38) = false -> (p =? 48) = false ->
  sgr_params (S fuel) (p :: r) a = sgr_params fuel r (sgr_one p a).
Proof. intros E1 E2. cbn [sgr_params]. now rewrite E1, E2. Qed.
Lemma sp_idx38 fuel v r a : sgr_params (S fuel) (38 :: 5 :: v :: r) a = sgr_params fuel r (with_fg a (CIdx v)). Proof. reflexivity. Qed.
Lemma sp_idx48 fuel v r a : sgr_params (S fuel) (48 :: 5 :: v :: r) a = sgr_params fuel r (with_bg a (CIdx v)). Proof. reflexivity. Qed.
Lemma sp_rgb38 fuel x y z r a : sgr_params (S fuel) (38 :: 2 :: x :: y :: z :: r) a = sgr_params fuel r (with_fg a (CRGB x y z)). Proof. reflexivity. Qed.
Lemma sp_rgb48 fuel x y z r a : sgr_params (S fuel) (48 :: 2 :: x :: y :: z :: r) a = sgr_params fuel r (with_bg a (CRGB x y z)). Proof. reflexivity. Qed.

Definition steps_goal (fuel : nat) (ps : list Z) (a : sgr) (pb : bool) (n : nat) : Prop :=
  exists pb', fold_left step_num ps (enc_i a 0 pb n) = enc_i (sgr_params fuel ps a) 0 pb' (n + length ps)%nat.

Lemma sc_simple fuel p r a pb n : (p =? 38) = false -> (p =? 48) = false -> 0 <= p ->
  steps_goal fuel r (sgr_one p a) pb (S n) -> steps_goal (S fuel) (p :: r) a pb n.
Proof.
  intros E38 E48 Hp (pb' & Eq). exists pb'. rewrite sp_simple by assumption.
  cbn [fold_left]. rewrite step_simple by assumption. rewrite Eq. cbn [length]. f_equal. lia.
Qed.
Lemma sc_idx38 fuel v r a pb n : 0 <= v <= 255 ->
  steps_goal fuel r (with_fg a (CIdx v)) false (S (S (S n))) -> steps_goal (S fuel) (38 :: 5 :: v :: r) a pb n.
Proof.
  intros Hv (pb' & Eq). exists pb'. rewrite sp_idx38. cbn [fold_left]. rewrite idx_fg by lia. rewrite Eq. cbn [length]. f_equal. lia.
Qed.
Lemma sc_idx48 fuel v r a pb n : 0 <= v <= 255 ->
  steps_goal fuel r (with_bg a (CIdx v)) true (S (S (S n))) -> steps_goal (S fuel) (48 :: 5 :: v :: r) a pb n.
Proof.
  intros Hv (pb' & Eq). exists pb'. rewrite sp_idx48. cbn [fold_left]. rewrite idx_bg by lia. rewrite Eq. cbn [length]. f_equal. lia.
Qed.
Lemma fl_cons {A B} (f : A -> B -> A) x l a : fold_left f (x :: l) a = fold_left f l (f a x). Proof. reflexivity. Qed.
Lemma sc_rgb38 fuel x y z r a pb n : 0 <= x <= 255 -> 0 <= y <= 255 -> 0 <= z <= 255 ->
  steps_goal fuel r (with_fg a (CRGB x y z)) false (S (S (S (S (S n))))) -> steps_goal (S fuel) (38 :: 2 :: x :: y :: z :: r) a pb n.
Proof.
  intros Hx Hy Hz (pb' & Eq). exists pb'. rewrite sp_rgb38. rewrite !fl_cons. rewrite (rgb_fg a pb n x y z Hx Hy Hz). rewrite Eq.
  replace (n + length (38%Z :: 2%Z :: x :: y :: z :: r))%nat with (S (S (S (S (S n)))) + length r)%nat by (cbn [length]; lia). reflexivity.
Qed.
Lemma sc_rgb48 fuel x y z r a pb n : 0 <= x <= 255 -> 0 <= y <= 255 -> 0 <= z <= 255 ->
  steps_goal fuel r (with_bg a (CRGB x y z)) true (S (S (S (S (S n))))) -> steps_goal (S fuel) (48 :: 2 :: x :: y :: z :: r) a pb n.
Proof.
  intros Hx Hy Hz (pb' & Eq). exists pb'. rewrite sp_rgb48. rewrite !fl_cons. rewrite (rgb_bg a pb n x y z Hx Hy Hz). rewrite Eq.
  replace (n + length (48%Z :: 2%Z :: x :: y :: z :: r))%nat with (S (S (S (S (S n)))) + length r)%nat by (cbn [length]; lia). reflexivity.
Qed.

(* running the state machine over a well-formed parameter list = the reference interpreter *)
Lemma steps_params : forall fuel ps a pb n, sgr_wf_aux fuel ps = true -> (length ps <= fuel)%nat -> steps_goal fuel ps a pb n.
Proof.
  induction fuel as [|fuel IH]; intros ps a pb n W L.
  { destruct ps; [|cbn in L; lia]. exists pb. cbn. now rewrite Nat.add_0_r. }
  destruct ps as [|p r]. { exists pb. cbn. now rewrite Nat.add_0_r. }
  apply wf_inv in W.
  destruct W as [(E38 & E48 & Hp & W)|(Hp & [(v & r' & -> & Hv & W)|(cr & cg & cb & r' & -> & Hr & Hg & Hb & W)])];
    cbn [length] in L.
  - apply sc_simple; auto. apply IH; [assumption|lia].
  - destruct Hp as [->| ->]; [apply sc_idx38|apply sc_idx48]; auto; apply IH; auto; lia.
  - destruct Hp as [->| ->]; [apply sc_rgb38|apply sc_rgb48]; auto; apply IH; auto; lia.
Qed.
(* ---- decimal parameters ---- *)
Definition dstep (acc d : Z) : Z := acc * 10 + (d - 48).
Lemma dec_val_fold ds : dec_val ds = fold_left dstep ds 0. Proof. reflexivity. Qed.

Lemma digit_rng d : is_digit d = true -> 48 <= d <= 57.
Proof. unfold is_digit, in_rng. intro H. apply andb_true_iff in H as [H1 H2]. apply Z.leb_le in H1, H2. lia. Qed.

Lemma dfold_mono : forall ds acc, forallb is_digit ds = true -> 0 <= acc -> acc <= fold_left dstep ds acc.
Proof.
  induction ds as [|d r IH]; intros acc H Ha; cbn [fold_left]; [lia|].
  cbn [forallb] in H. apply andb_true_iff in H as [Hd Hr]. apply digit_rng in Hd.
  assert (X := IH (dstep acc d) Hr ltac:(unfold dstep; lia)). unfold dstep in *. lia.
Qed.

Lemma atoi_ok : forall ds acc, forallb is_digit ds = true -> 0 <= acc ->
  fold_left dstep ds acc < 9223372036854775808 -> atoi_loop ds acc = fold_left dstep ds acc.
Proof.
  induction ds as [|d r IH]; intros acc H Ha Hb; cbn [fold_left atoi_loop]; [reflexivity|].
  cbn [forallb] in H. apply andb_true_iff in H as [Hd Hr]. apply digit_rng in Hd.
  cbn [fold_left] in Hb.
  assert (M := dfold_mono r (dstep acc d) Hr ltac:(unfold dstep; lia)).
  rewrite Z.mod_small by lia.
  replace (9 <? d - 48) with false by (symmetry; apply Z.ltb_ge; lia).
  change (acc * 10 + (d - 48)) with (dstep acc d).
  rewrite wrap64_id by (unfold dstep in *; lia). apply IH; auto. unfold dstep; lia.
Qed.

Definition param_ok (ds : str) : Prop := all_digits ds = true /\ dec_val ds < 2147483648.

Lemma param_ok_inv ds : param_ok ds -> ds <> [] /\ forallb is_digit ds = true /\ 0 <= dec_val ds < 2147483648
  /\ (forall d, In d ds -> d <> 59 /\ d <> 58).
Proof.
  intros [H1 H2]. unfold all_digits in H1. apply andb_true_iff in H1 as [Hn Hd].
  split; [destruct ds; [discriminate|discriminate]|]. split; [exact Hd|]. split.
  - split; [|exact H2]. rewrite dec_val_fold. apply (dfold_mono ds 0 Hd). lia.
  - intros d Hin. rewrite forallb_forall in Hd. apply Hd, digit_rng in Hin. lia.
Qed.

Lemma index_byte_none c : forall ds i, (forall d, In d ds -> d <> c) -> index_byte c ds i = None.
Proof.
  induction ds as [|x r IH]; intros i H; [reflexivity|]. cbn [index_byte].
  replace (x =? c) with false by (symmetry; apply Z.eqb_neq, H; now left).
  apply IH. intros d Hd. apply H. now right.
Qed.
Lemma index_byte_app c : forall ds rest i, (forall d, In d ds -> d <> c) ->
  index_byte c (ds ++ c :: rest) i = Some (i + length ds)%nat.
Proof.
  induction ds as [|x r IH]; intros rest i H; cbn [app index_byte length].
  - rewrite Z.eqb_refl. f_equal. lia.
  - replace (x =? c) with false by (symmetry; apply Z.eqb_neq, H; now left).
    rewrite IH by (intros d Hd; apply H; now right). f_equal. lia.
Qed.

Lemma parse_last ds : param_ok ds -> parse_ansi_code ds = Ok (dec_val ds, []).
Proof.
  intro P. destruct (param_ok_inv ds P) as (Hn & Hd & Hv & Hs).
  unfold parse_ansi_code.
  rewrite (index_byte_none 59) by (intros d Hin; apply Hs; exact Hin).
  rewrite (index_byte_none 58) by (intros d Hin; apply Hs; exact Hin).
  cbn [bind]. destruct ds as [|d r]; [congruence|].
  rewrite atoi_ok; auto; try lia. rewrite <- dec_val_fold. lia.
Qed.

Lemma parse_sep ds rest : param_ok ds -> parse_ansi_code (ds ++ 59 :: rest) = Ok (dec_val ds, rest).
Proof.
  intro P. destruct (param_ok_inv ds P) as (Hn & Hd & Hv & Hs).
  unfold parse_ansi_code.
  rewrite (index_byte_app 59) by (intros d Hin; apply Hs; exact Hin).
  assert (S1 : slice (ds ++ 59 :: rest) (S (0 + length ds)) (length (ds ++ 59 :: rest)) = Ok rest).
  { rewrite slice_ok by (rewrite app_length; cbn [length]; lia). f_equal.
    replace (skipn (S (0 + length ds)) (ds ++ 59 :: rest)) with rest
      by (change (ds ++ 59 :: rest) with (ds ++ [59] ++ rest); rewrite app_assoc, skipn_at; [reflexivity|rewrite app_length; cbn; lia]).
    apply firstn_all2. rewrite app_length. cbn [length]. lia. }
  assert (S2 : slice (ds ++ 59 :: rest) 0 (0 + length ds) = Ok ds).
  { rewrite slice_ok by (rewrite app_length; cbn [length]; lia). f_equal. cbn [skipn]. apply firstn_at. lia. }
  rewrite S1, S2. cbn [bind].
  destruct ds as [|d r]; [congruence|].
  rewrite atoi_ok; auto; try lia. rewrite <- dec_val_fold. lia.
Qed.

Lemma join_cons2 (a b : str) (r : list str) : concat_map_sep 59 (a :: b :: r) = a ++ 59 :: concat_map_sep 59 (b :: r).
Proof. reflexivity. Qed.

Lemma sgr_loop_join : forall dss fuel st, dss <> [] -> Forall param_ok dss ->
  (length (concat_map_sep 59 dss) < fuel)%nat ->
  sgr_loop fuel (concat_map_sep 59 dss) st = Ok (fold_left step_num (map dec_val dss) st).
Proof.
  induction dss as [|ds r IH]; intros fuel st Hne Hok Hf; [congruence|].
  inversion Hok as [|? ? P Pr]; subst.
  destruct (param_ok_inv ds P) as (Hn & _ & Hv & _).
  destruct fuel as [|fuel]; [lia|].
  destruct r as [|b r].
  - cbn [concat_map_sep map fold_left]. destruct ds as [|d0 ds']; [congruence|].
    cbn [sgr_loop]. rewrite parse_last by exact P. cbn [bind].
    replace (dec_val (d0 :: ds') =? -1) with false by (symmetry; apply Z.eqb_neq; lia).
    destruct fuel; reflexivity.
  - rewrite join_cons2 in *. cbn [map fold_left].
    destruct ds as [|d0 ds']; [congruence|].
    cbn [app sgr_loop]. change (d0 :: ds' ++ 59 :: concat_map_sep 59 (b :: r)) with ((d0 :: ds') ++ 59 :: concat_map_sep 59 (b :: r)).
    rewrite parse_sep by exact P. cbn [bind].
    replace (dec_val (d0 :: ds') =? -1) with false by (symmetry; apply Z.eqb_neq; lia).
    apply IH; [discriminate|exact Pr|]. rewrite app_length in Hf. cbn [length] in Hf. lia.
Qed.

Lemma get_last {A} (l : list A) x : get (l ++ [x]) (length (l ++ [x]) - 1) = Ok x.
Proof. rewrite app_length. cbn [length]. replace (length l + 1 - 1)%nat with (length l) by lia. now apply get_at. Qed.

(* ★ on the documented domain (non-empty decimal parameters separated by ';', extended colours complete and
   in range) interpretCode computes what a terminal does, and leaves line background and hyperlink alone *)
Theorem sgr_eq_proof : forall dss a l u prev,
  Forall param_ok dss -> sgr_wf (map dec_val dss) = true ->
  (prev = Some (enc_state a l u) \/ (prev = None /\ a = sgr_reset /\ l = -1 /\ u = None)) ->
  interpret_code (render_sgr dss) prev = Ok (enc_state (sgr_apply (map dec_val dss) a) l u, false).
Proof.
  intros dss a l u prev Hok Hwf Hprev.
  assert (St0 : match prev with None => mkA (-1) (-1) 0 (-1) None | Some p => p end = enc_state a l u).
  { destruct Hprev as [->|(-> & -> & -> & ->)]; reflexivity. }
  unfold interpret_code. rewrite St0. clear St0.
  set (body := concat_map_sep 59 dss).
  unfold render_sgr. fold body.
  change (ESC :: 91 :: body ++ [109]) with ((ESC :: 91 :: body) ++ [109]).
  rewrite get_last. cbn [app get bind]. rewrite Z.eqb_refl. cbn [negb].
  change (91 =? 91) with true. cbn [negb]. change (109 =? 109) with true. cbn [negb bind].
  destruct dss as [|d0 dss'].
  - cbn. reflexivity.
  - assert (Hb : (1 <= length body)%nat).
    { inversion Hok as [|? ? P _]; subst. destruct (param_ok_inv d0 P) as (Hn & _).
      unfold body. destruct dss'; [cbn|rewrite join_cons2, app_length]; destruct d0; try congruence; cbn; lia. }
    change (ESC :: 91 :: body ++ [109]) with ((ESC :: 91 :: body) ++ [109]).
    rewrite app_length. cbn [length].
    replace (Nat.leb (S (S (length body)) + 1) 3) with false by (symmetry; apply Nat.leb_gt; lia).
    rewrite slice_ok by (rewrite app_length; cbn [length]; lia).
    replace (S (S (length body)) + 1 - 1 - 2)%nat with (length body) by lia.
    cbn [skipn app]. rewrite firstn_at by reflexivity. cbn [bind].
    unfold body. rewrite sgr_loop_join; [|discriminate|exact Hok|lia]. cbn [bind].
    unfold sgr_wf in Hwf.
    destruct (steps_params (length (map dec_val (d0 :: dss'))) (map dec_val (d0 :: dss')) a false 0%nat Hwf (Nat.le_refl _)) as (pb' & Eq).
    change (mkI (fg (enc_state a l u)) (bg (enc_state a l u)) (attr (enc_state a l u)) 0 false 0) with (enc_i a 0 false 0).
    rewrite Eq. unfold enc_i. cbn [i_count i_256 i_fg i_bg i_attr Nat.add].
    cbn [map length Nat.eqb]. change (0 <? 0) with false. cbv iota.
    unfold sgr_apply. cbn [map length]. reflexivity.
Qed.
