(* C15 proofs, part 2: the header changes during a session (model/RenderDynModel.v).
   For the layouts in which the window row of a line does not depend on the header (default, reverse):
   after ANY history of header changes, field updates and render requests, the list rows of the screen buffer are
   those a full redraw of the final state paints on an erased window - in particular a row the list took over from
   the header shows its result line and nothing of the header.  The invariant says, for EVERY line above the
   prompt section (header and list lines alike), that its prevLines entry describes what the row shows, or is
   marked `other`, in which case printItem rewrites the row from scratch.
   For the reverse-list layout the statement is false of the faithful model: dyn_incremental_refuted_reverse_list. *)
From Fzf Require Import Prelude RenderSpec RenderModel RenderProofs RenderDynModel.
Open Scope nat_scope.

(* ---------- printItem / printList with the `other` flag, in terms of RenderModel's ---------- *)
(* forceRedraw := !valid || other: an entry marked `other` acts like the zero value *)
Definition eff (po : iline * bool) : iline := if snd po then il_none else fst po.
Definition effp (x : (iline * bool) * row) : iline * row := (eff (fst x), snd x).
(* markOtherLine and markEmptyLine exclude each other *)
Definition flag_ok (x : (iline * bool) * row) : Prop := snd (fst x) = true -> il_empty (fst (fst x)) = false.

Lemma print_item_d_eff w ts cy qlen sel pos m p o r :
  print_item_d w ts cy qlen sel pos m ((p, o), r) =
  (let '(p', r') := print_item w ts cy qlen sel pos m (eff (p, o), r) in ((p', false), r')).
Proof.
  destruct o; unfold eff; cbn [fst snd].
  - unfold print_item_d, print_item. rewrite orb_true_r. cbn [il_valid il_none negb andb orb]. reflexivity.
  - unfold print_item_d, print_item. rewrite orb_false_r.
    destruct (negb (negb (il_valid p)) && Bool.eqb (il_cur p) (pos =? cy) && Bool.eqb (il_sel p) (memb (fst m) sel) &&
              (il_qlen p =? qlen) && idx_is (il_idx p) (fst m)); reflexivity.
Qed.

Lemma draw_rows_d_eff w ts cy qlen sel xs : forall pos ms, Forall flag_ok xs ->
  map effp (draw_rows_d w ts cy qlen sel pos ms xs) = draw_rows w ts cy qlen sel pos ms (map effp xs) /\
  Forall flag_ok (draw_rows_d w ts cy qlen sel pos ms xs).
Proof.
  induction xs as [|x xs IH]; intros pos ms Hf; [cbn; auto|].
  inversion Hf as [|? ? Hx Hxs]; subst. destruct x as [[p o] r]. cbn [draw_rows_d map draw_rows].
  destruct ms as [|m ms'].
  - destruct (IH pos [] Hxs) as [E F]. cbn [fst snd]. unfold flag_ok in Hx. cbn [fst snd] in Hx.
    destruct o.
    + rewrite (Hx eq_refl). unfold effp at 2. unfold eff. cbn [fst snd il_empty il_none]. split.
      * cbn [map]. rewrite E. reflexivity.
      * constructor; [|exact F]. unfold flag_ok. cbn. discriminate.
    + unfold effp at 2. unfold eff. cbn [fst snd]. destruct (il_empty p) eqn:He; split.
      * cbn [map]. rewrite E. reflexivity.
      * constructor; [|exact F]. unfold flag_ok. cbn. discriminate.
      * cbn [map]. rewrite E. reflexivity.
      * constructor; [|exact F]. unfold flag_ok. cbn. discriminate.
  - destruct (IH (S pos) ms' Hxs) as [E F].
    rewrite (print_item_d_eff w ts cy qlen sel pos m p o r).
    unfold effp at 2. cbn [fst snd].
    destruct (print_item w ts cy qlen sel pos m (eff (p, o), r)) as [p' r']. split.
    + cbn [map]. rewrite E. reflexivity.
    + constructor; [|exact F]. unfold flag_ok. cbn. discriminate.
Qed.

(* ---------- lists ---------- *)
Lemma nth_app_mid {A} (a b : list A) y d : length a <= y -> nth y (a ++ b) d = nth (y - length a) b d.
Proof. intros. apply app_nth2. lia. Qed.
Lemma nth_map_d {A B} (f : A -> B) l i da db : i < length l -> nth i (map f l) db = f (nth i l da).
Proof. intros Hi. rewrite (nth_indep _ db (f da)) by (rewrite map_length; exact Hi). apply map_nth. Qed.
Lemma nth_repeat_same {A} (v : A) k y : nth y (repeat v k) v = v.
Proof. revert y; induction k; destruct y; cbn; auto. Qed.
Lemma skipn_eq_nth {A} (l l' : list A) s d : skipn s l' = skipn s l -> forall y, s <= y -> nth y l' d = nth y l d.
Proof.
  intros E y Hy. replace y with (s + (y - s)) by lia. rewrite <- !nth_skipn_add, E. reflexivity.
Qed.
Lemma mark_from_length {A} (v : A) n : forall line l, length (mark_from v line n l) = length l.
Proof. induction n; intros; cbn; [auto|]. now rewrite IHn, upd_at_length. Qed.
Lemma mark_from_out {A} (v : A) n : forall line l z d, z < line \/ line + n <= z -> nth z (mark_from v line n l) d = nth z l d.
Proof.
  induction n; intros line l z d Hz; cbn; [auto|].
  rewrite IHn by lia. apply nth_upd_at_neq. lia.
Qed.
Lemma mark_from_in {A} (v : A) n : forall line l z d, line <= z -> z < line + n -> z < length l -> nth z (mark_from v line n l) d = v.
Proof.
  induction n; intros line l z d H1 H2 H3; cbn; [lia|].
  destruct (Nat.eq_dec z line) as [->|Hne].
  - rewrite mark_from_out by lia. now rewrite nth_upd_at_eq.
  - apply IHn; try lia. now rewrite upd_at_length.
Qed.
Lemma header_from_row_len w ts hs : 3 <= w -> forall line scr z, line <= z -> z < line + length hs -> z < length scr ->
  length (nth z (print_header_from w ts line hs scr) []) = w.
Proof.
  intros Hw. induction hs as [|h hs IH]; intros line scr z H1 H2 H3; cbn [length] in H2; [lia|].
  cbn [print_header_from]. destruct (Nat.eq_dec z line) as [->|Hne].
  - rewrite header_from_nth by lia. rewrite nth_upd_at_eq by exact H3.
    rewrite clear0, put0_pad by (cbn; lia). rewrite pad_length, app_length, item_text_show.
    pose proof (show_length ts (w - 3) h). cbn [length]. lia.
  - apply IH; try lia. now rewrite upd_at_length.
Qed.

(* ---------- the invariant ---------- *)
Section Dyn.
  Variable txt_of : nat -> str.
  Variable c0 : cfg.
  Let W := c_w c0.
  Let TS := c_tabstop c0.
  Let H := c_h c0.
  Let PL := prompt_lines c0.

  (* a configuration that differs from c0 in the header only *)
  Definition framed (c : cfg) : Prop :=
    c_w c = W /\ c_h c = H /\ c_tabstop c = TS /\ prompt_lines c = PL /\ c_layout c = c_layout c0 /\ cfg_ok c.
  Lemma framed_with h : cfg_ok (with_hdr c0 h) -> framed (with_hdr c0 h).
  Proof. intros Hc. repeat split; auto; apply Hc. Qed.

  Definition trip (d : dterm) (y : nat) : (iline * bool) * row :=
    ((nth y (t_prev (d_t d)) il_none, nth y (d_other d) false), nth y (t_screen (d_t d)) []).
  Definition pair_ok_d (x : (iline * bool) * row) : Prop := pair_ok txt_of W TS (effp x) /\ flag_ok x.
  Definition ginv (d : dterm) : Prop :=
    length (t_screen (d_t d)) = H /\ length (t_prev (d_t d)) = H /\ length (d_other d) = H /\
    forall y, PL <= y -> y < H -> pair_ok_d (trip d y).

  Lemma framed_st c : framed c -> list_start c + max_items c = H /\ PL <= list_start c /\ 3 <= W /\ 1 <= PL /\
                                   list_start c = PL + nheader c.
  Proof.
    intros (E1 & E2 & E3 & E4 & E5 & Hc). destruct (st_n c Hc) as [A B]. pose proof (pl_pos c).
    unfold list_start in *. repeat split; try lia.
  Qed.

  (* what a row holds when nothing is known about it: any row of the right length under the zero entry *)
  Lemma pair_ok_d_none r o p : length r = W -> (o = true -> il_empty p = false) -> o = true \/ p = il_none ->
    pair_ok_d ((p, o), r).
  Proof.
    intros Hl Hf Hc. split; [|exact Hf]. unfold effp, eff. cbn [fst snd].
    assert (E : (if o then il_none else p) = il_none) by (destruct Hc as [->| ->]; [reflexivity|now destruct o]).
    rewrite E. cbn. repeat split; auto; discriminate.
  Qed.

  Definition dfresh (c : cfg) (d : dterm) : Prop := fresh c (d_t d).

  (* printList *)
  Lemma print_list_at_d_ok c d : framed c -> ginv d -> coherent txt_of (t_matches (d_t d)) ->
    ginv (print_list_at_d c d) /\ dfresh c (print_list_at_d c d) /\ t_view (d_t (print_list_at_d c d)) = t_view (d_t d) /\
    d_hdr (print_list_at_d c d) = d_hdr d.
  Proof.
    intros Hfr (Hs & Hp & Ho & Hy) Hm. destruct (framed_st c Hfr) as (Hsn & Hpl & HW & Hpl1 & _).
    destruct Hfr as (E1 & E2 & E3 & E4 & E5 & Hc).
    unfold print_list_at_d. set (t := d_t d) in *. set (st := list_start c) in *. set (n := max_items c) in *.
    rewrite E1, E3. fold W TS.
    assert (F1 : firstn n (skipn st (t_prev t)) = skipn st (t_prev t)).
    { rewrite <- (firstn_all (skipn st (t_prev t))) at 2. f_equal. rewrite skipn_length. lia. }
    assert (F2 : firstn n (skipn st (d_other d)) = skipn st (d_other d)).
    { rewrite <- (firstn_all (skipn st (d_other d))) at 2. f_equal. rewrite skipn_length. lia. }
    assert (F3 : firstn n (skipn st (t_screen t)) = skipn st (t_screen t)).
    { rewrite <- (firstn_all (skipn st (t_screen t))) at 2. f_equal. rewrite skipn_length. lia. }
    rewrite F1, F2, F3.
    set (seg := combine (combine (skipn st (t_prev t)) (skipn st (d_other d))) (skipn st (t_screen t))).
    assert (Lseg : length seg = n).
    { unfold seg. rewrite !combine_length, !skipn_length. lia. }
    assert (Nseg : forall i, i < n -> nth i seg ((il_none, false), []) = trip d (st + i)).
    { intros i Hi. unfold seg. rewrite combine_nth by (rewrite combine_length, !skipn_length; lia).
      rewrite combine_nth by (rewrite !skipn_length; lia). rewrite !nth_skipn_add. reflexivity. }
    assert (Fseg : Forall pair_ok_d seg).
    { apply Forall_nth. intros i dflt Hi. rewrite Lseg in Hi.
      rewrite (nth_indep seg dflt ((il_none, false), [])) by lia. rewrite Nseg by exact Hi. apply Hy; lia. }
    assert (Hco : coherent txt_of (skipn (t_off t) (t_matches t))).
    { unfold coherent in *. rewrite Forall_forall in *. intros m Hin. apply Hm.
      rewrite <- (firstn_skipn (t_off t)). apply in_or_app. now right. }
    assert (Fp : Forall (pair_ok txt_of W TS) (map effp seg)).
    { apply Forall_map. eapply Forall_impl; [|exact Fseg]. intros x [A _]. exact A. }
    assert (Ff : Forall flag_ok seg).
    { eapply Forall_impl; [|exact Fseg]. intros x [_ B]. exact B. }
    destruct (draw_rows_ok txt_of W HW TS (t_cy t) (length (t_query t)) (t_sel t) (map effp seg) (t_off t) _ Fp Hco) as (D1 & D2 & D3).
    destruct (draw_rows_d_eff W TS (t_cy t) (length (t_query t)) (t_sel t) seg (t_off t) (skipn (t_off t) (t_matches t)) Ff) as (B1 & B2).
    set (seg' := draw_rows_d W TS (t_cy t) (length (t_query t)) (t_sel t) (t_off t) (skipn (t_off t) (t_matches t)) seg) in *.
    rewrite <- B1 in D1, D2, D3. rewrite map_length in D2. rewrite (map_length effp seg) in D2, D3.
    assert (Lseg' : length seg' = n) by lia.
    assert (Fseg' : Forall pair_ok_d seg').
    { pose proof (proj1 (Forall_map effp (pair_ok txt_of W TS) seg') D1) as D1'.
      rewrite Forall_forall in D1', B2 |- *. intros x Hx. split; [exact (D1' x Hx)|exact (B2 x Hx)]. }
    assert (Ssnd : map snd seg' = map (slot W TS (t_cy t) (t_sel t) (t_off t) (skipn (t_off t) (t_matches t))) (seq 0 n)).
    { rewrite <- Lseg, <- D3, map_map. reflexivity. }
    assert (K1 : skipn (st + n) (t_screen t) = []) by (apply skipn_all2; lia).
    assert (K2 : skipn (st + n) (t_prev t) = []) by (apply skipn_all2; lia).
    assert (K3 : skipn (st + n) (d_other d) = []) by (apply skipn_all2; lia).
    rewrite K1, K2, K3, !app_nil_r.
    assert (L1 : length (firstn st (t_screen t)) = st) by (rewrite firstn_length; lia).
    assert (L2 : length (firstn st (t_prev t)) = st) by (rewrite firstn_length; lia).
    assert (L3 : length (firstn st (d_other d)) = st) by (rewrite firstn_length; lia).
    split; [|split; [|split]]; [| |reflexivity|reflexivity].
    - unfold ginv, dset. cbn [d_t d_other set_draw t_screen t_prev]. fold t.
      rewrite !app_length, !map_length, L1, L2, L3, Lseg'. split; [lia|]. split; [lia|]. split; [lia|].
      intros y Hy1 Hy2. unfold trip. cbn [d_t d_other set_draw t_screen t_prev]. fold t.
      destruct (Nat.lt_ge_cases y st) as [Hlt|Hge].
      + rewrite !app_nth1 by lia. rewrite !nth_firstn_lt by exact Hlt. apply (Hy y Hy1 Hy2).
      + rewrite !nth_app_mid by lia. rewrite L1, L2, L3.
        set (i := y - st). assert (Hi : i < n) by (unfold i; lia).
        rewrite Forall_nth in Fseg'. specialize (Fseg' i ((il_none, false), []) ltac:(lia)).
        rewrite !(nth_map_d _ seg' i ((il_none, false), [])) by lia. destruct (nth i seg' ((il_none, false), [])) as [[p o] r]. exact Fseg'.
    - unfold dfresh, fresh, list_seg, dset. cbn [d_t set_draw t_screen]. fold t st n.
      rewrite skipn_app, L1, Nat.sub_diag, (skipn_all2 (firstn st (t_screen t))) by lia. cbn [skipn app].
      rewrite firstn_all2 by (rewrite map_length; lia). rewrite Ssnd. apply map_ext. intros k.
      rewrite <- E1, <- E3. exact (slot_is_spec c t k).
  Qed.

  Lemma print_list_d_ok c d : framed c -> ginv d -> coherent txt_of (t_matches (d_t d)) ->
    ginv (print_list_d c d) /\ dfresh c (print_list_d c d) /\ t_matches (d_t (print_list_d c d)) = t_matches (d_t d) /\
    t_sel (d_t (print_list_d c d)) = t_sel (d_t d) /\ d_hdr (print_list_d c d) = d_hdr d.
  Proof.
    intros Hfr Hg Hm.
    destruct (constrain (length (t_matches (d_t d))) (max_items c) scroll_off_default (t_cy (d_t d)) (t_off (d_t d))) as [cy off] eqn:Hcon.
    assert (E : print_list_d c d = print_list_at_d c (mkDT (set_scroll (d_t d) cy off) (d_other d) (d_hdr d))).
    { unfold print_list_d. rewrite Hcon. reflexivity. }
    rewrite E. clear E Hcon.
    destruct (print_list_at_d_ok c (mkDT (set_scroll (d_t d) cy off) (d_other d) (d_hdr d)) Hfr Hg Hm) as (A & B & C & D).
    split; [exact A|]. split; [exact B|]. split; [|split; [|exact D]].
    - change (v_matches (t_view (d_t (print_list_at_d c (mkDT (set_scroll (d_t d) cy off) (d_other d) (d_hdr d))))) = t_matches (d_t d)).
      now rewrite C.
    - change (v_sel (t_view (d_t (print_list_at_d c (mkDT (set_scroll (d_t d) cy off) (d_other d) (d_hdr d))))) = t_sel (d_t d)).
      now rewrite C.
  Qed.

  (* drawing on the lines of the prompt section *)
  Lemma lift_above_ok c (f : term -> term) d : framed c -> ginv d ->
    length (t_screen (f (d_t d))) = length (t_screen (d_t d)) ->
    skipn PL (t_screen (f (d_t d))) = skipn PL (t_screen (d_t d)) -> t_prev (f (d_t d)) = t_prev (d_t d) ->
    ginv (lift f d) /\ list_seg c (d_t (lift f d)) = list_seg c (d_t d).
  Proof.
    intros Hfr (Hs & Hp & Ho & Hy) Hl Hk Hpv. destruct (framed_st c Hfr) as (Hsn & Hpl & HW & Hpl1 & _).
    split.
    - unfold ginv, lift. cbn [d_t d_other]. rewrite Hl, Hpv. split; [exact Hs|]. split; [exact Hp|]. split; [exact Ho|].
      intros y Hy1 Hy2. unfold trip. cbn [d_t d_other]. rewrite Hpv.
      pose proof (skipn_eq_nth _ _ PL (@nil Z) Hk y Hy1) as X.
      assert (X' : nth y (t_screen (f (d_t d))) ([] : row) = nth y (t_screen (d_t d)) ([] : row)) by exact X.
      rewrite X'. apply (Hy y Hy1 Hy2).
    - unfold list_seg, lift. cbn [d_t]. f_equal.
      replace (list_start c) with (PL + (list_start c - PL)) by lia. rewrite <- !skipn_skipn_add, Hk. reflexivity.
  Qed.

  Lemma print_prompt_d_ok c d : framed c -> ginv d ->
    ginv (lift (print_prompt c) d) /\ list_seg c (d_t (lift (print_prompt c) d)) = list_seg c (d_t d).
  Proof.
    intros Hfr Hg. destruct (framed_st c Hfr) as (_ & _ & _ & Hpl1 & _).
    apply lift_above_ok; auto; unfold print_prompt; cbn [set_draw t_screen t_prev]; auto.
    - apply upd_at_length.
    - apply upd_at_skipn. lia.
  Qed.
  Lemma print_info_d_ok c d : framed c -> ginv d ->
    ginv (lift (print_info c) d) /\ list_seg c (d_t (lift (print_info c) d)) = list_seg c (d_t d).
  Proof.
    intros Hfr Hg. destruct (framed_st c Hfr) as (_ & _ & _ & Hpl1 & _).
    pose proof Hfr as (_ & _ & _ & E4 & _).
    apply lift_above_ok; auto; unfold print_info; cbn [set_draw t_screen t_prev]; auto.
    - destruct (c_info c); try destruct (c_sep c); rewrite ?upd_at_length; reflexivity.
    - rewrite <- E4 in *. unfold prompt_lines in *.
      destruct (c_info c); try destruct (c_sep c); rewrite ?upd_at_skipn by lia; reflexivity.
  Qed.

  (* printHeader: the header rows are rewritten and marked; nothing else changes *)
  Lemma print_header_d_ok c d : framed c -> ginv d ->
    ginv (print_header_d c d) /\ list_seg c (d_t (print_header_d c d)) = list_seg c (d_t d) /\
    t_view (d_t (print_header_d c d)) = t_view (d_t d) /\ d_hdr (print_header_d c d) = d_hdr d.
  Proof.
    intros Hfr (Hs & Hp & Ho & Hy). destruct (framed_st c Hfr) as (Hsn & Hpl & HW & Hpl1 & Hst).
    destruct Hfr as (E1 & E2 & E3 & E4 & E5 & Hc).
    assert (Hk : length (hdr_logical c) = nheader c) by apply hdr_logical_length.
    unfold print_header_d. rewrite E1, E3, E4. fold W TS PL. set (hs := hdr_logical c) in *. set (t := d_t d) in *.
    destruct (header_from_keeps W TS hs PL (t_screen t) (list_start c) ltac:(lia)) as [K1 K2].
    split; [|split; [|split]]; [| |reflexivity|reflexivity].
    - unfold ginv, dset. cbn [d_t d_other set_draw t_screen t_prev]. fold t.
      rewrite K1, !mark_from_length. split; [exact Hs|]. split; [exact Hp|]. split; [exact Ho|].
      intros y Hy1 Hy2. unfold trip. cbn [d_t d_other set_draw t_screen t_prev]. fold t.
      destruct (Nat.lt_ge_cases y (PL + length hs)) as [Hin|Hout].
      + rewrite !mark_from_in by lia. apply pair_ok_d_none; auto.
        apply header_from_row_len; lia.
      + rewrite !mark_from_out by lia.
        pose proof (skipn_eq_nth _ _ (list_start c) (@nil Z) K2 y ltac:(lia)) as X.
        assert (X' : nth y (print_header_from W TS PL hs (t_screen t)) ([] : row) = nth y (t_screen t) ([] : row)) by exact X.
        rewrite X'. apply (Hy y Hy1 Hy2).
    - unfold list_seg, dset. cbn [d_t set_draw t_screen]. fold t. now rewrite K2.
  Qed.

  (* printAll on rows of the right length: prevLines is forgotten, every row is rewritten *)
  Definition rows_ok (d : dterm) : Prop :=
    length (t_screen (d_t d)) = H /\ forall y, PL <= y -> y < H -> length (nth y (t_screen (d_t d)) []) = W.
  Lemma ginv_rows_ok d : ginv d -> rows_ok d.
  Proof. intros (Hs & _ & _ & Hy). split; auto. intros y A B. destruct (Hy y A B) as [(L & _) _]. exact L. Qed.

  Lemma print_all_d_ok c d : framed c -> rows_ok d -> coherent txt_of (t_matches (d_t d)) ->
    ginv (print_all_d c d) /\ dfresh c (print_all_d c d) /\ t_matches (d_t (print_all_d c d)) = t_matches (d_t d) /\
    t_sel (d_t (print_all_d c d)) = t_sel (d_t d) /\ d_hdr (print_all_d c d) = d_hdr d.
  Proof.
    intros Hfr (Hs & Hr) Hm. unfold print_all_d.
    set (d0 := dset d (t_screen (d_t d)) (repeat il_none (c_h c)) (repeat false (c_h c))).
    assert (G0 : ginv d0).
    { destruct Hfr as (E1 & E2 & E3 & E4 & E5 & Hc). unfold ginv, d0, dset. cbn [d_t d_other set_draw t_screen t_prev].
      rewrite !repeat_length, E2. split; [exact Hs|]. split; [reflexivity|]. split; [reflexivity|]. intros y A B. unfold trip. cbn [d_t d_other set_draw t_screen t_prev].
      rewrite !nth_repeat_same. apply pair_ok_d_none; auto; discriminate. }
    destruct (print_list_d_ok c d0 Hfr G0 Hm) as (A1 & A2 & A3 & A4 & A5).
    destruct (print_prompt_d_ok c _ Hfr A1) as (B1 & B2).
    destruct (print_info_d_ok c _ Hfr B1) as (C1 & C2).
    destruct (print_header_d_ok c _ Hfr C1) as (D1 & D2 & D3 & D4).
    split; [exact D1|]. split; [|split; [|split]].
    - unfold dfresh in *. eapply fresh_keep; [exact A2|now rewrite D2, C2, B2|rewrite D3; reflexivity..].
    - change (v_matches (t_view (d_t (print_header_d c (lift (print_info c) (lift (print_prompt c) (print_list_d c d0)))))) = t_matches (d_t d)).
      rewrite D3. exact A3.
    - change (v_sel (t_view (d_t (print_header_d c (lift (print_info c) (lift (print_prompt c) (print_list_d c d0)))))) = t_sel (d_t d)).
      rewrite D3. exact A4.
    - rewrite D4. exact A5.
  Qed.

  Lemma full_redraw_d_ok c d : framed c -> coherent txt_of (t_matches (d_t d)) ->
    ginv (full_redraw_d c d) /\ dfresh c (full_redraw_d c d) /\ t_matches (d_t (full_redraw_d c d)) = t_matches (d_t d) /\
    t_sel (d_t (full_redraw_d c d)) = t_sel (d_t d) /\ d_hdr (full_redraw_d c d) = d_hdr d.
  Proof.
    intros Hfr Hm. unfold full_redraw_d.
    set (d1 := dset d (repeat (blank (c_w c)) (c_h c)) (t_prev (d_t d)) (d_other d)).
    assert (R : rows_ok d1).
    { destruct Hfr as (E1 & E2 & E3 & E4 & E5 & Hc). unfold rows_ok, d1, dset. cbn [d_t set_draw t_screen].
      rewrite repeat_length, E1, E2. split; auto. intros y A B. fold W H.
      assert (X : nth y (repeat (blank W) H) [] = blank W).
      { rewrite (nth_indep _ [] (blank W)) by (rewrite repeat_length; exact B). apply nth_repeat_same. }
      rewrite X. unfold blank. apply repeat_length. }
    destruct (print_all_d_ok c d1 Hfr R Hm) as (A & B & C & D & E).
    split; [exact A|]. split; [exact B|]. split; [exact C|]. split; [exact D|exact E].
  Qed.

  (* ---------- histories ---------- *)
  Hypothesis Hlay : c_layout c0 <> LReverseList.

  Lemma relabel_id c c' scr : c_layout c = c_layout c0 -> relabel c c' scr = scr.
  Proof. intros E. unfold relabel. rewrite E. destruct (c_layout c0); congruence. Qed.
  Lemma no_resize c : framed c -> resize_needed c = false.
  Proof. intros (_ & _ & _ & _ & E & _). unfold resize_needed. rewrite E. destruct (c_layout c0); congruence. Qed.

  Definition cfg_of (d : dterm) : cfg := with_hdr c0 (d_hdr d).

  (* a step covers the list when it asks for it (or everything) to be redrawn, or changes neither the header
     nor what the list shows *)
  Definition covers_list_d (d : dterm) (du : dupd) : Prop :=
    rq_list (u_reqs (du_upd du)) = true \/ rq_full (u_reqs (du_upd du)) = true \/
    (with_hdr c0 (du_hdr du) = cfg_of d /\ u_matches (du_upd du) = t_matches (d_t d) /\
     u_cy (du_upd du) = t_cy (d_t d) /\ u_sel (du_upd du) = t_sel (d_t d)).

  Lemma step_d_ok d du : cfg_ok (with_hdr c0 (du_hdr du)) -> ginv d -> dfresh (cfg_of d) d ->
    coherent txt_of (u_matches (du_upd du)) -> covers_list_d d du ->
    ginv (step_d c0 d du) /\ dfresh (cfg_of (step_d c0 d du)) (step_d c0 d du) /\
    coherent txt_of (t_matches (d_t (step_d c0 d du))) /\ d_hdr (step_d c0 d du) = du_hdr du.
  Proof.
    intros Hc' Hg Hf Hm Hcov. pose proof (framed_with _ Hc') as Hfr.
    unfold step_d. set (u := du_upd du) in *. set (c' := with_hdr c0 (du_hdr du)) in *.
    rewrite relabel_id by reflexivity.
    set (d1 := mkDT (mkTerm (u_prompt u) (u_query u) (u_matches u) (u_total u) (u_cy u) (t_off (d_t d)) (u_sel u)
                            (t_screen (d_t d)) (t_prev (d_t d))) (d_other d) (du_hdr du)).
    assert (G1 : ginv d1) by exact Hg.
    set (P := fun (todo : bool) (x : dterm) =>
                ginv x /\ coherent txt_of (t_matches (d_t x)) /\ d_hdr x = du_hdr du /\ (todo = false -> dfresh c' x)).
    assert (S1 : P (rq_list (u_reqs u) || rq_full (u_reqs u)) d1).
    { split; [exact G1|]. split; [exact Hm|]. split; [reflexivity|]. intros Hno.
      apply orb_false_iff in Hno as [N1 N2].
      destruct Hcov as [X|[X|(E0 & E1 & E2 & E3)]]; try (unfold u in *; congruence).
      change (c' = cfg_of d) in E0. unfold dfresh in *. rewrite E0. eapply fresh_keep; [exact Hf|reflexivity|cbn; unfold u; congruence..]. }
    unfold handle_d. rewrite (no_resize c' Hfr).
    assert (S2 : P (rq_list (u_reqs u) || rq_full (u_reqs u)) (if rq_prompt (u_reqs u) then lift (print_prompt c') d1 else d1)).
    { destruct (rq_prompt (u_reqs u)); [|exact S1]. destruct S1 as (A & B & Hh & C).
      destruct (print_prompt_d_ok c' _ Hfr A) as [A' L]. split; [exact A'|]. split; [exact B|]. split; [exact Hh|].
      intros N. unfold dfresh. eapply fresh_keep; [exact (C N)|exact L|reflexivity..]. }
    set (d2 := if rq_prompt (u_reqs u) then lift (print_prompt c') d1 else d1) in *.
    assert (S3 : P (rq_list (u_reqs u) || rq_full (u_reqs u)) (if rq_header (u_reqs u) then print_header_d c' d2 else d2)).
    { destruct (rq_header (u_reqs u)); [|exact S2]. destruct S2 as (A & B & Hh & C).
      destruct (print_header_d_ok c' _ Hfr A) as (A' & L & V & Hh').
      split; [exact A'|]. split; [|split; [congruence|]].
      - change (coherent txt_of (v_matches (t_view (d_t (print_header_d c' d2))))). rewrite V. exact B.
      - intros N. unfold dfresh. eapply fresh_keep; [exact (C N)|exact L|rewrite V; reflexivity..]. }
    set (d3 := if rq_header (u_reqs u) then print_header_d c' d2 else d2) in *.
    assert (S4 : P (rq_full (u_reqs u)) (if rq_list (u_reqs u) then print_list_d c' d3 else d3)).
    { destruct S3 as (A & B & Hh & C). destruct (rq_list (u_reqs u)) eqn:RL.
      - destruct (print_list_d_ok c' _ Hfr A B) as (A' & F & M & _ & Hh'). split; [exact A'|]. split; [now rewrite M|].
        split; [congruence|auto].
      - split; [exact A|]. split; [exact B|]. split; [exact Hh|exact C]. }
    set (d4 := if rq_list (u_reqs u) then print_list_d c' d3 else d3) in *.
    assert (S5 : P false (if rq_full (u_reqs u) then full_redraw_d c' d4 else d4)).
    { destruct S4 as (A & B & Hh & C). destruct (rq_full (u_reqs u)) eqn:RF.
      - destruct (full_redraw_d_ok c' _ Hfr B) as (A' & F & M & _ & Hh'). split; [exact A'|]. split; [now rewrite M|].
        split; [congruence|auto].
      - split; [exact A|]. split; [exact B|]. split; [exact Hh|exact C]. }
    set (d5 := if rq_full (u_reqs u) then full_redraw_d c' d4 else d4) in *.
    destruct S5 as (A & B & Hh & C). specialize (C eq_refl).
    destruct (rq_info (u_reqs u) || rq_prompt (u_reqs u) && is_inline c').
    - destruct (print_info_d_ok c' _ Hfr A) as [A' L]. split; [exact A'|]. split; [|split; [exact B|exact Hh]].
      unfold cfg_of. cbn [lift d_hdr]. rewrite Hh. fold c'.
      unfold dfresh. eapply fresh_keep; [exact C|exact L|reflexivity..].
    - split; [exact A|]. split; [|split; [exact B|exact Hh]]. unfold cfg_of. rewrite Hh. exact C.
  Qed.

  Fixpoint dhist_ok (d : dterm) (dus : list dupd) : Prop :=
    match dus with
    | [] => True
    | du :: r => cfg_ok (with_hdr c0 (du_hdr du)) /\ coherent txt_of (u_matches (du_upd du)) /\ covers_list_d d du /\
                 dhist_ok (step_d c0 d du) r
    end.

  Lemma run_d_ok dus : forall d, ginv d -> dfresh (cfg_of d) d -> coherent txt_of (t_matches (d_t d)) -> dhist_ok d dus ->
    ginv (run_d c0 d dus) /\ dfresh (cfg_of (run_d c0 d dus)) (run_d c0 d dus) /\
    coherent txt_of (t_matches (d_t (run_d c0 d dus))) /\ d_hdr (run_d c0 d dus) = last_hdr (d_hdr d) dus.
  Proof.
    induction dus as [|du r IH]; intros d Hg Hf Hco Hh; cbn [run_d fold_left last_hdr]; [auto|].
    destruct Hh as (Hc & Hm & Hcov & Hr). destruct (step_d_ok d du Hc Hg Hf Hm Hcov) as (G & F & Co & Hh).
    destruct (IH _ G F Co Hr) as (G' & F' & Co' & Hh'). split; [exact G'|]. split; [exact F'|]. split; [exact Co'|].
    change (d_hdr (run_d c0 (step_d c0 d du) r) = last_hdr (du_hdr du) r). rewrite Hh', Hh. reflexivity.
  Qed.

  (* the list rows after ANY history in which the header comes, goes and changes are those of a full redraw *)
  Theorem dyn_incremental_list_proof h0 v0 dus : cfg_ok (with_hdr c0 h0) -> coherent txt_of (v_matches v0) ->
    dhist_ok (start_d c0 h0 v0) dus ->
    let d := run_d c0 (start_d c0 h0 v0) dus in
    let c := with_hdr c0 (last_hdr h0 dus) in
    cfg_ok c /\ list_seg c (d_t d) = list_seg c (paint c (d_t d)) /\
    shows_list c (t_view (d_t d)) (physical c (t_screen (d_t d))).
  Proof.
    intros Hc Hm Hh. cbn zeta.
    destruct (full_redraw_d_ok (with_hdr c0 h0) (mkDT (term_of_view v0) [] h0) (framed_with _ Hc) Hm) as (G & F & M & _ & Hd).
    fold (start_d c0 h0 v0) in G, F, M, Hd. cbn [d_hdr] in Hd.
    assert (Co : coherent txt_of (t_matches (d_t (start_d c0 h0 v0)))) by (rewrite M; exact Hm).
    assert (F0 : dfresh (cfg_of (start_d c0 h0 v0)) (start_d c0 h0 v0)) by (unfold cfg_of; rewrite Hd; exact F).
    destruct (run_d_ok dus _ G F0 Co Hh) as (G' & F' & Co' & Hh'). rewrite Hd in Hh'.
    unfold cfg_of in F'. rewrite Hh' in F'.
    assert (Hc' : cfg_ok (with_hdr c0 (last_hdr h0 dus))).
    { clear -Hc Hh. revert Hh. generalize (start_d c0 h0 v0). revert h0 Hc.
      induction dus as [|du r IH]; intros h0 Hc d Hh; cbn [last_hdr fold_left]; [exact Hc|].
      destruct Hh as (Hc1 & _ & _ & Hr). apply (IH (du_hdr du) Hc1 _ Hr). }
    split; [exact Hc'|].
    destruct (paint_ok txt_of _ Hc' _ Co') as (_ & Fp & Vp).
    split.
    - unfold dfresh, fresh in *. rewrite F', Fp, Vp. reflexivity.
    - intros i Hi. destruct G' as (Ls & _).
      assert (Lh : length (t_screen (d_t (run_d c0 (start_d c0 h0 v0) dus))) = c_h (with_hdr c0 (last_hdr h0 dus))) by exact Ls.
      rewrite physical_list_row by auto. rewrite list_seg_nth by auto.
      unfold dfresh, fresh in F'. rewrite F'.
      rewrite (nth_indep _ [] (list_slot_text (with_hdr c0 (last_hdr h0 dus)) (t_view (d_t (run_d c0 (start_d c0 h0 v0) dus))) 0))
        by (rewrite map_length, seq_length; exact Hi).
      rewrite map_nth, seq_nth by exact Hi. reflexivity.
  Qed.
End Dyn.

(* ---------- reverse-list: the statement is false of the faithful model ---------- *)
(* 40x10, --layout=reverse-list, --header of two lines, seven items a1..g7; toggle-header.
   Before: list lines 4..9 on window rows 0..5, header on rows 7 and 6.  After: list lines 2..9 on rows 0..7; line 8
   (g7) lands on row 6, which showed FIRST-HEADER-LINE, while prevLines[8] still says "e5, two columns wide". *)
Definition rl_c0 : cfg := mkCfg 40 10 LReverseList IDefault true [] [] 0%Z 8.
Definition rl_header : list str :=
  [[70;73;82;83;84;45;72;69;65;68;69;82;45;76;73;78;69]%Z; [83;69;67;79;78;68;45;72;69;65;68;69;82;45;76;73;78;69]%Z].
Definition rl_txt (i : nat) : str := [97 + Z.of_nat i; 49 + Z.of_nat i]%Z.
Definition rl_items : list (nat * str) := map (fun i => (i, rl_txt i)) (seq 0 7).
Definition rl_v0 : view := mkView [GT; SP] [] rl_items 7 0 0 [].
Definition rl_dus : list dupd :=
  [mkDU (mkHdr false rl_header []) (mkUpd [GT; SP] [] rl_items 7 0 [] (mkReqs true true true true false))].

Theorem dyn_incremental_refuted_reverse_list_proof :
  exists c0 h0 v0 dus txt_of,
    c_layout c0 = LReverseList /\ dyn_domain c0 h0 /\ cfg_ok (with_hdr c0 h0) /\ coherent txt_of (v_matches v0) /\
    dhist_ok txt_of c0 (start_d c0 h0 v0) dus /\
    let d := run_d c0 (start_d c0 h0 v0) dus in
    let c := with_hdr c0 (last_hdr h0 dus) in
    list_seg c (d_t d) <> list_seg c (paint c (d_t d)) /\
    row_at (physical c (t_screen (d_t d))) (list_row c 6) =
      pad 40 [32;32;103;55;82;83;84;45;72;69;65;68;69;82;45;76;73;78;69]%Z.   (* "  g7RST-HEADER-LINE" *)
Proof.
  exists rl_c0, (mkHdr true rl_header []), rl_v0, rl_dus, rl_txt.
  split; [reflexivity|]. split; [reflexivity|]. split; [vm_compute; lia|].
  split; [repeat constructor|].
  split.
  - cbn [dhist_ok rl_dus]. split; [vm_compute; lia|]. split; [repeat constructor|]. split; [left; reflexivity|exact I].
  - cbn zeta. split; [|vm_compute; reflexivity].
    intro E. vm_compute in E. discriminate E.
Qed.
