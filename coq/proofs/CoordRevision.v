(* C08: the revision a search request carries identifies the input its items were copied from.

   Matcher.Loop keeps a cache of finished mergers per query string and throws it away when the sort flag, the
   revision or the item count of a request differs from the previous one (matcher.go, `mergerCache`, `prevCount`);
   the loop theorems of the C13 package (loop_fresh) therefore ASSUME of the request stream that "within one
   revision, equal counts mean equal items".  Here that assumption is proved of the coordinator, for ALL schedules
   of CoordModel: two requests (matcher.Reset) with the same revision carry item lists one of which is a prefix of
   the other - hence the same list when the counts are equal - and revisions of successive requests never go
   backwards.  It rests on: restart() bumps the major revision of the input EVERY time it empties the chunk list
   (also for reload-sync, where the old snapshot stays on display until the end of input), a snapshot copies the
   list together with the input revision, and within one revision the list only grows. *)
From Fzf Require Import Prelude CoordSpec CoordModel CoordFlat.
Open Scope Z_scope.

(* lexicographic order on revision{major, minor} *)
Definition rlt (a b : rev) : Prop := (fst a < fst b)%nat \/ (fst a = fst b /\ (snd a < snd b)%nat).
Definition rlex (a b : rev) : Prop := rlt a b \/ a = b.
Definition prefix (a b : list item) : Prop := exists t, b = a ++ t.

Lemma rev_eq (a b : rev) : a = b <-> fst a = fst b /\ snd a = snd b.
Proof. destruct a, b; cbn. split; [intro H; inversion H; auto | intros [H1 H2]; congruence]. Qed.

Ltac rsolve :=
  unfold rlex, rlt, bump_major, bump_minor in *; rewrite ?rev_eq in *; cbn [fst snd] in *;
  repeat match goal with H : _ = _ :> rev |- _ => rewrite rev_eq in H; cbn [fst snd] in H end;
  intuition (try lia).

Lemma rlex_refl a : rlex a a.
Proof. now right. Qed.
Lemma rlex_trans a b c : rlex a b -> rlex b c -> rlex a c.
Proof. intros H1 H2. rsolve. Qed.
Lemma rlex_sandwich a b c : rlex a b -> rlex b c -> a = c -> a = b.
Proof. intros H1 H2 H3. rsolve. Qed.
Lemma rlex_minor a b : rlex a b -> rlt a (bump_minor b).
Proof. intros H1. rsolve. Qed.
Lemma rlex_major a b : rlex a b -> rlt a (bump_major b).
Proof. intros H1. rsolve. Qed.
Lemma rlt_neq a b : rlt a b -> a <> b.
Proof. intros H1 H2. rsolve. Qed.
Lemma rlt_lex a b : rlt a b -> rlex a b.
Proof. now left. Qed.

Lemma prefix_refl a : prefix a a.
Proof. exists []. now rewrite app_nil_r. Qed.
Lemma prefix_trans a b c : prefix a b -> prefix b c -> prefix a c.
Proof. intros [t ->] [u ->]. exists (t ++ u). now rewrite app_assoc. Qed.
Lemma prefix_grow a b its : prefix a b -> prefix a (b ++ its).
Proof. intros [t ->]. exists (t ++ its). now rewrite app_assoc. Qed.
Lemma prefix_same_length a b : prefix a b -> length a = length b -> a = b.
Proof.
  intros [t ->] H. rewrite app_length in H. destruct t as [|x t]; [now rewrite app_nil_r|]. cbn in H. lia.
Qed.

(* the state invariant: the snapshot is never newer than the input; while it has the input's revision it is a
   prefix of the chunk list; the request issued last carries the snapshot and its revision *)
Record RInv (s : st) : Prop := mkRInv {
  ri_le : rlex (c_srev s) (c_irev s);
  ri_snap : c_srev s = c_irev s -> prefix (c_snap s) (cl s);
  ri_last : forall r, g_last s = Some r -> r_rev r = c_srev s /\ r_items r = c_snap s }.

(* a request issued earlier, seen from a later state *)
Definition Older (r1 : mreq) (s : st) : Prop :=
  rlex (r_rev r1) (c_srev s) /\ (r_rev r1 = c_srev s -> prefix (r_items r1) (c_snap s)).

(* what one step may do to (snapshot revision, input revision, snapshot, chunk list, last request) *)
Definition push_tr (s s' : st) : Prop :=
  exists its, cl s' = cl s ++ its /\ c_irev s' = c_irev s /\ c_srev s' = c_srev s /\ c_snap s' = c_snap s /\
              g_last s' = g_last s.

Definition gen_tr (s s' : st) : Prop :=
  exists (minor restarted take : bool),
    c_irev s' = (if restarted then bump_major (if minor then bump_minor (c_irev s) else c_irev s)
                 else (if minor then bump_minor (c_irev s) else c_irev s)) /\
    cl s' = (if restarted then [] else cl s) /\
    c_snap s' = (if take then cl s' else c_snap s) /\
    c_srev s' = (if take then c_irev s' else c_srev s) /\
    ((take = false /\ g_last s' = g_last s) \/
     exists r, g_last s' = Some r /\ r_rev r = c_srev s' /\ r_items r = c_snap s').

Lemma push_rinv s s' : push_tr s s' -> RInv s -> RInv s'.
Proof.
  intros (its & H1 & H2 & H3 & H4 & H5) [A B C]. constructor.
  - now rewrite H2, H3.
  - rewrite H1, H2, H3, H4. intro E. apply prefix_grow. now apply B.
  - intros r Hr. rewrite H5 in Hr. rewrite H3, H4. now apply C.
Qed.

Lemma push_older r1 s s' : push_tr s s' -> Older r1 s -> Older r1 s'.
Proof.
  intros (its & H1 & H2 & H3 & H4 & H5) [A B]. unfold Older. now rewrite H3, H4.
Qed.

Lemma irev_grows s (minor restarted : bool) :
  rlex (c_irev s) (if restarted then bump_major (if minor then bump_minor (c_irev s) else c_irev s)
                   else (if minor then bump_minor (c_irev s) else c_irev s)).
Proof. destruct restarted, minor; rsolve. Qed.

Lemma irev_same s (minor restarted : bool) :
  c_irev s = (if restarted then bump_major (if minor then bump_minor (c_irev s) else c_irev s)
              else (if minor then bump_minor (c_irev s) else c_irev s)) ->
  minor = false /\ restarted = false.
Proof. destruct restarted, minor; intro H; try (split; reflexivity); exfalso; rsolve. Qed.

Lemma gen_rinv s s' : gen_tr s s' -> RInv s -> RInv s'.
Proof.
  intros (minor & restarted & take & H1 & H2 & H3 & H4 & H5) [A B C].
  pose proof (irev_grows s minor restarted) as G. rewrite <- H1 in G.
  constructor.
  - rewrite H4. destruct take; [apply rlex_refl | exact (rlex_trans _ _ _ A G)].
  - rewrite H3, H4. destruct take; [intros _; apply prefix_refl|].
    intro E. pose proof (rlex_sandwich _ _ _ A G E) as E0.
    assert (E2 : c_irev s = c_irev s') by congruence.
    rewrite H1 in E2. apply irev_same in E2. destruct E2 as [-> ->]. rewrite H2. apply B. rewrite E, H1. reflexivity.
  - intros r Hr. destruct H5 as [[Ht Hl]|(r0 & Hl & Hv & Hi)].
    + subst take. rewrite Hl in Hr. rewrite H3, H4. now apply C.
    + rewrite Hl in Hr. inversion Hr; subst r0. now split.
Qed.

Lemma gen_older r1 s s' : gen_tr s s' -> RInv s -> Older r1 s -> Older r1 s'.
Proof.
  intros (minor & restarted & take & H1 & H2 & H3 & H4 & H5) [A B C] [O1 O2].
  pose proof (irev_grows s minor restarted) as G. rewrite <- H1 in G.
  unfold Older. rewrite H3, H4. destruct take; [|now split].
  split.
  - exact (rlex_trans _ _ _ O1 (rlex_trans _ _ _ A G)).
  - intro E.
    pose proof (rlex_trans _ _ _ O1 A) as O3.
    assert (E1 : r_rev r1 = c_irev s) by exact (rlex_sandwich _ _ _ O3 G E).
    assert (E2 : c_irev s = c_irev s') by congruence.
    assert (E3 : r_rev r1 = c_srev s) by exact (rlex_sandwich _ _ _ O1 A E1).
    rewrite H1 in E2. apply irev_same in E2. destruct E2 as [-> ->]. rewrite H2.
    apply (prefix_trans _ (c_snap s)); [now apply O2 | apply B; congruence].
Qed.

(* every label is one of the two *)
Lemma gen_id s s' :
  c_irev s' = c_irev s -> cl s' = cl s -> c_snap s' = c_snap s -> c_srev s' = c_srev s -> g_last s' = g_last s ->
  gen_tr s s'.
Proof.
  intros H1 H2 H3 H4 H5. exists false, false, false. repeat split; try assumption. now left.
Qed.

Lemma step_tr s l : push_tr s (step s l) \/ gen_tr s (step s l).
Proof.
  destruct l; unfold step, step_r.
  - destruct (rd_alive s); [left; exists its; repeat split | right; apply gen_id; reflexivity].
  - right. destruct (rd_alive s && rd_dirty s); apply gen_id; reflexivity.
  - right. destruct (rd_alive s); apply gen_id; reflexivity.
  - right. unfold ui_step.
    match goal with |- context[fold_left ?f ?l ?a] => generalize (fold_left f l a) end. intro a.
    destruct (a_cmd a) as [[c y]|]; destruct (a_changed a || negb (str_eqb (t_input s) (a_input a)));
      apply gen_id; reflexivity.
  - right. rewrite coord_read_flat_eq. unfold coord_read_flat.
    destruct (negb (e_new s || e_fin s)); [apply gen_id; reflexivity|].
    destruct (e_fin s) eqn:Ef.
    + destruct (c_next s).
      * exists false, true, false. cbn. repeat split. now left.
      * exists false, false, (negb (c_usesnap s && negb true)). cbn.
        destruct (c_usesnap s); cbn; repeat split; right; eexists; repeat split.
    + exists false, false, (negb (c_usesnap s && negb false)). cbn.
      destruct (c_next s); destruct (c_usesnap s); cbn; repeat split; right; eexists; repeat split.
  - right. rewrite coord_search_flat_eq. unfold coord_search_flat.
    destruct (e_search s) as [v|]; [|apply gen_id; reflexivity].
    exists (nonemptyb (q_deny v) && compat (q_rev v) (c_irev s) || is_some (q_nth v)),
           (is_some (q_cmd v) && negb (c_reading s)).
    eexists. cbn.
    split; [reflexivity|]. split; [reflexivity|]. split; [reflexivity|]. split; [reflexivity|].
    destruct (q_changed v); cbn; [right; eexists; repeat split | left; split; reflexivity].
  - right. unfold coord_sfin. destruct (e_sfin s); apply gen_id; reflexivity.
  - right. destruct (m_running s), (m_pending s); apply gen_id; reflexivity.
  - right. destruct (m_running s); apply gen_id; reflexivity.
  - right. destruct (m_running s), (m_pending s); apply gen_id; reflexivity.
Qed.

Lemma rinv_step s l : RInv s -> RInv (step s l).
Proof. intro H. destruct (step_tr s l) as [T|T]; [exact (push_rinv _ _ T H) | exact (gen_rinv _ _ T H)]. Qed.

Lemma older_step r1 s l : RInv s -> Older r1 s -> Older r1 (step s l).
Proof. intros H O. destruct (step_tr s l) as [T|T]; [exact (push_older _ _ _ T O) | exact (gen_older _ _ _ T H O)]. Qed.

Lemma rinv_init q so n : RInv (init q so n).
Proof. constructor; cbn; [apply rlex_refl | intros _; apply prefix_refl | intros r H; discriminate]. Qed.

Lemma rinv_runs s sched : RInv s -> RInv (run s sched).
Proof.
  revert s. induction sched as [|l sched IH]; intros s H; [exact H|].
  unfold run, run_r. cbn [fold_left]. apply IH. now apply rinv_step.
Qed.

Lemma older_runs r1 s sched : RInv s -> Older r1 s -> Older r1 (run s sched).
Proof.
  revert s. induction sched as [|l sched IH]; intros s H O; [exact O|].
  unfold run, run_r. cbn [fold_left]. apply IH; [now apply rinv_step | now apply older_step].
Qed.

(* THEOREM revision_identifies_snapshot *)
Theorem revision_identifies_snapshot_proof : forall q so n sched more r1 r2,
  let s1 := run (init q so n) sched in
  let s2 := run s1 more in
  g_last s1 = Some r1 -> g_last s2 = Some r2 ->
  rlex (r_rev r1) (r_rev r2) /\
  (r_rev r1 = r_rev r2 -> prefix (r_items r1) (r_items r2) /\
                          (length (r_items r1) = length (r_items r2) -> r_items r1 = r_items r2)).
Proof.
  intros q so n sched more r1 r2 s1 s2 H1 H2.
  assert (I1 : RInv s1) by (apply rinv_runs, rinv_init).
  destruct (ri_last s1 I1 r1 H1) as [Ea Eb].
  assert (O1 : Older r1 s1).
  { split; [rewrite Ea; apply rlex_refl | intros _; rewrite Eb; apply prefix_refl]. }
  assert (I2 : RInv s2) by (apply rinv_runs; exact I1).
  pose proof (older_runs r1 s1 more I1 O1) as [O2 O3]. fold s2 in O2, O3.
  destruct (ri_last s2 I2 r2 H2) as [Ec Ed].
  split; [now rewrite Ec|].
  intro E. assert (P : prefix (r_items r1) (r_items r2)) by (rewrite Ed; apply O3; congruence).
  split; [exact P | now apply prefix_same_length].
Qed.

(* non-vacuity and sharpness: a reload-sync that replaces [5] by [7] - two requests whose item lists have the same
   length and differ; their revisions differ (the restart bumped the major revision) *)
Definition sched_reload_sync_same_count : list label :=
  [LPush [5]; LFin; LCoordRead;                       (* the first input, one line, read to its end *)
   LUi [PReload 1 true]; LCoordSearch;                (* reload-sync(cmd): the reader restarts, the old snapshot stays *)
   LPush [7]; LFin; LCoordRead].                      (* the new input arrives in one burst: only EvtReadFin *)

Lemma reload_sync_same_count_example :
  let s1 := run (init [] true 0) (firstn 3 sched_reload_sync_same_count) in
  let s2 := run s1 (skipn 3 sched_reload_sync_same_count) in
  exists r1 r2, g_last s1 = Some r1 /\ g_last s2 = Some r2 /\
    r_items r1 = [5] /\ r_items r2 = [7] /\ r_final r1 = true /\ r_final r2 = true /\ r_query r1 = r_query r2 /\
    r_sort r1 = r_sort r2 /\ r_rev r1 = (0%nat, 0%nat) /\ r_rev r2 = (1%nat, 0%nat).
Proof. vm_compute. eexists; eexists. repeat split. Qed.
