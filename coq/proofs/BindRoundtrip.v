(* C17 proofs, part 3: bind_roundtrip — a well-formed bind expression, written with any documented
   delimiter form, parses back to exactly the keymap it denotes, arguments verbatim. *)
From Fzf Require Import Prelude BindSpec BindModel BindProofs.
Open Scope Z_scope.

(* ------------------------------------------------------------------ fuel is irrelevant once sufficient *)

Lemma mask_fuel : forall n s f1 f2, (length s <= n)%nat -> (length s < f1)%nat -> (length s < f2)%nat ->
  mask_loop f1 s = mask_loop f2 s.
Proof.
  induction n as [|n IH]; intros s f1 f2 Hn H1 H2; destruct f1 as [|f1]; destruct f2 as [|f2]; try lia.
  - destruct s; [reflexivity|cbn in Hn; lia].
  - cbn [mask_loop]. destruct (find_exec s) as [e|] eqn:Efe; [|reflexivity].
    apply find_exec_bound in Efe.
    assert (Hsk : length (skipn e s) = (length s - e)%nat) by apply skipn_length.
    destruct (skipn e s) as [|c rest] eqn:Erest; [reflexivity|].
    destruct (c =? COLON); [reflexivity|].
    destruct (closer_of c) as [ce|].
    + destruct (find_close ce (c :: rest)) as [k|] eqn:Efc; [|reflexivity].
      apply find_close_bound in Efc.
      rewrite (IH (skipn k (c :: rest)) f1 f2); [reflexivity| | |]; rewrite skipn_length; cbn [length] in *; lia.
    + rewrite (IH (c :: rest) f1 f2); [reflexivity| | |]; cbn [length] in *; lia.
Qed.

Definition mk (s : str) : res str := mask_loop (S (length s)) s.

Lemma mk_fuel f s : (length s < f)%nat -> mask_loop f s = mk s.
Proof. intro H. unfold mk. apply (mask_fuel (length s)); lia. Qed.

Lemma mk_nil : mk [] = Ok [].
Proof. reflexivity. Qed.

(* a prefix through which the search for executeRegexp passes without a match *)
Definition quiet (u s : str) : Prop := find_exec (u ++ s) = option_map (Nat.add (length u)) (find_exec s).

Lemma ml_quiet f u s : quiet u s ->
  mask_loop (S f) (u ++ s) = do m <- mask_loop (S f) s; Ok (u ++ m).
Proof.
  unfold quiet. intro Q. cbn [mask_loop]. rewrite Q.
  destruct (find_exec s) as [e|] eqn:Efe; cbn [option_map Prelude.bind]; [|reflexivity].
  apply find_exec_bound in Efe.
  assert (E1 : firstn (length u + e) (u ++ s) = u ++ firstn e s) by (now rewrite firstn_app_2).
  assert (E2 : skipn (length u + e) (u ++ s) = skipn e s).
  { rewrite skipn_app, skipn_all2 by lia. cbn. f_equal. lia. }
  rewrite E1, E2.
  destruct (skipn e s) as [|c rest]; cbn [Prelude.bind]; [reflexivity|].
  destruct (c =? COLON); cbn [Prelude.bind]; [now rewrite <- app_assoc|].
  destruct (closer_of c) as [ce|].
  - destruct (find_close ce (c :: rest)) as [k|]; cbn [Prelude.bind]; [|now rewrite <- app_assoc].
    destruct (mask_loop f (skipn k (c :: rest))); cbn [Prelude.bind]; [now rewrite <- app_assoc|reflexivity].
  - destruct (mask_loop f (c :: rest)); cbn [Prelude.bind]; [now rewrite <- app_assoc|reflexivity].
Qed.

Lemma mk_quiet u s : quiet u s -> mk (u ++ s) = do m <- mk s; Ok (u ++ m).
Proof.
  intro Q. unfold mk at 1. rewrite (ml_quiet _ _ _ Q).
  rewrite mk_fuel by (rewrite app_length; lia). reflexivity.
Qed.

Lemma inert_quiet u s : inert u = true -> quiet u s.
Proof. intro H. unfold quiet. now apply find_exec_inert. Qed.

Definition good_tail (R : str) : Prop :=
  match R with [] => True | d :: _ => (d =? PLUS) || (d =? COMMA) = true end.

Lemma mk_region c n canon o ce arg R :
  is_colon_plus c = true -> assoc_str n arg_actions = Some canon ->
  closer_of o = Some ce -> arg_free ce arg = true -> good_tail R ->
  mk (c :: n ++ o :: arg ++ ce :: R) = do m <- mk R; Ok ((c :: n) ++ blanks (length arg + 2) ++ m).
Proof.
  intros Hc Hn Ho Hf HR. unfold mk at 1.
  rewrite (arg_region_hidden_proof _ [] c n canon o ce arg R eq_refl Hc Hn Ho Hf HR).
  rewrite mk_fuel; [reflexivity|]. cbn [length]. rewrite !app_length. cbn [length]. rewrite app_length. cbn [length]. lia.
Qed.

Lemma mk_colon c n canon arg :
  is_colon_plus c = true -> assoc_str n arg_actions = Some canon ->
  mk (c :: n ++ COLON :: arg) = Ok ((c :: n) ++ blanks (S (length arg))).
Proof.
  intros Hc Hn. unfold mk.
  exact (colon_region_hidden_proof _ [] c n canon arg eq_refl Hc Hn).
Qed.

(* ------------------------------------------------------------------ vocabulary facts, by computation *)

Definition nonname_head (T : str) : Prop := match T with [] => True | x :: _ => is_name_char x = false end.

Lemma prefix_ci_ext2 nm : forallb lowdash nm = true -> forall n T1 T2,
  nonname_head T1 -> nonname_head T2 -> prefix_ci nm (n ++ T1) = prefix_ci nm (n ++ T2).
Proof.
  intro L. induction nm as [|a nm IH]; intros n T1 T2 H1 H2; [reflexivity|].
  cbn in L. apply andb_true_iff in L as [La L].
  destruct n as [|c n]; [cbn [app]|cbn [app prefix_ci]].
  - assert (F : forall T, nonname_head T -> prefix_ci (a :: nm) T = false).
    { intros [|z T] HT; [reflexivity|]. cbn in *. destruct (lower z =? a) eqn:E; [|reflexivity].
      rewrite (lower_name_char _ _ E La) in HT. discriminate. }
    now rewrite (F _ H1), (F _ H2).
  - now rewrite (IH L n T1 T2 H1 H2).
Qed.

Lemma first_match_ext2 names : forallb (forallb lowdash) names = true -> forall n T1 T2,
  nonname_head T1 -> nonname_head T2 -> first_match names (n ++ T1) = first_match names (n ++ T2).
Proof.
  induction names as [|nm r IH]; intros L n T1 T2 H1 H2; [reflexivity|].
  cbn in L. apply andb_true_iff in L as [L1 L2]. cbn [first_match].
  rewrite (prefix_ci_ext2 nm L1 n T1 T2 H1 H2). now rewrite (IH L2 n T1 T2 H1 H2).
Qed.

Definition simple_mask_ok (S : str) : bool :=
  inert S &&
  match first_match exec_names (name_prefix S ++ [0]) with
  | None => true
  | Some k => Nat.leb k (length S) && match skipn k S with [] => true | c' :: _ => is_name_char c' end
  end.

Definition simple_entry_ok (e : str * list str) : bool :=
  let n := fst e in
  nonemptyb n && forallb (fun c => negb (is_sep c)) n && str_eqb (to_lower n) n
  && negb (str_eqb n s_put) && simple_mask_ok n.

Definition arg_entry_ok (e : str * str) : bool :=
  let n := fst e in
  nonemptyb n && forallb is_name_char n && str_eqb (to_lower n) n
  && (mem_str n checked_arg_actions || negb (mem_str (snd e) key_arg_actions)).

Transparent exec_names.
Lemma simple_table_ok : forallb simple_entry_ok simple_actions = true.
Proof. vm_compute. reflexivity. Qed.
Opaque exec_names.

Lemma arg_table_ok : forallb arg_entry_ok arg_actions = true.
Proof. vm_compute. reflexivity. Qed.

Lemma simple_entry n cs : assoc_str n simple_actions = Some cs -> simple_entry_ok (n, cs) = true.
Proof. intro H. apply assoc_in in H. pose proof simple_table_ok as T. rewrite forallb_forall in T. exact (T _ H). Qed.

Lemma arg_entry n canon : assoc_str n arg_actions = Some canon -> arg_entry_ok (n, canon) = true.
Proof. intro H. apply assoc_in in H. pose proof arg_table_ok as T. rewrite forallb_forall in T. exact (T _ H). Qed.

Lemma good_tail_nonname R : good_tail R -> nonname_head R.
Proof.
  destruct R as [|d R]; cbn; [auto|]. intro H. apply orb_true_iff in H as [H|H]; apply Z.eqb_eq in H; subst; reflexivity.
Qed.

Lemma good_tail_head d R : good_tail (d :: R) -> (d =? COLON) = false /\ closer_of d = None.
Proof. cbn. intro H. apply orb_true_iff in H as [H|H]; apply Z.eqb_eq in H; subst; split; reflexivity. Qed.

(* ------------------------------------------------------------------ one action at a time *)

Lemma mk_simple c S R : is_colon_plus c = true -> simple_mask_ok S = true -> good_tail R ->
  mk (c :: S ++ R) = do m <- mk R; Ok ((c :: S) ++ m).
Proof.
  intros Hc HS HR. unfold simple_mask_ok in HS. apply andb_true_iff in HS as [HI HS].
  destruct (take_while_spec is_name_char S) as (A & B & C).
  fold (name_prefix S) in A, B, C.
  assert (FM : first_match exec_names (S ++ R) = first_match exec_names (name_prefix S ++ [0])).
  { rewrite B at 1. rewrite <- app_assoc. apply (first_match_ext2 _ exec_names_lowdash); [|reflexivity].
    destruct (skipn (length (name_prefix S)) S) as [|x tl]; [now apply good_tail_nonname|exact C]. }
  destruct (first_match exec_names (name_prefix S ++ [0])) as [k|] eqn:FM0.
  - (* executeRegexp matches at the head of the simple name; the next byte is harmless *)
    apply andb_true_iff in HS as [Hk Hnext]. apply Nat.leb_le in Hk.
    unfold mk at 1. remember (length (c :: S ++ R)) as f eqn:Hf. cbn [length] in Hf. rewrite app_length in Hf.
    cbn [mask_loop find_exec]. rewrite Hc, FM.
    cbn [firstn skipn].
    assert (E1 : firstn k (S ++ R) = firstn k S) by (rewrite firstn_app; replace (k - length S)%nat with 0%nat by lia; cbn; now rewrite app_nil_r).
    assert (E2 : skipn k (S ++ R) = skipn k S ++ R) by (rewrite skipn_app; replace (k - length S)%nat with 0%nat by lia; reflexivity).
    rewrite E1, E2.
    pose proof (firstn_skipn k S) as FS.
    destruct (skipn k S) as [|c' r'] eqn:SK.
    + rewrite app_nil_r in FS. rewrite FS. cbn [app].
      destruct R as [|d R'].
      * rewrite mk_nil. cbn [Prelude.bind]. now rewrite app_nil_r.
      * destruct (good_tail_head _ _ HR) as [-> ->].
        rewrite mk_fuel by (cbn [length] in *; lia).
        destruct (mk (d :: R')); reflexivity.
    + cbn [app]. destruct (name_char_no_closer _ Hnext) as [-> ->].
      change (c' :: r' ++ R) with ((c' :: r') ++ R).
      rewrite mk_fuel by (rewrite <- E2, skipn_length, app_length; lia).
      rewrite (mk_quiet (c' :: r') R).
      2:{ apply inert_quiet. rewrite <- SK. unfold inert. apply forallb_skipn. exact HI. }
      destruct (mk R) as [m|]; cbn [Prelude.bind]; [|reflexivity].
      rewrite <- FS at 2. cbn [app]. now rewrite <- app_assoc.
  - (* no match: the whole of  c S  is passed over *)
    apply (mk_quiet (c :: S) R). unfold quiet. cbn [app find_exec]. rewrite Hc, FM.
    rewrite (find_exec_inert _ _ HI). destruct (find_exec R); reflexivity.
Qed.

Definition mask_act (a : act) : str :=
  match a with
  | ASimple n => n
  | AArg n (FPair _ _) arg => n ++ blanks (length arg + 2)
  | AArg n FColon arg => n ++ blanks (S (length arg))
  end.

Lemma form_ok_pair o c : form_ok (FPair o c) = true -> closer_of o = Some c.
Proof. cbn. destruct (closer_of o) as [c'|]; [|discriminate]. intro H. apply Z.eqb_eq in H. now subst. Qed.

Lemma mk_act lst a c R MR :
  act_ok lst a = true -> is_colon_plus c = true -> good_tail R -> (lst = true -> R = []) -> mk R = Ok MR ->
  mk (c :: render_act a ++ R) = Ok (c :: mask_act a ++ MR).
Proof.
  intros HA Hc HR HL HM. destruct a as [n|n [o c'|] arg]; cbn [act_ok render_act mask_act] in *.
  - destruct (assoc_str n simple_actions) as [cs|] eqn:E; [|discriminate].
    pose proof (simple_entry _ _ E) as SE. unfold simple_entry_ok in SE. cbn [fst] in SE.
    apply andb_true_iff in SE as [_ SM].
    rewrite (mk_simple _ _ _ Hc SM HR), HM. reflexivity.
  - destruct (assoc_str n arg_actions) as [canon|] eqn:E; [|discriminate].
    apply andb_true_iff in HA as [HA Hfree]. apply andb_true_iff in HA as [HA Hform].
    pose proof (form_ok_pair _ _ Hform) as Ho.
    replace ((n ++ o :: arg ++ [c']) ++ R) with (n ++ o :: arg ++ c' :: R) by (rewrite <- !app_assoc; cbn; now rewrite <- app_assoc).
    rewrite (mk_region _ _ _ _ _ _ _ Hc E Ho Hfree HR), HM. cbn [Prelude.bind app]. now rewrite <- app_assoc.
  - destruct (assoc_str n arg_actions) as [canon|] eqn:E; [|discriminate].
    apply andb_true_iff in HA as [HA Hlast]. rewrite (HL Hlast) in *. rewrite mk_nil in HM. inversion HM; subst.
    rewrite !app_nil_r. rewrite (mk_colon _ _ _ _ Hc E). reflexivity.
Qed.

Lemma join_cons2 sep x y r : join sep (x :: y :: r) = x ++ sep :: join sep (y :: r).
Proof. reflexivity. Qed.

Lemma mk_acts : forall acts lst c R MR,
  acts <> [] -> acts_ok lst acts = true -> is_colon_plus c = true -> good_tail R -> (lst = true -> R = []) ->
  mk R = Ok MR ->
  mk (c :: join PLUS (map render_act acts) ++ R) = Ok (c :: join PLUS (map mask_act acts) ++ MR).
Proof.
  induction acts as [|a r IH]; intros lst c R MR NE HA Hc HR HL HM; [congruence|].
  destruct r as [|a2 r].
  - cbn [map join acts_ok] in *. eapply mk_act; eauto.
  - change (acts_ok lst (a :: a2 :: r)) with (act_ok false a && acts_ok lst (a2 :: r)) in HA.
    apply andb_true_iff in HA as [HA1 HA2].
    cbn [map]. rewrite !join_cons2. rewrite <- !app_assoc. cbn [app].
    specialize (IH lst PLUS R MR ltac:(discriminate) HA2 eq_refl HR HL HM). cbn [map] in IH.
    eapply (mk_act false); eauto; [reflexivity|discriminate].
Qed.

(* ------------------------------------------------------------------ whole expression *)

Definition render_m_pair (p : bpair) : str := join COMMA (fst p) ++ COLON :: join PLUS (map mask_act (snd p)).
Definition render_m (bd : bind) : str := join COMMA (map render_m_pair bd).

Lemma key_no_sep k : key_spelling_ok k = true ->
  k <> [] /\ forallb (fun c => negb (is_sep c)) k = true /\ forallb (fun c => 3 <=? c) k = true
  /\ exists x, key_of_token k = Some x.
Proof.
  unfold key_spelling_ok. intro H. apply andb_true_iff in H as [H K]. apply andb_true_iff in H as [N F].
  split; [destruct k; [discriminate|congruence]|].
  split; [|split].
  - rewrite forallb_forall in *. intros x Hx. specialize (F x Hx). now apply andb_true_iff in F as [F _].
  - rewrite forallb_forall in *. intros x Hx. specialize (F x Hx). now apply andb_true_iff in F as [_ F].
  - destruct (key_of_token k); [eauto|discriminate].
Qed.

Lemma nosep_inert u : forallb (fun c => negb (is_sep c)) u = true -> inert u = true.
Proof.
  unfold inert. intro H. rewrite forallb_forall in *. intros x Hx. specialize (H x Hx).
  apply negb_true_iff in H. apply negb_true_iff. unfold is_sep, is_colon_plus in *.
  apply orb_false_iff in H as [H H2]. apply orb_false_iff in H as [H0 H1]. now rewrite H0, H2.
Qed.

Lemma inert_app u v : inert u = true -> inert v = true -> inert (u ++ v) = true.
Proof. unfold inert. intros. rewrite forallb_app. now apply andb_true_iff. Qed.

Lemma inert_join_keys ks : forallb key_spelling_ok ks = true -> inert (join COMMA ks) = true.
Proof.
  induction ks as [|k r IH]; intro H; [reflexivity|]. cbn in H. apply andb_true_iff in H as [Hk Hr].
  destruct (key_no_sep _ Hk) as (_ & NS & _).
  destruct r as [|k2 r]; [now apply nosep_inert|].
  rewrite join_cons2. apply inert_app; [now apply nosep_inert|]. change (inert (COMMA :: join COMMA (k2 :: r))) with (inert (join COMMA (k2 :: r))). auto.
Qed.

Lemma mk_pair lst p R MR :
  pair_ok lst p = true -> good_tail R -> (lst = true -> R = []) -> mk R = Ok MR ->
  mk (render_pair p ++ R) = Ok (render_m_pair p ++ MR).
Proof.
  intros HP HR HL HM. unfold pair_ok in HP.
  apply andb_true_iff in HP as [HP HA]. apply andb_true_iff in HP as [HP NA]. apply andb_true_iff in HP as [NK HK].
  unfold render_pair, render_m_pair. rewrite <- !app_assoc. cbn [app].
  rewrite mk_quiet by (apply inert_quiet, inert_join_keys, HK).
  rewrite (mk_acts (snd p) lst COLON R MR); auto.
  destruct (snd p); [discriminate|congruence].
Qed.

Lemma mk_render : forall bd, wf_bind bd = true -> mk (render bd) = Ok (render_m bd).
Proof.
  induction bd as [|p r IH]; intro H; [discriminate|].
  destruct r as [|p2 r].
  - cbn [wf_bind] in H. unfold render, render_m. cbn [map join].
    rewrite <- (app_nil_r (render_pair p)), <- (app_nil_r (render_m_pair p)).
    apply (mk_pair true p [] []); [exact H|exact I|reflexivity|reflexivity].
  - change (wf_bind (p :: p2 :: r)) with (pair_ok false p && wf_bind (p2 :: r)) in H.
    apply andb_true_iff in H as [H1 H2]. specialize (IH H2).
    unfold render, render_m in *. cbn [map]. rewrite !join_cons2.
    apply (mk_pair false); [exact H1|reflexivity|discriminate|].
    pose proof (mk_quiet [COMMA] (join COMMA (map render_pair (p2 :: r))) (inert_quiet [COMMA] _ eq_refl)) as Q.
    cbn [app map] in Q, IH |- *. rewrite Q, IH. reflexivity.
Qed.

(* ------------------------------------------------------------------ the escape substitutions do nothing *)

(* no two separators ( , : + ) next to each other *)
Fixpoint sepok (s : str) : bool :=
  match s with
  | c1 :: ((c2 :: _) as t) => negb (is_sep c1 && is_sep c2) && sepok t
  | _ => true
  end.

Lemma sepok_cons2 c1 c2 t : sepok (c1 :: c2 :: t) = negb (is_sep c1 && is_sep c2) && sepok (c2 :: t).
Proof. reflexivity. Qed.

Lemma adj_cons2 a c c1 c2 t : adj a c (c1 :: c2 :: t) = ((c1 =? a) && (c2 =? c)) || adj a c (c2 :: t).
Proof. reflexivity. Qed.

Lemma sepok_adj a c : is_sep a = true -> is_sep c = true -> forall s, sepok s = true -> adj a c s = false.
Proof.
  intros Ha Hc. induction s as [|c1 t IH]; intro H; [reflexivity|].
  destruct t as [|c2 t]; [reflexivity|].
  rewrite sepok_cons2 in H. apply andb_true_iff in H as [H1 H2]. rewrite adj_cons2, (IH H2), orb_false_r.
  destruct (c1 =? a) eqn:E1; [|reflexivity]. destruct (c2 =? c) eqn:E2; [|reflexivity].
  apply Z.eqb_eq in E1, E2. subst. rewrite Ha, Hc in H1. discriminate.
Qed.

Lemma escapes_id s : sepok s = true -> escapes s = s.
Proof.
  intro H. unfold escapes.
  rewrite (rep3_id COMMA COMMA) by (now apply sepok_adj).
  rewrite (rep3_id COMMA COLON) by (now apply sepok_adj).
  rewrite (rep2_id COLON COLON) by (now apply sepok_adj).
  rewrite (rep2_id COMMA COLON) by (now apply sepok_adj).
  rewrite (rep2_id PLUS COLON) by (now apply sepok_adj).
  reflexivity.
Qed.

Definition nosep (w : str) : bool := forallb (fun c => negb (is_sep c)) w.
Definition word (w : str) : Prop := w <> [] /\ nosep w = true.
Definition good (s : str) : Prop := match s with [] => False | c :: _ => is_sep c = false end /\ sepok s = true.
Definition tailok (R : str) : Prop := match R with [] => True | _ :: R' => good R' end.

Lemma good_word_app w R : word w -> tailok R -> good (w ++ R).
Proof.
  intros [NE NS] HT. induction w as [|x w IH]; [congruence|].
  cbn in NS. apply andb_true_iff in NS as [Hx NS]. apply negb_true_iff in Hx.
  destruct w as [|x2 w].
  - cbn [app]. split; [exact Hx|]. destruct R as [|sp R']; [reflexivity|].
    cbn in HT. destruct HT as [HH HS]. destruct R' as [|y R'']; [contradiction|].
    rewrite !sepok_cons2, Hx, HH, andb_false_r. cbn. exact HS.
  - destruct (IH ltac:(discriminate) NS) as [_ S2].
    split; [exact Hx|]. cbn [app] in *. rewrite sepok_cons2, Hx. cbn. exact S2.
Qed.

Lemma good_join sep : forall ws R, ws <> [] -> Forall word ws -> tailok R -> good (join sep ws ++ R).
Proof.
  induction ws as [|w r IH]; intros R NE HW HT; [congruence|].
  inversion HW as [|? ? Hw Hr]; subst.
  destruct r as [|w2 r]; [now apply good_word_app|].
  rewrite join_cons2, <- app_assoc. apply good_word_app; [exact Hw|].
  cbn [app tailok]. apply IH; [discriminate|exact Hr|exact HT].
Qed.

Lemma nosep_blanks k : nosep (blanks k) = true.
Proof. induction k; cbn; auto. Qed.

Lemma nosep_app u v : nosep u = true -> nosep v = true -> nosep (u ++ v) = true.
Proof. unfold nosep. intros. rewrite forallb_app. now apply andb_true_iff. Qed.

Lemma name_chars_nosep n : forallb is_name_char n = true -> nosep n = true.
Proof.
  unfold nosep. intro H. rewrite forallb_forall in *. intros x Hx. pose proof (name_char_cases _ (H x Hx)).
  apply negb_true_iff. unfold is_sep, COLON, COMMA, PLUS.
  repeat (apply orb_false_iff; split); apply Z.eqb_neq; lia.
Qed.

Lemma arg_name_facts n canon : assoc_str n arg_actions = Some canon ->
  n <> [] /\ forallb is_name_char n = true /\ to_lower n = n
  /\ (mem_str n checked_arg_actions || negb (mem_str canon key_arg_actions)) = true.
Proof.
  intro H. pose proof (arg_entry _ _ H) as E. unfold arg_entry_ok in E. cbn [fst snd] in E.
  apply andb_true_iff in E as [E Q4]. apply andb_true_iff in E as [E Q2]. apply andb_true_iff in E as [Q0 Q1].
  repeat split; auto. - destruct n; [discriminate|congruence]. - now apply str_eqb_eq.
Qed.

Lemma simple_name_facts n cs : assoc_str n simple_actions = Some cs ->
  n <> [] /\ nosep n = true /\ to_lower n = n /\ str_eqb n s_put = false.
Proof.
  intro H. pose proof (simple_entry _ _ H) as E. unfold simple_entry_ok in E. cbn [fst] in E.
  apply andb_true_iff in E as [E _]. apply andb_true_iff in E as [E P3]. apply andb_true_iff in E as [E P2].
  apply andb_true_iff in E as [P0 P1].
  repeat split; auto. - destruct n; [discriminate|congruence]. - now apply str_eqb_eq. - now apply negb_true_iff.
Qed.

Lemma mask_act_word lst a : act_ok lst a = true -> word (mask_act a).
Proof.
  destruct a as [n|n f arg]; cbn [act_ok mask_act]; intro H.
  - destruct (assoc_str n simple_actions) as [cs|] eqn:E; [|discriminate].
    destruct (simple_name_facts _ _ E) as (A & B & _). now split.
  - destruct (assoc_str n arg_actions) as [canon|] eqn:E; [|discriminate].
    destruct (arg_name_facts _ _ E) as (A & B & _).
    destruct f; (split; [destruct n; [congruence|discriminate]|apply nosep_app; [now apply name_chars_nosep|apply nosep_blanks]]).
Qed.

Lemma acts_words : forall acts lst, acts_ok lst acts = true -> Forall word (map mask_act acts).
Proof.
  induction acts as [|a r IH]; intros lst H; [constructor|].
  destruct r as [|a2 r].
  - cbn in *. constructor; [eapply mask_act_word; eauto|constructor].
  - change (acts_ok lst (a :: a2 :: r)) with (act_ok false a && acts_ok lst (a2 :: r)) in H.
    apply andb_true_iff in H as [H1 H2]. cbn [map]. constructor; [eapply mask_act_word; eauto|]. exact (IH _ H2).
Qed.

Lemma keys_words ks : forallb key_spelling_ok ks = true -> Forall word ks.
Proof.
  induction ks as [|k r IH]; intro H; [constructor|]. cbn in H. apply andb_true_iff in H as [Hk Hr].
  destruct (key_no_sep _ Hk) as (A & B & _). constructor; [now split|auto].
Qed.

Lemma good_pair lst p R : pair_ok lst p = true -> tailok R -> good (render_m_pair p ++ R).
Proof.
  intros HP HT. unfold pair_ok in HP.
  apply andb_true_iff in HP as [HP HA]. apply andb_true_iff in HP as [HP NA]. apply andb_true_iff in HP as [NK HK].
  unfold render_m_pair. rewrite <- app_assoc. apply good_join.
  - destruct (fst p); [discriminate|congruence].
  - now apply keys_words.
  - cbn [app tailok]. apply good_join; [destruct (snd p); [discriminate|cbn; congruence]|eapply acts_words; eauto|exact HT].
Qed.

Lemma good_render_m : forall bd, wf_bind bd = true -> good (render_m bd).
Proof.
  induction bd as [|p r IH]; intro H; [discriminate|].
  destruct r as [|p2 r].
  - cbn [wf_bind] in H. unfold render_m. cbn [map join]. rewrite <- (app_nil_r (render_m_pair p)).
    eapply good_pair; eauto. exact I.
  - change (wf_bind (p :: p2 :: r)) with (pair_ok false p && wf_bind (p2 :: r)) in H.
    apply andb_true_iff in H as [H1 H2]. unfold render_m in *. cbn [map]. rewrite join_cons2.
    eapply good_pair; eauto. cbn [tailok]. exact (IH H2).
Qed.

Theorem mask_render bd : wf_bind bd = true -> mask_action_contents (render bd) = Ok (render_m bd).
Proof.
  intro H. unfold mask_action_contents. fold (mk (render bd)). rewrite (mk_render _ H). cbn [Prelude.bind].
  rewrite escapes_id; [reflexivity|]. exact (proj2 (good_render_m _ H)).
Qed.

(* ------------------------------------------------------------------ parseActionList on the original text *)

Definition closers : list Z := [41; 125; 93; 62; 126; 33; 64; 35; 36; 37; 94; 38; 42; 59; 47; 124].

Lemma closer_in o ce : closer_of o = Some ce -> In ce closers.
Proof.
  unfold closer_of. intro H.
  destruct (o =? 40); [inversion H; cbn; tauto|].
  destruct (o =? 123); [inversion H; cbn; tauto|].
  destruct (o =? 91); [inversion H; cbn; tauto|].
  destruct (o =? 60); [inversion H; cbn; tauto|].
  match type of H with (if ?b then _ else _) = _ => destruct b eqn:E end; [|discriminate].
  inversion H; subst ce.
  repeat (apply orb_true_iff in E as [E|E]); apply Z.eqb_eq in E; subst; cbn; tauto.
Qed.

Lemma closer_prop (P : Z -> bool) o ce : forallb P closers = true -> closer_of o = Some ce -> P ce = true.
Proof. intros HP H. rewrite forallb_forall in HP. apply HP. eapply closer_in; eauto. Qed.

Lemma lower_id c : is_upper c = false -> lower c = c.
Proof. unfold lower. now intros ->. Qed.

Lemma lower_eqb k x : is_lower k = false -> is_upper k = false -> (lower x =? k) = (x =? k).
Proof.
  intros Hl Hu. unfold lower. destruct (is_upper x) eqn:U; [|reflexivity].
  pose proof U as U'. unfold is_upper in U'. apply andb_true_iff in U' as [A B]. apply Z.leb_le in A, B.
  destruct (x + 32 =? k) eqn:E1.
  - apply Z.eqb_eq in E1. subst k. unfold is_lower in Hl.
    replace (97 <=? x + 32) with true in Hl by (symmetry; apply Z.leb_le; lia).
    replace (x + 32 <=? 122) with true in Hl by (symmetry; apply Z.leb_le; lia). discriminate.
  - destruct (x =? k) eqn:E2; [|reflexivity]. apply Z.eqb_eq in E2. subst k. congruence.
Qed.

Lemma arg_free_lower ce arg : is_lower ce = false -> is_upper ce = false ->
  arg_free ce (to_lower arg) = arg_free ce arg.
Proof.
  intros Hl Hu. induction arg as [|x r IH]; [reflexivity|].
  cbn [to_lower map arg_free]. fold (to_lower r). rewrite IH, (lower_eqb _ _ Hl Hu).
  destruct r as [|y r']; [reflexivity|]. cbn [to_lower map].
  now rewrite (lower_eqb PLUS y eq_refl eq_refl), (lower_eqb COMMA y eq_refl eq_refl).
Qed.

Lemma str_eqb_app_diff n a c u v : (a =? c) = false -> str_eqb (n ++ a :: u) (n ++ c :: v) = false.
Proof. intro H. induction n as [|x n IH]; cbn; [now rewrite H|]. now rewrite Z.eqb_refl, IH. Qed.

Lemma take_while_app_stop p n x t : forallb p n = true -> p x = false -> take_while p (n ++ x :: t) = n.
Proof.
  intros Hn Hx. induction n as [|c n IH]; cbn; [now rewrite Hx|].
  cbn in Hn. apply andb_true_iff in Hn as [Hc Hn]. now rewrite Hc, (IH Hn).
Qed.

Lemma get_app_len {A} (n : list A) x t : get (n ++ x :: t) (length n) = Ok x.
Proof. induction n; cbn; auto. Qed.

Lemma skipn_app_len {A} (n : list A) x t : skipn (S (length n)) (n ++ x :: t) = t.
Proof. induction n; cbn; auto. Qed.

Definition switch_entry_ok (e : str * list str) : bool :=
  let k := fst e in
  match assoc_str (name_prefix k) arg_actions with
  | None => true
  | Some _ => Nat.eqb (length (name_prefix k)) (length k)
  end.

Lemma switch_table_ok : forallb switch_entry_ok switch_table = true.
Proof. vm_compute. reflexivity. Qed.

Lemma switch_none n canon x t :
  assoc_str n arg_actions = Some canon -> is_name_char x = false -> assoc_str (n ++ x :: t) switch_table = None.
Proof.
  intros Hn Hx. destruct (assoc_str (n ++ x :: t) switch_table) as [cs|] eqn:E; [exfalso|reflexivity].
  apply assoc_in in E. pose proof switch_table_ok as T. rewrite forallb_forall in T. specialize (T _ E).
  unfold switch_entry_ok in T. cbn [fst] in T. unfold name_prefix in T.
  destruct (arg_name_facts _ _ Hn) as (_ & NC & _).
  rewrite (take_while_app_stop _ _ _ _ NC Hx), Hn in T. apply Nat.eqb_eq in T.
  rewrite app_length in T. cbn in T. lia.
Qed.

Lemma exec_recognised n canon x t :
  assoc_str n arg_actions = Some canon -> is_name_char x = false -> (SPACE =? x) = false ->
  mask_action_contents (COLON :: n ++ x :: t) = Ok (COLON :: n ++ blanks (S (length t))) ->
  is_execute_action (n ++ x :: t) = Ok (Some canon).
Proof.
  intros Hn Hx Hs HM. unfold is_execute_action. rewrite HM. cbn [Prelude.bind].
  change (blanks (S (length t))) with (SPACE :: blanks (length t)).
  rewrite (str_eqb_app_diff _ _ _ _ _ Hs).
  destruct (arg_name_facts _ _ Hn) as (_ & NC & _).
  unfold name_prefix. rewrite (take_while_app_stop _ _ _ _ NC Hx). now rewrite Hn.
Qed.

Lemma sepok_sep_word c w : word w -> sepok (c :: w) = true.
Proof.
  intro W. destruct (good_word_app w [] W I) as [HH HS]. rewrite app_nil_r in *.
  destruct w as [|y w']; [reflexivity|]. rewrite sepok_cons2, HH, andb_false_r. exact HS.
Qed.

Lemma arg_masked_word n canon k : assoc_str n arg_actions = Some canon -> word (n ++ blanks k).
Proof.
  intro H. destruct (arg_name_facts _ _ H) as (A & B & _).
  split; [destruct n; [congruence|discriminate]|apply nosep_app; [now apply name_chars_nosep|apply nosep_blanks]].
Qed.

Lemma mask_pair_spec n canon o ce arg :
  assoc_str n arg_actions = Some canon -> closer_of o = Some ce -> arg_free ce arg = true ->
  mask_action_contents (COLON :: n ++ o :: arg ++ [ce]) = Ok (COLON :: n ++ blanks (S (length (arg ++ [ce])))).
Proof.
  intros Hn Ho Hf. unfold mask_action_contents. fold (mk (COLON :: n ++ o :: arg ++ [ce])).
  rewrite (mk_region COLON n canon o ce arg [] eq_refl Hn Ho Hf I), mk_nil. cbn [Prelude.bind].
  rewrite app_nil_r. rewrite escapes_id by (cbn [app]; apply sepok_sep_word; eapply arg_masked_word; eauto).
  rewrite app_length. cbn [length app]. replace (length arg + 2)%nat with (S (length arg + 1)) by lia. reflexivity.
Qed.

Lemma mask_colon_spec n canon arg :
  assoc_str n arg_actions = Some canon ->
  mask_action_contents (COLON :: n ++ COLON :: arg) = Ok (COLON :: n ++ blanks (S (length arg))).
Proof.
  intros Hn. unfold mask_action_contents. fold (mk (COLON :: n ++ COLON :: arg)).
  rewrite (mk_colon COLON n canon arg eq_refl Hn). cbn [Prelude.bind].
  rewrite escapes_id by (cbn [app]; apply sepok_sep_word; eapply arg_masked_word; eauto). reflexivity.
Qed.

Lemma check_arg_ok n canon arg :
  assoc_str n arg_actions = Some canon -> mem_str n checked_arg_actions = false -> check_arg canon arg = Good tt.
Proof.
  intros Hn Hc. destruct (arg_name_facts _ _ Hn) as (_ & _ & _ & Q). rewrite Hc, orb_false_l in Q.
  apply negb_true_iff in Q. unfold check_arg. now rewrite Q.
Qed.

Lemma opener_facts o ce : closer_of o = Some ce ->
  is_name_char o = false /\ (o =? COLON) = false /\ lower o = o /\ (SPACE =? o) = false.
Proof.
  intro H. destruct (closer_not_name _ _ H) as [A B]. repeat split; auto.
  - apply lower_id. destruct (is_upper o) eqn:U; [|reflexivity].
    unfold is_name_char in A. rewrite U, orb_true_r in A. discriminate.
  - destruct (SPACE =? o) eqn:E; [|reflexivity]. apply Z.eqb_eq in E. subst. discriminate.
Qed.

Lemma pal_pair n canon o ce arg rest first acc pa put :
  assoc_str n arg_actions = Some canon -> mem_str n checked_arg_actions = false ->
  closer_of o = Some ce -> arg_free ce arg = true ->
  pal_loop ((n ++ o :: arg ++ [ce]) :: rest) first [] acc pa put =
  pal_loop rest false [] (acc ++ [(canon, arg)]) pa put.
Proof.
  intros Hn Hck Ho Hf.
  destruct (opener_facts _ _ Ho) as (Hon & Hoc & Hol & Hos).
  destruct (arg_name_facts _ _ Hn) as (_ & NC & NL & _).
  pose proof (closer_prop (fun z => negb (is_lower z) && negb (is_upper z)) _ _ eq_refl Ho) as CP.
  apply andb_true_iff in CP as [C1 C2]. apply negb_true_iff in C1, C2.
  assert (LOW : to_lower (n ++ o :: arg ++ [ce]) = n ++ o :: to_lower arg ++ [ce]).
  { unfold to_lower. rewrite map_app. cbn [map]. rewrite map_app. cbn [map].
    fold (to_lower n). now rewrite NL, Hol, (lower_id _ C2). }
  cbn [pal_loop app]. rewrite LOW.
  rewrite (switch_none _ _ _ _ Hn Hon).
  rewrite (exec_recognised n canon o (to_lower arg ++ [ce]) Hn Hon Hos).
  2:{ apply (mask_pair_spec _ _ _ _ _ Hn Ho). now rewrite arg_free_lower. }
  cbn [Prelude.bind]. unfold name_prefix. rewrite (take_while_app_stop _ _ _ _ NC Hon).
  rewrite get_app_len. cbn [Prelude.bind]. rewrite Hoc.
  replace (Nat.leb (S (length n)) (length (n ++ o :: arg ++ [ce]) - 1)) with true
    by (symmetry; apply Nat.leb_le; rewrite !app_length; cbn [length]; rewrite app_length; cbn [length]; lia).
  rewrite skipn_app_len.
  replace (length (n ++ o :: arg ++ [ce]) - 1 - S (length n))%nat with (length arg)
    by (rewrite !app_length; cbn [length]; rewrite app_length; cbn [length]; lia).
  rewrite firstn_app, Nat.sub_diag, firstn_all. cbn [firstn]. rewrite app_nil_r.
  rewrite (check_arg_ok _ _ _ Hn Hck). reflexivity.
Qed.

Lemma pal_colon n canon arg first acc pa put :
  assoc_str n arg_actions = Some canon -> mem_str n checked_arg_actions = false ->
  pal_loop [n ++ COLON :: arg] first [] acc pa put = Ok (Good (acc ++ [(canon, arg)])).
Proof.
  intros Hn Hck.
  destruct (arg_name_facts _ _ Hn) as (_ & NC & NL & _).
  assert (LOW : to_lower (n ++ COLON :: arg) = n ++ COLON :: to_lower arg).
  { unfold to_lower. rewrite map_app. cbn [map]. fold (to_lower n). now rewrite NL. }
  cbn [pal_loop app]. rewrite LOW.
  rewrite (switch_none n canon COLON (to_lower arg) Hn eq_refl).
  rewrite (exec_recognised n canon COLON (to_lower arg) Hn eq_refl eq_refl) by (now apply (mask_colon_spec n canon)).
  cbn [Prelude.bind]. unfold name_prefix. rewrite (take_while_app_stop is_name_char n COLON arg NC eq_refl).
  rewrite get_app_len. cbn [Prelude.bind]. rewrite Z.eqb_refl. rewrite skipn_app_len.
  rewrite (check_arg_ok _ _ _ Hn Hck). reflexivity.
Qed.

Lemma cm_simple : assoc_str s_change_multi simple_actions = Some [s_change_multi].
Proof. reflexivity. Qed.
Lemma cm_switch : assoc_str s_change_multi switch_table = None.
Proof. reflexivity. Qed.
Lemma cm_exec : is_execute_action s_change_multi = Ok None.
Proof. vm_compute. reflexivity. Qed.

Lemma cm_lower : to_lower s_change_multi = s_change_multi.
Proof. reflexivity. Qed.

Lemma pal_simple_cm rest first acc pa put :
  pal_loop (s_change_multi :: rest) first [] acc pa put =
  pal_loop rest false [] (acc ++ [(s_change_multi, [])]) pa put.
Proof.
  cbn [pal_loop app]. rewrite cm_lower, cm_switch, cm_exec. cbn [Prelude.bind]. rewrite andb_false_r.
  replace (str_eqb s_change_multi s_change_multi) with true by reflexivity. reflexivity.
Qed.

Fixpoint lstr_eqb (a c : list str) : bool :=
  match a, c with
  | [], [] => true
  | x :: a, y :: c => str_eqb x y && lstr_eqb a c
  | _, _ => false
  end.

Lemma lstr_eqb_eq a c : lstr_eqb a c = true -> a = c.
Proof.
  revert c; induction a as [|x a IH]; intros [|y c] H; cbn in H; try discriminate; [reflexivity|].
  apply andb_true_iff in H as [H1 H2]. apply str_eqb_eq in H1. subst. f_equal. auto.
Qed.

Lemma switch_agrees :
  forallb (fun e => str_eqb (fst e) s_change_multi
                    || match assoc_str (fst e) switch_table with
                       | Some cs' => lstr_eqb cs' (snd e) | None => false end) simple_actions = true.
Proof. vm_compute. reflexivity. Qed.

Lemma switch_simple n cs :
  assoc_str n simple_actions = Some cs -> str_eqb n s_change_multi = false ->
  assoc_str n switch_table = Some cs.
Proof.
  intros Hn CM. apply assoc_in in Hn. pose proof switch_agrees as T. rewrite forallb_forall in T.
  specialize (T _ Hn). cbn [fst snd] in T. rewrite CM in T. cbn [orb] in T.
  destruct (assoc_str n switch_table) as [cs'|]; [|discriminate]. apply lstr_eqb_eq in T. now subst.
Qed.

Lemma pal_simple_other n cs rest first acc pa put :
  assoc_str n simple_actions = Some cs -> str_eqb n s_change_multi = false ->
  pal_loop (n :: rest) first [] acc pa put = pal_loop rest false [] (acc ++ map (fun c => (c, [])) cs) pa put.
Proof.
  intros Hn CM. destruct (simple_name_facts _ _ Hn) as (NE & _ & NL & NP).
  pose proof (switch_simple _ _ Hn CM) as SW.
  cbn [pal_loop app]. rewrite NL, SW, NP. cbn [andb]. reflexivity.
Qed.

Lemma pal_simple n cs rest first acc pa put :
  assoc_str n simple_actions = Some cs ->
  pal_loop (n :: rest) first [] acc pa put = pal_loop rest false [] (acc ++ map (fun c => (c, [])) cs) pa put.
Proof.
  intro Hn. destruct (str_eqb n s_change_multi) eqn:CM.
  - apply str_eqb_eq in CM. subst n. rewrite cm_simple in Hn. inversion Hn; subst cs. apply pal_simple_cm.
  - now apply pal_simple_other.
Qed.

Lemma pal_acts : forall acts lst first acc pa put,
  acts_ok lst acts = true ->
  pal_loop (map render_act acts) first [] acc pa put = Ok (Good (acc ++ acts_denote acts)).
Proof.
  induction acts as [|a r IH]; intros lst first acc pa put H.
  - cbn. now rewrite app_nil_r.
  - assert (HA : exists l1, act_ok l1 a = true /\ (r <> [] -> l1 = false) /\ acts_ok lst r = true).
    { destruct r as [|a2 r]; [exists lst; cbn in *; repeat split; auto; congruence|].
      change (acts_ok lst (a :: a2 :: r)) with (act_ok false a && acts_ok lst (a2 :: r)) in H.
      apply andb_true_iff in H as [H1 H2]. exists false. auto. }
    destruct HA as (l1 & HA & HL & HR).
    unfold acts_denote. cbn [map flat_map]. fold (acts_denote r). rewrite app_assoc.
    destruct a as [n|n [o c'|] arg]; cbn [act_ok render_act act_denote] in *.
    + destruct (assoc_str n simple_actions) as [cs|] eqn:E; [|discriminate].
      rewrite (pal_simple _ _ _ _ _ _ _ E). eapply IH; eauto.
    + destruct (assoc_str n arg_actions) as [canon|] eqn:E; [|discriminate].
      apply andb_true_iff in HA as [HA Hfree]. apply andb_true_iff in HA as [HA Hform].
      cbn [andb] in HA. apply negb_true_iff in HA.
      rewrite (pal_pair _ _ _ _ _ _ _ _ _ _ E HA (form_ok_pair _ _ Hform) Hfree). eapply IH; eauto.
    + destruct (assoc_str n arg_actions) as [canon|] eqn:E; [|discriminate].
      apply andb_true_iff in HA as [HA Hlast]. apply andb_true_iff in HA as [HA _].
      cbn [andb] in HA. apply negb_true_iff in HA.
      destruct r as [|a2 r]; [|specialize (HL ltac:(discriminate)); congruence].
      cbn [map acts_denote flat_map]. rewrite app_nil_r. now apply pal_colon.
Qed.

(* ------------------------------------------------------------------ key names *)

Lemma nosep_no_comma k : nosep k = true -> ~ In COMMA k.
Proof. unfold nosep. intros H X. rewrite forallb_forall in H. specialize (H _ X). discriminate. Qed.

Lemma has_prefix_head c p s : has_prefix (c :: p) s = true -> exists t, s = c :: t.
Proof.
  unfold has_prefix. intro H. apply str_eqb_eq in H. destruct s as [|x t]; cbn in H; [discriminate|].
  inversion H; subst. eauto.
Qed.

Lemma contains_comma p s : contains (COMMA :: p) s = true -> In COMMA s.
Proof.
  induction s as [|x t IH]; cbn [contains]; [discriminate|].
  intro H. apply orb_true_iff in H as [H|H].
  - apply has_prefix_head in H as [t' E]. inversion E; subst. now left.
  - right. auto.
Qed.

Lemma prefix_alt_comma s : prefix_ci s_alt_comma s = true -> In COMMA s.
Proof.
  unfold s_alt_comma. destruct s as [|c1 [|c2 [|c3 [|c4 [|c5 t]]]]]; cbn [prefix_ci]; intro H;
    try (repeat (apply andb_true_iff in H as [_ H]); discriminate).
  do 4 (apply andb_true_iff in H as [_ H]). apply andb_true_iff in H as [H _].
  rewrite (lower_eqb 44 c5 eq_refl eq_refl) in H. apply Z.eqb_eq in H. subst. cbn. tauto.
Qed.

Lemma alt_comma_id : forall f s, ~ In COMMA s -> alt_comma f s = s.
Proof.
  induction f as [|f IH]; intros s H; [reflexivity|]. destruct s as [|c t]; [reflexivity|].
  cbn [alt_comma]. destruct (prefix_ci s_alt_comma (c :: t)) eqn:E.
  - exfalso. apply H. now apply prefix_alt_comma.
  - rewrite IH; [reflexivity|]. intro X. apply H. now right.
Qed.

Lemma split_aux_none sep : forall s cur, ~ In sep s -> split_aux sep cur s = [rev cur ++ s].
Proof.
  induction s as [|c r IH]; intros cur H; cbn [split_aux]; [now rewrite app_nil_r|].
  destruct (c =? sep) eqn:E; [apply Z.eqb_eq in E; subst; exfalso; apply H; now left|].
  rewrite IH by (intro X; apply H; now right). cbn [rev]. now rewrite <- app_assoc.
Qed.

Lemma key_token_clean k : forallb (fun c => 3 <=? c) k = true -> key_of_masked_token k = key_of_token k.
Proof.
  intro H. unfold key_of_masked_token.
  assert (M : map (fun c => if c =? ESC_COMMA then COMMA else c) k = k).
  { induction k as [|c r IH]; [reflexivity|]. cbn in H. apply andb_true_iff in H as [Hc Hr]. apply Z.leb_le in Hc.
    cbn [map]. rewrite (IH Hr). replace (c =? ESC_COMMA) with false by (symmetry; apply Z.eqb_neq; unfold ESC_COMMA; lia). reflexivity. }
  rewrite M.
  destruct k as [|a [|c [|d [|e [|r [|z k']]]]]]; try reflexivity.
  destruct (has_prefix s_alt (to_lower [a; c; d; e; r])); [|reflexivity].
  cbn in H. do 4 (apply andb_true_iff in H as [_ H]). apply andb_true_iff in H as [H _]. apply Z.leb_le in H.
  replace (r =? ESC_COLON) with false by (symmetry; apply Z.eqb_neq; unfold ESC_COLON; lia).
  replace (r =? ESC_PLUS) with false by (symmetry; apply Z.eqb_neq; unfold ESC_PLUS; lia). reflexivity.
Qed.

Lemma parse_key_chords_one k x :
  k <> [] -> nosep k = true -> forallb (fun c => 3 <=? c) k = true -> key_of_token k = Some x ->
  parse_key_chords k = Good [x].
Proof.
  intros NE NS H3 HK. pose proof (nosep_no_comma _ NS) as NC.
  unfold parse_key_chords. destruct k as [|c0 k0] eqn:EK; [congruence|]. rewrite <- EK in *.
  rewrite (alt_comma_id _ _ NC). unfold split_on. rewrite (split_aux_none _ _ _ NC). cbn [rev app].
  replace (str_eqb k [COMMA] || has_prefix [COMMA; COMMA] k || has_suffix [COMMA; COMMA] k
           || contains [COMMA; COMMA; COMMA] k) with false.
  - rewrite EK. cbn [chords_loop]. rewrite <- EK. rewrite (key_token_clean _ H3), HK. reflexivity.
  - symmetry. repeat (apply orb_false_iff; split).
    + destruct (str_eqb k [COMMA]) eqn:E; [|reflexivity]. apply str_eqb_eq in E. exfalso. apply NC. rewrite E. now left.
    + destruct (has_prefix [COMMA; COMMA] k) eqn:E; [|reflexivity]. apply has_prefix_head in E as [t ->]. exfalso. apply NC. now left.
    + destruct (has_suffix [COMMA; COMMA] k) eqn:E; [|reflexivity]. unfold has_suffix in E. cbn [rev app] in E.
      apply has_prefix_head in E as [t E]. exfalso. apply NC. apply in_rev. rewrite E. now left.
    + destruct (contains [COMMA; COMMA; COMMA] k) eqn:E; [|reflexivity]. exfalso. apply NC. eapply contains_comma; eauto.
Qed.

Lemma key_name_ok k : key_spelling_ok k = true -> key_of_name k = Good (key_denote k).
Proof.
  intro H. destruct (key_no_sep _ H) as (NE & NS & H3 & x & HK).
  unfold key_denote. rewrite HK. pose proof (parse_key_chords_one _ _ NE NS H3 HK) as P.
  unfold key_of_name. destruct k as [|c [|c2 k']]; [congruence| |now rewrite P].
  cbn in H3. apply andb_true_iff in H3 as [Hc _]. apply Z.leb_le in Hc.
  replace (c =? ESC_COLON) with false by (symmetry; apply Z.eqb_neq; unfold ESC_COLON; lia).
  replace (c =? ESC_COMMA) with false by (symmetry; apply Z.eqb_neq; unfold ESC_COMMA; lia).
  replace (c =? ESC_PLUS) with false by (symmetry; apply Z.eqb_neq; unfold ESC_PLUS; lia).
  now rewrite P.
Qed.

(* ------------------------------------------------------------------ masked and original, zipped *)

Definition zself (k : str) : list (Z * Z) := combine k k.
Definition z_act (a : act) : list (Z * Z) := combine (mask_act a) (render_act a).
Fixpoint zjoin (sep : Z) (l : list (list (Z * Z))) : list (Z * Z) :=
  match l with
  | [] => []
  | [x] => x
  | x :: r => x ++ (sep, sep) :: zjoin sep r
  end.
Definition z_pair (p : bpair) : list (Z * Z) :=
  zjoin COMMA (map zself (fst p)) ++ (COLON, COLON) :: zjoin PLUS (map z_act (snd p)).
Definition z_bind (bd : bind) : list (Z * Z) := zjoin COMMA (map z_pair bd).

Lemma zjoin_cons2 sep x y r : zjoin sep (x :: y :: r) = x ++ (sep, sep) :: zjoin sep (y :: r).
Proof. reflexivity. Qed.

Lemma map_fst_combine (a c : str) : length a = length c -> map fst (combine a c) = a /\ map snd (combine a c) = c.
Proof.
  revert c; induction a as [|x a IH]; intros [|y c] H; cbn in *; try discriminate; [auto|].
  destruct (IH c ltac:(lia)) as [A B]. now rewrite A, B.
Qed.

Lemma combine_fst_snd (l : list (Z * Z)) : combine (map fst l) (map snd l) = l.
Proof. induction l as [|[x y] r IH]; cbn; [reflexivity|now rewrite IH]. Qed.

Lemma mask_act_len a : length (mask_act a) = length (render_act a).
Proof.
  destruct a as [n|n [o c|] arg]; cbn [mask_act render_act]; [reflexivity| |];
    rewrite !app_length, blanks_len; cbn [length]; [rewrite app_length; cbn [length]|]; lia.
Qed.

Lemma zjoin_map (f : Z * Z -> Z) sep l : map f (zjoin sep l) = join (f (sep, sep)) (map (map f) l).
Proof.
  induction l as [|x r IH]; [reflexivity|]. destruct r as [|y r]; [reflexivity|].
  rewrite zjoin_cons2. cbn [map]. rewrite join_cons2, map_app. cbn [map]. now rewrite IH.
Qed.

Lemma z_act_proj a : map fst (z_act a) = mask_act a /\ map snd (z_act a) = render_act a.
Proof. apply map_fst_combine, mask_act_len. Qed.

Lemma zself_proj k : map fst (zself k) = k /\ map snd (zself k) = k.
Proof. now apply map_fst_combine. Qed.

Lemma z_pair_proj p : map fst (z_pair p) = render_m_pair p /\ map snd (z_pair p) = render_pair p.
Proof.
  unfold z_pair, render_m_pair, render_pair. rewrite !map_app. cbn [map fst snd]. rewrite !zjoin_map, !map_map. cbn [fst snd].
  split; f_equal.
  - f_equal. rewrite <- (map_id (fst p)) at 2. apply map_ext. intro k. apply zself_proj.
  - f_equal. f_equal. apply map_ext. intro a. apply z_act_proj.
  - f_equal. rewrite <- (map_id (fst p)) at 2. apply map_ext. intro k. apply zself_proj.
  - f_equal. f_equal. apply map_ext. intro a. apply z_act_proj.
Qed.

Lemma z_bind_proj bd : map fst (z_bind bd) = render_m bd /\ map snd (z_bind bd) = render bd.
Proof.
  unfold z_bind, render_m, render. rewrite !zjoin_map, !map_map. cbn [fst snd].
  split; f_equal; apply map_ext; intro p; apply z_pair_proj.
Qed.

Lemma combine_render bd : combine (render_m bd) (render bd) = z_bind bd.
Proof. destruct (z_bind_proj bd) as [<- <-]. apply combine_fst_snd. Qed.

(* ------------------------------------------------------------------ splitting *)

Definition nofst (sep : Z) (u : list (Z * Z)) : bool := forallb (fun c => negb (fst c =? sep)) u.

Lemma nofst_app sep u v : nofst sep (u ++ v) = nofst sep u && nofst sep v.
Proof. apply forallb_app. Qed.

Lemma split2_aux_sep sep x s : forall u cur, nofst sep u = true ->
  split2_aux sep cur (u ++ (sep, x) :: s) = (rev cur ++ u) :: split2_aux sep [] s.
Proof.
  induction u as [|c u IH]; intros cur H; cbn [app split2_aux fst].
  - now rewrite Z.eqb_refl, app_nil_r.
  - cbn in H. apply andb_true_iff in H as [Hc Hu]. apply negb_true_iff in Hc. rewrite Hc.
    rewrite (IH (c :: cur) Hu). cbn [rev]. now rewrite <- app_assoc.
Qed.

Lemma split2_aux_end sep : forall u cur, nofst sep u = true -> split2_aux sep cur u = [rev cur ++ u].
Proof.
  induction u as [|c u IH]; intros cur H; cbn [split2_aux].
  - now rewrite app_nil_r.
  - cbn in H. apply andb_true_iff in H as [Hc Hu]. apply negb_true_iff in Hc. rewrite Hc.
    rewrite (IH (c :: cur) Hu). cbn [rev]. now rewrite <- app_assoc.
Qed.

Lemma break_colon_at x s : forall u cur, nofst COLON u = true ->
  break_colon cur (u ++ (COLON, x) :: s) = (rev cur ++ u, Some s).
Proof.
  induction u as [|c u IH]; intros cur H; cbn [app break_colon fst].
  - now rewrite Z.eqb_refl, app_nil_r.
  - cbn in H. apply andb_true_iff in H as [Hc Hu]. apply negb_true_iff in Hc. rewrite Hc.
    rewrite (IH (c :: cur) Hu). cbn [rev]. now rewrite <- app_assoc.
Qed.

Lemma break_colon_none : forall u cur, nofst COLON u = true -> break_colon cur u = (rev cur ++ u, None).
Proof.
  induction u as [|c u IH]; intros cur H; cbn [break_colon].
  - now rewrite app_nil_r.
  - cbn in H. apply andb_true_iff in H as [Hc Hu]. apply negb_true_iff in Hc. rewrite Hc.
    rewrite (IH (c :: cur) Hu). cbn [rev]. now rewrite <- app_assoc.
Qed.

Lemma nofst_of_nosep sep a c : is_sep sep = true -> length a = length c -> nosep a = true -> nofst sep (combine a c) = true.
Proof.
  intros Hs. unfold nofst, nosep. revert c; induction a as [|x a IH]; intros [|y c] HL H; try reflexivity; try discriminate.
  cbn [combine forallb fst] in *. cbn [length] in HL. apply andb_true_iff in H as [Hx Ha].
  rewrite (IH c ltac:(lia) Ha), andb_true_r.
  apply negb_true_iff. apply negb_true_iff in Hx. destruct (x =? sep) eqn:E; [|reflexivity].
  apply Z.eqb_eq in E. subst. congruence.
Qed.

Lemma nofst_zself sep k : is_sep sep = true -> nosep k = true -> nofst sep (zself k) = true.
Proof. intros. now apply nofst_of_nosep. Qed.

Lemma nofst_z_act sep lst a : is_sep sep = true -> act_ok lst a = true -> nofst sep (z_act a) = true.
Proof. intros Hs Ha. apply nofst_of_nosep; [exact Hs|apply mask_act_len|]. exact (proj2 (mask_act_word _ _ Ha)). Qed.

Lemma acts_nofst sep : forall acts lst, is_sep sep = true -> acts_ok lst acts = true -> Forall (fun z => nofst sep z = true) (map z_act acts).
Proof.
  induction acts as [|a r IH]; intros lst Hs H; [constructor|].
  destruct r as [|a2 r].
  - cbn in *. constructor; [eapply nofst_z_act; eauto|constructor].
  - change (acts_ok lst (a :: a2 :: r)) with (act_ok false a && acts_ok lst (a2 :: r)) in H.
    apply andb_true_iff in H as [H1 H2]. cbn [map]. constructor; [eapply nofst_z_act; eauto|]. exact (IH _ Hs H2).
Qed.

(* pieces free of sep, joined by a DIFFERENT separator, are still free of sep *)
Lemma nofst_zjoin sep other l : (other =? sep) = false -> Forall (fun z => nofst sep z = true) l -> nofst sep (zjoin other l) = true.
Proof.
  intros Hd H. induction H as [|x r Hx Hr IH]; [reflexivity|].
  destruct r as [|y r]; [exact Hx|]. rewrite zjoin_cons2, nofst_app, Hx. cbn [nofst forallb fst andb].
  rewrite Hd. exact IH.
Qed.

Lemma split2_zjoin sep : forall l, l <> [] -> Forall (fun z => nofst sep z = true) l -> split2 sep (zjoin sep l) = l.
Proof.
  unfold split2. induction l as [|x r IH]; intros NE H; [congruence|].
  inversion H as [|? ? Hx Hr]; subst. destruct r as [|y r].
  - cbn [zjoin]. now rewrite split2_aux_end.
  - rewrite zjoin_cons2, (split2_aux_sep _ _ _ _ _ Hx). cbn [rev app]. f_equal. apply IH; [discriminate|exact Hr].
Qed.

(* ------------------------------------------------------------------ one binding, then all *)

Lemma parse_acts_ok acts lst prev put : acts <> [] -> acts_ok lst acts = true ->
  let z := zjoin PLUS (map z_act acts) in
  parse_action_list (map fst z) (map snd z) prev put = Ok (Good (acts_denote acts)).
Proof.
  intros NE HA z. unfold parse_action_list. rewrite !map_length, Nat.eqb_refl, combine_fst_snd.
  unfold z. rewrite split2_zjoin; [|destruct acts; [congruence|discriminate]|eapply acts_nofst; eauto; reflexivity].
  rewrite map_map. rewrite (map_ext _ render_act) by (intro a; apply z_act_proj).
  rewrite (pal_acts _ _ _ _ _ _ HA). reflexivity.
Qed.

Lemma bind_keys_ok macts oacts D : (forall prev put, parse_action_list macts oacts prev put = Ok (Good D)) ->
  forall ks m, forallb key_spelling_ok ks = true ->
  bind_keys ks m macts oacts = Ok (Good (fold_left (fun m k => km_set m (key_denote k) D) ks m)).
Proof.
  intro HP. induction ks as [|k r IH]; intros m H; [reflexivity|].
  cbn in H. apply andb_true_iff in H as [Hk Hr].
  cbn [bind_keys fold_left]. rewrite (key_name_ok _ Hk), HP. cbn [Prelude.bind]. apply IH. exact Hr.
Qed.

Definition after (T : list (Z * Z)) (m : keymap) : res (outcome keymap) :=
  match T with
  | [] => Ok (Good m)
  | _ :: s' => keymap_loop (split2_aux COMMA [] s') [] m
  end.

Lemma kl_keys zacts T D :
  nofst COMMA zacts = true -> (T = [] \/ exists s', T = (COMMA, COMMA) :: s') ->
  (forall prev put, parse_action_list (map fst zacts) (map snd zacts) prev put = Ok (Good D)) ->
  forall ks keys m, ks <> [] -> forallb key_spelling_ok ks = true -> forallb key_spelling_ok keys = true ->
  keymap_loop (split2_aux COMMA [] (zjoin COMMA (map zself ks) ++ (COLON, COLON) :: zacts ++ T)) keys m =
  after T (fold_left (fun m k => km_set m (key_denote k) D) (keys ++ ks) m).
Proof.
  intros NZ HT HP. induction ks as [|k r IH]; intros keys m NE HK HKeys; [congruence|].
  cbn in HK. apply andb_true_iff in HK as [Hk Hr].
  destruct (key_no_sep _ Hk) as (KNE & KNS & _).
  destruct (zself_proj k) as [ZF _].
  assert (ZNE : zself k <> []) by (destruct k; [congruence|discriminate]).
  destruct r as [|k2 r].
  - (* the last key of the list carries the actions *)
    cbn [map zjoin].
    assert (PIECE : nofst COMMA (zself k ++ (COLON, COLON) :: zacts) = true).
    { rewrite nofst_app, (nofst_zself COMMA k eq_refl KNS). cbn [nofst forallb fst andb]. exact NZ. }
    assert (BK : forall more, keymap_loop ((zself k ++ (COLON, COLON) :: zacts) :: more) keys m =
                 keymap_loop more [] (fold_left (fun m k => km_set m (key_denote k) D) (keys ++ [k]) m)).
    { intro more. cbn [keymap_loop]. rewrite (break_colon_at _ _ _ [] (nofst_zself COLON k eq_refl KNS)). cbn [rev app].
      destruct (zself k) as [|z0 zk] eqn:EZ; [congruence|]. rewrite ZF.
      rewrite (bind_keys_ok _ _ _ HP). cbn [Prelude.bind]. reflexivity.
      rewrite forallb_app, HKeys. cbn. now rewrite Hk. }
    destruct HT as [->|(s' & ->)].
    + rewrite app_nil_r, (split2_aux_end _ _ _ PIECE). cbn [rev app]. rewrite BK. reflexivity.
    + replace (zself k ++ (COLON, COLON) :: zacts ++ (COMMA, COMMA) :: s')
        with ((zself k ++ (COLON, COLON) :: zacts) ++ (COMMA, COMMA) :: s') by (now rewrite <- app_assoc).
      rewrite (split2_aux_sep _ _ _ _ _ PIECE). cbn [rev app]. rewrite BK. reflexivity.
  - cbn [map]. rewrite zjoin_cons2, <- app_assoc. cbn [app].
    rewrite (split2_aux_sep _ _ _ _ _ (nofst_zself COMMA k eq_refl KNS)). cbn [rev app keymap_loop].
    rewrite (break_colon_none _ [] (nofst_zself COLON k eq_refl KNS)). cbn [rev app].
    destruct (zself k) as [|z0 zk] eqn:EZ; [congruence|]. rewrite ZF.
    change (zself k2 :: map zself r) with (map zself (k2 :: r)).
    assert (HK2 : forallb key_spelling_ok (keys ++ [k]) = true) by (rewrite forallb_app, HKeys; cbn; now rewrite Hk).
    pose proof (IH (keys ++ [k]) m ltac:(discriminate) Hr HK2) as IH'.
    rewrite <- app_assoc in IH'. exact IH'.
Qed.

Lemma kl_pair lst p T m : pair_ok lst p = true -> (T = [] \/ exists s', T = (COMMA, COMMA) :: s') ->
  keymap_loop (split2_aux COMMA [] (z_pair p ++ T)) [] m = after T (pair_denote m p).
Proof.
  intros HP HT. unfold pair_ok in HP.
  apply andb_true_iff in HP as [HP HA]. apply andb_true_iff in HP as [HP NA]. apply andb_true_iff in HP as [NK HK].
  assert (ANE : snd p <> []) by (destruct (snd p); [discriminate|congruence]).
  unfold z_pair. rewrite <- app_assoc. cbn [app].
  rewrite (kl_keys _ T (acts_denote (snd p))); auto.
  - eapply nofst_zjoin; [reflexivity|]. eapply acts_nofst; eauto.
  - intros prev put. eapply (parse_acts_ok (snd p) lst prev put); eauto.
  - destruct (fst p); [discriminate|congruence].
Qed.

Lemma kl_bind : forall bd m, wf_bind bd = true ->
  keymap_loop (split2 COMMA (z_bind bd)) [] m = Ok (Good (denote m bd)).
Proof.
  unfold split2. induction bd as [|p r IH]; intros m H; [discriminate|].
  destruct r as [|p2 r].
  - cbn [wf_bind] in H. unfold z_bind. cbn [map zjoin]. rewrite <- (app_nil_r (z_pair p)).
    rewrite (kl_pair true p [] m H (or_introl eq_refl)). reflexivity.
  - change (wf_bind (p :: p2 :: r)) with (pair_ok false p && wf_bind (p2 :: r)) in H.
    apply andb_true_iff in H as [H1 H2]. unfold z_bind in *. cbn [map]. rewrite zjoin_cons2.
    rewrite (kl_pair false p _ m H1 (or_intror (ex_intro _ _ eq_refl))). cbn [after].
    cbn [map] in IH. rewrite (IH _ H2). reflexivity.
Qed.

(* ------------------------------------------------------------------ the round trip *)

Theorem bind_roundtrip_proof : forall m bd, wf_bind bd = true ->
  parse_keymap m (render bd) = Ok (Good (denote m bd)).
Proof.
  intros m bd H. unfold parse_keymap.
  destruct (mask_total (render bd)) as (mm & HM & HL).
  rewrite (mask_render _ H) in HM. inversion HM; subst mm.
  rewrite (mask_render _ H). cbn [Prelude.bind]. rewrite HL, Nat.eqb_refl, combine_render.
  now apply kl_bind.
Qed.
