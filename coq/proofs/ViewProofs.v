(* C13 / C08: the display order of a published merger (closes publish_view).

   Uses C04's generic order theory UNCHANGED (spec/RankSpec.v, model/RankModel.v, model/MergerModel.v,
   proofs/RankProofs.v, proofs/MergerProofs.v): uniqueness of the sorted permutation, sort.Sort-as-insertion-sort
   = isort, and merge_is_global_sort (the lazily merged list of Merger.Get is the global sort, for ANY `less`
   that is sound for a strict total order).

   Bridge between the two vocabularies, stated explicitly:
     less  := SearchSpec.rank_before idx tac            (compareRanks as the matcher model uses it)
     ltb   := rank_strict tac                           (key, then index strictly; reversed under tac)
   `rank_before` is sound for `rank_strict` unconditionally (rank_before_sound); `rank_strict` is a strict TOTAL
   order provided item indexes identify items (`idx_injective`: Item.Index() is the ordinal of the input line). *)
From Coq Require Import Permutation Sorted.
From Fzf Require Import Prelude RankSpec RankModel MergerModel RankProofs MergerProofs.
From Fzf Require Import SearchSpec ChunkStoreModel CacheModel MatcherModel MatcherProofs.
Open Scope Z_scope.

Section ViewProofs.
  Context {item pat : Type}.
  Variable E : penv item pat.
  Local Notation idx := (e_idx E).
  Local Notation matchf := (e_matchf E).
  Local Notation result := (item * Z)%type.

  Definition idx_injective : Prop := forall x y : item, idx x = idx y -> x = y.

  (* the strict order behind compareRanks: smaller key first, ties by index (strictly), reversed under tac *)
  Definition rank_strict (tac : bool) (a b : result) : bool :=
    (snd a <? snd b) || ((snd a =? snd b) && (if tac then idx (fst b) <? idx (fst a) else idx (fst a) <? idx (fst b))).

  Lemma rank_strict_total tac : idx_injective -> strict_total (rank_strict tac).
  Proof.
    intro Hinj. unfold rank_strict. split; [|split].
    - intros [x k]. cbn. rewrite Z.ltb_irrefl, Z.eqb_refl. cbn. destruct tac; apply Z.ltb_irrefl.
    - intros [x1 k1] [x2 k2] [x3 k3]. cbn. intros H1 H2.
      apply orb_true_iff in H1. apply orb_true_iff in H2. apply orb_true_iff.
      destruct H1 as [H1|H1]; destruct H2 as [H2|H2];
        rewrite ?andb_true_iff, ?Z.ltb_lt, ?Z.eqb_eq in *.
      + left. lia.
      + left. lia.
      + left. lia.
      + right. destruct H1 as [E1 H1], H2 as [E2 H2]. split; [lia|].
        destruct tac; rewrite Z.ltb_lt in *; lia.
    - intros [x1 k1] [x2 k2]. cbn.
      destruct (Z.lt_trichotomy k1 k2) as [H|[H|H]].
      + right; left. apply orb_true_iff. left. now apply Z.ltb_lt.
      + subst k2. destruct (Z.lt_trichotomy (idx x1) (idx x2)) as [Hi|[Hi|Hi]].
        * right. destruct tac; [right|left]; rewrite Z.ltb_irrefl, Z.eqb_refl; cbn; now apply Z.ltb_lt.
        * left. f_equal. now apply Hinj.
        * right. destruct tac; [left|right]; rewrite Z.ltb_irrefl, Z.eqb_refl; cbn; now apply Z.ltb_lt.
      + right; right. apply orb_true_iff. left. now apply Z.ltb_lt.
  Qed.

  (* compareRanks (<= on the index, xor tac) is sound for that strict order - no assumption needed *)
  Lemma rank_before_sound tac : less_sound (rank_strict tac) (rank_before idx tac).
  Proof.
    unfold less_sound, le, rank_strict, rank_before. split; intros [x1 k1] [x2 k2]; cbn.
    - destruct (Z.ltb_spec k1 k2) as [H|H].
      + intros _. destruct (Z.ltb_spec k2 k1); [lia|]. destruct (Z.eqb_spec k2 k1); [lia|]. reflexivity.
      + destruct (Z.ltb_spec k2 k1) as [H2|H2]; [discriminate|].
        assert (k1 = k2) by lia. subst. rewrite Z.eqb_refl. cbn.
        destruct tac; cbn; destruct (Z.leb_spec (idx x1) (idx x2)); cbn; intro Hx; try discriminate;
          apply Z.ltb_ge; lia.
    - destruct (Z.ltb_spec k1 k2) as [H|H]; [discriminate|].
      destruct (Z.ltb_spec k2 k1) as [H2|H2].
      + intros _. destruct (Z.eqb_spec k1 k2); [lia|]. reflexivity.
      + assert (k1 = k2) by lia. subst. rewrite Z.eqb_refl. cbn.
        destruct tac; cbn; destruct (Z.leb_spec (idx x1) (idx x2)); cbn; intro Hx; try discriminate;
          apply Z.ltb_ge; lia.
  Qed.

  (* the matcher model's sort (SearchSpec.rank_sort) is RankModel.sort_results for that `less` ... *)
  Lemma rank_sort_is_sort_results tac l : rank_sort idx tac l = sort_results (rank_before idx tac) l.
  Proof.
    unfold rank_sort. induction l as [|x l IH]; cbn; [reflexivity|]. rewrite IH. clear IH.
    induction (sort_results (rank_before idx tac) l) as [|y t IHt]; cbn; [reflexivity|].
    destruct (rank_before idx tac x y); [reflexivity | now rewrite IHt].
  Qed.

  (* ... hence THE sorted permutation *)
  Lemma rank_sort_is_isort tac l : idx_injective -> rank_sort idx tac l = isort (rank_strict tac) l.
  Proof.
    intro Hinj. rewrite rank_sort_is_sort_results.
    apply (sort_results_eq_isort (rank_strict tac) (rank_strict_total tac Hinj) _ (rank_before_sound tac)).
  Qed.

  Lemma rank_sort_sorted tac l : idx_injective -> StronglySorted (le (rank_strict tac)) (rank_sort idx tac l).
  Proof. intro Hinj. rewrite (rank_sort_is_isort tac l Hinj). apply isort_sorted. now apply rank_strict_total. Qed.

  Lemma rank_sort_perm_eq tac l l' : idx_injective -> Permutation l l' -> rank_sort idx tac l = rank_sort idx tac l'.
  Proof.
    intros Hinj P. rewrite !rank_sort_is_isort by exact Hinj.
    apply isort_perm_eq; [now apply rank_strict_total | exact P].
  Qed.

  (* THEOREM publish_view (all cases): what a fresh merger shows, top to bottom, is the sequential oracle of its
     own request: rank order when sorting is on and the query has a positive term, input order otherwise,
     everything for the empty query; reversed under --tac where the oracle says so. *)
  Theorem publish_view_proof : forall (r : @request item pat) f, idx_injective ->
    merger_view E (set_final (scan_spec E r) f) =
    oracle idx matchf (e_empty E) (e_sortable E) (r_sort r) (e_tac E) (r_pat r) (snapshot_items r).
  Proof.
    intros r f Hinj.
    destruct (r_sort r && e_sortable E (r_pat r))%bool eqn:Hs; [|apply fresh_view_unsorted_proof; now left].
    destruct (e_empty E (r_pat r)) eqn:He; [apply fresh_view_unsorted_proof; right; now left|].
    destruct (r_chunks r) as [|ch0 chs] eqn:Hc; [apply fresh_view_unsorted_proof; right; right; exact Hc|].
    pose proof (fresh_contents_proof E r f) as Hf.
    unfold merger_view, oracle. rewrite He, Hs.
    destruct (mg_body (set_final (scan_spec E r) f)) as [xss|lists sorted] eqn:Hb.
    - destruct Hf as [Hf _]. congruence.
    - destruct Hf as (_ & Hsorted & Hperm & _).
      rewrite Hsorted by (rewrite Hc; discriminate). rewrite Hs.
      assert (Ht : mg_tac (set_final (scan_spec E r) f) = e_tac E).
      { unfold scan_spec. rewrite Hc. cbn [map]. rewrite He. reflexivity. }
      rewrite Ht. f_equal. now apply rank_sort_perm_eq.
  Qed.

  (* the partial lists of a fresh ranked merger are sorted, as NewMerger expects *)
  Lemma fresh_lists_sorted (r : @request item pat) f lists : idx_injective ->
    mg_body (set_final (scan_spec E r) f) = MLists lists true ->
    Forall (StronglySorted (le (rank_strict (e_tac E)))) lists.
  Proof.
    intros Hinj Hb. unfold scan_spec in Hb.
    destruct (map snd (r_chunks r)) as [|xs xss]; [cbn in Hb; discriminate|].
    destruct (e_empty E (r_pat r)); [cbn in Hb; discriminate|].
    cbn in Hb. inversion Hb as [[Hl Hs]]. clear Hb. unfold lists_spec.
    apply Forall_forall. intros l Hin. apply in_map_iff in Hin as (part & <- & _).
    unfold finish. rewrite Hs. now apply rank_sort_sorted.
  Qed.

  (* THEOREM publish_view_ranked, through C04's model of Merger.Get: for a fresh ranked merger, ANY sequence of
     in-range Get(i) calls on NewMerger(lists, sorted = true, tac) - the lazy k-way merge of merger.go - never
     fails and reads exactly the positions of the oracle's list. *)
  Theorem publish_view_ranked_proof : forall (I : Type) (mk : I -> result) (chunk_size : Z)
      (r : @request item pat) f lists (idxs : list Z),
    idx_injective -> mg_body (set_final (scan_spec E r) f) = MLists lists true ->
    in_range (zlength (concat lists)) idxs ->
    exists xs, probes I result mk (rank_before idx (e_tac E)) chunk_size
                      (new_merger I result lists true (e_tac E)) idxs = Ok xs /\
               Forall2 (fun i x => get (oracle idx matchf (e_empty E) (e_sortable E) (r_sort r) (e_tac E) (r_pat r)
                                               (snapshot_items r)) (Z.to_nat i) = Ok (fst x)) idxs xs.
  Proof.
    intros I mk chunk_size r f lists idxs Hinj Hb Hr.
    destruct (merge_is_global_sort_proof I result mk (rank_before idx (e_tac E)) chunk_size (rank_strict (e_tac E))
                (rank_strict_total _ Hinj) (rank_before_sound _) lists (e_tac E) idxs
                (fresh_lists_sorted r f lists Hinj Hb) Hr) as (xs & Hp & Ha).
    exists xs. split; [exact Hp|].
    pose proof (publish_view_proof r f Hinj) as Hv. unfold merger_view in Hv. rewrite Hb in Hv.
    assert (Ht : mg_tac (set_final (scan_spec E r) f) = e_tac E).
    { unfold scan_spec in *. destruct (map snd (r_chunks r)); [cbn in Hb; discriminate|].
      destruct (e_empty E (r_pat r)); [cbn in Hb; discriminate | reflexivity]. }
    rewrite Ht in Hv. rewrite <- Hv, (rank_sort_is_isort _ _ Hinj).
    unfold answers_are in Ha. clear Hp Hr. induction Ha as [|i x is xs' Hg Ha IH]; constructor; [now apply get_map | exact IH].
  Qed.
End ViewProofs.
