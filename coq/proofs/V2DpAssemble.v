(* C03 assembly: FuzzyMatchV2's model [fuzzy_v2] against [naive_dp], CONDITIONAL on the two facts
   proved elsewhere (stated here as predicates over exactly the terms [fuzzy_v2] builds):
     phase2_establishes  phase 2 over the window yields a state satisfying [p2_ok]      (V2Facts / phase-2 proofs)
     phase3_refines      the flat-memory fill p3_rows returns the (maxScore, maxPos) of the list
                         version [win_result]                                          (V2MatrixProofs)
   Everything else (window choice, DP = naive DP, best cell) is proved. *)
From Fzf Require Import Prelude AlgoSpec AlgoModel V2Facts V2DpWin V2DpNaive V2DpCore V2DpWindow V2DpProofs.
Open Scope Z_scope.

Section Assemble.
Variable co : char_ops.
Variable sc : scheme.

(* the phase-2 state fuzzy_v2 computes for window [w] *)
Definition v2_state (cs nm fwd : bool) (pat w : list Z) : p2 :=
  phase2 co sc cs nm fwd (Nat.eqb (length pat) 1) w O (hd 0 pat) pat (last pat 0) 0 (s_init sc) false
         (mkP2 [] [] [] [] [] O O 0 O).

Definition phase2_establishes (cs nm fwd : bool) (pat w : list Z) : Prop :=
  p2_pidx (v2_state cs nm fwd pat w) = length pat -> p2_ok co sc cs nm w pat (v2_state cs nm fwd pat w).

(* p3_rows, started exactly as fuzzy_v2 starts it, returns what win_result returns *)
Definition phase3_refines (fwd : bool) (pat : list Z) (st : p2) : Prop :=
  forall f0n H C H' C' ms mp,
  get (p2F st) O = Ok f0n ->
  let f0 := Z.of_nat f0n in
  let lastIdx := Z.of_nat (p2_lastIdx st) in
  let width := lastIdx - f0 + 1 in
  let blank : mat := repeat None (Z.to_nat (width * Z.of_nat (length pat))) in
  let seg (l : list Z) := firstn (Z.to_nat width) (skipn f0n l) in
  0 < width ->
  put_row blank 0 (seg (p2H0 st)) = Ok H ->
  put_row blank 0 (seg (p2C0 st)) = Ok C ->
  p3_rows fwd (p2T st) (p2B st) H C width f0 lastIdx (length pat) (tl (p2F st)) (tl pat) 1
          (p2_maxScore st) (Z.of_nat (p2_maxPos st)) = Ok (H', C', ms, mp) ->
  0 <= mp /\
  win_result fwd (p2T st) (p2B st) (p2H0 st) (p2C0 st) (p2F st) pat (p2_lastIdx st) = (ms, Z.to_nat mp).

Theorem v2_model_score_eq_naive_conditional_proof :
  forall (cs nm fwd is_bytes : bool) (text pat : list Z) (withPos : bool) (slabCap : option Z)
         (s e : nat) (score : Z) (pos : option (list nat)),
  (2 <= length pat)%nat ->
  0 <= s_bw sc /\ 0 <= s_bd sc ->
  (is_bytes = true -> Forall (fun c => 0 <= c < 128) text) ->
  (forall c, c < 192 -> co_norm co c = c) ->
  (* no fallback to V1 *)
  (match slabCap with Some cap => cap <? Z.of_nat (length text) * Z.of_nat (length pat) | None => false end) = false ->
  (forall minIdx maxIdx, ascii_fuzzy_index is_bytes text pat cs = Ok (Some (minIdx, maxIdx)) ->
     let w := firstn (maxIdx - minIdx) (skipn minIdx text) in
     phase2_establishes cs nm fwd pat w /\ phase3_refines fwd pat (v2_state cs nm fwd pat w)) ->
  fuzzy_v2 co sc cs nm fwd is_bytes text pat withPos slabCap = Ok (Match s e score pos) ->
  naive_dp co sc cs nm fwd text pat = Some (score, e).
Proof.
  intros cs nm fwd is_bytes text pat withPos slabCap s e score pos HM2 Hsc Hascii Hn Hslab Hcond Hrun.
  unfold fuzzy_v2 in Hrun.
  destruct pat as [|p0 pat'] eqn:Epat; [cbn in HM2; lia|]. rewrite <- Epat in *.
  destruct (Nat.ltb (length text) (length pat)); [discriminate|].
  rewrite Hslab in Hrun.
  destruct (ascii_fuzzy_index is_bytes text pat cs) as [[[minIdx maxIdx]|]|] eqn:Eafi; cbn [bind] in Hrun;
    try discriminate.
  destruct (Nat.ltb maxIdx minIdx || Nat.ltb (length text) maxIdx); [discriminate|].
  destruct (Hcond minIdx maxIdx eq_refl) as [HA HB]. clear Hcond.
  set (w := firstn (maxIdx - minIdx) (skipn minIdx text)) in *.
  assert (Est : phase2 co sc cs nm fwd (Nat.eqb (length pat) 1) w O p0 pat (last pat 0) 0 (s_init sc) false
                  (mkP2 [] [] [] [] [] O O 0 O) = v2_state cs nm fwd pat w).
  { unfold v2_state. rewrite Epat. reflexivity. }
  rewrite Est in Hrun. set (st := v2_state cs nm fwd pat w) in *.
  destruct (Nat.eqb (p2_pidx st) (length pat)) eqn:Epidx; cbn [negb] in Hrun; [|discriminate].
  apply Nat.eqb_eq in Epidx.
  replace (Nat.eqb (length pat) 1) with false in Hrun by (symmetry; apply Nat.eqb_neq; lia).
  pose proof (HA Epidx) as Hok.
  change (rev (p2_T st)) with (p2T st) in Hrun. change (rev (p2_B st)) with (p2B st) in Hrun.
  change (rev (p2_H0 st)) with (p2H0 st) in Hrun. change (rev (p2_C0 st)) with (p2C0 st) in Hrun.
  change (rev (p2_F st)) with (p2F st) in Hrun.
  destruct (get (p2F st) 0) as [f0n|] eqn:Ef0; cbn [bind] in Hrun; [|discriminate].
  destruct (Z.of_nat (p2_lastIdx st) - Z.of_nat f0n + 1 <=? 0) eqn:Ew; [discriminate|].
  apply Z.leb_gt in Ew.
  destruct (Nat.ltb (length (p2H0 st)) (Z.to_nat (Z.of_nat (p2_lastIdx st) + 1))); [discriminate|].
  match type of Hrun with (do H <- ?a; _) = _ => destruct a as [H|] eqn:EH end; cbn [bind] in Hrun; [|discriminate].
  match type of Hrun with (do C <- ?a; _) = _ => destruct a as [C|] eqn:EC end; cbn [bind] in Hrun; [|discriminate].
  match type of Hrun with (do r <- ?a; _) = _ => destruct a as [[[[H' C'] ms] mp]|] eqn:E3 end;
    cbn [bind] in Hrun; [|discriminate].
  destruct (HB f0n H C H' C' ms mp Ef0 Ew EH EC E3) as [Hmp Hwin].
  destruct (mp <? 0) eqn:Emp; [discriminate|].
  assert (Hres : score = ms /\ e = (minIdx + Z.to_nat mp + 1)%nat).
  { destruct withPos.
    - match type of Hrun with (do pj <- ?a; _) = _ => destruct a as [pj|] end; cbn [bind] in Hrun; [|discriminate].
      inversion Hrun; subst. auto.
    - inversion Hrun; subst. auto. }
  destruct Hres as [-> ->].
  exact (v2_score_eq_naive_afi_proof co sc is_bytes cs nm fwd text pat minIdx maxIdx st ms (Z.to_nat mp)
           HM2 Hsc Hascii Hn Eafi Hok Hwin).
Qed.

End Assemble.

Print Assumptions v2_model_score_eq_naive_conditional_proof.
