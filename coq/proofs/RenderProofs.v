(* C15 proofs: the drawing model (RenderModel) refines the faithful-screen spec (RenderSpec). *)
From Fzf Require Import Prelude RenderSpec RenderModel.
Open Scope nat_scope.

(* ---------- small list facts ---------- *)
Lemma firstn_len_app {A} (a b : list A) n : length a = n -> firstn n (a ++ b) = a.
Proof. intros <-. rewrite firstn_app, Nat.sub_diag, firstn_all. cbn. now rewrite app_nil_r. Qed.
Lemma skipn_len_app {A} (a b : list A) n : length a = n -> skipn n (a ++ b) = b.
Proof. intros <-. rewrite skipn_app, Nat.sub_diag, skipn_all. reflexivity. Qed.
Lemma repeat_app_len {A} (x : A) a b : repeat x a ++ repeat x b = repeat x (a + b).
Proof. now rewrite repeat_app. Qed.
Lemma firstn_repeat {A} (x : A) n m : firstn n (repeat x m) = repeat x (Nat.min n m).
Proof. revert m; induction n; destruct m; cbn; auto. now rewrite IHn. Qed.
Lemma skipn_repeat {A} (x : A) n m : skipn n (repeat x m) = repeat x (m - n).
Proof. revert m; induction n; destruct m; cbn; auto. Qed.

Lemma pad_length w s : length (pad w s) = Nat.max w (length s).
Proof. unfold pad. rewrite app_length, repeat_length. lia. Qed.
Lemma blank_pad w : blank w = pad w [].
Proof. unfold pad, blank. cbn. now rewrite Nat.sub_0_r. Qed.
Lemma pad_spaces w b k : length b + k <= w -> pad w (b ++ repeat SP k) = pad w b.
Proof.
  intros H. unfold pad. rewrite <- app_assoc, repeat_app_len, app_length, repeat_length.
  do 2 f_equal. lia.
Qed.

(* Print at column x over a padded row *)
Lemma put_pad w a x s : length a <= x -> x <= w -> put x s (pad w a) = pad w (pad x a ++ s).
Proof.
  intros Ha Hx. unfold put, pad at 1 2.
  rewrite firstn_app, skipn_app, firstn_repeat, skipn_repeat.
  rewrite (firstn_all2 a) by lia. rewrite (skipn_all2 a) by lia. cbn [app].
  unfold pad. rewrite !app_length, !repeat_length.
  replace (Nat.min (x - length a) (w - length a)) with (x - length a) by lia.
  rewrite <- !app_assoc. do 3 f_equal. f_equal. lia.
Qed.
Lemma put0_pad w a s : length a <= length s -> put 0 s (pad w a) = pad w s.
Proof.
  intros H. unfold put. cbn [firstn app Nat.add]. unfold pad.
  rewrite skipn_app, skipn_repeat. rewrite (skipn_all2 a) by lia. cbn [app]. do 2 f_equal. lia.
Qed.
Lemma put0_any w r s : length r = w -> w <= length s -> put 0 s r = pad w s.
Proof.
  intros Hr Hs. unfold put, pad. cbn [firstn app Nat.add]. rewrite skipn_all2 by lia.
  replace (w - length s) with 0 by lia. reflexivity.
Qed.
Lemma clear0 w r : clear_from w 0 r = pad w [].
Proof. unfold clear_from, pad. cbn. now rewrite Nat.sub_0_r. Qed.

Lemma item_text_trunc maxw s : item_text maxw s = trunc maxw s.
Proof.
  unfold item_text, trunc, ell. rewrite repeat_length.
  destruct (Nat.ltb_spec maxw (length s)), (Nat.leb_spec (length s) maxw); try lia; auto.
  now rewrite (Nat.min_comm 2).
Qed.
Lemma trunc_length maxw s : length (trunc maxw s) <= maxw.
Proof.
  unfold trunc, ell. destruct (Nat.leb_spec (length s) maxw); [lia|].
  rewrite app_length, firstn_length, !repeat_length.
  assert (maxw / 2 <= maxw) by (apply Nat.div_le_upper_bound; lia). lia.
Qed.
Lemma trunc_fits maxw s : length s <= maxw -> trunc maxw s = s.
Proof. intros H. unfold trunc. now apply Nat.leb_le in H as ->. Qed.
Lemma trunc_cut maxw s : maxw < length s -> 4 <= maxw ->
  trunc maxw s = firstn (maxw - 2) s ++ [DOT; DOT].
Proof.
  intros H H4. unfold trunc, ell. destruct (Nat.leb_spec (length s) maxw); [lia|].
  assert (2 <= maxw / 2) by (apply Nat.div_le_lower_bound; lia).
  replace (Nat.min 2 (maxw / 2)) with 2 by lia. reflexivity.
Qed.

Lemma clear_last_pad w b : length b <= w - 1 -> 1 <= w -> clear_from w (w - 1) (pad w b) = pad w b.
Proof.
  intros Hb Hw. unfold clear_from, pad. rewrite firstn_app, firstn_repeat.
  rewrite (firstn_all2 b) by lia. rewrite <- app_assoc, repeat_app_len. do 2 f_equal. lia.
Qed.

Lemma nth_error_skipn {A} (l : list A) n k : nth_error (skipn n l) k = nth_error l (n + k).
Proof. revert l; induction n; intros [|x l]; cbn; auto. now destruct k. Qed.

(* ---------- the list area: one prevLines entry and its row ---------- *)
Definition lm (cur sel : bool) : str := [if cur then GT else SP; if sel then GT else SP].
Definition item_row (w : nat) (cur sel : bool) (txt : str) : row := pad w (lm cur sel ++ trunc (w - 3) txt).

Section ListArea.
  Variable txt_of : nat -> str.     (* the text of an item is determined by its index *)
  Variable W : nat.
  Hypothesis HW : 3 <= W.

  Definition pair_ok (pr : iline * row) : Prop :=
    let '(p, r) := pr in
    length r = W /\
    (il_valid p = false -> il_empty p = false) /\
    (il_valid p = true ->
       (il_empty p = true /\ il_idx p = None /\ il_width p = 0 /\ r = blank W) \/
       (il_empty p = false /\ exists i, il_idx p = Some i /\ il_width p = length (trunc (W - 3) (txt_of i)) /\
                                        r = item_row W (il_cur p) (il_sel p) (txt_of i))).

  Lemma item_row_length cur sel t : length (item_row W cur sel t) = W.
  Proof.
    unfold item_row. rewrite pad_length, app_length. cbn [lm length].
    pose proof (trunc_length (W - 3) t). lia.
  Qed.

  Lemma print_item_ok cy qlen sel pos m pr :
    pair_ok pr -> snd m = txt_of (fst m) ->
    pair_ok (print_item W cy qlen sel pos m pr) /\
    snd (print_item W cy qlen sel pos m pr) = item_row W (Nat.eqb pos cy) (memb (fst m) sel) (snd m).
  Proof.
    destruct pr as [p r]. intros (Hlen & Hinv & Hval) Hm. unfold print_item.
    set (cur := Nat.eqb pos cy). set (sl := memb (fst m) sel).
    destruct (negb (negb (il_valid p)) && Bool.eqb (il_cur p) cur && Bool.eqb (il_sel p) sl &&
              (il_qlen p =? qlen) && idx_is (il_idx p) (fst m)) eqn:Hskip.
    - (* unchanged: the row already shows it *)
      repeat (apply andb_true_iff in Hskip as [Hskip ?]).
      rewrite negb_involutive in Hskip.
      apply eqb_prop in H2, H1. unfold idx_is in H. destruct (il_idx p) as [j|] eqn:Hj; [|discriminate].
      apply Nat.eqb_eq in H. subst j.
      destruct (Hval Hskip) as [(He & Hn & _)|(He & i & Hi & Hw & Hr)]; [congruence|].
      assert (i = fst m) by congruence. subst i.
      split.
      + cbn. repeat split; auto. intros _. right. split; auto. exists (fst m). auto.
      + cbn [snd]. rewrite Hr, H2, H1, Hm. reflexivity.
    - clear Hskip. rewrite item_text_trunc.
      assert (H1 : (1 <=? W) = true) by (apply Nat.leb_le; lia).
      assert (H2 : (2 <=? W) = true) by (apply Nat.leb_le; lia).
      rewrite H1, H2. cbn [app].
      change [if cur then GT else SP; if sl then GT else SP] with (lm cur sl).
      set (txt := trunc (W - 3) (snd m)).
      pose proof (trunc_length (W - 3) (snd m)) as Htl. fold txt in Htl.
      assert (Hgoal : (if negb (il_valid p) || (length txt =? 0)
                       then clear_from W (W - 1)
                              (put 0 (lm cur sl ++ txt ++ repeat SP ((if negb (il_valid p) then W - 3 else il_width p) - length txt)) r)
                       else put 0 (lm cur sl ++ txt ++ repeat SP ((if negb (il_valid p) then W - 3 else il_width p) - length txt)) r)
                      = item_row W cur sl (snd m)).
      { destruct (il_valid p) eqn:Hv; cbn [negb orb].
        - (* redraw over the previous contents, clearing only as far as they reached *)
          assert (Hput : put 0 (lm cur sl ++ txt ++ repeat SP (il_width p - length txt)) r = item_row W cur sl (snd m)).
          { destruct (Hval eq_refl) as [(He & Hn & Hw0 & Hr)|(He & i & Hi & Hw & Hr)].
            - rewrite Hr, (blank_pad W), put0_pad by (cbn; lia).
              rewrite Hw0. cbn [Nat.sub repeat]. rewrite app_nil_r. reflexivity.
            - rewrite Hr. unfold item_row at 1. rewrite put0_pad.
              2:{ rewrite !app_length, repeat_length. cbn [lm length]. lia. }
              rewrite app_assoc, pad_spaces. reflexivity.
              rewrite app_length. cbn [lm length].
              pose proof (trunc_length (W - 3) (txt_of i)). lia. }
          rewrite Hput. destruct (length txt =? 0); auto.
          unfold item_row. apply clear_last_pad; [|lia]. rewrite app_length. cbn [lm length]. fold txt. lia.
        - (* forced redraw: the whole row is rewritten *)
          unfold put. cbn [firstn app Nat.add].
          set (s := lm cur sl ++ txt ++ repeat SP (W - 3 - length txt)).
          assert (Hs : length s = W - 1).
          { unfold s. rewrite !app_length, repeat_length. cbn [lm length]. lia. }
          unfold clear_from. rewrite firstn_len_app by exact Hs.
          unfold item_row, pad, s. fold txt. rewrite <- !app_assoc. do 2 f_equal.
          rewrite repeat_app_len. f_equal. rewrite app_length. cbn [lm length]. lia. }
      unfold lm at 1 2 in Hgoal. cbn [app] in Hgoal.
      split.
      + cbn [pair_ok]. rewrite Hgoal. split; [apply item_row_length|]. cbn. split; [discriminate|].
        intros _. right. split; auto. exists (fst m). rewrite <- Hm. fold txt. auto.
      + cbn [snd]. exact Hgoal.
  Qed.

  Definition slot (cy : nat) (sel : list nat) (pos : nat) (ms : list (nat * str)) (k : nat) : row :=
    match nth_error ms k with
    | Some m => item_row W (Nat.eqb (pos + k) cy) (memb (fst m) sel) (snd m)
    | None => blank W
    end.

  Lemma draw_rows_ok cy qlen sel prs : forall pos ms,
    Forall pair_ok prs -> Forall (fun m => snd m = txt_of (fst m)) ms ->
    Forall pair_ok (draw_rows W cy qlen sel pos ms prs) /\
    length (draw_rows W cy qlen sel pos ms prs) = length prs /\
    map snd (draw_rows W cy qlen sel pos ms prs) = map (slot cy sel pos ms) (seq 0 (length prs)).
  Proof.
    induction prs as [|pr prs IH]; intros pos ms Hp Hm; [cbn; auto|].
    inversion Hp as [|? ? Hpr Hprs]; subst. cbn [draw_rows].
    destruct ms as [|m ms'].
    - destruct (IH pos [] Hprs Hm) as (I1 & I2 & I3).
      assert (Hrow : pair_ok (if il_empty (fst pr) then pr else (il_blank, clear_from W 0 (snd pr))) /\
                     snd (if il_empty (fst pr) then pr else (il_blank, clear_from W 0 (snd pr))) = blank W).
      { destruct pr as [p r]. cbn [fst snd]. destruct Hpr as (Hl & Hi & Hv).
        destruct (il_empty p) eqn:He.
        - destruct (il_valid p) eqn:Hvl; [|specialize (Hi eq_refl); congruence].
          destruct (Hv eq_refl) as [(_ & Hn & Hw & Hr)|(He' & _)]; [|congruence].
          split; [|exact Hr]. cbn. rewrite He, Hvl. repeat split; auto; try discriminate.
        - rewrite clear0, <- (blank_pad W). split; [|reflexivity].
          cbn. unfold blank. rewrite repeat_length. repeat split; auto; try discriminate. }
      destruct Hrow as [Hok Hrw]. repeat split.
      + constructor; auto.
      + cbn. now rewrite I2.
      + cbn [map length seq]. rewrite Hrw, I3. f_equal.
        rewrite <- seq_shift, map_map. apply map_ext. intros k. unfold slot. now destruct k.
    - inversion Hm as [|? ? Hm1 Hm2]; subst.
      destruct (print_item_ok cy qlen sel pos m pr Hpr Hm1) as [Hok Hrw].
      destruct (IH (S pos) ms' Hprs Hm2) as (I1 & I2 & I3). repeat split.
      + constructor; auto.
      + cbn. now rewrite I2.
      + cbn [map length seq]. rewrite Hrw, I3. f_equal.
        * unfold slot. cbn. now rewrite Nat.add_0_r.
        * rewrite <- seq_shift, map_map. apply map_ext. intros k. unfold slot. cbn [nth_error].
          now rewrite Nat.add_succ_r.
  Qed.
End ListArea.

(* ---------- constrain ---------- *)
Lemma clampn_bounds v lo hi : lo <= hi -> lo <= clampn v lo hi <= hi.
Proof.
  intros H. unfold clampn. destruct (Nat.ltb_spec v lo); [lia|]. destruct (Nat.ltb_spec hi v); lia.
Qed.

Lemma phase0_bounds maxl so cy minO o : minO <= o -> minO <= phase0 maxl so cy minO o <= o.
Proof.
  induction o as [|p IH]; intros H; cbn [phase0].
  - destruct (stuck maxl so cy 0); [lia|]. destruct (lines_before cy 0 <? so); lia.
  - destruct (stuck maxl so cy (S p)); [lia|]. destruct (lines_before cy (S p) <? so); [|lia].
    destruct (Nat.leb_spec minO p); [specialize (IH H0); lia|lia].
Qed.

Lemma phase1_bounds maxl so cy maxO d : forall o, o <= maxO -> o <= phase1 maxl so cy maxO d o <= maxO.
Proof.
  induction d as [|d IH]; intros o H; cbn [phase1].
  - destruct (stuck maxl so cy o); [lia|]. destruct (lines_after maxl cy o <? so); lia.
  - destruct (stuck maxl so cy o); [lia|]. destruct (lines_after maxl cy o <? so); [|lia].
    destruct (Nat.leb_spec (S o) maxO); [specialize (IH (S o) H0); lia|lia].
Qed.

Lemma constrain_body_ok count maxl so cy off : 1 <= count -> 1 <= maxl ->
  in_window count maxl (fst (constrain_body count maxl so cy off)) (snd (constrain_body count maxl so cy off)).
Proof.
  intros Hc Hm. unfold constrain_body.
  set (cy1 := clampn cy 0 (Nat.max 0 (count - 1))).
  assert (Hcy : cy1 < count) by (pose proof (clampn_bounds cy 0 (Nat.max 0 (count - 1)) ltac:(lia)); fold cy1 in H; lia).
  set (minO := cy1 + 1 - maxl). set (maxO := Nat.max (Nat.min (count - maxl) cy1) 0).
  assert (Hmm : minO <= maxO) by (unfold minO, maxO; lia).
  pose proof (clampn_bounds off minO maxO Hmm) as Hoff. set (off1 := clampn off minO maxO) in *.
  assert (Hfin : forall o, minO <= o <= maxO -> in_window count maxl cy1 o).
  { intros o Ho. unfold in_window, minO, maxO in *. lia. }
  destruct (0 <? so); cbn [fst snd]; [|apply Hfin; lia].
  set (so' := Nat.min (maxl / 2) so).
  pose proof (phase0_bounds maxl so' cy1 minO off1 ltac:(lia)) as H0. set (o0 := phase0 maxl so' cy1 minO off1) in *.
  pose proof (phase1_bounds maxl so' cy1 maxO (maxO - o0) o0 ltac:(lia)) as H1.
  apply Hfin. lia.
Qed.

Lemma constrain_loop_ok count maxl so : 1 <= count -> 1 <= maxl -> forall tries cy off,
  in_window count maxl cy off ->
  in_window count maxl (fst (constrain_loop tries count maxl so cy off)) (snd (constrain_loop tries count maxl so cy off)).
Proof.
  intros Hc Hm. induction tries as [|tr IH]; intros cy off Hin; cbn [constrain_loop]; [exact Hin|].
  pose proof (constrain_body_ok count maxl so cy off Hc Hm) as Hb.
  destruct (constrain_body count maxl so cy off) as [cy' off']. cbn [fst snd] in Hb.
  destruct (off' =? off); [exact Hb|]. apply IH. exact Hb.
Qed.

(* after constrain the current line is on a visible row and the window is filled whenever the list is long enough *)
Theorem constrain_in_bounds_proof : forall count maxl so cy off, 1 <= count -> 1 <= maxl ->
  in_window count maxl (fst (constrain count maxl so cy off)) (snd (constrain count maxl so cy off)).
Proof.
  intros count maxl so cy off Hc Hm. unfold constrain.
  destruct maxl as [|ml]; [lia|]. cbn [constrain_loop].
  pose proof (constrain_body_ok count (S ml) so cy (clampn off 0 count) Hc Hm) as Hb.
  destruct (constrain_body count (S ml) so cy (clampn off 0 count)) as [cy' off']. cbn [fst snd] in Hb.
  destruct (off' =? clampn off 0 count); [exact Hb|]. apply constrain_loop_ok; auto.
Qed.

(* ---------- the terminal as a whole: list area of the screen buffer ---------- *)
Lemma nth_skipn_add {A} (l : list A) s i d : nth i (skipn s l) d = nth (s + i) l d.
Proof. revert l; induction s; intros [|x l]; cbn; auto. now destruct i. Qed.
Lemma combine_fst_snd {A B} (l : list (A * B)) : combine (map fst l) (map snd l) = l.
Proof. induction l as [|[a b] l IH]; cbn; congruence. Qed.
Lemma upd_at_length {A} y (f : A -> A) l : length (upd_at y f l) = length l.
Proof. revert y; induction l; intros [|y]; cbn; auto. Qed.
Lemma upd_at_skipn {A} y (f : A -> A) l s : y < s -> skipn s (upd_at y f l) = skipn s l.
Proof.
  revert y s; induction l as [|x l IH]; intros y s H.
  - now destruct y.
  - destruct s; [lia|]. destruct y; cbn; auto. apply IH. lia.
Qed.
Lemma header_from_keeps w hs : forall line scr s, line + length hs <= s ->
  length (print_header_from w line hs scr) = length scr /\
  skipn s (print_header_from w line hs scr) = skipn s scr.
Proof.
  induction hs as [|h hs IH]; intros line scr s H; cbn [print_header_from]; [auto|].
  cbn [length] in H. destruct (IH (S line) (upd_at line (fun row => put 0 ([SP; SP] ++ item_text (w - 3) h) (clear_from w 0 row)) scr) s ltac:(lia)) as [E1 E2].
  rewrite E1, E2, upd_at_length, upd_at_skipn by lia. auto.
Qed.

Definition list_seg (c : cfg) (t : term) : list row := firstn (max_items c) (skipn (list_start c) (t_screen t)).
Definition seg_pairs (c : cfg) (t : term) : list (iline * row) :=
  combine (firstn (max_items c) (skipn (list_start c) (t_prev t))) (list_seg c t).
Definition coherent (txt_of : nat -> str) (ms : list (nat * str)) : Prop := Forall (fun m => snd m = txt_of (fst m)) ms.
(* the list rows show the list-relevant fields held by the terminal *)
Definition fresh (c : cfg) (t : term) : Prop := list_seg c t = map (list_slot_text c (t_view t)) (seq 0 (max_items c)).

Section Term.
  Variable txt_of : nat -> str.
  Variable c : cfg.
  Hypothesis Hc : cfg_ok c.
  Let W := c_w c.
  Let H := c_h c.
  Let st := list_start c.
  Let n := max_items c.

  Definition tinv (t : term) : Prop :=
    length (t_screen t) = H /\ length (t_prev t) = H /\ Forall (pair_ok txt_of W) (seg_pairs c t).

  Lemma st_n : st + n = H /\ 3 <= W.
  Proof. destruct Hc as [H4 Hh]. unfold st, n, H, W, list_start, max_items in *. lia. Qed.

  Lemma slot_is_spec (t : term) k :
    slot W (t_cy t) (t_sel t) (t_off t) (skipn (t_off t) (t_matches t)) k = list_slot_text c (t_view t) k.
  Proof. unfold slot, list_slot_text. cbn [t_view v_matches v_off v_cy v_sel]. rewrite nth_error_skipn. reflexivity. Qed.

  Lemma print_list_at_ok t : tinv t -> coherent txt_of (t_matches t) ->
    tinv (print_list_at c t) /\ fresh c (print_list_at c t) /\ t_view (print_list_at c t) = t_view t.
  Proof.
    intros (Hs & Hp & Hf) Hm. destruct st_n as [Hsn HW].
    unfold print_list_at. fold st n W.
    set (seg := combine (firstn n (skipn st (t_prev t))) (firstn n (skipn st (t_screen t)))).
    assert (Hco : coherent txt_of (skipn (t_off t) (t_matches t))).
    { unfold coherent in *. rewrite Forall_forall in *. intros m Hin. apply Hm.
      rewrite <- (firstn_skipn (t_off t)). apply in_or_app. now right. }
    destruct (draw_rows_ok txt_of W HW (t_cy t) (length (t_query t)) (t_sel t) seg (t_off t) _ Hf Hco) as (D1 & D2 & D3).
    set (seg' := draw_rows W (t_cy t) (length (t_query t)) (t_sel t) (t_off t) (skipn (t_off t) (t_matches t)) seg) in *.
    assert (Hseg : length seg = n).
    { unfold seg. rewrite combine_length, !firstn_length, !skipn_length. lia. }
    assert (L1 : length (firstn st (t_screen t)) = st) by (rewrite firstn_length; lia).
    assert (L2 : length (firstn st (t_prev t)) = st) by (rewrite firstn_length; lia).
    assert (E : list_seg c (set_draw t (firstn st (t_screen t) ++ map snd seg' ++ skipn (st + n) (t_screen t))
                                        (firstn st (t_prev t) ++ map fst seg' ++ skipn (st + n) (t_prev t))) = map snd seg').
    { unfold list_seg. cbn [set_draw t_screen]. fold st n. rewrite skipn_len_app by exact L1.
      apply firstn_len_app. rewrite map_length. lia. }
    split; [|split].
    - unfold tinv. cbn [set_draw t_screen t_prev]. repeat split.
      + rewrite !app_length, map_length, skipn_length. lia.
      + rewrite !app_length, map_length, skipn_length. lia.
      + unfold seg_pairs. rewrite E. cbn [set_draw t_prev]. fold st n.
        rewrite skipn_len_app by exact L2. rewrite firstn_len_app by (rewrite map_length; lia).
        rewrite combine_fst_snd. exact D1.
    - unfold fresh. rewrite E, D3, Hseg. apply map_ext. intros k.
      rewrite slot_is_spec. reflexivity.
    - reflexivity.
  Qed.

  (* drawing above the list leaves the list area alone *)
  Lemma redraw_above_ok t scr : tinv t -> length scr = length (t_screen t) -> skipn st scr = skipn st (t_screen t) ->
    tinv (set_draw t scr (t_prev t)) /\ list_seg c (set_draw t scr (t_prev t)) = list_seg c t.
  Proof.
    intros (Hs & Hp & Hf) Hl Hk.
    assert (E : list_seg c (set_draw t scr (t_prev t)) = list_seg c t).
    { unfold list_seg. cbn [set_draw t_screen]. fold st. now rewrite Hk. }
    split; [|exact E]. unfold tinv, seg_pairs. rewrite E. cbn [set_draw t_screen t_prev]. repeat split; auto; lia.
  Qed.

  Lemma pl_le_st : prompt_lines c <= st. Proof. unfold st, list_start. lia. Qed.
  Lemma pl_pos : 1 <= prompt_lines c.
  Proof. unfold prompt_lines. destruct (c_info c); try lia. destruct (c_sep c); lia. Qed.

  Lemma print_prompt_ok t : tinv t -> tinv (print_prompt c t) /\ list_seg c (print_prompt c t) = list_seg c t.
  Proof.
    intros Ht. unfold print_prompt. apply redraw_above_ok; auto.
    - apply upd_at_length.
    - apply upd_at_skipn. pose proof pl_le_st. pose proof pl_pos. lia.
  Qed.
  Lemma print_info_ok t : tinv t -> tinv (print_info c t) /\ list_seg c (print_info c t) = list_seg c t.
  Proof.
    intros Ht. unfold print_info. pose proof pl_le_st as P1. pose proof pl_pos as P2.
    unfold prompt_lines in P1, P2.
    apply redraw_above_ok; auto; destruct (c_info c); try destruct (c_sep c);
      try reflexivity; try apply upd_at_length; try (apply upd_at_skipn; lia).
  Qed.
  Lemma print_header_ok t : tinv t -> tinv (print_header c t) /\ list_seg c (print_header c t) = list_seg c t.
  Proof.
    intros Ht. unfold print_header.
    assert (Hlen : prompt_lines c + length (hdr_logical c) <= st).
    { unfold st, list_start, nheader, hdr_logical. rewrite app_length. destruct (c_layout c); rewrite ?rev_length; lia. }
    destruct (header_from_keeps (c_w c) (hdr_logical c) (prompt_lines c) (t_screen t) st Hlen) as [E1 E2].
    apply redraw_above_ok; auto.
  Qed.

  Lemma fresh_keep t t' : fresh c t -> list_seg c t' = list_seg c t ->
    v_matches (t_view t') = v_matches (t_view t) -> v_cy (t_view t') = v_cy (t_view t) ->
    v_off (t_view t') = v_off (t_view t) -> v_sel (t_view t') = v_sel (t_view t) -> fresh c t'.
  Proof.
    unfold fresh. intros Hf Hl E1 E2 E3 E4. rewrite Hl, Hf. apply map_ext. intros k.
    unfold list_slot_text, item_row_text. rewrite E1, E2, E3, E4. reflexivity.
  Qed.

  Lemma blank_tinv t : tinv (set_draw t (repeat (blank W) H) (repeat il_none H)).
  Proof.
    destruct st_n as [Hsn HW]. unfold tinv, seg_pairs, list_seg. cbn [set_draw t_screen t_prev]. fold st n W H.
    rewrite !repeat_length. repeat split; auto.
    rewrite !skipn_repeat, !firstn_repeat. apply Forall_forall. intros [p r] Hin.
    pose proof (in_combine_l _ _ _ _ Hin) as Hp. pose proof (in_combine_r _ _ _ _ Hin) as Hr.
    apply repeat_spec in Hp, Hr. subst. cbn. unfold blank. rewrite repeat_length. repeat split; auto; discriminate.
  Qed.

  Lemma paint_ok t : coherent txt_of (t_matches t) ->
    tinv (paint c t) /\ fresh c (paint c t) /\ t_view (paint c t) = t_view t.
  Proof.
    intros Hm. unfold paint. fold W H.
    set (t0 := set_draw t (repeat (blank W) H) (repeat il_none H)).
    destruct (print_list_at_ok t0 (blank_tinv t) Hm) as (A1 & A2 & A3).
    destruct (print_prompt_ok _ A1) as (B1 & B2).
    destruct (print_info_ok _ B1) as (C1 & C2).
    destruct (print_header_ok _ C1) as (D1 & D2).
    split; [exact D1|]. split; [|reflexivity].
    eapply fresh_keep; [exact A2| |reflexivity..]. now rewrite D2, C2, B2.
  Qed.

  Lemma print_list_ok t : tinv t -> coherent txt_of (t_matches t) ->
    tinv (print_list c t) /\ fresh c (print_list c t) /\ t_matches (print_list c t) = t_matches t /\ t_sel (print_list c t) = t_sel t.
  Proof.
    intros Ht Hm. unfold print_list.
    destruct (constrain (length (t_matches t)) (max_items c) scroll_off_default (t_cy t) (t_off t)) as [cy off].
    destruct (print_list_at_ok (set_scroll t cy off) Ht Hm) as (A1 & A2 & A3). auto.
  Qed.
  Lemma full_redraw_ok t : coherent txt_of (t_matches t) ->
    tinv (full_redraw c t) /\ fresh c (full_redraw c t) /\ t_matches (full_redraw c t) = t_matches t /\ t_sel (full_redraw c t) = t_sel t.
  Proof.
    intros Hm. unfold full_redraw.
    destruct (constrain (length (t_matches t)) (max_items c) scroll_off_default (t_cy t) (t_off t)) as [cy off].
    destruct (paint_ok (set_scroll t cy off) Hm) as (A1 & A2 & A3). auto.
  Qed.

  (* a step covers the list when it asks for the list to be redrawn, or leaves what the list shows unchanged *)
  Definition covers_list (t : term) (u : upd) : Prop :=
    rq_list (u_reqs u) = true \/ rq_full (u_reqs u) = true \/
    (u_matches u = t_matches t /\ u_cy u = t_cy t /\ u_sel u = t_sel t).

  Lemma step_ok t u : tinv t -> fresh c t -> coherent txt_of (u_matches u) -> covers_list t u ->
    tinv (step c t u) /\ fresh c (step c t u) /\ coherent txt_of (t_matches (step c t u)).
  Proof.
    intros Ht Hf Hm Hcov. unfold step, handle.
    set (t1 := mkTerm (u_query u) (u_matches u) (u_total u) (u_cy u) (t_off t) (u_sel u) (t_screen t) (t_prev t)).
    assert (T1 : tinv t1) by exact Ht.
    assert (M1 : t_matches t1 = u_matches u) by reflexivity.
    (* stage invariant: tinv, matches coherent, and fresh unless a redraw is still to come *)
    set (P := fun (todo : bool) (x : term) => tinv x /\ coherent txt_of (t_matches x) /\ (todo = false -> fresh c x)).
    assert (S1 : P (rq_list (u_reqs u) || rq_full (u_reqs u)) t1).
    { split; [exact T1|]. split; [rewrite M1; exact Hm|]. intros Hno.
      apply orb_false_iff in Hno as [N1 N2].
      destruct Hcov as [X|[X|(E1 & E2 & E3)]]; try congruence.
      eapply fresh_keep; [exact Hf|reflexivity|cbn; congruence..]. }
    assert (S2 : P (rq_list (u_reqs u) || rq_full (u_reqs u)) (if rq_prompt (u_reqs u) then print_prompt c t1 else t1)).
    { destruct (rq_prompt (u_reqs u)); [|exact S1]. destruct S1 as (A & B & C).
      destruct (print_prompt_ok _ A) as [A' L]. split; [exact A'|]. split; [exact B|].
      intros N. eapply fresh_keep; [exact (C N)|exact L|reflexivity..]. }
    set (t2 := if rq_prompt (u_reqs u) then print_prompt c t1 else t1) in *.
    assert (S3 : P (rq_list (u_reqs u) || rq_full (u_reqs u)) (if rq_header (u_reqs u) then print_header c t2 else t2)).
    { destruct (rq_header (u_reqs u)); [|exact S2]. destruct S2 as (A & B & C).
      destruct (print_header_ok _ A) as [A' L]. split; [exact A'|]. split; [exact B|].
      intros N. eapply fresh_keep; [exact (C N)|exact L|reflexivity..]. }
    set (t3 := if rq_header (u_reqs u) then print_header c t2 else t2) in *.
    assert (S4 : P (rq_full (u_reqs u)) (if rq_list (u_reqs u) then print_list c t3 else t3)).
    { destruct S3 as (A & B & C). destruct (rq_list (u_reqs u)) eqn:RL.
      - destruct (print_list_ok _ A B) as (A' & F & M & _). split; [exact A'|]. split; [now rewrite M|]. auto.
      - split; [exact A|]. split; [exact B|]. exact C. }
    set (t4 := if rq_list (u_reqs u) then print_list c t3 else t3) in *.
    assert (S5 : P false (if rq_full (u_reqs u) then full_redraw c t4 else t4)).
    { destruct S4 as (A & B & C). destruct (rq_full (u_reqs u)) eqn:RF.
      - destruct (full_redraw_ok _ B) as (A' & F & M & _). split; [exact A'|]. split; [now rewrite M|]. auto.
      - split; [exact A|]. split; [exact B|]. exact C. }
    set (t5 := if rq_full (u_reqs u) then full_redraw c t4 else t4) in *.
    destruct S5 as (A & B & C). specialize (C eq_refl).
    destruct (rq_info (u_reqs u) || rq_prompt (u_reqs u) && is_inline c); [|auto].
    destruct (print_info_ok _ A) as [A' L]. split; [exact A'|]. split; [|exact B].
    eapply fresh_keep; [exact C|exact L|reflexivity..].
  Qed.

  Fixpoint hist_ok (t : term) (us : list upd) : Prop :=
    match us with
    | [] => True
    | u :: r => coherent txt_of (u_matches u) /\ covers_list t u /\ hist_ok (step c t u) r
    end.

  Lemma run_ok us : forall t, tinv t -> fresh c t -> coherent txt_of (t_matches t) -> hist_ok t us ->
    tinv (run c t us) /\ fresh c (run c t us) /\ coherent txt_of (t_matches (run c t us)).
  Proof.
    induction us as [|u r IH]; intros t Ht Hf Hco Hh; cbn; [auto|].
    destruct Hh as (Hm & Hcov & Hr). destruct (step_ok t u Ht Hf Hm Hcov) as (T & F & Co).
    apply IH; auto.
  Qed.

  (* the list rows of the screen buffer after ANY history of incremental redraws are those a full redraw
     of the final state paints on an erased window *)
  Theorem incremental_list_proof v0 us : coherent txt_of (v_matches v0) -> hist_ok (start c v0) us ->
    list_seg c (run c (start c v0) us) = list_seg c (paint c (run c (start c v0) us)).
  Proof.
    intros Hm Hh. destruct (full_redraw_ok (term_of_view v0) Hm) as (T & F & M & _).
    assert (Co : coherent txt_of (t_matches (start c v0))) by (unfold start; rewrite M; exact Hm).
    destruct (run_ok us (start c v0) T F Co Hh) as (T' & F' & Co').
    destruct (paint_ok _ Co') as (_ & Fp & Vp).
    unfold fresh in *. rewrite F', Fp, Vp. reflexivity.
  Qed.
End Term.

(* ---------- where the layout puts the list rows ---------- *)
Lemma physical_list_row c ls i : cfg_ok c -> length ls = c_h c -> i < max_items c ->
  row_at (physical c ls) (list_row c i) = nth (list_start c + i) ls [].
Proof.
  intros [H4 Hh] Hl Hi. unfold row_at, physical, list_row, list_start, max_items, nheader in *.
  destruct (c_layout c).
  - rewrite rev_nth by lia. f_equal. lia.
  - reflexivity.
  - set (pl := prompt_lines c) in *. set (n0 := length (c_header c)) in *. set (n1 := length (c_hlines c)) in *.
    rewrite app_nth2; rewrite firstn_length, skipn_length; [|lia].
    replace (n1 + i - Nat.min n1 (length ls - (pl + n0))) with i by lia.
    rewrite app_nth1 by (rewrite skipn_length; lia).
    rewrite nth_skipn_add. f_equal. lia.
Qed.

Lemma nth_firstn_lt {A} (l : list A) n i d : i < n -> nth i (firstn n l) d = nth i l d.
Proof. revert l i; induction n; intros [|x l] [|i] H; cbn; auto; try lia. apply IHn. lia. Qed.

Lemma list_seg_nth c t i : i < max_items c -> length (t_screen t) = c_h c -> cfg_ok c ->
  nth (list_start c + i) (t_screen t) [] = nth i (list_seg c t) [].
Proof.
  intros Hi Hl [H4 Hh]. unfold list_seg. rewrite nth_firstn_lt by exact Hi. now rewrite nth_skipn_add.
Qed.

(* rows_faithful: list slot i of the full render shows result number offset+i at the row the layout dictates.
   view_wf: the text of an item is determined by its index (true of every real state). *)
Definition view_wf (v : view) : Prop := exists txt_of, coherent txt_of (v_matches v).

Theorem rows_faithful_proof : forall c v, cfg_ok c -> view_wf v -> shows_list c v (render c v).
Proof.
  intros c v Hc [txt_of Hco] i Hi. unfold render.
  destruct (paint_ok txt_of c Hc (term_of_view v) Hco) as ((Hl & _ & _) & Hf & Hv).
  rewrite physical_list_row by auto. rewrite list_seg_nth by auto.
  unfold fresh in Hf. rewrite Hf, Hv.
  rewrite (nth_indep _ [] (list_slot_text c (t_view (term_of_view v)) 0)) by (rewrite map_length, seq_length; exact Hi).
  rewrite map_nth, seq_nth by exact Hi. cbn [Nat.add].
  destruct v; reflexivity.
Qed.

(* pointer_marker_exact: on a list row that shows a result, column 0 holds the pointer exactly when it is the
   current line and column 1 holds the marker exactly when the item is selected; a slot past the end is blank *)
Theorem pointer_marker_exact_proof : forall c v i m, cfg_ok c -> view_wf v -> i < max_items c ->
  nth_error (v_matches v) (v_off v + i) = Some m ->
  let r := row_at (render c v) (list_row c i) in
  (nth 0 r SP = GT <-> v_off v + i = v_cy v) /\ (nth 1 r SP = GT <-> In (fst m) (v_sel v)).
Proof.
  intros c v i m Hc Hw Hi Hm r. subst r. rewrite (rows_faithful_proof c v Hc Hw i Hi).
  unfold list_slot_text. rewrite Hm. unfold item_row_text, pad. cbn [app nth].
  split.
  - destruct (Nat.eqb_spec (v_off v + i) (v_cy v)); split; intros; auto; try discriminate; contradiction.
  - assert (Hmem : forall l x, memb x l = true <-> In x l).
    { induction l as [|y l IH]; intros x; cbn; [split; [discriminate|tauto]|].
      rewrite orb_true_iff, IH, Nat.eqb_eq. split; intros [|]; auto. }
    destruct (memb (fst m) (v_sel v)) eqn:E; split; intros; auto; try discriminate.
    + now apply Hmem.
    + apply Hmem in H. congruence.
Qed.

Theorem empty_slot_blank_proof : forall c v i, cfg_ok c -> view_wf v -> i < max_items c ->
  nth_error (v_matches v) (v_off v + i) = None -> row_at (render c v) (list_row c i) = blank (c_w c).
Proof.
  intros c v i Hc Hw Hi Hm. rewrite (rows_faithful_proof c v Hc Hw i Hi). unfold list_slot_text. now rewrite Hm.
Qed.

(* truncation: complete when it fits, else a prefix followed by "..", and never wider than the window *)
Theorem width_bound_list_proof : forall c v i, cfg_ok c -> view_wf v -> i < max_items c ->
  length (row_at (render c v) (list_row c i)) = c_w c.
Proof.
  intros c v i Hc Hw Hi. rewrite (rows_faithful_proof c v Hc Hw i Hi). unfold list_slot_text.
  destruct Hc as [H4 _].
  destruct (nth_error (v_matches v) (v_off v + i)); [|unfold blank; now rewrite repeat_length].
  unfold item_row_text. rewrite pad_length, app_length. cbn [length].
  pose proof (trunc_length (c_w c - 3) (snd p)). lia.
Qed.

(* header_not_in_list: prompt, info, --header, --header-lines and list rows are distinct rows of the window *)
Theorem header_not_in_list_proof : forall c i, cfg_ok c -> i < max_items c ->
  list_row c i < c_h c /\ list_row c i <> prompt_row c /\
  (prompt_lines c = 2 -> list_row c i <> info_row c) /\
  (forall k, k < length (c_header c) -> list_row c i <> header_row c k /\ header_row c k < c_h c) /\
  (forall k, k < length (c_hlines c) -> list_row c i <> hline_row c k /\ hline_row c k < c_h c) /\
  (forall j, j < max_items c -> list_row c i = list_row c j -> i = j).
Proof.
  intros c i [H4 Hh] Hi.
  assert (P : 1 <= prompt_lines c) by (unfold prompt_lines; destruct (c_info c); try destruct (c_sep c); lia).
  unfold list_row, prompt_row, info_row, header_row, hline_row, max_items, nheader in *.
  destruct (c_layout c); repeat split; intros; lia.
Qed.

(* truncation_shape: what a list row shows of a text *)
Theorem truncation_shape_proof : forall maxw s,
  (length s <= maxw -> trunc maxw s = s) /\
  (maxw < length s -> 4 <= maxw -> trunc maxw s = firstn (maxw - 2) s ++ [DOT; DOT]) /\
  length (trunc maxw s) <= maxw.
Proof. intros. split; [apply trunc_fits|]. split; [apply trunc_cut|apply trunc_length]. Qed.

(* ---------- the whole screen: incremental = full is FALSE of the model (and of fzf) in narrow windows ----------
   printInfoImpl does not clear the info row when a separator is configured and draws no separator when the
   text fills the row, so the tail of a longer previous text survives: 12 columns, "30/30 (0)" then "1/30 (0)"
   leaves "1/30 (0))". *)
Definition refute_cfg : cfg := mkCfg 12 8 LDefault IDefault true [] [] MAX_MULTI.
Definition refute_v0 : view := mkView [] (map (fun i => (i, [97%Z])) (seq 0 30)) 30 0 0 [].
Definition refute_us : list upd :=
  [mkUpd [49%Z; 49%Z] [(10, [97%Z])] 30 0 [] (mkReqs true true false true false)].
Theorem incremental_eq_full_refuted_proof :
  exists c v0 us, cfg_ok c /\ view_wf v0 /\
    hist_ok (fun _ => [97%Z]) c (start c v0) us /\
    t_screen (run c (start c v0) us) <> t_screen (paint c (run c (start c v0) us)).
Proof.
  exists refute_cfg, refute_v0, refute_us. split; [vm_compute; lia|]. split.
  - exists (fun _ => [97%Z]). unfold coherent. apply Forall_forall. intros m Hin.
    unfold refute_v0 in Hin. cbn [v_matches] in Hin. apply in_map_iff in Hin as (i & <- & _). reflexivity.
  - split.
    + unfold refute_us. cbn [hist_ok]. split; [repeat constructor|]. split; [left; reflexivity|exact I].
    + vm_compute. discriminate.
Qed.
