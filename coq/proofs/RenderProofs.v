(* C15 proofs: the drawing model (RenderModel) refines the faithful-screen spec (RenderSpec). *)
From Fzf Require Import Prelude RenderSpec RenderModel.
Open Scope nat_scope.

(* ---------- small list facts ---------- *)
Lemma firstn_len_app {A} (a b : list A) n : length a = n -> firstn n (a ++ b) = a.
Proof. intros <-. rewrite firstn_app, Nat.sub_diag, firstn_all. cbn. now rewrite app_nil_r. Qed.
Lemma skipn_len_app {A} (a b : list A) n : length a = n -> skipn n (a ++ b) = b.
Proof. intros <-. rewrite skipn_app, Nat.sub_diag, skipn_all. reflexivity. Qed.
Lemma repeat_app_len {A} (x : A) a b : repeat x a ++ repeat x b = repeat x (a + b).
Proof. now rewrite repeat_app. Qed.
Lemma firstn_repeat {A} (x : A) n m : firstn n (repeat x m) = repeat x (Nat.min n m).
Proof. revert m; induction n; destruct m; cbn; auto. now rewrite IHn. Qed.
Lemma skipn_repeat {A} (x : A) n m : skipn n (repeat x m) = repeat x (m - n).
Proof. revert m; induction n; destruct m; cbn; auto. Qed.

Lemma In_firstn_early {A} (x : A) n l : In x (firstn n l) -> In x l.
Proof. revert l; induction n; intros [|y l] H; cbn in *; try contradiction. destruct H; auto. Qed.

Lemma pad_length w s : length (pad w s) = Nat.max w (length s).
Proof. unfold pad. rewrite app_length, repeat_length. lia. Qed.
Lemma blank_pad w : blank w = pad w [].
Proof. unfold pad, blank. cbn. now rewrite Nat.sub_0_r. Qed.
Lemma pad_spaces w b k : length b + k <= w -> pad w (b ++ repeat SP k) = pad w b.
Proof.
  intros H. unfold pad. rewrite <- app_assoc, repeat_app_len, app_length, repeat_length.
  do 2 f_equal. lia.
Qed.

(* Print at column x over a padded row *)
Lemma put_pad w a x s : length a <= x -> x <= w -> put x s (pad w a) = pad w (pad x a ++ s).
Proof.
  intros Ha Hx. unfold put, pad at 1 2.
  rewrite firstn_app, skipn_app, firstn_repeat, skipn_repeat.
  rewrite (firstn_all2 a) by lia. rewrite (skipn_all2 a) by lia. cbn [app].
  unfold pad. rewrite !app_length, !repeat_length.
  replace (Nat.min (x - length a) (w - length a)) with (x - length a) by lia.
  rewrite <- !app_assoc. do 3 f_equal. f_equal. lia.
Qed.
Lemma put0_pad w a s : length a <= length s -> put 0 s (pad w a) = pad w s.
Proof.
  intros H. unfold put. cbn [firstn app Nat.add]. unfold pad.
  rewrite skipn_app, skipn_repeat. rewrite (skipn_all2 a) by lia. cbn [app]. do 2 f_equal. lia.
Qed.
Lemma put0_any w r s : length r = w -> w <= length s -> put 0 s r = pad w s.
Proof.
  intros Hr Hs. unfold put, pad. cbn [firstn app Nat.add]. rewrite skipn_all2 by lia.
  replace (w - length s) with 0 by lia. reflexivity.
Qed.
Lemma clear0 w r : clear_from w 0 r = pad w [].
Proof. unfold clear_from, pad. cbn. now rewrite Nat.sub_0_r. Qed.

Lemma prompt_item_trunc maxw s : prompt_item_text maxw s = trunc maxw s.
Proof.
  unfold prompt_item_text, trunc, ell. rewrite repeat_length.
  destruct (Nat.ltb_spec maxw (length s)), (Nat.leb_spec (length s) maxw); try lia; auto.
  now rewrite (Nat.min_comm 2).
Qed.
Lemma item_text_show ts maxw s : item_text ts maxw s = show ts maxw s.
Proof.
  unfold item_text, show, ell. rewrite repeat_length.
  destruct (Nat.ltb_spec maxw (length (expand ts s))), (Nat.leb_spec (length (expand ts s)) maxw); try lia; auto.
  now rewrite (Nat.min_comm 2).
Qed.
Lemma expand_take_length ts limit s : forall col, col <= limit ->
  length (expand_from ts col (take_from ts col limit s)) + col <= limit.
Proof.
  induction s as [|x r IH]; intros col Hc; cbn [take_from expand_from length]; [lia|].
  destruct (x =? TAB)%Z eqn:Ex.
  - destruct (Nat.leb_spec (col + tab_width ts col) limit); cbn [expand_from length]; [|lia].
    rewrite Ex, app_length, repeat_length. specialize (IH (col + tab_width ts col) H). lia.
  - destruct (Nat.leb_spec (col + 1) limit); cbn [expand_from length]; [|lia].
    rewrite Ex. cbn [length]. specialize (IH (col + 1) H). replace (S col) with (col + 1) by lia. lia.
Qed.
Lemma show_length ts maxw s : length (show ts maxw s) <= maxw.
Proof.
  unfold show, ell. destruct (Nat.leb_spec (length (expand ts s)) maxw); [lia|].
  rewrite app_length, !repeat_length. unfold expand, take_width.
  pose proof (expand_take_length ts (maxw - Nat.min 2 (maxw / 2)) s 0 ltac:(lia)).
  assert (maxw / 2 <= maxw) by (apply Nat.div_le_upper_bound; lia). lia.
Qed.
(* a text without tabs is shown as before *)
Lemma expand_notab ts s : Forall (fun x => x <> TAB) s -> forall col, expand_from ts col s = s.
Proof.
  induction 1 as [|x r Hx Hr IH]; intros col; cbn [expand_from]; [reflexivity|].
  apply Z.eqb_neq in Hx. rewrite Hx. now rewrite IH.
Qed.
Lemma take_notab ts limit s : Forall (fun x => x <> TAB) s -> forall col, take_from ts col limit s = firstn (limit - col) s.
Proof.
  induction 1 as [|x r Hx Hr IH]; intros col; cbn [take_from]; [now rewrite firstn_nil|].
  apply Z.eqb_neq in Hx. rewrite Hx.
  destruct (Nat.leb_spec (col + 1) limit).
  - rewrite IH. replace (limit - col) with (S (limit - (col + 1))) by lia. reflexivity.
  - replace (limit - col) with 0 by lia. reflexivity.
Qed.
Lemma show_notab ts maxw s : Forall (fun x => x <> TAB) s -> show ts maxw s = trunc maxw s.
Proof.
  intros H. unfold show, trunc, expand, take_width. rewrite (expand_notab ts s H 0).
  destruct (length s <=? maxw); [reflexivity|].
  rewrite (take_notab ts _ s H 0), Nat.sub_0_r.
  rewrite expand_notab; [reflexivity|]. apply Forall_forall. intros x Hin. rewrite Forall_forall in H.
  apply H. eapply In_firstn_early, Hin.
Qed.
Lemma trunc_length maxw s : length (trunc maxw s) <= maxw.
Proof.
  unfold trunc, ell. destruct (Nat.leb_spec (length s) maxw); [lia|].
  rewrite app_length, firstn_length, !repeat_length.
  assert (maxw / 2 <= maxw) by (apply Nat.div_le_upper_bound; lia). lia.
Qed.
Lemma trunc_fits maxw s : length s <= maxw -> trunc maxw s = s.
Proof. intros H. unfold trunc. now apply Nat.leb_le in H as ->. Qed.
Lemma trunc_cut maxw s : maxw < length s -> 4 <= maxw ->
  trunc maxw s = firstn (maxw - 2) s ++ [DOT; DOT].
Proof.
  intros H H4. unfold trunc, ell. destruct (Nat.leb_spec (length s) maxw); [lia|].
  assert (2 <= maxw / 2) by (apply Nat.div_le_lower_bound; lia).
  replace (Nat.min 2 (maxw / 2)) with 2 by lia. reflexivity.
Qed.

Lemma clear_last_pad w b : length b <= w - 1 -> 1 <= w -> clear_from w (w - 1) (pad w b) = pad w b.
Proof.
  intros Hb Hw. unfold clear_from, pad. rewrite firstn_app, firstn_repeat.
  rewrite (firstn_all2 b) by lia. rewrite <- app_assoc, repeat_app_len. do 2 f_equal. lia.
Qed.

Lemma nth_error_skipn {A} (l : list A) n k : nth_error (skipn n l) k = nth_error l (n + k).
Proof. revert l; induction n; intros [|x l]; cbn; auto. now destruct k. Qed.

(* ---------- the list area: one prevLines entry and its row ---------- *)
Definition lm (cur sel : bool) : str := [if cur then GT else SP; if sel then GT else SP].
Definition item_row (w ts : nat) (cur sel : bool) (txt : str) : row := pad w (lm cur sel ++ show ts (w - 3) txt).

Section ListArea.
  Variable txt_of : nat -> str.     (* the text of an item is determined by its index *)
  Variable W : nat.
  Hypothesis HW : 3 <= W.
  Variable TS : nat.

  Definition pair_ok (pr : iline * row) : Prop :=
    let '(p, r) := pr in
    length r = W /\
    (il_valid p = false -> il_empty p = false) /\
    (il_valid p = true ->
       (il_empty p = true /\ il_idx p = None /\ il_width p = 0 /\ r = blank W) \/
       (il_empty p = false /\ exists i, il_idx p = Some i /\ il_width p = length (show TS (W - 3) (txt_of i)) /\
                                        r = item_row W TS (il_cur p) (il_sel p) (txt_of i))).

  Lemma item_row_length cur sel t : length (item_row W TS cur sel t) = W.
  Proof.
    unfold item_row. rewrite pad_length, app_length. cbn [lm length].
    pose proof (show_length TS (W - 3) t). lia.
  Qed.

  Lemma print_item_ok cy qlen sel pos m pr :
    pair_ok pr -> snd m = txt_of (fst m) ->
    pair_ok (print_item W TS cy qlen sel pos m pr) /\
    snd (print_item W TS cy qlen sel pos m pr) = item_row W TS (Nat.eqb pos cy) (memb (fst m) sel) (snd m).
  Proof.
    destruct pr as [p r]. intros (Hlen & Hinv & Hval) Hm. unfold print_item.
    set (cur := Nat.eqb pos cy). set (sl := memb (fst m) sel).
    destruct (negb (negb (il_valid p)) && Bool.eqb (il_cur p) cur && Bool.eqb (il_sel p) sl &&
              (il_qlen p =? qlen) && idx_is (il_idx p) (fst m)) eqn:Hskip.
    - (* unchanged: the row already shows it *)
      repeat (apply andb_true_iff in Hskip as [Hskip ?]).
      rewrite negb_involutive in Hskip.
      apply eqb_prop in H2, H1. unfold idx_is in H. destruct (il_idx p) as [j|] eqn:Hj; [|discriminate].
      apply Nat.eqb_eq in H. subst j.
      destruct (Hval Hskip) as [(He & Hn & _)|(He & i & Hi & Hw & Hr)]; [congruence|].
      assert (i = fst m) by congruence. subst i.
      split.
      + cbn. repeat split; auto. intros _. right. split; auto. exists (fst m). auto.
      + cbn [snd]. rewrite Hr, H2, H1, Hm. reflexivity.
    - clear Hskip. rewrite item_text_show.
      assert (H1 : (1 <=? W) = true) by (apply Nat.leb_le; lia).
      assert (H2 : (2 <=? W) = true) by (apply Nat.leb_le; lia).
      rewrite H1, H2. cbn [app].
      change [if cur then GT else SP; if sl then GT else SP] with (lm cur sl).
      set (txt := show TS (W - 3) (snd m)).
      pose proof (show_length TS (W - 3) (snd m)) as Htl. fold txt in Htl.
      assert (Hgoal : (if negb (il_valid p) || (length txt =? 0)
                       then clear_from W (W - 1)
                              (put 0 (lm cur sl ++ txt ++ repeat SP ((if negb (il_valid p) then W - 3 else il_width p) - length txt)) r)
                       else put 0 (lm cur sl ++ txt ++ repeat SP ((if negb (il_valid p) then W - 3 else il_width p) - length txt)) r)
                      = item_row W TS cur sl (snd m)).
      { destruct (il_valid p) eqn:Hv; cbn [negb orb].
        - (* redraw over the previous contents, clearing only as far as they reached *)
          assert (Hput : put 0 (lm cur sl ++ txt ++ repeat SP (il_width p - length txt)) r = item_row W TS cur sl (snd m)).
          { destruct (Hval eq_refl) as [(He & Hn & Hw0 & Hr)|(He & i & Hi & Hw & Hr)].
            - rewrite Hr, (blank_pad W), put0_pad by (cbn; lia).
              rewrite Hw0. cbn [Nat.sub repeat]. rewrite app_nil_r. reflexivity.
            - rewrite Hr. unfold item_row at 1. rewrite put0_pad.
              2:{ rewrite !app_length, repeat_length. cbn [lm length]. lia. }
              rewrite app_assoc, pad_spaces. reflexivity.
              rewrite app_length. cbn [lm length].
              pose proof (show_length TS (W - 3) (txt_of i)). lia. }
          rewrite Hput. destruct (length txt =? 0); auto.
          unfold item_row. apply clear_last_pad; [|lia]. rewrite app_length. cbn [lm length]. fold txt. lia.
        - (* forced redraw: the whole row is rewritten *)
          unfold put. cbn [firstn app Nat.add].
          set (s := lm cur sl ++ txt ++ repeat SP (W - 3 - length txt)).
          assert (Hs : length s = W - 1).
          { unfold s. rewrite !app_length, repeat_length. cbn [lm length]. lia. }
          unfold clear_from. rewrite firstn_len_app by exact Hs.
          unfold item_row, pad, s. fold txt. rewrite <- !app_assoc. do 2 f_equal.
          rewrite repeat_app_len. f_equal. rewrite app_length. cbn [lm length]. lia. }
      unfold lm at 1 2 in Hgoal. cbn [app] in Hgoal.
      split.
      + cbn [pair_ok]. rewrite Hgoal. split; [apply item_row_length|]. cbn. split; [discriminate|].
        intros _. right. split; auto. exists (fst m). rewrite <- Hm. fold txt. auto.
      + cbn [snd]. exact Hgoal.
  Qed.

  Definition slot (cy : nat) (sel : list nat) (pos : nat) (ms : list (nat * str)) (k : nat) : row :=
    match nth_error ms k with
    | Some m => item_row W TS (Nat.eqb (pos + k) cy) (memb (fst m) sel) (snd m)
    | None => blank W
    end.

  Lemma draw_rows_ok cy qlen sel prs : forall pos ms,
    Forall pair_ok prs -> Forall (fun m => snd m = txt_of (fst m)) ms ->
    Forall pair_ok (draw_rows W TS cy qlen sel pos ms prs) /\
    length (draw_rows W TS cy qlen sel pos ms prs) = length prs /\
    map snd (draw_rows W TS cy qlen sel pos ms prs) = map (slot cy sel pos ms) (seq 0 (length prs)).
  Proof.
    induction prs as [|pr prs IH]; intros pos ms Hp Hm; [cbn; auto|].
    inversion Hp as [|? ? Hpr Hprs]; subst. cbn [draw_rows].
    destruct ms as [|m ms'].
    - destruct (IH pos [] Hprs Hm) as (I1 & I2 & I3).
      assert (Hrow : pair_ok (if il_empty (fst pr) then pr else (il_blank, clear_from W 0 (snd pr))) /\
                     snd (if il_empty (fst pr) then pr else (il_blank, clear_from W 0 (snd pr))) = blank W).
      { destruct pr as [p r]. cbn [fst snd]. destruct Hpr as (Hl & Hi & Hv).
        destruct (il_empty p) eqn:He.
        - destruct (il_valid p) eqn:Hvl; [|specialize (Hi eq_refl); congruence].
          destruct (Hv eq_refl) as [(_ & Hn & Hw & Hr)|(He' & _)]; [|congruence].
          split; [|exact Hr]. cbn. rewrite He, Hvl. repeat split; auto; try discriminate.
        - rewrite clear0, <- (blank_pad W). split; [|reflexivity].
          cbn. unfold blank. rewrite repeat_length. repeat split; auto; try discriminate. }
      destruct Hrow as [Hok Hrw]. repeat split.
      + constructor; auto.
      + cbn. now rewrite I2.
      + cbn [map length seq]. rewrite Hrw, I3. f_equal.
        rewrite <- seq_shift, map_map. apply map_ext. intros k. unfold slot. now destruct k.
    - inversion Hm as [|? ? Hm1 Hm2]; subst.
      destruct (print_item_ok cy qlen sel pos m pr Hpr Hm1) as [Hok Hrw].
      destruct (IH (S pos) ms' Hprs Hm2) as (I1 & I2 & I3). repeat split.
      + constructor; auto.
      + cbn. now rewrite I2.
      + cbn [map length seq]. rewrite Hrw, I3. f_equal.
        * unfold slot. cbn. now rewrite Nat.add_0_r.
        * rewrite <- seq_shift, map_map. apply map_ext. intros k. unfold slot. cbn [nth_error].
          now rewrite Nat.add_succ_r.
  Qed.
End ListArea.

(* ---------- constrain ---------- *)
Lemma clampn_bounds v lo hi : lo <= hi -> lo <= clampn v lo hi <= hi.
Proof.
  intros H. unfold clampn. destruct (Nat.ltb_spec v lo); [lia|]. destruct (Nat.ltb_spec hi v); lia.
Qed.

Lemma phase0_bounds maxl so cy minO o : minO <= o -> minO <= phase0 maxl so cy minO o <= o.
Proof.
  induction o as [|p IH]; intros H; cbn [phase0].
  - destruct (stuck maxl so cy 0); [lia|]. destruct (lines_before cy 0 <? so); lia.
  - destruct (stuck maxl so cy (S p)); [lia|]. destruct (lines_before cy (S p) <? so); [|lia].
    destruct (Nat.leb_spec minO p); [specialize (IH H0); lia|lia].
Qed.

Lemma phase1_bounds maxl so cy maxO d : forall o, o <= maxO -> o <= phase1 maxl so cy maxO d o <= maxO.
Proof.
  induction d as [|d IH]; intros o H; cbn [phase1].
  - destruct (stuck maxl so cy o); [lia|]. destruct (lines_after maxl cy o <? so); lia.
  - destruct (stuck maxl so cy o); [lia|]. destruct (lines_after maxl cy o <? so); [|lia].
    destruct (Nat.leb_spec (S o) maxO); [specialize (IH (S o) H0); lia|lia].
Qed.

Lemma constrain_body_ok count maxl so cy off : 1 <= count -> 1 <= maxl ->
  in_window count maxl (fst (constrain_body count maxl so cy off)) (snd (constrain_body count maxl so cy off)).
Proof.
  intros Hc Hm. unfold constrain_body.
  set (cy1 := clampn cy 0 (Nat.max 0 (count - 1))).
  assert (Hcy : cy1 < count) by (pose proof (clampn_bounds cy 0 (Nat.max 0 (count - 1)) ltac:(lia)); fold cy1 in H; lia).
  set (minO := cy1 + 1 - maxl). set (maxO := Nat.max (Nat.min (count - maxl) cy1) 0).
  assert (Hmm : minO <= maxO) by (unfold minO, maxO; lia).
  pose proof (clampn_bounds off minO maxO Hmm) as Hoff. set (off1 := clampn off minO maxO) in *.
  assert (Hfin : forall o, minO <= o <= maxO -> in_window count maxl cy1 o).
  { intros o Ho. unfold in_window, minO, maxO in *. lia. }
  destruct (0 <? so); cbn [fst snd]; [|apply Hfin; lia].
  set (so' := Nat.min (maxl / 2) so).
  pose proof (phase0_bounds maxl so' cy1 minO off1 ltac:(lia)) as H0. set (o0 := phase0 maxl so' cy1 minO off1) in *.
  pose proof (phase1_bounds maxl so' cy1 maxO (maxO - o0) o0 ltac:(lia)) as H1.
  apply Hfin. lia.
Qed.

Lemma constrain_loop_ok count maxl so : 1 <= count -> 1 <= maxl -> forall tries cy off,
  in_window count maxl cy off ->
  in_window count maxl (fst (constrain_loop tries count maxl so cy off)) (snd (constrain_loop tries count maxl so cy off)).
Proof.
  intros Hc Hm. induction tries as [|tr IH]; intros cy off Hin; cbn [constrain_loop]; [exact Hin|].
  pose proof (constrain_body_ok count maxl so cy off Hc Hm) as Hb.
  destruct (constrain_body count maxl so cy off) as [cy' off']. cbn [fst snd] in Hb.
  destruct (off' =? off); [exact Hb|]. apply IH. exact Hb.
Qed.

(* after constrain the current line is on a visible row and the window is filled whenever the list is long enough *)
Theorem constrain_in_bounds_proof : forall count maxl so cy off, 1 <= count -> 1 <= maxl ->
  in_window count maxl (fst (constrain count maxl so cy off)) (snd (constrain count maxl so cy off)).
Proof.
  intros count maxl so cy off Hc Hm. unfold constrain.
  destruct maxl as [|ml]; [lia|]. cbn [constrain_loop].
  pose proof (constrain_body_ok count (S ml) so cy (clampn off 0 count) Hc Hm) as Hb.
  destruct (constrain_body count (S ml) so cy (clampn off 0 count)) as [cy' off']. cbn [fst snd] in Hb.
  destruct (off' =? clampn off 0 count); [exact Hb|]. apply constrain_loop_ok; auto.
Qed.

(* ---------- the terminal as a whole: list area of the screen buffer ---------- *)
Lemma nth_skipn_add {A} (l : list A) s i d : nth i (skipn s l) d = nth (s + i) l d.
Proof. revert l; induction s; intros [|x l]; cbn; auto. now destruct i. Qed.
Lemma combine_fst_snd {A B} (l : list (A * B)) : combine (map fst l) (map snd l) = l.
Proof. induction l as [|[a b] l IH]; cbn; congruence. Qed.
Lemma upd_at_length {A} y (f : A -> A) l : length (upd_at y f l) = length l.
Proof. revert y; induction l; intros [|y]; cbn; auto. Qed.
Lemma upd_at_skipn {A} y (f : A -> A) l s : y < s -> skipn s (upd_at y f l) = skipn s l.
Proof.
  revert y s; induction l as [|x l IH]; intros y s H.
  - now destruct y.
  - destruct s; [lia|]. destruct y; cbn; auto. apply IH. lia.
Qed.
Lemma header_from_keeps w ts hs : forall line scr s, line + length hs <= s ->
  length (print_header_from w ts line hs scr) = length scr /\
  skipn s (print_header_from w ts line hs scr) = skipn s scr.
Proof.
  induction hs as [|h hs IH]; intros line scr s H; cbn [print_header_from]; [auto|].
  cbn [length] in H. destruct (IH (S line) (upd_at line (fun row => put 0 ([SP; SP] ++ item_text ts (w - 3) h) (clear_from w 0 row)) scr) s ltac:(lia)) as [E1 E2].
  rewrite E1, E2, upd_at_length, upd_at_skipn by lia. auto.
Qed.

Definition list_seg (c : cfg) (t : term) : list row := firstn (max_items c) (skipn (list_start c) (t_screen t)).
Definition seg_pairs (c : cfg) (t : term) : list (iline * row) :=
  combine (firstn (max_items c) (skipn (list_start c) (t_prev t))) (list_seg c t).
Definition coherent (txt_of : nat -> str) (ms : list (nat * str)) : Prop := Forall (fun m => snd m = txt_of (fst m)) ms.
(* the list rows show the list-relevant fields held by the terminal *)
Definition fresh (c : cfg) (t : term) : Prop := list_seg c t = map (list_slot_text c (t_view t)) (seq 0 (max_items c)).

Section Term.
  Variable txt_of : nat -> str.
  Variable c : cfg.
  Hypothesis Hc : cfg_ok c.
  Let W := c_w c.
  Let TS := c_tabstop c.
  Let H := c_h c.
  Let st := list_start c.
  Let n := max_items c.

  Definition tinv (t : term) : Prop :=
    length (t_screen t) = H /\ length (t_prev t) = H /\ Forall (pair_ok txt_of W TS) (seg_pairs c t).

  Lemma st_n : st + n = H /\ 3 <= W.
  Proof. destruct Hc as [H4 Hh]. unfold st, n, H, W, list_start, max_items in *. lia. Qed.

  Lemma slot_is_spec (t : term) k :
    slot W TS (t_cy t) (t_sel t) (t_off t) (skipn (t_off t) (t_matches t)) k = list_slot_text c (t_view t) k.
  Proof. unfold slot, list_slot_text. cbn [t_view v_matches v_off v_cy v_sel]. rewrite nth_error_skipn. reflexivity. Qed.

  Lemma print_list_at_ok t : tinv t -> coherent txt_of (t_matches t) ->
    tinv (print_list_at c t) /\ fresh c (print_list_at c t) /\ t_view (print_list_at c t) = t_view t /\
    firstn st (t_screen (print_list_at c t)) = firstn st (t_screen t).
  Proof.
    intros (Hs & Hp & Hf) Hm. destruct st_n as [Hsn HW].
    unfold print_list_at. fold st n W TS.
    set (seg := combine (firstn n (skipn st (t_prev t))) (firstn n (skipn st (t_screen t)))).
    assert (Hco : coherent txt_of (skipn (t_off t) (t_matches t))).
    { unfold coherent in *. rewrite Forall_forall in *. intros m Hin. apply Hm.
      rewrite <- (firstn_skipn (t_off t)). apply in_or_app. now right. }
    destruct (draw_rows_ok txt_of W HW TS (t_cy t) (length (t_query t)) (t_sel t) seg (t_off t) _ Hf Hco) as (D1 & D2 & D3).
    set (seg' := draw_rows W TS (t_cy t) (length (t_query t)) (t_sel t) (t_off t) (skipn (t_off t) (t_matches t)) seg) in *.
    assert (Hseg : length seg = n).
    { unfold seg. rewrite combine_length, !firstn_length, !skipn_length. lia. }
    assert (L1 : length (firstn st (t_screen t)) = st) by (rewrite firstn_length; lia).
    assert (L2 : length (firstn st (t_prev t)) = st) by (rewrite firstn_length; lia).
    assert (E : list_seg c (set_draw t (firstn st (t_screen t) ++ map snd seg' ++ skipn (st + n) (t_screen t))
                                        (firstn st (t_prev t) ++ map fst seg' ++ skipn (st + n) (t_prev t))) = map snd seg').
    { unfold list_seg. cbn [set_draw t_screen]. fold st n. rewrite skipn_len_app by exact L1.
      apply firstn_len_app. rewrite map_length. lia. }
    split; [|split; [|split]].
    - unfold tinv. cbn [set_draw t_screen t_prev]. repeat split.
      + rewrite !app_length, map_length, skipn_length. lia.
      + rewrite !app_length, map_length, skipn_length. lia.
      + unfold seg_pairs. rewrite E. cbn [set_draw t_prev]. fold st n.
        rewrite skipn_len_app by exact L2. rewrite firstn_len_app by (rewrite map_length; lia).
        rewrite combine_fst_snd. exact D1.
    - unfold fresh. rewrite E, D3, Hseg. apply map_ext. intros k.
      rewrite slot_is_spec. reflexivity.
    - reflexivity.
    - cbn [set_draw t_screen]. apply firstn_len_app. exact L1.
  Qed.

  (* drawing above the list leaves the list area alone *)
  Lemma redraw_above_ok t scr : tinv t -> length scr = length (t_screen t) -> skipn st scr = skipn st (t_screen t) ->
    tinv (set_draw t scr (t_prev t)) /\ list_seg c (set_draw t scr (t_prev t)) = list_seg c t.
  Proof.
    intros (Hs & Hp & Hf) Hl Hk.
    assert (E : list_seg c (set_draw t scr (t_prev t)) = list_seg c t).
    { unfold list_seg. cbn [set_draw t_screen]. fold st. now rewrite Hk. }
    split; [|exact E]. unfold tinv, seg_pairs. rewrite E. cbn [set_draw t_screen t_prev]. repeat split; auto; lia.
  Qed.

  Lemma pl_le_st : prompt_lines c <= st. Proof. unfold st, list_start. lia. Qed.
  Lemma pl_pos : 1 <= prompt_lines c.
  Proof. unfold prompt_lines. destruct (c_info c); try lia; destruct (c_sep c); lia. Qed.

  Lemma print_prompt_ok t : tinv t -> tinv (print_prompt c t) /\ list_seg c (print_prompt c t) = list_seg c t.
  Proof.
    intros Ht. unfold print_prompt. apply redraw_above_ok; auto.
    - apply upd_at_length.
    - apply upd_at_skipn. pose proof pl_le_st. pose proof pl_pos. lia.
  Qed.
  Lemma print_info_ok t : tinv t -> tinv (print_info c t) /\ list_seg c (print_info c t) = list_seg c t.
  Proof.
    intros Ht. unfold print_info. pose proof pl_le_st as P1. pose proof pl_pos as P2.
    unfold prompt_lines in P1, P2.
    apply redraw_above_ok; auto; destruct (c_info c); try destruct (c_sep c);
      try reflexivity; rewrite ?upd_at_length; try reflexivity; rewrite ?upd_at_skipn by lia; reflexivity.
  Qed.
  Lemma print_header_ok t : tinv t -> tinv (print_header c t) /\ list_seg c (print_header c t) = list_seg c t.
  Proof.
    intros Ht. unfold print_header.
    assert (Hlen : prompt_lines c + length (hdr_logical c) <= st).
    { unfold st, list_start, nheader, hdr_logical. rewrite app_length. destruct (c_layout c); rewrite ?rev_length; lia. }
    destruct (header_from_keeps (c_w c) (c_tabstop c) (hdr_logical c) (prompt_lines c) (t_screen t) st Hlen) as [E1 E2].
    apply redraw_above_ok; auto.
  Qed.

  Lemma fresh_keep t t' : fresh c t -> list_seg c t' = list_seg c t ->
    v_matches (t_view t') = v_matches (t_view t) -> v_cy (t_view t') = v_cy (t_view t) ->
    v_off (t_view t') = v_off (t_view t) -> v_sel (t_view t') = v_sel (t_view t) -> fresh c t'.
  Proof.
    unfold fresh. intros Hf Hl E1 E2 E3 E4. rewrite Hl, Hf. apply map_ext. intros k.
    unfold list_slot_text, item_row_text. rewrite E1, E2, E3, E4. reflexivity.
  Qed.

  Lemma blank_tinv t : tinv (set_draw t (repeat (blank W) H) (repeat il_none H)).
  Proof.
    destruct st_n as [Hsn HW]. unfold tinv, seg_pairs, list_seg. cbn [set_draw t_screen t_prev]. fold st n W H.
    rewrite !repeat_length. repeat split; auto.
    rewrite !skipn_repeat, !firstn_repeat. apply Forall_forall. intros [p r] Hin.
    pose proof (in_combine_l _ _ _ _ Hin) as Hp. pose proof (in_combine_r _ _ _ _ Hin) as Hr.
    apply repeat_spec in Hp, Hr. subst. cbn. unfold blank. rewrite repeat_length. repeat split; auto; discriminate.
  Qed.

  Lemma paint_ok t : coherent txt_of (t_matches t) ->
    tinv (paint c t) /\ fresh c (paint c t) /\ t_view (paint c t) = t_view t.
  Proof.
    intros Hm. unfold paint. fold W H.
    set (t0 := set_draw t (repeat (blank W) H) (repeat il_none H)).
    destruct (print_list_at_ok t0 (blank_tinv t) Hm) as (A1 & A2 & A3 & _).
    destruct (print_prompt_ok _ A1) as (B1 & B2).
    destruct (print_info_ok _ B1) as (C1 & C2).
    destruct (print_header_ok _ C1) as (D1 & D2).
    split; [exact D1|]. split; [|reflexivity].
    eapply fresh_keep; [exact A2| |reflexivity..]. now rewrite D2, C2, B2.
  Qed.

  Lemma print_list_ok t : tinv t -> coherent txt_of (t_matches t) ->
    tinv (print_list c t) /\ fresh c (print_list c t) /\ t_matches (print_list c t) = t_matches t /\ t_sel (print_list c t) = t_sel t.
  Proof.
    intros Ht Hm. unfold print_list.
    destruct (constrain (length (t_matches t)) (max_items c) scroll_off_default (t_cy t) (t_off t)) as [cy off].
    destruct (print_list_at_ok (set_scroll t cy off) Ht Hm) as (A1 & A2 & A3 & _). auto.
  Qed.
  Lemma full_redraw_ok t : coherent txt_of (t_matches t) ->
    tinv (full_redraw c t) /\ fresh c (full_redraw c t) /\ t_matches (full_redraw c t) = t_matches t /\ t_sel (full_redraw c t) = t_sel t.
  Proof.
    intros Hm. unfold full_redraw.
    destruct (constrain (length (t_matches t)) (max_items c) scroll_off_default (t_cy t) (t_off t)) as [cy off].
    destruct (paint_ok (set_scroll t cy off) Hm) as (A1 & A2 & A3). auto.
  Qed.

  (* a step covers the list when it asks for the list to be redrawn, or leaves what the list shows unchanged *)
  Definition covers_list (t : term) (u : upd) : Prop :=
    rq_list (u_reqs u) = true \/ rq_full (u_reqs u) = true \/
    (u_matches u = t_matches t /\ u_cy u = t_cy t /\ u_sel u = t_sel t).

  Lemma step_ok t u : tinv t -> fresh c t -> coherent txt_of (u_matches u) -> covers_list t u ->
    tinv (step c t u) /\ fresh c (step c t u) /\ coherent txt_of (t_matches (step c t u)).
  Proof.
    intros Ht Hf Hm Hcov. unfold step, handle.
    set (t1 := mkTerm (u_prompt u) (u_query u) (u_matches u) (u_total u) (u_cy u) (t_off t) (u_sel u) (t_screen t) (t_prev t)).
    assert (T1 : tinv t1) by exact Ht.
    assert (M1 : t_matches t1 = u_matches u) by reflexivity.
    (* stage invariant: tinv, matches coherent, and fresh unless a redraw is still to come *)
    set (P := fun (todo : bool) (x : term) => tinv x /\ coherent txt_of (t_matches x) /\ (todo = false -> fresh c x)).
    assert (S1 : P (rq_list (u_reqs u) || rq_full (u_reqs u)) t1).
    { split; [exact T1|]. split; [rewrite M1; exact Hm|]. intros Hno.
      apply orb_false_iff in Hno as [N1 N2].
      destruct Hcov as [X|[X|(E1 & E2 & E3)]]; try congruence.
      eapply fresh_keep; [exact Hf|reflexivity|cbn; congruence..]. }
    assert (S2 : P (rq_list (u_reqs u) || rq_full (u_reqs u)) (if rq_prompt (u_reqs u) then print_prompt c t1 else t1)).
    { destruct (rq_prompt (u_reqs u)); [|exact S1]. destruct S1 as (A & B & C).
      destruct (print_prompt_ok _ A) as [A' L]. split; [exact A'|]. split; [exact B|].
      intros N. eapply fresh_keep; [exact (C N)|exact L|reflexivity..]. }
    set (t2 := if rq_prompt (u_reqs u) then print_prompt c t1 else t1) in *.
    assert (S3 : P (rq_list (u_reqs u) || rq_full (u_reqs u)) (if rq_header (u_reqs u) then print_header c t2 else t2)).
    { destruct (rq_header (u_reqs u)); [|exact S2]. destruct S2 as (A & B & C).
      destruct (print_header_ok _ A) as [A' L]. split; [exact A'|]. split; [exact B|].
      intros N. eapply fresh_keep; [exact (C N)|exact L|reflexivity..]. }
    set (t3 := if rq_header (u_reqs u) then print_header c t2 else t2) in *.
    assert (S4 : P (rq_full (u_reqs u)) (if rq_list (u_reqs u) then print_list c t3 else t3)).
    { destruct S3 as (A & B & C). destruct (rq_list (u_reqs u)) eqn:RL.
      - destruct (print_list_ok _ A B) as (A' & F & M & _). split; [exact A'|]. split; [now rewrite M|]. auto.
      - split; [exact A|]. split; [exact B|]. exact C. }
    set (t4 := if rq_list (u_reqs u) then print_list c t3 else t3) in *.
    assert (S5 : P false (if rq_full (u_reqs u) then full_redraw c t4 else t4)).
    { destruct S4 as (A & B & C). destruct (rq_full (u_reqs u)) eqn:RF.
      - destruct (full_redraw_ok _ B) as (A' & F & M & _). split; [exact A'|]. split; [now rewrite M|]. auto.
      - split; [exact A|]. split; [exact B|]. exact C. }
    set (t5 := if rq_full (u_reqs u) then full_redraw c t4 else t4) in *.
    destruct S5 as (A & B & C). specialize (C eq_refl).
    destruct (rq_info (u_reqs u) || rq_prompt (u_reqs u) && is_inline c); [|auto].
    destruct (print_info_ok _ A) as [A' L]. split; [exact A'|]. split; [|exact B].
    eapply fresh_keep; [exact C|exact L|reflexivity..].
  Qed.

  Fixpoint hist_ok (t : term) (us : list upd) : Prop :=
    match us with
    | [] => True
    | u :: r => coherent txt_of (u_matches u) /\ covers_list t u /\ hist_ok (step c t u) r
    end.

  Lemma run_ok us : forall t, tinv t -> fresh c t -> coherent txt_of (t_matches t) -> hist_ok t us ->
    tinv (run c t us) /\ fresh c (run c t us) /\ coherent txt_of (t_matches (run c t us)).
  Proof.
    induction us as [|u r IH]; intros t Ht Hf Hco Hh; cbn; [auto|].
    destruct Hh as (Hm & Hcov & Hr). destruct (step_ok t u Ht Hf Hm Hcov) as (T & F & Co).
    apply IH; auto.
  Qed.

  (* the list rows of the screen buffer after ANY history of incremental redraws are those a full redraw
     of the final state paints on an erased window *)
  Theorem incremental_list_proof v0 us : coherent txt_of (v_matches v0) -> hist_ok (start c v0) us ->
    list_seg c (run c (start c v0) us) = list_seg c (paint c (run c (start c v0) us)).
  Proof.
    intros Hm Hh. destruct (full_redraw_ok (term_of_view v0) Hm) as (T & F & M & _).
    assert (Co : coherent txt_of (t_matches (start c v0))) by (unfold start; rewrite M; exact Hm).
    destruct (run_ok us (start c v0) T F Co Hh) as (T' & F' & Co').
    destruct (paint_ok _ Co') as (_ & Fp & Vp).
    unfold fresh in *. rewrite F', Fp, Vp. reflexivity.
  Qed.
End Term.

(* ---------- where the layout puts the list rows ---------- *)
Lemma physical_list_row c ls i : cfg_ok c -> length ls = c_h c -> i < max_items c ->
  row_at (physical c ls) (list_row c i) = nth (list_start c + i) ls [].
Proof.
  intros [H4 Hh] Hl Hi. unfold row_at, physical, list_row, list_start, max_items, nheader in *.
  destruct (c_layout c).
  - rewrite rev_nth by lia. f_equal. lia.
  - reflexivity.
  - set (pl := prompt_lines c) in *. set (n0 := length (c_header c)) in *. set (n1 := length (c_hlines c)) in *.
    rewrite app_nth2; rewrite firstn_length, skipn_length; [|lia].
    replace (n1 + i - Nat.min n1 (length ls - (pl + n0))) with i by lia.
    rewrite app_nth1 by (rewrite skipn_length; lia).
    rewrite nth_skipn_add. f_equal. lia.
Qed.

Lemma nth_firstn_lt {A} (l : list A) n i d : i < n -> nth i (firstn n l) d = nth i l d.
Proof. revert l i; induction n; intros [|x l] [|i] H; cbn; auto; try lia. apply IHn. lia. Qed.

Lemma list_seg_nth c t i : i < max_items c -> length (t_screen t) = c_h c -> cfg_ok c ->
  nth (list_start c + i) (t_screen t) [] = nth i (list_seg c t) [].
Proof.
  intros Hi Hl [H4 Hh]. unfold list_seg. rewrite nth_firstn_lt by exact Hi. now rewrite nth_skipn_add.
Qed.

(* rows_faithful: list slot i of the full render shows result number offset+i at the row the layout dictates.
   view_wf: the text of an item is determined by its index (true of every real state). *)
Definition view_wf (v : view) : Prop := exists txt_of, coherent txt_of (v_matches v).

Theorem rows_faithful_proof : forall c v, cfg_ok c -> view_wf v -> shows_list c v (render c v).
Proof.
  intros c v Hc [txt_of Hco] i Hi. unfold render.
  destruct (paint_ok txt_of c Hc (term_of_view v) Hco) as ((Hl & _ & _) & Hf & Hv).
  rewrite physical_list_row by auto. rewrite list_seg_nth by auto.
  unfold fresh in Hf. rewrite Hf, Hv.
  rewrite (nth_indep _ [] (list_slot_text c (t_view (term_of_view v)) 0)) by (rewrite map_length, seq_length; exact Hi).
  rewrite map_nth, seq_nth by exact Hi. cbn [Nat.add].
  destruct v; reflexivity.
Qed.

(* pointer_marker_exact: on a list row that shows a result, column 0 holds the pointer exactly when it is the
   current line and column 1 holds the marker exactly when the item is selected; a slot past the end is blank *)
Theorem pointer_marker_exact_proof : forall c v i m, cfg_ok c -> view_wf v -> i < max_items c ->
  nth_error (v_matches v) (v_off v + i) = Some m ->
  let r := row_at (render c v) (list_row c i) in
  (nth 0 r SP = GT <-> v_off v + i = v_cy v) /\ (nth 1 r SP = GT <-> In (fst m) (v_sel v)).
Proof.
  intros c v i m Hc Hw Hi Hm r. subst r. rewrite (rows_faithful_proof c v Hc Hw i Hi).
  unfold list_slot_text. rewrite Hm. unfold item_row_text, pad. cbn [app nth].
  split.
  - destruct (Nat.eqb_spec (v_off v + i) (v_cy v)); split; intros; auto; try discriminate; contradiction.
  - assert (Hmem : forall l x, memb x l = true <-> In x l).
    { induction l as [|y l IH]; intros x; cbn; [split; [discriminate|tauto]|].
      rewrite orb_true_iff, IH, Nat.eqb_eq. split; intros [|]; auto. }
    destruct (memb (fst m) (v_sel v)) eqn:E; split; intros; auto; try discriminate.
    + now apply Hmem.
    + apply Hmem in H. congruence.
Qed.

Theorem empty_slot_blank_proof : forall c v i, cfg_ok c -> view_wf v -> i < max_items c ->
  nth_error (v_matches v) (v_off v + i) = None -> row_at (render c v) (list_row c i) = blank (c_w c).
Proof.
  intros c v i Hc Hw Hi Hm. rewrite (rows_faithful_proof c v Hc Hw i Hi). unfold list_slot_text. now rewrite Hm.
Qed.

(* truncation: complete when it fits, else a prefix followed by "..", and never wider than the window *)
Theorem width_bound_list_proof : forall c v i, cfg_ok c -> view_wf v -> i < max_items c ->
  length (row_at (render c v) (list_row c i)) = c_w c.
Proof.
  intros c v i Hc Hw Hi. rewrite (rows_faithful_proof c v Hc Hw i Hi). unfold list_slot_text.
  destruct Hc as [H4 _].
  destruct (nth_error (v_matches v) (v_off v + i)); [|unfold blank; now rewrite repeat_length].
  unfold item_row_text. rewrite pad_length, app_length. cbn [length].
  pose proof (show_length (c_tabstop c) (c_w c - 3) (snd p)). lia.
Qed.

(* header_not_in_list: prompt, info, --header, --header-lines and list rows are distinct rows of the window *)
Theorem header_not_in_list_proof : forall c i, cfg_ok c -> i < max_items c ->
  list_row c i < c_h c /\ list_row c i <> prompt_row c /\
  (prompt_lines c = 2 -> list_row c i <> info_row c) /\
  (forall k, k < length (c_header c) -> list_row c i <> header_row c k /\ header_row c k < c_h c) /\
  (forall k, k < length (c_hlines c) -> list_row c i <> hline_row c k /\ hline_row c k < c_h c) /\
  (forall j, j < max_items c -> list_row c i = list_row c j -> i = j).
Proof.
  intros c i [H4 Hh] Hi.
  assert (P : 1 <= prompt_lines c) by (unfold prompt_lines; destruct (c_info c); try destruct (c_sep c); lia).
  unfold list_row, prompt_row, info_row, header_row, hline_row, max_items, nheader in *.
  destruct (c_layout c); repeat split; intros; lia.
Qed.

(* truncation_shape: what a list row shows of a text *)
Theorem truncation_shape_proof : forall maxw s,
  (length s <= maxw -> trunc maxw s = s) /\
  (maxw < length s -> 4 <= maxw -> trunc maxw s = firstn (maxw - 2) s ++ [DOT; DOT]) /\
  length (trunc maxw s) <= maxw.
Proof. intros. split; [apply trunc_fits|]. split; [apply trunc_cut|apply trunc_length]. Qed.

(* ---------- the whole screen: incremental = full is FALSE of the model (and of fzf) in narrow windows ----------
   printInfoImpl does not clear the info row when a separator is configured and draws no separator when the
   text fills the row, so the tail of a longer previous text survives: 12 columns, "30/30 (0)" then "1/30 (0)"
   leaves "1/30 (0))". *)
Definition refute_cfg : cfg := mkCfg 12 8 LDefault IDefault true [] [] MAX_MULTI 8.
Definition refute_v0 : view := mkView [GT; SP] [] (map (fun i => (i, [97%Z])) (seq 0 30)) 30 0 0 [].
Definition refute_us : list upd :=
  [mkUpd [GT; SP] [49%Z; 49%Z] [(10, [97%Z])] 30 0 [] (mkReqs true true false true false)].
Theorem incremental_eq_full_refuted_proof :
  exists c v0 us, cfg_ok c /\ view_wf v0 /\
    hist_ok (fun _ => [97%Z]) c (start c v0) us /\
    t_screen (run c (start c v0) us) <> t_screen (paint c (run c (start c v0) us)).
Proof.
  exists refute_cfg, refute_v0, refute_us. split; [vm_compute; lia|]. split.
  - exists (fun _ => [97%Z]). unfold coherent. apply Forall_forall. intros m Hin.
    unfold refute_v0 in Hin. cbn [v_matches] in Hin. apply in_map_iff in Hin as (i & <- & _). reflexivity.
  - split.
    + unfold refute_us. cbn [hist_ok]. split; [repeat constructor|]. split; [left; reflexivity|exact I].
    + vm_compute. discriminate.
Qed.

(* ---------- the whole screen of a full redraw, in closed form ---------- *)
Lemma upd_at_app_len {A} (pre : list A) x post f : upd_at (length pre) f (pre ++ x :: post) = pre ++ f x :: post.
Proof. induction pre; cbn; congruence. Qed.
Lemma pad_more x a k : length a <= x -> pad x a ++ repeat SP k = pad (x + k) a.
Proof. intros H. unfold pad. rewrite <- app_assoc, repeat_app_len. do 2 f_equal. lia. Qed.
Lemma pad_pad x a : length a <= x -> pad x (pad x a) = pad x a.
Proof. intros H. unfold pad at 1. rewrite pad_length. replace (x - Nat.max x (length a)) with 0 by lia. cbn. apply app_nil_r. Qed.
Lemma firstn_pad x w a : length a <= x -> x <= w -> firstn x (pad w a) = pad x a.
Proof.
  intros H1 H2. unfold pad. rewrite firstn_app, firstn_repeat, (firstn_all2 a) by lia. do 2 f_equal. lia.
Qed.
Lemma clear_pad w x a : length a <= x -> x <= w -> clear_from w x (pad w a) = pad w (pad x a).
Proof.
  intros H1 H2. unfold clear_from. rewrite firstn_pad by lia. unfold pad at 2. rewrite pad_length.
  do 2 f_equal. lia.
Qed.
Lemma trim_msg_length maxw s : length (trim_msg maxw s) <= maxw.
Proof.
  unfold trim_msg. destruct (Nat.leb_spec (length s) maxw); [lia|].
  rewrite app_length, firstn_length, repeat_length. lia.
Qed.
Lemma info_tail_length c maxw out : length (info_tail c maxw out) <= maxw + 1.
Proof.
  unfold info_tail. rewrite app_length. pose proof (trim_msg_length maxw out) as Ht.
  destruct (Nat.ltb_spec 0 (maxw - length out - 1)); [|cbn; lia].
  unfold trim_msg. destruct (Nat.leb_spec (length out) maxw); [|lia].
  destruct (c_sep c); cbn [length]; rewrite ?app_length, ?repeat_length; cbn [length]; lia.
Qed.

Lemma header_from_app w ts hs : forall pre olds post, length olds = length hs ->
  print_header_from w ts (length pre) hs (pre ++ olds ++ post) =
  pre ++ map (fun h => pad w ([SP; SP] ++ show ts (w - 3) h)) hs ++ post.
Proof.
  induction hs as [|h hs IH]; intros pre olds post Hl; destruct olds as [|o os]; try discriminate; [reflexivity|].
  cbn [print_header_from map app]. rewrite upd_at_app_len, clear0, put0_pad by (cbn; lia).
  rewrite item_text_show.
  set (X := pad w (SP :: SP :: show ts (w - 3) h)).
  replace (pre ++ X :: os ++ post) with ((pre ++ [X]) ++ os ++ post) by (rewrite <- app_assoc; reflexivity).
  replace (S (length pre)) with (length (pre ++ [X])) by (rewrite app_length; cbn; lia).
  rewrite IH by (cbn in Hl; lia). rewrite <- app_assoc. reflexivity.
Qed.

Definition logical_rows (c : cfg) (v : view) : list row :=
  prompt_row_text c v :: (if prompt_lines c =? 2 then [info_row_text c v] else []) ++
  map (header_row_text c) (hdr_logical c) ++ map (list_slot_text c v) (seq 0 (max_items c)).

Lemma hdr_logical_length c : length (hdr_logical c) = nheader c.
Proof. unfold hdr_logical, nheader. rewrite app_length. destruct (c_layout c); now rewrite ?rev_length. Qed.

Lemma prompt_clean w P q r : length P + 2 <= w ->
  put 0 (prompt_item_text (w - 2) P ++ q) (clear_from w 0 r) = pad w (P ++ q).
Proof.
  intros H. rewrite clear0, put0_pad by (cbn; lia). rewrite prompt_item_trunc, trunc_fits by lia. reflexivity.
Qed.

(* the info printed on a freshly printed prompt line *)
Lemma inline_on_clean c (v : view) : view_ok c v -> c_info c = IInline ->
  (fun r => put (length (v_prompt v) + length (v_query v) + 1)
     ([SP; LT; SP] ++ info_tail c (c_w c - (length (v_prompt v) + length (v_query v) + 1 + 3) - 1) (info_text c v))
     (if c_sep c then r else clear_from (c_w c) (length (v_prompt v) + length (v_query v) + 1) r))
    (pad (c_w c) (v_prompt v ++ v_query v)) = prompt_row_text c v.
Proof.
  intros [V1 V2] Hi. rewrite Hi in V2. unfold prompt_row_text. rewrite Hi.
  unfold prompt_text in *. rewrite app_length in *.
  set (pos := length (v_prompt v) + length (v_query v) + 1).
  assert (Hl : length (v_prompt v ++ v_query v) <= pos) by (rewrite app_length; lia).
  destruct (c_sep c).
  - rewrite put_pad by lia. reflexivity.
  - rewrite clear_pad by lia. rewrite put_pad by (rewrite ?pad_length; lia).
    rewrite pad_pad by lia. reflexivity.
Qed.

Lemma inline_right_on_clean c (v : view) : view_ok c v -> c_info c = IInlineRight ->
  let w := c_w c in let out := info_text c v in
  let pos := length (v_prompt v) + length (v_query v) + 1 in
  let newpos := Nat.max pos (w - length out - 3) in
  let pos1 := if newpos <? w then S newpos else newpos in
  let pos2 := if pos1 <? w - 1 then S pos1 else pos1 in
  put pos (repeat SP (newpos - pos) ++ (if newpos <? w then [SP] else []) ++ (if pos1 <? w - 1 then [SP] else [])
           ++ trim_msg (w - pos2 - 1) out) (pad w (v_prompt v ++ v_query v)) = prompt_row_text c v.
Proof.
  intros [V1 V2] Hi. rewrite Hi in V2. cbn zeta. unfold prompt_row_text, info_shown, inline_right_col. rewrite Hi.
  set (out := info_text c v).
  unfold prompt_text in *. rewrite app_length in *.
  set (pt := v_prompt v ++ v_query v). set (w := c_w c) in *.
  set (pos := length (v_prompt v) + length (v_query v) + 1).
  set (newpos := Nat.max pos (w - length out - 3)).
  assert (Hl : length pt <= pos) by (unfold pt; rewrite app_length; lia).
  assert (Hn : newpos <= w - 3) by (unfold newpos; lia).
  destruct (Nat.ltb_spec newpos w); [|lia].
  destruct (Nat.ltb_spec (S newpos) (w - 1)); [|lia].
  rewrite put_pad by lia.
  change [SP] with (repeat SP 1). rewrite !app_assoc.
  rewrite pad_more by lia. rewrite pad_more by lia. rewrite pad_more by lia.
  replace (pos + (newpos - pos) + 1 + 1) with (S (S newpos)) by lia. reflexivity.
Qed.

Lemma dashes_row w r : length r = w -> 1 <= w -> put 0 (repeat DASH (w - 1) ++ [SP]) r = pad w (repeat DASH (w - 1)).
Proof.
  intros Hr Hw. rewrite (put0_any w) by (rewrite ?app_length, ?repeat_length; cbn; lia).
  change [SP] with (repeat SP 1). apply pad_spaces. rewrite repeat_length. lia.
Qed.

Lemma paint_screen_term txt_of c t : cfg_ok c -> view_ok c (t_view t) -> coherent txt_of (t_matches t) ->
  t_screen (paint c t) = logical_rows c (t_view t).
Proof.
  intros Hc Hv Hco. unfold paint.
  set (t0 := set_draw t (repeat (blank (c_w c)) (c_h c)) (repeat il_none (c_h c))).
  destruct (print_list_at_ok txt_of c Hc t0 (blank_tinv txt_of c Hc t) Hco) as ((L1 & _ & _) & Fr & Vw & Ab).
  set (t1 := print_list_at c t0) in *.
  destruct (st_n c Hc) as [Hsn HW]. destruct Hc as [H4 Hh].
  assert (S1 : t_screen t1 = repeat (blank (c_w c)) (prompt_lines c) ++ repeat (blank (c_w c)) (nheader c)
                              ++ map (list_slot_text c (t_view t)) (seq 0 (max_items c))).
  { rewrite <- (firstn_skipn (list_start c) (t_screen t1)). rewrite Ab. cbn [t0 set_draw t_screen].
    rewrite firstn_repeat, app_assoc, repeat_app_len. f_equal; [f_equal; unfold list_start in *; lia|].
    unfold fresh, list_seg in Fr. rewrite firstn_all2 in Fr by (rewrite skipn_length; lia).
    rewrite Fr, Vw. reflexivity. }
  assert (E1 : t_view t1 = t_view t) by exact Vw.
  clearbody t1. clear Fr Ab L1 Vw. clearbody t0.
  destruct t1 as [p1 q1 m1 tot1 cy1 off1 sel1 scr1 prev1]. cbn [t_screen] in S1. subst scr1.
  unfold t_view in E1. cbn [t_prompt t_query t_matches t_total t_cy t_off t_sel] in E1.
  injection E1 as -> -> -> -> -> -> ->.
  assert (Hb : length (blank (c_w c)) = c_w c) by (unfold blank; apply repeat_length).
  assert (Hh2 : length (repeat (blank (c_w c)) (nheader c)) = length (hdr_logical c))
    by (rewrite repeat_length, hdr_logical_length; reflexivity).
  pose proof (inline_on_clean c (t_view t) Hv) as Hil. pose proof (inline_right_on_clean c (t_view t) Hv) as Hir.
  destruct Hv as [V1 V2]. cbn [t_view v_prompt] in V1.
  assert (HA2 : forall a b post, print_header_from (c_w c) (c_tabstop c) 2 (hdr_logical c) (a :: b :: repeat (blank (c_w c)) (nheader c) ++ post)
                 = a :: b :: map (header_row_text c) (hdr_logical c) ++ post)
    by (intros a b post; exact (header_from_app (c_w c) (c_tabstop c) (hdr_logical c) [a; b] _ post Hh2)).
  assert (HA1 : forall a post, print_header_from (c_w c) (c_tabstop c) 1 (hdr_logical c) (a :: repeat (blank (c_w c)) (nheader c) ++ post)
                 = a :: map (header_row_text c) (hdr_logical c) ++ post)
    by (intros a post; exact (header_from_app (c_w c) (c_tabstop c) (hdr_logical c) [a] _ post Hh2)).
  unfold logical_rows, print_header, print_info, print_prompt.
  unfold t_view in *.
  cbn [set_draw t_screen t_prompt t_query t_matches t_total t_cy t_off t_sel v_prompt v_query] in *.
  unfold prompt_lines in *.
  destruct (c_info c) eqn:Hi; [| |destruct (c_sep c) eqn:Hs|destruct (c_sep c) eqn:Hs];
    cbn [repeat app upd_at Nat.eqb]; rewrite prompt_clean by exact V1.
  - (* default *)
    rewrite HA2. f_equal; [unfold prompt_row_text; now rewrite Hi|f_equal].
    unfold info_row_text. rewrite Hi. destruct (c_sep c); rewrite ?clear0, ?(blank_pad (c_w c)), put0_pad by (cbn; lia); reflexivity.
  - (* inline *)
    rewrite HA1. f_equal. apply (Hil eq_refl).
  - (* hidden, separator *)
    rewrite HA2. f_equal; [unfold prompt_row_text; now rewrite Hi|f_equal].
    unfold info_row_text. rewrite Hi. apply dashes_row; [exact Hb|lia].
  - (* hidden, no separator *)
    rewrite HA1. f_equal. unfold prompt_row_text. now rewrite Hi.
  - (* inline-right, separator *)
    specialize (Hir eq_refl). cbn zeta in Hir. rewrite Hir. rewrite HA2. f_equal. f_equal.
    unfold info_row_text. rewrite Hi. apply dashes_row; [exact Hb|lia].
  - (* inline-right, no separator *)
    specialize (Hir eq_refl). cbn zeta in Hir. rewrite Hir. rewrite HA1. reflexivity.
Qed.

Theorem paint_screen_proof : forall c v, cfg_ok c -> view_ok c v -> view_wf v ->
  t_screen (paint c (term_of_view v)) = logical_rows c v.
Proof.
  intros c v Hc Hv [txt_of Hco].
  assert (Ev : t_view (term_of_view v) = v) by (destruct v; reflexivity).
  rewrite <- Ev at 2. apply (paint_screen_term txt_of); auto; now rewrite Ev.
Qed.

(* ---------- width bound for every row ---------- *)
Lemma In_firstn {A} (x : A) n l : In x (firstn n l) -> In x l.
Proof. revert l; induction n; intros [|y l] H; cbn in *; try contradiction. destruct H; auto. Qed.
Lemma In_skipn {A} (x : A) n l : In x (skipn n l) -> In x l.
Proof. revert l; induction n; intros [|y l]; cbn; auto. Qed.

Lemma physical_In c ls r : In r (physical c ls) -> In r ls.
Proof.
  unfold physical. destruct (c_layout c); intros Hin; auto.
  - now apply in_rev.
  - repeat (apply in_app_or in Hin as [Hin|Hin]).
    + eapply In_skipn, In_firstn, Hin.
    + eapply In_skipn, Hin.
    + apply in_rev in Hin. eapply In_skipn, In_firstn, Hin.
    + apply in_rev in Hin. eapply In_firstn, Hin.
Qed.

Lemma pad_exact w s : length s <= w -> length (pad w s) = w.
Proof. intros H. rewrite pad_length. lia. Qed.

Lemma prompt_row_length c v : cfg_ok c -> view_ok c v -> length (prompt_row_text c v) = c_w c.
Proof.
  intros [H4 _] [V1 V2]. unfold prompt_row_text, info_shown, inline_right_col.
  destruct (c_info c); apply pad_exact; try lia.
  - rewrite !app_length, pad_length. cbn [length].
    pose proof (info_tail_length c (c_w c - (length (prompt_text v) + 1 + 3) - 1) (info_text c v)). lia.
  - set (pos := length (prompt_text v) + 1). set (x := Nat.max pos (c_w c - length (info_text c v) - 3)).
    assert (x <= c_w c - 3) by (unfold x, pos; lia).
    destruct (Nat.ltb_spec x (c_w c)); [|lia]. destruct (Nat.ltb_spec (S x) (c_w c - 1)); [|lia].
    rewrite app_length, pad_length.
    pose proof (trim_msg_length (c_w c - S (S x) - 1) (info_text c v)). lia.
Qed.
Lemma info_row_length c v : cfg_ok c -> length (info_row_text c v) = c_w c.
Proof.
  intros [H4 _]. unfold info_row_text.
  destruct (c_info c); try (unfold blank; now rewrite repeat_length); apply pad_exact; rewrite ?repeat_length; try lia.
  cbn [app length]. pose proof (info_tail_length c (c_w c - 3) (info_text c v)). lia.
Qed.
Lemma header_row_length c h : cfg_ok c -> length (header_row_text c h) = c_w c.
Proof.
  intros [H4 _]. unfold header_row_text. apply pad_exact. cbn [app length].
  pose proof (show_length (c_tabstop c) (c_w c - 3) h). lia.
Qed.
Lemma list_slot_length c v i : cfg_ok c -> length (list_slot_text c v i) = c_w c.
Proof.
  intros [H4 _]. unfold list_slot_text. destruct (nth_error (v_matches v) (v_off v + i)); [|unfold blank; now rewrite repeat_length].
  unfold item_row_text. apply pad_exact. cbn [app length]. pose proof (show_length (c_tabstop c) (c_w c - 3) (snd p)). lia.
Qed.

(* width_bound: no row of the full render is wider (or narrower) than the window *)
Theorem width_bound_proof : forall c v, cfg_ok c -> view_ok c v -> view_wf v ->
  Forall (fun r => length r = c_w c) (render c v).
Proof.
  intros c v Hc Hv Hw. apply Forall_forall. intros r Hin. unfold render in Hin.
  apply physical_In in Hin. rewrite (paint_screen_proof c v Hc Hv Hw) in Hin. unfold logical_rows in Hin.
  destruct Hin as [<-|Hin]; [now apply prompt_row_length|].
  repeat (apply in_app_or in Hin as [Hin|Hin]).
  - destruct (prompt_lines c =? 2); [|contradiction]. destruct Hin as [<-|[]]. now apply info_row_length.
  - apply in_map_iff in Hin as (h & <- & _). now apply header_row_length.
  - apply in_map_iff in Hin as (i & <- & _). now apply list_slot_length.
Qed.

(* ---------- Terminal.move as a map from logical lines to window rows ---------- *)
Definition phys (c : cfg) (y : nat) : nat :=
  match c_layout c with
  | LDefault => c_h c - 1 - y
  | LReverse => y
  | LReverseList =>
      let pl := prompt_lines c in let n0 := length (c_header c) in let n1 := length (c_hlines c) in
      if y <? pl + n0 then c_h c - 1 - y
      else if y <? pl + n0 + n1 then y - (pl + n0)
      else n1 + (y - (pl + n0 + n1))
  end.

Lemma physical_nth c ls y : cfg_ok c -> length ls = c_h c -> y < c_h c ->
  row_at (physical c ls) (phys c y) = nth y ls [].
Proof.
  intros [H4 Hh] Hl Hy. unfold row_at, physical, phys, nheader in *.
  destruct (c_layout c).
  - rewrite rev_nth by lia. f_equal. lia.
  - reflexivity.
  - set (pl := prompt_lines c) in *. set (n0 := length (c_header c)) in *. set (n1 := length (c_hlines c)) in *.
    assert (LA : length (firstn n1 (skipn (pl + n0) ls)) = n1) by (rewrite firstn_length, skipn_length; lia).
    assert (LB : length (skipn (pl + n0 + n1) ls) = c_h c - (pl + n0 + n1)) by (rewrite skipn_length; lia).
    assert (LC : length (rev (firstn n0 (skipn pl ls))) = n0) by (rewrite rev_length, firstn_length, skipn_length; lia).
    assert (LD : length (firstn pl ls) = pl) by (rewrite firstn_length; lia).
    destruct (Nat.ltb_spec y (pl + n0)); [destruct (Nat.ltb_spec y pl)|destruct (Nat.ltb_spec y (pl + n0 + n1))].
    + (* prompt / info lines: bottom block, reversed *)
      rewrite app_nth2 by lia. rewrite app_nth2 by lia. rewrite app_nth2 by lia.
      rewrite rev_nth by lia. rewrite LA, LB, LC, LD. rewrite nth_firstn_lt by lia. f_equal. lia.
    + (* --header lines *)
      rewrite app_nth2 by lia. rewrite app_nth2 by lia. rewrite app_nth1 by lia.
      rewrite rev_nth by (rewrite rev_length in LC; lia). rewrite LA, LB. rewrite rev_length in LC. rewrite LC.
      rewrite nth_firstn_lt by lia. rewrite nth_skipn_add. f_equal. lia.
    + (* --header-lines: own window on top *)
      rewrite app_nth1 by lia. rewrite nth_firstn_lt by lia. rewrite nth_skipn_add. f_equal. lia.
    + (* list *)
      rewrite app_nth2 by lia. rewrite app_nth1 by lia. rewrite LA. rewrite nth_skipn_add. f_equal. lia.
Qed.

Lemma logical_rows_length c v : cfg_ok c -> length (logical_rows c v) = c_h c.
Proof.
  intros [H4 Hh]. unfold logical_rows. cbn [length]. rewrite !app_length, !map_length, seq_length, hdr_logical_length.
  unfold max_items, prompt_lines in *.
  destruct (c_info c); try destruct (c_sep c); cbn [Nat.eqb length]; lia.
Qed.

(* the complete statement: the full render is a faithful screen *)
Theorem render_faithful_proof : forall c v, cfg_ok c -> view_ok c v -> view_wf v -> faithful c v (render c v).
Proof.
  intros c v Hc Hv Hw. pose proof (paint_screen_proof c v Hc Hv Hw) as HS.
  pose proof (logical_rows_length c v Hc) as HL.
  assert (HP : forall y, y < c_h c -> row_at (render c v) (phys c y) = nth y (logical_rows c v) []).
  { intros y Hy. unfold render. rewrite HS. now apply physical_nth. }
  assert (Hpl : 1 <= prompt_lines c) by (unfold prompt_lines; destruct (c_info c); try destruct (c_sep c); lia).
  destruct Hc as [H4 Hh].
  assert (Hnh : nheader c = length (c_header c) + length (c_hlines c)) by reflexivity.
  split; [|split; [|split; [|split]]].
  - unfold render. rewrite HS. unfold physical.
    destruct (c_layout c); rewrite ?rev_length; auto.
    rewrite !app_length, !rev_length, !firstn_length, !skipn_length. lia.
  - (* prompt row *)
    unfold shows_prompt. replace (prompt_row c) with (phys c 0).
    + rewrite HP by lia. reflexivity.
    + unfold phys, prompt_row. destruct (c_layout c); try lia. destruct (Nat.ltb_spec 0 (prompt_lines c + length (c_header c))); lia.
  - (* info row *)
    intros H2. replace (info_row c) with (phys c 1).
    + rewrite HP by lia. unfold logical_rows. rewrite H2. reflexivity.
    + unfold phys, info_row. destruct (c_layout c); try lia. destruct (Nat.ltb_spec 1 (prompt_lines c + length (c_header c))); lia.
  - (* list rows: proved before *)
    apply rows_faithful_proof; [split; auto|exact Hw].
  - (* header rows *)
    assert (Hnth : forall j, j < nheader c ->
              nth (prompt_lines c + j) (logical_rows c v) [] = header_row_text c (nth j (hdr_logical c) [])).
    { intros j Hj. unfold logical_rows.
      change (prompt_row_text c v :: (if prompt_lines c =? 2 then [info_row_text c v] else []) ++ ?x)
        with (([prompt_row_text c v] ++ (if prompt_lines c =? 2 then [info_row_text c v] else [])) ++ x).
      assert (Lp : length ([prompt_row_text c v] ++ (if prompt_lines c =? 2 then [info_row_text c v] else [])) = prompt_lines c).
      { unfold prompt_lines. destruct (c_info c); try destruct (c_sep c); reflexivity. }
      rewrite app_nth2 by lia. rewrite Lp. replace (prompt_lines c + j - prompt_lines c) with j by lia.
      rewrite app_nth1 by (rewrite map_length, hdr_logical_length; lia).
      rewrite (nth_indep _ [] (header_row_text c [])) by (rewrite map_length, hdr_logical_length; lia).
      apply map_nth. }
    split; intros k h Hk.
    + assert (Hlt : k < length (c_header c)) by (apply nth_error_Some; congruence).
      apply nth_error_nth with (d := []) in Hk.
      set (j := match c_layout c with LReverse => k | _ => length (c_header c) - 1 - k end).
      assert (Hj : j < length (c_header c)) by (unfold j; destruct (c_layout c); lia).
      replace (header_row c k) with (phys c (prompt_lines c + j)).
      * rewrite HP by lia. rewrite Hnth by lia. f_equal. unfold hdr_logical, j.
        destruct (c_layout c); rewrite app_nth1 by (rewrite ?rev_length; lia); rewrite ?rev_nth by lia; rewrite <- Hk; f_equal; lia.
      * unfold phys, header_row, j. destruct (c_layout c); try lia.
        destruct (Nat.ltb_spec (prompt_lines c + (length (c_header c) - 1 - k)) (prompt_lines c + length (c_header c))); lia.
    + assert (Hlt : k < length (c_hlines c)) by (apply nth_error_Some; congruence).
      apply nth_error_nth with (d := []) in Hk.
      replace (hline_row c k) with (phys c (prompt_lines c + (length (c_header c) + k))).
      * rewrite HP by lia. rewrite Hnth by lia. f_equal. unfold hdr_logical.
        destruct (c_layout c); rewrite app_nth2 by (rewrite ?rev_length; lia); rewrite ?rev_length; rewrite <- Hk; f_equal; lia.
      * unfold phys, hline_row. destruct (c_layout c); try lia.
        destruct (Nat.ltb_spec (prompt_lines c + (length (c_header c) + k)) (prompt_lines c + length (c_header c))); [lia|].
        destruct (Nat.ltb_spec (prompt_lines c + (length (c_header c) + k)) (prompt_lines c + length (c_header c) + length (c_hlines c))); lia.
Qed.

(* ---------- incremental redraws of the rows above the list ---------- *)
Lemma nth_upd_at_eq {A} y (f : A -> A) l d : y < length l -> nth y (upd_at y f l) d = f (nth y l d).
Proof. revert y; induction l as [|x l IH]; intros [|y] H; cbn in *; try lia; auto. apply IH. lia. Qed.
Lemma nth_upd_at_neq {A} y z (f : A -> A) l d : y <> z -> nth z (upd_at y f l) d = nth z l d.
Proof. revert y z; induction l as [|x l IH]; intros [|y] [|z] H; cbn; auto; try lia. Qed.
Lemma header_from_nth w ts hs : forall line scr z, z < line -> nth z (print_header_from w ts line hs scr) [] = nth z scr [].
Proof.
  induction hs as [|h hs IH]; intros line scr z Hz; cbn [print_header_from]; [reflexivity|].
  rewrite IH by lia. apply nth_upd_at_neq. lia.
Qed.

Definition line0 (t : term) : row := nth 0 (t_screen t) [].
Definition line1 (t : term) : row := nth 1 (t_screen t) [].
(* the header block of the buffer *)
Definition hdr_seg (c : cfg) (t : term) : list row := firstn (nheader c) (skipn (prompt_lines c) (t_screen t)).

Lemma skipn_skipn_add {A} (l : list A) a b : skipn a (skipn b l) = skipn (b + a) l.
Proof. revert l; induction b; intros [|x l]; cbn; auto. now destruct a. Qed.

Lemma screen_pieces c (scr : list row) : cfg_ok c -> length scr = c_h c ->
  scr = firstn (prompt_lines c) scr ++ firstn (nheader c) (skipn (prompt_lines c) scr) ++ skipn (list_start c) scr.
Proof.
  intros [H4 Hh] Hl. rewrite <- (firstn_skipn (prompt_lines c) scr) at 1. f_equal.
  rewrite <- (firstn_skipn (nheader c) (skipn (prompt_lines c) scr)) at 1. f_equal.
  rewrite skipn_skipn_add. reflexivity.
Qed.

Lemma firstn_lines c (scr : list row) : 1 <= length scr -> (prompt_lines c = 2 -> 2 <= length scr) ->
  firstn (prompt_lines c) scr = nth 0 scr [] :: (if prompt_lines c =? 2 then [nth 1 scr []] else []).
Proof.
  intros H1 H2. assert (P : prompt_lines c = 1 \/ prompt_lines c = 2)
    by (unfold prompt_lines; destruct (c_info c); try destruct (c_sep c); auto).
  destruct P as [P|P]; rewrite P in *; destruct scr as [|a [|b r]]; cbn in *; try lia; auto.
Qed.

(* the buffer equals the full render of v when its three parts do *)
Lemma full_from_parts c t v : cfg_ok c -> length (t_screen t) = c_h c ->
  line0 t = prompt_row_text c v -> (prompt_lines c = 2 -> line1 t = info_row_text c v) ->
  hdr_seg c t = map (header_row_text c) (hdr_logical c) ->
  list_seg c t = map (list_slot_text c v) (seq 0 (max_items c)) ->
  t_screen t = logical_rows c v.
Proof.
  intros Hc Hl H0 H1 Hh Hs. pose proof Hc as [H4 Hfit].
  assert (Hpl : 1 <= prompt_lines c) by (unfold prompt_lines; destruct (c_info c); try destruct (c_sep c); lia).
  rewrite (screen_pieces c (t_screen t) Hc Hl). unfold logical_rows.
  rewrite firstn_lines by (unfold nheader in *; lia).
  unfold hdr_seg in Hh. rewrite Hh. unfold list_seg in Hs.
  rewrite firstn_all2 in Hs by (rewrite skipn_length; unfold list_start, max_items in *; lia). rewrite Hs.
  unfold line0, line1 in *. rewrite H0. cbn [app]. f_equal.
  destruct (Nat.eqb_spec (prompt_lines c) 2) as [E|E]; [rewrite (H1 E)|]; reflexivity.
Qed.

Definition Hd (c : cfg) : list row := map (header_row_text c) (hdr_logical c).
Definition above_ok (c : cfg) (t : term) (r0 r1 : row) : Prop :=
  length (t_screen t) = c_h c /\ line0 t = r0 /\ (prompt_lines c = 2 -> line1 t = r1) /\ hdr_seg c t = Hd c.

(* views that agree on everything the rows above the list show *)
Definition same_top (v v' : view) : Prop :=
  v_prompt v = v_prompt v' /\ v_query v = v_query v' /\ v_matches v = v_matches v' /\
  v_total v = v_total v' /\ v_sel v = v_sel v'.
Lemma same_top_info c v v' : same_top v v' -> info_text c v = info_text c v'.
Proof. intros (A & B & C & D & E). unfold info_text. now rewrite C, D, E. Qed.
Lemma same_top_pt v v' : same_top v v' -> prompt_text v = prompt_text v'.
Proof. intros (A & B & _). unfold prompt_text. now rewrite A, B. Qed.
Lemma same_top_prompt_row c v v' : same_top v v' -> prompt_row_text c v = prompt_row_text c v'.
Proof.
  intros S. unfold prompt_row_text, info_shown, inline_right_col.
  now rewrite (same_top_info c v v' S), (same_top_pt v v' S).
Qed.
Lemma same_top_info_row c v v' : same_top v v' -> info_row_text c v = info_row_text c v'.
Proof. intros S. unfold info_row_text. now rewrite (same_top_info c v v' S). Qed.

(* what printPrompt / printInfo do to lines 0 and 1 *)
Definition prompt_f (c : cfg) (v : view) (r : row) : row :=
  put 0 (prompt_item_text (c_w c - 2) (v_prompt v) ++ v_query v) (clear_from (c_w c) 0 r).
Definition info0 (c : cfg) (v : view) (r : row) : row :=
  let w := c_w c in let out := info_text c v in
  let pos := length (v_prompt v) + length (v_query v) + 1 in
  match c_info c with
  | IInline => put pos ([SP; LT; SP] ++ info_tail c (w - (pos + 3) - 1) out) (if c_sep c then r else clear_from w pos r)
  | IInlineRight =>
      let newpos := Nat.max pos (w - length out - 3) in
      let pos1 := if newpos <? w then S newpos else newpos in
      let pos2 := if pos1 <? w - 1 then S pos1 else pos1 in
      put pos (repeat SP (newpos - pos) ++ (if newpos <? w then [SP] else []) ++ (if pos1 <? w - 1 then [SP] else [])
               ++ trim_msg (w - pos2 - 1) out) r
  | _ => r
  end.
Definition info1 (c : cfg) (v : view) (r : row) : row :=
  let w := c_w c in
  match c_info c with
  | IDefault => put 0 ([SP; SP] ++ info_tail c (w - 3) (info_text c v)) (if c_sep c then r else clear_from w 0 r)
  | IHidden | IInlineRight => if c_sep c then put 0 (repeat DASH (w - 1) ++ [SP]) r else r
  | IInline => r
  end.

Section Above.
  Variable c : cfg.
  Hypothesis Hc : cfg_ok c.

  Lemma pl_cases : prompt_lines c = 1 \/ prompt_lines c = 2.
  Proof. unfold prompt_lines; destruct (c_info c); try destruct (c_sep c); auto. Qed.

  Lemma above_redraw t scr r0 r1 : length scr = c_h c -> nth 0 scr [] = r0 -> (prompt_lines c = 2 -> nth 1 scr [] = r1) ->
    skipn (prompt_lines c) scr = skipn (prompt_lines c) (t_screen t) -> hdr_seg c t = Hd c ->
    above_ok c (set_draw t scr (t_prev t)) r0 r1.
  Proof.
    intros Hl H0 H1 Hk Hh. unfold above_ok, line0, line1, hdr_seg in *. cbn [set_draw t_screen].
    repeat split; auto. rewrite <- Hh. f_equal. exact Hk.
  Qed.

  Lemma above_prompt t r0 r1 : above_ok c t r0 r1 -> above_ok c (print_prompt c t) (prompt_f c (t_view t) r0) r1.
  Proof.
    intros (Hl & H0 & H1 & Hh). destruct Hc as [H4 Hfit]. pose proof pl_cases as P.
    assert (L0 : 0 < length (t_screen t)) by (unfold nheader in *; lia).
    unfold print_prompt. apply above_redraw; auto.
    - now rewrite upd_at_length.
    - rewrite nth_upd_at_eq by exact L0. rewrite <- H0. reflexivity.
    - intros E. rewrite nth_upd_at_neq by lia. now apply H1.
    - apply upd_at_skipn. lia.
  Qed.

  Lemma above_info t r0 r1 : above_ok c t r0 r1 ->
    above_ok c (print_info c t) (info0 c (t_view t) r0) (info1 c (t_view t) r1).
  Proof.
    intros (Hl & H0 & H1 & Hh). destruct Hc as [H4 Hfit]. pose proof pl_cases as P.
    assert (L0 : 0 < length (t_screen t)) by (unfold nheader in *; lia).
    assert (L1 : prompt_lines c = 2 -> 1 < length (t_screen t)) by (unfold nheader in *; lia).
    unfold line0, line1 in *. unfold print_info, info0, info1, prompt_lines in *.
    cbn [t_view v_prompt v_query].

    assert (P2 : forall k, k = 2 -> k = 2 -> True) by auto.
    destruct (c_info c) eqn:Hi; [| |destruct (c_sep c) eqn:Hs|destruct (c_sep c) eqn:Hs]; apply above_redraw; auto;
      unfold prompt_lines; rewrite ?Hi, ?Hs.
    - (* default *) now rewrite upd_at_length.
    - rewrite nth_upd_at_neq by lia. exact H0.
    - intros _. rewrite nth_upd_at_eq by (apply L1; reflexivity). rewrite <- (H1 eq_refl). reflexivity.
    - apply upd_at_skipn. lia.
    - (* inline *) now rewrite upd_at_length.
    - rewrite nth_upd_at_eq by exact L0. rewrite <- H0. reflexivity.
    - discriminate.
    - apply upd_at_skipn. lia.
    - (* hidden, separator *) now rewrite upd_at_length.
    - rewrite nth_upd_at_neq by lia. exact H0.
    - intros _. rewrite nth_upd_at_eq by (apply L1; reflexivity). rewrite <- (H1 eq_refl). reflexivity.
    - apply upd_at_skipn. lia.
    - (* hidden, no separator *) discriminate.
    - (* inline-right, separator *) now rewrite !upd_at_length.
    - rewrite nth_upd_at_neq by lia. rewrite nth_upd_at_eq by exact L0. rewrite <- H0. reflexivity.
    - intros _. rewrite nth_upd_at_eq by (rewrite upd_at_length; apply L1; reflexivity).
      rewrite nth_upd_at_neq by lia. rewrite <- (H1 eq_refl). reflexivity.
    - rewrite !upd_at_skipn by lia. reflexivity.
    - (* inline-right, no separator *) now rewrite upd_at_length.
    - rewrite nth_upd_at_eq by exact L0. rewrite <- H0. reflexivity.
    - discriminate.
    - apply upd_at_skipn. lia.
  Qed.

  Lemma above_header t r0 r1 : above_ok c t r0 r1 -> above_ok c (print_header c t) r0 r1.
  Proof.
    intros (Hl & H0 & H1 & Hh). pose proof Hc as [H4 Hfit]. pose proof pl_cases as P.
    unfold above_ok, line0, line1, hdr_seg, print_header in *. cbn [set_draw t_screen].
    assert (Hlen : prompt_lines c + length (hdr_logical c) <= list_start c)
      by (rewrite hdr_logical_length; unfold list_start; lia).
    destruct (header_from_keeps (c_w c) (c_tabstop c) (hdr_logical c) (prompt_lines c) (t_screen t) (list_start c) Hlen) as [E1 E2].
    split; [rewrite E1; exact Hl|]. split; [rewrite header_from_nth by lia; exact H0|].
    split; [intros E; rewrite header_from_nth by lia; auto|].
    rewrite (screen_pieces c (t_screen t) Hc Hl).
    assert (Lp : length (firstn (prompt_lines c) (t_screen t)) = prompt_lines c) by (rewrite firstn_length; unfold nheader in *; lia).
    set (pre := firstn (prompt_lines c) (t_screen t)) in *.
    set (olds := firstn (nheader c) (skipn (prompt_lines c) (t_screen t))) in *.
    assert (Lo : length olds = length (hdr_logical c))
      by (unfold olds; rewrite firstn_length, skipn_length, hdr_logical_length; unfold nheader in *; lia).
    clearbody pre olds. rewrite <- Lp.
    rewrite header_from_app by exact Lo.
    rewrite skipn_len_app by reflexivity. rewrite firstn_len_app by (rewrite map_length; apply hdr_logical_length).
    reflexivity.
  Qed.

  Lemma above_keep t t' r0 r1 : above_ok c t r0 r1 -> length (t_screen t') = c_h c ->
    firstn (list_start c) (t_screen t') = firstn (list_start c) (t_screen t) -> above_ok c t' r0 r1.
  Proof.
    intros (Hl & H0 & H1 & Hh) Hl' Hf. pose proof Hc as [H4 Hfit]. pose proof pl_cases as P.
    assert (N : forall z, z < list_start c -> nth z (t_screen t') [] = nth z (t_screen t) []).
    { intros z Hz. rewrite <- (nth_firstn_lt (t_screen t') (list_start c)) by exact Hz.
      rewrite <- (nth_firstn_lt (t_screen t) (list_start c)) by exact Hz. now rewrite Hf. }
    unfold above_ok, line0, line1, hdr_seg in *. split; [exact Hl'|].
    split; [rewrite N by (unfold list_start; lia); exact H0|].
    split; [intros E; rewrite N by (unfold list_start; lia); auto|].
    rewrite <- Hh. replace (nheader c) with (list_start c - prompt_lines c) by (unfold list_start; lia).
    rewrite <- !skipn_firstn_comm. now rewrite Hf.
  Qed.
End Above.

(* ---------- values of the rows above the list after a print ---------- *)
Definition info_fits (c : cfg) (v : view) : Prop :=
  match c_info c with
  | IDefault => c_sep c = false \/ length (info_text c v) + 1 < c_w c - 3
  | IInline => c_sep c = false \/ length (info_text c v) + 1 < c_w c - (length (prompt_text v) + 1 + 3) - 1
  | _ => True
  end.
Definition inline_style (c : cfg) : Prop := c_info c = IInline \/ c_info c = IInlineRight.
(* a prompt line on which the inline info can be (re)printed: prompt and query in place, blank up to the info column *)
Definition base0 (c : cfg) (v : view) (r : row) : Prop :=
  length r = c_w c /\ firstn (length (prompt_text v) + 1) r = pad (length (prompt_text v) + 1) (prompt_text v) /\
  skipn (c_w c - 1) r = [SP].

Lemma pad_full w s : length s = w -> pad w s = s.
Proof. intros H. unfold pad. rewrite H, Nat.sub_diag. apply app_nil_r. Qed.
Lemma trim_msg_fits maxw s : length s <= maxw -> trim_msg maxw s = s.
Proof. intros H. unfold trim_msg. now apply Nat.leb_le in H as ->. Qed.
Lemma trim_msg_cut_length maxw s : maxw < length s -> length (trim_msg maxw s) = maxw.
Proof.
  intros H. unfold trim_msg. destruct (Nat.leb_spec (length s) maxw); [lia|].
  rewrite app_length, firstn_length, repeat_length. lia.
Qed.
Lemma info_tail_full c maxw out : c_sep c = true -> length out + 1 < maxw -> length (info_tail c maxw out) = maxw + 1.
Proof.
  intros Hs Hf. unfold info_tail. rewrite Hs, trim_msg_fits by lia.
  destruct (Nat.ltb_spec 0 (maxw - length out - 1)); [|lia].
  rewrite app_length. cbn [length]. rewrite app_length, repeat_length. cbn [length]. lia.
Qed.
Lemma skipn_last_pad w y : length y <= w - 1 -> 1 <= w -> skipn (w - 1) (pad w y) = [SP].
Proof.
  intros H Hw. unfold pad. rewrite skipn_app, skipn_repeat, (skipn_all2 y) by lia.
  replace (w - length y - (w - 1 - length y)) with 1 by lia. reflexivity.
Qed.
Lemma firstn_pad_app w a x : firstn (length a) (pad w (a ++ x)) = a.
Proof. unfold pad. rewrite <- app_assoc. now apply firstn_len_app. Qed.

Section Values.
  Variable c : cfg.
  Hypothesis Hc : cfg_ok c.

  Lemma prompt_val v r : view_ok c v -> prompt_f c v r = pad (c_w c) (prompt_text v).
  Proof. intros [V1 _]. unfold prompt_f. now apply prompt_clean. Qed.

  Lemma info1_val v r : length r = c_w c -> info_fits c v -> prompt_lines c = 2 -> info1 c v r = info_row_text c v.
  Proof.
    intros Hr Hf Hp. destruct Hc as [H4 _]. unfold info1, info_row_text, info_fits, prompt_lines in *.
    destruct (c_info c); try discriminate.
    - destruct (c_sep c) eqn:Hs.
      + destruct Hf as [Hf|Hf]; [discriminate|].
        apply put0_any; [exact Hr|]. cbn [app length]. rewrite info_tail_full by auto. lia.
      + rewrite clear0. apply put0_pad. cbn. lia.
    - destruct (c_sep c); try discriminate. apply dashes_row; [exact Hr|lia].
    - destruct (c_sep c); try discriminate. apply dashes_row; [exact Hr|lia].
  Qed.

  Lemma base0_clean v : view_ok c v -> inline_style c -> base0 c v (pad (c_w c) (prompt_text v)).
  Proof.
    intros [V1 V2] Hi. assert (V : length (prompt_text v) + 5 <= c_w c) by (destruct Hi as [E|E]; rewrite E in V2; exact V2).
    unfold base0. split; [apply pad_exact; lia|]. split; [apply firstn_pad; lia|apply skipn_last_pad; lia].
  Qed.

  Lemma base0_shown v v' : view_ok c v' -> inline_style c -> prompt_text v' = prompt_text v ->
    base0 c v (prompt_row_text c v').
  Proof.
    intros Hv Hi Hpt. pose proof (prompt_row_length c v' Hc Hv) as Hlen. destruct Hv as [V1 V2].
    assert (V : length (prompt_text v') + 5 <= c_w c) by (destruct Hi as [E|E]; rewrite E in V2; exact V2).
    unfold base0. split; [exact Hlen|]. rewrite <- Hpt.
    unfold prompt_row_text in *. destruct Hi as [E|E]; rewrite E in *.
    - split.
      + set (pos := length (prompt_text v') + 1).
        replace pos with (length (pad pos (prompt_text v'))) at 1 by (apply pad_exact; lia).
        apply firstn_pad_app.
      + (* the row is exactly W long and ends with the separator's trailing blank or padding *)
        set (pos := length (prompt_text v') + 1) in *.
        set (y := pad pos (prompt_text v') ++ [SP; LT; SP] ++ info_tail c (c_w c - (pos + 3) - 1) (info_text c v')) in *.
        destruct (Nat.le_gt_cases (length y) (c_w c - 1)) as [Hy|Hy]; [apply skipn_last_pad; lia|].
        (* full row: info_tail ends with a blank *)
        assert (Hy' : length y = c_w c) by (rewrite pad_length in Hlen; lia).
        rewrite pad_full by exact Hy'.
        unfold y, info_tail.
        assert (Hpp : length (pad pos (prompt_text v')) = pos) by (apply pad_exact; lia).
        unfold y in Hy'. rewrite !app_length, Hpp in Hy'. cbn [length] in Hy'.
        pose proof (trim_msg_length (c_w c - (pos + 3) - 1) (info_text c v')) as Ht.
        unfold info_tail in Hy'. rewrite app_length in Hy'.
        destruct (0 <? c_w c - (pos + 3) - 1 - length (info_text c v') - 1) eqn:Hfill; [|cbn [length] in Hy'; lia].
        apply Nat.ltb_lt in Hfill.
        rewrite trim_msg_fits in Hy' |- * by lia.
        destruct (c_sep c); [|cbn [length] in Hy'; lia].
        set (f := c_w c - (pos + 3) - 1 - length (info_text c v') - 1) in *.
        replace (pad pos (prompt_text v') ++ [SP; LT; SP] ++ info_text c v' ++ SP :: repeat DASH f ++ [SP])
          with ((pad pos (prompt_text v') ++ [SP; LT; SP] ++ info_text c v' ++ SP :: repeat DASH f) ++ [SP])
          by (rewrite <- ?app_assoc; reflexivity).
        apply skipn_len_app.
        rewrite !app_length, Hpp. cbn [length]. rewrite repeat_length.
        cbn [length] in Hy'. rewrite ?app_length, ?repeat_length in Hy'. cbn [length] in Hy'. lia.
    - unfold info_shown, inline_right_col. rewrite E.
      set (pos := length (prompt_text v') + 1). set (x := Nat.max pos (c_w c - length (info_text c v') - 3)).
      assert (x <= c_w c - 3) by (unfold x, pos; lia).
      destruct (Nat.ltb_spec x (c_w c)); [|lia]. destruct (Nat.ltb_spec (S x) (c_w c - 1)); [|lia].
      pose proof (trim_msg_length (c_w c - S (S x) - 1) (info_text c v')) as Ht.
      split.
      + replace (S (S x)) with (pos + (S (S x) - pos)) by (unfold x; lia).
        rewrite <- pad_more by (unfold pos; lia). rewrite <- app_assoc.
        replace pos with (length (pad pos (prompt_text v'))) at 1 by (apply pad_exact; unfold pos; lia).
        apply firstn_pad_app.
      + apply skipn_last_pad; [|lia]. rewrite app_length, pad_length. unfold x, pos in *. lia.
  Qed.

  Lemma info0_val v r : view_ok c v -> inline_style c -> info_fits c v -> base0 c v r -> info0 c v r = prompt_row_text c v.
  Proof.
    intros [V1 V2] Hi Hf (Hr & Hfst & Hlast). destruct Hc as [H4 _].
    assert (V : length (prompt_text v) + 5 <= c_w c) by (destruct Hi as [E|E]; rewrite E in V2; exact V2).
    assert (Epos : length (v_prompt v) + length (v_query v) + 1 = length (prompt_text v) + 1)
      by (unfold prompt_text; rewrite app_length; lia).
    unfold info0, prompt_row_text, info_fits in *. rewrite Epos.
    set (pos := length (prompt_text v) + 1) in *.
    destruct Hi as [E|E]; rewrite E in *.
    - destruct (c_sep c) eqn:Hs.
      + destruct Hf as [Hf|Hf]; [discriminate|].
        set (s := [SP; LT; SP] ++ info_tail c (c_w c - (pos + 3) - 1) (info_text c v)).
        assert (Ls : length s = c_w c - pos).
        { unfold s. rewrite app_length, info_tail_full by auto. cbn [length]. lia. }
        unfold put. rewrite Hfst. rewrite skipn_all2 by lia. rewrite app_nil_r.
        symmetry. apply pad_full. rewrite app_length, pad_length. lia.
      + unfold clear_from. rewrite Hfst.
        replace (pad pos (prompt_text v) ++ repeat SP (c_w c - pos)) with (pad (c_w c) (pad pos (prompt_text v)))
          by (unfold pad at 1; rewrite pad_length; do 2 f_equal; lia).
        rewrite put_pad by (rewrite ?pad_length; lia). rewrite pad_pad by lia. reflexivity.
    - unfold info_shown, inline_right_col. rewrite E. fold pos.
      set (out := info_text c v). set (newpos := Nat.max pos (c_w c - length out - 3)).
      assert (Hn : newpos <= c_w c - 3) by (unfold newpos, pos; lia).
      destruct (Nat.ltb_spec newpos (c_w c)); [|lia]. destruct (Nat.ltb_spec (S newpos) (c_w c - 1)); [|lia].
      set (shown := trim_msg (c_w c - S (S newpos) - 1) out).
      assert (Lsh : length shown = c_w c - 1 - S (S newpos)).
      { unfold shown. destruct (Nat.le_gt_cases (length out) (c_w c - S (S newpos) - 1)).
        - rewrite trim_msg_fits by lia. unfold newpos in *. lia.
        - rewrite trim_msg_cut_length by lia. lia. }
      set (s := repeat SP (newpos - pos) ++ [SP] ++ [SP] ++ shown).
      assert (Ls : pos + length s = c_w c - 1).
      { unfold s. rewrite !app_length, repeat_length. cbn [length]. unfold newpos in *. lia. }
      unfold put. rewrite Hfst, Ls, Hlast.
      assert (Ebody : pad pos (prompt_text v) ++ s = pad (S (S newpos)) (prompt_text v) ++ shown).
      { unfold s. change [SP] with (repeat SP 1). rewrite !app_assoc.
        rewrite pad_more by (unfold pos; lia). rewrite pad_more by (unfold pos; lia). rewrite pad_more by (unfold pos; lia).
        do 2 f_equal. unfold newpos. lia. }
      rewrite app_assoc, Ebody. symmetry.
      assert (Lb : length (pad (S (S newpos)) (prompt_text v) ++ shown) = c_w c - 1)
        by (rewrite app_length, pad_length, Lsh; unfold pos in *; lia).
      set (body := pad (S (S newpos)) (prompt_text v) ++ shown) in *.
      unfold pad. rewrite Lb. replace (c_w c - (c_w c - 1)) with 1 by lia. reflexivity.
  Qed.
End Values.

(* ---------- incremental = full over the WHOLE buffer ---------- *)
Lemma same_top_refl v : same_top v v. Proof. repeat split. Qed.
Lemma same_top_sym v v' : same_top v v' -> same_top v' v.
Proof. intros (A & B & C & D & E). repeat split; auto. Qed.
Lemma same_top_trans v v' v'' : same_top v v' -> same_top v' v'' -> same_top v v''.
Proof. intros (A & B & C & D & E) (A' & B' & C' & D' & E'). repeat split; congruence. Qed.
Lemma view_ok_same_top c v v' : same_top v v' -> view_ok c v -> view_ok c v'.
Proof. intros S [V1 V2]. pose proof (same_top_pt v v' S) as Hp. destruct S as (A & _). unfold view_ok. now rewrite <- A, <- Hp. Qed.
Lemma info_fits_same_top c v v' : same_top v v' -> info_fits c v -> info_fits c v'.
Proof. intros S. unfold info_fits. now rewrite (same_top_info c v v' S), (same_top_pt v v' S). Qed.

Definition full (c : cfg) (t : term) : Prop := t_screen t = logical_rows c (t_view t).
Definition u_view (t : term) (u : upd) : view :=
  mkView (u_prompt u) (u_query u) (u_matches u) (u_total u) (u_cy u) (t_off t) (u_sel u).
(* a step covers the prompt row / the counter when it asks for them to be redrawn or leaves what they show unchanged *)
Definition covers_prompt (t : term) (u : upd) : Prop :=
  rq_prompt (u_reqs u) = true \/ rq_full (u_reqs u) = true \/ (u_prompt u = t_prompt t /\ u_query u = t_query t).
Definition covers_info (c : cfg) (t : term) (u : upd) : Prop :=
  rq_info (u_reqs u) = true \/ rq_full (u_reqs u) = true \/ info_text c (u_view t u) = info_text c (t_view t).

Section Whole.
  Variable txt_of : nat -> str.
  Variable c : cfg.
  Hypothesis Hc : cfg_ok c.

  Lemma logical_above t v : t_screen t = logical_rows c v ->
    above_ok c t (prompt_row_text c v) (info_row_text c v) /\ list_seg c t = map (list_slot_text c v) (seq 0 (max_items c)).
  Proof.
    intros E. pose proof (logical_rows_length c v Hc) as HL. pose proof (pl_cases c) as P. pose proof Hc as [H4 Hfit].
    unfold above_ok, line0, line1, hdr_seg, list_seg. rewrite E.
    assert (Lp : length (prompt_row_text c v :: (if prompt_lines c =? 2 then [info_row_text c v] else [])) = prompt_lines c)
      by (destruct P as [P|P]; rewrite P; reflexivity).
    assert (LH : length (map (header_row_text c) (hdr_logical c)) = nheader c) by (rewrite map_length; apply hdr_logical_length).
    assert (Sk : skipn (prompt_lines c) (logical_rows c v) =
                 map (header_row_text c) (hdr_logical c) ++ map (list_slot_text c v) (seq 0 (max_items c))).
    { unfold logical_rows.
      change (prompt_row_text c v :: (if prompt_lines c =? 2 then [info_row_text c v] else []) ++
              map (header_row_text c) (hdr_logical c) ++ map (list_slot_text c v) (seq 0 (max_items c)))
        with ((prompt_row_text c v :: (if prompt_lines c =? 2 then [info_row_text c v] else [])) ++
              map (header_row_text c) (hdr_logical c) ++ map (list_slot_text c v) (seq 0 (max_items c))).
      now apply skipn_len_app. }
    repeat split.
    - exact HL.
    - intros E2. unfold logical_rows. rewrite E2. reflexivity.
    - rewrite Sk. now apply firstn_len_app.
    - unfold list_start. rewrite <- skipn_skipn_add, Sk. rewrite skipn_len_app by exact LH.
      apply firstn_all2. rewrite map_length, seq_length. lia.
  Qed.

  Lemma info0_id v r : ~ inline_style c -> info0 c v r = r.
  Proof. intros N. unfold info0, inline_style in *. destruct (c_info c); auto; exfalso; auto. Qed.
  Lemma prompt_row_plain v : ~ inline_style c -> prompt_row_text c v = pad (c_w c) (prompt_text v).
  Proof. intros N. unfold prompt_row_text, inline_style in *. destruct (c_info c); auto; exfalso; auto. Qed.
  Lemma inline_dec : inline_style c \/ ~ inline_style c.
  Proof. unfold inline_style. destruct (c_info c); auto; right; intros [|]; discriminate. Qed.
  Lemma is_inline_true : is_inline c = true <-> inline_style c.
  Proof. unfold is_inline, inline_style. destruct (c_info c); split; auto; try discriminate; intros [|]; discriminate. Qed.

  (* re-printing the info on a line that shows prompt+query (and possibly an older counter) *)
  Lemma line0_after_info v v0 r : view_ok c v -> info_fits c v ->
    (r = pad (c_w c) (prompt_text v) \/ (r = prompt_row_text c v0 /\ view_ok c v0 /\ prompt_text v0 = prompt_text v)) ->
    inline_style c -> info0 c v r = prompt_row_text c v.
  Proof.
    intros Hv Hf Hr Hi. apply info0_val; auto.
    destruct Hr as [->|(-> & Hv0 & Hp)]; [now apply base0_clean|now apply base0_shown].
  Qed.

  Lemma full_info t : tinv txt_of c t -> full c t -> view_ok c (t_view t) -> info_fits c (t_view t) ->
    tinv txt_of c (print_info c t) /\ full c (print_info c t).
  Proof.
    intros Ht Hf Hv Hfit. destruct (logical_above t _ Hf) as [Ha Hs].
    destruct (print_info_ok txt_of c t Ht) as [Ht' Hl].
    split; [exact Ht'|]. pose proof (above_info c Hc t _ _ Ha) as (L & A0 & A1 & Ah).
    unfold full. change (t_view (print_info c t)) with (t_view t).
    apply full_from_parts; auto.
    - rewrite A0. destruct inline_dec as [Hi|Hn].
      + eapply line0_after_info; eauto.
      + now apply info0_id.
    - intros E. rewrite (A1 E). apply info1_val; auto. now apply info_row_length.
    - now rewrite Hl.
  Qed.

  Lemma print_list_view t : same_top (t_view (print_list c t)) (t_view t).
  Proof. unfold print_list. destruct (constrain _ _ _ _ _). repeat split. Qed.
  Lemma full_redraw_view t : same_top (t_view (full_redraw c t)) (t_view t).
  Proof. unfold full_redraw. destruct (constrain _ _ _ _ _). repeat split. Qed.

  Lemma full_redraw_full t : coherent txt_of (t_matches t) -> view_ok c (t_view t) -> full c (full_redraw c t).
  Proof.
    intros Hm Hv. pose proof (full_redraw_view t) as S. unfold full, full_redraw in *.
    destruct (constrain _ _ _ _ _) as [cy off].
    pose proof (paint_screen_term txt_of c (set_scroll t cy off) Hc) as HP.
    destruct (paint_ok txt_of c Hc (set_scroll t cy off) Hm) as (_ & _ & Vw).
    rewrite Vw. apply HP; auto.
  Qed.

  Lemma step_full t u : tinv txt_of c t -> fresh c t -> full c t ->
    coherent txt_of (u_matches u) -> covers_list t u -> covers_prompt t u -> covers_info c t u ->
    view_ok c (t_view t) -> view_ok c (u_view t u) -> info_fits c (u_view t u) ->
    full c (step c t u).
  Proof.
    intros Ht Hfr Hf Hm Hcl Hcp Hci Hv0 Hv Hfit.
    destruct (step_ok txt_of c Hc t u Ht Hfr Hm Hcl) as (T' & F' & Co').
    unfold step, handle in *.
    set (t1 := mkTerm (u_prompt u) (u_query u) (u_matches u) (u_total u) (u_cy u) (t_off t) (u_sel u) (t_screen t) (t_prev t)) in *.
    assert (V1 : t_view t1 = u_view t u) by reflexivity.
    assert (T1 : tinv txt_of c t1) by exact Ht.
    assert (M1 : coherent txt_of (t_matches t1)) by exact Hm.
    destruct (logical_above t _ Hf) as [Ha0 _].
    assert (Ha1 : above_ok c t1 (prompt_row_text c (t_view t)) (info_row_text c (t_view t))) by exact Ha0.
    (* stage 1: prompt *)
    set (t2 := if rq_prompt (u_reqs u) then print_prompt c t1 else t1) in *.
    assert (S2 : tinv txt_of c t2 /\ coherent txt_of (t_matches t2) /\ t_view t2 = u_view t u /\
                 above_ok c t2 (if rq_prompt (u_reqs u) then pad (c_w c) (prompt_text (u_view t u)) else prompt_row_text c (t_view t))
                               (info_row_text c (t_view t))).
    { unfold t2. destruct (rq_prompt (u_reqs u)).
      - destruct (print_prompt_ok txt_of c t1 T1) as [A _].
        split; [exact A|]. split; [exact M1|]. split; [reflexivity|].
        rewrite <- (prompt_val c (u_view t u) (prompt_row_text c (t_view t)) Hv). rewrite <- V1. now apply above_prompt.
      - split; [exact T1|]. split; [exact M1|]. split; [reflexivity|exact Ha1]. }
    destruct S2 as (T2 & M2 & V2 & Ha2).
    (* stage 2: header *)
    set (t3 := if rq_header (u_reqs u) then print_header c t2 else t2) in *.
    assert (S3 : tinv txt_of c t3 /\ coherent txt_of (t_matches t3) /\ t_view t3 = u_view t u /\
                 above_ok c t3 (if rq_prompt (u_reqs u) then pad (c_w c) (prompt_text (u_view t u)) else prompt_row_text c (t_view t))
                               (info_row_text c (t_view t))).
    { unfold t3. destruct (rq_header (u_reqs u)); [|auto].
      destruct (print_header_ok txt_of c t2 T2) as [A _].
      split; [exact A|]. split; [exact M2|]. split; [exact V2|]. now apply above_header. }
    destruct S3 as (T3 & M3 & V3 & Ha3).
    (* stage 3: list *)
    set (t4 := if rq_list (u_reqs u) then print_list c t3 else t3) in *.
    assert (S4 : tinv txt_of c t4 /\ coherent txt_of (t_matches t4) /\ same_top (t_view t4) (u_view t u) /\
                 above_ok c t4 (if rq_prompt (u_reqs u) then pad (c_w c) (prompt_text (u_view t u)) else prompt_row_text c (t_view t))
                               (info_row_text c (t_view t))).
    { unfold t4. destruct (rq_list (u_reqs u)).
      - destruct (print_list_ok txt_of c Hc t3 T3 M3) as (A & _ & Mm & _).
        split; [exact A|]. split; [now rewrite Mm|]. split; [rewrite <- V3; apply print_list_view|].
        eapply above_keep; [exact Hc|exact Ha3|apply A|].
        unfold print_list. destruct (constrain _ _ _ _ _) as [cy off].
        destruct (print_list_at_ok txt_of c Hc (set_scroll t3 cy off) T3 M3) as (_ & _ & _ & Ab). exact Ab.
      - split; [exact T3|]. split; [exact M3|]. split; [rewrite V3; apply same_top_refl|exact Ha3]. }
    destruct S4 as (T4 & M4 & V4 & Ha4).
    assert (Hv4 : view_ok c (t_view t4)) by (eapply view_ok_same_top; [apply same_top_sym; exact V4|exact Hv]).
    assert (Hf4 : info_fits c (t_view t4)) by (eapply info_fits_same_top; [apply same_top_sym; exact V4|exact Hfit]).
    destruct (rq_full (u_reqs u)) eqn:RF.
    - (* full redraw, possibly followed by the info *)
      pose proof (full_redraw_full t4 M4 Hv4) as F5. pose proof (full_redraw_view t4) as V5.
      destruct (full_redraw_ok txt_of c Hc t4 M4) as (T5 & _ & _ & _).
      destruct (rq_info (u_reqs u) || rq_prompt (u_reqs u) && is_inline c); [|exact F5].
      apply full_info; auto.
      + eapply view_ok_same_top; [apply same_top_sym; exact V5|exact Hv4].
      + eapply info_fits_same_top; [apply same_top_sym; exact V5|exact Hf4].
    - (* incremental *)
      destruct (rq_info (u_reqs u) || rq_prompt (u_reqs u) && is_inline c) eqn:FL.
      + (* info printed *)
        pose proof (above_info c Hc t4 _ _ Ha4) as (L & A0 & A1 & Ah).
        unfold full. change (t_view (print_info c t4)) with (t_view t4).
        apply full_from_parts; auto.
        * rewrite A0. destruct inline_dec as [Hi|Hn].
          -- apply (line0_after_info (t_view t4) (t_view t)); auto.
             destruct (rq_prompt (u_reqs u)) eqn:RP.
             ++ left. now rewrite (same_top_pt _ _ V4).
             ++ right. split; [reflexivity|]. split; [exact Hv0|].
                destruct Hcp as [X|[X|(E1 & E2)]]; try congruence.
                rewrite (same_top_pt _ _ V4). unfold prompt_text, u_view. cbn [v_prompt v_query t_view]. congruence.
          -- rewrite info0_id by exact Hn. rewrite !prompt_row_plain by exact Hn.
             destruct (rq_prompt (u_reqs u)) eqn:RP.
             ++ now rewrite (same_top_pt _ _ V4).
             ++ destruct Hcp as [X|[X|(E1 & E2)]]; try congruence.
                rewrite (same_top_pt _ _ V4). unfold prompt_text, u_view. cbn [v_prompt v_query t_view]. congruence.
        * intros E. rewrite (A1 E). apply info1_val; auto. now apply info_row_length.
      + (* nothing printed on the info: the counter text is unchanged *)
        apply orb_false_iff in FL as [RI FL2].
        assert (Hinfo : info_text c (t_view t4) = info_text c (t_view t)).
        { rewrite (same_top_info c _ _ V4). destruct Hci as [X|[X|X]]; congruence. }
        destruct Ha4 as (L & A0 & A1 & Ah).
        unfold full. apply full_from_parts; auto.
        * rewrite A0. destruct (rq_prompt (u_reqs u)) eqn:RP.
          -- (* prompt repainted without the info: only for the styles that keep it elsewhere *)
             assert (Hn : ~ inline_style c) by (intros Hi; apply is_inline_true in Hi; rewrite Hi in FL2; discriminate).
             rewrite prompt_row_plain by exact Hn. now rewrite (same_top_pt _ _ V4).
          -- assert (Hp : prompt_text (t_view t4) = prompt_text (t_view t)).
             { destruct Hcp as [X|[X|(E1 & E2)]]; try congruence.
               rewrite (same_top_pt _ _ V4). unfold prompt_text, u_view. cbn [v_prompt v_query t_view]. congruence. }
             unfold prompt_row_text, info_shown, inline_right_col. now rewrite Hinfo, Hp.
        * intros E. rewrite (A1 E). unfold info_row_text. now rewrite Hinfo.
  Qed.

  Lemma handle_view rq t : same_top (t_view (handle c rq t)) (t_view t).
  Proof.
    unfold handle.
    set (t2 := if rq_prompt rq then print_prompt c t else t).
    assert (S2 : same_top (t_view t2) (t_view t)) by (unfold t2; destruct (rq_prompt rq); apply same_top_refl).
    set (t3 := if rq_header rq then print_header c t2 else t2).
    assert (S3 : same_top (t_view t3) (t_view t2)) by (unfold t3; destruct (rq_header rq); apply same_top_refl).
    set (t4 := if rq_list rq then print_list c t3 else t3).
    assert (S4 : same_top (t_view t4) (t_view t3)) by (unfold t4; destruct (rq_list rq); [apply print_list_view|apply same_top_refl]).
    set (t5 := if rq_full rq then full_redraw c t4 else t4).
    assert (S5 : same_top (t_view t5) (t_view t4)) by (unfold t5; destruct (rq_full rq); [apply full_redraw_view|apply same_top_refl]).
    assert (S6 : same_top (t_view (if rq_info rq || rq_prompt rq && is_inline c then print_info c t5 else t5)) (t_view t5))
      by (destruct (rq_info rq || rq_prompt rq && is_inline c); apply same_top_refl).
    eapply same_top_trans; [exact S6|]. eapply same_top_trans; [exact S5|]. eapply same_top_trans; [exact S4|].
    eapply same_top_trans; [exact S3|exact S2].
  Qed.

  Lemma step_view t u : same_top (t_view (step c t u)) (u_view t u).
  Proof. unfold step. eapply same_top_trans; [apply handle_view|apply same_top_refl]. Qed.

  (* a history whose every step covers what it changes, keeps the query inside the prompt row and the counter
     inside its row (info_fits: with a separator the text must leave room for it, see incremental_eq_full_refuted) *)
  Fixpoint hist_ok_full (t : term) (us : list upd) : Prop :=
    match us with
    | [] => True
    | u :: r => coherent txt_of (u_matches u) /\ covers_list t u /\ covers_prompt t u /\ covers_info c t u /\
                view_ok c (u_view t u) /\ info_fits c (u_view t u) /\ hist_ok_full (step c t u) r
    end.

  Lemma run_full us : forall t, tinv txt_of c t -> fresh c t -> full c t -> coherent txt_of (t_matches t) ->
    view_ok c (t_view t) -> hist_ok_full t us ->
    full c (run c t us) /\ coherent txt_of (t_matches (run c t us)) /\ view_ok c (t_view (run c t us)).
  Proof.
    induction us as [|u r IH]; intros t Ht Hfr Hf Hco Hv Hh; cbn [run fold_left]; [auto|].
    destruct Hh as (Hm & Hcl & Hcp & Hci & Hvu & Hfu & Hr).
    destruct (step_ok txt_of c Hc t u Ht Hfr Hm Hcl) as (T' & F' & Co').
    pose proof (step_full t u Ht Hfr Hf Hm Hcl Hcp Hci Hv Hvu Hfu) as Fu.
    apply IH; auto. eapply view_ok_same_top; [apply same_top_sym, step_view|exact Hvu].
  Qed.

  Theorem incremental_eq_full_proof v0 us : coherent txt_of (v_matches v0) -> view_ok c v0 ->
    hist_ok_full (start c v0) us ->
    t_screen (run c (start c v0) us) = t_screen (paint c (run c (start c v0) us)).
  Proof.
    intros Hm Hv Hh. unfold start in *.
    destruct (full_redraw_ok txt_of c Hc (term_of_view v0) Hm) as (T & F & M & _).
    assert (Hv0 : view_ok c (t_view (term_of_view v0))) by exact Hv.
    pose proof (full_redraw_full (term_of_view v0) Hm Hv0) as Fl.
    assert (Co : coherent txt_of (t_matches (full_redraw c (term_of_view v0)))) by (rewrite M; exact Hm).
    assert (Hv1 : view_ok c (t_view (full_redraw c (term_of_view v0))))
      by (eapply view_ok_same_top; [apply same_top_sym, full_redraw_view|exact Hv0]).
    destruct (run_full us _ T F Fl Co Hv1 Hh) as (Ff & Cf & Vf).
    rewrite (paint_screen_term txt_of c _ Hc Vf Cf). exact Ff.
  Qed.
End Whole.

(* show: what a row shows of a text that may contain tabs *)
Theorem show_shape_proof : forall ts maxw s,
  length (show ts maxw s) <= maxw /\
  (length (expand ts s) <= maxw -> show ts maxw s = expand ts s) /\
  (Forall (fun x => x <> TAB) s -> show ts maxw s = trunc maxw s).
Proof.
  intros. split; [apply show_length|]. split; [|apply show_notab].
  intros H. unfold show. now apply Nat.leb_le in H as ->.
Qed.
