(* FuzzyMatchV2: phases 1-2, no-match paths, single-character path, V1 fallback.
   Property-level statements (name_proof) for Properties/C02.v / C03.v. *)
From Fzf Require Import Prelude AlgoSpec AlgoModel V2Facts V2ScanBasics V2ScanPhase2.
Open Scope Z_scope.

Section V2Scan.
Variable co : char_ops.
Variable sc : scheme.

(* ---------- the control-flow skeleton of fuzzy_v2 ---------- *)

Lemma fuzzy_v2_cases cs nm fwd ib text p0 pat' wp cap r :
  let pat := p0 :: pat' in
  fuzzy_v2 co sc cs nm fwd ib text pat wp cap = Ok r ->
  let M := length pat in let N := length text in
  let fb := match cap with Some cap => cap <? Z.of_nat N * Z.of_nat M | None => false end in
  ((N < M)%nat /\ r = NoMatch) \/
  ((M <= N)%nat /\ fb = true /\ fuzzy_v1 co sc cs nm fwd ib text pat wp = Ok r) \/
  ((M <= N)%nat /\ fb = false /\ ascii_fuzzy_index ib text pat cs = Ok None /\ r = NoMatch) \/
  ((M <= N)%nat /\ fb = false /\ exists lo hi,
     ascii_fuzzy_index ib text pat cs = Ok (Some (lo, hi)) /\ (lo <= hi <= N)%nat /\
     let w := firstn (hi - lo) (skipn lo text) in
     let st := phase2 co sc cs nm fwd (Nat.eqb M 1) w O p0 pat (last pat 0) 0 (s_init sc) false p2_init in
     (p2_pidx st <> M /\ r = NoMatch) \/
     (p2_pidx st = M /\ M = 1%nat /\
      r = Match (lo + p2_maxPos st) (S (lo + p2_maxPos st)) (p2_maxScore st)
                (if wp then Some [(lo + p2_maxPos st)%nat] else None)) \/
     (p2_pidx st = M /\ M <> 1%nat /\ exists s e score pos, r = Match s e score pos)).
Proof.
  intros pat; subst pat; intros H. unfold fuzzy_v2 in H. cbv beta iota in H.
  set (pat := p0 :: pat') in *. intros M N fb.
  change (length pat) with M in H. change (length text) with N in H.
  destruct (Nat.ltb_spec N M) as [Hlt|Hge].
  { left. split; [exact Hlt|]. injection H as H. symmetry. exact H. }
  right.
  change (match cap with Some cap0 => cap0 <? Z.of_nat N * Z.of_nat M | None => false end) with fb in H.
  destruct fb eqn:Efb.
  { left. auto. }
  right.
  destruct (ascii_fuzzy_index ib text pat cs) as [[[lo hi]|]|e] eqn:Ea; cbn [bind] in H; [|left|discriminate].
  2:{ repeat split; auto. injection H as H. symmetry. exact H. }
  right. split; [exact Hge|]. split; [reflexivity|]. exists lo, hi. split; [reflexivity|].
  destruct (Nat.ltb_spec hi lo) as [H1|H1]; cbn [orb] in H; [discriminate|].
  destruct (Nat.ltb_spec N hi) as [H2|H2]; [discriminate|].
  split; [lia|].
  intros w st. fold w in H. change (mkP2 [] [] [] [] [] O O 0 O) with p2_init in H. fold st in H.
  destruct (Nat.eqb_spec (p2_pidx st) M) as [Hp|Hp]; cbn [negb] in H.
  2:{ left. split; [exact Hp|]. injection H as H. symmetry. exact H. }
  right.
  destruct (Nat.eqb_spec M 1) as [HM|HM].
  { left. split; [exact Hp|]. split; [exact HM|]. injection H as H. symmetry. exact H. }
  right. split; [exact Hp|]. split; [exact HM|].
  apply bind_ok in H. destruct H as (f0n & _ & H).
  match type of H with (if ?b then _ else _) = _ => destruct b; [discriminate|] end.
  match type of H with (if ?b then _ else _) = _ => destruct b; [discriminate|] end.
  apply bind_ok in H. destruct H as (Hm & _ & H).
  apply bind_ok in H. destruct H as (Cm & _ & H).
  apply bind_ok in H. destruct H as ([[[Hm' Cm'] ms] mp] & _ & H).
  match type of H with (if ?b then _ else _) = _ => destruct b; [discriminate|] end.
  destruct wp.
  - apply bind_ok in H. destruct H as (pj & _ & H). injection H as H. eauto.
  - injection H as H. eauto.
Qed.


(* ---------- item 1: the interface record, and when the scan finds all characters ---------- *)

Theorem phase2_ok_proof : forall cs nm fwd w pat p0 pat',
  (2 <= length pat)%nat -> pat = p0 :: pat' ->
  let st := phase2 co sc cs nm fwd false w O p0 pat (last pat 0) 0 (s_init sc) false
                   (mkP2 [] [] [] [] [] O O 0 O) in
  p2_pidx st = length pat -> p2_ok co sc cs nm w pat st.
Proof. intros cs nm fwd w pat p0 pat' _ Hpat. exact (phase2_ok_gen co sc cs nm fwd w pat p0 pat' Hpat). Qed.

Theorem phase2_max_init_proof : forall cs nm fwd w pat p0,
  let st := phase2 co sc cs nm fwd false w O p0 pat (last pat 0) 0 (s_init sc) false
                   (mkP2 [] [] [] [] [] O O 0 O) in
  p2_maxScore st = 0 /\ p2_maxPos st = O.
Proof. intros cs nm fwd w pat p0. exact (phase2_max_init co sc cs nm fwd w p0 pat (last pat 0) 0 (s_init sc) false _). Qed.

Theorem fold_v2_snd_proof : forall cs nm c, (forall c, c < 192 -> co_norm co c = c) ->
  snd (fold_v2 co sc cs nm c) = fold co cs nm c.
Proof. intros. apply fold_v2_snd. assumption. Qed.

Theorem fold_v2_fst_proof : forall cs nm c, fst (fold_v2 co sc cs nm c) = class_of co sc c.
Proof. intros. apply fold_v2_fst. Qed.

(* M >= 2 form, exactly the state used by p2_ok *)
Theorem phase2_pidx_iff_proof : forall cs nm fwd w pat p0 pat',
  (forall c, c < 192 -> co_norm co c = c) -> pat = p0 :: pat' ->
  let st := phase2 co sc cs nm fwd false w O p0 pat (last pat 0) 0 (s_init sc) false
                   (mkP2 [] [] [] [] [] O O 0 O) in
  (p2_pidx st = length pat <-> subseq_plain (map (fun c => snd (fold_v2 co sc cs nm c)) w) pat = true) /\
  (p2_pidx st = length pat <-> subseq_b co cs nm w pat = true).
Proof.
  intros cs nm fwd w pat p0 pat' Hn Hpat st.
  assert (H : p2_pidx st = length pat <-> subseq_plain (map (fun c => snd (fold_v2 co sc cs nm c)) w) pat = true)
    by exact (phase2_pidx_plain co sc cs nm fwd w pat p0 pat' Hpat).
  split; [exact H|]. rewrite H, subseq_b_plain, (map_fold_v2_snd co sc cs nm w Hn). tauto.
Qed.

(* the scan as fuzzy_v2 runs it (flag M = 1 included) *)
Lemma scan_pidx_iff cs nm fwd w p0 pat' :
  (forall c, c < 192 -> co_norm co c = c) ->
  let pat := p0 :: pat' in
  let st := phase2 co sc cs nm fwd (Nat.eqb (length pat) 1) w O p0 pat (last pat 0) 0 (s_init sc) false p2_init in
  p2_pidx st = length pat <-> subseq_b co cs nm w pat = true.
Proof.
  intros Hn pat st. subst st.
  rewrite subseq_b_plain, <- (map_fold_v2_snd co sc cs nm w Hn).
  destruct (Nat.eqb_spec (length pat) 1) as [HM|HM].
  - destruct pat' as [|q pat']; [|cbn in HM; lia]. subst pat. cbn [last length].
    rewrite subseq_plain_single.
    rewrite (phase2_single_pidx co sc cs nm fwd p0 w O [p0] 0 (s_init sc) false p2_init)
      by (left; split; reflexivity).
    unfold p2_init. cbn [p2_pidx]. split; [intros [H|H]; [discriminate|exact H]|auto].
  - apply (phase2_pidx_plain co sc cs nm fwd w pat p0 pat' eq_refl).
Qed.

(* ---------- item 5: empty pattern, V1 fallback ---------- *)

Theorem v2_empty_pattern_proof : forall cs nm fwd ib text wp cap,
  fuzzy_v2 co sc cs nm fwd ib text [] wp cap = Ok (Match O O 0 (if wp then Some [] else None)).
Proof. reflexivity. Qed.

Theorem v2_fallback_proof : forall cs nm fwd ib text pat wp cap,
  pat <> [] -> (length pat <= length text)%nat ->
  cap < Z.of_nat (length text) * Z.of_nat (length pat) ->
  fuzzy_v2 co sc cs nm fwd ib text pat wp (Some cap) = fuzzy_v1 co sc cs nm fwd ib text pat wp.
Proof.
  intros cs nm fwd ib text pat wp cap Hne Hlen Hcap. destruct pat as [|p0 pat']; [contradiction|].
  unfold fuzzy_v2.
  destruct (Nat.ltb_spec (length text) (length (p0 :: pat'))) as [H|H]; [lia|].
  apply Z.ltb_lt in Hcap. rewrite Hcap. reflexivity.
Qed.

(* with a non-negative capacity the pattern cannot be empty *)
Corollary v2_fallback_nonneg_proof : forall cs nm fwd ib text pat wp cap,
  0 <= cap -> (length pat <= length text)%nat ->
  cap < Z.of_nat (length text) * Z.of_nat (length pat) ->
  fuzzy_v2 co sc cs nm fwd ib text pat wp (Some cap) = fuzzy_v1 co sc cs nm fwd ib text pat wp.
Proof.
  intros cs nm fwd ib text pat wp cap H0 Hlen Hcap. apply v2_fallback_proof; try assumption.
  intros ->. cbn [length] in Hcap. lia.
Qed.

(* ---------- items 2, 3: no-match completeness, match implies a witness exists ---------- *)

(* pointwise forms: the facts about V1 and the prefilter are only needed at this very input *)
Lemma v2_complete_pointwise cs nm fwd ib text pat wp cap :
  (forall c, c < 192 -> co_norm co c = c) ->
  (fuzzy_v1 co sc cs nm fwd ib text pat wp = Ok NoMatch -> subseq_b co cs nm text pat = false) ->
  (ascii_fuzzy_index ib text pat cs = Ok None -> subseq_b co cs nm text pat = false) ->
  (forall lo hi, ascii_fuzzy_index ib text pat cs = Ok (Some (lo, hi)) ->
     subseq_b co cs nm text pat = true -> subseq_b co cs nm (firstn (hi - lo) (skipn lo text)) pat = true) ->
  fuzzy_v2 co sc cs nm fwd ib text pat wp cap = Ok NoMatch ->
  subseq_b co cs nm text pat = false.
Proof.
  intros Hn Hv1 Hnone Hwin H. destruct pat as [|p0 pat']; [discriminate|].
  pose proof (fuzzy_v2_cases cs nm fwd ib text p0 pat' wp cap NoMatch H) as HC. cbv zeta in HC.
  destruct HC as [(Hlt & _)|[(_ & _ & HV)|[(_ & _ & Ha & _)|(_ & _ & lo & hi & Ha & Hb & HC)]]].
  - destruct (subseq_b co cs nm text (p0 :: pat')) eqn:E; [|reflexivity].
    apply subseq_b_length in E. lia.
  - apply Hv1, HV.
  - apply Hnone, Ha.
  - destruct HC as [(Hp & _)|[(_ & _ & Hr)|(_ & _ & s & e & score & pos & Hr)]]; try discriminate.
    destruct (subseq_b co cs nm text (p0 :: pat')) eqn:E; [|reflexivity].
    exfalso. apply Hp. apply (scan_pidx_iff cs nm fwd _ p0 pat' Hn). apply (Hwin lo hi Ha eq_refl).
Qed.

Lemma v2_match_subseq_pointwise cs nm fwd ib text pat wp cap s e score pos :
  (forall c, c < 192 -> co_norm co c = c) ->
  (fuzzy_v1 co sc cs nm fwd ib text pat wp = Ok (Match s e score pos) -> subseq_b co cs nm text pat = true) ->
  fuzzy_v2 co sc cs nm fwd ib text pat wp cap = Ok (Match s e score pos) ->
  subseq_b co cs nm text pat = true.
Proof.
  intros Hn Hv1 H. destruct pat as [|p0 pat']; [destruct text; reflexivity|].
  pose proof (fuzzy_v2_cases cs nm fwd ib text p0 pat' wp cap _ H) as HC. cbv zeta in HC.
  destruct HC as [(_ & Hr)|[(_ & _ & HV)|[(_ & _ & _ & Hr)|(_ & _ & lo & hi & Ha & Hb & HC)]]]; try discriminate.
  - apply Hv1, HV.
  - assert (Hp : p2_pidx (phase2 co sc cs nm fwd (Nat.eqb (length (p0 :: pat')) 1)
                    (firstn (hi - lo) (skipn lo text)) O p0 (p0 :: pat') (last (p0 :: pat') 0) 0 (s_init sc) false p2_init)
                 = length (p0 :: pat')).
    { destruct HC as [(_ & Hr)|[(Hp & _)|(Hp & _)]]; [discriminate|exact Hp|exact Hp]. }
    apply (scan_pidx_iff cs nm fwd _ p0 pat' Hn) in Hp.
    eapply subseq_b_window. exact Hp.
Qed.

(* ---------- item 4: single-character pattern ---------- *)

(* the bonus the window scan uses at text position s: previous class is the scheme's initial class at
   the window start, the class of the previous text character elsewhere *)
Definition window_bonus (text : list Z) (lo s : nat) : Z :=
  bonus_for sc (if Nat.eqb s lo then s_init sc else class_before co sc text s) (class_of co sc (nth s text 0)).

Lemma window_bonus_eq text lo s : (s < length text)%nat -> (lo < s)%nat \/ s = O ->
  window_bonus text lo s = bonus_at co sc text s.
Proof.
  intros Hs Hc. unfold window_bonus, bonus_at. rewrite (nth_error_nth' text 0 Hs).
  destruct (Nat.eqb_spec s lo) as [E|E]; [|reflexivity].
  destruct Hc as [Hc|Hc]; [lia|]. subst s. reflexivity.
Qed.

Lemma Bl_window cs nm text lo hi j : (lo <= hi <= length text)%nat -> (j < hi - lo)%nat ->
  nth j (Bl co sc cs nm (s_init sc) (firstn (hi - lo) (skipn lo text))) 0 = window_bonus text lo (lo + j).
Proof.
  intros Hb Hj. set (w := firstn (hi - lo) (skipn lo text)).
  assert (Lw : length w = (hi - lo)%nat) by (apply window_length; exact Hb).
  assert (Hnth : forall k, (k < hi - lo)%nat -> nth k w 0 = nth (lo + k) text 0)
    by (intros k Hk; apply window_nth; exact Hk).
  rewrite Bl_nth by lia. unfold window_bonus. rewrite !fold_v2_fst, Hnth by lia. f_equal.
  destruct j as [|j].
  - rewrite Nat.add_0_r, Nat.eqb_refl. reflexivity.
  - destruct (Nat.eqb_spec (lo + S j) lo) as [E|_]; [lia|].
    rewrite fold_v2_fst, Hnth by lia. replace (lo + S j)%nat with (S (lo + j)) by lia.
    unfold class_before. rewrite (nth_error_nth' text 0) by lia. reflexivity.
Qed.

Theorem v2_single_sound_proof : forall cs nm fwd ib text p wp cap s e score pos,
  scheme_nonneg sc -> (forall c, c < 192 -> co_norm co c = c) ->
  (forall c, cap = Some c -> Z.of_nat (length text) <= c) ->       (* no V1 fallback *)
  fuzzy_v2 co sc cs nm fwd ib text [p] wp cap = Ok (Match s e score pos) ->
  e = S s /\ (s < length text)%nat /\ fold co cs nm (nth s text 0) = p /\
  pos = (if wp then Some [s] else None) /\ (forall ps, pos = Some ps -> ps = [s]) /\
  exists lo hi, ascii_fuzzy_index ib text [p] cs = Ok (Some (lo, hi)) /\ (lo <= s < hi)%nat /\ (hi <= length text)%nat /\
    score = scoreMatch + 2 * window_bonus text lo s /\
    ((lo < s)%nat \/ s = O -> score = scoreMatch + 2 * bonus_at co sc text s).
Proof.
  intros cs nm fwd ib text p wp cap s e score pos Hsc Hn Hcap H.
  pose proof (fuzzy_v2_cases cs nm fwd ib text p [] wp cap _ H) as HC. cbv zeta in HC.
  change (length [p]) with 1%nat in HC. change (Nat.eqb 1 1) with true in HC. change (last [p] 0) with p in HC.
  destruct HC as [(_ & Hr)|[(_ & Efb & _)|[(_ & _ & _ & Hr)|(_ & _ & lo & hi & Ha & Hb & HC)]]]; try discriminate.
  { exfalso. destruct cap as [c|]; [|discriminate]. apply Z.ltb_lt in Efb. specialize (Hcap c eq_refl). lia. }
  destruct HC as [(_ & Hr)|[(Hp & _ & Hr)|(_ & HM & _)]]; [discriminate| |congruence].
  set (w := firstn (hi - lo) (skipn lo text)) in *.
  assert (Lw : length w = (hi - lo)%nat) by (apply window_length; exact Hb).
  pose proof (phase2_single co sc cs nm fwd p w Hsc O [p] 0 (s_init sc) false p2_init) as HS.
  cbv zeta in HS.
  set (st := phase2 co sc cs nm fwd true w 0 p [p] p 0 (s_init sc) false p2_init) in *.
  destruct HS as (_ & HS); [left; repeat split; reflexivity|].
  destruct HS as [(_ & _ & H3)|(j & Hj & Hpos & Hch & Hscore & _)].
  { exfalso. rewrite Hp in H3. discriminate. }
  cbn [Nat.add] in Hpos.
  injection Hr as Es Ee Escore Epos. rewrite Hpos in *.
  assert (Hjt : nth j w 0 = nth (lo + j) text 0) by (apply window_nth; lia).
  assert (Hs : (s < length text)%nat) by lia.
  split; [lia|]. split; [exact Hs|]. split.
  { subst s. rewrite <- Hjt, <- (fold_v2_snd co sc cs nm _ Hn). exact Hch. }
  split; [subst s; exact Epos|].
  split.
  { intros ps Hps. rewrite Epos in Hps. destruct wp; [|discriminate]. injection Hps as <-. subst s. reflexivity. }
  exists lo, hi. split; [exact Ha|]. split; [lia|]. split; [lia|].
  assert (Hwb : score = scoreMatch + 2 * window_bonus text lo s).
  { rewrite Escore, Hscore. unfold w. rewrite Bl_window by lia. subst s. reflexivity. }
  split; [exact Hwb|].
  intros Hc. rewrite Hwb, window_bonus_eq by assumption. reflexivity.
Qed.

(* in which sense the reported occurrence is the best one of the window: every other occurrence t scores
   less (ties: forward keeps the first, backward the last) -- except that the forward scan stops at the first
   improving occurrence whose bonus reaches bonusBoundary, without looking at later ones *)
Theorem v2_single_best_proof : forall cs nm fwd ib text p wp cap s e score pos,
  scheme_nonneg sc -> (forall c, c < 192 -> co_norm co c = c) ->
  (forall c, cap = Some c -> Z.of_nat (length text) <= c) ->
  fuzzy_v2 co sc cs nm fwd ib text [p] wp cap = Ok (Match s e score pos) ->
  exists lo hi, ascii_fuzzy_index ib text [p] cs = Ok (Some (lo, hi)) /\
    forall t, (lo <= t < hi)%nat -> fold co cs nm (nth t text 0) = p ->
      ((t < s)%nat -> if fwd then scoreMatch + 2 * window_bonus text lo t < score
                      else scoreMatch + 2 * window_bonus text lo t <= score) /\
      ((s < t)%nat -> (if fwd then scoreMatch + 2 * window_bonus text lo t <= score
                       else scoreMatch + 2 * window_bonus text lo t < score) \/
                      (fwd = true /\ scoreMatch + 2 * bonusBoundary <= score)).
Proof.
  intros cs nm fwd ib text p wp cap s e score pos Hsc Hn Hcap H.
  pose proof (fuzzy_v2_cases cs nm fwd ib text p [] wp cap _ H) as HC. cbv zeta in HC.
  change (length [p]) with 1%nat in HC. change (Nat.eqb 1 1) with true in HC. change (last [p] 0) with p in HC.
  destruct HC as [(_ & Hr)|[(_ & Efb & _)|[(_ & _ & _ & Hr)|(_ & _ & lo & hi & Ha & Hb & HC)]]]; try discriminate.
  { exfalso. destruct cap as [c|]; [|discriminate]. apply Z.ltb_lt in Efb. specialize (Hcap c eq_refl). lia. }
  destruct HC as [(_ & Hr)|[(Hp & _ & Hr)|(_ & HM & _)]]; [discriminate| |congruence].
  exists lo, hi. split; [exact Ha|].
  set (w := firstn (hi - lo) (skipn lo text)) in *.
  assert (Lw : length w = (hi - lo)%nat) by (apply window_length; exact Hb).
  pose proof (phase2_single_best co sc cs nm fwd p w Hsc O [p] 0 (s_init sc) false p2_init) as HS.
  cbv zeta in HS.
  set (st := phase2 co sc cs nm fwd true w 0 p [p] p 0 (s_init sc) false p2_init) in *.
  destruct HS as (_ & HS); [left; repeat split; reflexivity|].
  injection Hr as Es Ee Escore Epos.
  intros t Ht Hft.
  assert (Hjt : nth (t - lo) w 0 = nth t text 0).
  { unfold w. rewrite window_nth by lia. f_equal. lia. }
  destruct (HS (t - lo)%nat ltac:(lia)) as (Ha1 & Ha2).
  { cbn beta. rewrite Hjt, (fold_v2_snd co sc cs nm _ Hn). exact Hft. }
  unfold w in Ha1, Ha2. rewrite Bl_window in Ha1, Ha2 by lia.
  replace (lo + (t - lo))%nat with t in Ha1, Ha2 by lia.
  rewrite <- Escore in Ha1, Ha2. cbn [Nat.add] in Ha1, Ha2. unfold LT, LE in Ha1, Ha2.
  split; intros Hts; [apply Ha1|apply Ha2]; lia.
Qed.

(* with the prefilter fact "the window starts at most one position before the first occurrence"
   the bonus is always the documented one *)
Corollary v2_single_score_proof : forall cs nm fwd ib text p wp cap s e score pos,
  scheme_nonneg sc -> (forall c, c < 192 -> co_norm co c = c) ->
  (forall c, cap = Some c -> Z.of_nat (length text) <= c) ->
  (forall lo hi, ascii_fuzzy_index ib text [p] cs = Ok (Some (lo, hi)) -> (0 < lo)%nat ->
                 fold co cs nm (nth lo text 0) <> p) ->
  fuzzy_v2 co sc cs nm fwd ib text [p] wp cap = Ok (Match s e score pos) ->
  score = scoreMatch + 2 * bonus_at co sc text s.
Proof.
  intros cs nm fwd ib text p wp cap s e score pos Hsc Hn Hcap Hlo H.
  destruct (v2_single_sound_proof cs nm fwd ib text p wp cap s e score pos Hsc Hn Hcap H)
    as (_ & _ & Hf & _ & _ & lo & hi & Ha & Hr & _ & _ & Hb).
  apply Hb. destruct (Nat.eq_dec s lo) as [E|E]; [|left; lia].
  destruct lo as [|lo]; [right; exact E|]. exfalso. subst s. exact (Hlo _ _ Ha ltac:(lia) Hf).
Qed.

(* ---------- item 6: value ranges of the scan (any flag, any pattern state) ---------- *)

Theorem no_overflow_gen_proof : forall bmax cs nm fwd m1 w p0 rest plast,
  0 <= s_bw sc <= bmax -> 0 <= s_bd sc <= bmax -> 8 <= bmax ->
  let st := phase2 co sc cs nm fwd m1 w O p0 rest plast 0 (s_init sc) false (mkP2 [] [] [] [] [] O O 0 O) in
  Forall (fun h => 0 <= h <= scoreMatch + 2 * bmax) (p2H0 st) /\
  Forall (fun b => 0 <= b <= bmax) (p2B st) /\
  0 <= p2_maxScore st <= scoreMatch + 2 * bmax.
Proof.
  intros bmax cs nm fwd m1 w p0 rest plast Hw Hd H8 st.
  pose proof (phase2_bounds co sc cs nm bmax m1 fwd p0 plast w Hw Hd H8 O rest 0 (s_init sc) false
                (mkP2 [] [] [] [] [] O O 0 O)) as HP.
  cbn [p2_H0 p2_B p2_maxScore] in HP. cbv zeta in HP.
  assert (HU : 0 <= 0 <= scoreMatch + 2 * bmax) by (unfold scoreMatch; lia).
  destruct (HP HU (Forall_nil _) (Forall_nil _) HU) as (HH & HB & HM).
  fold st in HH, HB, HM. unfold p2H0, p2B. repeat split; try apply Forall_rev; tauto.
Qed.

(* the three schemes of fzf have bonuses <= 10: H0 cells and the single-character score are in [0, 36] *)
Theorem no_overflow_proof : forall cs nm fwd m1 w p0 rest plast,
  0 <= s_bw sc <= 10 -> 0 <= s_bd sc <= 10 ->
  let st := phase2 co sc cs nm fwd m1 w O p0 rest plast 0 (s_init sc) false (mkP2 [] [] [] [] [] O O 0 O) in
  Forall (fun h => 0 <= h <= 36) (p2H0 st) /\ Forall (fun b => 0 <= b <= 10) (p2B st) /\
  0 <= p2_maxScore st <= 36.
Proof.
  intros cs nm fwd m1 w p0 rest plast Hw Hd.
  exact (no_overflow_gen_proof 10 cs nm fwd m1 w p0 rest plast Hw Hd ltac:(lia)).
Qed.

Section WithFacts.
(* proved elsewhere (V1Proofs.v, PrefilterProofs.v); instantiate when closing the section *)
Hypothesis v1_complete : forall cs nm fwd ib text pat wp,
  (ib = true -> Forall (fun c => 0 <= c < 128) text) -> (forall c, c < 192 -> co_norm co c = c) ->
  fuzzy_v1 co sc cs nm fwd ib text pat wp = Ok NoMatch -> subseq_b co cs nm text pat = false.
Hypothesis v1_match_subseq : forall cs nm fwd ib text pat wp s e score pos,
  fuzzy_v1 co sc cs nm fwd ib text pat wp = Ok (Match s e score pos) -> pat <> [] ->
  subseq_b co cs nm text pat = true.
Hypothesis afi_none_sound : forall ib text pat cs nm,
  (ib = true -> Forall (fun c => 0 <= c < 128) text) -> (forall c, c < 192 -> co_norm co c = c) ->
  ascii_fuzzy_index ib text pat cs = Ok None -> subseq_b co cs nm text pat = false.
Hypothesis afi_window_sound : forall ib text pat cs nm lo hi,
  (ib = true -> Forall (fun c => 0 <= c < 128) text) -> (forall c, c < 192 -> co_norm co c = c) ->
  ascii_fuzzy_index ib text pat cs = Ok (Some (lo, hi)) ->
  (lo <= hi <= length text)%nat /\
  (subseq_b co cs nm text pat = true -> subseq_b co cs nm (firstn (hi - lo) (skipn lo text)) pat = true).

Theorem v2_complete_proof : forall cs nm fwd ib text pat wp cap,
  (ib = true -> Forall (fun c => 0 <= c < 128) text) -> (forall c, c < 192 -> co_norm co c = c) ->
  fuzzy_v2 co sc cs nm fwd ib text pat wp cap = Ok NoMatch -> subseq_b co cs nm text pat = false.
Proof.
  intros cs nm fwd ib text pat wp cap Ha Hn H.
  apply (v2_complete_pointwise cs nm fwd ib text pat wp cap Hn); try exact H.
  - apply v1_complete; assumption.
  - apply afi_none_sound; assumption.
  - intros lo hi E. apply (afi_window_sound ib text pat cs nm lo hi Ha Hn E).
Qed.

Theorem v2_match_subseq_proof : forall cs nm fwd ib text pat wp cap s e score pos,
  (forall c, c < 192 -> co_norm co c = c) ->
  fuzzy_v2 co sc cs nm fwd ib text pat wp cap = Ok (Match s e score pos) -> pat <> [] ->
  subseq_b co cs nm text pat = true.
Proof.
  intros cs nm fwd ib text pat wp cap s e score pos Hn H Hne.
  apply (v2_match_subseq_pointwise cs nm fwd ib text pat wp cap s e score pos Hn); [|exact H].
  intros HV. exact (v1_match_subseq _ _ _ _ _ _ _ _ _ _ _ HV Hne).
Qed.

End WithFacts.

End V2Scan.

Print Assumptions phase2_ok_proof.
Print Assumptions phase2_max_init_proof.
Print Assumptions fold_v2_snd_proof.
Print Assumptions fold_v2_fst_proof.
Print Assumptions phase2_pidx_iff_proof.
Print Assumptions v2_complete_proof.
Print Assumptions v2_match_subseq_proof.
Print Assumptions v2_single_sound_proof.
Print Assumptions v2_single_score_proof.
Print Assumptions v2_single_best_proof.
Print Assumptions v2_fallback_proof.
Print Assumptions v2_fallback_nonneg_proof.
Print Assumptions v2_empty_pattern_proof.
Print Assumptions no_overflow_gen_proof.
Print Assumptions no_overflow_proof.

(* ---------- non-vacuity ---------- *)

Definition co_ex := mkOps (fun c => c) (fun _ => cNonWord) (fun c => c) (fun _ => false).
Definition text_ex : list Z := [102;111;111;45;66;97;114;32;98;97;122].     (* "foo-Bar baz" *)

Lemma co_ex_norm : forall c, c < 192 -> co_norm co_ex c = c.
Proof. reflexivity. Qed.
Lemma text_ex_ascii : forall ib : bool, ib = true -> Forall (fun c => 0 <= c < 128) text_ex.
Proof. intros _ _. unfold text_ex. repeat constructor; lia. Qed.
Lemma scheme_default_nonneg : scheme_nonneg scheme_default.
Proof. unfold scheme_nonneg. cbn. lia. Qed.

(* item 1: the window of "oba" in text_ex; the scan finds all three characters *)
Example phase2_ok_nonvacuous :
  let w := [111;111;45;66;97;114;32;98;97] in let pat := [111;98;97] in
  let st := phase2 co_ex scheme_default false true true false w O 111 pat (last pat 0) 0 (s_init scheme_default) false
                   (mkP2 [] [] [] [] [] O O 0 O) in
  (2 <= length pat)%nat /\ p2_pidx st = length pat /\
  p2F st = [0%nat; 3%nat; 4%nat] /\ p2_lastIdx st = 8%nat /\
  p2H0 st = [36; 16; 13; 12; 11; 10; 9; 8; 7] /\ p2B st = [10; 0; 8; 8; 0; 0; 10; 10; 0] /\
  subseq_b co_ex false true w pat = true.
Proof. vm_compute. repeat split; try reflexivity; lia. Qed.

(* items 2, 3: a Match and a NoMatch through the full V2 path *)
Example v2_match_nonvacuous :
  fuzzy_v2 co_ex scheme_default false true true true text_ex [111;98;97] true None
    = Ok (Match 2 6 61 (Some [5%nat; 4%nat; 2%nat])) /\
  subseq_b co_ex false true text_ex [111;98;97] = true.
Proof. vm_compute. split; reflexivity. Qed.

Example v2_nomatch_nonvacuous :
  fuzzy_v2 co_ex scheme_default false true true true text_ex [98;120] true None = Ok NoMatch /\
  subseq_b co_ex false true text_ex [98;120] = false.
Proof. vm_compute. split; reflexivity. Qed.

(* item 4: forward scan stops at the first boundary occurrence ('B' after '-'), backward scan takes the
   best one ('b' after the blank); both scores are 16 + 2 * bonus_at *)
Example v2_single_nonvacuous :
  fuzzy_v2 co_ex scheme_default false true true true text_ex [98] true None = Ok (Match 4 5 32 (Some [4%nat])) /\
  fuzzy_v2 co_ex scheme_default false true false true text_ex [98] true None = Ok (Match 8 9 36 (Some [8%nat])) /\
  ascii_fuzzy_index true text_ex [98] false = Ok (Some (3%nat, 9%nat)) /\
  scoreMatch + 2 * bonus_at co_ex scheme_default text_ex 4 = 32 /\
  scoreMatch + 2 * bonus_at co_ex scheme_default text_ex 8 = 36.
Proof. vm_compute. repeat split; reflexivity. Qed.

(* item 5: a slab of 5 cells is too small for 11 x 3 *)
Example v2_fallback_nonvacuous :
  5 < Z.of_nat (length text_ex) * Z.of_nat (length [111;98;97]) /\
  fuzzy_v2 co_ex scheme_default false true true true text_ex [111;98;97] false (Some 5) = Ok (Match 2 6 61 None) /\
  fuzzy_v1 co_ex scheme_default false true true true text_ex [111;98;97] false = Ok (Match 2 6 61 None).
Proof. vm_compute. repeat split; reflexivity. Qed.

(* observation: for a single character the forward scan stops at the first improving occurrence with
   bonus >= bonusBoundary, so its score (32, 'B' after '-') can be below the optimum of the documented
   DP (36, 'b' after the blank); the backward scan has no early exit *)
Example v2_single_forward_early_break :
  fuzzy_v2 co_ex scheme_default false true true true text_ex [98] false None = Ok (Match 4 5 32 None) /\
  naive_dp co_ex scheme_default false true true text_ex [98] = Some (36, 9%nat) /\
  fuzzy_v2 co_ex scheme_default false true false true text_ex [98] false None = Ok (Match 8 9 36 None).
Proof. vm_compute. repeat split; reflexivity. Qed.

(* the hypothesis "normalizeRune is the identity on ASCII" is needed for v2_match_subseq_proof: V2 never
   normalises ASCII characters, the spec's fold does *)
Example v2_match_subseq_needs_norm :
  let co_bad := mkOps (fun c => c) (fun _ => cNonWord) (fun c => c + 1) (fun _ => false) in
  fuzzy_v2 co_bad scheme_default true true true false [97] [97] false None = Ok (Match 0 1 36 None) /\
  subseq_b co_bad true true [97] [97] = false.
Proof. vm_compute. split; reflexivity. Qed.
