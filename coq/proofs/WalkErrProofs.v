(* C19 proofs, third part: directories that cannot be read (spec/WalkErrSpec.v, model/WalkErrModel.v). *)
From Fzf Require Import Prelude WalkSpec WalkModel WalkProofs WalkErrSpec WalkErrModel.
Open Scope Z_scope.

Lemma uentry_ind' (P : uentry -> Prop) :
  (forall nm, P (UFile nm)) ->
  (forall nm rd ch, Forall P ch -> P (UDir nm rd ch)) ->
  (forall nm, P (USymFile nm)) ->
  (forall nm rd tg, Forall P tg -> P (USymDir nm rd tg)) ->
  forall e, P e.
Proof.
  intros HF HD HS HL.
  fix IH 1. intros [nm|nm rd ch|nm|nm rd tg].
  - apply HF.
  - apply HD. induction ch as [|x r IHr]; constructor; [apply IH|exact IHr].
  - apply HS.
  - apply HL. induction tg as [|x r IHr]; constructor; [apply IH|exact IHr].
Qed.

(* ------------------------------------------------------------------ *)
(* the traversal with errors, unfolded one step *)

Lemma fwe_read_cons fn fo dir x r :
  fwe_read fn fo dir (x :: r) =
  (do a <- fwe_entry fn fo dir x;
   if snd a then Ok a else do b <- fwe_read fn fo dir r; Ok (fst a ++ fst b, snd b)).
Proof. reflexivity. Qed.

Lemma fwe_entry_file fn fo dir nm :
  fwe_entry fn fo dir (UFile nm) =
  (do r <- fn (join_paths dir nm) KFile false;
   match snd r with Continue => Ok (fst r, false) | SkipDir => Err BadInput end).
Proof. reflexivity. Qed.

Lemma fwe_entry_symfile fn fo dir nm :
  fwe_entry fn fo dir (USymFile nm) = (do r <- fn (join_paths dir nm) KSymFile false; Ok (fst r, false)).
Proof. reflexivity. Qed.

Lemma fwe_entry_dir fn fo dir nm rd ch :
  fwe_entry fn fo dir (UDir nm rd ch) =
  (do r <- fn (join_paths dir nm) KDir false;
   match snd r with
   | SkipDir => Ok (fst r, false)
   | Continue =>
       if rd then do rest <- fwe_read fn fo (join_paths dir nm) ch; Ok (fst r ++ fst rest, snd rest)
       else report_error fn (join_paths dir nm) KDir (fst r)
   end).
Proof. reflexivity. Qed.

Lemma fwe_entry_symdir fn fo dir nm rd tg :
  fwe_entry fn fo dir (USymDir nm rd tg) =
  (do r <- fn (join_paths dir nm) KSymDir false;
   match snd r with
   | SkipDir => Ok (fst r, false)
   | Continue =>
       if fo then
         if rd then do rest <- fwe_read fn fo (join_paths dir nm) tg; Ok (fst r ++ fst rest, snd rest)
         else report_error fn (join_paths dir nm) KSymDir (fst r)
       else Ok (fst r, false)
   end).
Proof. reflexivity. Qed.

(* ------------------------------------------------------------------ *)
(* with reader.go's answer to the error report (nil) the walk over a tree with unreadable directories IS the
   walk of WalkModel over the visible tree, and it is never ended by an error *)

Definition lift (r : res (list str)) : res wres :=
  match r with Ok l => Ok (l, false) | Err x => Err x end.

Lemma report_error_nil o ign joined k first :
  report_error (walk_fn_e o ign) joined k first = Ok (first ++ [], false).
Proof. reflexivity. Qed.

Definition entry_sim (o : wopts) (ign : list str * list str * list str) (fo : bool) (e : uentry) : Prop :=
  forall dir, fwe_entry (walk_fn_e o ign) fo dir e = lift (fw_entry (walk_fn o ign) fo dir (visible e)).

Lemma fwe_read_sim o ign fo ch :
  Forall (entry_sim o ign fo) ch ->
  forall dir, fwe_read (walk_fn_e o ign) fo dir ch = lift (fw_read (walk_fn o ign) fo dir (map visible ch)).
Proof.
  intros H dir. induction H as [|x r Hx _ IH]; [reflexivity|].
  rewrite fwe_read_cons. cbn [map]. rewrite fw_read_cons. rewrite (Hx dir).
  destruct (fw_entry (walk_fn o ign) fo dir (visible x)) as [a|er]; [|reflexivity].
  cbn [lift bind snd fst]. rewrite IH.
  destruct (fw_read (walk_fn o ign) fo dir (map visible r)) as [b|er]; reflexivity.
Qed.

Lemma fwe_entry_sim o ign fo e : entry_sim o ign fo e.
Proof.
  induction e as [nm|nm rd ch IH|nm|nm rd tg IH] using uentry_ind'; intro dir.
  - rewrite fwe_entry_file. cbn [visible]. rewrite fw_entry_file. unfold walk_fn_e.
    destruct (walk_fn o ign (join_paths dir nm) KFile) as [[l a]|er]; [|reflexivity].
    cbn [bind snd fst lift]. destruct a; reflexivity.
  - rewrite fwe_entry_dir. cbn [visible]. rewrite fw_entry_dir.
    change (walk_fn_e o ign (join_paths dir nm) KDir false) with (walk_fn o ign (join_paths dir nm) KDir).
    destruct (walk_fn o ign (join_paths dir nm) KDir) as [[l a]|er]; [|reflexivity].
    cbn [bind snd fst]. destruct a; [|reflexivity].
    destruct rd.
    + rewrite (fwe_read_sim o ign fo ch IH).
      destruct (fw_read (walk_fn o ign) fo (join_paths dir nm) (map visible ch)) as [b|er]; reflexivity.
    + rewrite report_error_nil. reflexivity.
  - rewrite fwe_entry_symfile. cbn [visible]. rewrite fw_entry_symfile. unfold walk_fn_e.
    destruct (walk_fn o ign (join_paths dir nm) KSymFile) as [[l a]|er]; reflexivity.
  - rewrite fwe_entry_symdir. cbn [visible]. rewrite fw_entry_symdir.
    change (walk_fn_e o ign (join_paths dir nm) KSymDir false) with (walk_fn o ign (join_paths dir nm) KSymDir).
    destruct (walk_fn o ign (join_paths dir nm) KSymDir) as [[l a]|er]; [|reflexivity].
    cbn [bind snd fst]. destruct a; [|reflexivity].
    destruct fo; [|reflexivity].
    destruct rd.
    + rewrite (fwe_read_sim o ign true tg IH).
      destruct (fw_read (walk_fn o ign) true (join_paths dir nm) (map visible tg)) as [b|er]; reflexivity.
    + rewrite report_error_nil. reflexivity.
Qed.

Lemma fwe_walk_sim o ign fo root rd ch :
  fwe_walk (walk_fn_e o ign) fo root rd ch =
  lift (fw_walk (walk_fn o ign) fo root (snd (visible_root (root, rd, ch)))).
Proof.
  unfold fwe_walk, fw_walk. cbv zeta. cbn [visible_root snd].
  change (walk_fn_e o ign (clean_root_path root) KDir false) with (walk_fn o ign (clean_root_path root) KDir).
  destruct (walk_fn o ign (clean_root_path root) KDir) as [[l a]|er]; [|reflexivity].
  cbn [bind snd fst]. destruct a; [|reflexivity].
  destruct rd.
  - rewrite (fwe_read_sim o ign fo ch (proj2 (Forall_forall _ _) (fun e _ => fwe_entry_sim o ign fo e))).
    destruct (fw_read (walk_fn o ign) fo (clean_root_path root) (map visible ch)) as [b|er]; reflexivity.
  - rewrite report_error_nil. reflexivity.
Qed.

Definition lift2 (r : res (list str)) : res (list str * bool) :=
  match r with Ok l => Ok (l, true) | Err x => Err x end.

Lemma walk_roots_sim o ign fo roots :
  walk_roots_e (walk_fn_e o ign) fo true roots = lift2 (walk_roots (walk_fn o ign) fo (map visible_root roots)).
Proof.
  induction roots as [|[[root rd] ch] r IH]; [reflexivity|].
  cbn [walk_roots_e map]. rewrite fwe_walk_sim.
  remember (snd (visible_root (root, rd, ch))) as v eqn:Ev.
  assert (Hv : visible_root (root, rd, ch) = (root, v)) by (subst v; reflexivity).
  rewrite Hv. cbn [walk_roots].
  destruct (fw_walk (walk_fn o ign) fo root v) as [a|er]; [|reflexivity].
  cbn [lift bind snd fst negb]. rewrite IH.
  destruct (walk_roots (walk_fn o ign) fo (map visible_root r)) as [b|er]; reflexivity.
Qed.

(* the hypotheses speak about what can be seen only: names below an unreadable directory do not matter *)
Definition uroots_ok (roots : list uroot) : Prop := roots_ok (map visible_root roots).

Theorem walk_unreadable_eq_listing_proof : forall o ig roots, uroots_ok roots ->
  read_files_e o ig roots = Ok (listing_unreadable o ig roots, true).
Proof.
  intros o ig roots H. unfold read_files_e, listing_unreadable. rewrite walk_roots_sim.
  pose proof (walk_eq_listing_proof o ig _ H) as E. unfold read_files in E. rewrite E. reflexivity.
Qed.

(* ------------------------------------------------------------------ *)
(* the spec itself *)

(* when every directory answers, the visible tree is the tree *)
Lemma readable_visible e : readable e = true -> visible e = all_readable e.
Proof.
  induction e as [nm|nm rd ch IH|nm|nm rd tg IH] using uentry_ind'; cbn [readable visible all_readable]; intro H;
    try reflexivity.
  - apply andb_true_iff in H as [-> Hc]. f_equal.
    induction IH as [|x r Hx _ IHr]; [reflexivity|]. cbn [forallb] in Hc. apply andb_true_iff in Hc as [Ha Hb].
    cbn [map]. rewrite (Hx Ha), (IHr Hb). reflexivity.
  - apply andb_true_iff in H as [-> Hc]. f_equal.
    induction IH as [|x r Hx _ IHr]; [reflexivity|]. cbn [forallb] in Hc. apply andb_true_iff in Hc as [Ha Hb].
    cbn [map]. rewrite (Hx Ha), (IHr Hb). reflexivity.
Qed.

Theorem listing_unreadable_conservative_proof : forall o ig (roots : list uroot),
  Forall (fun r : uroot => let '(_, rd, ch) := r in rd = true /\ forallb readable ch = true) roots ->
  listing_unreadable o ig roots =
  listing_roots o ig (map (fun r : uroot => let '(root, _, ch) := r in (root, map all_readable ch)) roots).
Proof.
  intros o ig roots H. unfold listing_unreadable. f_equal.
  induction H as [|[[root rd] ch] r [Hrd Hch] _ IH]; [reflexivity|].
  cbn [map visible_root]. rewrite IH, Hrd. f_equal. f_equal.
  clear - Hch. induction ch as [|x t IHt]; [reflexivity|].
  cbn [forallb] in Hch. apply andb_true_iff in Hch as [Ha Hb].
  cbn [map]. rewrite (readable_visible x Ha), (IHt Hb). reflexivity.
Qed.

(* an unreadable directory among its siblings: the siblings before and after it are listed as ever, the directory
   itself is listed like an empty directory, whatever it holds *)
Theorem unreadable_costs_only_its_content_proof : forall o ig d a nm ch b,
  flat_map (list_entry o ig d) (map visible (a ++ UDir nm false ch :: b)) =
  flat_map (list_entry o ig d) (map visible a) ++ list_entry o ig d (Dir nm []) ++
  flat_map (list_entry o ig d) (map visible b).
Proof.
  intros o ig d a nm ch b. rewrite map_app, flat_map_app. cbn [map flat_map visible]. reflexivity.
Qed.

(* nothing is invented: whatever is listed with unreadable directories is listed when everything can be read *)
Definition no_invention (o : wopts) (ig : list str) (e : uentry) : Prop :=
  forall d x, In x (list_entry o ig d (visible e)) -> In x (list_entry o ig d (all_readable e)).

Lemma flat_map_no_invention o ig ch :
  Forall (no_invention o ig) ch ->
  forall d x, In x (flat_map (list_entry o ig d) (map visible ch)) ->
              In x (flat_map (list_entry o ig d) (map all_readable ch)).
Proof.
  intros H d x. induction H as [|e r He _ IH]; [exact (fun h => h)|].
  cbn [map flat_map]. intro Hin. apply in_or_app. apply in_app_or in Hin as [Hin|Hin].
  - left. apply He. exact Hin.
  - right. apply IH. exact Hin.
Qed.

Lemma entry_no_invention o ig e : no_invention o ig e.
Proof.
  induction e as [nm|nm rd ch IH|nm|nm rd tg IH] using uentry_ind'; intros d x; cbn [visible all_readable];
    try exact (fun h => h).
  - cbn [list_entry]. cbv zeta. destruct (pruned o ig (child d nm) nm); [exact (fun h => h)|].
    intro Hin. apply in_or_app. apply in_app_or in Hin as [Hin|Hin]; [left; exact Hin|right].
    destruct rd; [|destruct Hin]. apply (flat_map_no_invention o ig ch IH). exact Hin.
  - cbn [list_entry]. cbv zeta. destruct (o_follow o); [|exact (fun h => h)].
    destruct (pruned o ig (child d nm) nm); [exact (fun h => h)|].
    intro Hin. apply in_or_app. apply in_app_or in Hin as [Hin|Hin]; [left; exact Hin|right].
    destruct rd; [|destruct Hin]. apply (flat_map_no_invention o ig tg IH). exact Hin.
Qed.

Theorem unreadable_nothing_invented_proof : forall o ig (roots : list uroot) x,
  In x (listing_unreadable o ig roots) ->
  In x (listing_roots o ig (map (fun r : uroot => let '(root, _, ch) := r in (root, map all_readable ch)) roots)).
Proof.
  intros o ig roots x. unfold listing_unreadable, listing_roots.
  induction roots as [|[[root rd] ch] r IH]; [exact (fun h => h)|].
  cbn [map flat_map visible_root fst snd]. intro Hin. apply in_or_app. apply in_app_or in Hin as [Hin|Hin]; [left|right; apply IH; exact Hin].
  unfold listing in *. cbv zeta in *.
  assert (Hfm : forall d, In x (flat_map (list_entry o ig d) (if rd then map visible ch else [])) ->
                          In x (flat_map (list_entry o ig d) (map all_readable ch))).
  { intros d Hd. destruct rd; [|destruct Hd].
    apply (flat_map_no_invention o ig ch (proj2 (Forall_forall _ _) (fun e _ => entry_no_invention o ig e))). exact Hd. }
  destruct (str_eqb (display root) [DOT]); [apply Hfm; exact Hin|].
  destruct (pruned o ig (display root) (base_name (display root))); [exact Hin|].
  apply in_or_app. apply in_app_or in Hin as [Hin|Hin]; [left; exact Hin|right; apply Hfm; exact Hin].
Qed.

(* ------------------------------------------------------------------ *)
(* regression witness: a callback that answers the error report with filepath.SkipDir (the idiom of
   filepath.WalkDir) - NOT reader.go.  fastwalk does not understand SkipDir on the second call: the Walk ends,
   readFiles returns false and the roots that follow are not walked. *)
Definition walk_fn_skipdir_on_error (o : wopts) (ign : list str * list str * list str) (path : str) (k : kind)
  (err : bool) : res (list str * action) :=
  if err then Ok ([], SkipDir) else walk_fn o ign path k.

(* roots "b" = { x/ (unreadable) = { f } ; g } and "c" = { h } *)
Definition ex_uroots : list uroot :=
  [ ([98], true, [UDir [120] false [UFile [102]]; UFile [103]]); ([99], true, [UFile [104]]) ].

Lemma skipdir_on_error_loses_roots_proof :
  uroots_ok ex_uroots /\
  read_files_e (mkOpts true true false false) [] ex_uroots =
    Ok ([[98;47]; [98;47;120;47]; [98;47;103]; [99;47]; [99;47;104]], true) /\
  walk_roots_e (walk_fn_skipdir_on_error (mkOpts true true false false) (split_ignores [])) false true ex_uroots =
    Ok ([[98;47]; [98;47;120;47]], false).
Proof.
  split; [|split].
  - repeat constructor; cbn; try discriminate; try (intuition discriminate).
    + exists 98; split; [now left|discriminate].
    + exists 99; split; [now left|discriminate].
  - vm_compute. reflexivity.
  - vm_compute. reflexivity.
Qed.
