(* C13 proofs about the chunk store (model/ChunkStoreModel.v):
   - full cells are never written again                         (full_never_mutated)
   - what a snapshot dereferences to never changes, whatever happens to the list afterwards
                                                                (snapshot_immutable)
   - counts agree with the lists they describe                  (count_items_sum, counts_consistent) *)
From Fzf Require Import Prelude ChunkStoreModel.

Lemma bind_ok {A B} (r : res A) (f : A -> res B) (y : B) :
  bind r f = Ok y -> exists a, r = Ok a /\ f a = Ok y.
Proof. destruct r as [a|e]; cbn; intro H; [eauto | discriminate]. Qed.

Ltac bind_inv H :=
  let a := fresh "a" in let Ha := fresh "Hget" in
  apply bind_ok in H; destruct H as (a & Ha & H).

Section ListFacts.
  Context {A : Type}.

  Lemma get_lt (l : list A) n x : get l n = Ok x -> n < length l.
  Proof.
    revert n; induction l as [|y l IH]; intros [|n] H; cbn in *; try discriminate; try lia.
    apply IH in H. lia.
  Qed.

  Lemma get_ok (l : list A) n : n < length l -> exists x, get l n = Ok x.
  Proof.
    revert n; induction l as [|y l IH]; intros [|n] H; cbn in *; try lia; eauto.
    apply IH. lia.
  Qed.

  Lemma get_app_l (l l' : list A) n : n < length l -> get (l ++ l') n = get l n.
  Proof.
    revert n; induction l as [|y l IH]; intros [|n] H; cbn in *; try lia; auto.
    apply IH. lia.
  Qed.

  Lemma get_app_len (l : list A) x : get (l ++ [x]) (length l) = Ok x.
  Proof. induction l; cbn; auto. Qed.

  Lemma set_nth_len (l : list A) n v l' : set_nth l n v = Ok l' -> length l' = length l.
  Proof.
    revert n l'; induction l as [|y l IH]; intros [|n] l' H; cbn in *; try discriminate.
    - inversion H; subst; reflexivity.
    - bind_inv H. inversion H; subst. cbn. f_equal. eauto.
  Qed.

  Lemma get_set_other (l : list A) n v l' m : set_nth l n v = Ok l' -> m <> n -> get l' m = get l m.
  Proof.
    revert n l' m; induction l as [|y l IH]; intros [|n] l' m H Hm; cbn in *; try discriminate.
    - inversion H; subst. destruct m; [congruence | reflexivity].
    - bind_inv H. inversion H; subst. destruct m; cbn; [reflexivity | eapply IH; [eassumption | lia]].
  Qed.

  Lemma get_set_same (l : list A) n v l' : set_nth l n v = Ok l' -> get l' n = Ok v.
  Proof.
    revert n l'; induction l as [|y l IH]; intros [|n] l' H; cbn in *; try discriminate.
    - inversion H; subst. reflexivity.
    - bind_inv H. inversion H; subst. cbn. eauto.
  Qed.

  Lemma last_of_app (a : A) l x : last_of a (l ++ [x]) = x.
  Proof. revert a; induction l as [|b l IH]; intro a; cbn; auto. Qed.

  Lemma last_opt_app (l : list A) x : last_opt (l ++ [x]) = Some x.
  Proof. destruct l as [|a l]; cbn; [reflexivity | f_equal; apply last_of_app]. Qed.

  Lemma last_of_In (a : A) l : last_of a l = a \/ In (last_of a l) l.
  Proof.
    revert a; induction l as [|b l IH]; intro a; cbn; auto.
    destruct (IH b) as [H|H]; [rewrite H; auto | auto].
  Qed.

  Lemma last_opt_In (l : list A) x : last_opt l = Some x -> In x l.
  Proof.
    destruct l as [|a l]; cbn; [discriminate|]. intro H; inversion H; subst.
    destruct (last_of_In a l); auto.
  Qed.

  Lemma NoDup_snoc (l : list A) x : NoDup l -> ~ In x l -> NoDup (l ++ [x]).
  Proof.
    intros Hn Hx. apply NoDup_rev in Hn. rewrite <- (rev_involutive (l ++ [x])). apply NoDup_rev.
    rewrite rev_app_distr. cbn. constructor; [now rewrite <- in_rev | exact Hn].
  Qed.

  Lemma NoDup_app_r (l l' : list A) : NoDup (l ++ l') -> NoDup l'.
  Proof. induction l as [|a l IH]; cbn; intro H; [exact H | inversion H; auto]. Qed.

  Lemma last_opt_rev (l : list A) : last_opt l = match rev l with [] => None | x :: _ => Some x end.
  Proof.
    destruct l as [|a l] using rev_ind; [reflexivity|].
    rewrite last_opt_app, rev_app_distr. reflexivity.
  Qed.
End ListFacts.

Section Proofs.
  Variable item : Type.
  Notation clist := (clist item).
  Notation cop := (cop item).

  (* ---------- the store only grows; cells change only by Push on a non-full last cell ---------- *)

  Definition extends (s s' : store item) : Prop := exists ext, s' = s ++ ext.

  Lemma extends_refl s : extends s s.
  Proof. exists []. now rewrite app_nil_r. Qed.
  Lemma extends_trans s1 s2 s3 : extends s1 s2 -> extends s2 s3 -> extends s1 s3.
  Proof. intros [e1 ->] [e2 ->]. exists (e1 ++ e2). now rewrite app_assoc. Qed.
  Lemma extends_alloc (s : store item) c : extends s (fst (alloc s c)).
  Proof. exists [c]. reflexivity. Qed.
  Lemma extends_get (s s' : store item) id : extends s s' -> id < length s -> get s' id = get s id.
  Proof. intros [e ->] H. now apply get_app_l. Qed.
  Lemma extends_len s s' : extends s s' -> length s <= length s'.
  Proof. intros [e ->]. rewrite app_length. lia. Qed.

  Lemma dup_spec (s : store item) id s' nid : dup s id = Ok (s', nid) ->
    exists c, get s id = Ok c /\ s' = s ++ [c] /\ nid = length s.
  Proof. unfold dup. intro H. bind_inv H. inversion H; subst. eauto. Qed.

  (* trim_rev: the store is extended by at most one cell; the id list changes in at most one place,
     where the new id is the freshly allocated one *)
  Lemma trim_rev_spec rids : forall (s : store item) left s' rids' ret,
    trim_rev s left rids = Ok (s', rids', ret) ->
    extends s s' /\ length rids' = length rids /\
    (forall i, In i rids' -> In i rids \/ (i = length s /\ length s < length s')) /\
    (Forall (fun i => i < length s) rids -> NoDup rids -> NoDup rids') /\
    (match rids, rids' with
     | a :: _, b :: _ => b = a \/ (b = length s /\ length s < length s')
     | [], [] => True
     | _, _ => False
     end).
  Proof.
    induction rids as [|id r IH]; intros s left s' rids' ret H; cbn [trim_rev] in H.
    - inversion H; subst. repeat split; auto using extends_refl; try (intros i []); try constructor.
    - bind_inv H. destruct (Nat.ltb left (length a)).
      + unfold alloc in H. inversion H; subst. clear H.
        assert (Hlen : length s < length (s ++ [skipn (length a - left) a])) by (rewrite app_length; cbn; lia).
        repeat split.
        * exists [skipn (length a - left) a]. reflexivity.
        * intros i [Hi|Hi]; [right; split; [auto|exact Hlen] | left; right; exact Hi].
        * intros Hv Hnd. inversion Hnd; subst. inversion Hv; subst. constructor; auto.
          intro Hin. rewrite Forall_forall in H4. apply H4 in Hin. lia.
        * right. split; [reflexivity | exact Hlen].
      + bind_inv H. destruct a0 as [[s1 r1] ret1]. inversion H; subst. clear H.
        destruct (IH _ _ _ _ _ Hget0) as (He & Hl & Hin & Hnd & _).
        repeat split; auto.
        * cbn. now rewrite Hl.
        * intros i [Hi|Hi]; [left; left; exact Hi|].
          destruct (Hin i Hi) as [Hi'|Hi']; [left; right; exact Hi' | right; exact Hi'].
        * intros Hv Hn. inversion Hn; subst. inversion Hv; subst. constructor; [|auto].
          intro Hi. destruct (Hin _ Hi) as [Hi'|[Hi' _]]; [contradiction | lia].
  Qed.

  Definition inv (cl : clist) : Prop :=
    Forall (fun i => i < length (cl_store cl)) (cl_chunks cl) /\ NoDup (cl_chunks cl).

  Lemma inv_empty : inv cl_empty.
  Proof. split; constructor. Qed.

  (* a cell that the list will never write again: it exists and is not the last chunk of the list *)
  Definition frozen (cl : clist) (id : nat) : Prop :=
    id < length (cl_store cl) /\ last_opt (cl_chunks cl) <> Some id.

  Lemma Forall_lt_mono (l : list nat) n m : n <= m -> Forall (fun i => i < n) l -> Forall (fun i => i < m) l.
  Proof. intros Hnm H. eapply Forall_impl; [|exact H]. cbn. intros. lia. Qed.

  Lemma push_gen_spec cl x cl' : inv cl -> push_gen cl x = Ok cl' ->
    inv cl' /\ length (cl_store cl) <= length (cl_store cl') /\
    (forall id, frozen cl id -> frozen cl' id /\ get (cl_store cl') id = get (cl_store cl) id) /\
    (forall id c, get (cl_store cl) id = Ok c -> length c = chunk_size -> get (cl_store cl') id = Ok c).
  Proof.
    intros [Hv Hnd] H. unfold push_gen in H.
    set (add := fun c : cell item => match x with Some v => c ++ [v] | None => c end) in *.
    assert (Hfresh : forall cl2, (let (s', id) := alloc (cl_store cl) (add []) in Ok (mkCL s' (cl_chunks cl ++ [id]))) = Ok cl2 ->
      inv cl2 /\ length (cl_store cl) <= length (cl_store cl2) /\
      (forall id, frozen cl id -> frozen cl2 id /\ get (cl_store cl2) id = get (cl_store cl) id) /\
      (forall id c, get (cl_store cl) id = Ok c -> length c = chunk_size -> get (cl_store cl2) id = Ok c)).
    { intros cl2 H2. cbn in H2. inversion H2; subst; clear H2. unfold inv, frozen. cbn [cl_store cl_chunks].
      split; [split|split; [|split]].
      - apply Forall_app. split.
        + eapply Forall_lt_mono; [|exact Hv]. rewrite app_length. lia.
        + constructor; [rewrite app_length; cbn; lia | constructor].
      - apply NoDup_snoc; auto. intro Hin. rewrite Forall_forall in Hv. apply Hv in Hin. lia.
      - rewrite app_length. lia.
      - intros id [Hlt Hlast]. split; [split|].
        + cbn. rewrite app_length. lia.
        + cbn. rewrite last_opt_app. intro E. inversion E. lia.
        + cbn. now apply get_app_l.
      - intros id c Hg _. rewrite get_app_l; [exact Hg | eapply get_lt; eauto]. }
    destruct (last_opt (cl_chunks cl)) as [lid|] eqn:Hlast; [|now apply Hfresh].
    bind_inv H. destruct (Nat.eqb (length a) chunk_size) eqn:Hfull; [now apply Hfresh|].
    bind_inv H. inversion H; subst; clear H. unfold inv, frozen. cbn [cl_store cl_chunks].
    pose proof (set_nth_len _ _ _ _ Hget0) as Hlen.
    split; [split|split; [|split]].
    - now rewrite Hlen.
    - exact Hnd.
    - lia.
    - intros id [Hlt Hne]. split; [split|]; cbn.
      + now rewrite Hlen.
      + exact Hne.
      + eapply get_set_other; eauto. congruence.
    - intros id c Hg Hc. destruct (Nat.eq_dec id lid) as [->|Hne].
      + rewrite Hget in Hg. inversion Hg; subst. apply Nat.eqb_neq in Hfull. contradiction.
      + erewrite get_set_other; eauto.
  Qed.

  Lemma deref_all_extends (s s' : store item) ids : extends s s' -> Forall (fun i => i < length s) ids ->
    deref_all s' ids = deref_all s ids.
  Proof.
    intros He Hv. induction Hv as [|i r Hi Hr IH]; cbn; [reflexivity|].
    rewrite (extends_get _ _ _ He Hi), IH. reflexivity.
  Qed.

  Lemma NoDup_rev_iff (l : list nat) : NoDup l <-> NoDup (rev l).
  Proof. split; intro H; [now apply NoDup_rev | rewrite <- (rev_involutive l); now apply NoDup_rev]. Qed.

  (* ---------- Snapshot ---------- *)
  Lemma rev_cons_last (l : list nat) x rf : rev l = x :: rf -> l = rev rf ++ [x].
  Proof. intro H. apply (f_equal (@rev nat)) in H. rewrite rev_involutive in H. exact H. Qed.

  Lemma last_opt_of_rev (l : list nat) x rf : rev l = x :: rf -> last_opt l = Some x.
  Proof. intro H. rewrite (rev_cons_last _ _ _ H). apply last_opt_app. Qed.

  Lemma snap_trim_spec cl tail cl1 changed retired : inv cl -> snap_trim cl tail = Ok (cl1, changed, retired) ->
    inv cl1 /\ extends (cl_store cl) (cl_store cl1) /\
    (forall x, last_opt (cl_chunks cl1) = Some x -> last_opt (cl_chunks cl) = Some x \/ length (cl_store cl) <= x).
  Proof.
    intros [Hv Hnd] H. unfold snap_trim in H. bind_inv H. rename a into cells.
    destruct (Nat.ltb 0 tail && Nat.ltb tail (count_items (map (length (A:=item)) cells)))%bool.
    - bind_inv H. destruct a as [[s' rkept] ret]. inversion H; subst; clear H.
      set (n := length (cl_chunks cl)) in *.
      set (k := num_keep tail (rev (map (length (A:=item)) cells))) in *.
      assert (Hkv : Forall (fun i => i < length (cl_store cl)) (rev (skipn (n - k) (cl_chunks cl)))).
      { apply Forall_rev. rewrite Forall_forall in *. intros i Hi. apply Hv.
        rewrite <- (firstn_skipn (n - k) (cl_chunks cl)). apply in_or_app. now right. }
      assert (Hkn : NoDup (rev (skipn (n - k) (cl_chunks cl)))).
      { apply NoDup_rev. rewrite <- (firstn_skipn (n - k) (cl_chunks cl)) in Hnd.
        now apply NoDup_app_r in Hnd. }
      destruct (trim_rev_spec _ _ _ _ _ _ Hget0) as (He & Hl & Hin & Hnd' & Hhd).
      unfold inv. cbn [cl_store cl_chunks]. split; [split|split].
      + apply Forall_rev. rewrite Forall_forall. intros i Hi.
        destruct (Hin i Hi) as [Hi'|[-> Hlt]]; [|exact Hlt].
        pose proof (proj1 (Forall_forall _ _) Hkv _ Hi') as Hi2. cbn beta in Hi2. apply extends_len in He. lia.
      + apply NoDup_rev. now apply Hnd'.
      + exact He.
      + intros x Hx. rewrite last_opt_rev, rev_involutive in Hx.
        destruct rkept as [|b rk]; [discriminate|]. inversion Hx; subst.
        destruct (rev (skipn (n - k) (cl_chunks cl))) as [|a0 rr] eqn:Hrr; [contradiction|].
        destruct Hhd as [->|[-> _]]; [|right; lia].
        left. rewrite last_opt_rev.
        assert (Hrev : rev (cl_chunks cl) = rev (skipn (n - k) (cl_chunks cl)) ++ rev (firstn (n - k) (cl_chunks cl))).
        { rewrite <- rev_app_distr, firstn_skipn. reflexivity. }
        rewrite Hrev, Hrr. reflexivity.
    - inversion H; subst. split; [split; assumption|]. split; [apply extends_refl|]. auto.
  Qed.

  Lemma snap_dup_first_spec (s : store item) ids tail s1 ids1 : snap_dup_first s ids tail = Ok (s1, ids1) ->
    (s1 = s /\ ids1 = ids) \/
    (exists first rest c, ids = first :: rest /\ rest <> [] /\ get s first = Ok c /\ s1 = s ++ [c] /\ ids1 = length s :: rest).
  Proof.
    unfold snap_dup_first. intro H.
    destruct ids as [|first rest]; [inversion H; auto|].
    destruct rest as [|second rest]; [inversion H; auto|].
    destruct (Nat.ltb 0 tail); [|inversion H; auto].
    bind_inv H. destruct a as [sd nid]. inversion H; subst; clear H.
    destruct (dup_spec _ _ _ _ Hget) as (c & Hc & -> & ->). cbn [fst snd].
    right. exists first, (second :: rest), c. repeat split; auto. discriminate.
  Qed.

  Lemma snap_dup_last_spec (s : store item) ids s2 ids2 : snap_dup_last s ids = Ok (s2, ids2) ->
    (ids = [] /\ ids2 = [] /\ s2 = s) \/
    (exists lastid rfront c, rev ids = lastid :: rfront /\ get s lastid = Ok c /\ s2 = s ++ [c] /\ ids2 = rev rfront ++ [length s]).
  Proof.
    unfold snap_dup_last. intro H.
    destruct (rev ids) as [|lastid rfront] eqn:Hrev.
    - inversion H; subst. left. apply (f_equal (@rev nat)) in Hrev. rewrite rev_involutive in Hrev. auto.
    - bind_inv H. destruct a as [sd nid]. inversion H; subst; clear H.
      destruct (dup_spec _ _ _ _ Hget) as (c & Hc & -> & ->). cbn [fst snd].
      right. exists lastid, rfront, c. repeat split; auto.
  Qed.

  Lemma NoDup_last_notin (l : list nat) x rf : NoDup l -> rev l = x :: rf -> ~ In x rf.
  Proof.
    intros Hnd Hrev. apply NoDup_rev in Hnd. rewrite Hrev in Hnd. now inversion Hnd.
  Qed.

  Lemma snapshot_spec cl tail r : inv cl -> snapshot cl tail = Ok r ->
    inv (sn_cl r) /\ extends (cl_store cl) (cl_store (sn_cl r)) /\
    (forall id, frozen cl id -> frozen (sn_cl r) id) /\
    (forall id, In id (sn_ids r) -> frozen (sn_cl r) id).
  Proof.
    intros Hinv H. unfold snapshot in H.
    bind_inv H. destruct a as [[cl1 changed] retired].
    destruct (snap_trim_spec _ _ _ _ _ Hinv Hget) as ((Hv1 & Hnd1) & He1 & Hlast1).
    bind_inv H. destruct a as [s1 ids1]. bind_inv H. destruct a as [s2 ids2].
    bind_inv H. inversion H; subst; clear H. cbn [fst snd] in *. cbn [sn_cl sn_ids cl_store cl_chunks].
    pose proof (snap_dup_first_spec _ _ _ _ _ Hget0) as H1.
    pose proof (snap_dup_last_spec _ _ _ _ Hget1) as H2.
    assert (He12 : extends (cl_store cl1) s1).
    { destruct H1 as [[-> _]|(f & rs & c & _ & _ & _ & -> & _)]; [apply extends_refl | exists [c]; reflexivity]. }
    assert (He23 : extends s1 s2).
    { destruct H2 as [(_ & _ & ->)|(l & rf & c & _ & _ & -> & _)]; [apply extends_refl | exists [c]; reflexivity]. }
    pose proof (extends_len _ _ He1) as L1. pose proof (extends_len _ _ He12) as L2. pose proof (extends_len _ _ He23) as L3.
    assert (Hlastlt : forall x, last_opt (cl_chunks cl1) = Some x -> x < length (cl_store cl1)).
    { intros x Hx. apply last_opt_In in Hx. rewrite Forall_forall in Hv1. now apply Hv1. }
    split; [|split; [|split]].
    - split; [|exact Hnd1]. cbn. eapply Forall_lt_mono; [|exact Hv1]. lia.
    - cbn. eapply extends_trans; [exact He1|]. eapply extends_trans; eauto.
    - intros id [Hlt Hne]. split; cbn; [lia|].
      intro Hx. destruct (Hlast1 _ Hx) as [E|E]; [contradiction | lia].
    - intros id Hid. unfold frozen. cbn.
      destruct H2 as [(_ & -> & _)|(lastid & rfront & c & Hrev & _ & -> & ->)]; [destruct Hid|].
      rewrite app_length. cbn.
      apply in_app_or in Hid. destruct Hid as [Hid|[<-|[]]].
      2:{ split; [lia|]. intro Hx. apply Hlastlt in Hx. lia. }
      rewrite <- in_rev in Hid.
      destruct H1 as [[-> ->]|(first & rest & c1 & Hids & Hne & _ & -> & ->)].
      + (* ids1 = the chunks of the list *)
        split.
        * assert (In id (cl_chunks cl1)) by (rewrite (rev_cons_last _ _ _ Hrev); apply in_or_app; left; now rewrite <- in_rev).
          rewrite Forall_forall in Hv1. apply Hv1 in H. lia.
        * rewrite (last_opt_of_rev _ _ _ Hrev). intro E. inversion E; subst.
          exact (NoDup_last_notin _ _ _ Hnd1 Hrev Hid).
      + (* the first cell was duplicated as well *)
        rewrite app_length in *. cbn in *.
        destruct (rev rest) as [|l0 rf'] eqn:Hrr.
        { exfalso. apply Hne. apply (f_equal (@rev nat)) in Hrr. now rewrite rev_involutive in Hrr. }
        cbn in Hrev. inversion Hrev; subst l0 rfront. clear Hrev.
        assert (Hrc : rev (cl_chunks cl1) = lastid :: (rf' ++ [first])).
        { rewrite Hids. cbn. rewrite Hrr. reflexivity. }
        apply in_app_or in Hid. destruct Hid as [Hid|[<-|[]]].
        * split.
          -- assert (In id (cl_chunks cl1)).
             { rewrite (rev_cons_last _ _ _ Hrc). apply in_or_app. left. rewrite <- in_rev. apply in_or_app. now left. }
             rewrite Forall_forall in Hv1. apply Hv1 in H. lia.
          -- rewrite (last_opt_of_rev _ _ _ Hrc). intro E. inversion E; subst.
             apply (NoDup_last_notin _ _ _ Hnd1 Hrc). apply in_or_app. now left.
        * split; [lia|]. intro Hx. apply Hlastlt in Hx. lia.
  Qed.

  (* ---------- one operation ---------- *)
  Lemma cstep1_spec cl o cl' : inv cl -> cstep1 cl o = Ok cl' ->
    inv cl' /\ length (cl_store cl) <= length (cl_store cl') /\
    (forall id, frozen cl id -> frozen cl' id /\ get (cl_store cl') id = get (cl_store cl) id) /\
    (forall id c, get (cl_store cl) id = Ok c -> length c = chunk_size -> get (cl_store cl') id = Ok c).
  Proof.
    intros Hinv H. unfold cstep1, cstep in H. bind_inv H. inversion H; subst; clear H.
    destruct o as [x| | |t].
    - bind_inv Hget. inversion Hget; subst. cbn. now apply (push_gen_spec cl (Some x)).
    - bind_inv Hget. inversion Hget; subst. cbn. now apply (push_gen_spec cl None).
    - inversion Hget; subst. cbn. destruct Hinv as [Hv Hnd].
      split; [split; constructor|]. split; [lia|]. split.
      + intros id [Hlt _]. split; [split; [exact Hlt | cbn; discriminate] | reflexivity].
      + auto.
    - bind_inv Hget. inversion Hget; subst. cbn.
      destruct (snapshot_spec _ _ _ Hinv Hget0) as (Hi & He & Hf & _).
      split; [exact Hi|]. split; [now apply extends_len|]. split.
      + intros id Hfr. split; [now apply Hf|]. apply extends_get; [exact He | apply Hfr].
      + intros id c Hg _. rewrite (extends_get _ _ _ He); [exact Hg | eapply get_lt; eauto].
  Qed.

  Lemma crun1_spec ops : forall cl cl', inv cl -> crun1 cl ops = Ok cl' ->
    inv cl' /\
    (forall id, frozen cl id -> frozen cl' id /\ get (cl_store cl') id = get (cl_store cl) id) /\
    (forall id c, get (cl_store cl) id = Ok c -> length c = chunk_size -> get (cl_store cl') id = Ok c).
  Proof.
    induction ops as [|o r IH]; intros cl cl' Hinv H; cbn in H.
    - inversion H; subst. split; [exact Hinv|]. split; [intros; split; [assumption|reflexivity] | auto].
    - bind_inv H. destruct (cstep1_spec _ _ _ Hinv Hget) as (Hi & _ & Hf & Hfull).
      destruct (IH _ _ Hi H) as (Hi' & Hf' & Hfull').
      split; [exact Hi'|]. split.
      + intros id Hfr. destruct (Hf id Hfr) as [Hfr1 Hg1]. destruct (Hf' id Hfr1) as [Hfr2 Hg2].
        split; [exact Hfr2 | congruence].
      + intros id c Hg Hc. apply Hfull'; auto.
  Qed.

  Lemma inv_reachable ops cl : crun1 cl_empty ops = Ok cl -> inv cl.
  Proof. intro H. now destruct (crun1_spec _ _ _ inv_empty H). Qed.

  Lemma deref_all_same (s s' : store item) ids :
    (forall id, In id ids -> get s' id = get s id) -> deref_all s' ids = deref_all s ids.
  Proof.
    induction ids as [|i r IH]; intro H; cbn; [reflexivity|].
    rewrite (H i (or_introl eq_refl)), IH; [reflexivity|]. intros; apply H; now right.
  Qed.

  Lemma deref_all_ok (s : store item) ids : Forall (fun i => i < length s) ids -> exists cs, deref_all s ids = Ok cs.
  Proof.
    induction 1 as [|i r Hi Hr [cs IH]]; cbn; [eauto|].
    destruct (get_ok s i Hi) as [c ->]. rewrite IH. cbn. eauto.
  Qed.

  (* THEOREM snapshot_immutable *)
  Theorem snapshot_immutable_proof : forall (before : list cop) tail (after : list cop) (cl : clist) (r : snap_result item) (cl' : clist),
    crun1 cl_empty before = Ok cl -> snapshot cl tail = Ok r -> crun1 (sn_cl r) after = Ok cl' ->
    exists cells, deref_all (cl_store (sn_cl r)) (sn_ids r) = Ok cells /\
                  deref_all (cl_store cl') (sn_ids r) = Ok cells.
  Proof.
    intros before tail after cl r cl' Hb Hs Ha.
    pose proof (inv_reachable _ _ Hb) as Hinv.
    destruct (snapshot_spec _ _ _ Hinv Hs) as (Hi & _ & _ & Hfr).
    destruct (crun1_spec _ _ _ Hi Ha) as (_ & Hf & _).
    destruct (deref_all_ok (cl_store (sn_cl r)) (sn_ids r)) as [cells Hc].
    { rewrite Forall_forall. intros i Hin. apply (Hfr i Hin). }
    exists cells. split; [exact Hc|]. rewrite <- Hc. apply deref_all_same.
    intros id Hin. apply (Hf id (Hfr id Hin)).
  Qed.

  (* THEOREM full_never_mutated: once a cell holds chunk_size items, no operation changes it *)
  Theorem full_never_mutated_proof : forall (before after : list cop) (cl cl' : clist) id c,
    crun1 cl_empty before = Ok cl -> get (cl_store cl) id = Ok c -> length c = chunk_size ->
    crun1 cl after = Ok cl' -> get (cl_store cl') id = Ok c.
  Proof.
    intros before after cl cl' id c Hb Hg Hc Ha.
    pose proof (inv_reachable _ _ Hb) as Hinv.
    destruct (crun1_spec _ _ _ Hinv Ha) as (_ & _ & Hfull). now apply Hfull.
  Qed.

  (* ---------- counts ---------- *)
  (* every chunk except the first and the last is full *)
  Definition mid_full (lens : list nat) : Prop :=
    match lens with
    | [] => True
    | _ :: rest => Forall (fun n => n = chunk_size) (removelast rest)
    end.

  Lemma count_tail_sum r : forall b, Forall (fun n => n = chunk_size) (removelast (b :: r)) ->
    b + list_sum r = chunk_size * length r + last_of b r.
  Proof.
    induction r as [|c r IH]; intros b H.
    - cbn. unfold chunk_size. lia.
    - change (removelast (b :: c :: r)) with (b :: removelast (c :: r)) in H.
      inversion H as [|? ? Hb Hr]; subst. specialize (IH c Hr).
      change (list_sum (c :: r)) with (c + list_sum r). cbn [length last_of]. unfold chunk_size in *. lia.
  Qed.

  Lemma count_items_sum lens : mid_full lens -> count_items lens = list_sum lens.
  Proof.
    destruct lens as [|a [|b r]]; cbn [count_items mid_full]; intro H; try (cbn; lia).
    pose proof (count_tail_sum r b H). change (list_sum (a :: b :: r)) with (a + (b + list_sum r)). unfold chunk_size in *. lia.
  Qed.

  Lemma length_concat (cells : list (cell item)) : length (concat cells) = list_sum (map (@length item) cells).
  Proof. induction cells as [|c r IH]; cbn; [reflexivity | rewrite app_length, IH; reflexivity]. Qed.

  Lemma snapshot_count cl tail r : snapshot cl tail = Ok r ->
    exists cells, deref_all (cl_store (sn_cl r)) (sn_ids r) = Ok cells /\
                  sn_count r = count_items (map (@length item) cells).
  Proof.
    unfold snapshot. intro H. bind_inv H. destruct a as [[cl1 changed] retired].
    bind_inv H. bind_inv H. bind_inv H. inversion H; subst; clear H. cbn. eauto.
  Qed.

  (* THEOREM counts_consistent (partial: the shape invariant `mid_full` of the snapshot is a hypothesis here) *)
  Theorem counts_consistent_partial_proof : forall (cl : clist) tail (r : snap_result item) cells,
    snapshot cl tail = Ok r -> deref_all (cl_store (sn_cl r)) (sn_ids r) = Ok cells ->
    mid_full (map (@length item) cells) -> sn_count r = length (concat cells).
  Proof.
    intros cl tail r cells Hs Hd Hm. destruct (snapshot_count _ _ _ Hs) as (cells' & Hd' & Hc).
    rewrite Hd in Hd'. inversion Hd'; subst. rewrite Hc, length_concat. now apply count_items_sum.
  Qed.
  (* ---------- the shape invariant: every chunk of the list but the first and the last is full ---------- *)
  Definition cell_at (s : store item) (i : nat) : cell item := nth i s [].
  Definition lensof (s : store item) (ids : list nat) : list nat := map (fun i => length (cell_at s i)) ids.
  Definition shape (cl : clist) : Prop := mid_full (lensof (cl_store cl) (cl_chunks cl)).

  Lemma cell_at_get (s : store item) i : cell_at s i = match get s i with Ok c => c | Err _ => [] end.
  Proof. unfold cell_at. revert i; induction s as [|c s IH]; intros [|i]; cbn; auto. Qed.

  Lemma get_cell_at (s : store item) i c : get s i = Ok c -> cell_at s i = c.
  Proof. intro H. now rewrite cell_at_get, H. Qed.

  Lemma deref_all_cells (s : store item) ids cells : deref_all s ids = Ok cells -> cells = map (cell_at s) ids.
  Proof.
    revert cells; induction ids as [|i r IH]; intros cells H; cbn in H.
    - now inversion H.
    - bind_inv H. bind_inv H. inversion H; subst. cbn. f_equal; [symmetry; now apply get_cell_at | now apply IH].
  Qed.

  Lemma lens_of_cells (s : store item) ids cells : deref_all s ids = Ok cells -> map (@length item) cells = lensof s ids.
  Proof. intro H. rewrite (deref_all_cells _ _ _ H). unfold lensof. now rewrite map_map. Qed.

  Lemma cell_at_extends (s s' : store item) i : extends s s' -> i < length s -> cell_at s' i = cell_at s i.
  Proof. intros [e ->] H. unfold cell_at. now apply app_nth1. Qed.

  Lemma lensof_extends (s s' : store item) ids : extends s s' -> Forall (fun i => i < length s) ids ->
    lensof s' ids = lensof s ids.
  Proof.
    intros He Hv. unfold lensof. apply map_ext_in. intros i Hi. rewrite Forall_forall in Hv.
    now rewrite (cell_at_extends _ _ _ He (Hv i Hi)).
  Qed.

  Lemma cell_at_new (s : store item) c : cell_at (s ++ [c]) (length s) = c.
  Proof. unfold cell_at. apply nth_middle. Qed.

  Lemma cell_at_set (s s' : store item) lid c' i : set_nth s lid c' = Ok s' ->
    cell_at s' i = if Nat.eqb i lid then c' else cell_at s i.
  Proof.
    intro H. destruct (Nat.eqb_spec i lid) as [->|Hne].
    - apply get_cell_at. eapply get_set_same; eauto.
    - rewrite !cell_at_get. now rewrite (get_set_other _ _ _ _ _ H Hne).
  Qed.

  Lemma lensof_app (s : store item) a b : lensof s (a ++ b) = lensof s a ++ lensof s b.
  Proof. apply map_app. Qed.

  Lemma mid_full_snoc l a : mid_full (l ++ [a]) <-> Forall (fun n => n = chunk_size) (tl l).
  Proof.
    destruct l as [|f m]; cbn [app mid_full tl].
    - cbn. split; constructor.
    - now rewrite removelast_last.
  Qed.

  Lemma mid_full_tl x l : mid_full (x :: l) -> mid_full l.
  Proof.
    cbn [mid_full]. destruct l as [|y rest]; [constructor|]. cbn [mid_full].
    destruct rest as [|z rest']; [constructor|]. intro H.
    change (removelast (y :: z :: rest')) with (y :: removelast (z :: rest')) in H. now inversion H.
  Qed.

  Lemma mid_full_suffix a b : mid_full (a ++ b) -> mid_full b.
  Proof. induction a as [|x a IH]; cbn [app]; [auto|]. intro H. apply IH. now apply mid_full_tl in H. Qed.

  Lemma last_opt_split (l : list nat) x : last_opt l = Some x -> exists front, l = front ++ [x].
  Proof.
    rewrite last_opt_rev. destruct (rev l) as [|y rf] eqn:Hr; [discriminate|]. intro H; inversion H; subst.
    exists (rev rf). now apply rev_cons_last.
  Qed.

  Lemma last_opt_none (l : list nat) : last_opt l = None -> l = [].
  Proof. destruct l; [reflexivity | discriminate]. Qed.

  Lemma push_gen_shape cl x cl' : inv cl -> shape cl -> push_gen cl x = Ok cl' -> shape cl'.
  Proof.
    intros [Hv Hnd] Hs H. unfold push_gen in H. unfold shape in *.
    set (add := fun c : cell item => match x with Some v => c ++ [v] | None => c end) in *.
    destruct (last_opt (cl_chunks cl)) as [lid|] eqn:Hlast.
    - destruct (last_opt_split _ _ Hlast) as [front Hfront].
      bind_inv H. rewrite Hfront in *.
      apply Forall_app in Hv as [Hvf Hvl]. inversion Hvl as [|? ? Hlid _]; subst.
      rewrite lensof_app in Hs. cbn [lensof map] in Hs. rewrite (get_cell_at _ _ _ Hget) in Hs.
      destruct (Nat.eqb (length a) chunk_size) eqn:Hfull.
      + (* a new chunk behind a full one *)
        cbn in H. inversion H; subst; clear H. cbn [cl_store cl_chunks].
        apply Nat.eqb_eq in Hfull. rewrite Hfull in Hs.
        rewrite !lensof_app. cbn [lensof map]. rewrite cell_at_new.
        rewrite (lensof_extends (cl_store cl) _ front) by (auto; eexists; reflexivity).
        rewrite (cell_at_extends (cl_store cl)) by (auto; eexists; reflexivity).
        rewrite (get_cell_at _ _ _ Hget), Hfull.
        apply mid_full_snoc. apply mid_full_snoc in Hs.
        destruct front as [|f m]; cbn [app tl lensof map] in *; [constructor|].
        apply Forall_app. split; [exact Hs | repeat constructor].
      + (* one more item in the last chunk *)
        bind_inv H. inversion H; subst; clear H. cbn [cl_store cl_chunks].
        rewrite lensof_app. cbn [lensof map].
        assert (Hfr : lensof a0 front = lensof (cl_store cl) front).
        { unfold lensof. apply map_ext_in. intros i Hi. rewrite (cell_at_set _ _ _ _ i Hget0).
          destruct (Nat.eqb_spec i lid) as [->|]; [|reflexivity].
          exfalso. apply NoDup_remove_2 in Hnd. apply Hnd. rewrite app_nil_r. exact Hi. }
        rewrite Hfr. apply mid_full_snoc. now apply mid_full_snoc in Hs.
    - apply last_opt_none in Hlast. cbn in H. inversion H; subst; clear H. rewrite Hlast. cbn. constructor.
  Qed.

  (* the trim loop of Snapshot(tail), run on the chunks kept by the first loop, can only replace the LAST element of
     the reversed list, i.e. the FIRST kept chunk *)
  Lemma num_keep_0 l : num_keep 0 l = 0.
  Proof. destruct l; reflexivity. Qed.

  Lemma trim_only_last rids : forall (s : store item) left s' rids' ret,
    trim_rev s left (firstn (num_keep left (lensof s rids)) rids) = Ok (s', rids', ret) ->
    (s' = s /\ rids' = firstn (num_keep left (lensof s rids)) rids) \/
    (exists front oldid c', firstn (num_keep left (lensof s rids)) rids = front ++ [oldid] /\
                            rids' = front ++ [length s] /\ s' = s ++ [c']).
  Proof.
    induction rids as [|id r IH]; intros s left s' rids' ret H.
    - destruct left; cbn in H; inversion H; subst; now left.
    - destruct left as [|l].
      + rewrite num_keep_0 in *. cbn in H. inversion H; subst. now left.
      + cbn [lensof map num_keep firstn] in *. cbn [trim_rev] in H. bind_inv H.
        rewrite (get_cell_at _ _ _ Hget) in *.
        destruct (Nat.ltb (S l) (length a)) eqn:Hlt.
        * apply Nat.ltb_lt in Hlt. replace (S l - length a) with 0 in * by lia.
          rewrite num_keep_0 in *. cbn [firstn] in *. unfold alloc in H. inversion H; subst. right.
          exists [], id, (skipn (length a - S l) a). auto.
        * bind_inv H. destruct a0 as [[s1 r1] ret1]. inversion H; subst; clear H.
          destruct (IH _ _ _ _ _ Hget0) as [[-> ->]|(front & oldid & c' & Hf & -> & ->)]; [now left|].
          right. exists (id :: front), oldid, c'. unfold lensof in *. rewrite Hf. auto.
  Qed.

  Lemma snap_trim_shape cl tail cl1 changed retired : inv cl -> shape cl ->
    snap_trim cl tail = Ok (cl1, changed, retired) -> shape cl1.
  Proof.
    intros [Hv Hnd] Hs H. unfold snap_trim in H. bind_inv H. rename a into cells.
    destruct (Nat.ltb 0 tail && Nat.ltb tail (count_items (map (length (A:=item)) cells)))%bool;
      [|inversion H; subst; exact Hs].
    bind_inv H. destruct a as [[s' rkept] ret]. inversion H; subst; clear H.
    rewrite (lens_of_cells _ _ _ Hget) in Hget0.
    assert (Hrl : rev (lensof (cl_store cl) (cl_chunks cl)) = lensof (cl_store cl) (rev (cl_chunks cl)))
      by (unfold lensof; now rewrite map_rev).
    rewrite Hrl, <- firstn_rev in Hget0.
    set (k := num_keep tail (lensof (cl_store cl) (rev (cl_chunks cl)))) in *.
    (* the kept chunks are a suffix of the list *)
    assert (Hsuf : cl_chunks cl = rev (skipn k (rev (cl_chunks cl))) ++ rev (firstn k (rev (cl_chunks cl)))).
    { rewrite <- rev_app_distr, firstn_skipn, rev_involutive. reflexivity. }
    unfold shape in *. cbn [cl_store cl_chunks].
    rewrite Hsuf, lensof_app in Hs. apply mid_full_suffix in Hs. unfold k in *. clear k.
    destruct (trim_only_last _ _ _ _ _ _ Hget0) as [[-> ->]|(front & oldid & c' & Hf & -> & ->)]; [exact Hs|].
    rewrite Hf in Hs. rewrite !rev_app_distr in *. cbn [rev app] in *. cbn [lensof map] in *.
    assert (Hfv : Forall (fun i => i < length (cl_store cl)) (rev front)).
    { apply Forall_rev. rewrite Forall_forall in *. intros i Hi. apply Hv. rewrite Hsuf. apply in_or_app. right.
      rewrite <- in_rev, Hf. apply in_or_app. now left. }
    fold (lensof (cl_store cl ++ [c']) (rev front)). fold (lensof (cl_store cl) (rev front)) in Hs.
    rewrite (lensof_extends (cl_store cl)) by (auto; eexists; reflexivity). exact Hs.
  Qed.

  Lemma snapshot_shape cl tail r : inv cl -> shape cl -> snapshot cl tail = Ok r ->
    shape (sn_cl r) /\ lensof (cl_store (sn_cl r)) (sn_ids r) = lensof (cl_store (sn_cl r)) (cl_chunks (sn_cl r)).
  Proof.
    intros Hinv Hs H. unfold snapshot in H.
    bind_inv H. destruct a as [[cl1 changed] retired].
    pose proof (snap_trim_shape _ _ _ _ _ Hinv Hs Hget) as Hs1.
    destruct (snap_trim_spec _ _ _ _ _ Hinv Hget) as ((Hv1 & Hnd1) & _ & _).
    bind_inv H. destruct a as [s1 ids1]. bind_inv H. destruct a as [s2 ids2].
    bind_inv H. inversion H; subst; clear H. cbn [fst snd] in *. cbn [sn_cl sn_ids cl_store cl_chunks].
    pose proof (snap_dup_first_spec _ _ _ _ _ Hget0) as H1.
    pose proof (snap_dup_last_spec _ _ _ _ Hget1) as H2.
    assert (He12 : extends (cl_store cl1) s1).
    { destruct H1 as [[-> _]|(f & rs & c & _ & _ & _ & -> & _)]; [apply extends_refl | exists [c]; reflexivity]. }
    assert (He23 : extends s1 s2).
    { destruct H2 as [(_ & _ & ->)|(l & rf & c & _ & _ & -> & _)]; [apply extends_refl | exists [c]; reflexivity]. }
    pose proof (extends_len _ _ He12) as L2.
    assert (Hv1' : Forall (fun i => i < length s1) (cl_chunks cl1)) by (eapply Forall_lt_mono; [|exact Hv1]; lia).
    (* step 1: the copy of the first cell has the length of the original *)
    assert (S1 : lensof s1 ids1 = lensof s1 (cl_chunks cl1) /\ Forall (fun i => i < length s1) ids1).
    { destruct H1 as [[-> ->]|(first & rest & c & Hids & _ & Hc & -> & ->)]; [split; [reflexivity | exact Hv1]|].
      rewrite Hids in *. cbn [lensof map]. rewrite cell_at_new. split.
      - f_equal. inversion Hv1; subst.
        rewrite (cell_at_extends (cl_store cl1)) by (auto; eexists; reflexivity). now rewrite (get_cell_at _ _ _ Hc).
      - inversion Hv1'; subst. constructor; [rewrite app_length; cbn; lia | assumption]. }
    destruct S1 as [S1 Hvi].
    split.
    - unfold shape in *. cbn [cl_store cl_chunks].
      rewrite (lensof_extends (cl_store cl1)); [exact Hs1 | eapply extends_trans; eauto | exact Hv1].
    - (* step 2: the copy of the last cell *)
      assert (S2 : lensof s2 ids2 = lensof s2 ids1).
      { destruct H2 as [(-> & -> & ->)|(lastid & rfront & c & Hrev & Hc & -> & ->)]; [reflexivity|].
        rewrite (rev_cons_last _ _ _ Hrev) in *. rewrite !lensof_app. cbn [lensof map]. rewrite cell_at_new.
        apply Forall_app in Hvi as [_ Hl]. inversion Hl; subst.
        rewrite (cell_at_extends s1 (s1 ++ [c]) lastid) by (auto; eexists; reflexivity).
        now rewrite (get_cell_at _ _ _ Hc). }
      rewrite S2, (lensof_extends s1 s2 ids1 He23 Hvi), S1. symmetry. now apply lensof_extends.
  Qed.

  Lemma cstep1_shape cl o cl' : inv cl -> shape cl -> cstep1 cl o = Ok cl' -> shape cl'.
  Proof.
    intros Hinv Hs H. unfold cstep1, cstep in H. bind_inv H. inversion H; subst; clear H.
    destruct o as [x| | |t].
    - bind_inv Hget. inversion Hget; subst. eapply push_gen_shape; eauto.
    - bind_inv Hget. inversion Hget; subst. eapply push_gen_shape; eauto.
    - inversion Hget; subst. constructor.
    - bind_inv Hget. inversion Hget; subst. cbn. now destruct (snapshot_shape _ _ _ Hinv Hs Hget0).
  Qed.

  (* THEOREM mid_full_reachable: the shape invariant holds for every reachable chunk list *)
  Theorem shape_reachable_proof : forall (ops : list cop) (cl : clist), crun1 cl_empty ops = Ok cl -> inv cl /\ shape cl.
  Proof.
    assert (G : forall ops cl0 cl, inv cl0 -> shape cl0 -> crun1 cl0 ops = Ok cl -> inv cl /\ shape cl).
    { induction ops as [|o r IH]; intros cl0 cl Hi Hs H; cbn in H.
      - inversion H; subst. auto.
      - bind_inv H. destruct (cstep1_spec _ _ _ Hi Hget) as (Hi' & _). eapply IH; eauto using cstep1_shape. }
    intros ops cl H. apply (G ops cl_empty cl inv_empty); [constructor | exact H].
  Qed.

  (* THEOREM counts_consistent: the count reported with a snapshot of any reachable list, with or without --tail,
     is the number of items the snapshot dereferences to *)
  Theorem counts_consistent_proof : forall (before : list cop) tail (cl : clist) (r : snap_result item) cells,
    crun1 cl_empty before = Ok cl -> snapshot cl tail = Ok r ->
    deref_all (cl_store (sn_cl r)) (sn_ids r) = Ok cells ->
    sn_count r = length (concat cells) /\ mid_full (map (@length item) cells).
  Proof.
    intros before tail cl r cells Hb Hsn Hd.
    destruct (shape_reachable_proof _ _ Hb) as [Hi Hs].
    destruct (snapshot_shape _ _ _ Hi Hs Hsn) as [Hs' Hl].
    assert (Hm : mid_full (map (@length item) cells)).
    { rewrite (lens_of_cells _ _ _ Hd), Hl. exact Hs'. }
    split; [|exact Hm]. now apply (counts_consistent_partial_proof cl tail r cells).
  Qed.
End Proofs.
