(* C20 proofs: invariants of the preview transition system (model/PreviewModel.v) for ALL schedules,
   and the property theorems restated in Properties/C20.v. *)
From Fzf Require Import Prelude PreviewSpec PreviewModel.
Open Scope Z_scope.

(* ------------------------------------------------------------------ generic *)

Lemma run_app pol a b s : run pol (a ++ b) s = run pol b (run pol a s).
Proof. revert s; induction a as [|l a IH]; intro s; cbn; [reflexivity|apply IH]. Qed.

Lemma run_invariant (P : state -> Prop) pol :
  (forall l s s', P s -> step pol l s = Some s' -> P s') ->
  forall sched s, P s -> P (run pol sched s).
Proof.
  intros Hstep sched; induction sched as [|l r IH]; intros s Hs; cbn; [exact Hs|].
  apply IH. unfold step'. destruct (step pol l s) as [s'|] eqn:E; [eapply Hstep; eauto|exact Hs].
Qed.

(* break a `step ... = Some s'` hypothesis into its enabled cases *)
Ltac brk H :=
  repeat (cbn in H; match type of H with
  | (if ?c then _ else _) = Some _ => let E := fresh "E" in destruct c eqn:E
  | (match ?x with _ => _ end) = Some _ => let E := fresh "E" in destruct x eqn:E
  | None = Some _ => discriminate H
  end).

Ltac open_step H :=
  unfold step in H; brk H; injection H as <-;
  unfold refresh, set_ui, set_ph, set_tab_ph_disp, cancel_ph, killnow_ph; cbn.

Ltac split_ifs :=
  repeat match goal with
  | |- context[if ?c then _ else _] => let E := fresh "E" in destruct c eqn:E; cbn
  end.

Ltac bools :=
  repeat match goal with
  | H : _ && _ = true |- _ => apply andb_true_iff in H; destruct H
  | H : _ && _ = false |- _ => apply andb_false_iff in H
  | H : negb _ = true |- _ => apply negb_true_iff in H
  | H : negb _ = false |- _ => apply negb_false_iff in H
  end.

(* ------------------------------------------------------------------ process table *)

Definition all_dead (l : list proc) : Prop := forall p, In p l -> p_alive p = false.

(* early = pol_early of the machine: only when finishChan is sent after cmd.Wait() (early = false) does "goroutine 3
   has left" imply "the process is gone" *)
Definition ph_tab_ok (early : bool) (ph : phase) (tab : list proc) (pver : nat) : Prop :=
  match ph with
  | PRun w _ _ =>
      exists p t, tab = p :: t /\ all_dead t /\ p_ver p = pver /\ (early = false -> w = WDone -> p_alive p = false)
  | PIdle => all_dead tab /\ match tab with p :: _ => p_ver p = pver | [] => True end
  | _ => all_dead tab
  end.
Definition tab_ok (pol : policy) (s : state) : Prop := ph_tab_ok (pol_early pol) (s_ph s) (s_tab s) (s_pver s).

Lemma all_dead_nil : all_dead []. Proof. intros p []. Qed.
Lemma all_dead_cons p t : p_alive p = false -> all_dead t -> all_dead (p :: t).
Proof. intros Hp Ht q [<-|Hq]; auto. Qed.
Lemma all_dead_inv p t : all_dead (p :: t) -> p_alive p = false /\ all_dead t.
Proof. intro H; split; [apply H; left; reflexivity|intros q Hq; apply H; right; exact Hq]. Qed.

Lemma cancel_tab_ok e ph tab pver : ph_tab_ok e ph tab pver -> ph_tab_ok e (cancel_ph ph) tab pver.
Proof.
  destruct ph as [| |[] rd d|]; cbn; auto.
  intros (p & t & -> & Ht & Hv & Hd). exists p, t. repeat split; auto. destruct rd; discriminate.
Qed.
Lemma killnow_tab_ok e ph tab pver : ph_tab_ok e ph tab pver -> ph_tab_ok e (killnow_ph ph) tab pver.
Proof.
  destruct ph as [| |[] rd d|]; cbn; auto.
  intros (p & t & -> & Ht & Hv & Hd). exists p, t. repeat split; auto. discriminate.
Qed.

Ltac open_step' H :=
  unfold step in H; brk H; injection H as <-;
  unfold refresh, set_ui, set_ph, set_tab_ph_disp; cbn.

Lemma tab_ok_step pol l s s' : tab_ok pol s -> step pol l s = Some s' -> tab_ok pol s'.
Proof.
  unfold tab_ok. destruct s as [ui tm vis ver seen pend box quit pver ph disp sv sh rn evq en tab gen cl].
  intros I H. cbn in I. destruct l; open_step' H; split_ifs; subst; cbn in *;
    try exact I; try (apply cancel_tab_ok; exact I); try (apply killnow_tab_ok; exact I).
  all: try (destruct I as (p & t & -> & Ht & Hv & Hd); cbn in * ).
  all: try solve [destruct I; auto].
  all: try solve [exists (mkP pver r true true []), tab; repeat split; auto; discriminate].
  all: try solve [split; [apply all_dead_cons; auto|exact Hv]].
  all: try solve [eexists _, t; repeat split; eauto; try discriminate; cbn; auto].
Qed.

Lemma tab_ok_init pol t u : tab_ok pol (init t u).
Proof. cbn. split; [apply all_dead_nil|exact I]. Qed.

Lemma tab_ok_run pol sched t u : tab_ok pol (run pol sched (init t u)).
Proof. apply run_invariant with (P := tab_ok pol); [intros; eapply tab_ok_step; eauto|apply tab_ok_init]. Qed.

Lemma filter_all_dead l : all_dead l -> filter p_alive l = [].
Proof.
  induction l as [|p l IH]; intro H; cbn; [reflexivity|].
  apply all_dead_inv in H as [Hp Hl]. rewrite Hp. auto.
Qed.

Lemma tab_ok_alive pol s : tab_ok pol s ->
  alive_procs s = [] \/ exists p t, s_tab s = p :: t /\ alive_procs s = [p] /\ is_run (s_ph s) = true.
Proof.
  unfold tab_ok, ph_tab_ok, alive_procs. destruct (s_ph s) as [| |w rd d|] eqn:E; intro H.
  - left. apply filter_all_dead. apply H.
  - left. apply filter_all_dead. exact H.
  - destruct H as (p & t & -> & Ht & _ & _). cbn. rewrite (filter_all_dead t Ht).
    destruct (p_alive p); [right; exists p, t; auto|left; reflexivity].
  - left. apply filter_all_dead. exact H.
Qed.

(* ------------------------------------------------------------------ versions *)

Definition ver_ok (s : state) : Prop :=
  (s_shown_ver s <= s_pver s)%nat /\
  match s_disp s with Some (v, _) => (s_shown_ver s <= v)%nat /\ (v <= s_pver s)%nat | None => True end.

Lemma ver_ok_step pol l s s' : ver_ok s -> step pol l s = Some s' ->
  ver_ok s' /\ (s_shown_ver s <= s_shown_ver s')%nat.
Proof.
  unfold ver_ok. destruct s as [ui tm vis ver seen pend box quit pver ph disp sv sh rn evq en tab gen cl].
  intros [I1 I2] H. cbn in I1, I2. destruct l; open_step H; split_ifs; subst; cbn in *;
    try (destruct disp as [[v0 ls0]|]); repeat split; try lia; try tauto.
Qed.

Lemma ver_ok_run pol sched t u : ver_ok (run pol sched (init t u)).
Proof.
  apply run_invariant with (P := ver_ok); [intros l s s' Hs H; eapply ver_ok_step in H; tauto|].
  cbn. unfold ver_ok; cbn. lia.
Qed.

(* ------------------------------------------------------------------ session life cycle *)

Definition life_ok (pol : policy) (s : state) : Prop :=
  (s_running s = true -> s_quit s = false /\ s_evtquit s = false /\ s_ended s = false) /\
  (s_ph s = PStop -> s_quit s = true) /\
  (s_ended s = true -> s_evtquit s = true) /\
  (pol_exit pol = ExitWaitsStopped -> s_evtquit s = true -> s_ph s = PStop).

Lemma life_ok_step pol l s s' : life_ok pol s -> step pol l s = Some s' -> life_ok pol s'.
Proof.
  unfold life_ok. destruct s as [ui tm vis ver seen pend box quit pver ph disp sv sh rn evq en tab gen cl].
  intros (I1 & I2 & I3 & I4) H. cbn in I1, I2, I3, I4.
  destruct l; open_step H; split_ifs; subst; cbn in *; bools;
    repeat split; intros; subst; try discriminate; try tauto; try congruence;
    try solve [destruct ph as [| |[] ? ?|]; cbn in *; try discriminate; tauto];
    try solve [destruct I1; auto; tauto].
  all: try solve [destruct (pol_exit pol); cbn in *; try discriminate; destruct ph; cbn in *; try discriminate; auto].
  all: try solve [exfalso; match goal with I : true = true -> _ |- _ => destruct (I eq_refl) as (? & ? & ?); discriminate end].
  all: try solve [exfalso; match goal with I : ?a -> ?b -> _ = PStop, H1 : ?a, H2 : ?b |- _ =>
                    specialize (I H1 H2); try discriminate; subst; cbn in *; discriminate end].
  all: try solve [match goal with I : ?a -> ?b -> _ = PStop, H1 : ?a, H2 : ?b |- _ =>
                    specialize (I H1 H2); subst; reflexivity end].
  all: try solve [exfalso; match goal with I : ?a -> true = true -> _ = PStop, H1 : ?a |- _ =>
                    specialize (I H1 eq_refl); discriminate end].
Qed.

Lemma life_ok_run pol sched t u : life_ok pol (run pol sched (init t u)).
Proof.
  apply run_invariant with (P := life_ok pol); [intros; eapply life_ok_step; eauto|].
  unfold life_ok; cbn. repeat split; intros; try discriminate; auto.
Qed.

(* ------------------------------------------------------------------ requests follow the UI *)

Lemma expand_build t u : expand_req (build_req t u) = Ok (expansion t u).
Proof.
  unfold expand_req, build_req, build_list, expansion; cbn.
  destruct (t_slot t), (t_q t), (t_plus t), (u_sel u); cbn; reflexivity.
Qed.

(* the newest request that is in the mailbox, in the previewer's hands, or was started last *)
Definition latest_of (box : option request) (ph : phase) (tab : list proc) : option request :=
  match box with
  | Some r => Some r
  | None => match ph with
            | PTaken r => Some r
            | _ => match tab with p :: _ => Some (p_req p) | [] => None end
            end
  end.
Definition latest_req (s : state) : option request := latest_of (s_box s) (s_ph s) (s_tab s).

Lemma latest_cancel box ph tab : latest_of box (cancel_ph ph) tab = latest_of box ph tab.
Proof. destruct box, ph as [| |[] ? ?|]; reflexivity. Qed.
Lemma latest_killnow box ph tab : latest_of box (killnow_ph ph) tab = latest_of box ph tab.
Proof. destruct box, ph as [| |[] ? ?|]; reflexivity. Qed.
Lemma latest_upd box ph tab f : (forall p, p_req (f p) = p_req p) ->
  latest_of box ph (upd_hd tab f) = latest_of box ph tab.
Proof. intro Hf. destruct box, ph, tab; cbn; try reflexivity; rewrite Hf; reflexivity. Qed.

Lemma seen_eqb_true a f v : seen_eqb a f v = true -> a = Some (f, v).
Proof.
  destruct a as [[f' v']|]; cbn; [|discriminate]. intro H. apply andb_true_iff in H as [H1 H2].
  apply Z.eqb_eq in H1. apply Nat.eqb_eq in H2. subst; reflexivity.
Qed.

Definition sync_ok (s : state) : Prop :=
  (s_pending s = false -> s_seen s = Some (u_focus (s_ui s), s_version s)) /\
  (forall f v, s_gen s = Some (f, v) -> (v <= s_version s)%nat) /\
  (s_clean s = true -> s_visible s = true -> s_gen s = s_seen s) /\
  (s_visible s = true -> forall f v, s_gen s = Some (f, v) -> v = s_version s ->
     exists r, latest_req s = Some r /\
               expand_req r = Ok (expansion (s_tmpl s) (mkU f (u_query (s_ui s)) (u_sel (s_ui s))))).

Ltac fresh_req :=
  match goal with
  | H : Some (_, _) = Some (?f, ?v) |- exists r, _ => injection H as <- <-; eexists; split; [reflexivity|apply expand_build]
  end.

Lemma sync_ok_step pol l s s' : sync_ok s -> step pol l s = Some s' -> sync_ok s'.
Proof.
  unfold sync_ok, latest_req.
  destruct s as [ui tm vis ver seen pend box quit pver ph disp sv sh rn evq en tab gen cl].
  intros (IA & IG & ID & IC) H. destruct ui as [uf uq us]. cbn in IA, IG, ID, IC.
  destruct l; open_step' H; split_ifs; subst; cbn in *;
    rewrite ?latest_cancel, ?latest_killnow;
    (split; [|split; [|split]]); cbn; try assumption.
  (* A *)
  all: try solve [intros; discriminate].
  all: try solve [intros _; apply seen_eqb_true; assumption].
  all: try solve [intros; reflexivity].
  (* G *)
  all: try solve [intros f0 v0 Hg; try (injection Hg as <- <-; lia); specialize (IG f0 v0 Hg); lia].
  (* D *)
  all: try solve [intros Hc Hv; try discriminate; bools; subst; cbn in *; try discriminate; auto;
                  try (rewrite IA by reflexivity; reflexivity)].
  (* C *)
  all: try solve [intros Hv f0 v0 Hg Hver; try discriminate; try fresh_req].
  all: try solve [intros Hv f0 v0 Hg Hver; destruct (IC Hv f0 v0 Hg Hver) as (r0 & Hr & He); exists r0; split; auto;
                  try (rewrite latest_upd by (intros []; reflexivity); exact Hr)].
  all: try solve [intros Hv f0 v0 Hg Hver; specialize (IG f0 v0 Hg); lia].
  (* query changed, template without {q}: the expansion does not mention the query *)
  intros Hv f0 v0 Hg Hver. destruct (IC Hv f0 v0 Hg Hver) as (r0 & Hr & He). exists r0; split; auto.
  subst vis. cbn in *. unfold expansion in *; cbn in *. rewrite E2 in *. exact He.
Qed.

Lemma sync_ok_run pol sched t u : sync_ok (run pol sched (init t u)).
Proof.
  apply run_invariant with (P := sync_ok); [intros; eapply sync_ok_step; eauto|].
  unfold sync_ok; cbn. repeat split; intros; discriminate.
Qed.

(* ------------------------------------------------------------------ what the window shows *)

(* the newest published result: waiting in reqBox, or already copied into t.previewer *)
Definition published (disp : option (nat * list str)) (sv : nat) (sh : list str) : nat * list str :=
  match disp with Some d => d | None => (sv, sh) end.

Definition disp_ok (s : state) : Prop :=
  s_visible s = true -> s_box s = None ->
  match s_ph s with
  | PRun _ rd d =>
      if hd_open (s_tab s) then
        match rd, d with
        | true, false => published (s_disp s) (s_shown_ver s) (s_shown s) = (s_pver s, hd_out (s_tab s))
        | false, false => hd_out (s_tab s) = []
        | _, _ => True
        end
      else (* the output has ended: goroutine 2 has published all of it *)
        published (s_disp s) (s_shown_ver s) (s_shown s) = (s_pver s, hd_out (s_tab s))
  | PIdle => s_tab s <> [] -> published (s_disp s) (s_shown_ver s) (s_shown s) = (s_pver s, hd_out (s_tab s))
  | _ => True
  end.

Lemma hd_out_kill tab : hd_out (upd_hd tab kill_p) = hd_out tab.
Proof. destruct tab; reflexivity. Qed.
Lemma hd_open_kill tab : hd_open (upd_hd tab kill_p) = hd_open tab.
Proof. destruct tab; reflexivity. Qed.
Lemma hd_out_close tab : hd_out (upd_hd tab close_p) = hd_out tab.
Proof. destruct tab; reflexivity. Qed.
Lemma hd_open_close tab : hd_alive tab = true -> hd_open (upd_hd tab close_p) = false.
Proof. destruct tab; [discriminate|reflexivity]. Qed.
Lemma hd_open_out tab l : hd_open (upd_hd tab (out_p l)) = hd_open tab.
Proof. destruct tab; reflexivity. Qed.

Lemma disp_ok_step pol l s s' : disp_ok s -> step pol l s = Some s' -> disp_ok s'.
Proof.
  unfold disp_ok.
  destruct s as [ui tm vis ver seen pend box quit pver ph disp sv sh rn evq en tab gen cl].
  intros I H. cbn in I.
  destruct l; open_step H; split_ifs; subst; cbn in *; rewrite ?hd_out_kill, ?hd_open_kill;
    try exact I; try (intros; discriminate); try (intros; exact I0).
  all: try solve [intros Hv Hb; specialize (I Hv Hb); destruct ph as [| |[] [] []|]; cbn in *; auto].
  all: try solve [intros Hv Hb; try discriminate; specialize (I Hv Hb); cbn in *; auto;
                  destruct rendered, dirty; cbn in *; auto].
  all: try solve [intros; reflexivity].
  all: try solve [intros Hv Hb; specialize (I Hv Hb); destruct rendered; cbn in *; auto].
  all: try solve [intros Hv Hb; specialize (I Hv Hb); rewrite ?hd_out_close, ?hd_out_kill; bools;
                  repeat match goal with
                  | E : context[hd_open (upd_hd _ kill_p)] |- _ => rewrite hd_open_kill in E
                  | E : context[hd_open (upd_hd _ (out_p _))] |- _ => rewrite hd_open_out in E
                  end;
                  repeat match goal with E : hd_open ?t = _ |- _ => rewrite E in *; clear E end;
                  cbn in *; auto; try discriminate; try congruence;
                  try (destruct rendered; cbn in *; auto); try (destruct dirty; cbn in *; auto)].
Qed.

Lemma disp_ok_run pol sched t u : disp_ok (run pol sched (init t u)).
Proof.
  apply run_invariant with (P := disp_ok); [intros; eapply disp_ok_step; eauto|].
  unfold disp_ok; cbn. intros _ _ H; exfalso; apply H; reflexivity.
Qed.

(* ------------------------------------------------------------------ all invariants together *)

Record inv (pol : policy) (s : state) : Prop := mkInv {
  i_tab : tab_ok pol s; i_ver : ver_ok s; i_life : life_ok pol s; i_sync : sync_ok s; i_disp : disp_ok s }.

Lemma inv_run pol sched t u : inv pol (run pol sched (init t u)).
Proof.
  constructor; [apply tab_ok_run|apply ver_ok_run|apply life_ok_run|apply sync_ok_run|apply disp_ok_run].
Qed.

(* ------------------------------------------------------------------ shape of stable / quiescent states *)

Lemma quiescent_shape pol s : life_ok pol s -> tab_ok pol s -> quiescent pol s = true ->
  s_pending s = false /\ s_box s = None /\ s_disp s = None /\ s_running s = true /\
  (s_ph s = PIdle \/ exists w rd d, s_ph s = PRun w rd d /\ hd_alive (s_tab s) = true /\
                                   (hd_open (s_tab s) = true -> d = false)).
Proof.
  destruct s as [ui tm vis ver seen pend box quit pver ph disp sv sh rn evq en tab gen cl].
  unfold quiescent, box_empty, life_ok, tab_ok; cbn. intros (L1 & L2 & _) T Q.
  apply andb_true_iff in Q as [Q Qb]. apply andb_true_iff in Q as [Q Qe]. apply andb_true_iff in Q as [Q Qr].
  subst rn. destruct (L1 eq_refl) as (-> & -> & ->). destruct box; [discriminate|].
  unfold stable, internal_labels, enabled, step in Q; cbn in Q.
  destruct pend; [cbn in Q; destruct (seen_eqb seen (u_focus ui) ver); cbn in Q; discriminate|].
  destruct disp as [[? ?]|]; [cbn in Q; discriminate|].
  repeat split; auto.
  destruct ph as [| |w rd d|]; cbn in *.
  - left; reflexivity.
  - discriminate.
  - right. destruct T as (p & t & -> & _ & _ & Hd). cbn in *.
    destruct (p_alive p) eqn:Ea; [|cbn in Q; discriminate]. cbn in Q.
    exists w, rd, d. repeat split; auto. intro Ho. rewrite Ho in Q.
    destruct w, d; cbn in Q; try discriminate; reflexivity.
  - left. exfalso. specialize (L2 eq_refl). discriminate.
Qed.

(* ------------------------------------------------------------------ the property theorems *)

Theorem at_most_one_alive_proof : forall pol sched t u,
  (length (alive_procs (run pol sched (init t u))) <= 1)%nat.
Proof.
  intros. destruct (tab_ok_alive _ _ (tab_ok_run pol sched t u)) as [->|(p & tl & _ & -> & _)]; cbn; lia.
Qed.

Lemma latest_wins_state pol s : inv pol s ->
  quiescent pol s = true -> s_visible s = true -> s_clean s = true ->
  exists p rest, s_tab s = p :: rest /\
    expand_req (p_req p) = Ok (expansion (s_tmpl s) (s_ui s)) /\
    (p_out p <> [] \/ p_alive p = false -> s_shown s = p_out p /\ s_shown_ver s = p_ver p).
Proof.
  intros [T _ Lf Sy Dp] Q Hv Hc.
  destruct (quiescent_shape pol s Lf T Q) as (Hp & Hb & Hd & Hr & Hph).
  destruct Sy as (SA & _ & SD & SC).
  specialize (SA Hp). specialize (SD Hc Hv). rewrite SA in SD.
  destruct (SC Hv _ _ SD eq_refl) as (r & Hr1 & Hr2).
  unfold latest_req, latest_of in Hr1. rewrite Hb in Hr1.
  specialize (Dp Hv Hb). unfold tab_ok, ph_tab_ok in T.
  assert (Hui : {| u_focus := u_focus (s_ui s); u_query := u_query (s_ui s); u_sel := u_sel (s_ui s) |} = s_ui s)
    by (destruct (s_ui s); reflexivity).
  rewrite Hui in Hr2.
  destruct Hph as [Hph|(w & rd & d & Hph & Hal & Hod)]; rewrite Hph in *.
  - destruct (s_tab s) as [|p rest] eqn:Et; [discriminate|]. injection Hr1 as <-.
    exists p, rest. repeat split; auto.
    + assert (Hne : p :: rest <> []) by discriminate. specialize (Dp Hne). rewrite Hd in Dp. cbn in Dp. congruence.
    + assert (Hne : p :: rest <> []) by discriminate. specialize (Dp Hne). rewrite Hd in Dp. cbn in Dp.
      destruct T as [_ T]. congruence.
  - destruct T as (p & rest & Et & _ & Tv & _). rewrite Et in *. injection Hr1 as <-.
    exists p, rest. split; [reflexivity|split; [exact Hr2|]]. cbn in Hal.
    intros [Hne|Hdead]; [|congruence]. cbn in Dp, Hod.
    destruct (p_open p) eqn:Eo.
    + rewrite (Hod eq_refl) in Dp.
      destruct rd; cbn in Dp; [rewrite Hd in Dp; cbn in Dp; split; congruence|contradiction].
    + rewrite Hd in Dp; cbn in Dp; split; congruence.
Qed.

Theorem latest_wins_proof : forall pol sched t u,
  let s := run pol sched (init t u) in
  quiescent pol s = true -> s_visible s = true -> s_clean s = true ->
  exists p rest, s_tab s = p :: rest /\
    expand_req (p_req p) = Ok (expansion (s_tmpl s) (s_ui s)) /\
    (p_out p <> [] \/ p_alive p = false -> s_shown s = p_out p /\ s_shown_ver s = p_ver p).
Proof. intros. apply latest_wins_state with (pol := pol); auto. apply inv_run. Qed.

Theorem superseded_get_cancel_proof : forall pol sched t u,
  let s := run pol sched (init t u) in
  quiescent pol s = true -> s_visible s = true -> s_clean s = true ->
  forall p, In p (alive_procs s) -> expand_req (p_req p) = Ok (expansion (s_tmpl s) (s_ui s)).
Proof.
  intros pol sched t u s Q Hv Hc p Hin.
  destruct (latest_wins_state pol s (inv_run pol sched t u) Q Hv Hc) as (p0 & rest & Et & He & _).
  destruct (tab_ok_alive pol s (tab_ok_run pol sched t u)) as [E|(p1 & tl & Et1 & E & _)]; fold s in E; rewrite E in Hin.
  - destruct Hin.
  - fold s in Et1. destruct Hin as [<-|[]]. congruence.
Qed.

(* with the mailbox poll of b3cab5f a stable state of a live session has an empty mailbox: the preview cannot get
   stuck behind a superseded command (fairness: poll / timer / previewer labels that are enabled eventually fire,
   so a session left alone reaches a stable state or keeps receiving output of one never-ending command) *)
Lemma stable_quiescent_state pol s : life_ok pol s -> tab_ok pol s -> pol_poll pol = true -> pol_early pol = false ->
  stable pol s = true -> s_running s = true -> quiescent pol s = true.
Proof.
  destruct s as [ui tm vis ver seen pend box quit pver ph disp sv sh rn evq en tab gen cl].
  unfold quiescent, box_empty, life_ok, tab_ok; cbn. intros (L1 & L2 & _) T Hpoll Hearly Q Hr.
  subst rn. destruct (L1 eq_refl) as (-> & -> & ->). rewrite Q. cbn.
  destruct box as [r|]; [exfalso|reflexivity].
  unfold stable, internal_labels, enabled, step in Q; cbn in Q. rewrite Hpoll in Q.
  destruct pend; [cbn in Q; destruct (seen_eqb seen (u_focus ui) ver); cbn in Q; discriminate|].
  destruct disp as [[? ?]|]; [cbn in Q; discriminate|].
  destruct ph as [| |w rd d|]; cbn in *; try discriminate Q.
  - destruct T as (p & t & -> & _ & _ & Hd). cbn in *.
    destruct (p_alive p) eqn:Ea; [|cbn in Q; discriminate Q]. cbn in Q.
    destruct w, d, (p_open p); cbn in Q; try discriminate Q.
    all: specialize (Hd Hearly eq_refl); discriminate Hd.
  - specialize (L2 eq_refl). discriminate L2.
Qed.

Theorem stable_is_quiescent_proof : forall pol sched t u, pol_poll pol = true -> pol_early pol = false ->
  let s := run pol sched (init t u) in
  stable pol s = true -> s_running s = true -> quiescent pol s = true.
Proof.
  intros. apply stable_quiescent_state; auto; [apply life_ok_run|apply tab_ok_run].
Qed.

Theorem none_survives_exit_proof : forall pol sched t u, pol_exit pol = ExitWaitsStopped ->
  let s := run pol sched (init t u) in
  s_ended s = true -> alive_procs s = [].
Proof.
  intros pol sched t u Hp s He.
  destruct (life_ok_run pol sched t u) as (_ & _ & L3 & L4). fold s in L3, L4.
  specialize (L4 Hp (L3 He)).
  pose proof (tab_ok_run pol sched t u) as T. fold s in T. unfold tab_ok in T. rewrite L4 in T. cbn in T.
  unfold alive_procs. apply filter_all_dead. exact T.
Qed.

(* for as long as a preview command lives, goroutine 3 is there to kill it (listening, in its grace period or about
   to kill), whether or not the command's output has ended: finishChan is sent only after cmd.Wait() *)
Theorem alive_has_canceller_proof : forall pol sched t u, pol_early pol = false ->
  let s := run pol sched (init t u) in
  forall p, In p (alive_procs s) -> exists w rd d, s_ph s = PRun w rd d /\ w <> WDone.
Proof.
  intros pol sched t u He s p Hin.
  pose proof (tab_ok_run pol sched t u) as T. fold s in T. unfold tab_ok, ph_tab_ok, alive_procs in *.
  destruct (s_ph s) as [| |w rd d|] eqn:E.
  - destruct T as [T _]. rewrite (filter_all_dead _ T) in Hin. destruct Hin.
  - rewrite (filter_all_dead _ T) in Hin. destruct Hin.
  - destruct T as (p0 & t0 & Et & Ht & _ & Hd). rewrite Et in Hin. cbn in Hin.
    rewrite (filter_all_dead _ Ht) in Hin. exists w, rd, d. split; [reflexivity|].
    intros ->. rewrite (Hd He eq_refl) in Hin. destruct Hin.
  - rewrite (filter_all_dead _ T) in Hin. destruct Hin.
Qed.

(* a result tagged with an older version never replaces a newer one *)
Theorem shown_version_monotone_proof : forall pol sched l t u,
  (s_shown_ver (run pol sched (init t u)) <= s_shown_ver (run pol (sched ++ [l]) (init t u)))%nat /\
  (s_shown_ver (run pol sched (init t u)) <= s_pver (run pol sched (init t u)))%nat.
Proof.
  intros. rewrite run_app. cbn. pose proof (ver_ok_run pol sched t u) as V. split; [|apply V].
  unfold step'. destruct (step pol l (run pol sched (init t u))) as [s'|] eqn:E; [|lia].
  eapply ver_ok_step in E; [tauto|exact V].
Qed.

(* the model's request building agrees with the user's view of placeholders *)
Theorem request_is_expansion_proof : forall t u, expand_req (build_req t u) = Ok (expansion t u).
Proof. exact expand_build. Qed.

(* ------------------------------------------------------------------ the scroll machine *)

Definition sgood (req : Z) (s : sstate) (m : Z) : Prop :=
  m <= k_n s /\ (req < m \/ (k_eof s = true /\ m = k_n s)).

(* invariant of the machine of the tree (GateGt) *)
Definition sinv (req headers : Z) (s : sstate) : Prop :=
  (k_eof s = true -> match k_box s with Some (m, _) => m = k_n s | None => k_wn s = k_n s end) /\
  (k_edge s = false) /\
  (k_lost s = false ->
     match k_off s with
     | Some o => o = req /\ k_box s = None /\ k_eof s = false
     | None =>
         match k_box s with
         | Some (m, Some o) => o = req /\ sgood req s m
         | _ => exists k, sgood req s k /\ k_woff s = constrain req headers (k - 1)
         end
     end).

Lemma sinv_init req headers w0 : sinv req headers (sinit req w0).
Proof. unfold sinv, sinit; cbn. split; [discriminate|]. split; [reflexivity|]. intros _. auto. Qed.

Lemma orb_false_l2 a b : a || b = false -> a = false /\ b = false.
Proof. destruct a, b; cbn; auto; discriminate. Qed.

Lemma sinv_step req headers l s s' :
  sinv req headers s -> sstep GateGt req headers l s = Some s' -> sinv req headers s'.
Proof.
  destruct s as [n spin off box wn woff eof lost edge]. unfold sinv, sgood. cbn.
  intros (IE & IK & IO) H. subst edge. destruct l; cbn in H.
  - (* GLine *)
    destruct eof; [discriminate|]. injection H as <-. cbn. split; [discriminate|]. split; [reflexivity|].
    intros Hl. specialize (IO Hl). destruct off as [o|].
    + exact IO.
    + destruct box as [[m [o|]]|].
      * destruct IO as (-> & Hm & [Hr|[Hf _]]); [|discriminate]. repeat split; auto; lia.
      * destruct IO as (k & (Hk & [Hr|[Hf _]]) & Hw); [|discriminate]. exists k. repeat split; auto; lia.
      * destruct IO as (k & (Hk & [Hr|[Hf _]]) & Hw); [|discriminate]. exists k. repeat split; auto; lia.
  - (* GTick *)
    destruct eof; [discriminate|].
    destruct ((0 <? n) && (req <? n)) eqn:Eg; [|injection H as <-; cbn; repeat split; auto].
    apply andb_true_iff in Eg as [Eg1 Eg2]. apply Z.ltb_lt in Eg1. apply Z.ltb_lt in Eg2.
    destruct spin as [i|]; injection H as <-; cbn; (split; [discriminate|]).
    + split.
      * destruct off; [|reflexivity]. apply Z.eqb_neq. lia.
      * intros Hl. apply orb_false_l2 in Hl as [Hl Hc]. specialize (IO Hl). destruct off as [o|].
        -- destruct IO as (-> & -> & _). split; [reflexivity|]. split; [lia|]. left; lia.
        -- destruct box as [[m [o|]]|]; cbn in Hc; try discriminate.
           ++ destruct IO as (k & (Hk & [Hr|[Hf _]]) & Hw); [|discriminate]. exists k. repeat split; auto.
           ++ destruct IO as (k & (Hk & [Hr|[Hf _]]) & Hw); [|discriminate]. exists k. repeat split; auto.
    + split; [reflexivity|]. intros Hl. specialize (IO Hl). exact IO.
  - (* GEof *)
    destruct eof; [discriminate|]. injection H as <-. cbn. split; [reflexivity|]. split; [reflexivity|].
    intros Hl. apply orb_false_l2 in Hl as [Hl Hc]. specialize (IO Hl). destruct off as [o|].
    + destruct IO as (-> & -> & _). split; [reflexivity|]. split; [lia|]. right; auto.
    + destruct box as [[m [o|]]|]; cbn in Hc; try discriminate.
      * destruct IO as (k & (Hk & [Hr|[Hf _]]) & Hw); [|discriminate]. exists k. repeat split; auto.
      * destruct IO as (k & (Hk & [Hr|[Hf _]]) & Hw); [|discriminate]. exists k. repeat split; auto.
  - (* RDisplay *)
    destruct box as [[m o]|]; [|discriminate]. injection H as <-. cbn. split; [|split; [reflexivity|]].
    + intro Hf. specialize (IE Hf). exact IE.
    + intros Hl. specialize (IO Hl). destruct off as [o'|].
      * destruct IO as (_ & Hb & _). discriminate.
      * destruct o as [v|].
        -- destruct IO as (-> & Hg). exists m. split; [exact Hg|reflexivity].
        -- exact IO.
Qed.

Lemma sinv_run req headers sched : forall s, sinv req headers s -> sinv req headers (srun GateGt req headers sched s).
Proof.
  induction sched as [|l r IH]; intros s Hs; cbn; [exact Hs|].
  apply IH. destruct (sstep GateGt req headers l s) as [s'|] eqn:E; [eapply sinv_step; eauto|exact Hs].
Qed.

Lemma constrain_enough req headers k n : req < k -> k <= n ->
  constrain req headers (k - 1) = constrain req headers (n - 1).
Proof.
  intros Hk Hn. unfold constrain. destruct (req <? headers); [reflexivity|].
  destruct (req >? k - 1) eqn:E1; [apply Z.gtb_lt in E1; lia|].
  destruct (req >? n - 1) eqn:E2; [apply Z.gtb_lt in E2; lia|]. reflexivity.
Qed.

(* the window ends up at the requested place, whatever the timing of lines, ticks, end of output and redraws,
   unless a pending result was replaced in the mailbox (k_lost) *)
Theorem scroll_offset_applied_proof : forall req headers w0 sched,
  let s := srun GateGt req headers sched (sinit req w0) in
  sdone s = true -> k_lost s = false ->
  k_wn s = k_n s /\ k_woff s = final_offset req headers (k_n s).
Proof.
  intros req headers w0 sched s Hd Hl.
  pose proof (sinv_run req headers sched _ (sinv_init req headers w0)) as (IE & _ & IO). fold s in IE, IO.
  unfold sdone in Hd. apply andb_true_iff in Hd as [Hf Hb].
  destruct (k_box s) as [b|] eqn:Eb; [discriminate|]. specialize (IE Hf). specialize (IO Hl).
  split; [exact IE|]. destruct (k_off s) as [o|].
  - destruct IO as (_ & _ & Hx). congruence.
  - destruct IO as (k & (Hk & Hg) & Hw). rewrite Hw. unfold final_offset.
    destruct Hg as [Hr|[_ ->]]; [apply constrain_enough; auto|reflexivity].
Qed.

(* with the `>` condition a partial result is never published with exactly `req` lines *)
Theorem scroll_no_edge_proof : forall req headers w0 sched,
  k_edge (srun GateGt req headers sched (sinit req w0)) = false.
Proof. intros. apply (sinv_run req headers sched _ (sinv_init req headers w0)). Qed.
