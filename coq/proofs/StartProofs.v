(* C14, commands that cannot be started: the hand-shake spec implies that the coordinator is never held up, for every
   reader that meets it and every history of events; fzf's reader (model) meets it on every path. *)
From Fzf Require Import Prelude StartSpec StartModel.
Open Scope Z_scope.

(* ---- one reader run *)
Lemma run_reader_nosend : forall tr held h,
  lock_run held tr = Some h -> count is_send tr = 0%nat ->
  run_reader held false tr = mkRres false h false.
Proof.
  induction tr as [|e tr IH]; intros held h Hl Hc.
  - cbn in Hl. inversion Hl. reflexivity.
  - destruct e; cbn in Hl, Hc |- *.
    + destruct held; [discriminate|]. apply IH; assumption.
    + destruct held; [|discriminate]. apply IH; assumption.
    + discriminate.
    + apply IH; assumption.
    + apply IH; assumption.
    + apply IH; assumption.
Qed.

Lemma run_reader_onesend : forall tr held h,
  lock_run held tr = Some h -> count is_send tr = 1%nat -> existsb is_feed (before_send tr) = false ->
  run_reader held true tr = mkRres false h false.
Proof.
  induction tr as [|e tr IH]; intros held h Hl Hc Hf.
  - cbn in Hc. discriminate.
  - destruct e; cbn in Hl, Hc, Hf |- *.
    + destruct held; [discriminate|]. apply IH; assumption.
    + destruct held; [|discriminate]. apply IH; assumption.
    + apply run_reader_nosend; [assumption|]. unfold count in Hc |- *. lia.
    + discriminate.
    + apply IH; assumption.
    + apply IH; assumption.
Qed.

(* the spec of one run implies: the coordinator gets its value, the goroutine ends, the mutex is free *)
Lemma handshake_resumes_proof : forall tr, handshake_okb true tr = true ->
  run_reader false true tr = mkRres false false false.
Proof.
  intros tr H. unfold handshake_okb in H.
  repeat (apply andb_true_iff in H; destruct H as [H ?]).
  apply Nat.eqb_eq in H.
  destruct (lock_run false tr) as [[|]|] eqn:Hl; try discriminate.
  apply run_reader_onesend; try assumption.
  destruct (existsb is_feed (before_send tr)); [discriminate|reflexivity].
Qed.

Lemma handshake_filter_proof : forall tr, handshake_okb false tr = true ->
  run_reader false false tr = mkRres false false false.
Proof.
  intros tr H. unfold handshake_okb in H.
  repeat (apply andb_true_iff in H; destruct H as [H ?]).
  apply Nat.eqb_eq in H.
  destruct (lock_run false tr) as [[|]|] eqn:Hl; try discriminate.
  apply run_reader_nosend; assumption.
Qed.

Lemma handshake_observation_proof : forall ready tr, handshake_okb ready tr = true ->
  observation_okb ready (observation ready tr) = true.
Proof.
  intros ready tr H. unfold observation.
  assert (Hr : run_reader false ready tr = mkRres false false false).
  { destruct ready; [apply handshake_resumes_proof|apply handshake_filter_proof]; assumption. }
  rewrite Hr. cbn.
  unfold handshake_okb in H.
  repeat (apply andb_true_iff in H; destruct H as [H ?]).
  apply Nat.eqb_eq in H. rewrite H.
  match goal with Hf : (count is_fin tr =? 1)%nat = true |- _ => apply Nat.eqb_eq in Hf; rewrite Hf end.
  destruct ready; reflexivity.
Qed.

(* ---- the coordinator *)
Definition c_good (st : cstate) : Prop := c_blocked st = false /\ c_held st = false /\ c_leaked st = 0%nat.

Lemma do_restart_good : forall rd c st, handshake_okb true (rd c) = true -> c_good st -> c_good (do_restart rd c st).
Proof.
  intros rd c st H [Hb [Hh Hk]]. unfold do_restart. rewrite Hh.
  rewrite (handshake_resumes_proof _ H). unfold c_good. cbn. rewrite Hk. repeat split.
Qed.

Lemma do_terminate_good : forall st, c_good st -> do_terminate st = st.
Proof. intros st [Hb [Hh Hk]]. unfold do_terminate. rewrite Hh. reflexivity. Qed.

Lemma c_step_good : forall rd, (forall c, handshake_okb true (rd c) = true) ->
  forall st e, c_good st -> c_good (c_step rd st e).
Proof.
  intros rd Hrd st e Hg. unfold c_step.
  destruct (c_blocked st || c_stop st) eqn:Hbs; [assumption|].
  destruct e as [[c|]| | |].
  - destruct (c_reading st).
    + rewrite (do_terminate_good _ Hg). destruct Hg as [Hb [Hh Hk]]. rewrite Hb.
      repeat split; assumption.
    + apply do_restart_good; [apply Hrd|assumption].
  - assumption.
  - assumption.
  - destruct Hg as [Hb [Hh Hk]].
    destruct (c_next st) as [c|].
    + apply do_restart_good; [apply Hrd|]. repeat split; assumption.
    + repeat split; assumption.
  - assert (Ht : (if c_reading st then do_terminate st else st) = st).
    { destruct (c_reading st); [apply do_terminate_good; assumption|reflexivity]. }
    rewrite Ht. destruct Hg as [Hb [Hh Hk]]. rewrite Hb. repeat split; assumption.
Qed.

Lemma c_run_good : forall rd, (forall c, handshake_okb true (rd c) = true) ->
  forall es st, c_good st -> c_good (c_run rd st es).
Proof.
  intros rd Hrd es. induction es as [|e es IH]; intros st Hg; [assumption|].
  cbn. apply IH. apply c_step_good; assumption.
Qed.

Lemma c0_good : c_good c0.
Proof. repeat split. Qed.

Lemma coordinator_never_blocks_proof : forall rd, (forall c, handshake_okb true (rd c) = true) ->
  forall es, let st := c_run rd c0 es in c_blocked st = false /\ c_held st = false /\ c_leaked st = 0%nat.
Proof. intros rd Hrd es. exact (c_run_good rd Hrd es c0 c0_good). Qed.

(* once stopped, nothing changes *)
Lemma c_step_stop : forall rd st e, c_stop st = true -> c_step rd st e = st.
Proof. intros rd st e H. unfold c_step. rewrite H, orb_true_r. reflexivity. Qed.

Lemma c_run_stop : forall rd es st, c_stop st = true -> c_stop (c_run rd st es) = true.
Proof.
  intros rd es. induction es as [|e es IH]; intros st H; [assumption|].
  cbn. rewrite c_step_stop by assumption. apply IH; assumption.
Qed.

Lemma c_step_quit : forall rd st, c_good st -> c_stop (c_step rd st CQuit) = true.
Proof.
  intros rd st Hg. unfold c_step.
  destruct (c_blocked st || c_stop st) eqn:Hbs.
  - destruct Hg as [Hb _]. rewrite Hb in Hbs. exact Hbs.
  - assert (Ht : (if c_reading st then do_terminate st else st) = st).
    { destruct (c_reading st); [apply do_terminate_good; assumption|reflexivity]. }
    rewrite Ht. destruct Hg as [Hb _]. rewrite Hb. reflexivity.
Qed.

(* an exit request is always processed, whatever came before and whatever comes after *)
Lemma quit_is_processed_proof : forall rd, (forall c, handshake_okb true (rd c) = true) ->
  forall es1 es2, c_stop (c_run rd c0 (es1 ++ CQuit :: es2)) = true.
Proof.
  intros rd Hrd es1 es2. unfold c_run. rewrite fold_left_app. cbn.
  apply c_run_stop. apply c_step_quit. exact (c_run_good rd Hrd es1 c0 c0_good).
Qed.

(* ---- fzf's reader meets the spec on every path *)
Lemma restart_handshake_proof : forall c, handshake_okb true (restart_trace c) = true.
Proof. intros [[|] [|]]; reflexivity. Qed.

Lemma read_source_handshake_proof : forall s ready c walk_ok, handshake_okb ready (read_source s ready c walk_ok) = true.
Proof. intros [| | | |] [|] [[|] [|]] [|]; reflexivity. Qed.

(* EvtReadFin carries the command exactly when it could not be started or ended with an error *)
Lemma restart_reports_failure_proof : forall c,
  In (RFin (negb (cm_start_ok c && cm_wait_ok c))) (restart_trace c).
Proof. intros [[|] [|]]; cbn; tauto. Qed.

(* ---- the hypothesis is needed: a reader that forgets the send when the command cannot be started
   (the shape of a defect in this region) freezes the coordinator at the first such reload; the exit request that
   follows is never processed *)
Definition restart_trace_nosend (c : cmd) : list rev :=
  if cm_start_ok c then restart_trace c else [RLock; RUnlock; RFin true; RRemove].

Lemma coordinator_needs_handshake_proof :
  exists es, In CQuit es /\
    c_blocked (c_run restart_trace_nosend c0 es) = true /\ c_stop (c_run restart_trace_nosend c0 es) = false /\
    c_stop (c_run restart_trace c0 es) = true.
Proof.
  exists [CReadFin; CSearchNew (Some (mkCmd false false)); CReadFin; CQuit].
  cbn. repeat split. tauto.
Qed.

(* ... and so does one that keeps the mutex on that path: the next reader.terminate() never returns *)
Definition restart_trace_nounlock (c : cmd) : list rev :=
  if cm_start_ok c then restart_trace c else [RLock; RSend; RFin true; RRemove].

Lemma coordinator_needs_unlock_proof :
  exists es, In CQuit es /\
    c_blocked (c_run restart_trace_nounlock c0 es) = true /\ c_stop (c_run restart_trace_nounlock c0 es) = false.
Proof.
  exists [CReadFin; CSearchNew (Some (mkCmd false false)); CQuit].
  cbn. repeat split. tauto.
Qed.
