(* C09 proofs, third part: sessions in which the --multi limit changes (change-multi).
   The invariant "never more selected lines than the limit IN FORCE" holds along every history of
   actions and limit changes; hence nothing is selected whenever multi-select is off; a limit change is
   the spec's (EditMultiSpec.xsstep) on the abstraction sabs; a session without limit changes is a run
   of EditModel (so every theorem of EditProofs / EditRefine speaks about each stretch between two changes). *)
From Fzf Require Import Prelude EditSpec EditModel EditProofs EditRefine EditMultiSpec EditMultiModel.
Open Scope Z_scope.

Definition xsel_le (cs : cfg * st) : Prop := sel_le (fst cs) (s_sel (snd cs)).

Lemma change_multi_sel c s m c' s' :
  change_multi c s m = (c', s') ->
  s_sel s' = (if (0 <? c_multi c) && negb (c_multi c' =? c_multi c) then [] else s_sel s) /\
  c_multi c' = limit_after (c_multi c) m.
Proof.
  unfold change_multi. intro H. inversion H; subst; clear H. cbn [c_multi with_multi]. split.
  - destruct (c_inputless c); destruct ((0 <? c_multi c) && negb _); reflexivity.
  - destruct m; reflexivity.
Qed.

Lemma change_multi_sel_le c s m c' s' :
  sel_le c (s_sel s) -> change_multi c s m = (c', s') -> sel_le c' (s_sel s').
Proof.
  intros L H. destruct (change_multi_sel _ _ _ _ _ H) as [Hs Hm].
  unfold sel_le in *. rewrite Hs.
  assert (N : c_multi c' = c_multi c \/ 0 <= c_multi c').
  { rewrite Hm. destruct m as [|n|]; cbn; [right; unfold UNLIMITED; lia| |now left].
    destruct (0 <=? n) eqn:E; [right; now apply Z.leb_le|now left]. }
  destruct (0 <? c_multi c) eqn:P; cbn [andb].
  - destruct (c_multi c' =? c_multi c) eqn:E; cbn [negb].
    + apply Z.eqb_eq in E. lia.
    + apply Z.eqb_neq in E. cbn. lia.
  - apply Z.ltb_ge in P. destruct N as [N|N]; [lia|].
    assert (Z.of_nat (length (s_sel s)) = 0) by lia. lia.
Qed.

Lemma change_multi_cx_ok c s m c' s' : cx_ok s -> change_multi c s m = (c', s') -> cx_ok s'.
Proof.
  unfold change_multi, cx_ok. intros L H. inversion H; subst; clear H.
  destruct (c_inputless c); destruct ((0 <? c_multi c) && negb _); cbn; lia.
Qed.

Section Session.
  Variable is_alnum : Z -> bool.

  Lemma xdo_sel_le cs x cs' : xsel_le cs -> xdo is_alnum cs x = Ok cs' -> xsel_le cs'.
  Proof.
    destruct cs as [c s]. unfold xsel_le, xdo. cbn [fst snd]. intros L H. destruct x as [a|m].
    - destruct (do_action is_alnum c s a) as [s1|] eqn:D; cbn [bind] in H; [|discriminate].
      inversion H; subst; clear H. cbn [fst snd]. eapply do_action_sel_le; eauto.
    - inversion H; subst; clear H. destruct (change_multi c s m) as [c' s'] eqn:E. cbn [fst snd].
      eapply change_multi_sel_le; eauto.
  Qed.

  Lemma xdo_cx_ok cs x cs' : cx_ok (snd cs) -> xdo is_alnum cs x = Ok cs' -> cx_ok (snd cs').
  Proof.
    destruct cs as [c s]. unfold xdo. cbn [fst snd]. intros L H. destruct x as [a|m].
    - destruct (do_action is_alnum c s a) as [s1|] eqn:D; cbn [bind] in H; [|discriminate].
      inversion H; subst; clear H. cbn [fst snd]. eapply do_action_cx_ok; eauto.
    - inversion H; subst; clear H. destruct (change_multi c s m) as [c' s'] eqn:E. cbn [fst snd].
      eapply change_multi_cx_ok; eauto.
  Qed.

  (* never more selected lines than the limit in force, along every history with limit changes *)
  Theorem xsel_limit_proof : forall xs cs cs', xsel_le cs -> xrun is_alnum cs xs = Ok cs' -> xsel_le cs'.
  Proof.
    induction xs as [|x r IH]; intros cs cs' L H; cbn [xrun] in H; [inversion H; now subst|].
    destruct (xdo is_alnum cs x) as [cs1|] eqn:D; cbn [bind] in H; [|discriminate].
    eapply IH; [|exact H]. eapply xdo_sel_le; eauto.
  Qed.

  (* whenever multi-select is off, nothing is selected *)
  Theorem xno_select_without_multi_proof : forall xs cs cs',
    xsel_le cs -> xrun is_alnum cs xs = Ok cs' -> c_multi (fst cs') = 0 -> s_sel (snd cs') = [].
  Proof.
    intros xs cs cs' L H M. pose proof (xsel_limit_proof xs cs cs' L H) as L'.
    unfold xsel_le, sel_le in L'. rewrite M in L'.
    destruct (s_sel (snd cs')); [reflexivity|cbn [length] in L'; lia].
  Qed.

  (* the session model never fails *)
  Theorem xrun_never_fails_proof : forall xs cs, cx_ok (snd cs) -> exists cs', xrun is_alnum cs xs = Ok cs'.
  Proof.
    induction xs as [|x r IH]; intros cs L; cbn [xrun]; [eauto|].
    assert (T : exists cs1, xdo is_alnum cs x = Ok cs1).
    { destruct x as [a|m]; cbn [xdo]; [|eauto].
      destruct (run_never_fails_proof is_alnum (fst cs) [a] (snd cs) L) as [s1 R]. cbn [run] in R.
      destruct (do_action is_alnum (fst cs) (snd cs) a) as [s2|]; cbn [bind] in *; [eauto|discriminate]. }
    destruct T as [cs1 T]. rewrite T. cbn [bind]. apply IH. eapply xdo_cx_ok; eauto.
  Qed.

  (* a session without limit changes is a run of EditModel under the same configuration *)
  Theorem xrun_without_change_proof : forall acts c s,
    xrun is_alnum (c, s) (map XA acts) = (do s' <- run is_alnum c s acts; Ok (c, s')).
  Proof.
    induction acts as [|a r IH]; intros c s; cbn [map xrun run bind]; [reflexivity|].
    cbn [xdo fst snd]. destruct (do_action is_alnum c s a) as [s1|]; cbn [bind]; [apply IH|reflexivity].
  Qed.
End Session.

(* switching multi-select off drops the selection; every limit change leaves query, list and cursor alone *)
Theorem change_multi_off_clears_proof : forall c s c' s',
  sel_le c (s_sel s) -> change_multi c s (CMNum 0) = (c', s') -> c_multi c' = 0 /\ s_sel s' = [].
Proof.
  intros c s c' s' L H. pose proof (change_multi_sel_le _ _ _ _ _ L H) as L'.
  destruct (change_multi_sel _ _ _ _ _ H) as [_ Hm]. cbn in Hm. split; [exact Hm|].
  unfold sel_le in L'. rewrite Hm in L'. destruct (s_sel s'); [reflexivity|cbn [length] in L'; lia].
Qed.

Theorem change_multi_frame_proof : forall c s m c' s', change_multi c s m = (c', s') ->
  s_input s' = s_input s /\ s_res s' = s_res s /\ s_cy s' = s_cy s /\ s_offset s' = s_offset s /\ s_yanked s' = s_yanked s /\
  c' = with_multi c (c_multi c').
Proof.
  unfold change_multi. intros c s m c' s' H. inversion H; subst; clear H.
  destruct (c_inputless c); destruct ((0 <? c_multi c) && negb _); cbn; repeat split; reflexivity.
Qed.

(* a limit change is the spec's step on what the user sees (sabs), from a state that obeys the limit in force *)
Theorem change_multi_refines_spec_proof : forall isw c s m c' s',
  sel_le c (s_sel s) -> (c_inputless c = false \/ s_cx s = length (s_input s)) ->
  change_multi c s m = (c', s') ->
  (sp_of c', sabs s') = xsstep isw (sp_of c, sabs s) (XChangeMulti m).
Proof.
  intros isw c s m c' s' L I H.
  destruct (change_multi_sel _ _ _ _ _ H) as [Hs Hm].
  destruct (change_multi_frame_proof _ _ _ _ _ H) as (Hi & Hr & Hy & Ho & Hk & Hc).
  assert (Hx : s_cx s' = s_cx s).
  { unfold change_multi in H. inversion H; subst; clear H.
    destruct I as [I|I]; [rewrite I; destruct ((0 <? c_multi c) && negb _); reflexivity|].
    destruct (c_inputless c); destruct ((0 <? c_multi c) && negb _); cbn; congruence. }
  cbn [xsstep]. cbn [sp_of sp_multi]. rewrite <- Hm.
  assert (P : sp_of c' = sp_with_multi (sp_of c) (c_multi c')).
  { rewrite Hc at 1. unfold sp_of, sp_with_multi, with_multi. cbn. reflexivity. }
  rewrite <- P. f_equal.
  assert (Z1 : zabs s' = zabs s) by (unfold zabs; now rewrite Hi, Hx, Hk).
  assert (C1 : count s' = count s) by (unfold count; now rewrite Hr).
  unfold sabs. rewrite Z1, C1, Hr, Hy, Hs. cbn [ss_zip ss_res ss_pos ss_sel].
  unfold sel_le in L.
  destruct (c_multi c' =? c_multi c) eqn:E.
  - rewrite andb_false_r. reflexivity.
  - cbn [negb]. rewrite andb_true_r. destruct (0 <? c_multi c) eqn:Q; [reflexivity|].
    apply Z.ltb_ge in Q. assert (S0 : s_sel s = []) by (destruct (s_sel s); [reflexivity|cbn [length] in L; lia]).
    now rewrite S0.
Qed.
