(* C12 proofs, part 2: buildPlusList hands replacePlaceholder exactly the items the placeholders stand for, and
   every f-placeholder of a template gets a file of its own values. *)
From Fzf Require Import Prelude ShellSpec PlusSpec PlaceholderModel PlaceholderProofs PlusListModel.
Open Scope Z_scope.

(* ---------- a placeholder without the + flag never looks at the selection ---------- *)

Lemma over_items_sel p c s1 s2 fl raw f1 f2 temps :
  f_plus fl || p_force_plus p = false -> (forall x, f1 x = f2 x) ->
  over_items (with_items p c s1) fl raw f1 temps = over_items (with_items p c s2) fl raw f2 temps.
Proof.
  intros H Hf. unfold over_items, with_items. cbn [p_force_plus p_selected p_current p_printsep].
  rewrite H. rewrite (map_res_ext _ _ Hf). reflexivity.
Qed.

Lemma expand_ph_sel p c s1 s2 m temps : p_force_plus p = false -> plus_of m = false ->
  expand_ph (with_items p c s1) m temps = expand_ph (with_items p c s2) m temps.
Proof.
  intros Hf Hm. unfold plus_of in Hm. unfold expand_ph.
  destruct (parse_placeholder m) as [[fl mm]|]; cbn [bind]; [|reflexivity].
  assert (Hfl : f_plus fl || p_force_plus p = false) by (rewrite Hm, Hf; reflexivity).
  destruct (str_eqb mm s_q || str_eqb mm s_m_query); [reflexivity|].
  destruct (has_prefix s_q_colon mm); [reflexivity|].
  destruct (str_eqb mm s_braces).
  { apply over_items_sel; [exact Hfl|]. intros x. reflexivity. }
  destruct (str_eqb mm s_m_action); [reflexivity|].
  destruct (str_eqb mm s_m_prompt); [reflexivity|].
  destruct (mid 1 mm) as [body|]; cbn [bind]; [|reflexivity].
  destruct (parse_ranges (split_comma body [])) as [rs|]; [|reflexivity].
  apply over_items_sel; [exact Hfl|]. intros x. reflexivity.
Qed.

Lemma expand_all_sel p c s1 s2 : p_force_plus p = false ->
  forall ps slot pl fu, preview_flags ps = (slot, pl, fu) -> pl = false ->
  forall temps, expand_all (with_items p c s1) ps temps = expand_all (with_items p c s2) ps temps.
Proof.
  intros Hf. induction ps as [|pc ps IH]; intros slot pl fu E Hpl temps; [reflexivity|].
  destruct pc as [t|m|m]; cbn [preview_flags] in E; cbn [expand_all].
  - rewrite (IH _ _ _ E Hpl). reflexivity.
  - rewrite (IH _ _ _ E Hpl). reflexivity.
  - destruct (preview_flags ps) as [[s' pl'] fu'] eqn:E'. inversion E; subst.
    apply orb_false_iff in H1 as [Hm Hpl'].
    rewrite (expand_ph_sel p c s1 s2 m temps Hf Hm).
    destruct (expand_ph (with_items p c s2) m temps) as [[[o fs] t']|]; cbn [bind]; [|reflexivity].
    rewrite (IH _ _ _ eq_refl Hpl'). reflexivity.
Qed.

(* ---------- buildPlusList is transparent ----------
   With an item under the cursor, running buildPlusList and then replacePlaceholder is replacePlaceholder on
   current = the cursor item, selected = plus_items (the selection in selection order, or the cursor item when
   nothing is selected) - for EVERY template, every selection, forcePlus or not; and the expansion is always valid. *)
Theorem buildpluslist_transparent_proof : forall p c sel tmpl temps,
  terminal_expand p (Some c) sel tmpl temps =
    (do x <- replace_placeholder (with_items p [c] (plus_items (Some c) sel)) tmpl temps; Ok (true, x)).
Proof.
  intros p c sel tmpl temps. unfold terminal_expand, build_plus_list, has_preview_flags.
  destruct (preview_flags (scan tmpl O [])) as [[slot pl] fu] eqn:E.
  destruct (negb (negb slot || fu || ((p_force_plus p || pl) && negb (Nat.eqb (length sel) 0)))) eqn:C.
  - cbn [opt_items]. destruct sel as [|s0 sel']; [reflexivity|].
    cbn [length Nat.eqb negb] in C. rewrite andb_true_r in C.
    apply negb_true_iff in C. apply orb_false_iff in C as [_ C2]. apply orb_false_iff in C2 as [Hfp Hpl].
    unfold replace_placeholder, replace_structured.
    rewrite (expand_all_sel p [c] [c] (plus_items (Some c) (s0 :: sel')) Hfp _ _ _ _ E Hpl). reflexivity.
  - destruct sel; reflexivity.
Qed.

(* the round trip at the level of the finder: whatever the template, the words the shell reads are those of the
   template with {} standing for the cursor item and {+} for plus_items *)
Theorem terminal_expansion_roundtrip_proof : forall p c sel tmpl temps v out files, p_fish p = false ->
  terminal_expand p (Some c) sel tmpl temps = Ok (v, (out, files)) ->
  v = true /\
  exists outs, replace_structured (with_items p [c] (plus_items (Some c) sel)) tmpl temps = Ok (outs, files) /\
    out = concat (map render outs) /\
    forall ws, template_words (map seg_of outs) = Some ws -> sh_words out = Some ws.
Proof.
  intros p c sel tmpl temps v out files Hp H. rewrite buildpluslist_transparent_proof in H.
  destruct (replace_placeholder (with_items p [c] (plus_items (Some c) sel)) tmpl temps) as [[o f]|] eqn:E;
    cbn [bind] in H; [|discriminate].
  inversion H; subst. split; [reflexivity|].
  eapply expansion_roundtrip_proof; [|exact E]. exact Hp.
Qed.

(* {+} in the running finder: every selected item, in selection order, one word each - also when exactly one item is
   selected and the cursor is elsewhere; the cursor item when nothing is selected *)
Theorem plus_covers_selection_proof : forall p c sel temps, p_fish p = false ->
  exists out, terminal_expand p (Some c) sel t_plus temps = Ok (true, (out, [])) /\
    sh_words out = Some (map snd (plus_items (Some c) sel)).
Proof.
  intros p c sel temps Hp. rewrite buildpluslist_transparent_proof.
  destruct (plus_selection_order_proof (with_items p [c] (plus_items (Some c) sel)) temps Hp) as [out [E W]].
  exists out. rewrite E. cbn [bind]. split; [reflexivity|exact W].
Qed.

(* {} in the running finder: the cursor item, whatever is selected *)
Theorem braces_is_cursor_item_proof : forall p c sel temps, p_fish p = false -> p_force_plus p = false ->
  exists out, terminal_expand p (Some c) sel t_braces temps = Ok (true, (out, [])) /\
    sh_words out = Some [snd c].
Proof.
  intros p c sel temps Hp Hf. rewrite buildpluslist_transparent_proof.
  destruct (braces_is_item_text_proof (with_items p [c] (plus_items (Some c) sel)) temps Hp) as [out [E W]].
  exists out. rewrite E. cbn [bind]. split; [reflexivity|].
  cbn [with_items p_force_plus p_current p_selected] in W. rewrite Hf in W. exact W.
Qed.

(* ---------- every f-placeholder gets a file of its own values ---------- *)

Lemma over_items_own p fl raw f temps o fs t' : over_items p fl raw f temps = Ok (o, fs, t') ->
  exists y, over_items p fl raw f [[]] = Ok y /\ snd (fst y) = fs.
Proof.
  unfold over_items.
  destruct (map_res f (if f_plus fl || p_force_plus p then p_selected p else p_current p)) as [reps|];
    cbn [bind]; [|discriminate].
  destruct (f_file fl).
  - destruct temps as [|n r]; [discriminate|]. intros H. inversion H; subst. eexists. split; reflexivity.
  - destruct raw; intros H; inversion H; subst; eexists; split; reflexivity.
Qed.

Lemma expand_ph_own p m temps o fs t' : expand_ph p m temps = Ok (o, fs, t') ->
  exists y, expand_ph p m [[]] = Ok y /\ snd (fst y) = fs.
Proof.
  unfold expand_ph.
  destruct (parse_placeholder m) as [[fl mm]|]; cbn [bind]; [|discriminate].
  destruct (str_eqb mm s_q || str_eqb mm s_m_query).
  { intros H. inversion H; subst. eexists. split; reflexivity. }
  destruct (has_prefix s_q_colon mm).
  { destruct (mid 3 mm) as [body|]; cbn [bind]; [|discriminate].
    destruct (split_nth body); intros H; inversion H; subst; eexists; split; reflexivity. }
  destruct (str_eqb mm s_braces). { apply over_items_own. }
  destruct (str_eqb mm s_m_action). { intros H. inversion H; subst. eexists. split; reflexivity. }
  destruct (str_eqb mm s_m_prompt). { intros H. inversion H; subst. eexists. split; reflexivity. }
  destruct (mid 1 mm) as [body|]; cbn [bind]; [|discriminate].
  destruct (parse_ranges (split_comma body [])) as [rs|].
  - apply over_items_own.
  - intros H. inversion H; subst. eexists. split; reflexivity.
Qed.

Lemma expand_all_files p : forall ps temps outs files,
  expand_all p ps temps = Ok (outs, files) ->
  exists fss, map_res (own_files p) ps = Ok fss /\ files = concat fss.
Proof.
  induction ps as [|pc ps IH]; intros temps outs files H; cbn [expand_all] in H.
  - inversion H; subst. exists []. split; reflexivity.
  - destruct pc as [t|m|m].
    + destruct (expand_all p ps temps) as [[o f]|] eqn:E; cbn [bind fst snd] in H; [|discriminate].
      inversion H; subst. destruct (IH _ _ _ E) as [fss [M C]].
      exists ([] :: fss). cbn [map_res own_files bind]. rewrite M. cbn [bind concat app]. split; [reflexivity|exact C].
    + destruct (expand_all p ps temps) as [[o f]|] eqn:E; cbn [bind fst snd] in H; [|discriminate].
      inversion H; subst. destruct (IH _ _ _ E) as [fss [M C]].
      exists ([] :: fss). cbn [map_res own_files bind]. rewrite M. cbn [bind concat app]. split; [reflexivity|exact C].
    + destruct (expand_ph p m temps) as [[[o fs] t']|] eqn:E1; cbn [bind] in H; [|discriminate].
      destruct (expand_all p ps t') as [[o2 f2]|] eqn:E2; cbn [bind fst snd] in H; [|discriminate].
      inversion H; subst. destruct (IH _ _ _ E2) as [fss [M C]].
      destruct (expand_ph_own _ _ _ _ _ _ E1) as [y [Ey Hy]].
      exists (fs :: fss). cbn [map_res own_files]. rewrite Ey. cbn [bind]. rewrite Hy, M. cbn [bind concat].
      split; [reflexivity|]. rewrite C. reflexivity.
Qed.

(* the files a template writes are, in order, the files each of its placeholders writes when expanded on its own:
   no placeholder's file depends on the other placeholders of the template *)
Theorem files_per_placeholder_proof : forall p tmpl temps out files,
  replace_placeholder p tmpl temps = Ok (out, files) ->
  exists fss, map_res (own_files p) (scan tmpl O []) = Ok fss /\ files = concat fss.
Proof.
  intros p tmpl temps out files H. unfold replace_placeholder in H.
  destruct (replace_structured p tmpl temps) as [[outs fs]|] eqn:E; cbn [bind fst snd] in H; [|discriminate].
  inversion H; subst. unfold replace_structured in E. eapply expand_all_files. exact E.
Qed.

(* ---------- closed instances ---------- *)

Lemma join_with_str sep : forall ls, join_str sep ls = join_with sep ls.
Proof.
  induction ls as [|l r IH]; [reflexivity|]. destruct r as [|l2 r2]; [reflexivity|].
  change (join_str sep (l :: l2 :: r2)) with (l ++ sep ++ join_str sep (l2 :: r2)).
  change (join_with sep (l :: l2 :: r2)) with (l ++ sep ++ join_with sep (l2 :: r2)).
  rewrite IH. reflexivity.
Qed.

Definition t_file : str := [123;102;125].                          (* {f}  *)
Definition t_plus_file : str := [123;43;102;125].                  (* {+f} *)
Definition t_file_plus_file : str := [123;102;125;32;123;43;102;125].   (* {f} {+f} *)

Lemma raw_texts p fl : f_number fl = false -> f_file fl = true -> forall its,
  map_res (fun it : item => Ok (repl_item p fl it)) its = Ok (map (fun it : item => (snd it, snd it)) its).
Proof.
  intros Hn Hf its.
  rewrite (map_res_ext _ (fun it : item => Ok ((fun it : item => (snd it, snd it)) it))).
  - apply map_res_pure.
  - intros [i t]. unfold repl_item. rewrite Hn, Hf. reflexivity.
Qed.

Lemma expand_file p fl m name rest : parse_placeholder m = Ok (fl, s_braces) ->
  f_number fl = false -> f_file fl = true ->
  expand_ph p m (name :: rest) =
    Ok (OText name, [file_text (p_printsep p) (map snd (if f_plus fl || p_force_plus p then p_selected p else p_current p))], rest).
Proof.
  intros Hm Hn Hf. unfold expand_ph. rewrite Hm. cbn [bind].
  change (str_eqb s_braces s_q || str_eqb s_braces s_m_query) with false.
  change (has_prefix s_q_colon s_braces) with false. change (str_eqb s_braces s_braces) with true. cbv iota.
  unfold over_items. rewrite (raw_texts p fl Hn Hf). cbn [bind]. rewrite Hf.
  rewrite map_map. cbn [fst]. unfold file_text. rewrite join_with_str. reflexivity.
Qed.

(* {+f}: the file holds the text of every selected item, in selection order, each followed by the print separator *)
Theorem plus_file_holds_selection_proof : forall p name rest,
  replace_placeholder p t_plus_file (name :: rest) =
    Ok (name, [file_text (p_printsep p) (map snd (p_selected p))]).
Proof.
  intros p name rest. unfold replace_placeholder, replace_structured.
  change (scan t_plus_file O []) with [PPh t_plus_file]. cbn [expand_all].
  rewrite (expand_file p (mkF true false false true false) t_plus_file name rest eq_refl eq_refl eq_refl).
  cbn [bind fst snd f_plus orb map concat render app]. rewrite app_nil_r. reflexivity.
Qed.

(* {f} {+f} in ONE template: two files; the first holds the cursor item, the second the selection *)
Theorem file_and_plus_file_proof : forall p n1 n2 rest, p_force_plus p = false ->
  replace_placeholder p t_file_plus_file (n1 :: n2 :: rest) =
    Ok (n1 ++ c_sp :: n2,
        [file_text (p_printsep p) (map snd (p_current p)); file_text (p_printsep p) (map snd (p_selected p))]).
Proof.
  intros p n1 n2 rest Hf. unfold replace_placeholder, replace_structured.
  change (scan t_file_plus_file O []) with [PPh t_file; PLit [c_sp]; PPh t_plus_file]. cbn [expand_all].
  rewrite (expand_file p (mkF false false false true false) t_file n1 (n2 :: rest) eq_refl eq_refl eq_refl).
  cbn [bind].
  rewrite (expand_file p (mkF true false false true false) t_plus_file n2 rest eq_refl eq_refl eq_refl).
  cbn [bind fst snd f_plus orb map concat render app]. rewrite Hf. rewrite app_nil_r. reflexivity.
Qed.

(* the same in the running finder: {f} holds the cursor item, {+f} what {+} stands for *)
Theorem terminal_file_and_plus_file_proof : forall p c sel n1 n2 rest, p_force_plus p = false ->
  terminal_expand p (Some c) sel t_file_plus_file (n1 :: n2 :: rest) =
    Ok (true, (n1 ++ c_sp :: n2,
        [file_text (p_printsep p) [snd c]; file_text (p_printsep p) (map snd (plus_items (Some c) sel))])).
Proof.
  intros p c sel n1 n2 rest Hf. rewrite buildpluslist_transparent_proof.
  rewrite (file_and_plus_file_proof (with_items p [c] (plus_items (Some c) sel)) n1 n2 rest Hf). reflexivity.
Qed.
