(* Helpers for PatternMonotone.v: list facts about infixes and Go's strings.Join(_, "\t"); the laws about
   lower-casing and accent normalisation under which fzf's per-term case/accent flags are coherent between a
   query and its extensions; subsequence / substring witnesses restricted to an infix of the pattern. *)
From Fzf Require Import Prelude AlgoSpec AlgoModel QuerySpec PatternModel PatternKeyModel PatternProofs.
From Fzf Require Import AlgoBasics OccursBasics.
Open Scope Z_scope.

(* ====================================================================================== *)
(* Part 1: infixes; join_tab                                                                *)
(* ====================================================================================== *)

Definition infix {A} (a b : list A) : Prop := exists u v, b = u ++ a ++ v.

Lemma infix_In {A} (a b : list A) x : infix a b -> In x a -> In x b.
Proof. intros [u [v ->]] H. apply in_or_app. right. apply in_or_app. now left. Qed.

Lemma infix_refl {A} (a : list A) : infix a a.
Proof. exists [], []. cbn. now rewrite app_nil_r. Qed.

Lemma no_tab_app a b : no_tab (a ++ b) <-> no_tab a /\ no_tab b.
Proof. unfold no_tab. apply Forall_app. Qed.

Lemma join_tab_cons a A : join_tab (a :: A) = a ++ match A with [] => [] | _ => 9 :: join_tab A end.
Proof. destruct A; cbn [join_tab]; [now rewrite app_nil_r|reflexivity]. Qed.

(* a TAB-free, non-empty infix of a joined key lies inside one of the joined pieces *)
Lemma join_infix B : forall U a V, a <> [] -> no_tab a -> join_tab B = U ++ a ++ V ->
  exists b, In b B /\ infix a b.
Proof.
  induction B as [|b B IH]; intros U a V Hne Hnt H.
  - cbn in H. symmetry in H. apply app_eq_nil in H as [_ H]. apply app_eq_nil in H as [H _]. congruence.
  - rewrite join_tab_cons in H. destruct B as [|b2 B].
    + rewrite app_nil_r in H. exists b. split; [now left|]. exists U, V. exact H.
    + apply app_eq_app in H as [l [[H1 H2]|[H1 H2]]].
      * (* b = U ++ l,  a ++ V = l ++ 9 :: J *)
        apply app_eq_app in H2 as [k [[H3 H4]|[H3 H4]]].
        -- (* a = l ++ k, 9 :: J = k ++ V *)
           destruct k as [|x k].
           ++ rewrite app_nil_r in H3. subst l. exists b. split; [now left|]. exists U, []. now rewrite app_nil_r.
           ++ cbn in H4. injection H4 as <- _. exfalso. subst a.
              apply no_tab_app in Hnt as [_ Hnt]. inversion Hnt; congruence.
        -- (* l = a ++ k *)
           subst l. exists b. split; [now left|]. exists U, k. exact H1.
      * (* U = b ++ l, 9 :: J = l ++ a ++ V *)
        destruct l as [|x l].
        -- cbn in H2. destruct a as [|y a]; [congruence|]. cbn in H2. injection H2 as <- _.
           exfalso. inversion Hnt; congruence.
        -- cbn in H2. injection H2 as _ H2. destruct (IH l a V Hne Hnt H2) as [b' [Hin Hinf]].
           exists b'. split; [now right|assumption].
Qed.

Lemma notab_split a : forall b ra rb, no_tab a -> no_tab b ->
  (ra = [] \/ exists r, ra = 9 :: r) -> (rb = [] \/ exists r, rb = 9 :: r) ->
  a ++ ra = b ++ rb -> a = b /\ ra = rb.
Proof.
  induction a as [|x a IH]; intros [|y b] ra rb Ha Hb Hra Hrb H; cbn in H.
  - auto.
  - exfalso. destruct Hra as [->|[r ->]]; [discriminate|]. injection H as <- _. inversion Hb; congruence.
  - exfalso. destruct Hrb as [->|[r ->]]; [discriminate|]. injection H as -> _. inversion Ha; congruence.
  - injection H as -> H. inversion Ha; inversion Hb; subst.
    destruct (IH b ra rb) as [-> ->]; auto.
Qed.

(* Join is injective on TAB-free, non-empty pieces *)
Lemma join_tab_inj A : forall B,
  Forall (fun a => a <> [] /\ no_tab a) A -> Forall (fun a => a <> [] /\ no_tab a) B ->
  join_tab A = join_tab B -> A = B.
Proof.
  induction A as [|a A IH]; intros [|b B] HA HB H.
  - reflexivity.
  - exfalso. inversion HB as [|? ? [Hne _] _]; subst. rewrite join_tab_cons in H. cbn in H.
    symmetry in H. apply app_eq_nil in H as [H _]. congruence.
  - exfalso. inversion HA as [|? ? [Hne _] _]; subst. rewrite join_tab_cons in H. cbn in H.
    apply app_eq_nil in H as [H _]. congruence.
  - inversion HA as [|? ? [Hna Hta] HA']; inversion HB as [|? ? [Hnb Htb] HB']; subst.
    rewrite !join_tab_cons in H.
    apply notab_split in H as [-> H]; auto.
    + destruct A as [|a2 A], B as [|b2 B]; try discriminate; [reflexivity|].
      injection H as H. f_equal. now apply IH.
    + destruct A; [now left|right; eauto].
    + destruct B; [now left|right; eauto].
Qed.

Lemma map_fix_eq (f : Z -> Z) l : l = map f l -> forall x, In x l -> f x = x.
Proof.
  induction l as [|a l IH]; intros H x Hx; [destruct Hx|]. cbn in H. injection H as H1 H2.
  destruct Hx as [<-|Hx]; [congruence|now apply IH].
Qed.

Lemma map_fix_neq (f : Z -> Z) l : l <> map f l -> exists x, In x l /\ f x <> x.
Proof.
  induction l as [|a l IH]; intro H; [now contradiction H|]. cbn in H.
  destruct (Z.eq_dec (f a) a) as [E|E].
  - destruct IH as [x [H1 H2]]; [intro E2; apply H; congruence|]. exists x. split; [now right|assumption].
  - exists a. split; [now left|assumption].
Qed.

(* ====================================================================================== *)
(* Part 2: the laws, and coherence of the per-term flags                                     *)
(* ====================================================================================== *)

(* Facts about unicode.ToLower and algo's normalisation table (true of Go's tables: checked over every rune, see
   the C13 note).  L = lower1 (ASCII A-Z + unicode.To(LowerCase)), N = normalizeRune. *)
Record fold_laws (co : char_ops) : Prop := {
  fl_idem : forall c, co_norm co (co_norm co c) = co_norm co c;
  (* if N c is already lower-case, lower-casing c first does not change its normal form *)
  fl_low_norm : forall c, lower1 co (co_norm co c) = co_norm co c -> co_norm co (lower1 co c) = co_norm co c;
  (* N never turns an upper-case character into a lower-case one *)
  fl_norm_upper : forall c, lower1 co (co_norm co c) = co_norm co c -> lower1 co c = c;
  (* if the lower-casing of c carries no accent, neither does the lower-casing of N c *)
  fl_norm_low_norm : forall c, co_norm co (lower1 co c) = lower1 co c ->
                               co_norm co (lower1 co (co_norm co c)) = lower1 co (co_norm co c);
  (* neither produces a TAB out of something else (TAB is the separator of cache keys) *)
  fl_low_tab : forall c, lower1 co c = 9 -> c = 9;
  fl_norm_tab : forall c, co_norm co c = 9 -> c = 9
}.
(* needed under --no-extended only, where the pattern text is NOT normalised: a character whose lower-casing
   carries no accent carries none itself.  FALSE of Go's tables at U+0130 (see monotone_basic_refuted). *)
Definition basic_law (co : char_ops) : Prop :=
  forall c, co_norm co (lower1 co c) = lower1 co c -> co_norm co c = c.

Section Coherence.
Variable co : char_ops.
Hypothesis HL : fold_laws co.
Notation L := (lower1 co).
Notation N := (co_norm co).

Definition lowfix (tok : str) : Prop := forall T, In T tok -> L T = T.
Definition nmfix (tok : str) : Prop := forall T, In T tok -> N (L T) = L T.

Lemma case_of_false m tok : case_of co m tok = false -> m = CaseIgnore \/ (m = CaseSmart /\ lowfix tok).
Proof.
  destruct m; cbn; intro H; try discriminate; [|now left].
  right. split; [reflexivity|]. apply negb_false_iff in H. apply str_eqb_eq in H.
  intros T HT. exact (map_fix_eq _ _ H T HT).
Qed.

Lemma case_of_true m tok : case_of co m tok = true ->
  m = CaseRespect \/ (m = CaseSmart /\ exists T, In T tok /\ L T <> T).
Proof.
  destruct m; cbn; intro H; try discriminate; [|now left].
  right. split; [reflexivity|]. apply negb_true_iff in H. apply map_fix_neq.
  intro E. apply str_eqb_eq in E. unfold lower_str in H. congruence.
Qed.

Lemma norm_of_true n tok : norm_of co n tok = true -> n = true /\ nmfix tok.
Proof.
  unfold norm_of. intro H. apply andb_true_iff in H as [Hn H]. split; [assumption|].
  apply str_eqb_eq in H. intros T HT. unfold norm_str, lower_str in H.
  apply (map_fix_eq _ _ H (L T)). now apply in_map.
Qed.

Lemma norm_of_false n tok : norm_of co n tok = false -> n = false \/ exists T, In T tok /\ N (L T) <> L T.
Proof.
  unfold norm_of. intro H. destruct n; [|now left]. right. cbn in H.
  destruct (map_fix_neq N (lower_str co tok)) as [x [H1 H2]].
  - intro E. apply str_eqb_eq in E. unfold norm_str in H. congruence.
  - unfold lower_str in H1. apply in_map_iff in H1 as [T [<- HT]]. eauto.
Qed.

(* -------- extended mode: the term text is  map (fold cs nm) tok  -------- *)

(* every character of the (whole-token) term of tok is a character of the term of tok' *)
Definition sub_chars (cs nm cs' nm' : bool) (tok tok' : str) : Prop :=
  forall T, In T tok -> exists T', In T' tok' /\ fold co cs nm T = fold co cs' nm' T'.

Definition flags_of (m : case_mode) (n : bool) (tok : str) (cs nm : bool) : Prop :=
  cs = case_of co m tok /\ nm = norm_of co n tok.

(* the case flags: the shorter term cannot be case-sensitive when the longer one is not *)
Lemma ext_cs_contra m n tok tok' nm nm' :
  flags_of m n tok true nm -> flags_of m n tok' false nm' -> sub_chars true nm false nm' tok tok' -> False.
Proof.
  intros [Hc Hn] [Hc' Hn'] Hsub. symmetry in Hc, Hc'.
  destruct (case_of_true _ _ Hc) as [->|[-> [T1 [HT1 Hup]]]];
    destruct (case_of_false _ _ Hc') as [E|[E Hlf]]; try discriminate.
  destruct (Hsub T1 HT1) as [T1' [HT1' E1]].
  unfold fold in E1. cbv zeta in E1.
  rewrite (Hlf T1' HT1') in E1.
  assert (Hr : (if nm' then N T1' else T1') = T1').
  { destruct nm'; [|reflexivity]. symmetry in Hn'. apply norm_of_true in Hn' as [_ Hf].
    specialize (Hf T1' HT1'). rewrite (Hlf T1' HT1') in Hf. exact Hf. }
  rewrite Hr in E1. destruct nm.
  - (* N T1 = T1', L T1' = T1' *)
    apply Hup. apply (fl_norm_upper co HL). rewrite E1. apply Hlf. exact HT1'.
  - subst T1'. apply Hup. apply Hlf. exact HT1'.
Qed.

(* the accent flags, case flags being equal: the shorter term cannot be literal when the longer one folds *)
Lemma ext_nm_contra m n tok tok' cs :
  flags_of m n tok cs false -> flags_of m n tok' cs true -> sub_chars cs false cs true tok tok' -> False.
Proof.
  intros [Hc Hn] [Hc' Hn'] Hsub. symmetry in Hn, Hn'.
  apply norm_of_true in Hn' as [-> Hf]. apply norm_of_false in Hn as [Hn|[T0 [HT0 Hacc]]]; [discriminate|].
  destruct (Hsub T0 HT0) as [T0' [HT0' E0]].
  unfold fold in E0. cbv zeta in E0.
  specialize (Hf T0' HT0'). apply Hacc. destruct cs.
  - (* T0 = N T0' *) rewrite E0. now apply (fl_norm_low_norm co HL).
  - (* L T0 = N (L T0') *) rewrite E0. now apply (fl_idem co HL).
Qed.

(* ★ what the longer term's folding identifies with a character of the shorter term, the shorter term's does too *)
Lemma fold_coherent_ext m n tok tok' cs nm cs' nm' :
  flags_of m n tok cs nm -> flags_of m n tok' cs' nm' -> sub_chars cs nm cs' nm' tok tok' ->
  forall T y, In T tok -> fold co cs' nm' y = fold co cs nm T -> fold co cs nm y = fold co cs nm T.
Proof.
  intros F F' Hsub T y HT H.
  destruct cs, cs'.
  - (* both case-sensitive *)
    destruct nm, nm'; try exact H.
    + unfold fold in *. cbv zeta in *. rewrite H. apply (fl_idem co HL).
    + exfalso. eapply ext_nm_contra; eassumption.
  - exfalso. eapply ext_cs_contra; eassumption.
  - (* the longer one is case-sensitive, the shorter is not: smart case, tok is lower-case *)
    destruct F as [Ec En]. symmetry in Ec, En.
    destruct (case_of_false _ _ Ec) as [->|[-> Hlf]]; [destruct F' as [F' _]; discriminate|].
    pose proof (Hlf T HT) as HlT.
    destruct nm.
    + apply norm_of_true in En as [_ Hf]. pose proof (Hf T HT) as HfT. rewrite HlT in HfT.
      unfold fold in *. cbv zeta in *. rewrite HlT, HfT in *.
      destruct nm'.
      * (* N y = T *) rewrite <- H. apply (fl_low_norm co HL). rewrite H. exact HlT.
      * subst y. now rewrite HlT.
    + destruct nm'.
      * exfalso. destruct F' as [_ En']. symmetry in En'.
        apply norm_of_true in En' as [-> Hf']. apply norm_of_false in En as [En|[T0 [HT0 Hacc]]]; [discriminate|].
        destruct (Hsub T0 HT0) as [T0' [HT0' E0]].
        unfold fold in E0. cbv zeta in E0.
        apply Hacc. rewrite (Hlf T0 HT0) in *. rewrite E0. apply (fl_idem co HL).
      * unfold fold in *. cbv zeta in *. subst y. rewrite HlT. now rewrite HlT.
  - (* both case-insensitive *)
    destruct nm, nm'; try exact H.
    + unfold fold in *. cbv zeta in *. rewrite H. apply (fl_idem co HL).
    + exfalso. eapply ext_nm_contra; eassumption.
Qed.

(* equal texts of two whole-token terms: equal flags *)
Lemma ext_flags_eq m n tok tok' cs nm cs' nm' :
  flags_of m n tok cs nm -> flags_of m n tok' cs' nm' ->
  map (fold co cs nm) tok = map (fold co cs' nm') tok' -> cs = cs' /\ nm = nm'.
Proof.
  intros F F' E.
  assert (S1 : sub_chars cs nm cs' nm' tok tok').
  { intros T HT. apply (in_map (fold co cs nm)) in HT. rewrite E in HT. apply in_map_iff in HT as [T' [H1 H2]]. eauto. }
  assert (S2 : sub_chars cs' nm' cs nm tok' tok).
  { intros T HT. apply (in_map (fold co cs' nm')) in HT. rewrite <- E in HT. apply in_map_iff in HT as [T' [H1 H2]]. eauto. }
  destruct cs, cs'.
  - split; [reflexivity|]. destruct nm, nm'; try reflexivity; exfalso; eapply ext_nm_contra; eassumption.
  - exfalso; eapply ext_cs_contra; eassumption.
  - exfalso; eapply ext_cs_contra; eassumption.
  - split; [reflexivity|]. destruct nm, nm'; try reflexivity; exfalso; eapply ext_nm_contra; eassumption.
Qed.

(* -------- --no-extended: the pattern text is  map (fold cs false) q  (never normalised) -------- *)
Lemma fold_coherent_basic m n q q' cs nm cs' nm' : basic_law co ->
  flags_of m n q cs nm -> flags_of m n q' cs' nm' -> sub_chars cs false cs' false q q' ->
  forall T y, In T q -> fold co cs' nm' y = fold co cs false T -> fold co cs nm y = fold co cs false T.
Proof.
  intros HB [Ec En] [Ec' En'] Hsub T y HT H. symmetry in Ec, En, Ec', En'.
  destruct cs, cs'.
  - destruct nm, nm'; try exact H.
    + apply norm_of_true in En as [_ Hf]. unfold fold in *. cbv zeta in *. subst y. apply HB. now apply Hf.
    + exfalso. apply norm_of_true in En' as [-> Hf']. apply norm_of_false in En as [En|[T0 [HT0 Hacc]]]; [discriminate|].
      destruct (Hsub T0 HT0) as [T0' [HT0' E0]]. unfold fold in E0. cbv zeta in E0. subst T0'. apply Hacc. now apply Hf'.
  - exfalso.
    destruct (case_of_true _ _ Ec) as [->|[-> [T1 [HT1 Hup]]]];
      destruct (case_of_false _ _ Ec') as [E|[E Hlf]]; try discriminate.
    destruct (Hsub T1 HT1) as [T1' [HT1' E1]]. unfold fold in E1. cbv zeta in E1.
    rewrite (Hlf T1' HT1') in E1. subst T1'. apply Hup. now apply Hlf.
  - destruct (case_of_false _ _ Ec) as [->|[-> Hlf]]; [discriminate|].
    pose proof (Hlf T HT) as HlT.
    destruct nm.
    + apply norm_of_true in En as [_ Hf]. pose proof (Hf T HT) as HfT. rewrite HlT in HfT.
      unfold fold in *. cbv zeta in *. rewrite HlT in *.
      destruct nm'.
      * rewrite <- H. apply (fl_low_norm co HL). rewrite H. exact HlT.
      * subst y. now rewrite HlT.
    + destruct nm'.
      * exfalso. apply norm_of_true in En' as [-> Hf']. apply norm_of_false in En as [En|[T0 [HT0 Hacc]]]; [discriminate|].
        destruct (Hsub T0 HT0) as [T0' [HT0' E0]]. unfold fold in E0. cbv zeta in E0.
        rewrite (Hlf T0 HT0) in E0. subst T0'. apply Hacc. now apply Hf'.
      * unfold fold in *. cbv zeta in *. subst y. rewrite HlT. now rewrite HlT.
  - destruct nm, nm'; try exact H.
    + apply norm_of_true in En as [_ Hf]. unfold fold in *. cbv zeta in *. rewrite H. now apply Hf.
    + exfalso. apply norm_of_true in En' as [-> Hf']. apply norm_of_false in En as [En|[T0 [HT0 Hacc]]]; [discriminate|].
      destruct (Hsub T0 HT0) as [T0' [HT0' E0]]. unfold fold in E0. cbv zeta in E0. apply Hacc. rewrite E0. now apply Hf'.
Qed.

Lemma basic_flags_eq m n q q' :
  (if case_of co m q then q else lower_str co q) = (if case_of co m q' then q' else lower_str co q') ->
  case_of co m q = case_of co m q' /\ norm_of co n q = norm_of co n q'.
Proof.
  intro E. destruct m.
  - destruct (case_of co CaseSmart q) eqn:E1, (case_of co CaseSmart q') eqn:E2.
    + subst q'. split; reflexivity.
    + exfalso. pose proof E2 as E3. cbn in E3. apply negb_false_iff in E3. apply str_eqb_eq in E3.
      rewrite <- E3 in E. subst q'. congruence.
    + exfalso. pose proof E1 as E3. cbn in E3. apply negb_false_iff in E3. apply str_eqb_eq in E3.
      rewrite <- E3 in E. subst q'. congruence.
    + split; [reflexivity|]. unfold norm_of. now rewrite E.
  - cbn in E. split; [reflexivity|]. unfold norm_of. now rewrite E.
  - cbn in E. subst q'. split; reflexivity.
Qed.

End Coherence.

(* ====================================================================================== *)
(* Part 3: witnesses restricted to an infix of the pattern                                   *)
(* ====================================================================================== *)

Lemma Sub_drop_prefix M t u w : Sub M t (u ++ w) -> Sub M t w.
Proof. induction u as [|x u IH]; cbn; intro H; [exact H|]. apply IH. eapply Sub_tail; eauto. Qed.

Lemma Sub_drop_suffix M t w v : Sub M t (w ++ v) -> Sub M t w.
Proof.
  intro H. apply Sub_rev in H. rewrite rev_app_distr in H. apply Sub_drop_prefix in H.
  apply Sub_rev in H. now rewrite !rev_involutive in H.
Qed.

Lemma Sub_impl_pat (M1 M2 : Z -> Z -> bool) t pat :
  (forall c p, In p pat -> M1 c p = true -> M2 c p = true) -> Sub M1 t pat -> Sub M2 t pat.
Proof.
  intros Himp H. induction H as [|c t pat H IH|c p t pat Hm H IH].
  - constructor.
  - apply Sub_skip. now apply IH.
  - apply Sub_take; [apply Himp; cbn; auto|]. apply IH. intros; apply Himp; cbn; auto.
Qed.

Section Witness.
Variable co : char_ops.

(* [coh cs nm cs' nm' pat]: on the characters of pat, the primed folding refines the unprimed one *)
Definition coh (cs nm cs' nm' : bool) (pat : str) : Prop :=
  forall p y, In p pat -> fold co cs' nm' y = p -> fold co cs nm y = p.

Lemma subseq_infix cs nm cs' nm' text pat pat' : infix pat pat' -> coh cs nm cs' nm' pat ->
  subseq_b co cs' nm' text pat' = true -> subseq_b co cs nm text pat = true.
Proof.
  intros [u [v ->]] Hc. rewrite !subseq_b_gsub, !gsub_Sub. intro H.
  apply Sub_drop_prefix in H. apply Sub_drop_suffix in H.
  eapply Sub_impl_pat; [|exact H]. intros c p Hp Hm. unfold Mf in *. apply Z.eqb_eq in Hm. apply Z.eqb_eq. now apply Hc.
Qed.

Lemma substr_infix cs nm cs' nm' text pat pat' : infix pat pat' -> coh cs nm cs' nm' pat ->
  substr_b co cs' nm' text pat' = true -> substr_b co cs nm text pat = true.
Proof.
  intros [u [v ->]] Hc H. destruct pat as [|p0 pat]; [apply substr_nil|].
  unfold substr_b in *. apply exists_upto_true in H as [s [Hs H]].
  apply occurs_at_spec in H as [H1 H2]; [|destruct u; discriminate].
  rewrite !app_length in H1. apply exists_upto_true. exists (s + length u)%nat. split; [lia|].
  apply occurs_at_spec; [discriminate|]. split; [lia|]. intros k Hk.
  apply Hc; [apply nth_In; exact Hk|].
  specialize (H2 (length u + k)%nat). rewrite !app_length in H2.
  rewrite app_nth2 in H2 by lia. replace (length u + k - length u)%nat with k in H2 by lia.
  rewrite app_nth1 in H2 by lia. rewrite <- Nat.add_assoc. apply H2. lia.
Qed.

Lemma prefix_subseq cs nm : forall pat t, prefix_b co cs nm t pat = true -> subseq_b co cs nm t pat = true.
Proof.
  induction pat as [|p pat IH]; intros [|c t] H; cbn in *; try reflexivity; try discriminate.
  apply andb_true_iff in H as [H1 H2]. rewrite H1. now apply IH.
Qed.

Lemma occurs_subseq cs nm text pat s : occurs_at co cs nm text pat s = true -> subseq_b co cs nm text pat = true.
Proof.
  unfold occurs_at. intro H. apply prefix_subseq in H.
  rewrite <- (firstn_skipn s text). rewrite <- (app_nil_r (skipn s text)). now apply subseq_b_mono.
Qed.

(* every kind of term implies the fuzzy reading of its text *)
Lemma sat_term_subseq sc t line : sat_term co sc t line = true ->
  subseq_b co (t_cs t) (t_nm t) line (t_text t) = true.
Proof.
  unfold sat_term. destruct (t_kind t); intro H.
  - exact H.
  - unfold substr_b in H. apply exists_upto_true in H as [s [_ H]]. eapply occurs_subseq; eauto.
  - unfold boundary_substr_b in H. apply exists_upto_true in H as [s [_ H]]. unfold boundary_at in H.
    apply andb_true_iff in H as [H _]. apply andb_true_iff in H as [H _]. eapply occurs_subseq; eauto.
  - unfold prefix_spec in H. match type of H with context [if ?b then _ else _] => destruct b eqn:E end; [|discriminate].
    eapply occurs_subseq; eauto.
  - unfold suffix_spec in H. match type of H with context [if ?b then _ else _] => destruct b eqn:E end; [|discriminate].
    apply andb_true_iff in E as [_ E]. eapply occurs_subseq; eauto.
  - unfold equal_spec in H. match type of H with context [if ?b then _ else _] => destruct b eqn:E end; [|discriminate].
    apply andb_true_iff in E as [_ E]. eapply occurs_subseq; eauto.
Qed.

End Witness.
