(* C14, mouse histories: every look-up in the table of printed lines is inside the table, for every geometry with the
   list window no taller than the table, every layout, and EVERY history of events (coordinates anywhere, inside or
   outside the screen; presses, motion, releases in any order; any event consumed by an earlier branch; a scrollbar
   or none at any moment). *)
From Fzf Require Import Prelude MouseSpec MouseModel.
Open Scope Z_scope.

Lemma translate_in_window : forall g my, 0 <= g_min g -> 0 <= my < g_h g -> 0 <= translate g my < g_h g.
Proof.
  intros g my Hmin Hmy. unfold translate.
  destruct (g_layout g =? 0); [lia|].
  destruct (g_layout g =? 2); [|lia].
  destruct (my <? g_h g - g_min g) eqn:E.
  - apply Z.ltb_lt in E. lia.
  - lia.
Qed.

Lemma enclose_inside : forall g y x, enclose g y x = true -> 0 <= y - g_top g < g_h g.
Proof.
  intros g y x H. unfold enclose in H.
  repeat rewrite andb_true_iff in H. destruct H as [[[_ _] Ht] Hb].
  apply Z.leb_le in Ht. apply Z.ltb_lt in Hb. lia.
Qed.

Lemma mouse_step_safe : forall g st e, geom_ok g -> safe g (snd (mouse_step g st e)).
Proof.
  intros g st e [Hmin Hh]. unfold mouse_step.
  destruct (e_taken e); [exact I|].
  destruct (enclose g (e_y e) (e_x e)) eqn:En; cbn [negb andb].
  - destruct (e_down e && _); cbn [snd safe]; [exact I|].
    pose proof (translate_in_window g _ Hmin (enclose_inside _ _ _ En)). lia.
  - destruct (e_down e) eqn:Ed.
    + destruct (s_bar st) eqn:Eb; cbn [negb orb andb snd safe]; exact I.
    + cbn [negb snd safe]. exact I.
Qed.

Theorem mouse_row_in_bounds_proof : forall g st es, geom_ok g -> Forall (safe g) (mouse_run g st es).
Proof.
  intros g st es Hg. revert st. induction es as [|e r IH]; intros st; cbn [mouse_run].
  - constructor.
  - pose proof (mouse_step_safe g st e Hg) as Hs.
    destruct (mouse_step g st e) as [st' o]. constructor; [exact Hs | apply IH].
Qed.

(* the `break` of the scrollbar branch must not depend on a scrollbar existing: with the fall-through variant a press
   on the last column of the list followed by motion below the window looks up a negative row *)
Theorem mouse_break_needed_proof : exists g es, geom_ok g /\ ~ Forall (safe g) (mouse_run_fallthrough g mst0 es).
Proof.
  exists (mkGeom 1 2 5 10 2 0 8).
  exists [mkMev 11 2 true false 0; mkMev 11 7 true false 0].
  split; [unfold geom_ok; cbn; lia|].
  intro H. inversion H as [|? ? _ H2]; subst. inversion H2 as [|? ? H3 _]; subst.
  cbn in H3. lia.
Qed.
