(* C10 proofs, part 2: ParseRange accepts every documented field index expression (in its
   printed form) and the Range it returns selects exactly the documented fields. *)
From Fzf Require Import Prelude FieldSpec TokenModel TokenProofs.
Open Scope Z_scope.

(* ---------- decimal numerals: atoi (itoa z) = z ---------- *)

Definition dstep (v d : Z) : Z := v * 10 + (d - 48).

Lemma digits_value_fold ds : digits_value ds = fold_left dstep ds 0.
Proof. reflexivity. Qed.

Lemma is_digit_small n : 0 <= n < 10 -> is_digit (48 + n) = true.
Proof.
  intro H. unfold is_digit. destruct (Z.leb_spec 48 (48 + n)); [|lia].
  destruct (Z.leb_spec (48 + n) 57); [reflexivity|lia].
Qed.

Lemma digits_one n acc : 0 <= n < 10 ->
  exists ds, (48 + n) :: acc = ds ++ acc /\ ds <> [] /\ forallb is_digit ds = true /\
             forall v0, fold_left dstep (ds ++ acc) v0 = fold_left dstep acc (fold_left dstep ds v0) /\
             fold_left dstep ds 0 = n.
Proof.
  intro H. exists [48 + n]. split; [reflexivity|]. split; [discriminate|]. split.
  - cbn [forallb]. rewrite is_digit_small by assumption. reflexivity.
  - intro v0. split; [reflexivity|]. cbn [fold_left]. unfold dstep. lia.
Qed.

Lemma digits_of_spec k : forall n acc,
  0 <= n < 2 ^ Z.of_nat (S k) ->
  exists ds, digits_of (S k) n acc = ds ++ acc /\ ds <> [] /\ forallb is_digit ds = true /\
             forall v0, fold_left dstep (ds ++ acc) v0 = fold_left dstep acc (fold_left dstep ds v0) /\
             fold_left dstep ds 0 = n.
Proof.
  induction k as [|k IH]; intros n acc Hn.
  - assert (n < 10) by (change (2 ^ Z.of_nat 1) with 2 in Hn; lia).
    cbn [digits_of]. destruct (Z.ltb_spec n 10); [|lia]. apply digits_one. lia.
  - change (digits_of (S (S k)) n acc) with
      (if n <? 10 then (48 + n) :: acc else digits_of (S k) (n / 10) ((48 + n mod 10) :: acc)).
    destruct (Z.ltb_spec n 10) as [Hlt|Hge]; [apply digits_one; lia|].
    assert (Hq : 0 <= n / 10 < 2 ^ Z.of_nat (S k)).
    { split; [apply Z.div_pos; lia|]. apply Z.div_lt_upper_bound; [lia|].
      replace (Z.of_nat (S (S k))) with (Z.succ (Z.of_nat (S k))) in Hn by lia.
      rewrite Z.pow_succ_r in Hn by lia.
      assert (0 < 2 ^ Z.of_nat (S k)) by (apply Z.pow_pos_nonneg; lia). lia. }
    destruct (IH (n / 10) ((48 + n mod 10) :: acc) Hq) as [ds [H1 [H2 [H3 H4]]]].
    pose proof (Z.mod_pos_bound n 10 ltac:(lia)) as Hm.
    exists (ds ++ [48 + n mod 10]). split; [rewrite H1, <- app_assoc; reflexivity|].
    split; [destruct ds; discriminate|]. split.
    + rewrite forallb_app, H3. cbn [forallb]. rewrite is_digit_small by assumption. reflexivity.
    + intro v0. split; [now rewrite !fold_left_app|].
      rewrite fold_left_app. destruct (H4 0) as [_ Hv]. rewrite Hv. cbn [fold_left]. unfold dstep.
      pose proof (Z.div_mod n 10 ltac:(lia)). lia.
Qed.

Lemma digits_spec n : 0 <= n ->
  digits n <> [] /\ forallb is_digit (digits n) = true /\ digits_value (digits n) = n.
Proof.
  intro Hn. unfold digits.
  assert (Hb : 0 <= n < 2 ^ Z.of_nat (S (Z.to_nat (Z.log2 n)))).
  { split; [exact Hn|]. pose proof (Z.log2_nonneg n).
    replace (Z.of_nat (S (Z.to_nat (Z.log2 n)))) with (Z.succ (Z.log2 n)) by lia.
    destruct (Z.eq_dec n 0) as [->|Hnz]; [reflexivity|]. apply Z.log2_spec. lia. }
  destruct (digits_of_spec _ n [] Hb) as [ds [H1 [H2 [H3 H4]]]].
  rewrite H1, app_nil_r. split; [exact H2|]. split; [exact H3|]. destruct (H4 0) as [_ Hv]. exact Hv.
Qed.

Lemma is_digit_range c : is_digit c = true -> 48 <= c <= 57.
Proof. unfold is_digit. intro H. apply andb_true_iff in H as [H1 H2]. apply Z.leb_le in H1. apply Z.leb_le in H2. lia. Qed.

Theorem atoi_itoa_proof : forall z, INT_MIN <= z <= INT_MAX -> atoi (itoa z) = Some z.
Proof.
  intros z Hz. unfold itoa. destruct (Z.ltb_spec z 0) as [Hneg|Hpos].
  - destruct (digits_spec (- z) ltac:(lia)) as [H1 [H2 H3]].
    unfold atoi. change (45 =? 45) with true. cbv iota beta.
    destruct (digits (- z)) as [|d ds] eqn:Hd; [congruence|]. rewrite H2, H3.
    replace (- - z) with z by lia.
    destruct (Z.leb_spec INT_MIN z); [|lia]. destruct (Z.leb_spec z INT_MAX); [reflexivity|lia].
  - destruct (digits_spec z Hpos) as [H1 [H2 H3]].
    unfold atoi. destruct (digits z) as [|d ds] eqn:Hd; [congruence|].
    assert (Hdd : 48 <= d <= 57).
    { apply is_digit_range. cbn in H2. apply andb_true_iff in H2. tauto. }
    destruct (Z.eqb_spec d 45); [lia|]. destruct (Z.eqb_spec d 43); [lia|].
    rewrite H2, H3.
    destruct (Z.leb_spec INT_MIN z); [|lia]. destruct (Z.leb_spec z INT_MAX); [reflexivity|lia].
Qed.

(* ---------- numerals contain no dot ---------- *)

Definition dotfree (s : str) : Prop := Forall (fun c => c <> 46) s.

Lemma digits_dotfree ds : forallb is_digit ds = true -> dotfree ds.
Proof.
  induction ds as [|d ds IH]; intro H; [constructor|].
  cbn in H. apply andb_true_iff in H as [H1 H2]. apply is_digit_range in H1.
  constructor; [lia|now apply IH].
Qed.

Lemma itoa_shape z : itoa z <> [] /\ dotfree (itoa z).
Proof.
  unfold itoa. destruct (Z.ltb_spec z 0).
  - destruct (digits_spec (- z) ltac:(lia)) as [H1 [H2 _]].
    split; [discriminate|]. constructor; [lia|now apply digits_dotfree].
  - destruct (digits_spec z ltac:(lia)) as [H1 [H2 _]]. split; [exact H1|now apply digits_dotfree].
Qed.

Lemma dd_not_prefix c s : c <> 46 -> is_prefix DD (c :: s) = false.
Proof. intro H. unfold DD. cbn [is_prefix]. destruct (Z.eqb_spec 46 c); [lia|reflexivity]. Qed.

Lemma dd_not_prefix_app s t : s <> [] -> dotfree s -> is_prefix DD (s ++ t) = false.
Proof. intros Hne Hd. destruct s as [|c s]; [congruence|]. inversion Hd; subst. now apply dd_not_prefix. Qed.

Lemma dd_not_suffix a b : b <> [] -> dotfree b -> has_suffix DD (a ++ b) = false.
Proof.
  intros Hne Hd. unfold has_suffix. rewrite rev_app_distr.
  apply dd_not_prefix_app.
  - intro Hc. apply Hne. rewrite <- (rev_involutive b), Hc. reflexivity.
  - now apply Forall_rev.
Qed.

Lemma dd_not_contained s : dotfree s -> contains DD s = false.
Proof.
  induction 1 as [|c s Hc _ IH]; [reflexivity|].
  cbn [contains]. rewrite (dd_not_prefix c s Hc). exact IH.
Qed.

Lemma dd_contained a b : contains DD (a ++ DD ++ b) = true.
Proof.
  induction a as [|c a IH]; [reflexivity|].
  change ((c :: a) ++ DD ++ b) with (c :: (a ++ DD ++ b)). cbn [contains]. rewrite IH. apply orb_true_r.
Qed.

Lemma split_dotfree b : forall cur, dotfree b -> split_go DD 0 cur b = [rev cur ++ b].
Proof.
  induction b as [|c b IH]; intros cur Hd; [cbn; now rewrite app_nil_r|].
  inversion Hd; subst. cbn [split_go]. rewrite dd_not_prefix by assumption.
  rewrite IH by assumption. cbn [rev]. now rewrite <- app_assoc.
Qed.

Lemma split_one_dd a b : forall cur, dotfree a -> dotfree b ->
  split_go DD 0 cur (a ++ DD ++ b) = [rev cur ++ a; b].
Proof.
  induction a as [|c a IH]; intros cur Ha Hb.
  - cbn [app DD]. cbn [split_go]. change (is_prefix DD (46 :: 46 :: b)) with true. cbv iota.
    change (length DD - 1)%nat with 1%nat. cbn [split_go]. rewrite split_dotfree by assumption.
    now rewrite app_nil_r.
  - inversion Ha; subst. change ((c :: a) ++ DD ++ b) with (c :: (a ++ DD ++ b)).
    cbn [split_go]. rewrite dd_not_prefix by assumption. rewrite IH by assumption.
    cbn [rev]. now rewrite <- app_assoc.
Qed.

Lemma str_eqb_false a b : a <> b -> str_eqb a b = false.
Proof. intro H. destruct (str_eqb a b) eqn:E; [|reflexivity]. apply str_eqb_eq in E. contradiction. Qed.

(* ---------- two expressions with the same clipped bounds select the same fields ---------- *)

Lemma select_fields_equiv {A} e1 e2 (l : list A) :
  (sel_bounds e1 (Z.of_nat (length l)) = sel_bounds e2 (Z.of_nat (length l)) \/
   (snd (sel_bounds e1 (Z.of_nat (length l))) < fst (sel_bounds e1 (Z.of_nat (length l))) /\
    snd (sel_bounds e2 (Z.of_nat (length l))) < fst (sel_bounds e2 (Z.of_nat (length l))))) ->
  select_fields e1 l = select_fields e2 l.
Proof.
  unfold select_fields.
  destruct (sel_bounds e1 _) as [lo1 hi1]. destruct (sel_bounds e2 _) as [lo2 hi2]. cbn [fst snd].
  intros [H|[H1 H2]]; [now inversion H|].
  replace (Z.to_nat (hi1 + 1 - lo1)) with 0%nat by lia.
  replace (Z.to_nat (hi2 + 1 - lo2)) with 0%nat by lia. reflexivity.
Qed.

Ltac split_cmp :=
  repeat match goal with
         | |- context [?a =? ?b] => destruct (Z.eqb_spec a b)
         | |- context [?a <? ?b] => destruct (Z.ltb_spec a b)
         | |- context [?a <=? ?b] => destruct (Z.leb_spec a b)
         end; cbn [andb negb orb fst snd].

Ltac split_new_range :=
  unfold new_range; cbv zeta;
  repeat match goal with
         | |- context [?a =? 1] => destruct (Z.eqb_spec a 1)
         | |- context [?a =? -1] => destruct (Z.eqb_spec a (-1))
         end; cbn [andb negb].

Lemma new_range_meaning_idx {A} n (l : list A) : n <> 0 ->
  select_fields (range_expr (new_range n n)) l = select_fields (FIdx n) l.
Proof.
  intro Hn. apply select_fields_equiv. pose proof (Zle_0_nat (length l)) as Hl.
  set (len := Z.of_nat (length l)) in *.
  split_new_range; unfold range_expr, sel_bounds, resolve; split_cmp; try lia;
    first [left; f_equal; lia | right; cbn [fst snd]; lia].
Qed.

Lemma new_range_meaning_range {A} (a b : option Z) (l : list A) :
  fexpr_valid (FRange a b) ->
  select_fields (range_expr (new_range (match a with Some x => x | None => 0 end)
                                       (match b with Some y => y | None => 0 end))) l
  = select_fields (FRange a b) l.
Proof.
  intros [Ha Hb]. apply select_fields_equiv. pose proof (Zle_0_nat (length l)) as Hl.
  set (len := Z.of_nat (length l)) in *.
  destruct a as [x|], b as [y|]; split_new_range; unfold range_expr, sel_bounds, resolve; split_cmp; try lia;
    first [left; f_equal; lia | right; cbn [fst snd]; lia].
Qed.

(* ---------- ParseRange on the documented syntax ---------- *)

Definition fexpr_in_int64 (e : fexpr) : Prop :=
  match e with
  | FIdx n => INT_MIN <= n <= INT_MAX
  | FRange a b =>
      match a with Some x => INT_MIN <= x <= INT_MAX | None => True end /\
      match b with Some y => INT_MIN <= y <= INT_MAX | None => True end
  end.

(* fzf refuses a negative begin with a positive end *)
Definition fexpr_accepted (e : fexpr) : Prop :=
  match e with FRange (Some x) (Some y) => ~ (x < 0 /\ 0 < y) | _ => True end.

Theorem parse_range_documented_proof : forall e,
  fexpr_valid e -> fexpr_in_int64 e -> fexpr_accepted e ->
  exists r, parse_range (print_fexpr e) = Some r /\
            forall (A : Type) (l : list A), select_fields (range_expr r) l = select_fields e l.
Proof.
  intros e Hv Hi Ha. destruct e as [n|a b].
  - (* N *)
    cbn in Hv, Hi. destruct (itoa_shape n) as [Hne Hd]. cbn [print_fexpr]. unfold parse_range.
    rewrite str_eqb_false.
    2:{ intro Hc. rewrite Hc in Hd. inversion Hd; subst. lia. }
    pose proof (dd_not_prefix_app (itoa n) [] Hne Hd) as Hp. rewrite app_nil_r in Hp.
    pose proof (dd_not_suffix [] (itoa n) Hne Hd) as Hs. cbn [app] in Hs.
    unfold has_prefix. rewrite Hp, Hs.
    rewrite dd_not_contained by assumption. rewrite atoi_itoa_proof by assumption.
    destruct (Z.eqb_spec n 0); [contradiction|].
    eexists; split; [reflexivity|]. intros A l. now apply new_range_meaning_idx.
  - destruct Hv as [Hva Hvb]. destruct Hi as [Hia Hib].
    destruct a as [x|], b as [y|]; cbn [print_fexpr].
    + (* A..B *)
      destruct (itoa_shape x) as [Hnx Hdx]. destruct (itoa_shape y) as [Hny Hdy].
      unfold parse_range.
      rewrite str_eqb_false.
      2:{ intro Hc. destruct (itoa x) as [|c s]; [congruence|]. inversion Hdx; subst. inversion Hc; lia. }
      unfold has_prefix. rewrite dd_not_prefix_app by assumption.
      change ([DOT; DOT] ++ itoa y) with (DD ++ itoa y).
      rewrite (app_assoc (itoa x) DD (itoa y)). rewrite dd_not_suffix by assumption.
      rewrite <- (app_assoc (itoa x) DD (itoa y)). rewrite dd_contained.
      unfold split. rewrite split_one_dd by assumption. cbn [rev app].
      rewrite !atoi_itoa_proof by assumption.
      destruct (Z.eqb_spec x 0); [contradiction|]. destruct (Z.eqb_spec y 0); [contradiction|].
      cbn [orb]. cbn in Ha.
      destruct (Z.ltb_spec x 0); destruct (Z.ltb_spec 0 y); cbn [andb]; try (exfalso; apply Ha; lia);
        (eexists; split; [reflexivity|]; intros A l;
         exact (new_range_meaning_range (Some x) (Some y) l (conj Hva Hvb))).
    + (* A.. *)
      destruct (itoa_shape x) as [Hnx Hdx]. unfold parse_range.
      change ([DOT; DOT] ++ []) with DD.
      rewrite str_eqb_false.
      2:{ intro Hc. destruct (itoa x) as [|c s]; [congruence|]. inversion Hdx; subst. inversion Hc; lia. }
      unfold has_prefix. rewrite dd_not_prefix_app by assumption.
      assert (Hs : has_suffix DD (itoa x ++ DD) = true).
      { unfold has_suffix. rewrite rev_app_distr. reflexivity. }
      rewrite Hs. rewrite app_length. change (length DD) with 2%nat.
      replace (length (itoa x) + 2 - 2)%nat with (length (itoa x)) by lia.
      rewrite firstn_app_exact. rewrite atoi_itoa_proof by assumption.
      destruct (Z.eqb_spec x 0); [contradiction|].
      eexists; split; [reflexivity|]. intros A l.
      exact (new_range_meaning_range (Some x) None l (conj Hva Hvb)).
    + (* ..B *)
      destruct (itoa_shape y) as [Hny Hdy]. unfold parse_range.
      change ([] ++ [DOT; DOT] ++ itoa y) with (DD ++ itoa y).
      rewrite str_eqb_false.
      2:{ intro Hc. destruct (itoa y); [congruence|]. discriminate. }
      assert (Hp : has_prefix DD (DD ++ itoa y) = true) by reflexivity. rewrite Hp.
      change (skipn 2 (DD ++ itoa y)) with (itoa y). rewrite atoi_itoa_proof by assumption.
      destruct (Z.eqb_spec y 0); [contradiction|].
      eexists; split; [reflexivity|]. intros A l.
      exact (new_range_meaning_range None (Some y) l (conj Hva Hvb)).
    + (* .. *)
      exists (0, 0). split; [reflexivity|]. intros A l.
      exact (new_range_meaning_range None None l (conj Hva Hvb)).
Qed.

(* a zero bound is refused: "0", "..0", "0..", "0..1", "1..0" *)
Lemma parse_range_rejects_zero_proof :
  parse_range [48] = None /\ parse_range [46; 46; 48] = None /\ parse_range [48; 46; 46] = None /\
  parse_range [48; 46; 46; 49] = None /\ parse_range [49; 46; 46; 48] = None.
Proof. repeat split; vm_compute; reflexivity. Qed.
