(* C17 proofs, colour part: the model of parseTheme (ColorModel.v) against the documented
   meaning of --color (ColorSpec.v). *)
From Coq Require Import String.
From Fzf Require Import Prelude BindSpec BindModel ColorSpec ColorModel.
Open Scope Z_scope.

(* ------------------------------------------------------------------ components *)

Lemma merge_attr_spec : forall ws ca,
  merge_attr ws ca = option_map (apply_comps ca) (comps_of ws).
Proof.
  induction ws as [|w r IH]; intro ca; [reflexivity|].
  cbn [merge_attr comps_of]. unfold comp_of.
  destruct w as [|c w'].
  - (* the empty component *)
    change (str_eqb [] s_regular) with false. cbn [assoc_str attr_names colour_names].
    change (assoc_str [] attr_names) with (@None Z). change (assoc_str [] colour_names) with (@None Z).
    cbv iota beta. rewrite IH. destruct (comps_of r); reflexivity.
  - set (w := c :: w').
    destruct (str_eqb w s_regular).
    { rewrite IH. destruct (comps_of r); reflexivity. }
    destruct (assoc_str w attr_names) as [a|].
    { rewrite IH. destruct (comps_of r); reflexivity. }
    destruct (assoc_str w colour_names) as [x|].
    { rewrite IH. destruct (comps_of r); reflexivity. }
    subst w. cbv iota beta.
    destruct (hex_colour (c :: w')) as [x|].
    { rewrite IH. destruct (comps_of r); reflexivity. }
    destruct (dec_colour (c :: w')) as [x|]; cbn [option_map].
    { rewrite IH. destruct (comps_of r); reflexivity. }
    reflexivity.
Qed.

(* ------------------------------------------------------------------ regular clears; the last complete entry decides *)

Definition attr_fold (a : Z) (cs : list comp) : Z :=
  fold_left (fun a c => match c with CAttr x => Z.lor a x | CRegular => A_REGULAR | _ => a end) cs a.
Definition colour_fold (x : Z) (cs : list comp) : Z :=
  fold_left (fun x c => match c with CColor y => y | _ => x end) cs x.

Lemma apply_comps_split : forall cs ca,
  apply_comps ca cs = (colour_fold (fst ca) cs, attr_fold (snd ca) cs).
Proof.
  unfold apply_comps, colour_fold, attr_fold.
  induction cs as [|c r IH]; intros [x a]; [reflexivity|].
  cbn [fold_left]. rewrite IH. destruct c; reflexivity.
Qed.

Lemma attr_fold_app a u v : attr_fold a (u ++ v) = attr_fold (attr_fold a u) v.
Proof. unfold attr_fold. now rewrite fold_left_app. Qed.

(* `regular` clears previously set attributes: what follows it decides the attributes, whatever was there
   and whatever preceded it in the entry *)
Theorem regular_clears_proof : forall ca ca' pre pre' post,
  snd (apply_comps ca (pre ++ CRegular :: post)) = snd (apply_comps ca' (pre' ++ CRegular :: post)).
Proof.
  intros. rewrite !apply_comps_split. cbn [snd].
  rewrite !attr_fold_app. reflexivity.
Qed.

Lemma colour_fold_has : forall cs x y, has_colour cs = true -> colour_fold x cs = colour_fold y cs.
Proof.
  unfold colour_fold, has_colour.
  induction cs as [|c r IH]; intros x y H; [discriminate|].
  cbn [existsb] in H. cbn [fold_left]. destruct c; cbn in H; try (apply IH; exact H).
  reflexivity.
Qed.

(* an entry that begins with regular and names a colour decides its name completely *)
Theorem complete_decides_proof : forall cs ca ca', complete cs = true -> apply_comps ca cs = apply_comps ca' cs.
Proof.
  intros cs ca ca' H. destruct cs as [|c r]; [discriminate|]. destruct c; try discriminate.
  cbn [complete] in H. rewrite !apply_comps_split. f_equal.
  unfold colour_fold. cbn [fold_left]. now apply colour_fold_has.
Qed.

(* slots *)
Lemma slot_get_set_same : forall m s v, slot_get (slot_set m s v) s = v.
Proof.
  induction m as [|[s' v'] r IH]; intros s v; cbn [slot_set slot_get].
  - assert (E : str_eqb s s = true) by now apply str_eqb_eq. now rewrite E.
  - destruct (str_eqb s s') eqn:E; cbn [slot_get]; rewrite E; [reflexivity|apply IH].
Qed.

Lemma slot_get_set_other : forall m s s' v, str_eqb s' s = false -> slot_get (slot_set m s v) s' = slot_get m s'.
Proof.
  induction m as [|[s0 v0] r IH]; intros s s' v H; cbn [slot_set slot_get].
  - now rewrite H.
  - destruct (str_eqb s s0) eqn:E; cbn [slot_get].
    + apply str_eqb_eq in E. subst s0. now rewrite H.
    + destruct (str_eqb s' s0); [reflexivity|now apply IH].
Qed.

(* an entry that does not touch the name s: a name entry for some other name *)
Definition leaves (s : str) (e : centry) : Prop :=
  match map to_lower e with
  | n :: _ :: _ => match assoc_str n slot_names with Some s' => str_eqb s s' = false | None => True end
  | _ => False
  end.

Lemma leaves_get bases t e t' s : leaves s e -> entry_denote bases t e = Some t' -> theme_get t' s = theme_get t s.
Proof.
  unfold leaves, entry_denote. destruct (map to_lower e) as [|n [|w ws]]; try contradiction.
  destruct (assoc_str n slot_names) as [s'|]; [|discriminate].
  destruct (comps_of (w :: ws)); [|discriminate].
  intros H E. inversion E. unfold theme_get, theme_set. cbn [snd]. now apply slot_get_set_other.
Qed.

Lemma leaves_all bases s : forall zs t t', Forall (leaves s) zs -> entries_denote bases t zs = Some t' ->
  theme_get t' s = theme_get t s.
Proof.
  induction zs as [|z r IH]; intros t t' F E; cbn [entries_denote] in E.
  - now inversion E.
  - inversion F as [|? ? Hz Hr]; subst. destruct (entry_denote bases t z) as [t1|] eqn:E1; [|discriminate].
    rewrite (IH t1 t' Hr E). eapply leaves_get; eauto.
Qed.

Lemma entries_denote_app bases : forall xs ys t,
  entries_denote bases t (xs ++ ys) =
  match entries_denote bases t xs with Some t1 => entries_denote bases t1 ys | None => None end.
Proof.
  induction xs as [|x r IH]; intros ys t; [reflexivity|].
  cbn [app entries_denote]. destruct (entry_denote bases t x); [apply IH|reflexivity].
Qed.

(* Later occurrences override earlier ones: if the last entry for a name begins with `regular` and gives a
   colour, the name ends up exactly as that entry alone says — whatever base scheme, entries, options file or
   environment came before. *)
Theorem color_last_wins_proof : forall bases t xs n ws s cs zs t',
  assoc_str (to_lower n) slot_names = Some s ->
  ws <> [] -> comps_of (map to_lower ws) = Some cs -> complete cs = true ->
  Forall (leaves s) zs ->
  entries_denote bases t (xs ++ (n :: ws) :: zs) = Some t' ->
  theme_get t' s = apply_comps (C_UNDEFINED, A_NONE) cs.
Proof.
  intros bases t xs n ws s cs zs t' Hn Hws Hcs Hc Hz E.
  rewrite entries_denote_app in E. destruct (entries_denote bases t xs) as [t1|]; [|discriminate].
  cbn [entries_denote] in E. destruct (entry_denote bases t1 (n :: ws)) as [t2|] eqn:E2; [|discriminate].
  rewrite (leaves_all bases s zs t2 t' Hz E).
  unfold entry_denote in E2. cbn [map] in E2. destruct ws as [|w ws']; [congruence|].
  cbn [map] in E2, Hcs. rewrite Hn in E2. cbn [map] in Hcs. rewrite Hcs in E2. inversion E2.
  unfold theme_get, theme_set. cbn [snd]. rewrite slot_get_set_same. now apply complete_decides_proof.
Qed.

(* ------------------------------------------------------------------ strings: lower case, split, join *)

Lemma to_lower_app u v : to_lower (u ++ v) = to_lower u ++ to_lower v.
Proof. unfold to_lower. apply map_app. Qed.

Lemma split_aux_app sep : forall a cur c,
  split_aux sep cur (a ++ sep :: c) = split_aux sep cur a ++ split_aux sep [] c.
Proof.
  induction a as [|x r IH]; intros cur c; cbn [app split_aux].
  - now rewrite Z.eqb_refl.
  - destruct (x =? sep); [cbn [app]; f_equal; apply IH|apply IH].
Qed.

Lemma split_on_app sep a c : split_on sep (a ++ sep :: c) = split_on sep a ++ split_on sep c.
Proof. apply split_aux_app. Qed.

Lemma split_aux_nosep sep : forall w cur, ~ In sep w -> split_aux sep cur w = [rev cur ++ w].
Proof.
  induction w as [|x r IH]; intros cur H; cbn [split_aux]; [now rewrite app_nil_r|].
  destruct (x =? sep) eqn:E; [apply Z.eqb_eq in E; subst; exfalso; apply H; now left|].
  rewrite IH by (intro X; apply H; now right). cbn [rev]. now rewrite <- app_assoc.
Qed.

Lemma split_join sep : forall ws, ws <> [] -> Forall (fun w => ~ In sep w) ws -> split_on sep (join sep ws) = ws.
Proof.
  induction ws as [|w r IH]; intros NE F; [congruence|].
  inversion F as [|? ? Hw Hr]; subst.
  destruct r as [|w2 r'].
  - cbn [join]. unfold split_on. now rewrite split_aux_nosep.
  - change (join sep (w :: w2 :: r')) with (w ++ sep :: join sep (w2 :: r')).
    rewrite split_on_app. unfold split_on at 1. rewrite split_aux_nosep by assumption. cbn [rev app].
    f_equal. apply IH; [discriminate|assumption].
Qed.

Lemma to_lower_join sep : lower sep = sep -> forall ws, to_lower (join sep ws) = join sep (map to_lower ws).
Proof.
  intros Hs. induction ws as [|w r IH]; [reflexivity|].
  destruct r as [|w2 r'].
  - reflexivity.
  - change (join sep (w :: w2 :: r')) with (w ++ sep :: join sep (w2 :: r')).
    rewrite to_lower_app. change (to_lower (sep :: join sep (w2 :: r'))) with (lower sep :: to_lower (join sep (w2 :: r'))).
    rewrite Hs, IH. reflexivity.
Qed.

Lemma lower_not (sep : Z) : sep < 97 -> forall c, c <> sep -> lower c <> sep.
Proof.
  intros Hs c H. unfold lower, is_upper.
  destruct ((65 <=? c) && (c <=? 90)) eqn:E; [|exact H].
  apply andb_true_iff in E as [E1 E2]. apply Z.leb_le in E1. lia.
Qed.

Lemma to_lower_nosep sep w : sep < 97 -> ~ In sep w -> ~ In sep (to_lower w).
Proof.
  intros Hs H X. unfold to_lower in X. apply in_map_iff in X as (c & Hc & Hin).
  apply (lower_not sep Hs c); [|exact Hc]. intro E. apply H. rewrite <- E. exact Hin.
Qed.

Lemma word_ok_nosep w : word_ok w = true -> ~ In COMMA w /\ ~ In COLON w.
Proof.
  unfold word_ok. rewrite forallb_forall. intro H. split; intro X; specialize (H _ X); cbn in H; discriminate.
Qed.

Lemma in_join sep x : forall ws, In x (join sep ws) -> x = sep \/ exists w, In w ws /\ In x w.
Proof.
  induction ws as [|w r IH]; intro H; [contradiction|].
  destruct r as [|w2 r'].
  - right. exists w. split; [now left|exact H].
  - change (join sep (w :: w2 :: r')) with (w ++ sep :: join sep (w2 :: r')) in H.
    apply in_app_or in H as [H|[H|H]].
    + right. exists w. split; [now left|exact H].
    + now left.
    + destruct (IH H) as [E|(w0 & Hin & Hx)]; [now left|]. right. exists w0. split; [now right|exact Hx].
Qed.

(* ------------------------------------------------------------------ --color a,b == --color a --color b *)

Lemma theme_loop_app bases : forall ps qs t,
  theme_loop bases t (ps ++ qs) =
  match theme_loop bases t ps with
  | Ok (Good t1) => theme_loop bases t1 qs
  | other => other
  end.
Proof.
  induction ps as [|p r IH]; intros qs t; [reflexivity|].
  cbn [app theme_loop].
  destruct (assoc_str p base_names) as [i|].
  - destruct (get bases i) as [bt|e]; cbn [bind]; [apply IH|reflexivity].
  - destruct (split_on COLON p) as [|n [|w ws]]; try reflexivity.
    destruct (assoc_str n slot_names) as [s|]; [|reflexivity].
    destruct (merge_attr (w :: ws) (theme_get t s)); [apply IH|reflexivity].
Qed.

(* One --color option whose value is s1,s2 is the same as --color s1 followed by --color s2 (in the same or
   in a later layer): repeated options, options file, $FZF_DEFAULT_OPTS and the command line continue from
   the theme the previous one left.  For ALL byte strings. *)
Theorem color_concat_proof : forall bases t s1 s2,
  parse_theme bases t (s1 ++ COMMA :: s2) =
  match parse_theme bases t s1 with
  | Ok (Good t1) => parse_theme bases t1 s2
  | other => other
  end.
Proof.
  intros. unfold parse_theme. rewrite to_lower_app.
  change (to_lower (COMMA :: s2)) with (COMMA :: to_lower s2).
  rewrite split_on_app. apply theme_loop_app.
Qed.

(* ------------------------------------------------------------------ the model computes the documented meaning *)

Lemma base_names_plain p i : assoc_str p base_names = Some i -> ~ In COLON p /\ (i < 4)%nat.
Proof.
  unfold base_names. cbn [assoc_str].
  repeat match goal with
  | |- (if str_eqb p ?k then _ else _) = _ -> _ =>
      let E := fresh "E" in destruct (str_eqb p k) eqn:E;
      [apply str_eqb_eq in E; subst p; intro H; inversion H; split; [cbn; intuition discriminate|lia]|]
  end.
  discriminate.
Qed.

Lemma get_nth {A} (d : A) : forall (l : list A) i, (i < length l)%nat -> get l i = Ok (nth i l d).
Proof.
  induction l as [|x r IH]; intros i H; [cbn in H; lia|].
  destruct i; [reflexivity|]. cbn [get nth]. apply IH. cbn in H. lia.
Qed.

Definition answer (o : option theme) : res (outcome theme) :=
  match o with Some t => Ok (Good t) | None => Ok (Bad E_COLOR) end.

Lemma entry_step bases t e : (5 <= length bases)%nat -> entry_ok e = true ->
  forall r, theme_loop bases t (to_lower (render_entry e) :: r) =
            match entry_denote bases t e with Some t1 => theme_loop bases t1 r | None => Ok (Bad E_COLOR) end.
Proof.
  intros HB HE r. unfold entry_ok in HE. apply andb_true_iff in HE as [NE HW].
  destruct e as [|w0 ws]; [discriminate|].
  assert (FW : Forall (fun w => ~ In COLON (to_lower w)) (w0 :: ws)).
  { apply Forall_forall. intros w Hin. rewrite forallb_forall in HW.
    apply to_lower_nosep; [unfold COLON; lia|]. now apply word_ok_nosep, HW. }
  unfold render_entry. rewrite (to_lower_join COLON eq_refl).
  set (lws := map to_lower (w0 :: ws)).
  assert (SP : split_on COLON (join COLON lws) = lws).
  { apply split_join; [subst lws; discriminate|]. subst lws. apply Forall_forall. intros w Hin.
    apply in_map_iff in Hin as (w' & <- & Hin'). rewrite Forall_forall in FW. now apply FW. }
  cbn [theme_loop]. unfold entry_denote. fold lws.
  destruct (assoc_str (join COLON lws) base_names) as [i|] eqn:EB.
  - destruct (base_names_plain _ _ EB) as [NC Hi].
    (* a base scheme name has no colon: the entry is that single word *)
    subst lws. destruct ws as [|w1 ws'].
    + cbn [map join] in *. rewrite EB. rewrite (get_nth t) by lia. reflexivity.
    + exfalso. apply NC. cbn [map]. change (join COLON (to_lower w0 :: to_lower w1 :: map to_lower ws'))
        with (to_lower w0 ++ COLON :: join COLON (to_lower w1 :: map to_lower ws')).
      apply in_or_app. right. now left.
  - rewrite SP. subst lws. destruct ws as [|w1 ws'].
    + cbn [map join] in *. rewrite EB. reflexivity.
    + cbn [map]. destruct (assoc_str (to_lower w0) slot_names) as [s|]; [|reflexivity].
      rewrite merge_attr_spec. cbn [map].
      destruct (comps_of (to_lower w1 :: map to_lower ws')); reflexivity.
Qed.

Lemma entries_steps bases : (5 <= length bases)%nat -> forall es t, forallb entry_ok es = true ->
  theme_loop bases t (map (fun e => to_lower (render_entry e)) es) = answer (entries_denote bases t es).
Proof.
  intros HB. induction es as [|e r IH]; intros t H; [reflexivity|].
  cbn [forallb] in H. apply andb_true_iff in H as [He Hr].
  cbn [map entries_denote]. rewrite (entry_step bases t e HB He).
  destruct (entry_denote bases t e); [now apply IH|reflexivity].
Qed.

(* Writing down any list of entries (words free of ',' and ':', in any letter case) and parsing the string gives
   exactly the documented meaning of the entries — or a user error exactly when the documentation gives none. *)
Theorem color_refines_proof : forall bases t es, (5 <= length bases)%nat -> entries_ok es = true ->
  parse_theme bases t (render_entries es) = answer (entries_denote bases t es).
Proof.
  intros bases t es HB H. unfold entries_ok in H. apply andb_true_iff in H as [H _]. apply andb_true_iff in H as [NE HE].
  unfold parse_theme, render_entries. rewrite (to_lower_join COMMA eq_refl). rewrite map_map.
  rewrite split_join.
  - now apply entries_steps.
  - destruct es; [discriminate|discriminate].
  - apply Forall_forall. intros p Hin. apply in_map_iff in Hin as (e & <- & Hin).
    rewrite forallb_forall in HE. specialize (HE _ Hin). unfold entry_ok in HE. apply andb_true_iff in HE as [_ HW].
    apply to_lower_nosep; [unfold COMMA; lia|]. intro X. unfold render_entry in X.
    apply in_join in X as [X|(w & Hw & Hx)]; [discriminate|].
    rewrite forallb_forall in HW. now apply (proj1 (word_ok_nosep _ (HW _ Hw))).
Qed.

(* parseTheme never fails otherwise than by a user error, provided the five built-in themes exist *)
Theorem color_total_proof : forall bases t s, (5 <= length bases)%nat ->
  exists o, parse_theme bases t s = Ok o.
Proof.
  intros bases t s HB. unfold parse_theme. generalize (split_on COMMA (to_lower s)) as ps. intro ps. revert t.
  induction ps as [|p r IH]; intro t; [eexists; reflexivity|].
  cbn [theme_loop]. destruct (assoc_str p base_names) as [i|] eqn:EB.
  - destruct (base_names_plain _ _ EB) as [_ Hi]. rewrite (get_nth t) by lia. cbn [bind]. apply IH.
  - destruct (split_on COLON p) as [|n [|w ws]]; try (eexists; reflexivity).
    destruct (assoc_str n slot_names); [|eexists; reflexivity].
    destruct (merge_attr (w :: ws) _); [apply IH|eexists; reflexivity].
Qed.
