(* C18, process level: the action loop of one session refines "what the steps amount to". *)
From Fzf Require Import Prelude HistorySpec HistoryModel HistoryProofs HistoryProcSpec HistoryProcModel
  HistoryProcProofs HistoryLoopSpec HistoryLoopModel.
Open Scope Z_scope.

Definition as_psession (s : lsession) : psession :=
  mkP (l_layers s) (fst (amounts_to (l_steps s) (l_end s))) (snd (amounts_to (l_steps s) (l_end s))).

Lemma loop_steps_amounts ps : forall st e0,
  match loop_steps st ps with
  | Ok (st', oe) => sess_steps st (fst (amounts_to ps e0)) = Ok st' /\ snd (amounts_to ps e0) = or_end oe e0
  | Err er => sess_steps st (fst (amounts_to ps e0)) = Err er
  end.
Proof.
  induction ps as [|p ps IH]; intros st e0; cbn [loop_steps amounts_to].
  - cbn. split; reflexivity.
  - destruct p as [o|e v].
    + cbn [fst snd sess_steps]. destruct (sess_step st o) as [st'|er]; cbn [bind]; [apply IH|reflexivity].
    + destruct v; [cbn; split; reflexivity|apply IH].
Qed.

Lemma nohist_loop_amounts ps : forall inp seen e0,
  nohist_loop inp seen ps =
  (fst (nohist_steps inp seen (fst (amounts_to ps e0))), snd (nohist_steps inp seen (fst (amounts_to ps e0))),
   snd (nohist_loop inp seen ps)) /\
  or_end (snd (nohist_loop inp seen ps)) e0 = snd (amounts_to ps e0).
Proof.
  induction ps as [|p ps IH]; intros inp seen e0; cbn [nohist_loop amounts_to].
  - cbn. split; reflexivity.
  - destruct p as [o|e v].
    + cbn [fst snd]. destruct o; cbn [nohist_steps]; apply IH.
    + destruct v; [cbn; split; reflexivity|apply IH].
Qed.

(* the loop of the program = the plain session its steps amount to, ended by the ending they amount to *)
Theorem loop_refines_proof F s :
  run_lsession F s =
  match run_psession F (as_psession s) with
  | Ok (F', c, seen, inp) => Ok (F', c, seen, inp, snd (amounts_to (l_steps s) (l_end s)))
  | Err er => Err er
  end.
Proof.
  unfold run_lsession, run_psession, as_psession. cbn [p_layers p_ops p_end].
  destruct (parse_layers None (l_layers s)) as [H|er]; cbn [bind]; [|reflexivity].
  destruct H as [[p n]|].
  - unfold run_session. cbn [ss_ops ss_submit].
    destruct (new_history (touch_words F (concat (l_layers s)) p) n) as [hf|er]; cbn [bind]; [|reflexivity].
    pose proof (loop_steps_amounts (l_steps s) (mkSess (fst hf) [] []) (l_end s)) as HL.
    destruct (loop_steps (mkSess (fst hf) [] []) (l_steps s)) as [[st' oe]|er]; cbn [bind fst snd].
    + destruct HL as [HL1 HL2]. rewrite HL1, HL2. cbn [bind].
      destruct (records (or_end oe (l_end s))); [|reflexivity].
      destruct (h_append (s_hist st') (snd hf) (s_input st')) as [hf'|er]; cbn [bind fst snd]; reflexivity.
    + rewrite HL. cbn [bind]. reflexivity.
  - destruct (nohist_loop_amounts (l_steps s) [] [] (l_end s)) as [H1 H2].
    rewrite H1. cbn [fst snd]. rewrite H2. reflexivity.
Qed.

Lemma amounts_ignored {A} (ps1 ps2 : list (pstep A)) e e0 :
  amounts_to (ps1 ++ PTry e false :: ps2) e0 = amounts_to (ps1 ++ ps2) e0.
Proof.
  induction ps1 as [|p ps1 IH]; [reflexivity|]. cbn [app amounts_to].
  destruct p as [o|e' v]; [now rewrite IH|]. destruct v; [reflexivity|apply IH].
Qed.

(* attempts that are ignored leave no trace at all: same files, same shown strings, same query, same ending *)
Theorem ignored_no_trace_proof F layers ps1 ps2 e e0 :
  run_lsession F (mkL layers (ps1 ++ PTry e false :: ps2) e0) = run_lsession F (mkL layers (ps1 ++ ps2) e0).
Proof.
  rewrite !loop_refines_proof. unfold as_psession. cbn [l_layers l_steps l_end]. now rewrite amounts_ignored.
Qed.

Definition lsession_wf (s : lsession) : Prop := psession_wf (as_psession s).

(* one run, every file: what the spec says for the ending the steps amount to and the query at that moment *)
Theorem loop_session_proof F s : lsession_wf s ->
  let cfg := eff_config (concat (l_layers s)) in
  let e := snd (amounts_to (l_steps s) (l_end s)) in
  exists F' seen inp, run_lsession F s = Ok (F', cfg, seen, inp, e) /\
    forall q, fs_entries (F' q) = proc_step cfg e inp q (fs_entries (F q)).
Proof.
  intros Hwf. cbn zeta. destruct (psession_lemma F (as_psession s) Hwf) as [F' [seen [inp [Hr He]]]].
  exists F', seen, inp. split; [|exact He].
  rewrite loop_refines_proof, Hr. reflexivity.
Qed.

(* in particular: as long as no attempt has fired and the session has not ended otherwise (= it is given up
   at this point), no file has changed its entries *)
Theorem open_session_unchanged_proof F layers ps : lsession_wf (mkL layers ps EndAbort) ->
  Forall (fun p => match p with PTry _ true => False | _ => True end) ps ->
  exists F' c seen inp, run_lsession F (mkL layers ps EndAbort) = Ok (F', c, seen, inp, EndAbort) /\
    forall q, fs_entries (F' q) = fs_entries (F q).
Proof.
  intros Hwf Hno.
  assert (Hend : snd (amounts_to ps EndAbort) = EndAbort).
  { clear Hwf. induction Hno as [|p ps Hp _ IH]; [reflexivity|]. cbn [amounts_to].
    destruct p as [o|e v]; [cbn [snd]; exact IH|]. destruct v; [contradiction|exact IH]. }
  destruct (loop_session_proof F _ Hwf) as [F' [seen [inp [Hr He]]]]. cbn [l_layers l_steps l_end] in *.
  rewrite Hend in *. do 4 eexists. split; [exact Hr|].
  intros q. rewrite He. unfold proc_step. destruct (eff_config (concat layers)) as [[p0 n]|]; [|reflexivity].
  cbn [submits]. now rewrite andb_false_r.
Qed.
