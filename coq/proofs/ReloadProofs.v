(* C13 proofs: the reload-side spec means what it says; the coordinator's revision labels separate generations. *)
From Fzf Require Import Prelude DisplaySpec ReloadSpec CoordRevModel TextStoreProofs.
Open Scope Z_scope.

Lemma zmem_In i l : zmem i l = true <-> In i l.
Proof.
  unfold zmem. rewrite existsb_exists. split.
  - intros [x [Hin Hx]]. apply Z.eqb_eq in Hx. subst. exact Hin.
  - intro Hin. exists i. split; [exact Hin | apply Z.eqb_refl].
Qed.

Lemma same_indexes_sound got want :
  same_indexes got want = true -> length got = length want /\ (forall i, In i got <-> In i want).
Proof.
  unfold same_indexes. rewrite !andb_true_iff, Nat.eqb_eq, !forallb_forall.
  intros [[Hl Hw] Hg]. split; [exact Hl |]. intro i. split; intro H.
  - apply zmem_In. apply Hg. exact H.
  - apply zmem_In. apply Hw. exact H.
Qed.

(* what a passed check says *)
Theorem published_ok_sound_proof : forall q lines n total mcount reported,
  published_ok q lines n total mcount reported = true ->
  0 <= n <= Z.of_nat (length lines) /\ total = n /\ mcount = Z.of_nat (length reported) /\
  length reported = length (published_filter q lines n) /\
  (forall i, In i (map fst reported) <->
     exists k t, nth_error (frozen_prefix lines n) k = Some t /\ i = Z.of_nat k /\ contains q t = true) /\
  (forall i t, In (i, t) reported -> 0 <= i /\ nth_error (frozen_prefix lines n) (Z.to_nat i) = Some t).
Proof.
  intros q lines n total mcount reported H. unfold published_ok in H.
  rewrite !andb_true_iff in H. destruct H as [[[[[H0 H1] H2] H3] H4] H5].
  apply Z.leb_le in H0. apply Z.leb_le in H1. apply Z.eqb_eq in H2. apply Z.eqb_eq in H3.
  apply same_indexes_sound in H4. destruct H4 as [Hl Hs].
  repeat split; try assumption.
  - rewrite map_length in Hl. exact Hl.
  - intro Hin. apply Hs in Hin. unfold published_filter in Hin. apply substr_filter_spec_proof in Hin.
    destruct Hin as [k [t [A [B C]]]]. exists k, t. repeat split; auto.
  - intros [k [t [A [B C]]]]. apply Hs. unfold published_filter. apply substr_filter_spec_proof.
    exists k, t. repeat split; auto.
  - destruct (published_changed lines n reported) eqn:E; [| discriminate].
    unfold published_changed in E. pose proof (proj1 (changed_items_none_proof _ _) E i t H) as [A _]. exact A.
  - destruct (published_changed lines n reported) eqn:E; [| discriminate].
    unfold published_changed in E. pose proof (proj1 (changed_items_none_proof _ _) E i t H) as [_ B]. exact B.
Qed.

(* the search over a frozen prefix does not depend on what is appended later *)
Theorem frozen_prefix_ignores_appends_proof : forall q lines later n,
  0 <= n <= Z.of_nat (length lines) ->
  published_filter q (lines ++ later) n = published_filter q lines n.
Proof.
  intros q lines later n Hn. unfold published_filter, frozen_prefix.
  rewrite firstn_app. replace (Z.to_nat n - length lines)%nat with 0%nat by lia.
  cbn [firstn]. rewrite app_nil_r. reflexivity.
Qed.

(* ---- the coordinator's labels *)

Definition cinv (s : cstate) : Prop :=
  c_inrev s = c_gen s /\ c_snaprev s = c_snapgen s /\
  (forall r, In r (c_posted s) -> sr_rev r = sr_gen r).

Lemma cinv_init : cinv c_init.
Proof. repeat split. intros r []. Qed.

Lemma cinv_post s : cinv s -> cinv (c_post s).
Proof.
  intros [A [B C]]. repeat split; cbn; auto.
  intros r [<- | H]; [cbn; exact B | apply C; exact H].
Qed.
Lemma cinv_take s : cinv s -> cinv (c_take s).
Proof. intros [A [B C]]. repeat split; cbn; auto. Qed.
Lemma cinv_set s a b c : cinv s -> cinv (c_set s a b c).
Proof. intros [A [B C]]. repeat split; cbn; auto. Qed.
Lemma cinv_restart s : cinv s -> cinv (c_restart s).
Proof. intros [A [B C]]. repeat split; cbn; auto. Qed.

Lemma cinv_step s e : cinv s -> cinv (c_step false s e).
Proof.
  intro I. destruct e as [| | |cmd changed]; cbn [c_step].
  - destruct (c_reading s); [| exact I]. destruct I as [A [B C]]. repeat split; cbn; auto.
  - apply cinv_post. destruct (c_usesnap s); [exact I | apply cinv_take; exact I].
  - destruct (c_next s).
    + apply cinv_restart, cinv_set, I.
    + apply cinv_post, cinv_take, cinv_set, I.
  - assert (I1 : cinv match cmd with
                      | Some sync =>
                          let s0 := c_set s (c_reading s) (c_next s) sync in
                          if c_reading s0 then c_set s0 true true sync else c_restart s0
                      | None => s
                      end).
    { destruct cmd as [sync|]; [| exact I]. cbn zeta.
      destruct (c_reading (c_set s (c_reading s) (c_next s) sync)).
      - apply cinv_set, cinv_set, I.
      - apply cinv_restart, cinv_set, I. }
    set (s1 := match cmd with Some sync => _ | None => s end) in *.
    destruct (negb changed); [exact I1 |].
    apply cinv_post. destruct (c_usesnap s1); [exact I1 |].
    destruct cmd as [sync|]; [| apply cinv_take, I1].
    destruct (Nat.eqb (c_len s1) 0); [exact I1 | apply cinv_take, I1].
Qed.

Lemma cinv_run evs : forall s, cinv s -> cinv (c_run false s evs).
Proof.
  induction evs as [|e evs IH]; intros s I; cbn; [exact I |].
  apply IH, cinv_step, I.
Qed.

Theorem coordinator_labels_separate_proof : forall evs, labels_separate (c_posted (c_run false c_init evs)).
Proof.
  intros evs a b Ha Hb E. destruct (cinv_run evs c_init cinv_init) as [_ [_ C]].
  rewrite <- (C a Ha), <- (C b Hb). exact E.
Qed.

Lemma labels_clash_refutes posted : labels_clash posted = true -> ~ labels_separate posted.
Proof.
  induction posted as [|a r IH]; cbn; [discriminate |].
  rewrite orb_true_iff, existsb_exists. intros [[b [Hb Hc]] | H] Sep.
  - apply andb_true_iff in Hc. destruct Hc as [E N]. apply Nat.eqb_eq in E.
    apply negb_true_iff, Nat.eqb_neq in N. apply N. apply Sep; [left; reflexivity | right; exact Hb | exact E].
  - apply (IH H). intros x y Hx Hy. apply Sep; right; assumption.
Qed.

(* a list of 2 items is on display; ONE request changes the query and reloads; the new list reaches 2 items *)
Definition relabel_witness : list cevent :=
  [CPush; CPush; CReadFin; CSearchNew (Some false) true; CPush; CPush; CReadNew].

Theorem relabel_kept_snapshot_refuted_proof :
  exists evs, ~ labels_separate (c_posted (c_run true c_init evs)) /\
              exists a b, In a (c_posted (c_run true c_init evs)) /\ In b (c_posted (c_run true c_init evs)) /\
                          sr_rev a = sr_rev b /\ sr_count a = sr_count b /\ sr_gen a <> sr_gen b.
Proof.
  exists relabel_witness. split.
  - apply labels_clash_refutes. vm_compute. reflexivity.
  - exists (mkSreq 1 2 1), (mkSreq 0 2 1). vm_compute. repeat split; auto. discriminate.
Qed.
