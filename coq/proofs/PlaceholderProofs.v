(* C12 proofs: the quoting of the model round-trips through the shell-word spec, for all inputs. *)
From Fzf Require Import Prelude ShellSpec PlaceholderModel.
Open Scope Z_scope.

(* ---------- the lexer ---------- *)

Lemma run_cons s c r : run s (c :: r) = match step s c with Some s' => run s' r | None => None end.
Proof. reflexivity. Qed.

Lemma run_app : forall a b s, run s (a ++ b) = match run s a with Some s' => run s' b | None => None end.
Proof.
  induction a as [|c a IH]; intros b s; [reflexivity|].
  cbn [app]. rewrite !run_cons. destruct (step s c) as [s'|]; [apply IH|reflexivity].
Qed.

Definition ok_mode (s : lst) : Prop := l_mode s = Out \/ l_mode s = InWord.

(* an encoding e of the word w: fed to the shell outside quotes it contributes exactly w to the current word *)
Definition enc_ok (e w : str) : Prop := forall s, ok_mode s -> run s e = feed_word s w.

Lemma step_insq_sq cur acc : step (mkL InSQ cur acc) c_sq = Some (mkL InWord cur acc).
Proof. reflexivity. Qed.
Lemma step_insq_other c cur acc : (c =? c_sq) = false -> step (mkL InSQ cur acc) c = Some (mkL InSQ (c :: cur) acc).
Proof. intros H. unfold step. cbn [l_mode l_cur l_acc]. rewrite H. reflexivity. Qed.
Lemma step_inword_bs cur acc : step (mkL InWord cur acc) c_bs = Some (mkL Esc cur acc).
Proof. reflexivity. Qed.
Lemma step_esc_sq cur acc : step (mkL Esc cur acc) c_sq = Some (mkL InWord (c_sq :: cur) acc).
Proof. reflexivity. Qed.
Lemma step_inword_sq cur acc : step (mkL InWord cur acc) c_sq = Some (mkL InSQ cur acc).
Proof. reflexivity. Qed.
Lemma step_out_sq cur acc : step (mkL Out cur acc) c_sq = Some (mkL InSQ [] acc).
Proof. reflexivity. Qed.
Lemma step_inword_sp cur acc : step (mkL InWord cur acc) c_sp = Some (mkL Out [] (rev cur :: acc)).
Proof. reflexivity. Qed.

(* key lemma: the escaped body and the closing quote, read inside single quotes *)
Lemma run_esc_sq : forall w cur acc,
  run (mkL InSQ cur acc) (esc_sh w ++ [c_sq]) = Some (mkL InWord (rev w ++ cur) acc).
Proof.
  induction w as [|c w IH]; intros cur acc.
  - cbn [esc_sh app rev]. rewrite run_cons, step_insq_sq. reflexivity.
  - cbn [esc_sh]. destruct (c =? c_sq) eqn:E.
    + apply Z.eqb_eq in E. subst c. cbn [app].
      rewrite run_cons, step_insq_sq, run_cons, step_inword_bs, run_cons, step_esc_sq, run_cons, step_inword_sq.
      rewrite IH. cbn [rev]. rewrite <- app_assoc. reflexivity.
    + cbn [app]. rewrite run_cons, (step_insq_other _ _ _ E), IH. cbn [rev]. rewrite <- app_assoc. reflexivity.
Qed.

Lemma quote_enc_ok : forall w, enc_ok (quote_entry false w) w.
Proof.
  intros w [m cur acc] [H|H]; cbn [l_mode] in H; subst m; unfold quote_entry, feed_word; cbn [l_mode l_cur l_acc].
  - cbn [app]. rewrite run_cons, step_out_sq, run_esc_sq, app_nil_r. reflexivity.
  - cbn [app]. rewrite run_cons, step_inword_sq, run_esc_sq. reflexivity.
Qed.

Lemma esq_enc_ok : forall w, enc_ok (escape_single_quote w) w.
Proof. exact quote_enc_ok. Qed.

Lemma feed_word_ok s w : ok_mode s -> exists s1, feed_word s w = Some s1 /\ l_mode s1 = InWord.
Proof.
  destruct s as [m cur acc]. intros [H|H]; cbn [l_mode] in H; subst m; unfold feed_word; cbn [l_mode];
    eexists; split; reflexivity.
Qed.

Lemma feed_word_some s w s1 : feed_word s w = Some s1 -> ok_mode s /\ l_mode s1 = InWord.
Proof.
  destruct s as [m cur acc]. unfold feed_word, ok_mode. cbn [l_mode l_cur l_acc].
  destruct m; intros H; inversion H; subst; cbn; auto.
Qed.

Lemma step_sp_inword s : l_mode s = InWord -> exists s2, step s c_sp = Some s2 /\ l_mode s2 = Out.
Proof. destruct s as [m cur acc]. cbn [l_mode]. intros ->. eexists. split; reflexivity. Qed.

Definition pair_ok (ev : str * str) : Prop := enc_ok (fst ev) (snd ev).

(* encodings joined by single blanks are read as the list of their words *)
Lemma run_join : forall l, Forall pair_ok l -> forall s, ok_mode s ->
  run s (join_sp (map fst l)) = feed_words s (map snd l).
Proof.
  induction l as [|[e v] l IH]; intros HF s Hs; [reflexivity|].
  inversion HF as [|x y Hev HF']; subst. unfold pair_ok in Hev. cbn [fst snd] in Hev.
  destruct l as [|[e2 v2] l'].
  - cbn [map fst snd join_sp feed_words]. rewrite (Hev s Hs). destruct (feed_word s v); reflexivity.
  - change (map fst ((e, v) :: (e2, v2) :: l')) with (e :: map fst ((e2, v2) :: l')).
    change (map snd ((e, v) :: (e2, v2) :: l')) with (v :: v2 :: map snd l').
    change (join_sp (e :: map fst ((e2, v2) :: l'))) with (e ++ c_sp :: join_sp (map fst ((e2, v2) :: l'))).
    rewrite run_app, (Hev s Hs).
    destruct (feed_word_ok s v Hs) as [s1 [H1 M1]].
    cbn [feed_words]. rewrite H1. rewrite run_cons.
    destruct (step_sp_inword s1 M1) as [s2 [H2 M2]]. rewrite H2.
    rewrite (IH HF' s2 (or_introl M2)). reflexivity.
Qed.

(* words fed from outside a word end up as exactly those words *)
Lemma feed_words_out_shape : forall ws acc c0, ws <> [] ->
  exists cur acc', feed_words (mkL Out c0 acc) ws = Some (mkL InWord cur acc') /\
                   rev (rev cur :: acc') = rev acc ++ ws.
Proof.
  induction ws as [|w ws IH]; intros acc c0 Hne; [congruence|].
  destruct ws as [|w2 ws'].
  - exists (rev w), acc. split; [reflexivity|]. cbn [rev]. rewrite rev_involutive. reflexivity.
  - destruct (IH (w :: acc) [] ltac:(discriminate)) as [cur [acc' [H1 H2]]].
    exists cur, acc'. split.
    + cbn [feed_words feed_word l_mode l_acc]. rewrite step_inword_sp, rev_involutive. exact H1.
    + rewrite H2. cbn [rev]. rewrite <- app_assoc. reflexivity.
Qed.

Lemma finish_feed_words_init : forall ws,
  match feed_words l_init ws with Some s => finish s = Some ws | None => False end.
Proof.
  intros [|w ws]; [reflexivity|].
  destruct (feed_words_out_shape (w :: ws) [] [] ltac:(discriminate)) as [cur [acc' [H1 H2]]].
  unfold l_init. rewrite H1. unfold finish. cbn [l_mode l_cur l_acc]. rewrite H2. reflexivity.
Qed.

Theorem quote_roundtrip_proof : forall ws : list str,
  sh_words (join_sp (map (quote_entry false) ws)) = Some ws.
Proof.
  intros ws. unfold sh_words.
  pose (l := map (fun w => (quote_entry false w, w)) ws).
  assert (E1 : map fst l = map (quote_entry false) ws) by (unfold l; rewrite map_map; reflexivity).
  assert (E2 : map snd l = ws) by (unfold l; rewrite map_map; cbn [snd]; apply map_id).
  rewrite <- E1, (run_join l); [|unfold l; apply Forall_forall; intros x Hx; apply in_map_iff in Hx as [w [<- _]]; apply quote_enc_ok|left; reflexivity].
  rewrite E2. pose proof (finish_feed_words_init ws) as F. destruct (feed_words l_init ws); [exact F|contradiction].
Qed.

(* ---------- plain words (ordinals) ---------- *)

Definition ordinary (c : Z) : Prop :=
  (c =? c_sp) = false /\ (c =? c_sq) = false /\ (c =? c_bs) = false /\ is_meta c = false.

Lemma step_ordinary_inword c cur acc : ordinary c -> step (mkL InWord cur acc) c = Some (mkL InWord (c :: cur) acc).
Proof. intros (A & B & C & D). unfold step. cbn [l_mode l_cur l_acc]. rewrite A, B, C, D. reflexivity. Qed.
Lemma step_ordinary_out c cur acc : ordinary c -> step (mkL Out cur acc) c = Some (mkL InWord [c] acc).
Proof. intros (A & B & C & D). unfold step. cbn [l_mode l_cur l_acc]. rewrite A, B, C, D. reflexivity. Qed.

Lemma run_ordinary : forall r cur acc, Forall ordinary r ->
  run (mkL InWord cur acc) r = Some (mkL InWord (rev r ++ cur) acc).
Proof.
  induction r as [|c r IH]; intros cur acc H; [reflexivity|].
  inversion H; subst. rewrite run_cons, step_ordinary_inword, IH by assumption.
  cbn [rev]. rewrite <- app_assoc. reflexivity.
Qed.

Lemma plain_enc_ok : forall e, e <> [] -> Forall ordinary e -> enc_ok e e.
Proof.
  intros [|c r] Hne HF; [congruence|]. inversion HF; subst.
  intros [m cur acc] [H|H]; cbn [l_mode] in H; subst m; unfold feed_word; cbn [l_mode l_cur l_acc]; rewrite run_cons.
  - rewrite step_ordinary_out, run_ordinary by assumption. reflexivity.
  - rewrite step_ordinary_inword, run_ordinary by assumption. cbn [rev]. rewrite <- app_assoc. reflexivity.
Qed.

Lemma digit_ordinary c : 48 <= c <= 57 -> ordinary c.
Proof.
  intros H.
  assert (D : c = 48 \/ c = 49 \/ c = 50 \/ c = 51 \/ c = 52 \/ c = 53 \/ c = 54 \/ c = 55 \/ c = 56 \/ c = 57) by lia.
  repeat (destruct D as [D|D]; [subst c; repeat split; reflexivity|]). subst c; repeat split; reflexivity.
Qed.

Lemma itoa_pos_ordinary : forall fuel n acc, Forall ordinary acc -> Forall ordinary (itoa_pos fuel n acc).
Proof.
  induction fuel as [|f IH]; intros n acc H; [exact H|].
  cbn [itoa_pos].
  assert (Hd : ordinary (48 + n mod 10)) by (apply digit_ordinary; pose proof (Z.mod_pos_bound n 10); lia).
  destruct (n / 10 =? 0); [constructor; assumption|apply IH; constructor; assumption].
Qed.

Lemma itoa_pos_nonempty : forall fuel n acc, acc <> [] -> itoa_pos fuel n acc <> [].
Proof.
  induction fuel as [|f IH]; intros n acc H; [exact H|].
  cbn [itoa_pos]. destruct (n / 10 =? 0); [discriminate|apply IH; discriminate].
Qed.

Lemma itoa_ordinary n : Forall ordinary (itoa n).
Proof.
  unfold itoa. destruct (n <? 0).
  - constructor; [repeat split; reflexivity|apply itoa_pos_ordinary; constructor].
  - apply itoa_pos_ordinary; constructor.
Qed.

Lemma itoa_nonempty n : itoa n <> [].
Proof.
  unfold itoa. destruct (n <? 0); [discriminate|].
  cbn [itoa_pos]. destruct (n / 10 =? 0); [discriminate|apply itoa_pos_nonempty; discriminate].
Qed.

Lemma itoa_enc_ok n : enc_ok (itoa n) (itoa n).
Proof. apply plain_enc_ok; [apply itoa_nonempty|apply itoa_ordinary]. Qed.

(* ---------- what replace_placeholder produces ---------- *)

Definition outp_ok (o : outp) : Prop :=
  match o with OText _ => True | OWords l => Forall pair_ok l end.

(* the meaning of one piece of output: literal text, or the words it stands for *)
Definition seg_of (o : outp) : seg :=
  match o with OText s => SLit s | OWords l => SWords (map snd l) end.

Lemma feed_words_some_ok s ws s' : ws <> [] -> feed_words s ws = Some s' -> ok_mode s.
Proof.
  destruct ws as [|w r]; [congruence|]. intros _ H. cbn [feed_words] in H.
  destruct (feed_word s w) as [s1|] eqn:E; [|discriminate]. apply (feed_word_some _ _ _ E).
Qed.

Lemma run_render : forall o s s', outp_ok o ->
  feed_segs s [seg_of o] = Some s' -> run s (render o) = Some s'.
Proof.
  intros [t|l] s s' Hok H; cbn [seg_of feed_segs render] in *.
  - destruct (run s t); [exact H|discriminate].
  - destruct (feed_words s (map snd l)) as [s1|] eqn:E; [|discriminate]. inversion H; subst s1.
    destruct l as [|ev l']; [cbn in *; congruence|].
    rewrite (run_join _ Hok); [exact E|].
    apply (feed_words_some_ok s (map snd (ev :: l')) s'); [discriminate|exact E].
Qed.

Lemma run_concat_render : forall outs s s', Forall outp_ok outs ->
  feed_segs s (map seg_of outs) = Some s' -> run s (concat (map render outs)) = Some s'.
Proof.
  induction outs as [|o outs IH]; intros s s' HF H; [exact H|].
  inversion HF as [|? ? Ho HF']; subst. cbn [map concat]. rewrite run_app.
  assert (exists s1, feed_segs s [seg_of o] = Some s1 /\ feed_segs s1 (map seg_of outs) = Some s') as [s1 [H1 H2]].
  { cbn [map feed_segs] in *. destruct (seg_of o) as [t|ws].
    - destruct (run s t) as [s1|]; [|discriminate]. exists s1. split; [reflexivity|exact H].
    - destruct (feed_words s ws) as [s1|]; [|discriminate]. exists s1. split; [reflexivity|exact H]. }
  rewrite (run_render o s s1) by assumption. apply IH; assumption.
Qed.

Lemma quoted_ok p v : p_fish p = false -> pair_ok (quoted p v).
Proof. intros H. unfold pair_ok, quoted. cbn [fst snd]. rewrite H. apply quote_enc_ok. Qed.

Lemma map_res_forall {A B} (P : B -> Prop) (f : A -> res B) :
  (forall x y, f x = Ok y -> P y) -> forall l ys, map_res f l = Ok ys -> Forall P ys.
Proof.
  intros Hf. induction l as [|x l IH]; intros ys H; cbn [map_res] in H.
  - inversion H. constructor.
  - destruct (f x) as [y|] eqn:E; cbn [bind] in H; [|discriminate].
    destruct (map_res f l) as [ys'|] eqn:E2; cbn [bind] in H; [|discriminate].
    inversion H; subst. constructor; [eapply Hf; eassumption|apply IH; reflexivity].
Qed.

Lemma over_items_ok p fl raw f temps o fs t' :
  (f_file fl = false -> raw = false -> forall x y, f x = Ok y -> pair_ok y) ->
  over_items p fl raw f temps = Ok (o, fs, t') -> outp_ok o.
Proof.
  intros Hf H. unfold over_items in H.
  destruct (map_res f (if f_plus fl || p_force_plus p then p_selected p else p_current p)) as [reps|] eqn:E;
    cbn [bind] in H; [|discriminate].
  destruct (f_file fl) eqn:Ef.
  - destruct temps; inversion H; subst; exact I.
  - destruct raw eqn:Er; inversion H; subst; [exact I|].
    cbn [outp_ok]. eapply map_res_forall; [|exact E]. apply Hf; reflexivity.
Qed.

Lemma repl_item_ok p fl it : p_fish p = false ->
  negb (f_number fl) && (f_file fl || f_raw fl) = false -> pair_ok (repl_item p fl it).
Proof.
  intros Hp H. unfold repl_item. destruct it as [idx text].
  destruct (f_number fl).
  - destruct (idx =? min_int32).
    + unfold pair_ok. cbn [fst snd]. exact (quote_enc_ok []).
    + unfold pair_ok. cbn [fst snd]. apply itoa_enc_ok.
  - cbn [negb andb] in H. rewrite H. apply quoted_ok. exact Hp.
Qed.

Lemma expand_ph_ok p m temps o fs t' : p_fish p = false ->
  expand_ph p m temps = Ok (o, fs, t') -> outp_ok o.
Proof.
  intros Hp H. unfold expand_ph in H.
  destruct (parse_placeholder m) as [[fl mm]|]; cbn [bind] in H; [|discriminate].
  destruct (str_eqb mm s_q || str_eqb mm s_m_query).
  { inversion H; subst. constructor; [apply quoted_ok; exact Hp|constructor]. }
  destruct (has_prefix s_q_colon mm).
  { destruct (mid 3 mm) as [body|]; cbn [bind] in H; [|discriminate].
    destruct (split_nth body); inversion H; subst; [|exact I].
    constructor; [apply quoted_ok; exact Hp|constructor]. }
  destruct (str_eqb mm s_braces).
  { eapply over_items_ok; [|exact H]. intros _ Hr x y Hy. inversion Hy; subst. apply repl_item_ok; assumption. }
  destruct (str_eqb mm s_m_action). { inversion H; subst. exact I. }
  destruct (str_eqb mm s_m_prompt).
  { inversion H; subst. constructor; [apply quoted_ok; exact Hp|constructor]. }
  destruct (mid 1 mm) as [body|]; cbn [bind] in H; [|discriminate].
  destruct (parse_ranges (split_comma body [])) as [rs|]; [|inversion H; subst; exact I].
  eapply over_items_ok; [|exact H]. intros _ Hr x y Hy. unfold repl_fields in Hy.
  destruct (field_value p fl rs (snd x)) as [v|]; cbn [bind] in Hy; [|discriminate].
  rewrite Hr in Hy. inversion Hy; subst. apply quoted_ok. exact Hp.
Qed.

Lemma expand_all_ok p : p_fish p = false -> forall ps temps outs files,
  expand_all p ps temps = Ok (outs, files) -> Forall outp_ok outs.
Proof.
  intros Hp. induction ps as [|pc ps IH]; intros temps outs files H; cbn [expand_all] in H.
  - inversion H. constructor.
  - destruct pc as [t|m|m].
    + destruct (expand_all p ps temps) as [[o f]|] eqn:E; cbn [bind fst snd] in H; [|discriminate].
      inversion H; subst. constructor; [exact I|eapply IH; exact E].
    + destruct (expand_all p ps temps) as [[o f]|] eqn:E; cbn [bind fst snd] in H; [|discriminate].
      inversion H; subst. constructor; [exact I|eapply IH; exact E].
    + destruct (expand_ph p m temps) as [[[o fs] t']|] eqn:E1; cbn [bind] in H; [|discriminate].
      destruct (expand_all p ps t') as [[o2 f2]|] eqn:E2; cbn [bind fst snd] in H; [|discriminate].
      inversion H; subst. constructor; [eapply expand_ph_ok; eassumption|eapply IH; exact E2].
Qed.

Theorem expansion_roundtrip_proof : forall p tmpl temps out files, p_fish p = false ->
  replace_placeholder p tmpl temps = Ok (out, files) ->
  exists outs, replace_structured p tmpl temps = Ok (outs, files) /\ out = concat (map render outs) /\
    forall ws, template_words (map seg_of outs) = Some ws -> sh_words out = Some ws.
Proof.
  intros p tmpl temps out files Hp H. unfold replace_placeholder in H.
  destruct (replace_structured p tmpl temps) as [[outs fs]|] eqn:E; cbn [bind fst snd] in H; [|discriminate].
  inversion H; subst. exists outs. split; [reflexivity|]. split; [reflexivity|].
  intros ws Hw. unfold template_words in Hw. unfold sh_words.
  destruct (feed_segs l_init (map seg_of outs)) as [s'|] eqn:F; [|discriminate].
  rewrite (run_concat_render outs l_init s'); [exact Hw| |exact F].
  unfold replace_structured in E. eapply expand_all_ok; eassumption.
Qed.

(* ---------- the scanner loses nothing; escaped placeholders stay literal ---------- *)

Lemma flush_src lit rest :
  concat (map piece_src (flush_lit lit rest)) = rev lit ++ concat (map piece_src rest).
Proof. destruct lit; [reflexivity|]. unfold flush_lit. cbn [map concat piece_src]. reflexivity. Qed.

Lemma scan_src : forall s k lit, concat (map piece_src (scan s k lit)) = rev lit ++ skipn k s.
Proof.
  induction s as [|c r IH]; intros k lit.
  - cbn [scan]. rewrite flush_src. destruct k; reflexivity.
  - cbn [scan]. destruct k as [|k]; [|rewrite IH; reflexivity].
    destruct (if c =? c_bs then match_at r else None) as [n|] eqn:E.
    + destruct (c =? c_bs) eqn:Ec; [|discriminate]. apply Z.eqb_eq in Ec. subst c.
      rewrite flush_src. cbn [map concat piece_src]. rewrite IH. cbn [rev app skipn].
      rewrite firstn_skipn. reflexivity.
    + destruct (match_at (c :: r)) as [[|n]|] eqn:M.
      * rewrite IH. cbn [rev skipn]. rewrite <- app_assoc. reflexivity.
      * rewrite flush_src. cbn [map concat piece_src]. rewrite IH. cbn [rev app skipn firstn].
        rewrite firstn_skipn. reflexivity.
      * rewrite IH. cbn [rev skipn]. rewrite <- app_assoc. reflexivity.
Qed.

Theorem scan_partition_proof : forall t, concat (map piece_src (scan t O [])) = t.
Proof. intros t. rewrite scan_src. reflexivity. Qed.

Lemma scan_skip : forall a b lit, scan (a ++ b) (length a) lit = scan b O lit.
Proof. induction a as [|c a IH]; intros b lit; [reflexivity|]. cbn [app length scan]. apply IH. Qed.

Lemma firstn_app_len {A} (a b : list A) : firstn (length a) (a ++ b) = a.
Proof. induction a as [|x a IH]; [reflexivity|]. cbn [length app firstn]. rewrite IH. reflexivity. Qed.

Theorem escaped_literal_proof : forall p m post temps,
  match_at (m ++ post) = Some (length m) ->
  replace_placeholder p (c_bs :: m ++ post) temps =
    match replace_placeholder p post temps with Ok (o, f) => Ok (m ++ o, f) | Err e => Err e end.
Proof.
  intros p m post temps H. unfold replace_placeholder, replace_structured.
  cbn [scan]. change (c_bs =? c_bs) with true. cbv iota. rewrite H.
  unfold flush_lit at 1. rewrite firstn_app_len, scan_skip. cbn [expand_all].
  destruct (expand_all p (scan post O []) temps) as [[o f]|]; cbn [bind fst snd map concat render]; reflexivity.
Qed.

(* ---------- what the individual placeholders stand for ---------- *)

Lemma map_res_pure {A B} (f : A -> B) : forall l, map_res (fun x => Ok (f x)) l = Ok (map f l).
Proof. induction l as [|x l IH]; [reflexivity|]. cbn [map_res bind map]. rewrite IH. reflexivity. Qed.

Lemma map_res_ext {A B} (f g : A -> res B) : (forall x, f x = g x) -> forall l, map_res f l = map_res g l.
Proof. intros H. induction l as [|x l IH]; [reflexivity|]. cbn [map_res]. rewrite H, IH. reflexivity. Qed.

Definition t_braces : str := [123;125].          (* {}  *)
Definition t_plus : str := [123;43;125].         (* {+} *)
Definition t_query : str := [123;113;125].       (* {q} *)
Definition t_number : str := [123;110;125].      (* {n} *)

Definition texts_of (p : params) (its : list item) : list (str * str) :=
  map (fun it : item => (quote_entry (p_fish p) (snd it), snd it)) its.

Lemma structured_braces p temps :
  replace_structured p t_braces temps =
    Ok ([OWords (texts_of p (if p_force_plus p then p_selected p else p_current p))], []).
Proof.
  unfold replace_structured. change (scan t_braces O []) with [PPh t_braces]. cbn [expand_all].
  unfold expand_ph. change (parse_placeholder t_braces) with (Ok (no_flags, t_braces)). cbn [bind].
  change (str_eqb t_braces s_q || str_eqb t_braces s_m_query) with false.
  change (has_prefix s_q_colon t_braces) with false. change (str_eqb t_braces s_braces) with true. cbv iota.
  unfold over_items. cbn [f_plus f_file f_number f_raw no_flags orb negb andb].
  rewrite (map_res_ext _ (fun it : item => Ok ((fun it : item => (quote_entry (p_fish p) (snd it), snd it)) it)))
    by (intros [i t]; reflexivity).
  rewrite map_res_pure. cbn [bind fst snd app]. reflexivity.
Qed.

Lemma structured_plus p temps :
  replace_structured p t_plus temps = Ok ([OWords (texts_of p (p_selected p))], []).
Proof.
  unfold replace_structured. change (scan t_plus O []) with [PPh t_plus]. cbn [expand_all].
  unfold expand_ph. change (parse_placeholder t_plus) with (Ok (mkF true false false false false, t_braces)). cbn [bind].
  change (str_eqb t_braces s_q || str_eqb t_braces s_m_query) with false.
  change (has_prefix s_q_colon t_braces) with false. change (str_eqb t_braces s_braces) with true. cbv iota.
  unfold over_items. cbn [f_plus f_file f_number f_raw orb negb andb].
  rewrite (map_res_ext _ (fun it : item => Ok ((fun it : item => (quote_entry (p_fish p) (snd it), snd it)) it)))
    by (intros [i t]; reflexivity).
  rewrite map_res_pure. cbn [bind fst snd app]. reflexivity.
Qed.

Lemma structured_query p temps :
  replace_structured p t_query temps = Ok ([OWords [(quote_entry (p_fish p) (p_query p), p_query p)]], []).
Proof. reflexivity. Qed.

Definition ordinal_pair (it : item) : str * str :=
  if fst it =? min_int32 then (s_empty_quotes, []) else (itoa (fst it), itoa (fst it)).

Lemma structured_number p temps :
  replace_structured p t_number temps =
    Ok ([OWords (map ordinal_pair (if p_force_plus p then p_selected p else p_current p))], []).
Proof.
  unfold replace_structured. change (scan t_number O []) with [PPh t_number]. cbn [expand_all].
  unfold expand_ph. change (parse_placeholder t_number) with (Ok (mkF false false true false false, t_braces)). cbn [bind].
  change (str_eqb t_braces s_q || str_eqb t_braces s_m_query) with false.
  change (has_prefix s_q_colon t_braces) with false. change (str_eqb t_braces s_braces) with true. cbv iota.
  unfold over_items. cbn [f_plus f_file f_number f_raw orb negb andb].
  rewrite (map_res_ext _ (fun it : item => Ok (ordinal_pair it))) by (intros [i t]; reflexivity).
  rewrite map_res_pure. cbn [bind fst snd app]. reflexivity.
Qed.

Lemma words_roundtrip l : Forall pair_ok l -> sh_words (join_sp (map fst l)) = Some (map snd l).
Proof.
  intros H. unfold sh_words. rewrite (run_join l H l_init (or_introl eq_refl)).
  pose proof (finish_feed_words_init (map snd l)) as F.
  destruct (feed_words l_init (map snd l)); [exact F|contradiction].
Qed.

Lemma texts_ok p its : p_fish p = false -> Forall pair_ok (texts_of p its).
Proof.
  intros Hp. unfold texts_of. apply Forall_forall. intros x Hx. apply in_map_iff in Hx as [it [<- _]].
  unfold pair_ok. cbn [fst snd]. rewrite Hp. apply quote_enc_ok.
Qed.

Lemma texts_snd p its : map snd (texts_of p its) = map snd its.
Proof. unfold texts_of. rewrite map_map. reflexivity. Qed.

Theorem braces_is_item_text_proof : forall p temps, p_fish p = false ->
  exists out, replace_placeholder p t_braces temps = Ok (out, []) /\
    sh_words out = Some (map snd (if p_force_plus p then p_selected p else p_current p)).
Proof.
  intros p temps Hp. unfold replace_placeholder. rewrite structured_braces. cbn [bind fst snd map concat render].
  eexists. split; [reflexivity|]. rewrite app_nil_r, words_roundtrip by (apply texts_ok; exact Hp).
  rewrite texts_snd. reflexivity.
Qed.

Theorem plus_selection_order_proof : forall p temps, p_fish p = false ->
  exists out, replace_placeholder p t_plus temps = Ok (out, []) /\
    sh_words out = Some (map snd (p_selected p)).
Proof.
  intros p temps Hp. unfold replace_placeholder. rewrite structured_plus. cbn [bind fst snd map concat render].
  eexists. split; [reflexivity|]. rewrite app_nil_r, words_roundtrip by (apply texts_ok; exact Hp).
  rewrite texts_snd. reflexivity.
Qed.

Theorem query_is_query_proof : forall p temps, p_fish p = false ->
  exists out, replace_placeholder p t_query temps = Ok (out, []) /\ sh_words out = Some [p_query p].
Proof.
  intros p temps Hp. unfold replace_placeholder. rewrite structured_query. cbn [bind fst snd map concat render].
  eexists. split; [reflexivity|]. rewrite app_nil_r.
  apply (words_roundtrip [(quote_entry (p_fish p) (p_query p), p_query p)]).
  constructor; [|constructor]. unfold pair_ok. cbn [fst snd]. rewrite Hp. apply quote_enc_ok.
Qed.

(* decimal reading of itoa *)
Lemma dec_value_go_app : forall a b v,
  dec_value_go v (a ++ b) = match dec_value_go v a with Some v' => dec_value_go v' b | None => None end.
Proof.
  induction a as [|c a IH]; intros b v; [reflexivity|]. cbn [app dec_value_go].
  destruct ((48 <=? c) && (c <=? 57)); [apply IH|reflexivity].
Qed.

Lemma itoa_pos_acc : forall fuel n acc, itoa_pos fuel n acc = itoa_pos fuel n [] ++ acc.
Proof.
  induction fuel as [|f IH]; intros n acc; [reflexivity|]. cbn [itoa_pos].
  destruct (n / 10 =? 0); [reflexivity|].
  rewrite (IH (n / 10) ((48 + n mod 10) :: acc)), (IH (n / 10) [48 + n mod 10]), <- app_assoc. reflexivity.
Qed.

Lemma itoa_pos_value : forall fuel n, (1 <= fuel)%nat -> 0 <= n < 2 ^ Z.of_nat fuel ->
  dec_value_go 0 (itoa_pos fuel n []) = Some n.
Proof.
  induction fuel as [|f IH]; intros n Hf Hn; [lia|].
  cbn [itoa_pos]. pose proof (Z.mod_pos_bound n 10 ltac:(lia)) as Hm.
  pose proof (Z.div_mod n 10 ltac:(lia)) as Hd.
  assert (Hdig : ((48 <=? 48 + n mod 10) && (48 + n mod 10 <=? 57)) = true).
  { apply andb_true_intro. split; apply Z.leb_le; lia. }
  destruct (n / 10 =? 0) eqn:E.
  - apply Z.eqb_eq in E. cbn [dec_value_go]. rewrite Hdig. f_equal. lia.
  - apply Z.eqb_neq in E. rewrite itoa_pos_acc, dec_value_go_app.
    assert (Hq : 0 <= n / 10) by (apply Z.div_pos; lia).
    assert (Hlt : n / 10 < 2 ^ Z.of_nat f).
    { rewrite Nat2Z.inj_succ, Z.pow_succ_r in Hn by lia.
      apply Z.div_lt_upper_bound; [lia|]. nia. }
    assert (Hf1 : (1 <= f)%nat).
    { destruct f; [|lia]. cbn in Hlt. lia. }
    rewrite (IH (n / 10) Hf1 (conj Hq Hlt)). cbn [dec_value_go]. rewrite Hdig. f_equal. lia.
Qed.

Lemma pos_lt_pow_size : forall q : positive, Zpos q < 2 ^ Z.of_nat (Pos.size_nat q).
Proof.
  induction q as [q IH|q IH|]; cbn [Pos.size_nat]; try (rewrite Nat2Z.inj_succ, Z.pow_succ_r by lia); [lia|lia|cbn; lia].
Qed.

Lemma itoa_value n : 0 <= n -> dec_value (itoa n) = Some n.
Proof.
  intros Hn. unfold dec_value. pose proof (itoa_nonempty n) as Hne.
  destruct (itoa n) as [|c r] eqn:E; [congruence|]. rewrite <- E. unfold itoa.
  destruct (n <? 0) eqn:L; [apply Z.ltb_lt in L; lia|].
  apply itoa_pos_value; [lia|]. split; [exact Hn|].
  rewrite Nat2Z.inj_succ, Z.pow_succ_r by lia.
  destruct n as [|q|q]; [cbn; lia| |lia]. cbn [bits]. pose proof (pos_lt_pow_size q). lia.
Qed.

Theorem number_is_ordinal_proof : forall p temps idx text,
  p_force_plus p = false -> p_current p = [(idx, text)] -> idx <> min_int32 ->
  replace_placeholder p t_number temps = Ok (itoa idx, []) /\
  sh_words (itoa idx) = Some [itoa idx] /\
  (0 <= idx -> dec_value (itoa idx) = Some idx).
Proof.
  intros p temps idx text Hfp Hc Hm. unfold replace_placeholder. rewrite structured_number, Hfp, Hc.
  cbn [bind fst snd map concat render]. unfold ordinal_pair. cbn [fst].
  destruct (idx =? min_int32) eqn:E; [apply Z.eqb_eq in E; contradiction|].
  cbn [map fst join_sp]. rewrite app_nil_r. split; [reflexivity|]. split; [|apply itoa_value].
  apply (words_roundtrip [(itoa idx, itoa idx)]). constructor; [apply itoa_enc_ok|constructor].
Qed.

(* ---------- re-launching fzf inside tmux: arguments and environment ---------- *)

Lemma tmux_args_go_concat : forall args acc,
  tmux_args_go acc args = acc ++ concat (map (fun a => c_sp :: escape_single_quote a) args).
Proof.
  induction args as [|a r IH]; intros acc; cbn [tmux_args_go map concat]; [rewrite app_nil_r; reflexivity|].
  rewrite IH, <- app_assoc. reflexivity.
Qed.

Lemma join_sp_cons_concat : forall (r : list str) (e : str),
  join_sp (e :: r) = e ++ concat (map (fun a => c_sp :: a) r).
Proof.
  induction r as [|e2 r IH]; intros e; [cbn; rewrite app_nil_r; reflexivity|].
  change (join_sp (e :: e2 :: r)) with (e ++ c_sp :: join_sp (e2 :: r)). rewrite IH. reflexivity.
Qed.

Definition w_no_tmux : str := [45;45;110;111;45;116;109;117;120].
Definition w_no_height : str := [45;45;110;111;45;104;101;105;103;104;116].

Lemma run_tmux_suffix cur acc :
  run (mkL InWord cur acc) tmux_suffix = Some (mkL InWord (rev w_no_height) (w_no_tmux :: rev cur :: acc)).
Proof. reflexivity. Qed.

Theorem tmux_args_roundtrip_proof : forall fzf args,
  sh_words (tmux_arg_str fzf args) = Some (fzf :: args ++ [w_no_tmux; w_no_height]).
Proof.
  intros fzf args. unfold tmux_arg_str. rewrite tmux_args_go_concat.
  assert (E : escape_single_quote fzf ++ concat (map (fun a => c_sp :: escape_single_quote a) args)
              = join_sp (map fst (map (fun w => (escape_single_quote w, w)) (fzf :: args)))).
  { rewrite map_map. cbn [map fst]. rewrite join_sp_cons_concat, map_map. reflexivity. }
  rewrite E. set (l := map (fun w => (escape_single_quote w, w)) (fzf :: args)).
  assert (HF : Forall pair_ok l).
  { unfold l. apply Forall_forall. intros x Hx. apply in_map_iff in Hx as [w [<- _]]. apply esq_enc_ok. }
  assert (Es : map snd l = fzf :: args) by (unfold l; rewrite map_map; cbn [snd]; apply map_id).
  unfold sh_words. rewrite run_app, (run_join l HF l_init (or_introl eq_refl)), Es.
  destruct (feed_words_out_shape (fzf :: args) [] [] ltac:(discriminate)) as [cur [acc' [H1 H2]]].
  unfold l_init. rewrite H1, run_tmux_suffix. unfold finish. cbn [l_mode l_cur l_acc].
  rewrite rev_involutive. cbn [rev app] in H2. cbn [rev]. rewrite H2, <- app_assoc. reflexivity.
Qed.

(* ^[a-zA-Z_][a-zA-Z0-9_]*$ *)
Definition ident_start (c : Z) : bool := ((97 <=? c) && (c <=? 122)) || ((65 <=? c) && (c <=? 90)) || (c =? 95).
Definition ident_char (c : Z) : bool := ident_start c || ((48 <=? c) && (c <=? 57)).
Definition valid_identifier (s : str) : bool :=
  match s with c :: r => ident_start c && forallb ident_char r | [] => false end.

Lemma ident_char_ordinary c : ident_char c = true -> ordinary c.
Proof.
  unfold ident_char, ident_start. intros H.
  assert (R : (97 <= c <= 122) \/ (65 <= c <= 90) \/ c = 95 \/ (48 <= c <= 57)) by lia.
  unfold ordinary, is_meta, c_sp, c_sq, c_bs. cbn [existsb].
  repeat match goal with |- context [c =? ?k] => destruct (Z.eqb_spec c k); [lia|] end.
  repeat split.
Qed.

Theorem env_export_roundtrip_proof : forall name value, valid_identifier name = true ->
  sh_words (export_line name value) = Some [export_word; name ++ 61 :: value].
Proof.
  intros name value Hv. unfold export_line.
  assert (Hw : Forall ordinary (name ++ [61])).
  { apply Forall_app. split; [|constructor; [repeat split; reflexivity|constructor]].
    destruct name as [|c r]; [discriminate|]. cbn [valid_identifier] in Hv. apply andb_prop in Hv as [H1 H2].
    constructor; [apply ident_char_ordinary; unfold ident_char; rewrite H1; reflexivity|].
    apply Forall_forall. intros x Hx. apply ident_char_ordinary. rewrite forallb_forall in H2. apply H2. exact Hx. }
  assert (Hne : name ++ [61] <> []) by (destruct name; discriminate).
  replace (export_word ++ c_sp :: name ++ 61 :: escape_single_quote value)
    with ((export_word ++ [c_sp]) ++ (name ++ [61]) ++ escape_single_quote value)
    by (rewrite <- !app_assoc; reflexivity).
  unfold sh_words. rewrite run_app.
  change (run l_init (export_word ++ [c_sp])) with (Some (mkL Out [] [export_word])). cbv beta iota.
  rewrite run_app, (plain_enc_ok _ Hne Hw (mkL Out [] [export_word]) (or_introl eq_refl)).
  unfold feed_word at 1. cbn [l_mode l_cur l_acc].
  rewrite (esq_enc_ok value (mkL InWord (rev (name ++ [61])) [export_word]) (or_intror eq_refl)).
  unfold feed_word, finish. cbn [l_mode l_cur l_acc rev app].
  rewrite <- rev_app_distr, rev_involutive, <- app_assoc. reflexivity.
Qed.

(* ---------- fish dialect (against the unvalidated fish spec; not part of the claim) ---------- *)

Lemma frun_cons s c r : frun s (c :: r) = match fstep s c with Some s' => frun s' r | None => None end.
Proof. reflexivity. Qed.

Lemma frun_esc_fish : forall w cur acc,
  frun (mkFL FSQ cur acc) (esc_fish w ++ [c_sq]) = Some (mkFL FWord (rev w ++ cur) acc).
Proof.
  induction w as [|c w IH]; intros cur acc; [reflexivity|].
  cbn [esc_fish]. destruct (c =? c_bs) eqn:E1.
  - apply Z.eqb_eq in E1. subst c. cbn [app]. rewrite frun_cons.
    change (fstep (mkFL FSQ cur acc) c_bs) with (Some (mkFL FSQEsc cur acc)). cbv beta iota. rewrite frun_cons.
    change (fstep (mkFL FSQEsc cur acc) c_bs) with (Some (mkFL FSQ (c_bs :: cur) acc)). cbv beta iota.
    rewrite IH. cbn [rev]. rewrite <- app_assoc. reflexivity.
  - destruct (c =? c_sq) eqn:E2.
    + apply Z.eqb_eq in E2. subst c. cbn [app]. rewrite frun_cons.
      change (fstep (mkFL FSQ cur acc) c_bs) with (Some (mkFL FSQEsc cur acc)). cbv beta iota. rewrite frun_cons.
      change (fstep (mkFL FSQEsc cur acc) c_sq) with (Some (mkFL FSQ (c_sq :: cur) acc)). cbv beta iota.
      rewrite IH. cbn [rev]. rewrite <- app_assoc. reflexivity.
    + cbn [app]. rewrite frun_cons. unfold fstep at 1. cbn [fl_mode fl_cur fl_acc]. rewrite E1, E2.
      rewrite IH. cbn [rev]. rewrite <- app_assoc. reflexivity.
Qed.

Lemma frun_app : forall a b s, frun s (a ++ b) = match frun s a with Some s' => frun s' b | None => None end.
Proof.
  induction a as [|c a IH]; intros b s; [reflexivity|].
  cbn [app]. rewrite !frun_cons. destruct (fstep s c); [apply IH|reflexivity].
Qed.

Lemma frun_quote_out w c0 acc :
  frun (mkFL FOut c0 acc) (quote_entry true w) = Some (mkFL FWord (rev w) acc).
Proof.
  unfold quote_entry. rewrite frun_cons.
  change (fstep (mkFL FOut c0 acc) c_sq) with (Some (mkFL FSQ [] acc)). cbv beta iota.
  rewrite frun_esc_fish, app_nil_r. reflexivity.
Qed.

Theorem quote_roundtrip_fish_proof : forall ws : list str,
  fish_words (join_sp (map (quote_entry true) ws)) = Some ws.
Proof.
  intros ws. unfold fish_words.
  assert (G : forall ws acc c0, ws <> [] ->
    exists cur acc', frun (mkFL FOut c0 acc) (join_sp (map (quote_entry true) ws)) = Some (mkFL FWord cur acc') /\
                     rev (rev cur :: acc') = rev acc ++ ws).
  { clear ws. induction ws as [|w ws IH]; intros acc c0 Hne; [congruence|].
    destruct ws as [|w2 ws'].
    - exists (rev w), acc. cbn [map join_sp]. rewrite frun_quote_out. split; [reflexivity|].
      cbn [rev]. rewrite rev_involutive. reflexivity.
    - destruct (IH (w :: acc) [] ltac:(discriminate)) as [cur [acc' [H1 H2]]].
      exists cur, acc'. split.
      + change (map (quote_entry true) (w :: w2 :: ws')) with (quote_entry true w :: map (quote_entry true) (w2 :: ws')).
        change (join_sp (quote_entry true w :: map (quote_entry true) (w2 :: ws')))
          with (quote_entry true w ++ c_sp :: join_sp (map (quote_entry true) (w2 :: ws'))).
        rewrite frun_app, frun_quote_out, frun_cons.
        change (fstep (mkFL FWord (rev w) acc) c_sp) with (Some (mkFL FOut [] (rev (rev w) :: acc))). cbv beta iota.
        rewrite rev_involutive. exact H1.
      + rewrite H2. cbn [rev]. rewrite <- app_assoc. reflexivity. }
  destruct ws as [|w ws]; [reflexivity|].
  destruct (G (w :: ws) [] [] ltac:(discriminate)) as [cur [acc' [H1 H2]]].
  rewrite H1. cbn [fl_mode fl_cur fl_acc]. rewrite H2. reflexivity.
Qed.
