(* C03 / C02: FuzzyMatchV2, closed end-to-end theorems.  Only the honest side conditions remain:
     H_ascii_text   is_bytes = true -> every text character is in [0, 128)
     H_norm_ascii   normalizeRune is the identity below 192
     scheme         0 <= s_bw sc /\ 0 <= s_bd sc *)
From Fzf Require Import Prelude AlgoSpec AlgoModel AlgoBasics PrefilterProofs V1Proofs V2Facts V2ScanBasics V2ScanPhase2
  V2ScanProofs V2MatrixBase V2MatrixFill V2MatrixTrace V2MatrixProofs V2DpWin V2DpNaive V2DpCore V2DpWindow V2DpProofs
  V2DpAssemble V2Refine.
Open Scope Z_scope.

Definition v2_fallback (text pat : list Z) (cap : option Z) : bool :=
  match cap with Some c => c <? Z.of_nat (length text) * Z.of_nat (length pat) | None => false end.

(* ---------- the control-flow skeleton, for both values of withPos at once ---------- *)

Lemma v2_shape co sc cs nm fwd ib text p0 pat' cap :
  let pat := p0 :: pat' in
  (ib = true -> Forall (fun c => 0 <= c < 128) text) -> (forall c, c < 192 -> co_norm co c = c) ->
  (forall wp, fuzzy_v2 co sc cs nm fwd ib text pat wp cap = Ok NoMatch) \/
  ((length pat <= length text)%nat /\ v2_fallback text pat cap = true /\
   forall wp, fuzzy_v2 co sc cs nm fwd ib text pat wp cap = fuzzy_v1 co sc cs nm fwd ib text pat wp) \/
  (pat' = [] /\ v2_fallback text pat cap = false /\ exists r score,
   forall wp, fuzzy_v2 co sc cs nm fwd ib text pat wp cap = Ok (Match r (S r) score (if wp then Some [r] else None))) \/
  ((2 <= length pat)%nat /\ (length pat <= length text)%nat /\ v2_fallback text pat cap = false /\ exists lo hi st,
   ascii_fuzzy_index ib text pat cs = Ok (Some (lo, hi)) /\ (lo <= hi <= length text)%nat /\
   st = phase2 co sc cs nm fwd false (firstn (hi - lo) (skipn lo text)) O p0 pat (last pat 0) 0 (s_init sc) false
               (mkP2 [] [] [] [] [] O O 0 O) /\
   p2_ok co sc cs nm (firstn (hi - lo) (skipn lo text)) pat st /\ p2_maxScore st = 0 /\ p2_maxPos st = O /\
   forall wp, fuzzy_v2 co sc cs nm fwd ib text pat wp cap = v2_after_phase2 fwd wp lo pat st).
Proof.
  intros pat Ha Hn.
  pose proof (fun wp => fuzzy_v2_unfold co sc cs nm fwd ib text (p0 :: pat') wp cap) as U.
  cbv beta iota zeta in U. fold pat in U.
  change (match cap with Some c => c <? Z.of_nat (length text) * Z.of_nat (length pat) | None => false end)
    with (v2_fallback text pat cap) in U.
  destruct (Nat.ltb (length text) (length pat)) eqn:ELt.
  { left. exact U. }
  apply Nat.ltb_ge in ELt.
  destruct (v2_fallback text pat cap) eqn:Efb.
  { right; left. auto. }
  destruct (afi_total ib text pat cs) as [afi Eafi]. rewrite Eafi in U. cbn [bind] in U.
  destruct afi as [[lo hi]|]; [|left; exact U].
  destruct (afi_window_sound co cs nm Hn ib text pat lo hi ltac:(discriminate) Ha Eafi) as (Hb1 & Hb2 & _).
  assert (E1 : Nat.ltb hi lo = false) by (apply Nat.ltb_ge; lia).
  assert (E2 : Nat.ltb (length text) hi = false) by (apply Nat.ltb_ge; lia).
  rewrite E1, E2 in U. cbn [orb] in U.
  set (w := firstn (hi - lo) (skipn lo text)) in *.
  destruct (Nat.eqb (length pat) 1) eqn:EM.
  - (* M = 1 *)
    apply Nat.eqb_eq in EM.
    destruct (negb (Nat.eqb (p2_pidx (phase2 co sc cs nm fwd true w 0 p0 pat (last pat 0) 0 (s_init sc) false
                                        (mkP2 [] [] [] [] [] O O 0 O))) (length pat))) eqn:Ep.
    + left. exact U.
    + right; right; left. split; [destruct pat'; [reflexivity|cbn in EM; lia]|]. split; [reflexivity|].
      eexists _, _. exact U.
  - apply Nat.eqb_neq in EM.
    assert (HM : (2 <= length pat)%nat) by (cbn [length pat] in *; lia).
    set (st := phase2 co sc cs nm fwd false w 0 p0 pat (last pat 0) 0 (s_init sc) false (mkP2 [] [] [] [] [] O O 0 O)) in *.
    destruct (Nat.eqb (p2_pidx st) (length pat)) eqn:Ep; cbn [negb] in U.
    + apply Nat.eqb_eq in Ep. right; right; right.
      split; [exact HM|]. split; [exact ELt|]. split; [reflexivity|].
      exists lo, hi, st. split; [exact Eafi|]. split; [lia|]. split; [reflexivity|].
      split; [exact (phase2_ok_proof co sc cs nm fwd w pat p0 pat' HM eq_refl Ep)|].
      destruct (phase2_max_init_proof co sc cs nm fwd w pat p0) as [A1 A2].
      split; [exact A1|]. split; [exact A2|]. exact U.
    + left. exact U.
Qed.

Lemma norm_weaken co : (forall c, c < 192 -> co_norm co c = c) -> forall nm : bool, nm = true -> forall x, x <= 127 -> co_norm co x = x.
Proof. intros Hn nm _ x Hx. apply Hn. lia. Qed.

(* ---------- a. the score / end of V2 are those of the documented whole-line DP ---------- *)

Theorem v2_score_eq_naive_final : forall co sc cs nm fwd ib text pat wp cap s e score pos,
  (2 <= length pat)%nat ->
  0 <= s_bw sc /\ 0 <= s_bd sc ->
  (ib = true -> Forall (fun c => 0 <= c < 128) text) ->
  (forall c, c < 192 -> co_norm co c = c) ->
  (match cap with Some c => c <? Z.of_nat (length text) * Z.of_nat (length pat) | None => false end) = false ->
  fuzzy_v2 co sc cs nm fwd ib text pat wp cap = Ok (Match s e score pos) ->
  naive_dp co sc cs nm fwd text pat = Some (score, e).
Proof.
  intros co sc cs nm fwd ib text pat wp cap s e score pos HM2 Hsc Ha Hn Hfb Hrun.
  destruct pat as [|p0 pat']; [cbn in HM2; lia|].
  destruct (v2_shape co sc cs nm fwd ib text p0 pat' cap Ha Hn)
    as [A|[(_ & A & _)|[(A & _)|(_ & _ & _ & lo & hi & st & Eafi & Hb & Est & Hok & Hms & Hmp & A)]]].
  - rewrite A in Hrun. discriminate.
  - unfold v2_fallback in A. rewrite Hfb in A. discriminate.
  - subst pat'. cbn in HM2. lia.
  - rewrite A in Hrun. clear A. set (pat := p0 :: pat') in *.
    destruct Hsc as [Hbw Hbd].
    pose proof (phase3_refines_proof co sc cs nm fwd _ pat st Hbw Hbd Hok HM2 Hms Hmp) as HB.
    unfold v2_after_phase2 in Hrun. cbv zeta in Hrun.
    change (rev (p2_T st)) with (p2T st) in Hrun. change (rev (p2_B st)) with (p2B st) in Hrun.
    change (rev (p2_H0 st)) with (p2H0 st) in Hrun. change (rev (p2_C0 st)) with (p2C0 st) in Hrun.
    change (rev (p2_F st)) with (p2F st) in Hrun.
    destruct (get (p2F st) 0) as [f0n|] eqn:Ef0; cbn [bind] in Hrun; [|discriminate].
    destruct (Z.of_nat (p2_lastIdx st) - Z.of_nat f0n + 1 <=? 0) eqn:Ew; [discriminate|].
    apply Z.leb_gt in Ew.
    destruct (Nat.ltb (length (p2H0 st)) (Z.to_nat (Z.of_nat (p2_lastIdx st) + 1))); [discriminate|].
    match type of Hrun with (do H <- ?a; _) = _ => destruct a as [H|] eqn:EH end; cbn [bind] in Hrun; [|discriminate].
    match type of Hrun with (do C <- ?a; _) = _ => destruct a as [C|] eqn:EC end; cbn [bind] in Hrun; [|discriminate].
    match type of Hrun with (do r <- ?a; _) = _ => destruct a as [[[[H' C'] ms] mp]|] eqn:E3 end;
      cbn [bind] in Hrun; [|discriminate].
    destruct (HB f0n H C H' C' ms mp Ef0 Ew EH EC E3) as [Hmp0 Hwin].
    destruct (mp <? 0) eqn:Emp; [discriminate|].
    assert (Hres : score = ms /\ e = (lo + Z.to_nat mp + 1)%nat).
    { destruct wp.
      - match type of Hrun with (do pj <- ?a; _) = _ => destruct a as [pj|] end; cbn [bind] in Hrun; [|discriminate].
        inversion Hrun; subst. auto.
      - inversion Hrun; subst. auto. }
    destruct Hres as [-> ->].
    exact (v2_score_eq_naive_afi_proof co sc ib cs nm fwd text pat lo hi st ms (Z.to_nat mp)
             HM2 (conj Hbw Hbd) Ha Hn Eafi Hok Hwin).
Qed.

(* ---------- b. V2 never fails: no index out of range, no read of a scratch cell not written in this call ---------- *)

Theorem v2_total_final : forall co sc cs nm fwd ib text pat wp cap,
  0 <= s_bw sc /\ 0 <= s_bd sc ->
  (ib = true -> Forall (fun c => 0 <= c < 128) text) ->
  (forall c, c < 192 -> co_norm co c = c) ->
  exists r, fuzzy_v2 co sc cs nm fwd ib text pat wp cap = Ok r.
Proof.
  intros co sc cs nm fwd ib text pat wp cap [Hbw Hbd] Ha Hn.
  destruct pat as [|p0 pat']; [cbn; eauto|].
  destruct (v2_shape co sc cs nm fwd ib text p0 pat' cap Ha Hn)
    as [A|[(_ & _ & A)|[(_ & _ & r & score & A)|(HM2 & _ & _ & lo & hi & st & Eafi & Hb & Est & Hok & Hms & Hmp & A)]]];
    rewrite A.
  - eauto.
  - apply v1_total_proof.
  - eauto.
  - destruct (v2_matrix_total_proof co sc cs nm fwd wp lo _ _ st Hbw Hbd Hok HM2 ltac:(lia))
      as (s & e & score & pos & E & _). eauto.
Qed.

(* ---------- c. soundness of the reported positions ---------- *)

(* V2 proper reports positions in DESCENDING order, the V1 fallback in ASCENDING order: the witness is
   [rev ps] without fallback and [ps] with it. *)
Theorem v2_sound_final_sharp : forall co sc cs nm fwd ib text pat cap s e score ps,
  0 <= s_bw sc /\ 0 <= s_bd sc ->
  (ib = true -> Forall (fun c => 0 <= c < 128) text) ->
  (forall c, c < 192 -> co_norm co c = c) ->
  pat <> [] ->
  fuzzy_v2 co sc cs nm fwd ib text pat true cap = Ok (Match s e score (Some ps)) ->
  (s <= e <= length text)%nat /\
  witness co cs nm text pat (if v2_fallback text pat cap then ps else rev ps) = true /\
  Forall (fun p => (s <= p < e)%nat) ps.
Proof.
  intros co sc cs nm fwd ib text pat cap s e score ps [Hbw Hbd] Ha Hn Hne Hrun.
  destruct pat as [|p0 pat']; [contradiction|].
  destruct (v2_shape co sc cs nm fwd ib text p0 pat' cap Ha Hn)
    as [A|[(_ & Efb & A)|[(Ep & Efb & r & score' & A)|(HM2 & _ & Efb & lo & hi & st & Eafi & Hb & Est & Hok & Hms & Hmp & A)]]].
  - rewrite A in Hrun. discriminate.
  - rewrite A in Hrun. rewrite Efb.
    destruct (v1_sound_proof co sc cs nm fwd ib text _ true s e score _ Hrun Hne) as (R1 & _ & R3).
    destruct (R3 ps eq_refl) as (R4 & R5 & _). auto.
  - rewrite Efb. subst pat'.
    assert (Hcap : forall c, cap = Some c -> Z.of_nat (length text) <= c).
    { intros c ->. unfold v2_fallback in Efb. cbn [length] in Efb. apply Z.ltb_ge in Efb. lia. }
    destruct (v2_single_sound_proof co sc cs nm fwd ib text p0 true cap s e score (Some ps) (conj Hbw Hbd) Hn Hcap Hrun)
      as (He & Hs & Hf & _ & Hps & _).
    specialize (Hps ps eq_refl). subst ps e. split; [lia|]. split.
    + cbn [rev app]. unfold witness. cbn [witness_from]. rewrite (nth_error_nth' text 0 Hs), Hf, Z.eqb_refl. reflexivity.
    + constructor; [lia|constructor].
  - rewrite Efb. rewrite A in Hrun.
    destruct (v2_positions_sound_text_proof co sc cs nm fwd lo (hi - lo) text _ st Hbw Hbd (norm_weaken co Hn nm) Hok HM2 ltac:(lia))
      as (s1 & e1 & score1 & ps1 & E & Hwit & Hin & Hhd & He).
    rewrite E in Hrun. inversion Hrun; subst.
    split; [|split; [exact Hwit|apply Forall_forall; exact Hin]].
    destruct (rev ps) as [|a l] eqn:Er; [discriminate|].
    assert (Hina : In a ps) by (apply in_rev; rewrite Er; left; reflexivity).
    specialize (Hin a Hina). lia.
Qed.

Theorem v2_sound_final : forall co sc cs nm fwd ib text pat cap s e score ps,
  0 <= s_bw sc /\ 0 <= s_bd sc ->
  (ib = true -> Forall (fun c => 0 <= c < 128) text) ->
  (forall c, c < 192 -> co_norm co c = c) ->
  pat <> [] ->
  fuzzy_v2 co sc cs nm fwd ib text pat true cap = Ok (Match s e score (Some ps)) ->
  (s <= e <= length text)%nat /\
  (witness co cs nm text pat (rev ps) = true \/ witness co cs nm text pat ps = true) /\
  Forall (fun p => (s <= p < e)%nat) ps.
Proof.
  intros co sc cs nm fwd ib text pat cap s e score ps Hsc Ha Hn Hne Hrun.
  destruct (v2_sound_final_sharp co sc cs nm fwd ib text pat cap s e score ps Hsc Ha Hn Hne Hrun) as (R1 & R2 & R3).
  split; [exact R1|]. split; [|exact R3]. destruct (v2_fallback text pat cap); auto.
Qed.

(* ---------- d. End and Score do not depend on withPos (Start may: finding K1) ---------- *)

Definition end_score (r : res mres) : option (option (nat * Z)) :=
  match r with
  | Ok (Match _ e score _) => Some (Some (e, score))
  | Ok NoMatch => Some None
  | Err _ => None
  end.

Lemma strip_pos_end_score a b : strip_pos a = strip_pos b -> end_score a = end_score b.
Proof.
  destruct a as [[|s e score pos]|]; destruct b as [[|s' e' score' pos']|]; cbn; intros H; try discriminate; try reflexivity.
  inversion H; subst; reflexivity.
Qed.

Theorem v2_withpos_indep_final : forall co sc cs nm fwd ib text pat cap,
  0 <= s_bw sc /\ 0 <= s_bd sc ->
  (ib = true -> Forall (fun c => 0 <= c < 128) text) ->
  (forall c, c < 192 -> co_norm co c = c) ->
  end_score (fuzzy_v2 co sc cs nm fwd ib text pat true cap) = end_score (fuzzy_v2 co sc cs nm fwd ib text pat false cap) /\
  end_score (fuzzy_v2 co sc cs nm fwd ib text pat true cap) <> None.
Proof.
  intros co sc cs nm fwd ib text pat cap [Hbw Hbd] Ha Hn.
  destruct pat as [|p0 pat']; [cbn; split; [reflexivity|discriminate]|].
  destruct (v2_shape co sc cs nm fwd ib text p0 pat' cap Ha Hn)
    as [A|[(_ & _ & A)|[(_ & _ & r & score & A)|(HM2 & _ & _ & lo & hi & st & Eafi & Hb & Est & Hok & Hms & Hmp & A)]]];
    rewrite !A.
  - cbn. split; [reflexivity|discriminate].
  - split; [apply strip_pos_end_score, v1_withpos_indep_proof|].
    destruct (v1_total_proof co sc cs nm fwd ib text (p0 :: pat') true) as [[|? ? ? ?] ->]; discriminate.
  - cbn. split; [reflexivity|discriminate].
  - destruct (v2_maxscore_proof co sc cs nm fwd true lo _ _ st Hbw Hbd Hok HM2 ltac:(lia))
      as (H1 & C1 & score1 & mp1 & s1 & e1 & pos1 & F1 & A1 & E1 & _).
    destruct (v2_maxscore_proof co sc cs nm fwd false lo _ _ st Hbw Hbd Hok HM2 ltac:(lia))
      as (H2 & C2 & score2 & mp2 & s2 & e2 & pos2 & F2 & A2 & E2 & _).
    rewrite F1 in F2. inversion F2; subst.
    rewrite A1, A2. cbn. split; [|discriminate]. repeat f_equal. lia.
Qed.

(* as an implication between runs *)
Corollary v2_withpos_indep_match : forall co sc cs nm fwd ib text pat cap wp s e score pos,
  0 <= s_bw sc /\ 0 <= s_bd sc ->
  (ib = true -> Forall (fun c => 0 <= c < 128) text) ->
  (forall c, c < 192 -> co_norm co c = c) ->
  fuzzy_v2 co sc cs nm fwd ib text pat wp cap = Ok (Match s e score pos) ->
  exists s' pos', fuzzy_v2 co sc cs nm fwd ib text pat (negb wp) cap = Ok (Match s' e score pos').
Proof.
  intros co sc cs nm fwd ib text pat cap wp s e score pos Hsc Ha Hn Hrun.
  destruct (v2_withpos_indep_final co sc cs nm fwd ib text pat cap Hsc Ha Hn) as [E _].
  destruct wp; cbn [negb]; rewrite Hrun in E; cbn in E.
  - destruct (fuzzy_v2 co sc cs nm fwd ib text pat false cap) as [[|s' e' score' pos']|]; cbn in E; try discriminate.
    inversion E; subst. eauto.
  - destruct (fuzzy_v2 co sc cs nm fwd ib text pat true cap) as [[|s' e' score' pos']|]; cbn in E; try discriminate.
    inversion E; subst. eauto.
Qed.

(* one direction needs no hypothesis at all: it is the structure of the code (both branches return the
   maxScore / maxPos of the same p3_rows call; the V1 fallback computes the score before looking at withPos) *)
Theorem v2_withpos_indep_nohyp : forall co sc cs nm fwd ib text pat cap s e score pos,
  fuzzy_v2 co sc cs nm fwd ib text pat true cap = Ok (Match s e score pos) ->
  exists s', fuzzy_v2 co sc cs nm fwd ib text pat false cap = Ok (Match s' e score None).
Proof.
  intros co sc cs nm fwd ib text pat cap s e score pos Hrun.
  rewrite fuzzy_v2_unfold in Hrun |- *. cbv zeta in Hrun |- *.
  destruct pat as [|p0 pat']; [inversion Hrun; eauto|].
  destruct (Nat.ltb _ _); [discriminate|].
  destruct (match cap with Some c => _ | None => false end).
  { apply v1_withpos_indep_match in Hrun. eauto. }
  destruct (ascii_fuzzy_index ib text (p0 :: pat') cs) as [[[lo hi]|]|]; cbn [bind] in Hrun |- *; try discriminate.
  destruct (_ || _); [discriminate|].
  destruct (negb _); [discriminate|].
  destruct (Nat.eqb _ 1); [inversion Hrun; eauto|].
  unfold v2_after_phase2 in Hrun |- *. cbv zeta in Hrun |- *.
  destruct (get _ 0) as [f0n|]; cbn [bind] in Hrun |- *; [|discriminate].
  destruct (_ <=? 0); [discriminate|].
  destruct (Nat.ltb _ _); [discriminate|].
  destruct (put_row _ 0 _) as [H|]; cbn [bind] in Hrun |- *; [|discriminate].
  destruct (put_row _ 0 _) as [C|]; cbn [bind] in Hrun |- *; [|discriminate].
  destruct (p3_rows _ _ _ _ _ _ _ _ _ _ _ _ _ _) as [[[[H' C'] ms] mp]|]; cbn [bind] in Hrun |- *; [|discriminate].
  destruct (mp <? 0); [discriminate|].
  destruct (p4 _ _ _ _ _ _ _ _ _ _ _ _) as [pj|]; cbn [bind] in Hrun; [|discriminate].
  inversion Hrun; subst. eauto.
Qed.

(* ---------- e. the reported range, without positions ---------- *)

Theorem v2_range_final : forall co sc cs nm fwd ib text pat cap s e score pos,
  0 <= s_bw sc /\ 0 <= s_bd sc ->
  (ib = true -> Forall (fun c => 0 <= c < 128) text) ->
  (forall c, c < 192 -> co_norm co c = c) ->
  pat <> [] ->
  fuzzy_v2 co sc cs nm fwd ib text pat false cap = Ok (Match s e score pos) ->
  pos = None /\ (s < e <= length text)%nat.
Proof.
  intros co sc cs nm fwd ib text pat cap s e score pos [Hbw Hbd] Ha Hn Hne Hrun.
  destruct pat as [|p0 pat']; [contradiction|].
  destruct (v2_shape co sc cs nm fwd ib text p0 pat' cap Ha Hn)
    as [A|[(_ & Efb & A)|[(Ep & Efb & r & score' & A)|(HM2 & _ & Efb & lo & hi & st & Eafi & Hb & Est & Hok & Hms & Hmp & A)]]].
  - rewrite A in Hrun. discriminate.
  - rewrite A in Hrun.
    destruct (v1_score_proof co sc cs nm fwd ib text _ false s e score pos Hrun Hne) as (ps & Hw & Hall & _ & _ & _ & Hpos).
    destruct (v1_sound_proof co sc cs nm fwd ib text _ false s e score pos Hrun Hne) as (R1 & _).
    split; [exact Hpos|]. split; [|lia].
    destruct ps as [|a l]; [cbn in Hw; discriminate|]. inversion Hall; subst. lia.
  - subst pat'.
    assert (Hcap : forall c, cap = Some c -> Z.of_nat (length text) <= c).
    { intros c ->. unfold v2_fallback in Efb. cbn [length] in Efb. apply Z.ltb_ge in Efb. lia. }
    destruct (v2_single_sound_proof co sc cs nm fwd ib text p0 false cap s e score pos (conj Hbw Hbd) Hn Hcap Hrun)
      as (He & Hs & _ & Hpos & _).
    split; [exact Hpos|lia].
  - rewrite A in Hrun.
    destruct (v2_matrix_total_proof co sc cs nm fwd false lo _ _ st Hbw Hbd Hok HM2 ltac:(lia))
      as (s1 & e1 & score1 & pos1 & E & _ & Hse & He & Hnp & _).
    rewrite E in Hrun. inversion Hrun; subst.
    destruct (Hnp eq_refl) as [-> _]. split; [reflexivity|].
    rewrite firstn_length, skipn_length in He. lia.
Qed.

Print Assumptions v2_score_eq_naive_final.
Print Assumptions v2_total_final.
Print Assumptions v2_sound_final_sharp.
Print Assumptions v2_sound_final.
Print Assumptions v2_withpos_indep_final.
Print Assumptions v2_withpos_indep_match.
Print Assumptions v2_withpos_indep_nohyp.
Print Assumptions v2_range_final.

(* ---------- non-vacuity: "foo-Bar baz" / "oba", smart case off, normalisation on, forward, byte string ---------- *)

Definition pat_ex : list Z := [111; 98; 97].

Lemma sc_ex_nonneg : 0 <= s_bw scheme_default /\ 0 <= s_bd scheme_default.
Proof. cbn. lia. Qed.

Example v2_run_ex :
  fuzzy_v2 co_ex scheme_default false true true true text_ex pat_ex true None = Ok (Match 2 6 61 (Some [5; 4; 2]%nat)) /\
  fuzzy_v2 co_ex scheme_default false true true true text_ex pat_ex false None = Ok (Match 1 6 61 None) /\
  fuzzy_v2 co_ex scheme_default false true true true text_ex pat_ex true (Some 5) = Ok (Match 2 6 61 (Some [2; 4; 5]%nat)).
Proof. vm_compute. repeat split; reflexivity. Qed.

(* a. the theorem's hypotheses hold on the example and its conclusion is what the spec computes *)
Example v2_score_eq_naive_final_ex : naive_dp co_ex scheme_default false true true text_ex pat_ex = Some (61, 6%nat).
Proof.
  apply (v2_score_eq_naive_final co_ex scheme_default false true true true text_ex pat_ex true None 2 6 61 (Some [5; 4; 2]%nat)).
  - cbn. lia.
  - exact sc_ex_nonneg.
  - apply text_ex_ascii.
  - exact co_ex_norm.
  - reflexivity.
  - vm_compute. reflexivity.
Qed.
Example v2_score_eq_naive_final_ex_check : naive_dp co_ex scheme_default false true true text_ex pat_ex = Some (61, 6%nat).
Proof. vm_compute. reflexivity. Qed.

(* b. *)
Example v2_total_final_ex : exists r, fuzzy_v2 co_ex scheme_default false true true true text_ex pat_ex true None = Ok r.
Proof. exact (v2_total_final co_ex scheme_default false true true true text_ex pat_ex true None sc_ex_nonneg (text_ex_ascii true) co_ex_norm). Qed.

(* c. V2 proper: descending positions, the witness is the reversed list *)
Example v2_sound_final_ex :
  (2 <= 6 <= length text_ex)%nat /\ witness co_ex false true text_ex pat_ex [2; 4; 5]%nat = true /\
  Forall (fun p => (2 <= p < 6)%nat) [5; 4; 2]%nat.
Proof.
  apply (v2_sound_final_sharp co_ex scheme_default false true true true text_ex pat_ex None 2 6 61 [5; 4; 2]%nat
           sc_ex_nonneg (text_ex_ascii true) co_ex_norm ltac:(discriminate)).
  vm_compute. reflexivity.
Qed.
(* V1 fallback (slab of 5 cells): ascending positions, the witness is the list itself; the reversed list is
   NOT a witness, so the disjunction of v2_sound_final cannot be replaced by either disjunct *)
Example v2_sound_final_fallback_ex :
  witness co_ex false true text_ex pat_ex [2; 4; 5]%nat = true /\
  witness co_ex false true text_ex pat_ex (rev [2; 4; 5]%nat) = false /\
  witness co_ex false true text_ex pat_ex [5; 4; 2]%nat = false.
Proof.
  split; [|vm_compute; split; reflexivity].
  apply (v2_sound_final_sharp co_ex scheme_default false true true true text_ex pat_ex (Some 5) 2 6 61 [2; 4; 5]%nat
           sc_ex_nonneg (text_ex_ascii true) co_ex_norm ltac:(discriminate)).
  vm_compute. reflexivity.
Qed.
Example v2_sound_final_disj_ex :
  (2 <= 6 <= length text_ex)%nat /\
  (witness co_ex false true text_ex pat_ex (rev [5; 4; 2]%nat) = true \/ witness co_ex false true text_ex pat_ex [5; 4; 2]%nat = true) /\
  Forall (fun p => (2 <= p < 6)%nat) [5; 4; 2]%nat.
Proof.
  apply (v2_sound_final co_ex scheme_default false true true true text_ex pat_ex None 2 6 61 [5; 4; 2]%nat
           sc_ex_nonneg (text_ex_ascii true) co_ex_norm ltac:(discriminate)).
  vm_compute. reflexivity.
Qed.

(* d. End = 6 and Score = 61 with and without positions; Start differs (2 vs 1): finding K1 *)
Example v2_withpos_indep_final_ex :
  end_score (fuzzy_v2 co_ex scheme_default false true true true text_ex pat_ex true None) = Some (Some (6%nat, 61)) /\
  end_score (fuzzy_v2 co_ex scheme_default false true true true text_ex pat_ex false None) = Some (Some (6%nat, 61)).
Proof.
  destruct (v2_withpos_indep_final co_ex scheme_default false true true true text_ex pat_ex None
              sc_ex_nonneg (text_ex_ascii true) co_ex_norm) as [E _].
  rewrite <- E. vm_compute. split; reflexivity.
Qed.

(* e. *)
Example v2_range_final_ex : @None (list nat) = None /\ (1 < 6 <= length text_ex)%nat.
Proof.
  apply (v2_range_final co_ex scheme_default false true true true text_ex pat_ex None 1 6 61 None
           sc_ex_nonneg (text_ex_ascii true) co_ex_norm ltac:(discriminate)).
  vm_compute. reflexivity.
Qed.
