(* C14, jump mode: drawing a frame with labels never reads outside the label string, for EVERY label string, pointer
   width and number of visible items; the guard of printItem is needed (with `<=` the frame fails exactly when more
   items are visible than there are labels); the row picked by a label key is a visible row that holds an item. *)
From Fzf Require Import Prelude JumpSpec JumpModel.
Open Scope Z_scope.

Lemma drop_res_ok : forall l n, (n <= length l)%nat -> exists d, drop_res l n = Ok d /\ length d = (length l - n)%nat.
Proof.
  induction l as [|x l IH]; intros n Hn; destruct n as [|n]; cbn in *.
  - exists []. split; reflexivity.
  - lia.
  - exists (x :: l). split; reflexivity.
  - destruct (IH n ltac:(lia)) as [d [Hd Hl]]. exists d. split; [exact Hd | exact Hl].
Qed.

Lemma drop_res_err : forall l n, (length l < n)%nat -> drop_res l n = Err Panic.
Proof.
  induction l as [|x l IH]; intros n Hn; destruct n as [|n]; cbn in *; try lia.
  - reflexivity.
  - apply IH. lia.
Qed.

Lemma take_res_ok : forall n l, (n <= length l)%nat -> exists r, take_res l n = Ok r /\ length r = n.
Proof.
  induction n as [|n IH]; intros l Hn; cbn.
  - exists []. split; reflexivity.
  - destruct l as [|x l]; cbn in *; [lia|].
    destruct (IH l ltac:(lia)) as [r [Hr Hl]]. rewrite Hr. cbn. exists (x :: r). split; [reflexivity | cbn; lia].
Qed.

Lemma take_res_err : forall n l, (length l < n)%nat -> take_res l n = Err Panic.
Proof.
  induction n as [|n IH]; intros l Hn; cbn; [lia|].
  destruct l as [|x l]; cbn in *; [reflexivity|].
  rewrite (IH l ltac:(lia)). reflexivity.
Qed.

(* the checked slice is defined exactly where Go's is *)
Lemma slice_ok : forall l lo hi, (lo <= hi <= length l)%nat -> exists r, slice l lo hi = Ok r /\ length r = (hi - lo)%nat.
Proof.
  intros l lo hi H. unfold slice.
  destruct (hi <? lo)%nat eqn:E; [apply Nat.ltb_lt in E; lia|].
  destruct (drop_res_ok l lo ltac:(lia)) as [d [Hd Hl]]. rewrite Hd. cbn.
  apply take_res_ok. lia.
Qed.

Lemma slice_err : forall l lo hi, (length l < hi)%nat -> slice l lo hi = Err Panic.
Proof.
  intros l lo hi H. unfold slice.
  destruct (hi <? lo)%nat eqn:E; [reflexivity|]. apply Nat.ltb_ge in E.
  destruct (Nat.le_gt_cases lo (length l)) as [Hle|Hgt].
  - destruct (drop_res_ok l lo Hle) as [d [Hd Hl]]. rewrite Hd. cbn. apply take_res_err. lia.
  - rewrite (drop_res_err l lo Hgt). reflexivity.
Qed.

Lemma jump_label_ok : forall labels p index, exists o, jump_label labels p index = Ok o.
Proof.
  intros labels p index. unfold jump_label, jump_label_with.
  destruct (index <? length labels)%nat eqn:E; [|eexists; reflexivity].
  apply Nat.ltb_lt in E.
  destruct (slice_ok labels index (index + 1) ltac:(lia)) as [r [Hr _]]. rewrite Hr. cbn. eexists; reflexivity.
Qed.

Lemma rows_res_ok : forall A (f : nat -> res A) n from, (forall i, exists o, f i = Ok o) -> exists r, rows_res f from n = Ok r /\ length r = n.
Proof.
  intros A f n. induction n as [|n IH]; intros from Hf; cbn.
  - exists []. split; reflexivity.
  - destruct (Hf from) as [o Ho]. rewrite Ho. cbn.
    destruct (IH (S from) Hf) as [r [Hr Hl]]. rewrite Hr. cbn. exists (o :: r). split; [reflexivity | cbn; lia].
Qed.

Lemma rows_res_err : forall A (f : nat -> res A) n from i, (from <= i < from + n)%nat -> f i = Err Panic ->
  (forall j, (from <= j < i)%nat -> exists o, f j = Ok o) -> rows_res f from n = Err Panic.
Proof.
  intros A f n. induction n as [|n IH]; intros from i Hi Hf Hbefore; cbn; [lia|].
  destruct (Nat.eq_dec from i) as [->|Hne].
  - rewrite Hf. reflexivity.
  - destruct (Hbefore from ltac:(lia)) as [o Ho]. rewrite Ho. cbn.
    rewrite (IH (S from) i ltac:(lia) Hf); [reflexivity|].
    intros j Hj. apply Hbefore. lia.
Qed.

Theorem jump_label_in_bounds_proof : forall labels pointerLen visible,
  exists r, jump_frame labels pointerLen visible = Ok r /\ length r = visible /\
            Forall (jread_safe (length labels)) (jump_reads_with Nat.ltb (length labels) visible).
Proof.
  intros labels p visible.
  destruct (rows_res_ok _ (jump_label_with Nat.ltb labels p) visible 0%nat (jump_label_ok labels p)) as [r [Hr Hl]].
  exists r. split; [exact Hr|]. split; [exact Hl|].
  unfold jump_reads_with. apply Forall_forall. intros o Ho. apply in_map_iff in Ho. destruct Ho as [i [Hi _]]. subst o.
  destruct (i <? length labels)%nat eqn:E; cbn; [apply Nat.ltb_lt in E; lia | exact I].
Qed.

Theorem jump_guard_needed_proof : forall labels pointerLen visible,
  (is_ok (jump_frame_le labels pointerLen visible) = true <-> (visible <= length labels)%nat) /\
  ((length labels < visible)%nat -> jump_frame_le labels pointerLen visible = Err Panic).
Proof.
  intros labels p visible.
  assert (Hbelow : forall j, (j < length labels)%nat -> exists o, jump_label_le labels p j = Ok o).
  { intros j Hj. unfold jump_label_le, jump_label_with.
    destruct (j <=? length labels)%nat; [|eexists; reflexivity].
    destruct (slice_ok labels j (j + 1) ltac:(lia)) as [r [Hr _]]. rewrite Hr. cbn. eexists; reflexivity. }
  assert (Hat : jump_label_le labels p (length labels) = Err Panic).
  { unfold jump_label_le, jump_label_with. rewrite Nat.leb_refl.
    rewrite (slice_err labels (length labels) (length labels + 1) ltac:(lia)). reflexivity. }
  assert (Hpanic : (length labels < visible)%nat -> jump_frame_le labels p visible = Err Panic).
  { intros Hlt. unfold jump_frame_le, jump_frame_with.
    apply (rows_res_err _ (jump_label_with Nat.leb labels p) visible 0%nat (length labels)); [lia | exact Hat |].
    intros j Hj. apply Hbelow. lia. }
  split; [|exact Hpanic].
  split.
  - intros Hok. destruct (Nat.le_gt_cases visible (length labels)) as [Hle|Hgt]; [exact Hle|].
    rewrite (Hpanic Hgt) in Hok. discriminate.
  - intros Hle. unfold jump_frame_le, jump_frame_with.
    (* every row below `visible` is below the number of labels: generalise over the start *)
    assert (G : forall n from, (from + n <= length labels)%nat -> is_ok (rows_res (jump_label_with Nat.leb labels p) from n) = true).
    { induction n as [|n IH]; intros from Hb; cbn; [reflexivity|].
      destruct (Hbelow from ltac:(lia)) as [o Ho]. unfold jump_label_le in Ho. rewrite Ho. cbn.
      specialize (IH (S from) ltac:(lia)). destruct (rows_res _ (S from) n); [reflexivity | discriminate]. }
    apply G. lia.
Qed.

Lemma index_of_bound : forall c l i k, index_of c l i = Some k -> (i <= k < i + length l)%nat /\ nth_error l (k - i) = Some c.
Proof.
  intros c l. induction l as [|x l IH]; intros i k H; cbn in H; [discriminate|].
  destruct (x =? c) eqn:E.
  - inversion H; subst k. apply Z.eqb_eq in E. subst x. rewrite Nat.sub_diag. cbn. split; [lia | reflexivity].
  - destruct (IH (S i) k H) as [Hb Hn]. split; [cbn; lia|].
    replace (k - i)%nat with (S (k - S i)) by lia. cbn. exact Hn.
Qed.

Theorem jump_pick_in_bounds_proof : forall labels key rows count offset cy,
  jump_pick labels key rows count offset = Some cy ->
  jpick_safe rows count offset cy /\ nth_error labels (cy - offset) = Some key.
Proof.
  intros labels key rows count offset cy H. unfold jump_pick in H.
  destruct (index_of key labels 0) as [idx|] eqn:E; [|discriminate].
  destruct ((idx <? rows)%nat && (idx <? count)%nat) eqn:G; [|discriminate].
  inversion H; subst cy. apply andb_true_iff in G. destruct G as [G1 G2].
  apply Nat.ltb_lt in G1. apply Nat.ltb_lt in G2.
  destruct (index_of_bound key labels 0%nat idx E) as [_ Hn].
  unfold jpick_safe. replace (idx + offset - offset)%nat with idx by lia.
  split; [lia|]. rewrite Nat.sub_0_r in Hn. exact Hn.
Qed.
