(* C08 progress, second half: once the user and the producer have stopped, the fixed run of internal steps
   drain_labels (reader ends; coordinator rounds; a queued reload starts and its command ends; the matcher
   finishes) leads every reachable state to quiescence. *)
From Fzf Require Import Prelude CoordSpec CoordModel CoordFlat CoordProofs CoordMain.
Open Scope Z_scope.

Definition settled_reader (s : st) : Prop :=
  e_new s = false /\ e_fin s = false /\ c_next s = None /\ (rd_alive s = false -> c_reading s = false).
Definition idle_reader (s : st) : Prop :=
  e_new s = false /\ e_fin s = false /\ rd_alive s = false /\ c_reading s = false /\ c_next s = None.

Definition fin_read (s : st) : st := step (step s LFin) LCoordRead.

(* reader ends + one round: no read event is left and no command is queued any more *)
Lemma stage_a s : Inv s -> settled_reader (fin_read s).
Proof.
  intro H. pose proof (i_reading s H) as R. pose proof (i_next_reading s H) as N.
  unfold fin_read, settled_reader, step, step_r. rewrite coord_read_flat_eq. unfold coord_read_flat.
  destruct s. simpl in *.
  destruct rd_alive, e_new, e_fin, c_next, c_reading; simpl; repeat split; intros; try reflexivity; try discriminate;
    try (exfalso; solve [ intuition discriminate | assert (X : @None cmd <> None) by assumption; congruence
                        | destruct N; congruence ]); auto.
  all: try (destruct R as [R|R]; [reflexivity| |]; discriminate).
  all: try (assert (X : true = true) by (apply N; discriminate); discriminate).
Qed.

(* a second reader end + round: reading is over *)
Lemma stage_b s : settled_reader s -> idle_reader (fin_read s) /\ e_search (fin_read s) = e_search s.
Proof.
  intros (A & B & C & D).
  unfold fin_read, idle_reader, step, step_r. rewrite coord_read_flat_eq. unfold coord_read_flat.
  destruct s. simpl in *. subst.
  destruct rd_alive, c_reading; simpl; repeat split; try reflexivity; try (symmetry; apply D; reflexivity);
    try (apply D; reflexivity).
Qed.

(* the coordinator takes the pending search request: it is gone; if it carried a command, a new reader runs *)
Lemma stage_c s : idle_reader s -> settled_reader (step s LCoordSearch) /\ e_search (step s LCoordSearch) = None.
Proof.
  intros (A & B & C & D & E).
  unfold settled_reader, step, step_r. rewrite coord_search_flat_eq. unfold coord_search_flat.
  destruct s. simpl in *. subst.
  destruct e_search as [v|]; simpl; [|repeat split; auto].
  destruct v. simpl. destruct q_cmd; simpl; repeat split; auto; intro; discriminate.
Qed.

(* the matcher finishes what it has and the result is shown *)
Lemma stage_e s : idle_reader s -> e_search s = None ->
  quiescent (run s [LPublish; LTake; LPublish; LCoordFin]) = true.
Proof.
  intros (A & B & C & D & E) F. unfold run, run_r, quiescent. destruct s. simpl in *. subst.
  unfold coord_sfin.
  destruct m_running, m_pending, e_sfin; reflexivity.
Qed.

Lemma drain_split s :
  run s drain_labels =
  run (fin_read (step (fin_read (fin_read s)) LCoordSearch)) [LPublish; LTake; LPublish; LCoordFin].
Proof. unfold run, run_r, drain_labels, fin_read, step. cbn [fold_left]. reflexivity. Qed.

Lemma drain_quiesces_from s : Inv s -> quiescent (run s drain_labels) = true.
Proof.
  intro H. rewrite drain_split.
  pose proof (stage_a s H) as A.
  destruct (stage_b _ A) as [B _].
  destruct (stage_c _ B) as [C C'].
  destruct (stage_b _ C) as [D D'].
  apply stage_e; [exact D | now rewrite D'].
Qed.

(* every state of every schedule drains to a quiescent state, which then shows the fresh filter of the final state *)
Lemma progress_proof filt q so n sched :
  let s := run (run (init q so n) sched) drain_labels in
  quiescent s = true /\ shown filt s = filter_model filt (cur_cfg s) (cl s).
Proof.
  intro s. assert (Q : quiescent s = true) by (apply drain_quiesces_from, inv_run).
  split; [exact Q|].
  unfold s in *. rewrite <- run_app in *. apply (coordinator_quiescent_proof filt q so n _ Q).
Qed.
