(* C13: whoever receives the lines of an item from Chars.Lines / Terminal.itemLines can do what it likes with them
   (re-slice, append, assign): no array that existed before the call is ever written. *)
From Fzf Require Import Prelude TextStoreModel.
Open Scope nat_scope.

(* the first n cells of m are those of base *)
Definition keeps (n : nat) (base m : tmem) : Prop := n <= length m /\ firstn n m = firstn n base.
(* a slice of an array allocated at or after position n *)
Definition fresh (n : nat) (s : slice) : Prop := n <= sl_cell s.

Ltac inv_bind H :=
  match type of H with
  | bind ?r _ = Ok _ => let E := fresh "E" in destruct r eqn:E; cbn [bind] in H; [| discriminate H]
  end.

Lemma keeps_refl n m : n <= length m -> keeps n m m.
Proof. intro H; split; [exact H | reflexivity]. Qed.

Lemma keeps_alloc n base m c : keeps n base m -> keeps n base (m ++ [c]).
Proof.
  intros [Hl He]; split.
  - rewrite app_length; lia.
  - rewrite firstn_app. replace (n - length m) with 0 by lia. cbn. rewrite app_nil_r. exact He.
Qed.

Lemma set_nth_length {A} (l : list A) : forall i v l', set_nth l i v = Ok l' -> length l' = length l.
Proof.
  induction l as [|x l IH]; intros i v l' H; destruct i; cbn in H; try discriminate.
  - inversion H; reflexivity.
  - inv_bind H. inversion H; subst. cbn. f_equal. eapply IH; eassumption.
Qed.

Lemma set_nth_firstn {A} (l : list A) : forall i v l' n, set_nth l i v = Ok l' -> n <= i -> firstn n l' = firstn n l.
Proof.
  induction l as [|x l IH]; intros i v l' n H Hn; destruct i; cbn in H; try discriminate.
  - inversion H; subst. replace n with 0 by lia. reflexivity.
  - inv_bind H. inversion H; subst. destruct n; [reflexivity|]. cbn. f_equal. eapply IH; [eassumption | lia].
Qed.

Lemma keeps_set n base m id c m' : keeps n base m -> n <= id -> set_nth m id c = Ok m' -> keeps n base m'.
Proof.
  intros [Hl He] Hid H; split.
  - rewrite (set_nth_length _ _ _ _ H); exact Hl.
  - rewrite (set_nth_firstn _ _ _ _ n H Hid); exact He.
Qed.

Lemma get_firstn {A} (l : list A) : forall n i, i < n -> get (firstn n l) i = get l i.
Proof.
  induction l as [|x l IH]; intros n i H; destruct n; try lia; destruct i; cbn; try reflexivity.
  apply IH; lia.
Qed.

Lemma keeps_get n base m i : keeps n base m -> i < n -> get m i = get base i.
Proof.
  intros [_ He] Hi. rewrite <- (get_firstn m n i Hi), <- (get_firstn base n i Hi), He. reflexivity.
Qed.

Lemma keeps_read n base m s : keeps n base m -> sl_cell s < n -> sl_read m s = sl_read base s.
Proof. intros K Hs. unfold sl_read. rewrite (keeps_get _ _ _ _ K Hs). reflexivity. Qed.

Lemma get_In {A} (l : list A) : forall i x, get l i = Ok x -> In x l.
Proof.
  induction l as [|y l IH]; intros i x H; destruct i; cbn in H; try discriminate.
  - inversion H; left; reflexivity.
  - right; eapply IH; eassumption.
Qed.

(* ---- slices ---- *)

Lemma sl_sub_fresh n m s i j s' : sl_sub m s i j = Ok s' -> fresh n s -> fresh n s'.
Proof.
  unfold sl_sub; intros H F. inv_bind H. destruct (_ && _)%bool; [|discriminate].
  inversion H; subst. exact F.
Qed.

Lemma sl_append_keeps n base m s xs m' s' :
  keeps n base m -> fresh n s -> sl_append m s xs = Ok (m', s') -> keeps n base m' /\ fresh n s'.
Proof.
  unfold sl_append; intros K F H. inv_bind H. destruct (_ <=? _).
  - inv_bind H. inv_bind H. inversion H; subst. split; [eapply keeps_set; eassumption | exact F].
  - inv_bind H. unfold mem_alloc in H. inversion H; subst. split; [apply keeps_alloc; exact K | exact (proj1 K)].
Qed.

Lemma sl_set_keeps n base m s i x m' : keeps n base m -> fresh n s -> sl_set m s i x = Ok m' -> keeps n base m'.
Proof.
  unfold sl_set; intros K F H. inv_bind H. destruct (_ && _)%bool; [|discriminate]. eapply keeps_set; eassumption.
Qed.

Lemma copy_runes_keeps n base m src m' s' :
  keeps n base m -> copy_runes m src = Ok (m', s') -> keeps n base m' /\ fresh n s'.
Proof.
  unfold copy_runes, mem_alloc; intros K H. inv_bind H. inversion H; subst.
  split; [apply keeps_alloc; exact K | exact (proj1 K)].
Qed.

Lemma nil_slice_keeps n base m m' s' : keeps n base m -> nil_slice m = (m', s') -> keeps n base m' /\ fresh n s'.
Proof.
  unfold nil_slice, mem_alloc; intros K H. inversion H; subst. split; [apply keeps_alloc; exact K | exact (proj1 K)].
Qed.

Lemma owned_text_keeps n base m ch m' text :
  keeps n base m -> owned_text true m ch = Ok (m', text) -> keeps n base m' /\ fresh n text.
Proof.
  unfold owned_text, chars_to_runes; intros K H. inv_bind H. destruct a as [m1 rs].
  assert (K1 : keeps n base m1).
  { destruct (ch_bytes ch).
    - destruct (copy_runes_keeps _ _ _ _ _ _ K E) as [K1 _]; exact K1.
    - inversion E; subst; exact K. }
  eapply copy_runes_keeps; eassumption.
Qed.

Lemma sub_all_fresh n m s : forall segs ls, sub_all m s segs = Ok ls -> fresh n s -> Forall (fresh n) ls.
Proof.
  induction segs as [|[a b] r IH]; intros ls H F; cbn in H.
  - inversion H; constructor.
  - inv_bind H. inv_bind H. inversion H; subst. constructor; [eapply sl_sub_fresh; eassumption | apply IH; auto].
Qed.

Lemma Forall_snoc {A} (P : A -> Prop) l x : Forall P l -> P x -> Forall P (l ++ [x]).
Proof. intros Hl Hx. apply Forall_app; split; [exact Hl | constructor; [exact Hx | constructor]]. Qed.

Section WithWidth.
  Variable ovf : list Z -> Z -> Z -> option nat.

  Lemma wrap_line_keeps n base : forall fuel m line nl hs wrapped mx wc sw ts m' wrapped' stop,
    keeps n base m -> fresh n line -> Forall (fresh n) wrapped ->
    wrap_line ovf fuel m line nl hs wrapped mx wc sw ts = Ok (m', wrapped', stop) ->
    keeps n base m' /\ Forall (fresh n) wrapped'.
  Proof.
    induction fuel as [|fuel IH]; intros m line nl hs wrapped mx wc sw ts m' wrapped' stop K F FW H; cbn [wrap_line] in H.
    - discriminate.
    - inv_bind H. destruct (ovf _ _ _) as [oi0|].
      + destruct (_ >=? _)%Z.
        * inversion H; subst. split; assumption.
        * inv_bind H. inv_bind H.
          eapply IH; [exact K | eapply sl_sub_fresh; eassumption | | exact H].
          apply Forall_snoc; [exact FW | eapply sl_sub_fresh; eassumption].
      + inv_bind H. destruct a0 as [m1 line1].
        assert (K1 : keeps n base m1 /\ fresh n line1).
        { destruct nl.
          - eapply sl_append_keeps; eassumption.
          - inversion E0; subst. split; assumption. }
        destruct K1 as [K1 F1]. destruct (_ >=? _)%Z; inversion H; subst.
        * split; assumption.
        * split; [exact K1 | apply Forall_snoc; assumption].
  Qed.

  Lemma wrap_all_keeps n base : forall lines m wrapped mx wc sw ts m' wrapped' stop,
    keeps n base m -> Forall (fresh n) lines -> Forall (fresh n) wrapped ->
    wrap_all ovf m lines wrapped mx wc sw ts = Ok (m', wrapped', stop) ->
    keeps n base m' /\ Forall (fresh n) wrapped'.
  Proof.
    induction lines as [|line rest IH]; intros m wrapped mx wc sw ts m' wrapped' stop K FL FW H; cbn [wrap_all] in H.
    - inversion H; subst. split; assumption.
    - inversion FL as [|? ? Fline Frest]; subst.
      inv_bind H. inv_bind H. inv_bind H. destruct a1 as [[m1 wrapped1] stop1].
      assert (F1 : fresh n a0).
      { destruct (match rev a with [] => false | x :: _ => (x =? 10)%Z end).
        - eapply sl_sub_fresh; eassumption.
        - inversion E0; subst; exact Fline. }
      destruct (wrap_line_keeps n base _ _ _ _ _ _ _ _ _ _ _ _ _ K F1 FW E1) as [K1 FW1].
      destruct stop1.
      + inversion H; subst. split; assumption.
      + eapply IH; eassumption.
  Qed.

  Lemma chars_lines_keeps n base m ch ml mx wc sw ts m' lines ov :
    keeps n base m -> chars_lines ovf true m ch ml mx wc sw ts = Ok (m', lines, ov) ->
    keeps n base m' /\ Forall (fresh n) lines.
  Proof.
    unfold chars_lines; intros K H. inv_bind H. destruct a as [m1 text].
    destruct (owned_text_keeps _ _ _ _ _ _ K E) as [K1 F1].
    inv_bind H. destruct a as [[m2 lines2] ov2].
    assert (K2 : keeps n base m2 /\ Forall (fresh n) lines2).
    { destruct ml; cbn [negb] in E0.
      - inv_bind E0. destruct (split_lines a 0 0 0 mx) as [segs from]. inv_bind E0.
        pose proof (sub_all_fresh n _ _ _ _ E2 F1) as FS.
        destruct (_ >=? _)%Z.
        + inversion E0; subst. split; assumption.
        + destruct (from <? sl_len text).
          * inv_bind E0. inversion E0; subst. split; [exact K1 |].
            apply Forall_snoc; [exact FS | eapply sl_sub_fresh; eassumption].
          * destruct (nil_slice m1) as [m3 nl] eqn:EN. inversion E0; subst.
            destruct (nil_slice_keeps _ _ _ _ _ K1 EN) as [K3 F3]. split; [exact K3 | apply Forall_snoc; assumption].
      - inversion E0; subst. split; [exact K1 | constructor; [exact F1 | constructor]]. }
    destruct K2 as [K2 F2]. destruct (wc =? 0)%Z.
    - inversion H; subst. split; assumption.
    - inv_bind H. destruct a as [[m3 wrapped] stop]. inversion H; subst.
      eapply wrap_all_keeps; [exact K2 | exact F2 | constructor | exact E1].
  Qed.

  Lemma item_lines_keeps n base m ch wrap ml mx wc sw ts m' lines ov :
    keeps n base m -> item_lines ovf true m ch wrap ml mx wc sw ts = Ok (m', lines, ov) ->
    keeps n base m' /\ Forall (fresh n) lines.
  Proof.
    unfold item_lines; intros K H. destruct (negb wrap && negb ml)%bool.
    - inv_bind H. destruct a as [m1 text]. inversion H; subst.
      destruct (owned_text_keeps _ _ _ _ _ _ K E) as [K1 F1]. split; [exact K1 | constructor; [exact F1 | constructor]].
    - eapply chars_lines_keeps; eassumption.
  Qed.
End WithWidth.

(* ---- programs ---- *)

Lemma reg_fresh n regs r s : Forall (fresh n) regs -> reg regs r = Ok s -> fresh n s.
Proof.
  intros F H. unfold reg in H. destruct regs as [|x regs']; [discriminate|].
  rewrite Forall_forall in F. apply F. eapply get_In; eassumption.
Qed.

Lemma pstep_keeps n base m regs o m' regs' :
  keeps n base m -> Forall (fresh n) regs -> pstep m regs o = Ok (m', regs') ->
  keeps n base m' /\ Forall (fresh n) regs'.
Proof.
  intros K F H. destruct o as [r a b | r xs | r q | r a x]; cbn [pstep] in H.
  - inv_bind H. inv_bind H. inv_bind H. inversion H; subst. split; [exact K |].
    apply Forall_snoc; [exact F | eapply sl_sub_fresh; [eassumption | eapply reg_fresh; eassumption]].
  - inv_bind H. inv_bind H. destruct a0 as [m1 s1]. inversion H; subst. cbn.
    destruct (sl_append_keeps n base _ _ _ _ _ K (reg_fresh _ _ _ _ F E) E0) as [K1 F1].
    split; [exact K1 | apply Forall_snoc; assumption].
  - inv_bind H. inv_bind H. inv_bind H. inv_bind H. destruct a2 as [m1 s1]. inversion H; subst. cbn.
    destruct (sl_append_keeps n base _ _ _ _ _ K (reg_fresh _ _ _ _ F E) E2) as [K1 F1].
    split; [exact K1 | apply Forall_snoc; assumption].
  - inv_bind H. destruct (sl_len a0 =? 0).
    + inversion H; subst. split; assumption.
    + inv_bind H. inversion H; subst. split; [| exact F].
      eapply sl_set_keeps; [exact K | eapply reg_fresh; eassumption | eassumption].
Qed.

Lemma prun_keeps n base : forall p m regs m' regs',
  keeps n base m -> Forall (fresh n) regs -> prun m regs p = Ok (m', regs') ->
  keeps n base m' /\ Forall (fresh n) regs'.
Proof.
  induction p as [|o p IH]; intros m regs m' regs' K F H; cbn [prun] in H.
  - inversion H; subst. split; assumption.
  - destruct regs as [|s0 regs0].
    + inversion H; subst. split; assumption.
    + inv_bind H. destruct a as [m1 regs1]. cbn [fst snd] in H.
      destruct (pstep_keeps _ _ _ _ _ _ _ K F E) as [K1 F1]. eapply IH; eassumption.
Qed.

(* ---- the theorems ---- *)

Lemma keeps_all base m : keeps (length base) base m -> firstn (length base) m = base.
Proof. intros [_ He]. rewrite He. apply firstn_all. Qed.

Theorem lines_never_alias_proof : forall ovf m ch ml mx wc sw ts m1 lines ov prog m2 regs,
  chars_lines ovf true m ch ml mx wc sw ts = Ok (m1, lines, ov) ->
  prun m1 lines prog = Ok (m2, regs) ->
  firstn (length m) m2 = m /\
  forall it, sl_cell (ch_sl it) < length m -> chars_text m2 it = chars_text m it.
Proof.
  intros ovf m ch ml mx wc sw ts m1 lines ov prog m2 regs HL HP.
  destruct (chars_lines_keeps ovf _ _ _ _ _ _ _ _ _ _ _ _ (keeps_refl _ m (le_n _)) HL) as [K1 F1].
  destruct (prun_keeps _ _ _ _ _ _ _ K1 F1 HP) as [K2 _].
  split; [apply keeps_all; exact K2 |].
  intros it Hit. unfold chars_text. eapply keeps_read; eassumption.
Qed.

Theorem display_never_writes_item_proof : forall ovf m ch wrap ml mx wc sw ts m1 lines ov prog m2 regs,
  item_lines ovf true m ch wrap ml mx wc sw ts = Ok (m1, lines, ov) ->
  prun m1 lines prog = Ok (m2, regs) ->
  firstn (length m) m2 = m /\
  forall it, sl_cell (ch_sl it) < length m -> chars_text m2 it = chars_text m it.
Proof.
  intros ovf m ch wrap ml mx wc sw ts m1 lines ov prog m2 regs HL HP.
  destruct (item_lines_keeps ovf _ _ _ _ _ _ _ _ _ _ _ _ _ (keeps_refl _ m (le_n _)) HL) as [K1 F1].
  destruct (prun_keeps _ _ _ _ _ _ _ K1 F1 HP) as [K2 _].
  split; [apply keeps_all; exact K2 |].
  intros it Hit. unfold chars_text. eapply keeps_read; eassumption.
Qed.

(* the byte representation is safe even without the copy: ToRunes converts into a fresh array *)
Theorem bytes_never_alias_proof : forall m ch m1 rs prog m2 regs,
  ch_bytes ch = true -> chars_to_runes m ch = Ok (m1, rs) -> prun m1 [rs] prog = Ok (m2, regs) ->
  firstn (length m) m2 = m.
Proof.
  intros m ch m1 rs prog m2 regs Hb HR HP. unfold chars_to_runes in HR. rewrite Hb in HR.
  destruct (copy_runes_keeps _ _ _ _ _ _ (keeps_refl _ m (le_n _)) HR) as [K1 F1].
  assert (FF : Forall (fresh (length m)) [rs]) by (constructor; [exact F1 | constructor]).
  destruct (prun_keeps _ _ _ _ _ _ _ K1 FF HP) as [K2 _]. apply keeps_all; exact K2.
Qed.

(* Without the copy the rune representation IS reachable: item "héllo world" (11 runes in an array of 12), one line,
   the holder does what printHighlighted does to a line that is too wide: append(line[:4], '·', '·'). *)
Definition alias_mem : tmem := [[104; 233; 108; 108; 111; 32; 119; 111; 114; 108; 100; 0]%Z].
Definition alias_item : chars := mkChars false (mkSl 0 0 11).
Definition alias_prog : list pop := [PSub 0 0 4; PApp 1 [183; 183]%Z].

Theorem display_alias_refuted_proof :
  exists m1 lines ov m2 regs,
    item_lines simple_ovf false alias_mem alias_item false true 10%Z 0%Z 2%Z 8%Z = Ok (m1, lines, ov) /\
    prun m1 lines alias_prog = Ok (m2, regs) /\
    chars_text alias_mem alias_item = Ok [104; 233; 108; 108; 111; 32; 119; 111; 114; 108; 100]%Z /\
    chars_text m2 alias_item = Ok [104; 233; 108; 108; 183; 183; 119; 111; 114; 108; 100]%Z.
Proof.
  do 5 eexists. split; [vm_compute; reflexivity|]. split; [vm_compute; reflexivity|].
  split; vm_compute; reflexivity.
Qed.

(* ---------------------------------------------------------------- the display-side spec means what it says *)
From Fzf Require Import DisplaySpec.
Open Scope Z_scope.

Lemma prefixb_iff q : forall t, prefixb q t = true <-> exists b, t = q ++ b.
Proof.
  induction q as [|x q IH]; intro t; cbn.
  - split; [intros _; exists t; reflexivity | reflexivity].
  - destruct t as [|y t]; cbn.
    + split; [discriminate | intros [b Hb]; discriminate].
    + rewrite andb_true_iff, Z.eqb_eq, IH. split.
      * intros [-> [b ->]]. exists b; reflexivity.
      * intros [b Hb]. inversion Hb; subst. split; [reflexivity | exists b; reflexivity].
Qed.

Theorem contains_iff_proof : forall q t, contains q t = true <-> exists a b, t = a ++ q ++ b.
Proof.
  intros q t; induction t as [|y t IH]; cbn [contains]; rewrite orb_true_iff, prefixb_iff.
  - split.
    + intros [[b Hb] | H]; [exists [], b; exact Hb | discriminate].
    + intros [a [b H]]. left. destruct a; [exists b; exact H | discriminate].
  - rewrite IH. split.
    + intros [[b Hb] | [a [b Hb]]]; [exists [], b; exact Hb | exists (y :: a), b; rewrite Hb; reflexivity].
    + intros [a [b H]]. destruct a as [|z a]; [left; exists b; exact H | right].
      inversion H; subst. exists a, b; reflexivity.
Qed.

Theorem substr_filter_spec_proof : forall q items first i,
  In i (substr_filter q first items) <->
  exists k t, nth_error items k = Some t /\ i = first + Z.of_nat k /\ contains q t = true.
Proof.
  intros q items; induction items as [|t r IH]; intros first i; cbn [substr_filter].
  - split; [intros [] | intros [k [t [H _]]]; destruct k; discriminate].
  - assert (R : In i (substr_filter q (first + 1) r) <->
                exists k t0, nth_error r k = Some t0 /\ i = first + Z.of_nat (S k) /\ contains q t0 = true).
    { rewrite IH. split; intros [k [t0 [H1 [H2 H3]]]]; exists k, t0; repeat split; auto; lia. }
    destruct (contains q t) eqn:C.
    + cbn [In]. rewrite R. split.
      * intros [<- | [k [t0 [H1 [H2 H3]]]]]; [exists 0%nat, t; cbn; repeat split; auto; lia | exists (S k), t0; auto].
      * intros [k [t0 [H1 [H2 H3]]]]. destruct k as [|k]; [left; cbn in H2; lia | right; exists k, t0; auto].
    + rewrite R. split.
      * intros [k [t0 [H1 [H2 H3]]]]. exists (S k), t0; auto.
      * intros [k [t0 [H1 [H2 H3]]]]. destruct k as [|k]; [cbn in H1; inversion H1; subst; congruence | exists k, t0; auto].
Qed.

Theorem changed_items_none_proof : forall orig reported,
  changed_items orig reported = [] <->
  forall i t, In (i, t) reported -> 0 <= i /\ nth_error orig (Z.to_nat i) = Some t.
Proof.
  intros orig reported; induction reported as [|[i t] r IH]; cbn [changed_items].
  - split; [intros _ i t [] | reflexivity].
  - destruct (i <? 0) eqn:Neg.
    + split; [discriminate |]. intro H. destruct (H i t (or_introl eq_refl)) as [H0 _]. apply Z.ltb_lt in Neg. lia.
    + apply Z.ltb_ge in Neg. destruct (nth_error orig (Z.to_nat i)) as [o|] eqn:N.
      * destruct (str_eqb o t) eqn:S.
        -- apply str_eqb_eq in S; subst o. rewrite IH. split.
           ++ intros H j u [E | Hin]; [inversion E; subst; split; assumption | apply H; exact Hin].
           ++ intros H j u Hin. apply H. right; exact Hin.
        -- split; [discriminate |]. intro H. destruct (H i t (or_introl eq_refl)) as [_ H1].
           rewrite N in H1. inversion H1; subst. assert (str_eqb t t = true) by (apply str_eqb_eq; reflexivity). congruence.
      * split; [discriminate |]. intro H. destruct (H i t (or_introl eq_refl)) as [_ H1]. rewrite N in H1. discriminate.
Qed.
