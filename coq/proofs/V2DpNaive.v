(* C03: the naive dynamic programme of spec/AlgoSpec.v as a pointwise recurrence.
   N i c = cell (row i, column c) of the naive DP over the whole text;
   row 0 obeys [ncell0], row i+1 obeys [ncell] (diag = N i (c-1), left = N (i+1) (c-1)). *)
From Fzf Require Import Prelude AlgoSpec AlgoModel V2Facts.
Open Scope Z_scope.

(* ---------- list utilities ---------- *)

Lemma skipn_cons_nth {A} (d : A) : forall k (l : list A) x r,
  skipn k l = x :: r -> nth k l d = x /\ skipn (S k) l = r.
Proof.
  induction k as [|k IH]; intros l x r H.
  - destruct l as [|a l]; cbn in H; [discriminate|]. inversion H; subst. split; reflexivity.
  - destruct l as [|a l]; [cbn in H; discriminate|]. cbn [skipn] in H.
    destruct (IH l x r H) as [H1 H2]. split; [exact H1|exact H2].
Qed.

Lemma skipn_nil_len {A} : forall k (l : list A), skipn k l = [] -> (length l <= k)%nat.
Proof.
  induction k as [|k IH]; intros l H.
  - cbn in H. subst. cbn. lia.
  - destruct l as [|a l]; [cbn; lia|]. cbn [skipn] in H. apply IH in H. cbn [length]. lia.
Qed.

(* the match part of one DP cell, shared by the naive DP and the window DP:
   hd/cd = H/C of the diagonal cell, b = bonus of this column, fb = bonus of the first character of
   the consecutive run, s2 = score of extending the gap (None: impossible) *)
Definition mstep (hd cd b fb : Z) (s2 : option Z) : Z * Z :=
  let s1 := hd + scoreMatch in
  let cn := cd + 1 in
  let bc := if 1 <? cn then
              if (bonusBoundary <=? b) && (fb <? b) then (b, 1)
              else (Z.max b (Z.max bonusConsecutive fb), cn)
            else (b, cn) in
  match s2 with
  | Some g => if s1 + fst bc <? g then (s1 + b, 0) else (s1 + fst bc, snd bc)
  | None => (s1 + fst bc, snd bc)
  end.

Section Naive.
Variable co : char_ops.
Variable sc : scheme.
Variables cs nm : bool.

Notation fold := (fold co cs nm).
Notation bonus_at := (bonus_at co sc).

Definition ncell (p c : Z) (j : nat) (full : list Z) (diag left : cell) : cell :=
  let s2 := opt_add (c_h left) (if c_gap left then scoreGapExt else scoreGapStart) in
  let m := if fold c =? p then
             match c_h diag with
             | Some d => Some (mstep d (c_cons diag) (bonus_at full j)
                                     (bonus_at full (j + 1 - Z.to_nat (c_cons diag + 1))%nat) s2)
             | None => None
             end
           else None in
  match m, s2 with
  | Some (s1, cn), Some g => mkCell (Some (Z.max (Z.max s1 g) 0)) cn (s1 <? g)
  | Some (s1, cn), None => mkCell (Some (Z.max s1 0)) cn false
  | None, Some g => mkCell (Some (Z.max g 0)) 0 (0 <? g)
  | None, None => none_cell
  end.

Definition ncell0 (p0 c : Z) (j : nat) (full : list Z) (left : cell) : cell :=
  if fold c =? p0 then mkCell (Some (scoreMatch + 2 * bonus_at full j)) 1 false
  else mkCell (match c_h left with
               | Some z => Some (Z.max (z + (if c_gap left then scoreGapExt else scoreGapStart)) 0)
               | None => None
               end) 0 true.

Lemma dp_row_cons c rest p j full prow diag left :
  dp_row co sc cs nm (c :: rest) p j full prow diag left =
  ncell p c j full diag left ::
  dp_row co sc cs nm rest p (S j) full (tl prow) (match prow with d :: _ => d | [] => none_cell end)
         (ncell p c j full diag left).
Proof.
  cbn [dp_row]. unfold ncell, mstep.
  destruct (fold c =? p); [|reflexivity].
  destruct (c_h diag) as [d|]; [|reflexivity].
  destruct (opt_add (c_h left) (if c_gap left then scoreGapExt else scoreGapStart)) as [g|]; [|reflexivity].
  destruct (1 <? c_cons diag + 1).
  - destruct ((bonusBoundary <=? bonus_at full j) &&
              (bonus_at full (j + 1 - Z.to_nat (c_cons diag + 1)) <? bonus_at full j)); cbn [fst snd];
      match goal with |- context [if ?b then _ else _] => destruct b end; reflexivity.
  - cbn [fst snd]. match goal with |- context [if ?b then _ else _] => destruct b end; reflexivity.
Qed.

Lemma dp_row_length p full : forall rest j prow diag left,
  length (dp_row co sc cs nm rest p j full prow diag left) = length rest.
Proof.
  induction rest as [|c rest IH]; intros; [reflexivity|].
  rewrite dp_row_cons. cbn [length]. now rewrite IH.
Qed.

Lemma dp_row_nth p full : forall rest j0 prow diag left k, (k < length rest)%nat ->
  nth k (dp_row co sc cs nm rest p j0 full prow diag left) none_cell =
  ncell p (nth k rest 0) (j0 + k) full
        (match k with O => diag | S k' => nth k' prow none_cell end)
        (match k with O => left | S k' => nth k' (dp_row co sc cs nm rest p j0 full prow diag left) none_cell end).
Proof.
  induction rest as [|c rest IH]; intros j0 prow diag left k Hk; [cbn in Hk; lia|].
  rewrite dp_row_cons. destruct k as [|k].
  - cbn [nth]. now rewrite Nat.add_0_r.
  - cbn [nth]. cbn [length] in Hk. rewrite IH by lia.
    replace (S j0 + k)%nat with (j0 + S k)%nat by lia.
    f_equal.
    destruct prow as [|d prow]; destruct k as [|[|k]]; reflexivity.
Qed.

Lemma dp_row0_cons c rest p0 j full (left : cell) :
  dp_row0 co sc cs nm (c :: rest) p0 j full (c_h left) (c_gap left) =
  ncell0 p0 c j full left ::
  dp_row0 co sc cs nm rest p0 (S j) full (c_h (ncell0 p0 c j full left)) (c_gap (ncell0 p0 c j full left)).
Proof.
  cbn [dp_row0]. unfold ncell0. destruct (fold c =? p0); reflexivity.
Qed.

Lemma dp_row0_length p0 full : forall rest j prev g,
  length (dp_row0 co sc cs nm rest p0 j full prev g) = length rest.
Proof.
  induction rest as [|c rest IH]; intros; [reflexivity|].
  cbn [dp_row0]. destruct (fold c =? p0); cbn [length]; now rewrite IH.
Qed.

Lemma dp_row0_nth p0 full : forall rest j0 (left : cell) k, (k < length rest)%nat ->
  nth k (dp_row0 co sc cs nm rest p0 j0 full (c_h left) (c_gap left)) none_cell =
  ncell0 p0 (nth k rest 0) (j0 + k) full
         (match k with O => left
                  | S k' => nth k' (dp_row0 co sc cs nm rest p0 j0 full (c_h left) (c_gap left)) none_cell end).
Proof.
  induction rest as [|c rest IH]; intros j0 left k Hk; [cbn in Hk; lia|].
  rewrite dp_row0_cons. destruct k as [|k].
  - cbn [nth]. now rewrite Nat.add_0_r.
  - cbn [nth]. cbn [length] in Hk. rewrite IH by lia.
    replace (S j0 + k)%nat with (j0 + S k)%nat by lia.
    reflexivity.
Qed.

(* ---------- rows indexed by the pattern position ---------- *)

Variable text : list Z.
Variable pat : list Z.

Fixpoint nrow (i : nat) : list cell :=
  match i with
  | O => dp_row0 co sc cs nm text (zn pat 0) 0%nat text None false
  | S i' => dp_row co sc cs nm text (zn pat i) 0%nat text (nrow i') none_cell none_cell
  end.

Definition N (i c : nat) : cell := nth c (nrow i) none_cell.

Lemma nrow_length i : length (nrow i) = length text.
Proof. destruct i; cbn [nrow]; [apply dp_row0_length|apply dp_row_length]. Qed.

Lemma N_0 c : (c < length text)%nat ->
  N 0 c = ncell0 (zn pat 0) (zn text c) c text (match c with O => none_cell | S c' => N 0 c' end).
Proof.
  intros Hc. unfold N. cbn [nrow].
  change (dp_row0 co sc cs nm text (zn pat 0) 0%nat text None false)
    with (dp_row0 co sc cs nm text (zn pat 0) 0%nat text (c_h none_cell) (c_gap none_cell)).
  rewrite dp_row0_nth by exact Hc. reflexivity.
Qed.

Lemma N_S i c : (c < length text)%nat ->
  N (S i) c = ncell (zn pat (S i)) (zn text c) c text
                    (match c with O => none_cell | S c' => N i c' end)
                    (match c with O => none_cell | S c' => N (S i) c' end).
Proof.
  intros Hc. unfold N. cbn [nrow]. rewrite dp_row_nth by exact Hc. reflexivity.
Qed.

Lemma N_S_pos i c : (0 < c < length text)%nat ->
  N (S i) c = ncell (zn pat (S i)) (zn text c) c text (N i (c - 1)) (N (S i) (c - 1)).
Proof.
  intros Hc. rewrite N_S by lia. destruct c as [|c]; [lia|].
  replace (S c - 1)%nat with c by lia. reflexivity.
Qed.

Lemma dp_rows_nrow : forall ps k, ps = skipn (S k) pat ->
  dp_rows co sc cs nm text ps (nrow k) = nrow (k + length ps).
Proof.
  induction ps as [|p ps IH]; intros k Hps.
  - cbn. now rewrite Nat.add_0_r.
  - symmetry in Hps. destruct (skipn_cons_nth 0 _ _ _ _ Hps) as [Hp Hr].
    cbn [dp_rows length]. replace (k + S (length ps))%nat with (S k + length ps)%nat by lia.
    rewrite <- IH by (symmetry; exact Hr). cbn [nrow]. unfold zn. rewrite Hp. reflexivity.
Qed.

Lemma naive_last_row_nrow : pat <> [] ->
  naive_last_row co sc cs nm text pat = nrow (length pat - 1).
Proof.
  intros Hp. destruct pat as [|p0 pat'] eqn:E; [congruence|].
  unfold naive_last_row. rewrite <- E.
  assert (H0 : dp_row0 co sc cs nm text p0 0%nat text None false = nrow 0).
  { cbn [nrow]. rewrite E. reflexivity. }
  rewrite H0. rewrite (dp_rows_nrow pat' 0) by (rewrite E; reflexivity).
  rewrite E. cbn [length]. f_equal. lia.
Qed.

End Naive.
