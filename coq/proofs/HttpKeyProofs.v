(* C16 proofs, third part: the EXACT key, from the environment to the answers of the listener.
   - strings.TrimSpace is idempotent (trim_space_idem): what a header presents has no white space at its ends;
   - whatever the framing, the key a request presents is such a trimmed value (presented_trimmed);
   - hence a configured key with white space at an end (blank-only keys included) is never matched: every
     request is refused, nothing is executed, nothing revealed (unpresentable_key_refused);
   - startHttpServer as a whole (serve): the listener holds FZF_API_KEY byte for byte, so a request is served
     only when it presents exactly the value of the variable, and a non-local listener only exists with a
     non-empty value (configured_key_enforced, remote_listener_exact_key). *)
From Fzf Require Import Prelude HttpSpec HttpModel HttpProofs.
Open Scope Z_scope.

(* ------------------------------------------------------------------ *)
(* trim_left_f: result is clean, clean strings are fixed points         *)
(* ------------------------------------------------------------------ *)

Definition lclean (seqs : list str) (s : str) : Prop :=
  match s with
  | [] => True
  | c :: _ => ascii_space c = false /\ strip_any seqs s = None
  end.

Definition all_nonempty (seqs : list str) : Prop := Forall (fun q : str => q <> []) seqs.

Lemma strip_any_shorter seqs c t r : all_nonempty seqs ->
  strip_any seqs (c :: t) = Some r -> (length r <= length t)%nat.
Proof.
  intro N. induction N as [|q seqs Q N IH]; [discriminate|]. cbn [strip_any].
  destruct (prefixb q (c :: t)).
  - intro H; inversion H; subst r. destruct q as [|x q]; [contradiction|].
    cbn [length skipn]. rewrite skipn_length. lia.
  - exact IH.
Qed.

Lemma trim_left_f_clean seqs : all_nonempty seqs ->
  forall f s, (length s <= f)%nat -> lclean seqs (trim_left_f seqs f s).
Proof.
  intros N f. induction f as [|f IH]; intros s L.
  - destruct s; [exact I|cbn in L; lia].
  - cbn [trim_left_f]. destruct s as [|c t]; [exact I|]. cbn [length] in L.
    destruct (ascii_space c) eqn:A.
    + apply IH. lia.
    + destruct (strip_any seqs (c :: t)) as [r|] eqn:St.
      * apply IH. pose proof (strip_any_shorter _ _ _ _ N St). lia.
      * cbn [lclean]. auto.
Qed.

Lemma trim_left_f_fix seqs f s : lclean seqs s -> trim_left_f seqs f s = s.
Proof.
  intro C. destruct f as [|f]; [reflexivity|]. cbn [trim_left_f].
  destruct s as [|c t]; [reflexivity|]. cbn [lclean] in C. destruct C as [A St]. now rewrite A, St.
Qed.

Lemma prefixb_app q a b : prefixb q a = true -> prefixb q (a ++ b) = true.
Proof.
  revert a; induction q as [|x q IH]; intros a H; [reflexivity|].
  destruct a as [|y a]; [discriminate|]. cbn in *.
  apply andb_true_iff in H as [H1 H2]. rewrite H1. cbn. now apply IH.
Qed.

Lemma strip_any_none_prefix seqs a b : strip_any seqs (a ++ b) = None -> strip_any seqs a = None.
Proof.
  induction seqs as [|q seqs IH]; [reflexivity|]. cbn [strip_any].
  destruct (prefixb q a) eqn:P.
  - rewrite (prefixb_app _ _ b P). discriminate.
  - destruct (prefixb q (a ++ b)); [discriminate|]. exact IH.
Qed.

Lemma lclean_prefix seqs a b : lclean seqs (a ++ b) -> lclean seqs a.
Proof.
  destruct a as [|c a]; [intros _; exact I|]. cbn [app lclean]. intros [A St]. split; [exact A|].
  now apply strip_any_none_prefix with (b := b).
Qed.

Lemma uspace_nonempty : all_nonempty uspace_seqs.
Proof. unfold all_nonempty, uspace_seqs. repeat constructor; discriminate. Qed.

Lemma ruspace_nonempty : all_nonempty (map frev uspace_seqs).
Proof. unfold all_nonempty. cbn. repeat constructor; discriminate. Qed.

Lemma frev_length s : length (frev s) = length s.
Proof. rewrite frev_rev. apply rev_length. Qed.

Lemma frev_invol s : frev (frev s) = s.
Proof. rewrite !frev_rev. apply rev_involutive. Qed.

(* what trim_space returns: clean on the left, and its reverse clean with respect to the reversed sequences *)
Lemma trim_space_clean v :
  lclean uspace_seqs (trim_space v) /\ lclean (map frev uspace_seqs) (frev (trim_space v)).
Proof.
  unfold trim_space, trim_right.
  set (u := trim_left v).
  assert (Cu : lclean uspace_seqs u).
  { unfold u, trim_left. apply trim_left_f_clean; [exact uspace_nonempty|lia]. }
  set (w' := trim_left_f (map frev uspace_seqs) (length u) (frev u)).
  assert (Cw : lclean (map frev uspace_seqs) w').
  { unfold w'. apply trim_left_f_clean; [exact ruspace_nonempty|]. rewrite frev_length. lia. }
  split.
  - destruct (trim_left_f_suffix (map frev uspace_seqs) (length u) (frev u)) as [a E]. fold w' in E.
    assert (U : u = frev w' ++ frev a).
    { rewrite <- (frev_invol u), E. rewrite !frev_rev. apply rev_app_distr. }
    rewrite U in Cu. now apply lclean_prefix in Cu.
  - now rewrite frev_invol.
Qed.

Theorem trim_space_idem v : trim_space (trim_space v) = trim_space v.
Proof.
  destruct (trim_space_clean v) as [C1 C2]. set (w := trim_space v) in *.
  unfold trim_space at 1. unfold trim_left. rewrite (trim_left_f_fix _ _ _ C1).
  unfold trim_right. rewrite (trim_left_f_fix _ _ _ C2). apply frev_invol.
Qed.

(* ------------------------------------------------------------------ *)
(* the key a request presents is a trimmed value, whatever the framing  *)
(* ------------------------------------------------------------------ *)

Definition key_trimmed (h : hstate) : Prop := exists v, h_key h = trim_space v.

Lemma key_trimmed_h0 : key_trimmed h0.
Proof. exists []. reflexivity. Qed.

Lemma header_line_trimmed h t h' : header_line h t = Some h' -> key_trimmed h -> key_trimmed h'.
Proof.
  unfold header_line. intros H Kt.
  destruct (split_first 58 t) as [[n v]|]; [|now inversion H; subst].
  destruct (str_eqb (lower_name n) S_CONTENT_LENGTH).
  - destruct (atoi (trim_space v)); [|discriminate].
    destruct ((1 <=? z) && (z <=? MAX_CONTENT_LENGTH)); [|discriminate]. now inversion H; subst.
  - destruct (str_eqb (lower_name n) S_X_API_KEY); [|now inversion H; subst].
    inversion H; subst. now exists v.
Qed.

Lemma process_trimmed p t : key_trimmed (p_h p) ->
  match process p t with
  | PCont p' | PBreak p' => key_trimmed (p_h p')
  | PEarly _ => True
  end.
Proof.
  intro Kt. unfold process. destruct (p_section p) as [|[|n]].
  - destruct (get_match t); [exact Kt|]. destruct (prefixb S_POST t); [exact Kt|exact I].
  - destruct (str_eqb t CRLF).
    + destruct (p_get p); [exact Kt|]. destruct (h_clen (p_h p) =? 0); [exact I|exact Kt].
    + destruct (header_line (p_h p) t) as [h'|] eqn:HL; [|exact I].
      cbn [p_h]. eapply header_line_trimmed; eauto.
  - exact Kt.
Qed.

Lemma runs_trimmed S p r : runs S p r -> key_trimmed (p_h p) ->
  match r with inl p' => key_trimmed (p_h p') | inr _ => True end.
Proof.
  induction 1 as [S p|S p t x ES F|S p l S' C NP|S p l S' p' r C P R IH]; intro Kt.
  - exact Kt.
  - pose proof (process_trimmed p t Kt) as Hp. unfold after. now destruct (process p t).
  - pose proof (process_trimmed p (l ++ CRLF) Kt) as Hp. unfold after. now destruct (process p (l ++ CRLF)).
  - pose proof (process_trimmed p (l ++ CRLF) Kt) as Hp. rewrite P in Hp. now apply IH.
Qed.

Theorem presented_trimmed_proof : forall chunks k,
  provided_key chunks = Ok (Some k) -> trim_space k = k.
Proof.
  intros chunks k H. unfold provided_key in H.
  destruct (scan_all chunks) as [r|e] eqn:Hr; [|discriminate]. cbn [bind] in H.
  destruct r as [p|m]; [|discriminate]. inversion H; subst k.
  apply scan_all_runs in Hr. apply runs_trimmed in Hr; [|exact key_trimmed_h0].
  destruct Hr as [v ->]. apply trim_space_idem.
Qed.

(* ------------------------------------------------------------------ *)
(* a key nobody can present locks everybody out                         *)
(* ------------------------------------------------------------------ *)

Theorem unpresentable_key_refused_proof : forall key state parse ready chunks o,
  key <> [] -> key_presentable key = false ->
  handle key state parse ready chunks = Ok o ->
  o_actions o = None /\ o_get o = None /\ (o_code o = 400 \/ o_code o = 401).
Proof.
  intros key state parse ready chunks o Kn Np H.
  assert (Pk : provided_key chunks <> Ok (Some key)).
  { intro E. apply presented_trimmed_proof in E. unfold key_presentable in Np.
    rewrite E in Np. assert (T : str_eqb key key = true) by now apply str_eqb_eq. congruence. }
  destruct (auth_proof _ _ _ _ _ _ Kn H Pk) as (A & G & C). split; [exact A|]. split; [exact G|].
  revert C. destruct (provided_key chunks) as [[k|]|e]; intro C;
    [subst o; right; reflexivity|left; exact C|left; exact C].
Qed.

(* ------------------------------------------------------------------ *)
(* from FZF_API_KEY to the answers of the listener                      *)
(* ------------------------------------------------------------------ *)

Lemma serve_inv a envkey state parse ready chunks o :
  serve a envkey state parse ready chunks = Ok (Some o) ->
  (exists h p, start_decision a envkey = StartListen h p) /\ handle envkey state parse ready chunks = Ok o.
Proof.
  unfold serve, stored_key. destruct (start_decision a envkey) as [|h p|r] eqn:D; try discriminate.
  destruct (handle envkey state parse ready chunks) as [o'|e]; [|discriminate].
  cbn [bind]. intro H; inversion H; subst. eauto.
Qed.

(* With FZF_API_KEY set to anything but the empty string, a request that does not present exactly that value
   gets nothing executed and nothing revealed - 401, or a 400 if it was refused before the key mattered. *)
Theorem configured_key_enforced_proof : forall a envkey state parse ready chunks o,
  envkey <> [] ->
  serve a envkey state parse ready chunks = Ok (Some o) ->
  provided_key chunks <> Ok (Some envkey) ->
  o_actions o = None /\ o_get o = None /\ (o_code o = 400 \/ o_code o = 401).
Proof.
  intros a envkey state parse ready chunks o Kn H Pk.
  apply serve_inv in H as [_ H].
  destruct (auth_proof _ _ _ _ _ _ Kn H Pk) as (A & G & C). split; [exact A|]. split; [exact G|].
  revert C. destruct (provided_key chunks) as [[k|]|e]; intro C;
    [subst o; right; reflexivity|left; exact C|left; exact C].
Qed.

(* A listener on anything but localhost / 127.0.0.1: whatever FZF_API_KEY holds, a request that gets an action
   executed or the state revealed has presented exactly the value of the variable, and that value is neither
   empty nor white space at either end (so in particular not blank). *)
Theorem remote_listener_exact_key_proof : forall a host port envkey state parse ready chunks o,
  parse_listen_address a = LOk host port -> is_local host = false ->
  serve a envkey state parse ready chunks = Ok (Some o) ->
  o_actions o <> None \/ o_get o <> None ->
  envkey <> [] /\ provided_key chunks = Ok (Some envkey) /\ key_presentable envkey = true.
Proof.
  intros a host port envkey state parse ready chunks o P L H Through.
  destruct (serve_inv _ _ _ _ _ _ _ H) as [(h & p & D) Hh].
  assert (Kn : envkey <> []) by exact (proj2 (remote_needs_key_proof a host port P L) envkey h p D).
  assert (Pk : provided_key chunks = Ok (Some envkey)).
  { destruct (provided_key chunks) as [[k|]|e] eqn:E.
    - destruct (list_eq_dec Z.eq_dec k envkey) as [->|Ne]; [reflexivity|].
      assert (Pk : provided_key chunks <> Ok (Some envkey)) by (rewrite E; congruence).
      destruct (auth_proof _ _ _ _ _ _ Kn Hh Pk) as (A & G & _). destruct Through; contradiction.
    - assert (Pk : provided_key chunks <> Ok (Some envkey)) by (rewrite E; congruence).
      destruct (auth_proof _ _ _ _ _ _ Kn Hh Pk) as (A & G & _). destruct Through; contradiction.
    - assert (Pk : provided_key chunks <> Ok (Some envkey)) by (rewrite E; congruence).
      destruct (auth_proof _ _ _ _ _ _ Kn Hh Pk) as (A & G & _). destruct Through; contradiction. }
  split; [exact Kn|]. split; [exact Pk|].
  unfold key_presentable. rewrite (presented_trimmed_proof _ _ Pk). now apply str_eqb_eq.
Qed.
