(* C06 proofs, part 5: the listing of `--filter Q` under --nth / --with-nth is decided record by record. *)
From Fzf Require Import Prelude FieldSpec RecordSpec RecordNthSpec ReaderProofs.
Open Scope Z_scope.

Lemma filter_true {A} (l : list A) : filter (fun _ => true) l = l.
Proof. induction l as [|x l IH]; cbn; [reflexivity|]. rewrite IH. reflexivity. Qed.

Lemma filter_rev' {A} (p : A -> bool) (l : list A) : filter p (rev l) = rev (filter p l).
Proof.
  induction l as [|x l IH]; [reflexivity|].
  cbn [rev]. rewrite filter_app, IH. cbn [filter]. destruct (p x); cbn [rev]; [reflexivity|apply app_nil_r].
Qed.

Lemma contains_nil (s : str) : contains [] s = true.
Proof. destruct s; reflexivity. Qed.

Lemma filter_numbered (p : str -> bool) : forall rs k,
  map snd (filter (fun it : item => p (snd it)) (number_from k rs)) = filter p rs.
Proof.
  induction rs as [|r rs IH]; intro k; [reflexivity|].
  cbn [number_from filter snd]. destruct (p r); cbn [map snd]; rewrite IH; reflexivity.
Qed.

(* an item is listed iff it is searchable and ITS OWN record is found *)
Theorem query_listing_in_proof : forall read0 tac hl tail d sc q s it,
  In it (query_listing read0 tac hl tail d sc q s) <->
  In it (filter_listing read0 tac hl tail s) /\ found d sc q (snd it) = true.
Proof. intros. unfold query_listing. apply filter_In. Qed.

(* --tac reverses the listing, nothing else *)
Theorem query_listing_tac_proof : forall read0 hl tail d sc q s,
  query_listing read0 true hl tail d sc q s = rev (query_listing read0 false hl tail d sc q s).
Proof. intros. unfold query_listing, filter_listing. apply filter_rev'. Qed.

(* the empty query on the whole record lists every searchable item *)
Theorem query_listing_empty_proof : forall read0 tac hl tail d s,
  query_listing read0 tac hl tail d SWhole [] s = filter_listing read0 tac hl tail s.
Proof.
  intros. unfold query_listing, found, searched. cbn [existsb].
  erewrite filter_ext; [apply filter_true|].
  intro it. rewrite contains_nil. reflexivity.
Qed.

(* record-locality: writing the records rs one after the other, what is listed is exactly the records that
   are found on their own, in order - no record's verdict depends on any other record of the stream *)
Theorem query_listing_record_local_proof : forall read0 d sc q rs,
  Forall (delim_free (delim_of read0)) rs ->
  map snd (query_listing read0 false 0 0 d sc q (terminated (delim_of read0) rs)) = filter (found d sc q) rs.
Proof.
  intros read0 d sc q rs Hrs.
  unfold query_listing, filter_listing, searchable, keep_tail, items_of. cbn [skipn].
  rewrite <- (app_nil_r (terminated (delim_of read0) rs)).
  rewrite split_records_join_proof by (try exact Hrs; constructor).
  rewrite app_nil_r. apply filter_numbered.
Qed.
