(* C08: the coordinator's EvtReadNew / EvtReadFin handler preserves the invariant (one lemma per flat branch). *)
From Fzf Require Import Prelude CoordSpec CoordModel CoordFlat CoordProofs CoordTac.
Open Scope Z_scope.

Lemma inv_read_restart s c : Inv s -> e_fin s = true -> c_next s = Some c -> Inv (coord_read_flat s).
Proof.
  intros H E1 E2. unfold coord_read_flat. rewrite E1, E2, Bool.orb_true_r. simpl.
  destruct H. destruct s. unf. simpl in *. subst.
  constructor.
  all: goal1.
  all: try solve [fin3].
  all: try solve [destruct c_usesnap; simpl in *; try discriminate; arith; intuition lia].
Qed.

(* EvtReadFin without a queued command *)
Lemma inv_read_fin s : Inv s -> e_fin s = true -> c_next s = None -> Inv (coord_read_flat s).
Proof.
  intros H E1 E2. unfold coord_read_flat. rewrite E1, E2, Bool.orb_true_r. simpl.
  destruct H. destruct s. unf. simpl in *. subst.
  rewrite ?Bool.andb_false_r, ?Bool.andb_true_r.
  constructor.
  all: goal1.
  all: try solve [fin3].
  all: try solve [destruct g_dclean; fin3 | exfalso; intuition congruence | destruct g_dclean; exfalso; intuition congruence].
  all: try solve [destruct c_usesnap, g_dclean; simpl in *; try discriminate; exfalso; intuition congruence].
Qed.

(* EvtReadNew *)
Lemma inv_read_new s : Inv s -> e_fin s = false -> e_new s = true -> Inv (coord_read_flat s).
Proof.
  intros H E1 E2. unfold coord_read_flat. rewrite E1, E2. simpl.
  destruct H. destruct s. unf. simpl in *. subst.
  rewrite ?Bool.andb_false_r, ?Bool.andb_true_r.
  constructor.
  all: goal1.
  all: try solve [fin3].
  all: try solve [destruct g_dclean; fin3 | exfalso; intuition congruence | destruct g_dclean; exfalso; intuition congruence].
  all: try solve [destruct c_usesnap, g_dclean; simpl in *; try discriminate; exfalso; intuition congruence].
  all: try solve [destruct c_reading, g_dclean; first [ solve [fin3] | exfalso; simpl in *; intuition congruence ]].
Qed.

Lemma inv_coordread s : Inv s -> Inv (step s LCoordRead).
Proof.
  intro H. unfold step, step_r. rewrite coord_read_flat_eq.
  destruct (e_fin s) eqn:Ef.
  - destruct (c_next s) eqn:En; [eapply inv_read_restart | apply inv_read_fin]; eassumption.
  - destruct (e_new s) eqn:En.
    + now apply inv_read_new.
    + unfold coord_read_flat. rewrite Ef, En. exact H.
Qed.
