(* C08: EvtSearchNew handler, part A: payload transfer, and a residual request without a command. *)
From Fzf Require Import Prelude CoordSpec CoordModel CoordFlat CoordProofs CoordTac.
Open Scope Z_scope.

(* first half of the EvtSearchNew handler: the one-shot payload (sort, denylist, nth) moves into the coordinator's
   variables; what remains of the request is (command, sync, changed) *)
Definition payload (s : st) : st :=
  match e_search s with
  | None => s
  | Some v =>
      let bump1 := nonemptyb (q_deny v) && compat (q_rev v) (c_irev s) in
      set_e_search (Some (mkSreq (q_sort v) (q_sync v) None (q_cmd v) (q_changed v) [] (q_rev v)))
        (set_c_sort (q_sort v)
          (set_c_deny (if bump1 then c_deny s ++ q_deny v else c_deny s)
            (set_c_nth (match q_nth v with Some n => n | None => c_nth s end)
              (set_c_irev (if bump1 || is_some (q_nth v) then bump_minor (c_irev s) else c_irev s) s))))
  end.

Lemma search_after_payload s : coord_search_flat s = coord_search_flat (payload s).
Proof.
  destruct s. unfold payload. simpl. destruct e_search as [v|]; [|reflexivity]. destruct v.
  destruct q_deny, q_nth, q_cmd, c_reading, q_changed, q_sync, c_usesnap, t_paused, cl; norm; reflexivity.
Qed.

Lemma inv_payload s : Inv s -> Inv (payload s).
Proof.
  intro H. unfold payload. destruct (e_search s) as [v|] eqn:E; [|exact H].
  destruct H. destruct s. destruct v. unf. simpl in *. subst.
  constructor.
  all: goal1.
  all: try solve [fin3].
  all: try solve [ try specialize (i_deny eq_refl); destruct q_deny; simpl in *;
                   repeat match goal with H : context[compat ?a ?b] |- _ => destruct (compat a b) end;
                   simpl in *; rewrite ?app_nil_r in *; congruence ].
  all: try solve [ match goal with H : Some _ = Some ?r |- _ => injection H as H; subst r end; simpl in *;
                   intuition ].
  all: try solve [ subst; simpl in *; intuition ].
Qed.

Ltac last1 := solve [destruct g_dclean; fin3 | exfalso; intuition congruence | destruct g_dclean; exfalso; intuition congruence].
Ltac last2 := solve [destruct c_usesnap, g_dclean; simpl in *; try discriminate; exfalso; intuition congruence].
Ltac last3 := solve [destruct c_reading, g_dclean; first [ solve [fin3] | exfalso; simpl in *; intuition congruence ]].
Ltac res_finish :=
  constructor;
  [ goal1 .. ];
  try solve [fin3];
  try last1; try last2; try last3;
  repeat match goal with H : context[if ?b then [] else []] |- _ => destruct b end;
  try solve [ try destruct c_reading; try destruct g_dclean; try destruct c_usesnap; simpl in *;
              first [ solve [fin3] | exfalso; intuition congruence ] ];
  try solve [ try specialize (i_deny eq_refl); try specialize (i_dirty eq_refl); rewrite ?app_nil_r in *;
              first [ congruence | exfalso; intuition congruence | intuition congruence ] ];
  try solve [ destruct q_changed, c_usesnap; simpl in *; try discriminate;
              intuition (try discriminate; try congruence) ].
Ltac res_start H E := unfold coord_search_flat; rewrite E; destruct H;
  match goal with v : sreq |- _ => destruct v end;
  match goal with s : st |- _ => destruct s end; unf; simpl in *; subst; simpl;
  rewrite ?Bool.andb_false_r, ?Bool.andb_true_r, ?Bool.orb_false_r, ?Bool.orb_true_r.

(* second half: the residual request carries no command *)
Lemma inv_search_res_nocmd s v : Inv s -> e_search s = Some v -> q_nth v = None -> q_deny v = [] -> q_cmd v = None ->
  Inv (coord_search_flat s).
Proof.
  intros H E E1 E2 E3. res_start H E.
  constructor.
  all: goal1.
  all: try solve [fin3].
  all: try last1.
  all: try last2.
  all: try last3.
  all: repeat match goal with H : context[if ?b then [] else []] |- _ => destruct b end.
  all: try solve [ try destruct c_reading; try destruct g_dclean; try destruct c_usesnap; simpl in *;
                   first [ solve [fin3] | exfalso; intuition congruence ] ].
  all: try solve [ try specialize (i_deny eq_refl); try specialize (i_dirty eq_refl); rewrite ?app_nil_r in *;
                   first [ congruence | exfalso; intuition congruence | intuition congruence ] ].
  all: try solve [ destruct q_changed, c_usesnap; simpl in *; try discriminate;
                   intuition (try discriminate; try congruence) ].
Qed.
