(* FuzzyMatchV2 phase 4 (back-trace): on a correctly filled matrix the loop never reads an unwritten
   or out-of-range cell, terminates at row 0, and every position it takes is a matching cell. *)
From Fzf Require Import Prelude AlgoSpec AlgoModel V2Facts V2MatrixBase V2MatrixFill.
Open Scope Z_scope.

(* the look-ahead that computes preferMatch *)
Definition p4_pm (C : mat) (F : list nat) (width I j0 j c1 : Z) : res bool :=
  if 1 <? c1 then Ok true
  else if I + width + j0 + 1 <? Z.of_nat (length C) then
    do Fn <- get F (Z.to_nat (I / width) + 1);
    if Z.of_nat Fn <=? j + 1 then
      do c2 <- mget C (I + width + j0 + 1); Ok (0 <? c2)
    else Ok false
  else Ok false.

Lemma p4_S fuel' H C F width f0 M minIdx i j preferMatch pos :
  p4 (S fuel') H C F width f0 M minIdx i j preferMatch pos =
  (let I := Z.of_nat i * width in
   let j0 := j - f0 in
   do s <- mget H (I + j0);
   do Fi <- get F i;
   let Fi := Z.of_nat Fi in
   do s1 <- (if Nat.ltb 0 i && (Fi <=? j) then mget H (I - width + j0 - 1) else Ok 0);
   do s2 <- (if Fi <? j then mget H (I + j0 - 1) else Ok 0);
   let take := (s1 <? s) && ((s2 <? s) || ((s =? s2) && preferMatch)) in
   let pos' := if take then (Z.to_nat (j + Z.of_nat minIdx)) :: pos else pos in
   if take && Nat.eqb i 0 then (if j + Z.of_nat minIdx <? 0 then Err OutOfRange else Ok (pos', j))
   else
     let i' := if take then (i - 1)%nat else i in
     do c1 <- mget C (I + j0);
     do pm <- p4_pm C F width I j0 j c1;
     p4 fuel' H C F width f0 M minIdx i' (j - 1) pm pos').
Proof. reflexivity. Qed.

(* columns taken for rows i, i+1, ..., M-1: ascending from [lo], at most [hi], each a matching cell *)
Fixpoint cols_ok (T pat : list Z) (M : nat) (hi : Z) (i : nat) (lo : Z) (cols : list nat) : Prop :=
  match cols with
  | [] => i = M
  | c :: r => lo <= Z.of_nat c /\ Z.of_nat c <= hi /\ zn T c = zn pat i /\ cols_ok T pat M hi (S i) (Z.of_nat c + 1) r
  end.

Lemma cols_ok_lo T pat M hi i lo lo' cols : lo' <= lo -> cols_ok T pat M hi i lo cols -> cols_ok T pat M hi i lo' cols.
Proof. destruct cols as [|c r]; cbn; [auto|]. intros H (A & B & C & D). repeat split; try assumption. lia. Qed.

Lemma cols_ok_length T pat M hi : forall cols i lo, cols_ok T pat M hi i lo cols -> (i + length cols = M)%nat.
Proof.
  induction cols as [|c r IH]; intros i lo Hc; cbn in *.
  - lia.
  - destruct Hc as (_ & _ & _ & D). specialize (IH _ _ D). lia.
Qed.

Lemma cols_ok_nth T pat M hi : forall cols i lo, cols_ok T pat M hi i lo cols ->
  forall k, (k < length cols)%nat ->
    lo <= Z.of_nat (nth k cols O) <= hi /\ zn T (nth k cols O) = zn pat (i + k) /\
    ((S k < length cols)%nat -> (nth k cols O < nth (S k) cols O)%nat).
Proof.
  induction cols as [|c r IH]; intros i lo Hc k Hk; cbn [length] in Hk; [lia|].
  destruct Hc as (A & B & C & D). destruct k as [|k].
  - cbn [nth]. rewrite Nat.add_0_r. split; [lia|]. split; [exact C|].
    intros Hk'. destruct r as [|c' r']; [cbn in Hk'; lia|]. cbn [nth]. cbn in D. lia.
  - cbn [nth]. destruct (IH _ _ D k ltac:(lia)) as (E1 & E2 & E3).
    split; [lia|]. split; [replace (i + S k)%nat with (S i + k)%nat by lia; exact E2|].
    intros Hk'. apply E3. cbn [length] in Hk'. lia.
Qed.

Section Trace.
Variables (T B : list Z) (F : list nat) (pat : list Z) (M : nat) (width f0 lastIdx : Z).
Hypothesis Hctx : v2ctx T B F pat M width f0 lastIdx.
Variables (H C : mat) (minIdx : nat) (maxPos : Z).
Hypothesis HlC : mlen M width C.

Notation Fz i := (Z.of_nat (nn F i)).
Notation cellz := (cellz width f0).
Notation rows_ok := (rows_ok T F pat width f0 lastIdx).
Notation cols_ok := (cols_ok T pat M maxPos).

Hypothesis Hrows : rows_ok (mc H) (mc C) (M - 1).
Hypothesis HmaxPos : Fz (M - 1) <= maxPos <= lastIdx.

Let Hw := width_pos _ _ _ _ _ _ _ _ Hctx.

Lemma p4_pm_ok i j c1 : (i < M)%nat -> Fz i <= j -> j + Z.of_nat (M - 1 - i) <= maxPos ->
  exists b, p4_pm C F width (Z.of_nat i * width) (j - f0) j c1 = Ok b.
Proof.
  intros Hi Hj Hjm. unfold p4_pm.
  destruct (1 <? c1); [eauto|].
  destruct (Z.ltb_spec (Z.of_nat i * width + width + (j - f0) + 1) (Z.of_nat (length C))) as [Hlt|Hlt]; [|eauto].
  pose proof (F_ge_f0 _ _ _ _ _ _ _ _ Hctx i Hi) as HF0.
  assert (HiM : (S i < M)%nat).
  { destruct (Nat.lt_ge_cases (S i) M) as [A|A]; [exact A|exfalso].
    pose proof (row_mono _ _ _ _ _ _ _ _ Hctx M (S i) A) as Hm. rewrite (row_S width) in Hm.
    unfold mlen in HlC. lia. }
  rewrite Z.div_mul by lia. rewrite Nat2Z.id.
  rewrite (get_nth F (i + 1) O) by (rewrite (cx_lenF _ _ _ _ _ _ _ _ Hctx); lia). cbn [bind].
  fold (nn F (i + 1)). replace (i + 1)%nat with (S i) by lia.
  destruct (Z.leb_spec (Fz (S i)) (j + 1)) as [Hle|Hle]; [|eauto].
  assert (Hrow : prow_ok T F pat width f0 (mc H) (mc C) (S i) (lastIdx + 1)) by (apply Hrows; lia).
  destruct (pr_C _ _ _ _ _ _ _ _ _ Hrow (j + 1)) as (x & Hx & _); [lia|].
  replace (Z.of_nat i * width + width + (j - f0) + 1) with (cellz (S i) (j + 1))
    by (unfold V2MatrixFill.cellz; rewrite (row_S width); lia).
  rewrite (mget_mc _ _ _ Hx). cbn [bind]. eauto.
Qed.

Lemma p4_ok : forall fuel i j pm cols,
  (i < M)%nat -> Fz i <= j -> j + Z.of_nat (M - 1 - i) <= maxPos -> j < Z.of_nat fuel ->
  cols_ok (S i) (j + 1) cols ->
  exists rest j',
    p4 fuel H C F width f0 M minIdx i j pm (map (fun c => (c + minIdx)%nat) cols) =
      Ok (map (fun c => (c + minIdx)%nat) (Z.to_nat j' :: rest), j') /\
    f0 <= j' /\ cols_ok O j' (Z.to_nat j' :: rest).
Proof.
  induction fuel as [|fuel IH]; intros i j pm cols Hi Hj Hjm Hfuel Hcols; [lia|].
  rewrite p4_S. cbv zeta.
  pose proof (F_ge_f0 _ _ _ _ _ _ _ _ Hctx i Hi) as HF0.
  assert (Hrow : prow_ok T F pat width f0 (mc H) (mc C) i (lastIdx + 1)) by (apply Hrows; lia).
  assert (Hjl : j <= lastIdx) by lia.
  (* s *)
  destruct (pr_H _ _ _ _ _ _ _ _ _ Hrow j) as (s & Hs & Hs0); [lia|].
  replace (Z.of_nat i * width + (j - f0)) with (cellz i j) by (unfold V2MatrixFill.cellz; lia).
  rewrite (mget_mc _ _ _ Hs). cbn [bind].
  rewrite (get_nth F i O) by (rewrite (cx_lenF _ _ _ _ _ _ _ _ Hctx); lia). cbn [bind]. fold (nn F i).
  (* s1 *)
  assert (Hs1 : exists s1, (if Nat.ltb 0 i && (Fz i <=? j) then mget H (Z.of_nat i * width - width + (j - f0) - 1) else Ok 0) = Ok s1 /\
                0 <= s1 /\ ((1 <= i)%nat -> mc H (cellz (i - 1) (j - 1)) = Some s1) /\ (i = O -> s1 = 0)).
  { destruct i as [|i'].
    - exists 0. cbn [Nat.ltb Nat.leb andb]. split; [reflexivity|]. split; [lia|]. split; [intros; lia|auto].
    - assert (Hprev : prow_ok T F pat width f0 (mc H) (mc C) i' (lastIdx + 1)) by (apply Hrows; lia).
      pose proof (F_mono _ _ _ _ _ _ _ _ Hctx i' (S i') ltac:(lia) Hi) as HFm.
      destruct (pr_H _ _ _ _ _ _ _ _ _ Hprev (j - 1)) as (d & Hd & Hd0); [lia|].
      exists d. replace (Nat.ltb 0 (S i')) with true by reflexivity.
      destruct (Z.leb_spec (Fz (S i')) j) as [_|A]; [|lia]. cbn [andb].
      replace (Z.of_nat (S i') * width - width + (j - f0) - 1) with (cellz i' (j - 1))
        by (unfold V2MatrixFill.cellz; rewrite (row_S width); lia).
      rewrite (mget_mc _ _ _ Hd). split; [reflexivity|]. split; [exact Hd0|].
      replace (S i' - 1)%nat with i' by lia. split; [auto|]. intros; discriminate. }
  destruct Hs1 as (s1 & Es1 & Hs10 & Hs1c & Hs1z). rewrite Es1. cbn [bind].
  (* s2 *)
  assert (Hs2 : exists s2, (if Fz i <? j then mget H (cellz i j - 1) else Ok 0) = Ok s2 /\
                0 <= s2 /\ (Fz i < j -> mc H (cellz i (j - 1)) = Some s2) /\ (j = Fz i -> s2 = 0)).
  { destruct (Z.ltb_spec (Fz i) j) as [A|A].
    - destruct (pr_H _ _ _ _ _ _ _ _ _ Hrow (j - 1)) as (u & Hu & Hu0); [lia|].
      exists u. replace (cellz i j - 1) with (cellz i (j - 1)) by (unfold V2MatrixFill.cellz; lia).
      rewrite (mget_mc _ _ _ Hu). split; [reflexivity|]. split; [exact Hu0|]. split; [auto|]. intros; lia.
    - exists 0. split; [reflexivity|]. split; [lia|]. split; [intros; lia|auto]. }
  destruct Hs2 as (s2 & Es2 & Hs20 & Hs2c & Hs2z). rewrite Es2. cbn [bind].
  set (take := (s1 <? s) && ((s2 <? s) || ((s =? s2) && pm))).
  (* a take happens on a matching cell only, and always in column F[i] *)
  assert (Htake_first : j = Fz i -> take = true).
  { intros E. assert (H16 : scoreMatch <= s) by (apply (pr_first _ _ _ _ _ _ _ _ _ Hrow s); [lia|rewrite <- E; exact Hs]).
    unfold scoreMatch in H16. pose proof (Hs2z E) as Es2z.
    assert (s1 < s).
    { destruct (Nat.eq_dec i O) as [Ei|Ei]; [rewrite (Hs1z Ei); lia|].
      assert (Hm : s1 + scoreMatch <= s).
      { apply (pr_match _ _ _ _ _ _ _ _ _ Hrow j s s1); [lia|lia| |exact Hs|apply Hs1c; lia].
        rewrite E, Nat2Z.id. apply (cx_Fhit _ _ _ _ _ _ _ _ Hctx). exact Hi. }
      unfold scoreMatch in Hm. lia. }
    unfold take. destruct (Z.ltb_spec s1 s); [|lia]. destruct (Z.ltb_spec s2 s); [|lia]. reflexivity. }
  assert (Htake_match : take = true -> zn T (Z.to_nat j) = zn pat i).
  { intros Et. destruct (Z.eq_dec (zn T (Z.to_nat j)) (zn pat i)) as [E|E]; [exact E|exfalso].
    assert (Hlt : Fz i < j).
    { destruct (Z.eq_dec j (Fz i)) as [E'|E']; [|lia]. exfalso. apply E. rewrite E', Nat2Z.id.
      apply (cx_Fhit _ _ _ _ _ _ _ _ Hctx). exact Hi. }
    destruct (pr_gap _ _ _ _ _ _ _ _ _ Hrow j s s2 ltac:(lia) E Hs (Hs2c Hlt)) as (g & Hg & Hsv).
    unfold scoreGapExt, scoreGapStart in Hg. unfold take in Et.
    apply andb_true_iff in Et as [Et1 Et2]. apply Z.ltb_lt in Et1.
    apply orb_true_iff in Et2 as [Et2|Et2].
    - apply Z.ltb_lt in Et2. lia.
    - apply andb_true_iff in Et2 as [Et2 _]. apply Z.eqb_eq in Et2. lia. }
  assert (Hj0 : 0 <= j) by lia.
  assert (Hcons : Z.to_nat (j + Z.of_nat minIdx) = (Z.to_nat j + minIdx)%nat) by lia.
  destruct take eqn:Etake.
  - (* take *)
    specialize (Htake_match eq_refl).
    assert (Hcols' : cols_ok i j (Z.to_nat j :: cols)).
    { cbn [V2MatrixTrace.cols_ok]. rewrite Z2Nat.id by lia. repeat split; try lia; assumption. }
    cbn [andb]. destruct (Nat.eqb_spec i 0) as [Ei|Ei].
    + destruct (Z.ltb_spec (j + Z.of_nat minIdx) 0) as [A|A]; [lia|].
      exists cols, j. rewrite Hcons. split; [reflexivity|]. split; [lia|]. rewrite <- Ei. exact Hcols'.
    + destruct (pr_C _ _ _ _ _ _ _ _ _ Hrow j) as (c1 & Hc1 & _); [lia|].
      rewrite (mget_mc _ _ _ Hc1). cbn [bind].
      destruct (p4_pm_ok i j c1 Hi Hj Hjm) as (b & Eb). rewrite Eb. cbn [bind].
      pose proof (F_mono _ _ _ _ _ _ _ _ Hctx (i - 1) i ltac:(lia) Hi) as HFm.
      rewrite Hcons.
      change ((Z.to_nat j + minIdx)%nat :: map (fun c => (c + minIdx)%nat) cols)
        with (map (fun c => (c + minIdx)%nat) (Z.to_nat j :: cols)).
      apply IH; try lia.
      replace (S (i - 1)) with i by lia. replace (j - 1 + 1) with j by lia. exact Hcols'.
  - (* skip *)
    cbn [andb].
    assert (Hlt : Fz i < j).
    { destruct (Z.eq_dec j (Fz i)) as [E'|E']; [|lia]. specialize (Htake_first E'). discriminate. }
    destruct (pr_C _ _ _ _ _ _ _ _ _ Hrow j) as (c1 & Hc1 & _); [lia|].
    rewrite (mget_mc _ _ _ Hc1). cbn [bind].
    destruct (p4_pm_ok i j c1 Hi Hj Hjm) as (b & Eb). rewrite Eb. cbn [bind].
    apply IH; try lia.
    eapply cols_ok_lo; [|exact Hcols]. lia.
Qed.

End Trace.
