(* C14 proofs: the renderer life cycle leaves the terminal modes as it found them (lifecycle_balanced),
   constrain terminates and leaves cursor/offset in bounds, the temp-file ledger is empty after every orderly
   completion path (and is NOT empty on three paths the faithful model has: refutations). *)
From Fzf Require Import Prelude TermSpec TermModel.
Open Scope Z_scope.

(* ================================================================== scanner algebra *)
Lemma events_from_app s a b :
  events_from s (a ++ b) =
  let '(s1, e1) := events_from s a in let '(s2, e2) := events_from s1 b in (s2, e1 ++ e2).
Proof.
  revert s; induction a as [|x a IH]; intros s; simpl.
  - destruct (events_from s b); reflexivity.
  - destruct (step s x) as [s1 e1]. rewrite IH. destruct (events_from s1 a) as [s2 e2].
    destruct (events_from s2 b) as [s3 e3]. now rewrite app_assoc.
Qed.

Lemma ef_cons s b r :
  events_from s (b :: r) = let '(s1, e1) := step s b in let '(s2, e2) := events_from s1 r in (s2, e1 ++ e2).
Proof. reflexivity. Qed.

Definition clo (bs : list Z) : Prop := fst (events_from Ground bs) = Ground.

Lemma closed_clo bs : closed bs = true -> clo bs.
Proof. unfold closed, clo. destruct (fst (events_from Ground bs)); simpl; congruence. Qed.

Lemma ev_app a b : clo a ->
  events_from Ground (a ++ b) = (fst (events_from Ground b), events a ++ events b).
Proof.
  unfold clo, events. intros H. rewrite events_from_app.
  destruct (events_from Ground a) as [s1 e1]; simpl in *; subst.
  destruct (events_from Ground b); reflexivity.
Qed.
Lemma clo_app a b : clo a -> clo b -> clo (a ++ b).
Proof. intros Ha Hb. unfold clo. rewrite ev_app by assumption. exact Hb. Qed.
Lemma events_app a b : clo a -> events (a ++ b) = events a ++ events b.
Proof. intros Ha. unfold events at 1. now rewrite ev_app. Qed.
Lemma clo_nil : clo []. Proof. reflexivity. Qed.
Lemma events_nil : events [] = []. Proof. reflexivity. Qed.

Lemma apply_evs_app a b m : apply_evs (a ++ b) m = apply_evs b (apply_evs a m).
Proof. unfold apply_evs. apply fold_left_app. Qed.

Lemma mode_free_spec b : mode_free b = true -> clo b /\ events b = [].
Proof.
  unfold mode_free. intros H. apply andb_true_iff in H as [H1 H2]. split; [now apply closed_clo|].
  destruct (events b); [reflexivity|discriminate].
Qed.

(* ---- decimal numbers inside a CSI sequence are skipped *)
Definition numb (b : Z) : Prop := (48 <= b <= 57) \/ b = 45.

Lemma uint_bytes_numb u : Forall numb (uint_bytes u).
Proof. induction u; simpl; constructor; auto; unfold numb; lia. Qed.
Lemma dec_numb n : Forall numb (dec n).
Proof.
  destruct n; simpl.
  - constructor; [unfold numb; lia|constructor].
  - apply uint_bytes_numb.
  - constructor; [unfold numb; lia|apply uint_bytes_numb].
Qed.

Lemma numb_keep ds : Forall numb ds -> filter keep_byte ds = ds.
Proof.
  induction 1 as [|x l Hx _ IH]; simpl; [reflexivity|].
  assert (keep_byte x = true) as ->.
  { unfold keep_byte. destruct Hx as [Hx|Hx]; repeat (apply orb_true_iff; left); apply Z.leb_le; lia. }
  now rewrite IH.
Qed.

Lemma csi_skip_num ds : Forall numb ds -> forall ps cur bad first rest,
  exists ps' cur' first', events_from (Csi 0 ps cur bad first) (ds ++ rest) = events_from (Csi 0 ps' cur' bad first') rest.
Proof.
  induction 1 as [|x l Hx _ IH]; intros ps cur bad first rest; simpl.
  - now exists ps, cur, first.
  - destruct Hx as [Hx|Hx].
    + assert (inr 48 57 x = true) as E1 by (unfold inr; apply andb_true_iff; split; apply Z.leb_le; lia).
      rewrite E1. destruct (IH ps (cur * 10 + (x - 48)) bad false rest) as (p & c & f & E). rewrite E.
      exists p, c, f. destruct (events_from (Csi 0 p c bad f) rest); reflexivity.
    + subst x. change (inr 48 57 45) with false. change ((45 =? 59) || (45 =? 58)) with false.
      change (inr 60 63 45) with false. change (inr 32 47 45) with true. cbv iota.
      destruct (IH ps cur bad false rest) as (p & c & f & E). rewrite E.
      exists p, c, f. destruct (events_from (Csi 0 p c bad f) rest); reflexivity.
Qed.

(* ESC [ <number> A|B : cursor motion, no mode event *)
Lemma num_chunk n f : f = 65 \/ f = 66 ->
  clo (filter keep_byte (27 :: 91 :: dec n ++ [f])) /\ events (filter keep_byte (27 :: 91 :: dec n ++ [f])) = [].
Proof.
  intros Hf.
  assert (filter keep_byte (27 :: 91 :: dec n ++ [f]) = 27 :: 91 :: dec n ++ [f]) as ->.
  { change (27 :: 91 :: dec n ++ [f]) with ([27; 91] ++ dec n ++ [f]). rewrite !filter_app.
    rewrite (numb_keep _ (dec_numb n)). destruct Hf; subst; reflexivity. }
  assert (events_from Ground (27 :: 91 :: dec n ++ [f]) = (Ground, [])) as Hev.
  { rewrite ef_cons. replace (step Ground 27) with (Esc, @nil mev) by reflexivity. cbv beta iota.
    rewrite ef_cons. replace (step Esc 91) with (Csi 0 [] 0 false true, @nil mev) by reflexivity. cbv beta iota.
    destruct (csi_skip_num (dec n) (dec_numb n) [] 0 false true [f]) as (p & c & fi & Eq). rewrite Eq.
    destruct Hf; subst f; reflexivity. }
  unfold clo, events. rewrite Hev. split; reflexivity.
Qed.

(* ================================================================== non-interference *)
Definition rest_eq (a b : modes) : Prop :=
  m_1000 a = m_1000 b /\ m_1002 a = m_1002 b /\ m_1003 a = m_1003 b /\ m_1006 a = m_1006 b /\
  m_1015 a = m_1015 b /\ m_2004 a = m_2004 b /\ m_1049 a = m_1049 b /\ m_saved a = m_saved b /\
  m_orphan a = m_orphan b /\ m_others a = m_others b.

Lemma rest_eq_refl a : rest_eq a a. Proof. unfold rest_eq; intuition. Qed.
Lemma rest_eq_sym a b : rest_eq a b -> rest_eq b a. Proof. unfold rest_eq; intuition. Qed.
Lemma rest_eq_trans a b c : rest_eq a b -> rest_eq b c -> rest_eq a c.
Proof. unfold rest_eq; intuition congruence. Qed.

Ltac ifs := repeat match goal with |- context [if ?c then _ else _] => destruct c end.

Lemma set_mode_ni n v a b : rest_eq a b -> rest_eq (set_mode n v a) (set_mode n v b).
Proof.
  destruct a, b; unfold rest_eq, set_mode; simpl; intros H; decompose [and] H; subst.
  ifs; simpl; intuition.
Qed.
Lemma apply_ev_ni e a b : rest_eq a b -> rest_eq (apply_ev e a) (apply_ev e b).
Proof.
  destruct e; simpl; try apply set_mode_ni.
  - destruct a, b; unfold rest_eq; simpl; intuition.
  - destruct a, b; unfold rest_eq; simpl; intros H; decompose [and] H; subst. ifs; simpl; intuition.
Qed.
Lemma apply_evs_ni es : forall a b, rest_eq a b -> rest_eq (apply_evs es a) (apply_evs es b).
Proof.
  induction es as [|e es IH]; intros a b H; [exact H|]. unfold apply_evs in *; simpl. apply IH. now apply apply_ev_ni.
Qed.

Definition wrapper_ev (e : mev) : Prop := e = MSet 7 \/ e = MReset 7 \/ e = MSet 25 \/ e = MReset 25.
Lemma wrapper_skip e a : wrapper_ev e -> rest_eq (apply_ev e a) a.
Proof. intros [H|[H|[H|H]]]; subst; destruct a; unfold rest_eq; simpl; intuition. Qed.
Lemma wrappers_skip es : Forall wrapper_ev es -> forall a, rest_eq (apply_evs es a) a.
Proof.
  induction 1 as [|e es He _ IH]; intros a; [apply rest_eq_refl|]. unfold apply_evs in *; simpl.
  eapply rest_eq_trans; [apply IH|]. now apply wrapper_skip.
Qed.

(* ================================================================== invariant machinery *)
Definition E (st : rstate) : modes := apply_evs (events (r_out st) ++ events (r_queued st)) m0.
Definition W (st : rstate) : Prop := clo (r_out st) /\ clo (r_queued st).
Definition Inv (P : modes -> Prop) (st : rstate) : Prop := W st /\ P (E st).
Definition respects (P : modes -> Prop) : Prop := forall a b, rest_eq a b -> P a -> P b.

(* what the rest of the proof tracks about the modes other than ?7 and ?25 *)
Definition Good3 (a0 a2 a6 pon aon son : bool) (m : modes) : Prop :=
  m_1000 m = a0 /\ m_1002 m = a2 /\ m_1006 m = a6 /\ m_2004 m = pon /\ m_1049 m = aon /\ m_saved m = son /\
  m_1003 m = false /\ m_1015 m = false /\ m_orphan m = false /\ m_others m = [].
Notation Good mon pon aon son := (Good3 mon mon mon pon aon son).
Lemma Good_respects a0 a2 a6 b c d : respects (Good3 a0 a2 a6 b c d).
Proof. unfold respects, Good3, rest_eq. intros x y H G. decompose [and] H. decompose [and] G. intuition congruence. Qed.

Lemma inv_queue (P Q : modes -> Prop) chunk st :
  clo chunk -> (forall m, P m -> Q (apply_evs (events chunk) m)) ->
  Inv P st -> Inv Q (set_queued st (r_queued st ++ chunk)).
Proof.
  intros Hc HPQ [[Ho Hq] HP]. split; [split; simpl; [exact Ho|now apply clo_app]|].
  unfold E; simpl. rewrite events_app by assumption. rewrite app_assoc, apply_evs_app. now apply HPQ.
Qed.

Lemma inv_csi (P Q : modes -> Prop) code st :
  clo (filter keep_byte (27 :: 91 :: code)) ->
  (forall m, P m -> Q (apply_evs (events (filter keep_byte (27 :: 91 :: code))) m)) ->
  Inv P st -> Inv Q (csi code st).
Proof. intros. unfold csi, r_stderr. now apply inv_queue with (P := P). Qed.

Lemma inv_stderr1 (P : modes -> Prop) b st : b = 10 \/ b = 13 -> Inv P st -> Inv P (r_stderr [b] st).
Proof.
  intros Hb H. unfold r_stderr. apply inv_queue with (P := P); auto.
  - destruct Hb; subst; reflexivity.
  - destruct Hb; subst; intros m Hm; exact Hm.
Qed.

Lemma inv_raw (P Q : modes -> Prop) chunk st :
  r_queued st = [] -> clo chunk -> (forall m, P m -> Q (apply_evs (events chunk) m)) ->
  Inv P st -> Inv Q (r_flush_raw chunk st).
Proof.
  intros Hq0 Hc HPQ [[Ho Hq] HP]. split; [split; simpl; [now apply clo_app|exact Hq]|].
  unfold E in *; simpl. rewrite Hq0 in *. rewrite events_nil, app_nil_r in *. rewrite events_app by assumption.
  rewrite apply_evs_app. now apply HPQ.
Qed.

Lemma inv_raw_free (P : modes -> Prop) child st : mode_free child = true -> Inv P st -> Inv P (r_flush_raw child st).
Proof.
  intros Hc [[Ho Hq] HP]. apply mode_free_spec in Hc as [Hc He].
  split; [split; simpl; [now apply clo_app|exact Hq]|].
  unfold E in *; simpl. rewrite events_app by assumption. now rewrite He, app_nil_r.
Qed.

Lemma PRE_wr : clo PRE /\ Forall wrapper_ev (events PRE).
Proof.
  split; [reflexivity|]. change (events PRE) with [MReset 7; MReset 25].
  apply Forall_cons; [unfold wrapper_ev; auto|]. apply Forall_cons; [unfold wrapper_ev; auto|]. apply Forall_nil.
Qed.
Lemma POST_wr (b : bool) : clo (if b then POST_SHOW else POST_HIDE) /\ Forall wrapper_ev (events (if b then POST_SHOW else POST_HIDE)).
Proof.
  destruct b; (split; [reflexivity|]).
  - change (events POST_SHOW) with [MSet 25; MSet 7].
    apply Forall_cons; [unfold wrapper_ev; auto|]. apply Forall_cons; [unfold wrapper_ev; auto|]. apply Forall_nil.
  - change (events POST_HIDE) with [MSet 7]. apply Forall_cons; [unfold wrapper_ev; auto|]. apply Forall_nil.
Qed.

Lemma flush_queued st : r_queued (r_flush st) = [].
Proof. unfold r_flush. destruct (r_queued st) eqn:Eq; [exact Eq|reflexivity]. Qed.

Lemma inv_flush (P : modes -> Prop) st : respects P -> Inv P st -> Inv P (r_flush st).
Proof.
  intros HR [[Ho Hq] HP]. unfold r_flush. destruct (r_queued st) as [|x q] eqn:Eq; [split; [split|]; auto; now rewrite Eq|].
  rewrite <- Eq in *. clear Eq x q.
  destruct PRE_wr as [Cp Wp]. destruct (POST_wr (r_show st)) as [Cq Wq].
  split; [split; cbn [r_out r_queued r_flush_raw set_queued set_out]; [|apply clo_nil]|].
  - apply clo_app; [exact Ho|]. apply clo_app; [exact Cp|]. apply clo_app; assumption.
  - unfold E in *; cbn [r_out r_queued r_flush_raw set_queued set_out]. rewrite events_nil, app_nil_r.
    rewrite events_app by assumption. rewrite events_app by assumption. rewrite events_app by assumption.
    rewrite !apply_evs_app. rewrite apply_evs_app in HP.
    eapply HR; [|exact HP]. apply rest_eq_sym.
    eapply rest_eq_trans; [apply wrappers_skip; exact Wq|].
    apply apply_evs_ni. apply wrappers_skip; exact Wp.
Qed.

(* setters of flags do not touch the byte streams *)
Lemma inv_flags (P : modes -> Prop) st st' : r_out st' = r_out st -> r_queued st' = r_queued st -> Inv P st -> Inv P st'.
Proof. intros Ho Hq [[A B] C]. unfold Inv, W, E in *. rewrite Ho, Hq. auto. Qed.

Ltac good_tac :=
  let m := fresh "m" in let H := fresh "H" in
  intros m H; destruct m; unfold Good3 in *; vm_compute in H |- *; decompose [and] H; subst; repeat split; reflexivity.

(* ---- composite operations *)
Lemma inv_smcup a b c d st : Inv (Good a b c d) st -> Inv (Good a b true d) (smcup st) /\ r_queued (smcup st) = [].
Proof.
  intros H. unfold smcup. split.
  - apply inv_raw with (P := Good a b c d); [apply flush_queued|reflexivity| |apply inv_flush; [apply Good_respects|exact H]].
    good_tac.
  - simpl. apply flush_queued.
Qed.
Lemma inv_rmcup a b c d st : Inv (Good a b c d) st -> Inv (Good a b false d) (rmcup st) /\ r_queued (rmcup st) = [].
Proof.
  intros H. unfold rmcup. split.
  - apply inv_raw with (P := Good a b c d); [apply flush_queued|reflexivity| |apply inv_flush; [apply Good_respects|exact H]].
    good_tac.
  - simpl. apply flush_queued.
Qed.

Lemma inv_enable a b c d st :
  Inv (Good a b c d) st -> Inv (Good (if r_mouse st then true else a) true c d) (enable_modes st).
Proof.
  intros H. unfold enable_modes. destruct (r_mouse st).
  - apply inv_csi with (P := Good true b c d); [reflexivity|good_tac|].
    apply inv_csi with (P := Good3 true true a b c d); [reflexivity|good_tac|].
    apply inv_csi with (P := Good3 true a a b c d); [reflexivity|good_tac|].
    apply inv_csi with (P := Good a b c d); [reflexivity|good_tac|exact H].
  - apply inv_csi with (P := Good a b c d); [reflexivity|good_tac|exact H].
Qed.

Lemma inv_disable_mouse a b c d st :
  (a = true -> r_mouse st = true) ->
  Inv (Good a b c d) st -> Inv (Good false b c d) (disable_mouse st).
Proof.
  intros Hm H. unfold disable_mouse. destruct (r_mouse st).
  - apply inv_csi with (P := Good3 false false a b c d); [reflexivity|good_tac|].
    apply inv_csi with (P := Good3 false a a b c d); [reflexivity|good_tac|].
    apply inv_csi with (P := Good a b c d); [reflexivity|good_tac|exact H].
  - destruct a; [discriminate (Hm eq_refl)|exact H].
Qed.

Lemma inv_disable a b c d st :
  (a = true -> r_mouse st = true) ->
  Inv (Good a b c d) st -> Inv (Good false false c d) (disable_modes st).
Proof.
  intros Hm H. unfold disable_modes.
  apply inv_csi with (P := Good false b c d); [reflexivity|good_tac|]. now apply inv_disable_mouse with (a := a).
Qed.

Lemma disable_mouse_flag st : r_mouse (disable_mouse st) = r_mouse st /\ r_show (disable_mouse st) = r_show st.
Proof. unfold disable_mouse. destruct (r_mouse st) eqn:Em; simpl; auto. Qed.
Lemma enable_flag st : r_mouse (enable_modes st) = r_mouse st /\ r_show (enable_modes st) = r_show st.
Proof. unfold enable_modes. destruct (r_mouse st) eqn:Em; simpl; auto. Qed.
Lemma flush_flag st : r_mouse (r_flush st) = r_mouse st /\ r_show (r_flush st) = r_show st.
Proof. unfold r_flush. destruct (r_queued st); simpl; auto. Qed.

Lemma inv_make_space P st : Inv P st -> Inv P (make_space st).
Proof.
  intros H. unfold make_space. apply inv_csi with (P := P); [reflexivity|intros m Hm; exact Hm|].
  apply inv_stderr1; auto.
Qed.
Lemma make_space_flag st : r_mouse (make_space st) = r_mouse st /\ r_show (make_space st) = r_show st.
Proof. split; reflexivity. Qed.
Lemma inv_repeat_space P n : forall st, Inv P st -> Inv P (repeat_op n make_space st) /\
  r_mouse (repeat_op n make_space st) = r_mouse st /\ r_show (repeat_op n make_space st) = r_show st.
Proof.
  induction n as [|n IH]; intros st H; simpl; [auto|].
  destruct (IH (make_space st) (inv_make_space P st H)) as (A & B & C). auto.
Qed.

Lemma inv_find_offset P st : respects P -> Inv P st -> Inv P (find_offset st).
Proof.
  intros HR H. unfold find_offset. apply inv_flush; [exact HR|].
  apply inv_csi with (P := P); [reflexivity|intros m Hm; exact Hm|exact H].
Qed.
Lemma find_offset_flag st : r_mouse (find_offset st) = r_mouse st /\ r_show (find_offset st) = r_show st.
Proof. unfold find_offset. destruct (flush_flag (csi [54; 110] st)) as [A B]. rewrite A, B. auto. Qed.

(* ---- Init *)
Definition running (c : cfg) (st : rstate) : Prop :=
  exists mon pon, (mon = true -> r_mouse st = true) /\
    Inv (Good mon pon (c_fullscreen c) (negb (c_clear c) && negb (c_fullscreen c))) st.

Lemma init_state_inv c : Inv (Good false false false false) (init_state c).
Proof.
  unfold init_state. destruct (c_inputless c).
  - unfold hide_cursor. apply inv_csi with (P := Good false false false false); [reflexivity|good_tac|].
    split; [split; reflexivity|vm_compute; repeat split; reflexivity].
  - split; [split; reflexivity|vm_compute; repeat split; reflexivity].
Qed.

Lemma init_running c : running c (r_init c (init_state c)).
Proof.
  pose proof (init_state_inv c) as H0. unfold r_init.
  set (s0 := set_raw (init_state c) true).
  assert (Inv (Good false false false false) s0) as H1 by (eapply inv_flags; [| |exact H0]; reflexivity).
  clearbody s0. clear H0.
  (* first part: alternate screen / make room *)
  set (s1 := if c_fullscreen c then smcup s0 else _).
  assert (Inv (Good false false (c_fullscreen c) false) s1) as H2.
  { subst s1. destruct (c_fullscreen c).
    - exact (proj1 (inv_smcup _ _ _ _ _ H1)).
    - set (sa := if c_clear c then csi [74] s0 else s0).
      assert (Inv (Good false false false false) sa) as Ha.
      { subst sa. destruct (c_clear c); [|exact H1]. apply inv_csi with (P := Good false false false false); [reflexivity|good_tac|exact H1]. }
      clearbody sa.
      pose proof (inv_find_offset _ sa (Good_respects _ _ _ _ _ _) Ha) as Hb.
      set (sb := set_mouse (find_offset sa) (r_mouse (find_offset sa) && c_offset_ok c)).
      assert (Inv (Good false false false false) sb) as Hc by (eapply inv_flags; [| |exact Hb]; reflexivity).
      clearbody sb.
      set (sc := if c_xpos c && c_clear c then make_space (set_up1 sb true) else sb).
      assert (Inv (Good false false false false) sc) as Hd.
      { subst sc. destruct (c_xpos c && c_clear c); [|exact Hc]. apply inv_make_space. eapply inv_flags; [| |exact Hc]; reflexivity. }
      clearbody sc. apply inv_repeat_space. exact Hd. }
  clearbody s1. clear H1.
  pose proof (inv_enable _ _ _ _ s1 H2) as H3. destruct (enable_flag s1) as [Fm Fs].
  set (s2 := enable_modes s1) in *. clearbody s2.
  set (mon := if r_mouse s1 then true else false) in *.
  assert (mon = true -> r_mouse s2 = true) as Hmon by (subst mon; rewrite Fm; destruct (r_mouse s1); congruence).
  clearbody mon.
  set (s3 := csi [75] (csi [71] (csi (dec (c_maxy c - 1) ++ [65]) s2))).
  assert (Inv (Good mon true (c_fullscreen c) false) s3) as H4.
  { subst s3. apply inv_csi with (P := Good mon true (c_fullscreen c) false); [reflexivity|good_tac|].
    apply inv_csi with (P := Good mon true (c_fullscreen c) false); [reflexivity|good_tac|].
    destruct (num_chunk (c_maxy c - 1) 65 (or_introl eq_refl)) as [Nc Ne].
    apply inv_csi with (P := Good mon true (c_fullscreen c) false); [exact Nc|rewrite Ne; intros m Hm; exact Hm|exact H3]. }
  assert (r_mouse s3 = r_mouse s2) as F3 by reflexivity. clearbody s3.
  set (s4 := if negb (c_clear c) && negb (c_fullscreen c) then csi [115] s3 else s3).
  assert (Inv (Good mon true (c_fullscreen c) (negb (c_clear c) && negb (c_fullscreen c))) s4 /\ r_mouse s4 = r_mouse s3) as [H5 F4].
  { subst s4. destruct (negb (c_clear c) && negb (c_fullscreen c)); [|split; [exact H4|reflexivity]].
    split; [|reflexivity]. apply inv_csi with (P := Good mon true (c_fullscreen c) false); [reflexivity|good_tac|exact H4]. }
  clearbody s4.
  exists mon, true. destruct (negb (c_fullscreen c) && r_mouse s4).
  - split.
    + intros Hm. destruct (find_offset_flag s4) as [A _]. rewrite A, F4, F3. auto.
    + apply inv_find_offset; [apply Good_respects|exact H5].
  - split; [intros Hm; rewrite F4, F3; auto|exact H5].
Qed.

(* ---- steps between Init and Close *)
Definition lop_ok (o : lop) : Prop :=
  match o with
  | LFrame body _ => mode_free body = true
  | LSuspend _ _ child => mode_free child = true
  | _ => True
  end.

Lemma inv_cursor_csi a b c d code st :
  code = [63; 50; 53; 108] \/ code = [63; 50; 53; 104] ->
  Inv (Good a b c d) st -> Inv (Good a b c d) (csi code st).
Proof. intros [Hc|Hc] H; subst; (apply inv_csi with (P := Good a b c d); [reflexivity|good_tac|exact H]). Qed.

Lemma pause_inv c a b d (clear : bool) st :
  (a = true -> r_mouse st = true) ->
  Inv (Good a b (c_fullscreen c) d) st ->
  Inv (Good false false (if clear then negb (c_fullscreen c) else c_fullscreen c) d) (r_pause c clear st) /\
  r_mouse (r_pause c clear st) = r_mouse st.
Proof.
  intros Hm H. unfold r_pause.
  pose proof (inv_disable _ _ _ _ st Hm H) as H1.
  assert (r_mouse (disable_modes st) = r_mouse st) as Fm by (unfold disable_modes; simpl; apply disable_mouse_flag).
  set (s1 := set_raw (disable_modes st) false).
  assert (Inv (Good false false (c_fullscreen c) d) s1) as H2 by (eapply inv_flags; [| |exact H1]; reflexivity).
  assert (r_mouse s1 = r_mouse st) as F1 by exact Fm. clearbody s1.
  destruct clear; [|split; [exact H2|exact F1]].
  destruct (c_fullscreen c).
  - destruct (inv_rmcup _ _ _ _ s1 H2) as [A _]. split.
    + apply inv_flush; [apply Good_respects|exact A].
    + destruct (flush_flag (rmcup s1)) as [B _]. rewrite B. unfold rmcup. simpl. destruct (flush_flag s1) as [B' _]. now rewrite B'.
  - destruct (inv_smcup _ _ _ _ s1 H2) as [A _]. split.
    + apply inv_flush; [apply Good_respects|]. apply inv_csi with (P := Good false false true d); [reflexivity|good_tac|exact A].
    + destruct (flush_flag (csi [72] (smcup s1))) as [B _]. rewrite B. unfold smcup. simpl. destruct (flush_flag s1) as [B' _]. now rewrite B'.
Qed.

Lemma resume_inv c d (clear sigcont : bool) st :
  Inv (Good false false (if clear then negb (c_fullscreen c) else c_fullscreen c) d) st ->
  exists mon pon, (mon = true -> r_mouse (r_resume c clear sigcont st) = true) /\
    Inv (Good mon pon (c_fullscreen c) d) (r_resume c clear sigcont st).
Proof.
  intros H. unfold r_resume.
  set (s1 := set_raw st true).
  assert (Inv (Good false false (if clear then negb (c_fullscreen c) else c_fullscreen c) d) s1) as H1
    by (eapply inv_flags; [| |exact H]; reflexivity).
  assert (r_mouse s1 = r_mouse st) as F1 by reflexivity. clearbody s1.
  destruct clear.
  - set (s2 := if c_fullscreen c then smcup s1 else rmcup s1).
    assert (Inv (Good false false (c_fullscreen c) d) s2 /\ r_mouse s2 = r_mouse s1) as [H2 F2].
    { subst s2. destruct (c_fullscreen c); simpl in H1.
      - split; [exact (proj1 (inv_smcup _ _ _ _ _ H1))|]. unfold smcup; simpl. apply flush_flag.
      - split; [exact (proj1 (inv_rmcup _ _ _ _ _ H1))|]. unfold rmcup; simpl. apply flush_flag. }
    clearbody s2.
    pose proof (inv_enable _ _ _ _ s2 H2) as H3. destruct (enable_flag s2) as [Fm _].
    exists (if r_mouse s2 then true else false), true. split.
    + intros Hm. destruct (flush_flag (enable_modes s2)) as [A _]. rewrite A, Fm. destruct (r_mouse s2); congruence.
    + apply inv_flush; [apply Good_respects|exact H3].
  - destruct (sigcont && negb (c_fullscreen c) && r_mouse s1).
    + exists false, false. split; [discriminate|].
      eapply inv_flags with (st := disable_mouse s1); [reflexivity|reflexivity|].
      apply inv_disable_mouse with (a := false); [discriminate|exact H1].
    + exists false, false. split; [discriminate|exact H1].
Qed.

Lemma step_running c st o : lop_ok o -> running c st -> running c (r_step c st o).
Proof.
  intros Hok (mon & pon & Hm & H). destruct o as [body y| | |clear sigcont child]; simpl in *.
  - exists mon, pon. split.
    + intros Hx. destruct (flush_flag (set_y (set_queued st (r_queued st ++ body)) y)) as [A _]. rewrite A. simpl. auto.
    + apply inv_flush; [apply Good_respects|].
      eapply inv_flags with (st := set_queued st (r_queued st ++ body)); [reflexivity|reflexivity|].
      apply mode_free_spec in Hok as [Hc He].
      apply inv_queue with (P := Good mon pon (c_fullscreen c) (negb (c_clear c) && negb (c_fullscreen c))); [exact Hc| |exact H].
      rewrite He. intros m Hg; exact Hg.
  - exists mon, pon. split; [exact Hm|]. unfold hide_cursor.
    apply inv_cursor_csi; [now left|]. eapply inv_flags; [| |exact H]; reflexivity.
  - exists mon, pon. split; [exact Hm|]. unfold show_cursor.
    apply inv_cursor_csi; [now right|]. eapply inv_flags; [| |exact H]; reflexivity.
  - destruct (pause_inv c mon pon _ clear st Hm H) as [H1 F1].
    pose proof (inv_raw_free _ child _ Hok H1) as H2.
    destruct (resume_inv c _ clear sigcont _ H2) as (mon' & pon' & Hm' & H3).
    exists mon', pon'. split; assumption.
Qed.

Lemma steps_running c ops : Forall lop_ok ops -> forall st, running c st -> running c (fold_left (r_step c) ops st).
Proof.
  induction 1 as [|o ops Ho _ IH]; intros st H; simpl; [exact H|]. apply IH. now apply step_running.
Qed.

(* ---- Close *)
Lemma origin_inv P st : Inv P st -> Inv P (origin st) /\ r_mouse (origin st) = r_mouse st /\ r_show (origin st) = r_show st /\ r_up1 (origin st) = r_up1 st.
Proof.
  intros H. unfold origin.
  set (s1 := if r_y st <? 0 then _ else _).
  assert (Inv P s1 /\ r_mouse s1 = r_mouse st /\ r_show s1 = r_show st /\ r_up1 s1 = r_up1 st) as (H1 & A & B & C).
  { subst s1. destruct (r_y st <? 0).
    - destruct (num_chunk (0 - r_y st) 66 (or_intror eq_refl)) as [Nc Ne]. split; [|split; [|split]; reflexivity].
      apply inv_csi with (P := P); [exact Nc|rewrite Ne; intros m Hm; exact Hm|exact H].
    - destruct (0 <? r_y st); [|split; [exact H|split; [|split]; reflexivity]].
      destruct (num_chunk (r_y st) 65 (or_introl eq_refl)) as [Nc Ne]. split; [|split; [|split]; reflexivity].
      apply inv_csi with (P := P); [exact Nc|rewrite Ne; intros m Hm; exact Hm|exact H]. }
  clearbody s1. split; [|split; [|split]; assumption].
  eapply inv_flags with (st := r_stderr [13] s1); [reflexivity|reflexivity|]. apply inv_stderr1; auto.
Qed.

Definition expected (c : cfg) : modes :=
  mkModes false false false false false false (c_fullscreen c && negb (c_clear c)) true true false false [].

(* the last flush of Close ends with ?25 and ?7 set *)
Lemma post_show_sets m : m_25 (apply_evs (events POST_SHOW) m) = true /\ m_7 (apply_evs (events POST_SHOW) m) = true.
Proof. change (events POST_SHOW) with [MSet 25; MSet 7]. destruct m; split; reflexivity. Qed.
Lemma post_hide_sets m : m_25 m = true ->
  m_25 (apply_evs (events POST_HIDE) m) = true /\ m_7 (apply_evs (events POST_HIDE) m) = true.
Proof. change (events POST_HIDE) with [MSet 7]. destruct m; simpl; intros ->; split; reflexivity. Qed.

Definition keeps25 (e : mev) : Prop := e <> MReset 25.
Lemma keep25 es : Forall keeps25 es -> forall m, m_25 m = true -> m_25 (apply_evs es m) = true.
Proof.
  induction 1 as [|e es He _ IH]; intros m Hm; [exact Hm|].
  unfold apply_evs in *; simpl. apply IH. unfold keeps25 in He.
  destruct e as [n|n| |]; destruct m; simpl in *.
  - unfold set_mode. ifs; simpl; try assumption; reflexivity.
  - unfold set_mode. destruct (n =? 25) eqn:E25; [apply Z.eqb_eq in E25; subst; congruence|]. ifs; simpl; assumption.
  - assumption.
  - ifs; simpl; assumption.
Qed.

Lemma final_flush_sets st st3 q2 :
  W st -> clo q2 -> r_out st3 = r_out st -> r_queued st3 = r_queued st ++ q2 ->
  (r_show st3 = true \/ exists qa qb, q2 = qa ++ [27; 91; 63; 50; 53; 104] ++ qb /\ clo qa /\ clo qb /\ Forall keeps25 (events qb)) ->
  q2 <> [] ->
  m_25 (E (r_flush st3)) = true /\ m_7 (E (r_flush st3)) = true.
Proof.
  intros [Ho Hq] Hc2 Ho3 Hq3 Hs Hne.
  unfold r_flush. rewrite Hq3. destruct (r_queued st ++ q2) as [|x q] eqn:Eq.
  { apply app_eq_nil in Eq as [_ Eq]. congruence. }
  rewrite <- Eq. unfold E; cbn [r_out r_queued set_queued r_flush_raw set_out]. rewrite Ho3. rewrite events_nil, app_nil_r.
  destruct PRE_wr as [Cp _].
  assert (clo (r_queued st ++ q2)) as Cq by now apply clo_app.
  rewrite events_app by assumption. rewrite events_app by assumption. rewrite events_app by assumption.
  rewrite !apply_evs_app.
  destruct (r_show st3) eqn:Es; [apply post_show_sets|].
  destruct Hs as [Hs|(qa & qb & -> & Ca & Cb & Hb)]; [discriminate|].
  apply post_hide_sets.
  rewrite events_app by assumption. rewrite events_app by assumption.
  rewrite events_app by reflexivity. rewrite !apply_evs_app.
  apply keep25; [exact Hb|].
  change (events [27; 91; 63; 50; 53; 104]) with [MSet 25].
  match goal with |- m_25 (apply_evs [MSet 25] ?X) = true => destruct X; reflexivity end.
Qed.

Definition C25H : list Z := [27; 91; 63; 50; 53; 104].
Definition MOFF : list Z := [27;91;63;49;48;48;48;108] ++ [27;91;63;49;48;48;50;108] ++ [27;91;63;49;48;48;54;108].
Definition POFF : list Z := [27;91;63;50;48;48;52;108].

Lemma close_tail st1 :
  let st3 := disable_modes (if negb (r_show st1) then csi [63; 50; 53; 104] st1 else st1) in
  r_out st3 = r_out st1 /\
  exists q2, r_queued st3 = r_queued st1 ++ q2 /\ clo q2 /\ q2 <> [] /\
    (r_show st3 = true \/ exists qa qb, q2 = qa ++ C25H ++ qb /\ clo qa /\ clo qb /\ Forall keeps25 (events qb)).
Proof.
  cbv zeta. unfold disable_modes, disable_mouse.
  destruct (r_show st1) eqn:Es; cbn [negb r_mouse csi r_stderr set_queued]; destruct (r_mouse st1) eqn:Em.
  - split; [reflexivity|]. exists (MOFF ++ POFF). split; [|split; [reflexivity|split; [discriminate|left; exact Es]]].
    cbn. rewrite <- !app_assoc. reflexivity.
  - split; [reflexivity|]. exists POFF. split; [|split; [reflexivity|split; [discriminate|left; exact Es]]].
    cbn. reflexivity.
  - split; [reflexivity|].
    exists (C25H ++ MOFF ++ POFF). split; [|split; [reflexivity|split; [discriminate|right]]].
    + cbn. rewrite <- !app_assoc. reflexivity.
    + exists [], (MOFF ++ POFF). split; [reflexivity|split; [reflexivity|split; [reflexivity|]]].
      change (events (MOFF ++ POFF)) with [MReset 1000; MReset 1002; MReset 1006; MReset 2004].
      repeat (apply Forall_cons; [unfold keeps25; discriminate|]). apply Forall_nil.
  - split; [reflexivity|].
    exists (C25H ++ POFF). split; [|split; [reflexivity|split; [discriminate|right]]].
    + cbn. rewrite <- !app_assoc. reflexivity.
    + exists [], POFF. split; [reflexivity|split; [reflexivity|split; [reflexivity|]]].
      change (events POFF) with [MReset 2004].
      repeat (apply Forall_cons; [unfold keeps25; discriminate|]). apply Forall_nil.
Qed.

Lemma close_part1 c st mon pon :
  Inv (Good mon pon (c_fullscreen c) (negb (c_clear c) && negb (c_fullscreen c))) st ->
  let st1 := if c_clear c then
      (if c_fullscreen c then rmcup st
       else let st := origin st in let st := if r_up1 st then csi [65] st else st in csi [74] st)
    else if negb (c_fullscreen c) then csi [117] st else st in
  Inv (Good mon pon (c_fullscreen c && negb (c_clear c)) false) st1 /\ r_mouse st1 = r_mouse st.
Proof.
  intros H. cbv zeta. destruct (c_clear c); cbn [negb andb] in *.
  - destruct (c_fullscreen c); cbn [negb andb] in *.
    + split; [exact (proj1 (inv_rmcup _ _ _ _ _ H))|]. unfold rmcup; simpl. apply flush_flag.
    + destruct (origin_inv _ st H) as (H1 & A & B & C).
      set (s1 := origin st) in *. clearbody s1.
      assert (Inv (Good mon pon false false) (if r_up1 s1 then csi [65] s1 else s1) /\
              r_mouse (if r_up1 s1 then csi [65] s1 else s1) = r_mouse s1) as [H2 F2].
      { destruct (r_up1 s1); [|split; [exact H1|reflexivity]]. split; [|reflexivity].
        apply inv_csi with (P := Good mon pon false false); [reflexivity|good_tac|exact H1]. }
      split; [|simpl; rewrite F2; exact A].
      apply inv_csi with (P := Good mon pon false false); [reflexivity|good_tac|exact H2].
  - destruct (c_fullscreen c); cbn [negb andb] in *.
    + split; [exact H|reflexivity].
    + split; [|reflexivity]. apply inv_csi with (P := Good mon pon false true); [reflexivity|good_tac|exact H].
Qed.

Lemma modes_eq_fields (a b : modes) :
  rest_eq a b -> m_25 a = m_25 b -> m_7 a = m_7 b -> m_1003 a = m_1003 b -> a = b.
Proof. destruct a, b; unfold rest_eq; simpl; intros H; decompose [and] H; intros; subst; reflexivity. Qed.

Lemma lifecycle_balanced_proof : forall c ops, Forall lop_ok ops ->
  let st := run_lifecycle c ops in
  net_effect (r_out st) m0 = expected c /\ r_raw st = false /\ r_queued st = [].
Proof.
  intros c ops Hok. cbv zeta. unfold run_lifecycle.
  pose proof (steps_running c ops Hok _ (init_running c)) as (mon & pon & Hm & H).
  set (st := fold_left (r_step c) ops (r_init c (init_state c))) in *. clearbody st.
  unfold r_close.
  destruct (close_part1 c st mon pon H) as [H1 F1]. cbv zeta in H1, F1.
  set (st1 := if c_clear c then _ else _) in *. clearbody st1.
  destruct (close_tail st1) as [Ho3 (q2 & Hq3 & Cq2 & Ne2 & Hs)]. cbv zeta in Ho3, Hq3, Hs.
  set (st2 := if negb (r_show st1) then csi [63; 50; 53; 104] st1 else st1) in *.
  assert (Inv (Good mon pon (c_fullscreen c && negb (c_clear c)) false) st2 /\ r_mouse st2 = r_mouse st1) as [H2 F2].
  { subst st2. destruct (negb (r_show st1)); [|split; [exact H1|reflexivity]]. split; [|reflexivity].
    apply inv_cursor_csi; [now right|exact H1]. }
  assert (Inv (Good false false (c_fullscreen c && negb (c_clear c)) false) (disable_modes st2)) as H3.
  { apply inv_disable with (a := mon) (b := pon); [|exact H2]. intros Hx. rewrite F2, F1. auto. }
  pose proof (inv_flush _ _ (Good_respects _ _ _ _ _ _) H3) as [W4 G4].
  destruct (final_flush_sets st1 (disable_modes st2) q2 (proj1 H1) Cq2 Ho3 Hq3 Hs Ne2) as [S25 S7].
  set (st4 := r_flush (disable_modes st2)) in *.
  assert (r_queued st4 = []) as Q4 by apply flush_queued. clearbody st4.
  split; [|split; [reflexivity|exact Q4]].
  cbn [r_out set_raw]. unfold E in G4, S25, S7. rewrite Q4, events_nil, app_nil_r in G4, S25, S7.
  unfold net_effect. apply modes_eq_fields.
  - unfold Good3 in G4. unfold rest_eq, expected; simpl. decompose [and] G4. repeat split; assumption.
  - exact S25.
  - exact S7.
  - unfold Good3 in G4. decompose [and] G4. assumption.
Qed.

Lemma lifecycle_balanced_default_proof : forall c ops, Forall lop_ok ops ->
  c_clear c = true \/ c_fullscreen c = false ->
  net_effect (r_out (run_lifecycle c ops)) m0 = m0.
Proof.
  intros c ops H Hc. destruct (lifecycle_balanced_proof c ops H) as [E _]. rewrite E. unfold expected, m0.
  destruct Hc as [-> | ->]; [rewrite andb_false_r|]; reflexivity.
Qed.

(* ================================================================== constrain *)
Lemma clampz_range v lo hi : lo <= hi -> lo <= clampz v lo hi <= hi.
Proof. unfold clampz. intros H. destruct (v <? lo) eqn:A; [lia|]. destruct (hi <? v) eqn:B; [lia|]. apply Z.ltb_ge in A, B. lia. Qed.

Lemma so_phase_ok fuel : forall (phase : bool) cy maxLines so minOff maxOff newOff,
  minOff <= newOff <= maxOff ->
  (if phase then maxOff - newOff else newOff - minOff) < Z.of_nat fuel ->
  exists r, so_phase fuel phase cy maxLines so minOff maxOff newOff = Ok r /\ minOff <= r <= maxOff.
Proof.
  induction fuel as [|fuel IH]; intros phase cy maxLines so minOff maxOff newOff Hr Hf.
  - destruct phase; simpl in Hf; lia.
  - cbn [so_phase].
    destruct ((cy - newOff <? so) && (maxLines - (cy - newOff + 1) <? so)); [now exists newOff|].
    set (n' := if negb phase && (cy - newOff <? so) then Z.max minOff (newOff - 1)
               else if phase && (maxLines - (cy - newOff + 1) <? so) then Z.min maxOff (newOff + 1) else newOff).
    destruct (n' =? newOff) eqn:En; [now exists newOff|]. apply Z.eqb_neq in En.
    apply IH.
    + subst n'. destruct (negb phase && (cy - newOff <? so)); [lia|].
      destruct (phase && (maxLines - (cy - newOff + 1) <? so)); lia.
    + subst n'. rewrite Nat2Z.inj_succ in Hf. destruct phase; cbn [negb andb] in *.
      * destruct (maxLines - (cy - newOff + 1) <? so); lia.
      * destruct (cy - newOff <? so); lia.
Qed.

Lemma constrain_iter_ok count maxLines scrollOff cy offset :
  0 <= count -> 1 <= maxLines ->
  exists cy' off', constrain_iter count maxLines scrollOff cy offset = Ok (cy', off') /\
                   view_in_bounds count maxLines cy' off'.
Proof.
  intros Hc Hm. unfold constrain_iter.
  set (cy1 := clampz cy 0 (Z.max 0 (count - 1))).
  assert (0 <= cy1 <= Z.max 0 (count - 1)) as Hcy by (apply clampz_range; lia).
  set (minOff := Z.max (cy1 - maxLines + 1) 0). set (maxOff := Z.max (Z.min (count - maxLines) cy1) 0).
  assert (minOff <= maxOff) as Hmm by (subst minOff maxOff; lia).
  set (o1 := clampz offset minOff maxOff).
  assert (minOff <= o1 <= maxOff) as Ho1 by (apply clampz_range; exact Hmm).
  assert (forall o, minOff <= o <= maxOff -> view_in_bounds count maxLines cy1 o) as Hv.
  { intros o Ho. unfold view_in_bounds. subst minOff maxOff. lia. }
  destruct (0 <? scrollOff).
  - set (fuel := S (Z.to_nat (maxOff - minOff))).
    assert (maxOff - minOff < Z.of_nat fuel) as Hf by (subst fuel; lia).
    destruct (so_phase_ok fuel false cy1 maxLines (Z.min (maxLines / 2) scrollOff) minOff maxOff o1 Ho1) as (r1 & E1 & R1); [lia|].
    rewrite E1. cbn [bind].
    destruct (so_phase_ok fuel true cy1 maxLines (Z.min (maxLines / 2) scrollOff) minOff maxOff r1 R1) as (r2 & E2 & R2); [lia|].
    rewrite E2. cbn [bind]. exists cy1, r2. split; [reflexivity|now apply Hv].
  - exists cy1, o1. split; [reflexivity|now apply Hv].
Qed.

Lemma constrain_loop_ok tries : forall count maxLines scrollOff cy offset,
  0 <= count -> 1 <= maxLines -> (1 <= tries)%nat ->
  exists cy' off', constrain_loop tries count maxLines scrollOff cy offset = Ok (cy', off') /\
                   view_in_bounds count maxLines cy' off'.
Proof.
  induction tries as [|tries IH]; intros count maxLines scrollOff cy offset Hc Hm Ht; [lia|].
  cbn [constrain_loop].
  destruct (constrain_iter_ok count maxLines scrollOff cy offset Hc Hm) as (cy1 & o1 & E1 & V1).
  rewrite E1. cbn [bind]. destruct (o1 =? offset); [now exists cy1, o1|].
  destruct tries as [|tries']; [now exists cy1, o1|]. apply IH; [assumption|assumption|lia].
Qed.

(* constrain never fails (in particular never runs out of fuel: it terminates) and, with at least one row,
   leaves the cursor on a valid item and inside the window, whatever cy / offset / scroll-off were before *)
Lemma constrain_in_bounds_proof : forall count maxLines scrollOff cy offset,
  0 <= count -> 1 <= maxLines ->
  exists cy' off', constrain count maxLines scrollOff cy offset = Ok (cy', off') /\
                   view_in_bounds count maxLines cy' off'.
Proof.
  intros. unfold constrain. apply constrain_loop_ok; [assumption|assumption|lia].
Qed.

(* with no row at all the loop body never runs: only the offset is clamped *)
Lemma constrain_no_rows_proof : forall count maxLines scrollOff cy offset,
  0 <= count -> maxLines <= 0 ->
  exists off', constrain count maxLines scrollOff cy offset = Ok (cy, off') /\ 0 <= off' <= count.
Proof.
  intros count maxLines scrollOff cy offset Hc Hm. unfold constrain.
  replace (Z.to_nat maxLines) with O by lia. cbn [constrain_loop].
  eexists; split; [reflexivity|]. apply clampz_range; lia.
Qed.

(* ================================================================== temp files *)
Definition owned (st : tstate) : list nat :=
  t_preview st ++ t_newcmd st ++ t_box st ++ t_nextcmd st ++ t_running st.

(* a step is orderly when it does not overwrite a slot that still holds file names, and is not `become` *)
Definition ok_step (st : tstate) (e : tev) : Prop :=
  match e with
  | TReloadAct valid _ => valid = false \/ t_newcmd st = []
  | TActionsEnd => t_newcmd st = [] \/ t_box st = []
  | TCoordTake => t_box st = [] \/ (t_reading st = true /\ t_nextcmd st = []) \/ t_reading st = false
  | TBecome valid _ => valid = false
  | _ => True
  end.
Fixpoint orderly (st : tstate) (es : list tev) : Prop :=
  match es with [] => True | e :: r => ok_step st e /\ orderly (t_step st e) r end.

Definition TInv (st : tstate) : Prop :=
  (forall x, In x (t_ledger st) -> In x (owned st)) /\ (t_reading st = false -> t_running st = []).

Lemma in_list_In x l : in_list x l = true <-> In x l.
Proof.
  unfold in_list. rewrite existsb_exists. split.
  - intros (y & Hy & E). apply Nat.eqb_eq in E. now subst.
  - intros H. exists x. split; [exact H|apply Nat.eqb_refl].
Qed.
Lemma in_remove x fs l : In x (remove_files fs l) -> In x l /\ ~ In x fs.
Proof.
  unfold remove_files. rewrite filter_In. intros [H1 H2]. split; [exact H1|].
  intros H3. apply in_list_In in H3. rewrite H3 in H2. discriminate.
Qed.

Lemma t_step_inv st e : TInv st -> ok_step st e -> TInv (t_step st e).
Proof.
  intros [HI HR] Hok. unfold t_step. destruct (t_exited st); [split; assumption|].
  destruct st as [nx lg pv nc bx nn rn rd ex]. unfold TInv, owned in *. cbn [t_ledger t_preview t_newcmd t_box t_nextcmd t_running t_reading] in *.
  destruct e as [n|valid capture n|n ok| |valid n| | | |valid n|]; cbn [ok_step t_newcmd t_box t_nextcmd t_reading] in Hok.
  - split; [|exact HR]. cbn. intros x Hx. apply in_remove in Hx as [Hx Hn]. apply in_app_iff in Hx as [Hx|Hx]; [auto|contradiction].
  - destruct (negb valid && negb capture); [split; assumption|]. split; [|exact HR]. cbn.
    intros x Hx. apply in_remove in Hx as [Hx Hn]. apply in_app_iff in Hx as [Hx|Hx]; [auto|contradiction].
  - destruct pv as [|p pv]; [|split; assumption]. destruct ok; (split; [|exact HR]); cbn.
    + intros x Hx. apply in_app_iff in Hx as [Hx|Hx]; [|apply in_app_iff; now left].
      apply in_app_iff. right. exact (HI x Hx).
    + intros x Hx. apply in_remove in Hx as [Hx Hn]. apply in_app_iff in Hx as [Hx|Hx]; [exact (HI x Hx)|contradiction].
  - split; [|exact HR]. cbn. intros x Hx. apply in_remove in Hx as [Hx Hn]. specialize (HI x Hx).
    apply in_app_iff in HI as [HI|HI]; [contradiction|exact HI].
  - destruct valid; [|split; assumption]. destruct Hok as [Hok|Hok]; [discriminate|]. subst nc. split; [|exact HR]. cbn in *.
    intros x Hx. rewrite !in_app_iff in *. destruct Hx as [Hx|Hx]; [specialize (HI x Hx); rewrite !in_app_iff in HI; tauto|tauto].
  - destruct nc as [|c0 nc]; [split; assumption|]. destruct Hok as [Hok|Hok]; [discriminate|]. subst bx. split; [|exact HR]. cbn in *.
    intros x Hx. specialize (HI x Hx). cbn in *. rewrite ?in_app_iff in *. cbn in *. rewrite ?in_app_iff in *. cbn in *. tauto.
  - destruct bx as [|b0 bx]; [split; assumption|]. destruct Hok as [Hok|[[Hr Hn]|Hr]]; [discriminate| |].
    + subst rd nn. split; [|exact HR]. cbn in *. intros x Hx. specialize (HI x Hx). cbn in *. rewrite ?in_app_iff in *. cbn in *. rewrite ?in_app_iff in *. cbn in *. tauto.
    + subst rd. rewrite (HR eq_refl) in *. split; [|discriminate]. cbn in *.
      intros x Hx. specialize (HI x Hx). cbn in *. rewrite ?in_app_iff in *. cbn in *. rewrite ?in_app_iff in *. cbn in *. tauto.
  - destruct nn as [|n0 nn]; (split; [|cbn; congruence]); cbn in *.
    + intros x Hx. apply in_remove in Hx as [Hx Hn]. specialize (HI x Hx). cbn in *. rewrite ?in_app_iff in *. cbn in *. rewrite ?in_app_iff in *. cbn in *. tauto.
    + intros x Hx. apply in_remove in Hx as [Hx Hn]. specialize (HI x Hx). cbn in *. rewrite ?in_app_iff in *. cbn in *. rewrite ?in_app_iff in *. cbn in *. tauto.
  - subst valid. split; assumption.
  - split; assumption.
Qed.

Lemma t_run_inv es : forall st, TInv st -> orderly st es -> TInv (t_run st es).
Proof.
  induction es as [|e es IH]; intros st HI Ho; [exact HI|]. destruct Ho as [H1 H2].
  unfold t_run in *; simpl. apply IH; [now apply t_step_inv|exact H2].
Qed.

(* every file created by a placeholder expansion has been removed once nothing is pending any more,
   on every orderly history (any number and order of scroll-offset evaluations, execute / transform commands
   whatever their outcome, previews that finish, are killed or fail to start, reloads that are consumed before the
   next one overwrites them) *)
Lemma tempfiles_removed_partial_proof : forall es,
  orderly t0 es -> owned (t_run t0 es) = [] -> t_ledger (t_run t0 es) = [].
Proof.
  intros es Ho Hq.
  assert (TInv t0) as H0 by (split; [intros x []|discriminate]).
  destruct (t_run_inv es t0 H0 Ho) as [HI _]. rewrite Hq in HI.
  destruct (t_ledger (t_run t0 es)) as [|x l]; [reflexivity|]. destruct (HI x (or_introl eq_refl)).
Qed.

(* the synchronous paths never leave anything, whatever else is going on *)
Lemma sync_paths_clean_proof : forall st e,
  (exists n, e = TScroll n) \/ (exists v c n, e = TExecute v c n) ->
  (forall x, In x (t_ledger (t_step st e)) -> In x (t_ledger st)).
Proof.
  intros st e He x. unfold t_step. destruct (t_exited st); [auto|].
  destruct st as [nx lg pv nc bx nn rn rd ex].
  destruct He as [[n ->]|(v & c & n & ->)]; cbn.
  - intros Hx. apply in_remove in Hx as [Hx Hn]. apply in_app_iff in Hx as [Hx|Hx]; [exact Hx|contradiction].
  - destruct (negb v && negb c); cbn; [auto|].
    intros Hx. apply in_remove in Hx as [Hx Hn]. apply in_app_iff in Hx as [Hx|Hx]; [exact Hx|contradiction].
Qed.

(* The unrestricted statement is FALSE of the faithful model (and of fzf: known findings
   c14-tempfile-double-reload, c14-tempfile-exit-during-reload; `become` is the documented exception) *)
Lemma tempfiles_removed_refuted_proof :
  (exists es, owned (t_run t0 es) = [] /\ t_exited (t_run t0 es) = true /\ t_ledger (t_run t0 es) <> []) /\
  (exists es, t_exited (t_run t0 es) = true /\ t_ledger (t_run t0 es) <> [] /\ Forall (fun e => match e with TBecome _ _ => False | _ => True end) es /\ orderly t0 es).
Proof.
  split.
  - exists [TReadFin; TReloadAct true 1; TReloadAct true 1; TActionsEnd; TCoordTake; TReadFin; TExit].
    vm_compute. repeat split; discriminate.
  - exists [TReadFin; TReloadAct true 1; TActionsEnd; TCoordTake; TExit].
    split; [reflexivity|split; [vm_compute; discriminate|split]].
    + repeat constructor.
    + vm_compute. tauto.
Qed.

(* ------------------------------------------------------------------ the --tmux popup proxy *)
(* the inner fzf writes <script>.become only on its way out with status ExitBecome (126) *)
Definition penv_consistent (e : penv) : Prop :=
  pe_inner_become e = true -> pe_child e = 126 /\ pe_exiterr e = true.

Lemma proxy_files_removed_proof : forall e, penv_consistent e -> pr_left (run_proxy e) = [].
Proof.
  intros [tty ook iok bok ch xe ib tok] H. unfold penv_consistent in H. cbn in H.
  unfold run_proxy. cbn.
  destruct ook; [|reflexivity].
  destruct ib.
  - destruct (H eq_refl) as [-> ->]. destruct tty, iok, bok, tok; reflexivity.
  - clear H. destruct tty, iok, bok; cbn; try reflexivity;
      (destruct (ch =? 0); [reflexivity|]; destruct xe; [|reflexivity]; destruct (ch =? 126); reflexivity).
Qed.

(* the hypothesis is needed: a become file written by an inner fzf whose popup is then closed from outside
   (status 129 instead of 126) is left behind *)
Lemma proxy_files_removed_needs_consistency_proof :
  exists e, pe_child e <> 126 /\ pr_left (run_proxy e) = [PFBecome].
Proof. exists (mkPenv false true true true 129 true true true). split; [discriminate|reflexivity]. Qed.

(* what exists while the popup is open: output fifo, input fifo iff standard input is not a terminal, script *)
Lemma proxy_live_files_proof : forall e, pe_out_ok e = true -> pe_builder_ok e = true -> (pe_stdin_tty e = true \/ pe_in_ok e = true) ->
  pr_live (run_proxy e) = if pe_stdin_tty e then [PFOut; PFScript] else [PFOut; PFIn; PFScript].
Proof.
  intros [tty ook iok bok ch xe ib tok]. cbn. intros -> -> H. unfold run_proxy. cbn.
  destruct tty; cbn.
  - destruct (ch =? 0); [reflexivity|]. destruct xe; [|reflexivity]. destruct (ch =? 126); [|reflexivity].
    destruct ib; cbn; [destruct tok|]; reflexivity.
  - destruct H as [H|H]; [discriminate|]. rewrite H. cbn.
    destruct (ch =? 0); [reflexivity|]. destruct xe; [|reflexivity]. destruct (ch =? 126); [|reflexivity].
    destruct ib; cbn; [destruct tok|]; reflexivity.
Qed.
