(* C08: EvtSearchNew handler, part B: residual requests with a command, and the assembled step lemma. *)
From Fzf Require Import Prelude CoordSpec CoordModel CoordFlat CoordProofs CoordTac CoordInvSearchA.
Open Scope Z_scope.

(* the residual request carries a command while the reader is still running: the command is queued *)
Lemma inv_search_res_queue s v c : Inv s -> e_search s = Some v -> q_nth v = None -> q_deny v = [] ->
  q_cmd v = Some c -> c_reading s = true -> Inv (coord_search_flat s).
Proof.
  intros H E E1 E2 E3 E4. res_start H E.
  res_finish.
Qed.

(* the residual request carries a command and the reader has finished: restart at once *)
Lemma inv_search_res_restart s v c : Inv s -> e_search s = Some v -> q_nth v = None -> q_deny v = [] ->
  q_cmd v = Some c -> c_reading s = false -> Inv (coord_search_flat s).
Proof.
  intros H E E1 E2 E3 E4. res_start H E.
  res_finish.
  all: try solve [destruct q_sync; simpl in *; try discriminate; arith; intuition lia].
Qed.

Lemma payload_search s v : e_search s = Some v ->
  e_search (payload s) = Some (mkSreq (q_sort v) (q_sync v) None (q_cmd v) (q_changed v) [] (q_rev v)) /\
  c_reading (payload s) = c_reading s.
Proof. intro E. unfold payload. rewrite E. destruct s. split; reflexivity. Qed.

Lemma inv_coordsearch s : Inv s -> Inv (step s LCoordSearch).
Proof.
  intro H. unfold step, step_r. rewrite coord_search_flat_eq.
  destruct (e_search s) as [v|] eqn:E.
  - rewrite search_after_payload. pose proof (inv_payload s H) as H'.
    destruct (payload_search s v E) as [E' R].
    destruct (q_cmd v) as [c|] eqn:Ec.
    + destruct (c_reading s) eqn:Er.
      * eapply inv_search_res_queue; [exact H' | exact E' | reflexivity | reflexivity | reflexivity | congruence].
      * eapply inv_search_res_restart; [exact H' | exact E' | reflexivity | reflexivity | reflexivity | congruence].
    + eapply inv_search_res_nocmd; [exact H' | exact E' | reflexivity | reflexivity | reflexivity].
  - unfold coord_search_flat. rewrite E. exact H.
Qed.
