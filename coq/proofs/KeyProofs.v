(* buildResult refines the documented keys: for in-range offsets, at most four criteria and a line of at most
   65535 characters, the points computed by RankModel.build_result are RankSpec.key (padded with zeros),
   read from points[3] down to points[0]. *)
From Fzf Require Import Prelude RankSpec RankModel RankProofs.
Open Scope Z_scope.

Lemma as_uint16_clamp z : as_uint16 z = clamp16 z.
Proof.
  unfold as_uint16, clamp16. rewrite Z.gtb_ltb.
  destruct (Z.ltb_spec 65535 z), (Z.ltb_spec z 0); try reflexivity; lia.
Qed.

Lemma get_firstn_snoc {A} (t : list A) m c : get t m = Ok c -> firstn (S m) t = firstn m t ++ [c].
Proof.
  revert m; induction t as [|x t IH]; intros [|m] H; cbn in *; try discriminate.
  - now inversion H.
  - f_equal. now apply IH.
Qed.

Lemma get_skipn {A} (t : list A) m c : get t m = Ok c -> skipn m t = c :: skipn (S m) t.
Proof.
  revert m; induction t as [|x t IH]; intros [|m] H; cbn in *; try discriminate.
  - now inversion H.
  - now apply IH.
Qed.

Lemma get_some {A} (t : list A) m : (m < length t)%nat -> exists c, get t m = Ok c.
Proof.
  revert m; induction t as [|x t IH]; intros [|m] H; cbn in *; try lia; [now exists x|apply IH; lia].
Qed.

Lemma getz_nat {A} (t : list A) (m : nat) : getz t (Z.of_nat m) = get t m.
Proof. unfold getz. destruct (Z.ltb_spec (Z.of_nat m) 0); [lia|]. now rewrite Nat2Z.id. Qed.

Lemma take_while_all {A} (p : A -> bool) l : zlen (take_while p l) = zlen l <-> take_while p l = l.
Proof.
  split; [|intros ->; reflexivity]. unfold zlen. induction l as [|x t IH]; cbn; [reflexivity|].
  destruct (p x); cbn; [intro H; f_equal; apply IH; lia|lia].
Qed.

Lemma take_while_le {A} (p : A -> bool) l : zlen (take_while p l) <= zlen l.
Proof. unfold zlen. induction l as [|x t IH]; cbn; [lia|]. destruct (p x); cbn; lia. Qed.

Lemma take_while_forall {A} (p : A -> bool) l : take_while p l = l <-> forallb p l = true.
Proof.
  induction l as [|x t IH]; cbn; [split; intros; reflexivity|]. destruct (p x); cbn; [|split; discriminate].
  rewrite <- IH. split; [intro H; injection H; auto|intros ->; reflexivity].
Qed.

Lemma forallb_rev {A} (p : A -> bool) l : forallb p (rev l) = forallb p l.
Proof.
  induction l as [|x t IH]; cbn; [reflexivity|]. rewrite forallb_app, IH. cbn. rewrite andb_true_r. apply andb_comm.
Qed.

Section Key.
Variable sp : Z -> bool.
Notation isp := (RankSpec.is_space sp).
Notation nsp := (RankSpec.not_space sp).

(* ---- scanning backwards while a predicate holds ---- *)
Fixpoint back (p : Z -> bool) (t : str) (fuel : nat) (i : Z) : res Z :=
  match fuel with
  | O => Err OutOfFuel
  | S f => if i >=? 0 then (do c <- getz t i; if p c then back p t f (i - 1) else Ok i) else Ok i
  end.

Lemma back_spec p t : forall n fuel, (n <= length t)%nat -> (n < fuel)%nat ->
  back p t fuel (Z.of_nat n - 1) = Ok (Z.of_nat n - 1 - zlen (take_while p (rev (firstn n t)))).
Proof.
  induction n as [|m IH]; intros fuel Hn Hf; (destruct fuel as [|f]; [lia|]); cbn [back].
  - cbn. reflexivity.
  - destruct (Z.geb_spec (Z.of_nat (S m) - 1) 0); [|lia].
    replace (Z.of_nat (S m) - 1) with (Z.of_nat m) by lia. rewrite getz_nat.
    destruct (get_some t m ltac:(lia)) as [c Hc]. rewrite Hc. cbn [bind].
    rewrite (get_firstn_snoc _ _ _ Hc), rev_app_distr. cbn [rev app take_while].
    destruct (p c).
    + rewrite IH by lia. f_equal. unfold zlen. cbn [length]. lia.
    + unfold zlen. cbn. f_equal. lia.
Qed.

Lemma trim_back_back t : forall fuel i, trim_back isp t fuel i = back isp t fuel i.
Proof.
  induction fuel as [|f IH]; intro i; cbn; [reflexivity|]. destruct (i >=? 0); [|reflexivity].
  destruct (getz t i) as [c|e]; cbn; [|reflexivity]. destruct (isp c); cbn; [apply IH|reflexivity].
Qed.

Lemma chunk_b_back t : forall fuel b, chunk_b isp t fuel b = do i <- back nsp t fuel (b - 1); Ok (i + 1).
Proof.
  induction fuel as [|f IH]; intro b; cbn; [reflexivity|].
  replace (b - 1 >=? 0) with (b >=? 1) by (destruct (Z.geb_spec b 1), (Z.geb_spec (b - 1) 0); try reflexivity; lia).
  destruct (b >=? 1); [|cbn; f_equal; lia].
  destruct (getz t (b - 1)) as [c|e]; cbn; [|reflexivity]. unfold RankSpec.not_space.
  destruct (isp c); cbn; [f_equal; lia|apply IH].
Qed.

Lemma last_delim_back t : forall fuel i,
  last_delim t fuel i = do r <- back (fun c => negb (is_sep c)) t fuel i; Ok (if r <? 0 then -1 else r).
Proof.
  induction fuel as [|f IH]; intro i; cbn; [reflexivity|]. destruct (Z.geb_spec i 0).
  - destruct (getz t i) as [c|e]; cbn; [|reflexivity]. unfold is_sep.
    destruct ((c =? 47) || (c =? 92)); cbn; [destruct (Z.ltb_spec i 0); [lia|reflexivity]|apply IH].
  - cbn. destruct (Z.ltb_spec i 0); [reflexivity|lia].
Qed.

(* ---- scanning forwards ---- *)
Fixpoint fwd (p : Z -> bool) (t : str) (fuel : nat) (j : Z) : res Z :=
  match fuel with
  | O => Err OutOfFuel
  | S f => if j <? zlength t then (do c <- getz t j; if p c then fwd p t f (j + 1) else Ok j) else Ok j
  end.

Lemma fwd_spec p t : forall fuel n, (n <= length t)%nat -> (length t - n < fuel)%nat ->
  fwd p t fuel (Z.of_nat n) = Ok (Z.of_nat n + zlen (take_while p (skipn n t))).
Proof.
  induction fuel as [|f IH]; intros n Hn Hf; [lia|]. cbn [fwd]. unfold zlength.
  destruct (Z.ltb_spec (Z.of_nat n) (Z.of_nat (length t))).
  - rewrite getz_nat. destruct (get_some t n ltac:(lia)) as [c Hc]. rewrite Hc. cbn [bind].
    rewrite (get_skipn _ _ _ Hc). cbn [take_while]. destruct (p c).
    + replace (Z.of_nat n + 1) with (Z.of_nat (S n)) by lia. rewrite IH by lia. f_equal. unfold zlen. cbn [length]. lia.
    + unfold zlen. cbn. f_equal. lia.
  - rewrite skipn_all2 by lia. unfold zlen. cbn. f_equal. lia.
Qed.

Lemma trim_front_fwd t : forall fuel j, trim_front isp t fuel j = fwd isp t fuel j.
Proof.
  induction fuel as [|f IH]; intro j; cbn; [reflexivity|]. destruct (j <? zlength t); [|reflexivity].
  destruct (getz t j) as [c|e]; cbn; [|reflexivity]. destruct (isp c); cbn; [apply IH|reflexivity].
Qed.

Lemma chunk_e_fwd t : forall fuel e, chunk_e isp t fuel e = fwd nsp t fuel e.
Proof.
  induction fuel as [|f IH]; intro j; cbn; [reflexivity|]. destruct (j <? zlength t); [|reflexivity].
  destruct (getz t j) as [c|e]; cbn; [|reflexivity]. unfold RankSpec.not_space. destruct (isp c); cbn; [reflexivity|apply IH].
Qed.

(* ---- Chars.TrimLength ---- *)
Lemma trim_length_spec t : trim_length isp t = Ok (clamp16 (trim_len sp t)).
Proof.
  unfold trim_length. rewrite trim_back_back. unfold zlength.
  rewrite (back_spec isp t (length t) (S (length t))) by lia. cbn [bind].
  rewrite firstn_all. fold (trail_ws sp t). unfold trim_len.
  assert (Hall : trail_ws sp t = zlen t <-> lead_ws sp t = zlen t).
  { unfold trail_ws, lead_ws. replace (zlen t) with (zlen (rev t)) at 1 by (unfold zlen; now rewrite rev_length).
    rewrite !take_while_all, !take_while_forall. now rewrite forallb_rev. }
  pose proof (take_while_le isp (rev t)) as Ht. unfold zlen in Ht at 2. rewrite rev_length in Ht. fold (trail_ws sp t) in Ht.
  unfold zlen in *. destruct (Z.ltb_spec (Z.of_nat (length t) - 1 - trail_ws sp t) 0).
  - assert (E : trail_ws sp t = Z.of_nat (length t)) by lia. apply Hall in E. rewrite E, Z.eqb_refl. reflexivity.
  - rewrite trim_front_fwd.
    rewrite (fwd_spec isp t (S (length t)) 0 ltac:(lia) ltac:(lia) : fwd isp t (S (length t)) 0 = _). cbn [bind skipn].
    fold (lead_ws sp t). destruct (Z.eqb_spec (lead_ws sp t) (Z.of_nat (length t))) as [E|E].
    + apply Hall in E. lia.
    + rewrite as_uint16_clamp. f_equal. f_equal. cbn. lia.
Qed.

(* ---- the white-space prefix loop of begin/end ---- *)
Lemma white_prefix_spec t mb : forall fuel n w, (n <= mb)%nat -> (mb < length t)%nat -> (mb - n < fuel)%nat ->
  white_prefix isp t fuel (Z.of_nat n) (Z.of_nat mb) w
  = Ok (Z.min (Z.of_nat n + zlen (take_while isp (skipn n t))) (Z.of_nat mb)).
Proof.
  induction fuel as [|f IH]; intros n w Hn Hmb Hf; [lia|]. cbn [white_prefix]. unfold zlength.
  destruct (Z.ltb_spec (Z.of_nat n) (Z.of_nat (length t))); [|lia].
  rewrite getz_nat. destruct (get_some t n ltac:(lia)) as [c Hc]. rewrite Hc. cbn [bind].
  rewrite (get_skipn _ _ _ Hc). cbn [take_while].
  destruct (Z.eqb_spec (Z.of_nat n) (Z.of_nat mb)) as [E|E]; cbn [orb].
  - f_equal. pose proof (take_while_le isp (skipn (S n) t)). unfold zlen in *. destruct (isp c); cbn [length]; lia.
  - destruct (isp c); cbn [negb].
    + replace (Z.of_nat n + 1) with (Z.of_nat (S n)) by lia. rewrite IH by lia. f_equal. unfold zlen. cbn [length]. lia.
    + unfold zlen. cbn. f_equal. lia.
Qed.

(* ---- the offsets loop ---- *)
Lemma fold_min_acc b m l : fold_right Z.min (Z.min b m) l = Z.min b (fold_right Z.min m l).
Proof. induction l as [|x l IH]; cbn; [reflexivity|]. rewrite IH. lia. Qed.
Lemma fold_max_acc b m l : fold_right Z.max (Z.max b m) l = Z.max b (fold_right Z.max m l).
Proof. induction l as [|x l IH]; cbn; [reflexivity|]. rewrite IH. lia. Qed.
Lemma fold_min_init b M l : b <= M -> Z.min b (fold_right Z.min M l) = fold_right Z.min b l.
Proof. intro H. induction l as [|x l IH]; cbn; [lia|]. rewrite <- IH. lia. Qed.
Lemma fold_max_init e M l : M <= e -> Z.max e (fold_right Z.max M l) = fold_right Z.max e l.
Proof. intro H. induction l as [|x l IH]; cbn; [lia|]. rewrite <- IH. lia. Qed.

Lemma scan_offsets_spec offs : forall s,
  let v := valid_offsets offs in
  scan_offsets offs s =
  mkSpan (fold_right Z.min (min_begin s) (map fst v)) (fold_right Z.min (min_end s) (map snd v))
         (fold_right Z.max (max_end s) (map snd v)) (valid_found s || nonemptyb v).
Proof.
  induction offs as [|[b e] r IH]; intro s; cbn.
  - destruct s; cbn. now rewrite orb_false_r.
  - destruct (b <? e); cbn.
    + rewrite IH. cbn. rewrite !fold_min_acc, fold_max_acc. f_equal; try lia; now rewrite ?orb_true_r.
    + apply IH.
Qed.

Definition offsets_ok (n : Z) (offs : list (Z * Z)) : Prop :=
  Forall (fun o => fst o < snd o -> 0 <= fst o /\ snd o <= n) offs.

Lemma valid_bounds n offs : offsets_ok n offs ->
  Forall (fun o => 0 <= fst o < snd o /\ snd o <= n) (valid_offsets offs).
Proof.
  unfold offsets_ok, valid_offsets. induction 1 as [|[b e] r H F IH]; cbn; [constructor|].
  destruct (Z.ltb_spec b e); [constructor; [cbn in *; lia|exact IH]|exact IH].
Qed.

Lemma fold_min_bounds lo hi b l : lo <= b <= hi -> Forall (fun x => lo <= x <= hi) l ->
  lo <= fold_right Z.min b l <= b.
Proof. intros Hb F. induction F; cbn; lia. Qed.
Lemma fold_max_bounds lo hi e l : lo <= e <= hi -> Forall (fun x => lo <= x <= hi) l ->
  e <= fold_right Z.max e l <= hi.
Proof. intros Hb F. induction F; cbn; lia. Qed.

(* criterion codes of options.go *)
Definition code (c : crit) : Z :=
  match c with ByScore => 0 | ByChunk => 1 | ByLength => 2 | ByBegin => 3 | ByEnd => 4 | ByPathname => 5 end.

Lemma crit_val_code c t s score :
  crit_val isp (code c) t s score =
  match c with
  | ByScore => Ok (65535 - as_uint16 score)
  | ByChunk =>
      if valid_found s then
        do b <- chunk_b isp t (S (Z.to_nat (min_begin s))) (min_begin s);
        do e <- chunk_e isp t (S (length t)) (max_end s);
        Ok (as_uint16 (e - b))
      else Ok 65535
  | ByLength => trim_length isp t
  | ByPathname =>
      if valid_found s then
        do ld <- last_delim t (S (length t)) (zlength t - 1);
        if ld <=? min_begin s then Ok (as_uint16 (min_begin s - ld)) else Ok 65535
      else Ok 65535
  | ByBegin =>
      if valid_found s then
        do wpl <- white_prefix isp t (S (length t)) 0 (min_begin s) 0;
        Ok (as_uint16 (min_end s - wpl))
      else Ok 65535
  | ByEnd =>
      if valid_found s then
        do wpl <- white_prefix isp t (S (length t)) 0 (min_begin s) 0;
        do tl <- trim_length isp t;
        Ok (as_uint16 (65535 - Z.quot (65535 * (max_end s - wpl)) (tl + 1)))
      else Ok 65535
  end.
Proof. destruct c; reflexivity. Qed.

Lemma crit_val_spec c t offs score : zlen t <= 65535 -> offsets_ok (zlen t) offs ->
  crit_val isp (code c) t (scan_offsets offs (mkSpan 65535 65535 0 false)) score = Ok (key1 sp c t offs score).
Proof.
  intros Hlen Hok. rewrite crit_val_code, scan_offsets_spec. cbn [min_begin min_end max_end valid_found orb].
  pose proof (valid_bounds _ _ Hok) as Hv. unfold key1, RankSpec.span.
  destruct (valid_offsets offs) as [|[b e] r] eqn:Ev.
  - (* no matched substring *)
    destruct c; cbn [nonemptyb]; try reflexivity.
    + now rewrite as_uint16_clamp.
    + apply trim_length_spec.
  - inversion Hv as [|? ? Hbe Hr]; subst. cbn [fst snd] in Hbe.
    assert (Hfs : Forall (fun x => 0 <= x <= zlen t) (map fst r)).
    { clear -Hr. induction Hr as [|[b' e'] r' H F IH]; cbn; constructor; [cbn in H; lia|exact IH]. }
    assert (Hsn : Forall (fun x => 0 <= x <= zlen t) (map snd r)).
    { clear -Hr. induction Hr as [|[b' e'] r' H F IH]; cbn; constructor; [cbn in H; lia|exact IH]. }
    cbn [map fst snd fold_right nonemptyb].
    rewrite (fold_min_init b 65535) by lia. rewrite (fold_min_init e 65535) by lia. rewrite (fold_max_init e 0) by lia.
    set (mb := fold_right Z.min b (map fst r)). set (me := fold_right Z.min e (map snd r)).
    set (xe := fold_right Z.max e (map snd r)).
    assert (Hmb : 0 <= mb <= b) by (apply (fold_min_bounds 0 (zlen t)); [lia|exact Hfs]).
    assert (Hme : 0 <= me <= e) by (apply (fold_min_bounds 0 (zlen t)); [lia|exact Hsn]).
    assert (Hxe : e <= xe <= zlen t) by (apply (fold_max_bounds 0 (zlen t)); [lia|exact Hsn]).
    unfold zlen in Hlen, Hmb, Hme, Hxe, Hbe.
    destruct c; cbn [min_begin min_end max_end valid_found].
    + now rewrite as_uint16_clamp.
    + (* chunk *)
      rewrite chunk_b_back. replace mb with (Z.of_nat (Z.to_nat mb)) at 2 by lia.
      rewrite (back_spec nsp t (Z.to_nat mb)) by lia. cbn [bind].
      rewrite chunk_e_fwd. replace xe with (Z.of_nat (Z.to_nat xe)) at 1 by lia.
      rewrite (fwd_spec nsp t (S (length t)) (Z.to_nat xe)) by lia. cbn [bind].
      rewrite as_uint16_clamp. unfold word_end, word_start. f_equal. f_equal. lia.
    + apply trim_length_spec.
    + (* begin *)
      replace mb with (Z.of_nat (Z.to_nat mb)) at 1 by lia.
      rewrite (white_prefix_spec t (Z.to_nat mb) (S (length t)) 0 0 ltac:(lia) ltac:(lia) ltac:(lia)
                 : white_prefix isp t (S (length t)) 0 (Z.of_nat (Z.to_nat mb)) 0 = _). cbn [bind Z.of_nat skipn Z.add].
      fold (lead_ws sp t). rewrite as_uint16_clamp. f_equal. f_equal. f_equal. lia.
    + (* end *)
      replace mb with (Z.of_nat (Z.to_nat mb)) at 1 by lia.
      rewrite (white_prefix_spec t (Z.to_nat mb) (S (length t)) 0 0 ltac:(lia) ltac:(lia) ltac:(lia)
                 : white_prefix isp t (S (length t)) 0 (Z.of_nat (Z.to_nat mb)) 0 = _). cbn [bind Z.of_nat skipn Z.add].
      fold (lead_ws sp t). rewrite trim_length_spec. cbn [bind]. rewrite as_uint16_clamp.
      replace (Z.of_nat (Z.to_nat mb)) with mb by lia.
      assert (Hc : 0 <= clamp16 (trim_len sp t)) 
        by (unfold clamp16; destruct (Z.ltb_spec (trim_len sp t) 0); [lia|destruct (Z.ltb_spec 65535 (trim_len sp t)); lia]).
      assert (Hl : 0 <= lead_ws sp t) by (unfold lead_ws, zlen; lia).
      rewrite Z.quot_div_nonneg by nia. reflexivity.
    + (* pathname *)
      rewrite last_delim_back. unfold zlength.
      replace (Z.of_nat (length t) - 1) with (Z.of_nat (length t) - 1) by lia.
      rewrite (back_spec (fun c => negb (is_sep c)) t (length t) (S (length t))) by lia. cbn [bind].
      rewrite firstn_all. unfold last_sep, zlen.
      set (ls := Z.of_nat (length t) - 1 - Z.of_nat (length (take_while (fun c => negb (is_sep c)) (rev t)))).
      assert (Hls : -1 <= ls).
      { pose proof (take_while_le (fun c => negb (is_sep c)) (rev t)) as H. unfold zlen in H. rewrite rev_length in H. unfold ls. lia. }
      destruct (Z.ltb_spec ls 0).
      * replace ls with (-1) by lia. destruct (Z.leb_spec (-1) mb); [|lia]. now rewrite as_uint16_clamp.
      * destruct (Z.leb_spec ls mb); [now rewrite as_uint16_clamp|reflexivity].
Qed.

Lemma clamp16_range z : 0 <= clamp16 z <= 65535.
Proof. unfold clamp16. destruct (Z.ltb_spec z 0); [lia|]. destruct (Z.ltb_spec 65535 z); lia. Qed.

Lemma key1_u16 c t offs score : u16 (key1 sp c t offs score).
Proof.
  unfold u16, key1.
  assert (R : forall z, 0 <= clamp16 z < 65536) by (intro z; pose proof (clamp16_range z); lia).
  destruct c.
  - pose proof (R score). lia.
  - destruct (RankSpec.span offs) as [[[mb me] xe]|]; [apply R|lia].
  - apply R.
  - destruct (RankSpec.span offs) as [[[mb me] xe]|]; [apply R|lia].
  - destruct (RankSpec.span offs) as [[[mb me] xe]|]; [apply R|lia].
  - destruct (RankSpec.span offs) as [[[mb me] xe]|]; [|lia]. destruct (_ <=? _); [apply R|lia].
Qed.

(* buildResult = key, for every list of at most four criteria; the points are within uint16 *)
Theorem build_result_is_key_proof : forall (crits : list crit) idx t offs score,
  (length crits <= 4)%nat -> zlen t <= 65535 -> offsets_ok (zlen t) offs ->
  exists p, build_result isp (map code crits) (mkItem idx t) offs score = Ok (mkResult idx p) /\
            key_of_points p = key sp crits t offs score ++ repeat 0 (4 - length crits) /\
            wf_points p.
Proof.
  intros crits idx t offs score Hn Hlen Hok. unfold build_result. cbn [it_text it_index].
  destruct crits as [|c1 [|c2 [|c3 [|c4 [|c5 r]]]]]; cbn [length] in Hn; try lia;
    cbn [map fill_points key]; rewrite ?crit_val_spec by assumption; cbn; eexists; (split; [reflexivity|]);
    (split; [reflexivity|]); cbn; repeat split; try apply key1_u16; unfold u16; lia.
Qed.

End Key.
