(* Basic facts about subsequences, witnesses and greedy matching (C02/C03 vocabulary).
   The first part is generic in the matching predicate [M c p] ("text character c matches pattern
   character p") so that the same lemmas serve the real folding comparison and the byte-level
   comparison of the ASCII prefilter.  The second part instantiates [M] with [fold co cs nm c =? p]
   and states the lemmas on AlgoSpec's [subseq_b] / [witness]. *)
From Fzf Require Import Prelude AlgoSpec.
Open Scope nat_scope.

(* ---------- small list utilities ---------- *)

Lemma skipn_cons_nth {A} (l : list A) i c r :
  skipn i l = c :: r -> nth_error l i = Some c /\ skipn (S i) l = r.
Proof.
  revert i; induction l as [|a l IH]; intros [|i] H; cbn in *; try discriminate.
  - inversion H; subst; auto.
  - apply IH in H. exact H.
Qed.

Lemma skipn_add {A} a b (l : list A) : skipn a (skipn b l) = skipn (a + b) l.
Proof.
  revert l; induction b as [|b IH]; intros l; [now rewrite Nat.add_0_r|].
  rewrite Nat.add_succ_r. destruct l; cbn [skipn]; [now destruct a|apply IH].
Qed.

Lemma In_skipn' {A} (x : A) n l : In x (skipn n l) -> In x l.
Proof. intros H. rewrite <- (firstn_skipn n l). apply in_or_app. now right. Qed.

Lemma In_firstn' {A} (x : A) n l : In x (firstn n l) -> In x l.
Proof. intros H. rewrite <- (firstn_skipn n l). apply in_or_app. now left. Qed.

Lemma window_app {A} (l1 l2 l3 : list A) n m :
  length l1 = n -> length l2 = m -> firstn m (skipn n (l1 ++ l2 ++ l3)) = l2.
Proof.
  intros H1 H2. rewrite skipn_app, skipn_all2 by lia. cbn [app].
  replace (n - length l1) with 0 by lia. cbn [skipn].
  rewrite firstn_app, firstn_all2 by lia. replace (m - length l2) with 0 by lia.
  cbn [firstn]. apply app_nil_r.
Qed.

Lemma tl_rev {A} (w : list A) : tl (rev w) = rev (removelast w).
Proof.
  destruct w as [|a w]; [reflexivity|].
  assert (Hne : a :: w <> []) by discriminate.
  rewrite (app_removelast_last a Hne) at 1. rewrite rev_app_distr. reflexivity.
Qed.

Lemma removelast_rev {A} (w : list A) : removelast (rev w) = rev (tl w).
Proof. destruct w as [|a w]; [reflexivity|]. cbn [rev tl]. apply removelast_last. Qed.

Lemma last_default_irrel {A} (l : list A) d d' : l <> [] -> last l d = last l d'.
Proof. induction l as [|a l IH]; intros H; [congruence|]. destruct l; [reflexivity|]. cbn [last] in *. apply IH. discriminate. Qed.

Lemma last_cons_default {A} (p : A) l d : last (p :: l) d = last l p.
Proof. destruct l as [|q l]; [reflexivity|]. change (last (p :: q :: l) d) with (last (q :: l) d). apply last_default_irrel. discriminate. Qed.

(* strictly increasing positions inside [lo, hi):  lo <= p1 < p2 < ... < pk < hi *)
Fixpoint incr2 (lo hi : nat) (pos : list nat) : Prop :=
  match pos with
  | [] => lo <= hi
  | p :: r => lo <= p /\ incr2 (S p) hi r
  end.

Lemma incr2_le lo hi pos : incr2 lo hi pos -> lo <= hi.
Proof. revert lo; induction pos as [|p r IH]; intros lo H; cbn in H; [assumption|]. destruct H as [H1 H2]. apply IH in H2. lia. Qed.

Lemma incr2_weaken lo lo' hi hi' pos : lo' <= lo -> hi <= hi' -> incr2 lo hi pos -> incr2 lo' hi' pos.
Proof.
  revert lo lo'; induction pos as [|p r IH]; intros lo lo' Hl Hh H; cbn in *; [lia|].
  destruct H as [H1 H2]. split; [lia|]. eapply IH; eauto.
Qed.

Lemma incr2_snoc lo hi a x : incr2 lo hi (a ++ [x]) <-> incr2 lo x a /\ S x <= hi.
Proof.
  revert lo; induction a as [|p a IH]; intros lo; cbn.
  - lia.
  - rewrite IH. tauto.
Qed.

Lemma incr2_Forall lo hi pos : incr2 lo hi pos -> Forall (fun p => lo <= p < hi) pos.
Proof.
  revert lo; induction pos as [|p r IH]; intros lo H; cbn in H; constructor.
  - destruct H as [H1 H2]. apply incr2_le in H2. lia.
  - destruct H as [H1 H2]. apply IH in H2. eapply Forall_impl; [|exact H2]. cbn. intros; lia.
Qed.

(* the usual reading: earlier entries are smaller *)
Lemma incr2_nth lo hi pos : incr2 lo hi pos ->
  forall i j d, i < j < length pos -> nth i pos d < nth j pos d.
Proof.
  revert lo; induction pos as [|p r IH]; intros lo H i j d Hij; cbn in *; [lia|].
  destruct H as [H1 H2]. destruct j as [|j]; [lia|]. destruct i as [|i].
  - apply incr2_Forall in H2. rewrite Forall_forall in H2.
    assert (Hin : In (nth j r d) r) by (apply nth_In; lia). apply H2 in Hin. lia.
  - eapply IH; eauto. lia.
Qed.

Lemma incr2_rev_map n lo hi pos : incr2 lo hi pos -> hi <= n ->
  incr2 (n - hi) (n - lo) (rev (map (fun p => n - 1 - p) pos)).
Proof.
  revert lo; induction pos as [|p r IH]; intros lo H Hn; cbn [map rev].
  - cbn in *. lia.
  - cbn in H. destruct H as [H1 H2]. apply incr2_snoc. split.
    + replace (n - 1 - p) with (n - S p) by lia. apply IH; assumption.
    + apply incr2_le in H2. lia.
Qed.

Lemma Forall2_rev {A B} (R : A -> B -> Prop) a b : Forall2 R a b -> Forall2 R (rev a) (rev b).
Proof.
  induction 1 as [|x y a b Hxy Hab IH]; cbn; [constructor|].
  apply Forall2_app; [assumption|]. constructor; [assumption|constructor].
Qed.

Lemma Forall2_impl' {A B} (R R' : A -> B -> Prop) a b :
  (forall x y, R x y -> R' x y) -> Forall2 R a b -> Forall2 R' a b.
Proof. intros HR. induction 1; constructor; auto. Qed.

Lemma Forall2_len {A B} (R : A -> B -> Prop) a b : Forall2 R a b -> length a = length b.
Proof. induction 1; cbn; auto. Qed.

(* ---------- generic part ---------- *)

Section Generic.
Variable M : Z -> Z -> bool.   (* M c p : text character c matches pattern character p *)

Fixpoint gsub (t pat : list Z) : bool :=
  match pat with
  | [] => true
  | p :: pat' =>
      match t with
      | [] => false
      | c :: t' => if M c p then gsub t' pat' else gsub t' pat
      end
  end.

Lemma gsub_nil_r t : gsub t [] = true.
Proof. destruct t; reflexivity. Qed.

Inductive Sub : list Z -> list Z -> Prop :=
| Sub_nil : Sub [] []
| Sub_skip c t pat : Sub t pat -> Sub (c :: t) pat
| Sub_take c p t pat : M c p = true -> Sub t pat -> Sub (c :: t) (p :: pat).

Lemma Sub_nil_r t : Sub t [].
Proof. induction t; constructor; assumption. Qed.

Lemma Sub_tail t p pat : Sub t (p :: pat) -> Sub t pat.
Proof.
  intros H. remember (p :: pat) as q eqn:E. revert p pat E.
  induction H as [|c t q H IH|c p' t q Hm H IH]; intros p pat E; try discriminate.
  - apply Sub_skip. eapply IH; eauto.
  - inversion E; subst. apply Sub_skip. assumption.
Qed.

Lemma gsub_Sub t pat : gsub t pat = true <-> Sub t pat.
Proof.
  split.
  - revert pat; induction t as [|c t IH]; intros [|p pat] H; cbn in H; try discriminate.
    + constructor.
    + apply Sub_nil_r.
    + destruct (M c p) eqn:E.
      * apply Sub_take; auto.
      * apply Sub_skip; auto.
  - revert pat; induction t as [|c t IH]; intros pat H.
    + inversion H; subst. reflexivity.
    + destruct pat as [|p pat]; [reflexivity|]. cbn.
      inversion H as [|c' t' q H'|c' p' t' q Hm H']; subst.
      * destruct (M c p); [|auto]. apply IH. eapply Sub_tail; eauto.
      * rewrite Hm. auto.
Qed.

Lemma Sub_app t1 p1 t2 p2 : Sub t1 p1 -> Sub t2 p2 -> Sub (t1 ++ t2) (p1 ++ p2).
Proof.
  intros H1 H2. induction H1; cbn; [assumption| |].
  - apply Sub_skip. assumption.
  - apply Sub_take; assumption.
Qed.

Lemma Sub_rev t pat : Sub t pat -> Sub (rev t) (rev pat).
Proof.
  induction 1 as [|c t pat H IH|c p t pat Hm H IH]; cbn [rev].
  - constructor.
  - rewrite <- (app_nil_r (rev pat)). apply Sub_app; [assumption|]. apply Sub_skip. constructor.
  - apply Sub_app; [assumption|]. apply Sub_take; [assumption|constructor].
Qed.

Lemma gsub_rev t pat : gsub (rev t) (rev pat) = gsub t pat.
Proof.
  apply eq_true_iff_eq. rewrite !gsub_Sub. split; intros H.
  - apply Sub_rev in H. now rewrite !rev_involutive in H.
  - now apply Sub_rev.
Qed.

Lemma Sub_mono a t b pat : Sub t pat -> Sub (a ++ t ++ b) pat.
Proof.
  intros H. change pat with ([] ++ pat). apply Sub_app; [apply Sub_nil_r|].
  rewrite <- (app_nil_r pat). apply Sub_app; [assumption|apply Sub_nil_r].
Qed.

Lemma gsub_mono a t b pat : gsub t pat = true -> gsub (a ++ t ++ b) pat = true.
Proof. rewrite !gsub_Sub. apply Sub_mono. Qed.

Lemma gsub_app_l a t pat : gsub t pat = true -> gsub (a ++ t) pat = true.
Proof. intros H. rewrite <- (app_nil_r t). now apply gsub_mono. Qed.

Lemma gsub_app_r t b pat : gsub t pat = true -> gsub (t ++ b) pat = true.
Proof. intros H. change (t ++ b) with ([] ++ t ++ b). now apply gsub_mono. Qed.

Lemma Sub_strip_prefix a t p pat :
  Forall (fun c => M c p = false) a -> Sub (a ++ t) (p :: pat) -> Sub t (p :: pat).
Proof.
  induction 1 as [|c a Hc Ha IH]; cbn; intros H; [assumption|].
  apply IH. inversion H; subst; [assumption|congruence].
Qed.

Lemma Sub_strip_suffix t b pat : pat <> [] ->
  Forall (fun c => M c (last pat 0%Z) = false) b -> Sub (t ++ b) pat -> Sub t pat.
Proof.
  intros Hne Hb H. apply Sub_rev in H. rewrite rev_app_distr in H.
  rewrite (app_removelast_last 0%Z Hne) in H at 1. rewrite rev_app_distr in H. cbn [rev app] in H.
  apply Sub_strip_prefix in H.
  - apply Sub_rev in H. rewrite rev_involutive in H. cbn [rev] in H. rewrite rev_involutive in H.
    rewrite <- (app_removelast_last 0%Z Hne) in H. assumption.
  - apply Forall_rev. assumption.
Qed.

(* greedy matching: [gend t pat] = number of characters consumed when the greedy left-to-right match
   completes the pattern; [gpos t idx pat] = the matched positions (idx = position of the head of t) *)
Fixpoint gend (t pat : list Z) : option nat :=
  match pat with
  | [] => Some 0
  | p :: pat' =>
      match t with
      | [] => None
      | c :: t' => option_map S (if M c p then gend t' pat' else gend t' pat)
      end
  end.

Fixpoint gpos (t : list Z) (idx : nat) (pat : list Z) : list nat :=
  match pat with
  | [] => []
  | p :: pat' =>
      match t with
      | [] => []
      | c :: t' => if M c p then idx :: gpos t' (S idx) pat' else gpos t' (S idx) pat
      end
  end.

Lemma gend_nil_r t : gend t [] = Some 0.
Proof. destruct t; reflexivity. Qed.

Lemma gpos_nil_r t idx : gpos t idx [] = [].
Proof. destruct t; reflexivity. Qed.

Lemma gpos_nil_l idx pat : gpos [] idx pat = [].
Proof. destruct pat; reflexivity. Qed.

Lemma gend_none t pat : gend t pat = None <-> gsub t pat = false.
Proof.
  revert pat; induction t as [|c t IH]; intros [|p pat]; cbn; try (split; congruence).
  destruct (M c p).
  - rewrite <- IH. destruct (gend t pat); cbn; split; congruence.
  - rewrite <- IH. destruct (gend t (p :: pat)); cbn; split; congruence.
Qed.

Lemma gend_some t pat k : gend t pat = Some k ->
  k <= length t /\ gsub (firstn k t) pat = true /\ (forall j, j < k -> gsub (firstn j t) pat = false).
Proof.
  revert pat k; induction t as [|c t IH]; intros [|p pat] k H; cbn in H; try discriminate.
  - inversion H; subst. cbn. repeat split; [lia|]. intros; lia.
  - inversion H; subst. cbn. repeat split; [lia|]. intros; lia.
  - destruct (if M c p then gend t pat else gend t (p :: pat)) as [k0|] eqn:E; cbn in H; [|discriminate].
    inversion H; subst k. cbn [length firstn gsub].
    destruct (M c p) eqn:Em; apply IH in E; destruct E as (E1 & E2 & E3); (repeat split; [lia|assumption|]);
      intros [|j] Hj; cbn [firstn gsub]; try reflexivity; rewrite Em; apply E3; lia.
Qed.

Lemma gend_pos t pat k : pat <> [] -> gend t pat = Some k -> 1 <= k.
Proof.
  intros Hne H. destruct pat as [|p pat]; [congruence|]. destruct t as [|c t]; cbn in H; [discriminate|].
  destruct (if M c p then gend t pat else gend t (p :: pat)); cbn in H; [|discriminate]. inversion H. lia.
Qed.

Lemma gend_some_iff_gsub t pat : gsub t pat = true -> exists k, gend t pat = Some k.
Proof.
  intros H. destruct (gend t pat) as [k|] eqn:E; [eauto|]. apply gend_none in E. congruence.
Qed.

(* first matched position *)
Lemma gend_first t p pat e : gend t (p :: pat) = Some e ->
  exists a c b, t = a ++ c :: b /\ Forall (fun x => M x p = false) a /\ M c p = true /\ length a < e /\
                (forall idx, gpos t idx (p :: pat) = (idx + length a) :: gpos b (S (idx + length a)) pat).
Proof.
  revert e; induction t as [|c t IH]; intros e H; cbn in H; [discriminate|].
  destruct (M c p) eqn:Em.
  - exists [], c, t. cbn. destruct (gend t pat); cbn in H; [|discriminate]. inversion H; subst.
    repeat split; auto; [lia|]. intros idx. rewrite Em. now rewrite Nat.add_0_r.
  - destruct (gend t (p :: pat)) as [k|] eqn:E; cbn in H; [|discriminate]. inversion H; subst e.
    destruct (IH _ eq_refl) as (a & c' & b & -> & Ha & Hc & Hl & Hg).
    exists (c :: a), c', b. cbn [app length]. repeat split; auto; [lia|].
    intros idx. cbn [gpos]. rewrite Em. rewrite Hg. f_equal; [lia|f_equal; lia].
Qed.

Lemma gpos_range t idx pat : incr2 idx (idx + length t) (gpos t idx pat).
Proof.
  revert idx pat; induction t as [|c t IH]; intros idx [|p pat]; cbn [gpos length incr2]; try lia.
  destruct (M c p).
  - cbn [incr2]. split; [lia|]. eapply incr2_weaken; [| |apply IH]; lia.
  - eapply incr2_weaken; [| |apply IH]; lia.
Qed.

Lemma gpos_length t idx pat k : gend t pat = Some k -> length (gpos t idx pat) = length pat.
Proof.
  revert idx pat k; induction t as [|c t IH]; intros idx [|p pat] k H; cbn in H |- *; try reflexivity; try discriminate.
  destruct (M c p).
  - destruct (gend t pat) eqn:E; cbn in H; [|discriminate]. cbn. f_equal. eapply IH; eauto.
  - destruct (gend t (p :: pat)) eqn:E; cbn in H; [|discriminate]. eapply (IH _ (p :: pat)); eauto.
Qed.

Lemma gpos_last t idx pat k : pat <> [] -> gend t pat = Some k -> last (gpos t idx pat) 0 = idx + k - 1.
Proof.
  revert idx pat k; induction t as [|c t IH]; intros idx [|p pat] k Hne H; cbn in H; try congruence.
  cbn [gpos]. destruct (M c p).
  - destruct (gend t pat) as [k0|] eqn:E; cbn in H; [|discriminate]. inversion H; subst k.
    destruct pat as [|q pat].
    + rewrite gpos_nil_r. rewrite gend_nil_r in E. inversion E; subst. cbn. lia.
    + rewrite last_cons_default.
      assert (Hl : length (gpos t (S idx) (q :: pat)) = length (q :: pat)) by (eapply gpos_length; eauto).
      rewrite (last_default_irrel _ idx 0).
      * assert (Hq : q :: pat <> []) by discriminate.
        rewrite (IH (S idx) (q :: pat) k0 Hq E).
        pose proof (gend_pos _ _ _ Hq E). lia.
      * intros Hn. rewrite Hn in Hl. discriminate.
  - destruct (gend t (p :: pat)) as [k0|] eqn:E; cbn in H; [|discriminate]. inversion H; subst k.
    rewrite (IH (S idx) (p :: pat) k0 Hne E).
    pose proof (gend_pos _ _ _ Hne E). lia.
Qed.

(* a window in which the pattern matches, but in no proper prefix and no proper suffix of it *)
Definition tight (w pat : list Z) : Prop :=
  gsub w pat = true /\ gsub (tl w) pat = false /\ gsub (removelast w) pat = false.

Lemma tight_rev w pat : tight w pat -> tight (rev w) (rev pat).
Proof.
  intros (H1 & H2 & H3). unfold tight. rewrite tl_rev, removelast_rev, !gsub_rev. auto.
Qed.

Lemma tight_nonempty w pat : tight w pat -> w <> [] /\ pat <> [].
Proof.
  intros (H1 & H2 & H3). split; intros ->.
  - destruct pat; cbn in H1, H2; congruence.
  - destruct (tl w); cbn in H2; discriminate.
Qed.

Lemma tight_head w pat : tight w pat ->
  exists c w' p pat', w = c :: w' /\ pat = p :: pat' /\ M c p = true.
Proof.
  intros Ht. destruct (tight_nonempty _ _ Ht) as [Hw Hp]. destruct Ht as (H1 & H2 & H3).
  destruct w as [|c w']; [congruence|]. destruct pat as [|p pat']; [congruence|].
  exists c, w', p, pat'. repeat split. cbn in H1, H2. destruct (M c p); [reflexivity|congruence].
Qed.

Lemma tight_gend w pat : tight w pat -> gend w pat = Some (length w).
Proof.
  intros Ht. destruct (tight_nonempty _ _ Ht) as [Hw Hp]. destruct Ht as (H1 & H2 & H3).
  destruct (gend_some_iff_gsub _ _ H1) as [k Hk]. rewrite Hk. f_equal.
  destruct (gend_some _ _ _ Hk) as (Hle & Hs & _).
  destruct (Nat.eq_dec k (length w)) as [|Hneq]; [assumption|exfalso].
  rewrite (app_removelast_last 0%Z Hw) in Hs.
  assert (Hlen : length (removelast w) = length w - 1).
  { rewrite (app_removelast_last 0%Z Hw) at 2. rewrite app_length. cbn. lia. }
  rewrite firstn_app in Hs. replace (k - length (removelast w)) with 0 in Hs by lia.
  cbn [firstn] in Hs. rewrite app_nil_r in Hs.
  rewrite <- (firstn_skipn k (removelast w)) in H3.
  apply (gsub_app_r _ (skipn k (removelast w))) in Hs. congruence.
Qed.

(* the window computed by a forward greedy scan followed by a backward greedy scan is tight *)
Lemma scan_window_tight t pat e : pat <> [] -> gend t pat = Some e ->
  let s := hd 0 (gpos t 0 pat) in
  let w := firstn (e - s) (skipn s t) in
  exists k, gend (rev w) (rev pat) = Some k /\ 1 <= k /\ k <= e - s /\ s < e /\ e <= length t /\
    exists a w' r, t = a ++ w' ++ r /\ length a = e - k /\ length w' = k /\ tight w' pat.
Proof.
  intros Hne He. destruct pat as [|p pat]; [congruence|].
  destruct (gend_first _ _ _ _ He) as (a & c & b & Ht & Ha & Hc & Hl & Hg).
  destruct (gend_some _ _ _ He) as (Hle & Hs & Hmin).
  cbn zeta. rewrite (Hg 0). cbn [hd]. rewrite Nat.add_0_l.
  set (s := length a) in *. set (w := firstn (e - s) (skipn s t)).
  assert (Hsk : skipn s t = c :: b).
  { rewrite Ht. rewrite skipn_app, skipn_all2 by (unfold s; lia). unfold s. now rewrite Nat.sub_diag. }
  assert (Hfe : firstn e t = a ++ w).
  { unfold w. rewrite Hsk. rewrite Ht. rewrite firstn_app. fold s. rewrite firstn_all2 by (fold s; lia). reflexivity. }
  assert (Hw : gsub w (p :: pat) = true).
  { apply gsub_Sub. apply (Sub_strip_prefix a); [assumption|]. rewrite <- Hfe. now apply gsub_Sub. }
  assert (Hlw : length w = e - s).
  { unfold w. rewrite firstn_length, skipn_length. lia. }
  assert (Hrw : gsub (rev w) (rev (p :: pat)) = true) by now rewrite gsub_rev.
  destruct (gend_some_iff_gsub _ _ Hrw) as [k Hk]. exists k.
  assert (Hk1 : 1 <= k).
  { eapply gend_pos; [|exact Hk]. cbn [rev]. intros Hn. apply app_eq_nil in Hn. destruct Hn; discriminate. }
  destruct (gend_some _ _ _ Hk) as (Hkle & Hks & Hkmin). rewrite rev_length in Hkle.
  repeat split; try assumption; try lia.
  set (x := firstn k (rev w)) in *. set (y := skipn k (rev w)).
  assert (Hxy : rev w = x ++ y) by (unfold x, y; now rewrite firstn_skipn).
  assert (Hwyx : w = rev y ++ rev x) by (rewrite <- rev_app_distr, <- Hxy; now rewrite rev_involutive).
  assert (Hlx : length x = k) by (unfold x; rewrite firstn_length, rev_length; lia).
  assert (Hly : length y = e - s - k).
  { unfold y. rewrite skipn_length, rev_length. lia. }
  exists (a ++ rev y), (rev x), (skipn e t). repeat split.
  - rewrite <- (firstn_skipn e t) at 1. rewrite Hfe, Hwyx. now rewrite <- !app_assoc.
  - rewrite app_length, rev_length. fold s. lia.
  - now rewrite rev_length.
  - rewrite <- (rev_involutive (p :: pat)). rewrite gsub_rev. exact Hks.
  - rewrite tl_rev. rewrite <- (rev_involutive (p :: pat)). rewrite gsub_rev.
    unfold x. destruct k as [|k']; [lia|].
    rewrite removelast_firstn by (rewrite rev_length; lia). apply Hkmin. lia.
  - (* a match inside the window minus its last character would end before e *)
    destruct (gsub (removelast (rev x)) (p :: pat)) eqn:Hcontra; [exfalso|reflexivity].
    assert (Hx : rev x <> []).
    { intros Hn. apply (f_equal (@length _)) in Hn. rewrite rev_length in Hn. cbn in Hn. lia. }
    assert (Hpre : firstn (e - 1) t = a ++ rev y ++ removelast (rev x)).
    { replace (firstn (e - 1) t) with (firstn (e - 1) (firstn e t)) by (rewrite firstn_firstn; f_equal; lia).
      rewrite Hfe, Hwyx. rewrite (app_removelast_last 0%Z Hx) at 1.
      rewrite !app_assoc. rewrite firstn_app.
      assert (Hlr : length (removelast (rev x)) = k - 1).
      { pose proof (app_removelast_last 0%Z Hx) as Hd. apply (f_equal (@length _)) in Hd.
        rewrite app_length, rev_length in Hd. cbn in Hd. lia. }
      rewrite firstn_all2 by (rewrite !app_length, rev_length; fold s; lia).
      rewrite !app_length, rev_length. fold s.
      replace (e - 1 - (s + length y + length (removelast (rev x)))) with 0 by lia.
      cbn [firstn]. now rewrite app_nil_r. }
    assert (Hbad : gsub (firstn (e - 1) t) (p :: pat) = true).
    { rewrite Hpre. rewrite app_assoc. apply gsub_app_l. exact Hcontra. }
    rewrite Hmin in Hbad by lia. discriminate.
Qed.

(* witnesses, generically: Forall2 + increasing *)
Fixpoint gwit (text : list Z) (lo : nat) (pat : list Z) (pos : list nat) : bool :=
  match pat, pos with
  | [], [] => true
  | p :: pat', i :: pos' =>
      Nat.leb lo i &&
      match nth_error text i with
      | Some c => M c p && gwit text (S i) pat' pos'
      | None => false
      end
  | _, _ => false
  end.

Definition at_pos (text : list Z) (p : Z) (i : nat) : Prop :=
  exists c, nth_error text i = Some c /\ M c p = true.

Lemma gwit_spec text lo pat pos : lo <= length text ->
  (gwit text lo pat pos = true <-> Forall2 (at_pos text) pat pos /\ incr2 lo (length text) pos).
Proof.
  intros Hlo. split.
  - revert lo pos Hlo; induction pat as [|p pat IH]; intros lo [|i pos] Hlo H; cbn in H; try discriminate.
    + split; [constructor|assumption].
    + apply andb_true_iff in H as [H1 H2]. apply Nat.leb_le in H1.
      destruct (nth_error text i) as [c|] eqn:En; [|discriminate].
      apply andb_true_iff in H2 as [H2 H3].
      assert (Hi : i < length text) by (apply nth_error_Some; congruence).
      apply IH in H3; [|lia]. destruct H3 as [H3 H4]. split.
      * constructor; [exists c; auto|assumption].
      * cbn. auto.
  - intros [HF Hi]. revert lo Hlo Hi. induction HF as [|p i pat pos Hpi HF IH]; intros lo Hlo Hi; [reflexivity|].
    cbn in Hi. destruct Hi as [Hi1 Hi2]. destruct Hpi as (c & Hn & Hm). cbn [gwit]. rewrite Hn, Hm.
    apply Nat.leb_le in Hi1. rewrite Hi1. cbn. apply IH; [|assumption].
    apply nth_error_Some. congruence.
Qed.

Lemma gwit_lo_mono text lo lo' pat pos : lo' <= lo -> gwit text lo pat pos = true -> gwit text lo' pat pos = true.
Proof.
  intros Hl H. destruct pat as [|p pat], pos as [|i pos]; cbn in *; try discriminate; auto.
  apply andb_true_iff in H as [H1 H2]. rewrite H2. apply Nat.leb_le in H1.
  assert (H' : Nat.leb lo' i = true) by (apply Nat.leb_le; lia). now rewrite H'.
Qed.

(* the greedy positions are a witness *)
Lemma gpos_gwit text t rest i pat k : skipn i text = t ++ rest -> gend t pat = Some k ->
  gwit text i pat (gpos t i pat) = true.
Proof.
  revert i pat k; induction t as [|c t IH]; intros i [|p pat] k Hs H; cbn in H; try discriminate; try reflexivity.
  cbn [app] in Hs. apply skipn_cons_nth in Hs as [Hn Hs]. cbn [gpos].
  destruct (M c p) eqn:Em.
  - destruct (gend t pat) as [k0|] eqn:E; cbn in H; [|discriminate].
    cbn [gwit]. rewrite Hn, Em, Nat.leb_refl. cbn. eapply IH; eauto.
  - destruct (gend t (p :: pat)) as [k0|] eqn:E; cbn in H; [|discriminate].
    eapply gwit_lo_mono; [|eapply IH; eauto]. lia.
Qed.

Lemma gwit_gsub text lo pat pos : gwit text lo pat pos = true -> gsub (skipn lo text) pat = true.
Proof.
  revert lo pos; induction pat as [|p pat IH]; intros lo [|i pos] H; cbn in H; try discriminate; [apply gsub_nil_r|].
  apply andb_true_iff in H as [H1 H2]. apply Nat.leb_le in H1.
  destruct (nth_error text i) as [c|] eqn:En; [|discriminate].
  apply andb_true_iff in H2 as [H2 H3]. apply IH in H3.
  apply nth_error_split in En as (l1 & l2 & -> & Hl).
  assert (Hs : skipn (S i) (l1 ++ c :: l2) = l2).
  { rewrite skipn_app, skipn_all2 by lia. replace (S i - length l1) with 1 by lia. reflexivity. }
  rewrite Hs in H3.
  replace (skipn lo (l1 ++ c :: l2)) with (skipn lo l1 ++ (c :: l2)).
  - apply gsub_app_l. cbn. now rewrite H2.
  - rewrite skipn_app. replace (lo - length l1) with 0 by lia. reflexivity.
Qed.

Lemma gsub_iff_gwit text pat : gsub text pat = true <-> exists pos, gwit text 0 pat pos = true.
Proof.
  split.
  - intros H. destruct (gend_some_iff_gsub _ _ H) as [k Hk]. exists (gpos text 0 pat).
    apply (gpos_gwit text text [] 0 pat k); [now rewrite app_nil_r|assumption].
  - intros [pos H]. apply gwit_gsub in H. exact H.
Qed.

End Generic.

(* comparing two matching predicates *)
Lemma Sub_impl (M1 M2 : Z -> Z -> bool) t pat :
  (forall c p, In c t -> M1 c p = true -> M2 c p = true) -> Sub M1 t pat -> Sub M2 t pat.
Proof.
  intros Himp H. induction H as [|c t pat H IH|c p t pat Hm H IH].
  - constructor.
  - apply Sub_skip. apply IH. intros; apply Himp; cbn; auto.
  - apply Sub_take; [apply Himp; cbn; auto|]. apply IH. intros; apply Himp; cbn; auto.
Qed.

Lemma gsub_ext (M1 M2 : Z -> Z -> bool) t pat :
  (forall c p, In c t -> M1 c p = M2 c p) -> gsub M1 t pat = gsub M2 t pat.
Proof.
  intros H. apply eq_true_iff_eq. rewrite !gsub_Sub. split; apply Sub_impl; intros c p Hin Hm.
  - now rewrite <- H.
  - now rewrite H.
Qed.

Lemma gend_ext (M1 M2 : Z -> Z -> bool) t pat :
  (forall c p, In c t -> In p pat -> M1 c p = M2 c p) -> gend M1 t pat = gend M2 t pat.
Proof.
  revert pat; induction t as [|c t IH]; intros [|p pat] H; cbn [gend]; try reflexivity.
  rewrite <- (H c p) by (cbn; auto). destruct (M1 c p).
  - rewrite (IH pat); [reflexivity|]. intros; apply H; cbn; auto.
  - rewrite (IH (p :: pat)); [reflexivity|]. intros; apply H; cbn; auto.
Qed.

Lemma last_In {A} (l : list A) d : l <> [] -> In (last l d) l.
Proof.
  induction l as [|a l IH]; intros H; [congruence|]. destruct l as [|b l]; [cbn; auto|].
  right. apply IH. discriminate.
Qed.

(* ---------- instance: the folding comparison of AlgoSpec ---------- *)

Section Fold.
Variable co : char_ops.
Variables cs nm : bool.

Definition Mf (c p : Z) : bool := (fold co cs nm c =? p)%Z.

Lemma subseq_b_gsub t pat : subseq_b co cs nm t pat = gsub Mf t pat.
Proof. revert pat; induction t as [|c t IH]; intros [|p pat]; cbn; try reflexivity. unfold Mf at 1. now rewrite !IH. Qed.

Lemma witness_from_gwit text lo pat pos : witness_from co cs nm text lo pat pos = gwit Mf text lo pat pos.
Proof.
  revert lo pos; induction pat as [|p pat IH]; intros lo [|i pos]; cbn; try reflexivity.
  destruct (nth_error text i); [|reflexivity]. now rewrite IH.
Qed.

(* A. the deliverables on the spec vocabulary *)

Theorem subseq_b_iff_witness text pat :
  subseq_b co cs nm text pat = true <-> exists pos, witness co cs nm text pat pos = true.
Proof.
  rewrite subseq_b_gsub, gsub_iff_gwit. unfold witness. split; intros [pos H]; exists pos.
  - now rewrite witness_from_gwit.
  - now rewrite <- witness_from_gwit.
Qed.

Definition matches_at (text : list Z) (p : Z) (i : nat) : Prop :=
  exists c, nth_error text i = Some c /\ fold co cs nm c = p.

Lemma at_pos_matches text p i : at_pos Mf text p i <-> matches_at text p i.
Proof. unfold at_pos, matches_at, Mf. split; intros (c & H1 & H2); exists c; split; auto; now apply Z.eqb_eq. Qed.

Theorem witness_spec text pat pos :
  witness co cs nm text pat pos = true <->
  Forall2 (matches_at text) pat pos /\ incr2 0 (length text) pos.
Proof.
  unfold witness. rewrite witness_from_gwit, gwit_spec by lia.
  split; intros [H1 H2]; split; auto; (eapply Forall2_impl'; [|exact H1]); intros a b; apply at_pos_matches.
Qed.

Theorem witness_props text pat pos : witness co cs nm text pat pos = true ->
  length pos = length pat /\
  Forall (fun p => p < length text) pos /\
  incr2 0 (length text) pos /\
  (forall i j d, i < j < length pos -> nth i pos d < nth j pos d).
Proof.
  intros H. apply witness_spec in H as [H1 H2]. repeat split.
  - symmetry. eapply Forall2_len; eauto.
  - apply incr2_Forall in H2. eapply Forall_impl; [|exact H2]. cbn; intros; lia.
  - assumption.
  - eapply incr2_nth; eauto.
Qed.

Theorem subseq_b_rev text pat :
  subseq_b co cs nm (rev text) (rev pat) = subseq_b co cs nm text pat.
Proof. rewrite !subseq_b_gsub. apply gsub_rev. Qed.

Theorem subseq_b_mono a t b pat :
  subseq_b co cs nm t pat = true -> subseq_b co cs nm (a ++ t ++ b) pat = true.
Proof. rewrite !subseq_b_gsub. apply gsub_mono. Qed.

(* a witness of the reversed problem gives a witness of the original one *)
Theorem witness_rev text pat pos :
  witness co cs nm (rev text) (rev pat) pos = true ->
  witness co cs nm text pat (rev (map (fun p => length text - 1 - p) pos)) = true.
Proof.
  rewrite !witness_spec. rewrite rev_length. intros [H1 H2]. split.
  - apply Forall2_rev in H1. rewrite rev_involutive in H1.
    assert (Hb : Forall (fun p => p < length text) (rev pos)).
    { apply Forall_rev. apply incr2_Forall in H2. eapply Forall_impl; [|exact H2]. cbn; intros; lia. }
    rewrite <- map_rev. revert H1 Hb. generalize (rev pos) as q. intros q H1. induction H1 as [|p i pat' q Hpi H1 IH]; intros Hb.
    + constructor.
    + inversion Hb as [|? ? Hi Hb']; subst. cbn [map]. constructor; [|auto].
      destruct Hpi as (c & Hn & Hf). exists c. split; [|assumption].
      rewrite nth_error_nth' with (d := 0%Z) in Hn by (rewrite rev_length; lia).
      rewrite rev_nth in Hn by lia.
      rewrite nth_error_nth' with (d := 0%Z) by lia.
      rewrite <- Hn. do 2 f_equal. lia.
  - apply (incr2_rev_map (length text)) in H2; [|lia].
    rewrite Nat.sub_diag, Nat.sub_0_r in H2. exact H2.
Qed.

End Fold.

(* non-vacuity: "ac" inside "abc" *)
Example basics_example :
  let co := mkOps (fun c => c) (fun _ => cNonWord) (fun c => c) (fun _ => false) in
  subseq_b co false true [65; 98; 99]%Z [97; 99]%Z = true /\
  witness co false true [65; 98; 99]%Z [97; 99]%Z [0; 2] = true /\
  witness co false true (rev [65; 98; 99]%Z) (rev [97; 99]%Z) [0; 2] = true.
Proof. vm_compute. auto. Qed.

Print Assumptions subseq_b_iff_witness.
Print Assumptions witness_props.
Print Assumptions subseq_b_rev.
Print Assumptions subseq_b_mono.
Print Assumptions witness_rev.
Print Assumptions scan_window_tight.
