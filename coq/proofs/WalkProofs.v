(* C19 proofs: the walker model (WalkModel) lists exactly what the spec (WalkSpec) describes. *)
From Coq Require Import Permutation.
From Fzf Require Import Prelude WalkSpec WalkModel.
Open Scope Z_scope.

(* ------------------------------------------------------------------ *)
(* generic list facts *)

Lemma list_ind2 {A} (P : list A -> Prop) :
  P [] -> (forall a, P [a]) -> (forall a b r, P r -> P (a :: b :: r)) -> forall l, P l.
Proof.
  intros H0 H1 H2.
  assert (H : forall l, P l /\ forall a, P (a :: l)).
  { induction l as [|x l [IHa IHb]]; split; auto. }
  intro l. apply H.
Qed.

Lemma entry_ind' (P : entry -> Prop) :
  (forall nm, P (File nm)) ->
  (forall nm ch, Forall P ch -> P (Dir nm ch)) ->
  (forall nm, P (SymFile nm)) ->
  (forall nm tg, Forall P tg -> P (SymDir nm tg)) ->
  forall e, P e.
Proof.
  intros HF HD HS HL.
  fix IH 1. intros [nm|nm ch|nm|nm tg].
  - apply HF.
  - apply HD. induction ch as [|x r IHr]; constructor; [apply IH|exact IHr].
  - apply HS.
  - apply HL. induction tg as [|x r IHr]; constructor; [apply IH|exact IHr].
Qed.

Lemma nodup_app {A} (a b : list A) :
  NoDup a -> NoDup b -> (forall x, In x a -> ~ In x b) -> NoDup (a ++ b).
Proof.
  induction a as [|x a IH]; cbn; intros Ha Hb Hd; [exact Hb|].
  inversion Ha as [|? ? Hx Ha']; subst. constructor.
  - intro Hin. apply in_app_or in Hin as [Hin|Hin]; [contradiction|]. apply (Hd x); auto.
  - apply IH; auto.
Qed.

Lemma drop_while_split {A} (f : A -> bool) (l : list A) :
  exists t, l = t ++ drop_while f l /\ Forall (fun x => f x = true) t /\
            match drop_while f l with [] => True | x :: _ => f x = false end.
Proof.
  induction l as [|x l (t & E & Ft & Hd)]; cbn.
  - exists []. repeat split; constructor.
  - destruct (f x) eqn:Fx.
    + exists (x :: t). cbn. rewrite <- E. repeat split; auto.
    + exists []. cbn. rewrite Fx. repeat split; auto.
Qed.

Lemma take_while_stop {A} (p : A -> bool) a c b :
  p c = false -> take_while p (a ++ c :: b) = take_while p a.
Proof.
  intro Hc. induction a as [|x a IH]; cbn; [now rewrite Hc|].
  destruct (p x); [now rewrite IH|reflexivity].
Qed.

Lemma take_while_all {A} (p : A -> bool) a :
  Forall (fun x => p x = true) a -> take_while p a = a.
Proof. induction 1 as [|x a Hx _ IH]; cbn; [reflexivity|]. now rewrite Hx, IH. Qed.

(* ------------------------------------------------------------------ *)
(* last_byte *)

Lemma last_byte_snoc s c : last_byte (s ++ [c]) = Some c.
Proof.
  induction s as [|x s IH]; [reflexivity|].
  cbn [app]. destruct (s ++ [c]) eqn:E; [destruct s; discriminate|].
  cbn [last_byte]. exact IH.
Qed.

Lemma last_byte_app a b : b <> [] -> last_byte (a ++ b) = last_byte b.
Proof.
  intro Hb. induction a as [|x a IH]; [reflexivity|].
  cbn [app]. destruct (a ++ b) eqn:E.
  - destruct a; [cbn in E; contradiction|discriminate].
  - cbn [last_byte]. exact IH.
Qed.

Lemma last_byte_in s c : last_byte s = Some c -> In c s.
Proof.
  induction s as [|x s IH]; [discriminate|].
  destruct s as [|y s]; cbn [last_byte].
  - intro H; injection H as ->. now left.
  - intro H. right. apply IH. exact H.
Qed.

Lemma last_byte_none s : last_byte s = None -> s = [].
Proof.
  induction s as [|x s IH]; [reflexivity|].
  destruct s as [|y s]; cbn [last_byte]; [discriminate|]. intro H. apply IH in H. discriminate.
Qed.

(* ------------------------------------------------------------------ *)
(* trim_loop (reader.go trimPath) *)

Definition strippable (a b : Z) : bool := (a =? DOT) && ((b =? SLASH) || (b =? PATH_SEPARATOR)).

Definition unstrippable (d : str) : Prop :=
  match d with a :: b :: _ => strippable a b = false | _ => True end.

Lemma trim_loop_cons2 a b r :
  trim_loop (a :: b :: r) = if strippable a b then trim_loop r else a :: b :: r.
Proof. reflexivity. Qed.

Lemma trim_loop_unstrippable s : unstrippable (trim_loop s).
Proof.
  induction s as [| a | a b r IH] using list_ind2; cbn [trim_loop]; try exact I.
  fold (strippable a b). destruct (strippable a b) eqn:E; [exact IH|exact E].
Qed.

Lemma unstrippable_fix d : unstrippable d -> trim_loop d = d.
Proof.
  destruct d as [|a [|b r]]; try reflexivity. cbn [unstrippable]. intro H.
  rewrite trim_loop_cons2, H. reflexivity.
Qed.

Lemma trim_loop_app s x : trim_loop (s ++ x) = trim_loop (trim_loop s ++ x).
Proof.
  induction s as [| a | a b r IH] using list_ind2; try reflexivity.
  change ((a :: b :: r) ++ x) with (a :: b :: (r ++ x)).
  rewrite !trim_loop_cons2. destruct (strippable a b) eqn:E; [exact IH|].
  change ((a :: b :: r) ++ x) with (a :: b :: (r ++ x)). rewrite trim_loop_cons2, E. reflexivity.
Qed.

Lemma trim_loop_last s : trim_loop s <> [] -> last_byte (trim_loop s) = last_byte s.
Proof.
  induction s as [| a | a b r IH] using list_ind2; try reflexivity.
  rewrite trim_loop_cons2. destruct (strippable a b) eqn:E; [|reflexivity].
  intro H. rewrite (IH H).
  destruct r as [|c r]; [cbn in H; contradiction|reflexivity].
Qed.

Lemma trim_loop_nil s :
  trim_loop s = [] -> s = [] \/ last_byte s = Some SLASH.
Proof.
  induction s as [| a | a b r IH] using list_ind2; auto; try discriminate.
  rewrite trim_loop_cons2. destruct (strippable a b) eqn:E; [|discriminate].
  intro H. right. destruct (IH H) as [->|Hl].
  - cbn [last_byte]. unfold strippable, PATH_SEPARATOR in E. apply andb_true_iff in E as [_ E].
    apply orb_true_iff in E as [E|E]; apply Z.eqb_eq in E; subst; auto.
  - destruct r as [|c r]; [discriminate|exact Hl].
Qed.

Lemma strip_eq_trim s : strip_dot_slash s = trim_loop s.
Proof.
  induction s as [| a | a b r IH] using list_ind2; try reflexivity.
  cbn [strip_dot_slash]. rewrite trim_loop_cons2. unfold strippable, PATH_SEPARATOR.
  rewrite orb_diag.
  destruct ((a =? DOT) && (b =? SLASH)); [exact IH|reflexivity].
Qed.

Lemma strip_unstrippable_spec s :
  match strip_dot_slash s with a :: b :: _ => (a =? DOT) && (b =? SLASH) = false | _ => True end.
Proof.
  induction s as [| a | a b r IH] using list_ind2; cbn [strip_dot_slash]; try exact I.
  destruct ((a =? DOT) && (b =? SLASH)) eqn:E; [exact IH|exact E].
Qed.

Lemma name_unstrippable nm : name_ok nm -> unstrippable nm.
Proof.
  intros (_ & Hs & _). destruct nm as [|a [|b r]]; try exact I.
  cbn [unstrippable]. unfold strippable, PATH_SEPARATOR. rewrite orb_diag.
  assert (Hb : (b =? SLASH) = false).
  { apply Z.eqb_neq. intro; subst. apply Hs. right; now left. }
  rewrite Hb. apply andb_false_r.
Qed.

(* ------------------------------------------------------------------ *)
(* the path invariant: raw path R (what fastwalk hands to the callback) is printed as d *)

Definition path_inv (R d : str) : Prop :=
  trim_loop R = d /\ d <> [] /\ last_byte R <> Some SLASH /\ last_byte d <> Some SLASH.

Lemma path_inv_trim R d : path_inv R d -> trim_path R = d.
Proof. intros (H & Hd & _). unfold trim_path. rewrite H. destruct d; [contradiction|reflexivity]. Qed.

Lemma name_last nm : name_ok nm -> last_byte nm <> Some SLASH.
Proof. intros (_ & Hs & _) H. apply Hs. apply last_byte_in. exact H. Qed.

Lemma join_paths_inv R nm : last_byte R <> Some SLASH -> join_paths R nm = R ++ SLASH :: nm.
Proof.
  intro H. unfold join_paths. destruct (last_byte R) as [c|]; [|reflexivity].
  destruct (c =? SLASH) eqn:E; [|reflexivity]. apply Z.eqb_eq in E. subst. contradiction.
Qed.

Lemma str_eqb_false a b : a <> b -> str_eqb a b = false.
Proof. intro H. destruct (str_eqb a b) eqn:E; [|reflexivity]. apply str_eqb_eq in E. contradiction. Qed.

Lemma str_eqb_refl a : str_eqb a a = true.
Proof. apply str_eqb_eq. reflexivity. Qed.

Lemma child_dot nm : child [DOT] nm = nm.
Proof. reflexivity. Qed.

Lemma child_other d nm : d <> [DOT] -> child d nm = d ++ SLASH :: nm.
Proof. intro H. unfold child. now rewrite (str_eqb_false _ _ H). Qed.

Lemma child_not_dot d nm : name_ok nm -> child d nm <> [DOT].
Proof.
  intros (Hne & _ & Hd). unfold child. destruct (str_eqb d [DOT]); [exact Hd|].
  destruct d as [|a d]; cbn.
  - intro H. injection H as H _. discriminate.
  - intro H. injection H as _ H. destruct d; discriminate.
Qed.

Lemma child_last d nm : name_ok nm -> last_byte (child d nm) <> Some SLASH.
Proof.
  intro Hn. unfold child. destruct (str_eqb d [DOT]); [now apply name_last|].
  change (d ++ SLASH :: nm) with (d ++ [SLASH] ++ nm). rewrite app_assoc.
  rewrite last_byte_app; [now apply name_last|]. destruct Hn as (Hne & _). exact Hne.
Qed.

Lemma path_inv_child R d nm :
  path_inv R d -> name_ok nm -> path_inv (join_paths R nm) (child d nm).
Proof.
  intros (Ht & Hd & HlR & Hld) Hn.
  rewrite (join_paths_inv _ _ HlR).
  assert (Hu : unstrippable d) by (rewrite <- Ht; apply trim_loop_unstrippable).
  pose proof (name_unstrippable _ Hn) as Hun.
  destruct Hn as (Hne & Hs & Hdot).
  assert (Hn : name_ok nm) by (repeat split; assumption).
  split; [|split; [|split]].
  - rewrite trim_loop_app, Ht. unfold child.
    destruct (str_eqb d [DOT]) eqn:E.
    + apply str_eqb_eq in E. rewrite E. change ([DOT] ++ SLASH :: nm) with (DOT :: SLASH :: nm).
      rewrite trim_loop_cons2. change (strippable DOT SLASH) with true. cbn iota.
      apply unstrippable_fix. exact Hun.
    + apply unstrippable_fix.
      destruct d as [|a [|b r]]; [contradiction| |].
      * cbn. unfold strippable. destruct (a =? DOT) eqn:Ea; [|reflexivity].
        apply Z.eqb_eq in Ea. subst. rewrite str_eqb_refl in E. discriminate.
      * exact Hu.
  - unfold child. destruct (str_eqb d [DOT]); [exact Hne|]. destruct d; discriminate.
  - change (R ++ SLASH :: nm) with (R ++ [SLASH] ++ nm). rewrite app_assoc.
    rewrite last_byte_app; [now apply name_last|exact Hne].
  - now apply child_last.
Qed.

(* the root *)
Lemma clean_root_facts root :
  (exists c, In c root /\ c <> SLASH) ->
  clean_root_path root = drop_trailing_slashes root /\
  clean_root_path root <> [] /\
  last_byte (clean_root_path root) <> Some SLASH /\
  (forall c, In c (clean_root_path root) -> In c root).
Proof.
  intros (c & Hin & Hc). unfold clean_root_path, drop_trailing_slashes.
  change (fun c0 : Z => c0 =? SLASH) with is_sep.
  destruct (drop_while_split is_sep (rev root)) as (t & E & Ft & Hd).
  destruct (drop_while is_sep (rev root)) as [|x l] eqn:D.
  - exfalso. rewrite app_nil_r in E. subst t.
    rewrite Forall_forall in Ft. specialize (Ft c). rewrite <- in_rev in Ft.
    specialize (Ft Hin). unfold is_sep in Ft. apply Z.eqb_eq in Ft. contradiction.
  - assert (Hne : rev (x :: l) <> []) by (cbn; destruct (rev l); discriminate).
    destruct (rev (x :: l)) as [|y r] eqn:Er; [contradiction|].
    assert (Hl : last_byte (y :: r) = Some x) by (rewrite <- Er; cbn [rev]; apply last_byte_snoc).
    repeat split.
    + discriminate.
    + rewrite Hl. intro H. injection H as ->.
      unfold is_sep in Hd. rewrite Z.eqb_refl in Hd. discriminate.
    + intros z Hz. rewrite <- Er in Hz. apply in_rev in Hz. apply in_rev. rewrite E.
      apply in_or_app. now right.
Qed.

Lemma path_inv_root root : root_ok root -> path_inv (clean_root_path root) (display root).
Proof.
  intros Hc.
  destruct (clean_root_facts root Hc) as (Ec & Hne & Hl & Hsub).
  assert (Ht : trim_loop (clean_root_path root) <> []).
  { intro H. apply trim_loop_nil in H as [H|H]; contradiction. }
  assert (Ed : display root = trim_loop (clean_root_path root)).
  { unfold display. rewrite <- Ec, strip_eq_trim.
    destruct (trim_loop (clean_root_path root)); [contradiction|reflexivity]. }
  rewrite Ed. repeat split; auto.
  rewrite (trim_loop_last _ Ht). exact Hl.
Qed.

(* ------------------------------------------------------------------ *)
(* filepath.Base vs the spec's base_name *)

Lemma after_last_aux_rev acc s :
  Forall (fun c => negb (is_sep c) = true) acc ->
  after_last_slash_aux acc s = rev (take_while (fun c => negb (is_sep c)) (rev s ++ acc)).
Proof.
  revert acc. induction s as [|c r IH]; intros acc Hacc; cbn [after_last_slash_aux rev app].
  - now rewrite take_while_all.
  - destruct (c =? SLASH) eqn:E.
    + rewrite IH by constructor. rewrite app_nil_r, <- app_assoc. cbn [app].
      rewrite take_while_stop; [reflexivity|]. unfold is_sep. now rewrite E.
    + rewrite IH.
      * rewrite <- app_assoc. reflexivity.
      * constructor; [unfold is_sep; now rewrite E|exact Hacc].
Qed.

Lemma go_base_base_name d :
  d <> [] -> last_byte d <> Some SLASH -> go_base d = base_name d /\ go_base d <> [].
Proof.
  intros Hd Hl. unfold go_base, base_name. destruct d as [|a d']; [contradiction|].
  set (d := a :: d') in *.
  rewrite after_last_aux_rev by constructor. rewrite app_nil_r.
  assert (Hr : exists x l, rev d = x :: l /\ is_sep x = false).
  { destruct (rev d) as [|x l] eqn:E.
    - apply (f_equal (@rev Z)) in E. rewrite rev_involutive in E. unfold d in E. discriminate.
    - exists x, l. split; [reflexivity|].
      assert (Hx : last_byte d = Some x).
      { rewrite <- (rev_involutive d), E. cbn [rev]. apply last_byte_snoc. }
      unfold is_sep. apply Z.eqb_neq. intro; subst. contradiction. }
  destruct Hr as (x & l & Er & Hx).
  assert (Hdw : drop_while is_sep (rev d) = rev d) by (rewrite Er; cbn; now rewrite Hx).
  rewrite Hdw, rev_involutive.
  assert (Hne : rev (take_while (fun c : Z => negb (is_sep c)) (rev d)) <> []).
  { rewrite Er. cbn [take_while]. rewrite Hx. cbn [negb rev]. intro H. apply app_eq_nil in H as [_ H]. discriminate. }
  destruct (rev (take_while (fun c : Z => negb (is_sep c)) (rev d))) eqn:E; [contradiction|].
  split; [reflexivity|discriminate].
Qed.

Lemma after_last_aux_skip acc a b :
  after_last_slash_aux acc (a ++ SLASH :: b) = after_last_slash_aux [] b.
Proof.
  revert acc. induction a as [|c a IH]; intro acc; cbn [app after_last_slash_aux].
  - now rewrite Z.eqb_refl.
  - destruct (c =? SLASH); apply IH.
Qed.

Lemma after_last_aux_free acc nm :
  ~ In SLASH nm -> after_last_slash_aux acc nm = rev acc ++ nm.
Proof.
  revert acc. induction nm as [|c r IH]; intros acc H; cbn [after_last_slash_aux].
  - now rewrite app_nil_r.
  - destruct (c =? SLASH) eqn:E.
    + apply Z.eqb_eq in E. subst. exfalso. apply H. now left.
    + rewrite IH by (intro Hin; apply H; now right). cbn [rev]. now rewrite <- app_assoc.
Qed.

Lemma base_name_child d nm : name_ok nm -> base_name (child d nm) = nm.
Proof.
  intros (_ & Hs & _). unfold base_name, child. destruct (str_eqb d [DOT]).
  - now rewrite after_last_aux_free.
  - rewrite after_last_aux_skip. now rewrite after_last_aux_free.
Qed.

(* ------------------------------------------------------------------ *)
(* the skip lists *)

Definition model_skipped (ign : list str * list str * list str) (path base : str) : bool :=
  let '(b, f, x) := ign in
  existsb (fun ig => str_eqb ig base) b || existsb (fun ig => str_eqb ig path) f
  || existsb (fun ig => go_has_suffix path ig) x.

Lemma split_ignores_skipped ig p b : model_skipped (split_ignores ig) p b = skipped ig p b.
Proof.
  induction ig as [|s r IH]; [reflexivity|].
  cbn [split_ignores]. destruct (split_ignores r) as [[bb ff] xx].
  unfold skipped in *. cbn [existsb]. rewrite <- IH. clear IH.
  unfold skip_matches, go_contains_rune, go_has_prefix, sep, has_slash.
  destruct (existsb (fun x : Z => x =? SLASH) s).
  - destruct (starts_with [SLASH] s); cbn [model_skipped existsb]; unfold go_has_suffix.
    + destruct (ends_with s p), (existsb (fun ig => str_eqb ig b) bb),
        (existsb (fun ig => str_eqb ig p) ff), (existsb (fun ig => ends_with ig p) xx); reflexivity.
    + change ([SLASH] ++ s) with (SLASH :: s).
      destruct (str_eqb s p), (ends_with (SLASH :: s) p), (existsb (fun ig => str_eqb ig b) bb),
        (existsb (fun ig => str_eqb ig p) ff), (existsb (fun ig => ends_with ig p) xx); reflexivity.
  - cbn [model_skipped existsb].
    destruct (str_eqb s b), (existsb (fun ig => str_eqb ig b) bb),
      (existsb (fun ig => str_eqb ig p) ff), (existsb (fun ig => go_has_suffix p ig) xx); reflexivity.
Qed.

(* ------------------------------------------------------------------ *)
(* the callback, in the vocabulary of the spec *)

Definition dirlike (o : wopts) (k : kind) : bool :=
  match k with KDir => true | KSymDir => o_follow o | _ => false end.

(* p: the printed path (trimPath of what fastwalk passed) *)
Definition fn_spec (o : wopts) (ig : list str) (p : str) (k : kind) : list str * action :=
  if str_eqb p [DOT] then ([], Continue)
  else
    let w := match k with KDir => o_dir o | _ => o_file o end in
    if dirlike o k then
      if pruned o ig p (base_name p) then ([], SkipDir) else (emit w (with_sep p), Continue)
    else (emit w p, Continue).

Lemma trim_path_nonnil s : trim_path s <> [].
Proof. unfold trim_path. destruct (trim_loop s); discriminate. Qed.

Lemma callback_exact_proof o ig path k p :
  trim_path path = p -> last_byte p <> Some SLASH ->
  walk_fn o (split_ignores ig) path k = Ok (fn_spec o ig p k).
Proof.
  intros Hp Hl.
  assert (Hne : p <> []) by (rewrite <- Hp; apply trim_path_nonnil).
  unfold walk_fn, fn_spec.
  destruct (split_ignores ig) as [[bb ff] xx] eqn:Es. cbv beta iota zeta. rewrite Hp.
  destruct (str_eqb p [DOT]); [reflexivity|].
  assert (Hw : forall is_dir, is_dir = match k with KDir => true | _ => false end ->
           (o_file o && negb is_dir) || (o_dir o && is_dir) = match k with KDir => o_dir o | _ => o_file o end).
  { intros ? ->. destruct k, (o_file o), (o_dir o); reflexivity. }
  rewrite (Hw _ eq_refl). clear Hw.
  assert (Hdl : match k with KDir => true | _ => false end
                || (o_follow o && match k with KSymDir => true | _ => false end) = dirlike o k).
  { destruct k; cbn; rewrite ?andb_false_r, ?andb_true_r; reflexivity. }
  rewrite Hdl. clear Hdl.
  destruct (dirlike o k); [|reflexivity].
  destruct (go_base_base_name p Hne Hl) as [Eb Hbne]. rewrite <- Eb.
  pose proof (split_ignores_skipped ig p (go_base p)) as Hs. rewrite Es in Hs. cbn [model_skipped] in Hs.
  destruct (go_base p) as [|b0 rest] eqn:Eg; [contradiction|].
  cbn [get bind]. unfold pruned. rewrite <- Hs. cbn [hidden_name]. rewrite andb_assoc.
  assert (Hsep : str_eqb p sep = false).
  { apply str_eqb_false. intro H0. rewrite H0 in Hl. apply Hl. reflexivity. }
  rewrite Hsep.
  destruct (negb (o_hidden o) && (b0 =? DOT) && negb (str_eqb (b0 :: rest) [DOT; DOT])); [reflexivity|].
  destruct (existsb (fun ig0 : str => str_eqb ig0 (b0 :: rest)) bb); [reflexivity|].
  destruct (existsb (fun ig0 : str => str_eqb ig0 p) ff); [reflexivity|].
  destruct (existsb (fun ig0 : str => go_has_suffix p ig0) xx); reflexivity.
Qed.

(* ------------------------------------------------------------------ *)
(* the traversal *)

Lemma fw_read_cons fn fo dir x r :
  fw_read fn fo dir (x :: r) = (do a <- fw_entry fn fo dir x; do b <- fw_read fn fo dir r; Ok (a ++ b)).
Proof. reflexivity. Qed.

Lemma fw_entry_file fn fo dir nm :
  fw_entry fn fo dir (File nm) =
  (do r <- fn (join_paths dir nm) KFile; match snd r with Continue => Ok (fst r) | SkipDir => Err BadInput end).
Proof. reflexivity. Qed.

Lemma fw_entry_symfile fn fo dir nm :
  fw_entry fn fo dir (SymFile nm) = (do r <- fn (join_paths dir nm) KSymFile; Ok (fst r)).
Proof. reflexivity. Qed.

Lemma fw_entry_dir fn fo dir nm ch :
  fw_entry fn fo dir (Dir nm ch) =
  (do r <- fn (join_paths dir nm) KDir;
   match snd r with
   | SkipDir => Ok (fst r)
   | Continue => do rest <- fw_read fn fo (join_paths dir nm) ch; Ok (fst r ++ rest)
   end).
Proof. reflexivity. Qed.

Lemma fw_entry_symdir fn fo dir nm tg :
  fw_entry fn fo dir (SymDir nm tg) =
  (do r <- fn (join_paths dir nm) KSymDir;
   match snd r with
   | SkipDir => Ok (fst r)
   | Continue => if fo then do rest <- fw_read fn fo (join_paths dir nm) tg; Ok (fst r ++ rest) else Ok (fst r)
   end).
Proof. reflexivity. Qed.

Definition entry_agrees (o : wopts) (ig : list str) (e : entry) : Prop :=
  forall R d, path_inv R d -> entry_ok e ->
    fw_entry (walk_fn o (split_ignores ig)) (o_follow o) R e = Ok (list_entry o ig d e).

Lemma fw_read_agrees o ig ch :
  Forall (entry_agrees o ig) ch -> Forall entry_ok ch ->
  forall R d, path_inv R d ->
    fw_read (walk_fn o (split_ignores ig)) (o_follow o) R ch = Ok (flat_map (list_entry o ig d) ch).
Proof.
  intros Hag Hok R d Hinv. induction ch as [|x r IH]; [reflexivity|].
  inversion Hag as [|? ? Hx Hr]; subst. inversion Hok as [|? ? Hox Hor]; subst.
  rewrite fw_read_cons. rewrite (Hx R d Hinv Hox). cbn [bind].
  rewrite (IH Hr Hor). reflexivity.
Qed.

Lemma callback_at_child o ig R d nm k :
  path_inv R d -> name_ok nm ->
  walk_fn o (split_ignores ig) (join_paths R nm) k =
  Ok (let p := child d nm in
      let w := match k with KDir => o_dir o | _ => o_file o end in
      if dirlike o k then
        if pruned o ig p nm then ([], SkipDir) else (emit w (with_sep p), Continue)
      else (emit w p, Continue)).
Proof.
  intros Hinv Hn.
  pose proof (path_inv_child _ _ _ Hinv Hn) as Hc.
  rewrite (callback_exact_proof o ig _ k (child d nm) (path_inv_trim _ _ Hc)).
  - unfold fn_spec. rewrite (str_eqb_false _ _ (child_not_dot d nm Hn)).
    rewrite (base_name_child d nm Hn). reflexivity.
  - destruct Hc as (_ & _ & _ & H). exact H.
Qed.

Lemma fw_entry_agrees o ig e : entry_agrees o ig e.
Proof.
  induction e as [nm|nm ch IH|nm|nm tg IH] using entry_ind'; intros R d Hinv Hok; inversion Hok as [? Hn|? Hn|? ? Hn Hch|? ? Hn Htg]; subst.
  - rewrite fw_entry_file, (callback_at_child o ig R d nm KFile Hinv Hn). reflexivity.
  - rewrite fw_entry_dir, (callback_at_child o ig R d nm KDir Hinv Hn).
    cbn [dirlike bind list_entry]. cbv zeta.
    destruct (pruned o ig (child d nm) nm); [reflexivity|].
    cbn [snd fst].
    rewrite (fw_read_agrees o ig ch IH Hch _ _ (path_inv_child _ _ _ Hinv Hn)). reflexivity.
  - rewrite fw_entry_symfile, (callback_at_child o ig R d nm KSymFile Hinv Hn). reflexivity.
  - rewrite fw_entry_symdir, (callback_at_child o ig R d nm KSymDir Hinv Hn).
    cbn [dirlike bind list_entry]. cbv zeta.
    pose proof (fw_read_agrees o ig tg IH Htg _ _ (path_inv_child _ _ _ Hinv Hn)) as Hrd.
    destruct (o_follow o) eqn:Ef; [|reflexivity].
    destruct (pruned o ig (child d nm) nm); [reflexivity|].
    cbn [snd fst]. rewrite Hrd. reflexivity.
Qed.

Lemma fw_walk_agrees o ig root ch :
  root_ok root -> entries_ok ch ->
  fw_walk (walk_fn o (split_ignores ig)) (o_follow o) root ch = Ok (listing o ig root ch).
Proof.
  intros Hr Hok. pose proof (path_inv_root root Hr) as Hinv.
  unfold fw_walk, listing. cbv zeta.
  assert (Hl : last_byte (display root) <> Some SLASH) by (destruct Hinv as (_ & _ & _ & H); exact H).
  rewrite (callback_exact_proof o ig _ KDir (display root) (path_inv_trim _ _ Hinv) Hl).
  unfold fn_spec. cbn [bind dirlike].
  assert (Hread := fw_read_agrees o ig ch (proj2 (Forall_forall _ _) (fun e _ => fw_entry_agrees o ig e)) Hok _ _ Hinv).
  destruct (str_eqb (display root) [DOT]).
  - cbn [snd fst]. rewrite Hread. reflexivity.
  - destruct (pruned o ig (display root) (base_name (display root))); [reflexivity|].
    cbn [snd fst]. rewrite Hread. reflexivity.
Qed.

Definition roots_ok (roots : list (str * list entry)) : Prop :=
  Forall (fun rc => root_ok (fst rc) /\ entries_ok (snd rc)) roots.

Theorem walk_eq_listing_proof : forall o ig roots, roots_ok roots ->
  read_files o ig roots = Ok (listing_roots o ig roots).
Proof.
  intros o ig roots H. unfold read_files, listing_roots.
  induction H as [|[root ch] r [Hr Hc] _ IH]; [reflexivity|].
  cbn [walk_roots flat_map fst snd] in *. rewrite (fw_walk_agrees o ig root ch Hr Hc). cbn [bind].
  rewrite IH. reflexivity.
Qed.

Theorem walk_never_aborts_proof : forall o ig roots, roots_ok roots ->
  exists l, read_files o ig roots = Ok l.
Proof. intros o ig roots H. eexists. apply walk_eq_listing_proof. exact H. Qed.

(* ------------------------------------------------------------------ *)
(* skip_exact: the callback prunes a directory iff hidden (without `hidden`) or one of the three skip rules applies *)

Lemma starts_with_iff p s : starts_with p s = true <-> exists r, s = p ++ r.
Proof.
  revert s. induction p as [|x p IH]; intro s; cbn [starts_with].
  - split; [intros _; now exists s|reflexivity].
  - destruct s as [|y s]; [split; [discriminate|intros (r & H); discriminate]|].
    rewrite andb_true_iff, Z.eqb_eq, IH. split.
    + intros (-> & r & ->). now exists r.
    + intros (r & H). injection H as -> ->. split; [reflexivity|now exists r].
Qed.

Lemma ends_with_iff s p : ends_with s p = true <-> exists pre, p = pre ++ s.
Proof.
  unfold ends_with. rewrite starts_with_iff. split.
  - intros (r & H). exists (rev r). apply (f_equal (@rev Z)) in H.
    rewrite rev_involutive, rev_app_distr, rev_involutive in H. exact H.
  - intros (pre & ->). exists (rev pre). apply rev_app_distr.
Qed.

(* the three kinds of --walker-skip entries *)
Definition skip_rule (s p b : str) : Prop :=
  (has_slash s = false /\ s = b) \/
  (has_slash s = true /\ starts_with [SLASH] s = true /\ exists pre, p = pre ++ s) \/
  (has_slash s = true /\ starts_with [SLASH] s = false /\ (s = p \/ exists pre, p = pre ++ SLASH :: s)).

Lemma skip_matches_rule s p b : skip_matches p b s = true <-> skip_rule s p b.
Proof.
  unfold skip_matches, skip_rule. destruct (has_slash s).
  - destruct (starts_with [SLASH] s).
    + rewrite ends_with_iff. split.
      * intro H. right; left. auto.
      * intros [[H _]|[(_ & _ & H)|(_ & H & _)]]; try discriminate. exact H.
    + rewrite orb_true_iff, str_eqb_eq, ends_with_iff. split.
      * intro H. right; right. auto.
      * intros [[H _]|[(_ & H & _)|(_ & _ & H)]]; try discriminate. exact H.
  - rewrite str_eqb_eq. split.
    + intro H. left. auto.
    + intros [[_ H]|[(H & _)|(H & _)]]; try discriminate. exact H.
Qed.

Definition prune_rule (o : wopts) (ig : list str) (p b : str) : Prop :=
  (o_hidden o = false /\ hidden_name b = true) \/ exists s, In s ig /\ skip_rule s p b.

Lemma pruned_rule o ig p b : pruned o ig p b = true <-> prune_rule o ig p b.
Proof.
  unfold pruned, prune_rule, skipped.
  rewrite orb_true_iff, andb_true_iff, negb_true_iff, existsb_exists.
  split; intros [H|(s & Hin & H)]; auto; right; exists s; split; auto; now apply skip_matches_rule.
Qed.

Theorem skip_exact_proof : forall o ig path k p,
  trim_path path = p -> p <> [DOT] -> last_byte p <> Some SLASH ->
  (dirlike o k = true ->
     ((exists out, walk_fn o (split_ignores ig) path k = Ok (out, SkipDir)) <-> prune_rule o ig p (base_name p))) /\
  (dirlike o k = false -> exists out, walk_fn o (split_ignores ig) path k = Ok (out, Continue)).
Proof.
  intros o ig path k p Hp Hd Hl.
  rewrite (callback_exact_proof o ig path k p Hp Hl). unfold fn_spec.
  rewrite (str_eqb_false _ _ Hd). cbv zeta. split; intro Hk; rewrite Hk.
  - rewrite <- pruned_rule. destruct (pruned o ig p (base_name p)); split.
    + reflexivity.
    + intros _. eexists. reflexivity.
    + intros (out & H). discriminate.
    + discriminate.
  - eexists. reflexivity.
Qed.

(* ------------------------------------------------------------------ *)
(* shape of the listed paths; no duplicates; no leading "./" *)

Definition prefix_of (d : str) : str := if str_eqb d [DOT] then [] else d ++ [SLASH].
Definition tail_ok (rest : str) : Prop := rest = [] \/ exists r, rest = SLASH :: r.

Lemma child_prefix d nm : child d nm = prefix_of d ++ nm.
Proof.
  unfold child, prefix_of. destruct (str_eqb d [DOT]); [reflexivity|].
  now rewrite <- app_assoc.
Qed.

Lemma prefix_child d nm : name_ok nm -> prefix_of (child d nm) = prefix_of d ++ nm ++ [SLASH].
Proof.
  intro Hn. unfold prefix_of at 1. rewrite (str_eqb_false _ _ (child_not_dot d nm Hn)).
  rewrite child_prefix. now rewrite <- app_assoc.
Qed.

Lemma in_emit b p x : In x (emit b p) -> x = p /\ b = true.
Proof. destruct b; cbn; [intros [H|[]]; auto|intros []]. Qed.

Lemma emit_nodup b p : NoDup (emit b p).
Proof. destruct b; cbn; repeat constructor. intros []. Qed.

Lemma list_entry_shape o ig e : forall d x, entry_ok e -> In x (list_entry o ig d e) ->
  exists rest, x = prefix_of d ++ name_of e ++ rest /\ tail_ok rest.
Proof.
  induction e as [nm|nm ch IH|nm|nm tg IH] using entry_ind'; intros d x Hok Hin;
    inversion Hok as [? Hn|? Hn|? ? Hn Hch|? ? Hn Htg]; subst; cbn [list_entry name_of] in *.
  - apply in_emit in Hin as [-> _]. exists []. rewrite app_nil_r. split; [apply child_prefix|now left].
  - destruct (pruned o ig (child d nm) nm); [contradiction|].
    apply in_app_or in Hin as [Hin|Hin].
    + apply in_emit in Hin as [-> _]. exists [SLASH]. unfold with_sep. rewrite child_prefix, <- app_assoc.
      split; [reflexivity|right; now exists []].
    + apply in_flat_map in Hin as (e & He & Hx).
      rewrite Forall_forall in IH, Hch.
      destruct (IH e He _ _ (Hch e He) Hx) as (rest & -> & _).
      rewrite (prefix_child d nm Hn). exists (SLASH :: name_of e ++ rest).
      split; [now rewrite <- !app_assoc|right; eexists; reflexivity].
  - apply in_emit in Hin as [-> _]. exists []. rewrite app_nil_r. split; [apply child_prefix|now left].
  - destruct (o_follow o).
    + destruct (pruned o ig (child d nm) nm); [contradiction|].
      apply in_app_or in Hin as [Hin|Hin].
      * apply in_emit in Hin as [-> _]. exists [SLASH]. unfold with_sep. rewrite child_prefix, <- app_assoc.
        split; [reflexivity|right; now exists []].
      * apply in_flat_map in Hin as (e & He & Hx).
        rewrite Forall_forall in IH, Htg.
        destruct (IH e He _ _ (Htg e He) Hx) as (rest & -> & _).
        rewrite (prefix_child d nm Hn). exists (SLASH :: name_of e ++ rest).
        split; [now rewrite <- !app_assoc|right; eexists; reflexivity].
    + apply in_emit in Hin as [-> _]. exists []. rewrite app_nil_r. split; [apply child_prefix|now left].
Qed.

Lemma entry_ok_name e : entry_ok e -> name_ok (name_of e).
Proof. destruct 1; assumption. Qed.

Lemma slashfree_inj a b ra rb :
  ~ In SLASH a -> ~ In SLASH b -> tail_ok ra -> tail_ok rb -> a ++ ra = b ++ rb -> a = b.
Proof.
  revert b. induction a as [|x a IH]; intros [|y b] Ha Hb Hra Hrb H; cbn [app] in H.
  - reflexivity.
  - exfalso. destruct Hra as [->|(r & ->)]; [discriminate|]. injection H as <- _. apply Hb. now left.
  - exfalso. destruct Hrb as [->|(r & ->)]; [discriminate|]. injection H as -> _. apply Ha. now left.
  - injection H as -> H. f_equal. apply IH; auto; intro Hin; [apply Ha|apply Hb]; now right.
Qed.

(* nothing listed below directory p is p itself or p ++ "/" *)
Lemma children_not_dir o ig p ch x :
  Forall entry_ok ch -> In x (flat_map (list_entry o ig p) ch) -> x <> prefix_of p.
Proof.
  intros Hch Hin Heq. apply in_flat_map in Hin as (e & He & Hx).
  rewrite Forall_forall in Hch.
  destruct (list_entry_shape o ig e p x (Hch e He) Hx) as (rest & E & _).
  rewrite Heq in E. rewrite <- (app_nil_r (prefix_of p)) in E at 1.
  apply app_inv_head in E. symmetry in E. apply app_eq_nil in E as [E _].
  destruct (entry_ok_name e (Hch e He)) as (Hne & _). contradiction.
Qed.

Definition entry_nodup (o : wopts) (ig : list str) (e : entry) : Prop :=
  entry_ok e -> entry_distinct e -> forall d, NoDup (list_entry o ig d e).

Lemma children_nodup o ig ch :
  Forall (entry_nodup o ig) ch -> Forall entry_ok ch -> Forall entry_distinct ch ->
  NoDup (map name_of ch) -> forall d, NoDup (flat_map (list_entry o ig d) ch).
Proof.
  intros Hnd Hok Hdi Hnm d. induction ch as [|e r IH]; [constructor|].
  inversion Hnd as [|? ? Hnd1 Hnd2]; inversion Hok as [|? ? Hok1 Hok2]; inversion Hdi as [|? ? Hdi1 Hdi2];
    inversion Hnm as [|? ? Hnm1 Hnm2]; subst.
  cbn [flat_map]. apply nodup_app; [apply Hnd1; assumption|apply IH; assumption|].
  intros x Hx1 Hx2. apply in_flat_map in Hx2 as (e' & He' & Hx2).
  rewrite Forall_forall in Hok2.
  destruct (list_entry_shape o ig e d x Hok1 Hx1) as (r1 & E1 & T1).
  destruct (list_entry_shape o ig e' d x (Hok2 e' He') Hx2) as (r2 & E2 & T2).
  rewrite E1 in E2. apply app_inv_head in E2.
  assert (Hs : forall e0, entry_ok e0 -> ~ In SLASH (name_of e0)).
  { intros e0 H0. destruct (entry_ok_name e0 H0) as (_ & H & _). exact H. }
  apply slashfree_inj in E2; auto.
  apply Hnm1. rewrite E2. apply in_map. exact He'.
Qed.

Lemma dir_body_nodup o ig p ch w :
  str_eqb p [DOT] = false -> Forall entry_ok ch -> NoDup (flat_map (list_entry o ig p) ch) ->
  NoDup (emit w (with_sep p) ++ flat_map (list_entry o ig p) ch).
Proof.
  intros Hp Hch Hnd. apply nodup_app; [apply emit_nodup|exact Hnd|].
  intros x Hx Hin. apply in_emit in Hx as [-> _].
  apply (children_not_dir o ig p ch _ Hch Hin). unfold prefix_of, with_sep. now rewrite Hp.
Qed.

Lemma entry_nodup_all o ig e : entry_nodup o ig e.
Proof.
  induction e as [nm|nm ch IH|nm|nm tg IH] using entry_ind'; intros Hok Hdi d;
    inversion Hok as [? Hn|? Hn|? ? Hn Hch|? ? Hn Htg]; subst; cbn [list_entry].
  - apply emit_nodup.
  - destruct (pruned o ig (child d nm) nm); [constructor|].
    inversion Hdi as [| |? ? Hnm Hdc|]; subst.
    apply dir_body_nodup; [apply str_eqb_false, child_not_dot, Hn|exact Hch|].
    apply children_nodup; assumption.
  - apply emit_nodup.
  - destruct (o_follow o); [|apply emit_nodup].
    destruct (pruned o ig (child d nm) nm); [constructor|].
    inversion Hdi as [| | |? ? Hnm Hdc]; subst.
    apply dir_body_nodup; [apply str_eqb_false, child_not_dot, Hn|exact Htg|].
    apply children_nodup; assumption.
Qed.

Theorem no_duplicates_proof : forall o ig root ch, entries_ok ch -> entries_distinct ch ->
  NoDup (listing o ig root ch).
Proof.
  intros o ig root ch Hok [Hnm Hdi]. unfold listing. cbv zeta.
  assert (Hc : NoDup (flat_map (list_entry o ig (display root)) ch)).
  { apply children_nodup; try assumption. apply Forall_forall. intros e _. apply entry_nodup_all. }
  destruct (str_eqb (display root) [DOT]) eqn:E; [exact Hc|].
  destruct (pruned o ig (display root) (base_name (display root))); [constructor|].
  apply dir_body_nodup; assumption.
Qed.

(* no printed path starts with "./" *)
Definition nds (d : str) : Prop := forall t, starts_with [DOT; SLASH] (d ++ t) = false.

Lemma display_nds root : display root = [DOT] \/ nds (display root).
Proof.
  unfold display. pose proof (strip_unstrippable_spec (drop_trailing_slashes root)) as H.
  destruct (strip_dot_slash (drop_trailing_slashes root)) as [|a [|b r]].
  - now left.
  - destruct (a =? DOT) eqn:E.
    + apply Z.eqb_eq in E. subst. now left.
    + right. intro t. cbn [app starts_with]. rewrite Z.eqb_sym, E. reflexivity.
  - right. intro t. cbn [app starts_with]. rewrite (Z.eqb_sym DOT a), (Z.eqb_sym SLASH b), andb_true_r. exact H.
Qed.

Lemma name_nds nm rest : name_ok nm -> tail_ok rest -> starts_with [DOT; SLASH] (nm ++ rest) = false.
Proof.
  intros (Hne & Hs & Hd) Ht. destruct nm as [|a [|b r]]; [contradiction| |].
  - destruct (a =? DOT) eqn:E.
    + apply Z.eqb_eq in E. subst. contradiction.
    + cbn [app starts_with]. now rewrite Z.eqb_sym, E.
  - cbn [app starts_with]. assert (Hb : (SLASH =? b) = false).
    { apply Z.eqb_neq. intro; subst. apply Hs. right; now left. }
    rewrite Hb. cbn. apply andb_false_r.
Qed.

Theorem no_dot_slash_proof : forall o ig root ch x, entries_ok ch ->
  In x (listing o ig root ch) -> starts_with [DOT; SLASH] x = false.
Proof.
  intros o ig root ch x Hok Hin. unfold listing in Hin. cbv zeta in Hin.
  assert (Hch : forall d, In x (flat_map (list_entry o ig d) ch) ->
            exists nm rest, x = prefix_of d ++ nm ++ rest /\ name_ok nm /\ tail_ok rest).
  { intros d H. apply in_flat_map in H as (e & He & Hx). unfold entries_ok in Hok. rewrite Forall_forall in Hok.
    destruct (list_entry_shape o ig e d x (Hok e He) Hx) as (rest & E & T).
    exists (name_of e), rest. split; [exact E|split; [apply entry_ok_name; auto|exact T]]. }
  destruct (str_eqb (display root) [DOT]) eqn:E.
  - destruct (Hch _ Hin) as (nm & rest & -> & Hn & Ht). unfold prefix_of. rewrite E. cbn [app].
    now apply name_nds.
  - destruct (display_nds root) as [Hd|Hd]; [rewrite Hd, str_eqb_refl in E; discriminate|].
    destruct (pruned o ig (display root) (base_name (display root))); [contradiction|].
    apply in_app_or in Hin as [Hin|Hin].
    + apply in_emit in Hin as [-> _]. apply Hd.
    + destruct (Hch _ Hin) as (nm & rest & -> & _). unfold prefix_of. rewrite E, <- app_assoc. apply Hd.
Qed.

(* a directory is listed iff `dir`, and only with the trailing separator; a file never carries one *)
Theorem dir_marked_iff_dir_proof : forall o ig d nm ch,
  name_ok nm -> Forall entry_ok ch -> pruned o ig (child d nm) nm = false ->
  (In (with_sep (child d nm)) (list_entry o ig d (Dir nm ch)) <-> o_dir o = true) /\
  ~ In (child d nm) (list_entry o ig d (Dir nm ch)).
Proof.
  intros o ig d nm ch Hn Hch Hp. cbn [list_entry]. rewrite Hp.
  assert (Hpre : prefix_of (child d nm) = with_sep (child d nm)).
  { unfold prefix_of. now rewrite (str_eqb_false _ _ (child_not_dot d nm Hn)). }
  split; [split|].
  - intro Hin. apply in_app_or in Hin as [Hin|Hin]; [now apply in_emit in Hin|].
    exfalso. apply (children_not_dir o ig _ ch _ Hch Hin). symmetry. exact Hpre.
  - intro Hd. rewrite Hd. cbn. now left.
  - intro Hin. apply in_app_or in Hin as [Hin|Hin].
    + apply in_emit in Hin as [Hin _]. unfold with_sep in Hin.
      apply (f_equal (@length Z)) in Hin. rewrite app_length in Hin. cbn in Hin. lia.
    + apply in_flat_map in Hin as (e & He & Hx). rewrite Forall_forall in Hch.
      destruct (list_entry_shape o ig e _ _ (Hch e He) Hx) as (rest & E & _).
      rewrite Hpre in E. unfold with_sep in E. apply (f_equal (@length Z)) in E.
      rewrite !app_length in E. cbn in E. lia.
Qed.

Theorem file_listed_iff_file_proof : forall o ig d nm,
  name_ok nm ->
  list_entry o ig d (File nm) = (if o_file o then [child d nm] else []) /\
  last_byte (child d nm) <> Some SLASH.
Proof. intros o ig d nm Hn. split; [reflexivity|now apply child_last]. Qed.

(* K4 (fixed in c70b7a3): a name starting with `.\` is listed verbatim under root "." ... *)
Example dot_backslash_verbatim_proof :
  name_ok [DOT; BSLASH; 97] /\
  read_files (mkOpts true false false false) [] [([DOT], [File [DOT; BSLASH; 97]; File [97]])] =
    Ok [[DOT; BSLASH; 97]; [97]].
Proof.
  split; [|reflexivity].
  repeat split; try discriminate. intros [H|[H|[H|[]]]]; discriminate.
Qed.

(* ... whereas the stripping rule before the fix (`.\` treated like "./" on every platform) turned it into
   "a", colliding with the real file "a": regression witness for the old rule *)
Fixpoint trim_loop_old (s : str) : str :=
  match s with
  | a :: b :: r => if (a =? DOT) && ((b =? SLASH) || (b =? BSLASH)) then trim_loop_old r else s
  | _ => s
  end.
Example dot_backslash_refuted_old_proof :
  let raw := join_paths [DOT] [DOT; BSLASH; 97] in
  trim_loop_old raw = [97] /\ trim_path raw = [DOT; BSLASH; 97].
Proof. split; reflexivity. Qed.

(* ------------------------------------------------------------------ *)
(* the same facts stated of the MODEL's output (one root) *)

Lemma read_files_one o ig root ch l :
  root_ok root -> entries_ok ch -> read_files o ig [(root, ch)] = Ok l -> l = listing o ig root ch.
Proof.
  intros Hr Hc H. rewrite (walk_eq_listing_proof o ig [(root, ch)]) in H.
  - injection H as <-. unfold listing_roots. cbn [flat_map fst snd]. now rewrite app_nil_r.
  - constructor; [split; assumption|constructor].
Qed.

Theorem no_duplicates_model_proof : forall o ig root ch l,
  root_ok root -> entries_ok ch -> entries_distinct ch ->
  read_files o ig [(root, ch)] = Ok l -> NoDup l.
Proof.
  intros o ig root ch l Hr Hc Hd H. rewrite (read_files_one o ig root ch l Hr Hc H).
  now apply no_duplicates_proof.
Qed.

Theorem no_dot_slash_model_proof : forall o ig roots l x,
  roots_ok roots -> read_files o ig roots = Ok l -> In x l -> starts_with [DOT; SLASH] x = false.
Proof.
  intros o ig roots l x Hr H Hin. rewrite (walk_eq_listing_proof o ig roots Hr) in H. injection H as <-.
  unfold listing_roots in Hin. apply in_flat_map in Hin as ([root ch] & Hrc & Hx).
  unfold roots_ok in Hr. rewrite Forall_forall in Hr. destruct (Hr _ Hrc) as [_ Hc].
  apply (no_dot_slash_proof o ig root ch x Hc Hx).
Qed.

Theorem walk_perm_listing_proof : forall o ig roots l, roots_ok roots ->
  read_files o ig roots = Ok l -> Permutation l (listing_roots o ig roots).
Proof.
  intros o ig roots l Hr H. rewrite (walk_eq_listing_proof o ig roots Hr) in H. injection H as <-.
  apply Permutation_refl.
Qed.
