(* C17 proofs, key names with characters outside ASCII: decoding the UTF-8 spelling of a character gives the
   character back, and `alt-CHAR` / `CHAR` name ALT+CHAR / CHAR for every character. *)
From Coq Require Import String.
From Fzf Require Import Prelude RuneSpec BindSpec.
Open Scope Z_scope.

Lemma rng_true lo hi c : lo <= c <= hi -> rng lo hi c = true.
Proof. intro H. unfold rng. apply andb_true_iff. split; apply Z.leb_le; lia. Qed.

Lemma rng_false lo hi c : c < lo \/ hi < c -> rng lo hi c = false.
Proof.
  intro H. unfold rng. apply andb_false_iff. destruct H; [left|right]; apply Z.leb_gt; lia.
Qed.

Lemma divmod64 c : 0 <= c -> exists q m, c / 64 = q /\ c mod 64 = m /\ c = 64 * q + m /\ 0 <= m < 64 /\ 0 <= q.
Proof.
  intro H. exists (c / 64), (c mod 64). repeat split; try reflexivity.
  - apply Z.div_mod. lia.
  - apply Z.mod_pos_bound. lia.
  - apply Z.mod_pos_bound. lia.
  - apply Z.div_pos; lia.
Qed.

(* the first character of (spelling of c) ++ rest is c, and it takes the whole spelling *)
Lemma decode_encode c rest : scalar c = true ->
  decode_rune (utf8_encode c ++ rest) = (c, length (utf8_encode c)).
Proof.
  intro S. unfold scalar in S.
  assert (R : 0 <= c <= 55295 \/ 57344 <= c <= 1114111).
  { apply orb_true_iff in S as [S|S]; unfold rng in S; apply andb_true_iff in S as [S1 S2];
    apply Z.leb_le in S1; apply Z.leb_le in S2; [left|right]; lia. }
  assert (P : 0 <= c) by lia.
  unfold utf8_encode.
  destruct (c <? 128) eqn:E1.
  { cbn [app decode_rune length]. now rewrite E1. }
  apply Z.ltb_ge in E1.
  destruct (divmod64 c P) as (k & m0 & Ek & Em0 & Hc & Hm0 & Hk). rewrite Ek, Em0.
  destruct (c <? 2048) eqn:E2.
  { apply Z.ltb_lt in E2. cbn [app decode_rune length].
    replace (192 + k <? 128) with false by (symmetry; apply Z.ltb_ge; lia).
    rewrite (rng_true 194 223) by lia. unfold cont. rewrite (rng_true 128 191) by lia.
    f_equal. lia. }
  apply Z.ltb_ge in E2.
  destruct (divmod64 k Hk) as (j & m1 & Ej & Em1 & Hkk & Hm1 & Hj). rewrite Ej, Em1.
  destruct (c <? 65536) eqn:E3.
  { apply Z.ltb_lt in E3. cbn [app decode_rune length].
    replace (224 + j <? 128) with false by (symmetry; apply Z.ltb_ge; lia).
    rewrite (rng_false 194 223) by lia. rewrite (rng_true 224 239) by lia.
    unfold cont. rewrite (rng_true 128 191 (128 + m0)) by lia.
    destruct (Z.eqb_spec (224 + j) 224) as [A|A]; destruct (Z.eqb_spec (224 + j) 237) as [B|B];
      (rewrite rng_true by lia); cbn [andb]; f_equal; lia. }
  apply Z.ltb_ge in E3.
  destruct (divmod64 j Hj) as (i & m2 & Ei & Em2 & Hjj & Hm2 & Hi). rewrite Ei, Em2.
  cbn [app decode_rune length].
  replace (240 + i <? 128) with false by (symmetry; apply Z.ltb_ge; lia).
  rewrite (rng_false 194 223) by lia. rewrite (rng_false 224 239) by lia. rewrite (rng_true 240 244) by lia.
  unfold cont. rewrite (rng_true 128 191 (128 + m1)) by lia. rewrite (rng_true 128 191 (128 + m0)) by lia.
  destruct (Z.eqb_spec (240 + i) 240) as [A|A]; destruct (Z.eqb_spec (240 + i) 244) as [B|B];
    (rewrite rng_true by lia); cbn [andb]; f_equal; lia.
Qed.

Lemma encode_length c : (1 <= length (utf8_encode c) <= 4)%nat.
Proof.
  unfold utf8_encode. destruct (c <? 128); [cbn; lia|]. destruct (c <? 2048); [cbn; lia|].
  destruct (c <? 65536); cbn; lia.
Qed.

Lemma runes_skip : forall u v, utf8_runes_aux (length u) (u ++ v) = utf8_runes_aux 0 v.
Proof. induction u as [|x r IH]; intro v; [reflexivity|]. cbn [length app utf8_runes_aux]. apply IH. Qed.

(* the characters of (spelling of c) ++ rest: c, then the characters of rest *)
Lemma runes_encode_app c rest : scalar c = true -> utf8_runes (utf8_encode c ++ rest) = c :: utf8_runes rest.
Proof.
  intro HS. unfold utf8_runes. pose proof (decode_encode c rest HS) as D. pose proof (encode_length c) as L.
  destruct (utf8_encode c) as [|x r] eqn:E; [cbn in L; lia|].
  cbn [app utf8_runes_aux]. change (x :: r ++ rest) with ((x :: r) ++ rest). rewrite D.
  f_equal. cbn [length]. replace (S (length r) - 1)%nat with (length r) by lia. apply runes_skip.
Qed.

Theorem utf8_roundtrip_proof : forall c, scalar c = true -> utf8_runes (utf8_encode c) = [c].
Proof. intros c S. rewrite <- (app_nil_r (utf8_encode c)). now rewrite runes_encode_app. Qed.

Lemma runes_ascii_cons x rest : x < 128 -> utf8_runes (x :: rest) = x :: utf8_runes rest.
Proof.
  intro H. unfold utf8_runes. cbn [utf8_runes_aux decode_rune].
  replace (x <? 128) with true by (symmetry; apply Z.ltb_lt; lia). reflexivity.
Qed.

(* ------------------------------------------------------------------ key names *)

Definition ascii (s : str) : bool := forallb (fun c => c <? 128) s.

Lemma assoc_ascii {A} (m : list (str * A)) l : forallb (fun e => ascii (fst e)) m = true -> ascii l = false ->
  assoc_str l m = None.
Proof.
  induction m as [|[k v] r IH]; intros H N; [reflexivity|].
  cbn [forallb fst] in H. apply andb_true_iff in H as [Hk Hr]. cbn [assoc_str].
  destruct (str_eqb l k) eqn:E; [apply str_eqb_eq in E; subst; congruence|now apply IH].
Qed.

Lemma named_keys_ascii : forallb (fun e => ascii (fst e)) named_keys = true.
Proof. vm_compute. reflexivity. Qed.

Lemma encode_high c : 128 <= c -> scalar c = true -> exists x r, utf8_encode c = x :: r /\ 128 <= x /\ lower x = x
  /\ to_lower r = r /\ (1 <= length r <= 3)%nat.
Proof.
  intros H S. unfold scalar in S.
  assert (R : c <= 1114111).
  { apply orb_true_iff in S as [S|S]; unfold rng in S; apply andb_true_iff in S as [_ S2]; apply Z.leb_le in S2; lia. }
  assert (LO : forall y, 128 <= y -> lower y = y).
  { intros y Hy. unfold lower, is_upper. replace (y <=? 90) with false by (symmetry; apply Z.leb_gt; lia).
    now rewrite andb_false_r. }
  assert (P : 0 <= c) by lia.
  destruct (divmod64 c P) as (k & m0 & Ek & Em0 & Hc & Hm0 & Hk).
  destruct (divmod64 k Hk) as (j & m1 & Ej & Em1 & Hkk & Hm1 & Hj).
  destruct (divmod64 j Hj) as (i & m2 & Ei & Em2 & Hjj & Hm2 & Hi).
  unfold utf8_encode. replace (c <? 128) with false by (symmetry; apply Z.ltb_ge; lia).
  rewrite Ek, Em0, Ej, Em1, Ei, Em2.
  destruct (c <? 2048); [|destruct (c <? 65536)]; eexists; eexists; (split; [reflexivity|]);
    (split; [lia|]); (split; [apply LO; lia|]); (split; [|cbn; lia]);
    unfold to_lower; cbn [map]; rewrite ?LO by lia; reflexivity.
Qed.

Lemma lower_alt p : to_lower p = s_alt -> exists a c d e, p = [a; c; d; e] /\ a < 128 /\ c < 128 /\ d < 128 /\ e < 128.
Proof.
  assert (LB : forall x y, lower x = y -> y < 128 -> x < 128).
  { intros x y H Hy. unfold lower in H. destruct (is_upper x) eqn:U; [|lia].
    unfold is_upper in U. apply andb_true_iff in U as [_ U]. apply Z.leb_le in U. lia. }
  unfold to_lower, s_alt. intro H.
  destruct p as [|a [|c [|d [|e [|z r]]]]]; try discriminate. cbn [map] in H. inversion H.
  exists a, c, d, e. split; [reflexivity|]. repeat split; eapply LB; eauto; lia.
Qed.

(* alt-CHAR (the prefix in any letter case) names ALT + CHAR, for every character outside ASCII *)
Theorem alt_char_key_proof : forall p c, to_lower p = s_alt -> 128 <= c -> scalar c = true ->
  key_of_token (p ++ utf8_encode c) = Some (KAlt c).
Proof.
  intros p c HP HC S.
  destruct (lower_alt p HP) as (p1 & p2 & p3 & p4 & -> & A1 & A2 & A3 & A4).
  destruct (encode_high c HC S) as (x & r & E & Hx & Lx & Lr & Len).
  assert (RU : utf8_runes ([p1; p2; p3; p4] ++ utf8_encode c) = [p1; p2; p3; p4; c]).
  { cbn [app]. rewrite !runes_ascii_cons by assumption. rewrite <- (app_nil_r (utf8_encode c)).
    now rewrite runes_encode_app. }
  assert (LW : to_lower ([p1; p2; p3; p4] ++ utf8_encode c) = s_alt ++ x :: r).
  { rewrite E. unfold to_lower in *. rewrite map_app, HP. cbn [map]. now rewrite Lx, Lr. }
  unfold key_of_token. rewrite LW.
  rewrite (assoc_ascii named_keys _ named_keys_ascii).
  2:{ unfold ascii, s_alt. cbn [app forallb]. replace (x <? 128) with false by (symmetry; apply Z.ltb_ge; lia).
      cbn. reflexivity. }
  assert (RK : rune_key ([p1; p2; p3; p4] ++ utf8_encode c) (s_alt ++ x :: r) = Some (KAlt c)).
  { unfold rune_key. rewrite RU. reflexivity. }
  rewrite E in *. cbn [app] in *.
  destruct r as [|r1 [|r2 [|r3 [|r4 r']]]]; cbn [length] in Len; try lia; exact RK.
Qed.

(* a single character outside ASCII is the key of that character *)
Theorem char_key_proof : forall c, 128 <= c -> scalar c = true -> key_of_token (utf8_encode c) = Some (KRune c).
Proof.
  intros c HC S.
  destruct (encode_high c HC S) as (x & r & E & Hx & Lx & Lr & Len).
  pose proof (utf8_roundtrip_proof c S) as RU.
  assert (LW : to_lower (utf8_encode c) = x :: r).
  { rewrite E. unfold to_lower in *. cbn [map]. now rewrite Lx, Lr. }
  unfold key_of_token. rewrite LW.
  rewrite (assoc_ascii named_keys _ named_keys_ascii).
  2:{ unfold ascii. cbn [forallb]. replace (x <? 128) with false by (symmetry; apply Z.ltb_ge; lia). reflexivity. }
  assert (RK : rune_key (utf8_encode c) (x :: r) = Some (KRune c)).
  { unfold rune_key. now rewrite RU. }
  rewrite E in *.
  destruct r as [|r1 [|r2 [|r3 [|r4 r']]]]; cbn [length] in Len; try lia; try exact RK.
  (* two bytes: not f1..f9, the first byte is not `f` *)
  replace (has_prefix s_f [x; r1]) with false; [exact RK|].
  symmetry. unfold has_prefix, s_f. cbn [length firstn str_eqb].
  replace (102 =? x) with false by (symmetry; apply Z.eqb_neq; lia). reflexivity.
Qed.
