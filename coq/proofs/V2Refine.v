(* C03, refinement of phase 3 of FuzzyMatchV2: the flat-memory fill [p3_rows] (cells addressed
   row*width + col - f0 in a [list (option Z)]) computes exactly the cells of the pure list version
   [win_rows] / [win_matrix] of V2DpWin.v, and its running (maxScore, maxPos) is [win_result].

   The proof is a simulation: it ASSUMES the model run returned [Ok] (totality is V2MatrixFill's
   [p3_rows_ok]) and shows that every read returned the value of the corresponding list cell. *)
From Fzf Require Import Prelude AlgoSpec AlgoModel V2Facts V2MatrixBase V2MatrixFill V2DpWin V2DpAssemble.
Open Scope Z_scope.

(* ---------- inversion of the checked accessors ---------- *)

Lemma get_ok_nth {A} (l : list A) n x d : get l n = Ok x -> nth n l d = x /\ (n < length l)%nat.
Proof.
  revert n; induction l as [|a l IH]; intros [|n] H; cbn in *; try discriminate.
  - inversion H. split; [reflexivity|lia].
  - destruct (IH n H). split; [assumption|lia].
Qed.

Lemma set_nth_ok_lt {A} (l : list A) n v l' : set_nth l n v = Ok l' -> (n < length l)%nat.
Proof.
  revert n l'; induction l as [|a l IH]; intros [|n] l' H; cbn in *; try discriminate; try lia.
  destruct (set_nth l n v) as [t|] eqn:E; cbn in H; [|discriminate].
  specialize (IH n t E). lia.
Qed.

Lemma mget_ok m z v : mget m z = Ok v -> mc m z = Some v.
Proof.
  unfold mget, mc. destruct (z <? 0); [discriminate|].
  destruct (get m (Z.to_nat z)) as [[x|]|] eqn:E; try discriminate.
  intros H; inversion H; subst.
  destruct (get_ok_nth m (Z.to_nat z) (Some v) None E) as [E1 E2].
  rewrite (nth_error_nth' m None E2), E1. reflexivity.
Qed.

Lemma mget_det m z v v' : mc m z = Some v -> mget m z = Ok v' -> v' = v.
Proof. intros H1 H2. apply mget_ok in H2. congruence. Qed.

Lemma mset_ok m z v m' : mset m z v = Ok m' ->
  forall z', mc m' z' = if z' =? z then Some v else mc m z'.
Proof.
  intros H. pose proof H as H0. unfold mset in H0.
  destruct (Z.ltb_spec z 0) as [A|A]; [discriminate|].
  apply set_nth_ok_lt in H0.
  destruct (mset_spec m z v) as (m'' & E & _ & S); [lia|].
  rewrite E in H. inversion H; subst. exact S.
Qed.

Lemma zget_ok l i v : zget l i = Ok v -> v = zn l (Z.to_nat i) /\ 0 <= i.
Proof.
  unfold zget. destruct (Z.ltb_spec i 0) as [A|A]; [discriminate|].
  intros H. destruct (get_ok_nth l (Z.to_nat i) v 0 H) as [E _]. split; [symmetry; exact E|exact A].
Qed.

(* ---------- the candidate (s1, consecutive) of one cell ---------- *)

Definition wr (pchar : Z) (T B : list Z) (col : nat) (d : wcell) (s2 : Z) : Z * Z :=
  if pchar =? zn T col then
    let b0 := zn B col in
    let s1 := w_h d + scoreMatch in
    let cn := w_c d + 1 in
    let bc := if 1 <? cn then
                let fb := zn B (Z.to_nat (Z.of_nat col - cn + 1)) in
                if (bonusBoundary <=? b0) && (fb <? b0) then (b0, 1)
                else (Z.max b0 (Z.max bonusConsecutive fb), cn)
              else (b0, cn) in
    if s1 + fst bc <? s2 then (s1 + b0, 0) else (s1 + fst bc, snd bc)
  else (0, 0).

Lemma wstep_wr pchar T B col d hleft inGap :
  wstep pchar T B col d hleft inGap =
  let s2 := hleft + (if inGap then scoreGapExt else scoreGapStart) in
  let r := wr pchar T B col d s2 in
  mkW (Z.max (Z.max (fst r) s2) 0) (snd r) (fst r <? s2).
Proof. reflexivity. Qed.

Lemma cell_r_wr T B width H C row j0 coln pchar s2 d r :
  cell_r B width H C row j0 (Z.of_nat coln) pchar (zn T coln) s2 = Ok r ->
  mc H (row + j0 - 1 - width) = Some (w_h d) -> mc C (row + j0 - 1 - width) = Some (w_c d) ->
  r = wr pchar T B coln d s2.
Proof.
  intros Hr Hh Hc. unfold cell_r in Hr. unfold wr.
  destruct (pchar =? zn T coln); [|now inversion Hr].
  rewrite (mget_mc _ _ _ Hh), (mget_mc _ _ _ Hc) in Hr. cbn [bind] in Hr.
  destruct (zget B (Z.of_nat coln)) as [b0|] eqn:Eb; cbn [bind] in Hr; [|discriminate].
  apply zget_ok in Eb as [Eb _]. rewrite Nat2Z.id in Eb. subst b0.
  cbv zeta.
  destruct (1 <? w_c d + 1).
  - destruct (zget B (Z.of_nat coln - (w_c d + 1) + 1)) as [fb|] eqn:Ef; cbn [bind] in Hr; [|discriminate].
    apply zget_ok in Ef as [Ef _]. subst fb.
    destruct ((bonusBoundary <=? zn B coln) && (_ <? zn B coln)); cbn [bind fst snd] in Hr |- *;
      match type of Hr with (if ?c then _ else _) = _ => destruct c end; now inversion Hr.
  - cbn [bind fst snd] in Hr |- *.
    match type of Hr with (if ?c then _ else _) = _ => destruct c end; now inversion Hr.
Qed.

(* ---------- one row ---------- *)

Section RowRef.
Variables (T B : list Z) (width f0 : Z) (fwd lastrow : bool) (row pchar : Z) (fprev : nat) (prow : list wcell).
Lemma p3_row_refines : forall n H C coln inGap ms mpn hleft H' C' ms' mp',
  p3_row fwd lastrow T B H C row width f0 pchar n (Z.of_nat coln) inGap ms (Z.of_nat mpn) = Ok (H', C', ms', mp') ->
  Z.of_nat n <= width ->
  mc H (row + (Z.of_nat coln - f0) - 1) = Some hleft ->
  (forall k, (k < n)%nat ->
     mc H (row + (Z.of_nat (coln + k) - f0) - 1 - width) = Some (w_h (nth (coln + k - 1 - fprev) prow wdflt)) /\
     mc C (row + (Z.of_nat (coln + k) - f0) - 1 - width) = Some (w_c (nth (coln + k - 1 - fprev) prow wdflt))) ->
  let cells := win_row_go pchar T B fprev prow n coln hleft inGap in
  (forall k, (k < n)%nat ->
     mc H' (row + (Z.of_nat (coln + k) - f0)) = Some (w_h (nth k cells wdflt)) /\
     mc C' (row + (Z.of_nat (coln + k) - f0)) = Some (w_c (nth k cells wdflt))) /\
  (forall z, z < row + (Z.of_nat coln - f0) -> mc H' z = mc H z /\ mc C' z = mc C z) /\
  ms' = (if lastrow then fst (win_best fwd cells coln ms mpn) else ms) /\
  mp' = Z.of_nat (if lastrow then snd (win_best fwd cells coln ms mpn) else mpn).
Proof.
  induction n as [|n IH]; intros H C coln inGap ms mpn hleft H' C' ms' mp' Hrun Hn Hleft Hdiag cells.
  - cbn [p3_row] in Hrun. inversion Hrun; subst. subst cells. cbn [win_row_go win_best fst snd].
    split; [intros; lia|]. split; [auto|]. destruct lastrow; auto.
  - rewrite p3_row_S in Hrun. cbv zeta in Hrun.
    rewrite (mget_mc _ _ _ Hleft) in Hrun. cbn [bind] in Hrun.
    destruct (zget T (Z.of_nat coln)) as [ch|] eqn:ET; cbn [bind] in Hrun; [|discriminate].
    apply zget_ok in ET as [ET _]. rewrite Nat2Z.id in ET. subst ch.
    set (s2 := hleft + (if inGap then scoreGapExt else scoreGapStart)) in *.
    destruct (cell_r B width H C row (Z.of_nat coln - f0) (Z.of_nat coln) pchar (zn T coln) s2) as [r|] eqn:Er;
      cbn [bind] in Hrun; [|discriminate].
    set (d := nth (coln - 1 - fprev) prow wdflt).
    destruct (Hdiag O ltac:(lia)) as [Hd1 Hd2]. rewrite Nat.add_0_r in Hd1, Hd2. fold d in Hd1, Hd2.
    pose proof (cell_r_wr T B width H C row (Z.of_nat coln - f0) coln pchar s2 d r Er Hd1 Hd2) as Hr.
    destruct (mset C (row + (Z.of_nat coln - f0)) (snd r)) as [C1|] eqn:EC; cbn [bind] in Hrun; [|discriminate].
    destruct (mset H (row + (Z.of_nat coln - f0)) (Z.max (Z.max (fst r) s2) 0)) as [H1|] eqn:EH; cbn [bind] in Hrun; [|discriminate].
    pose proof (mset_ok _ _ _ _ EC) as SC. pose proof (mset_ok _ _ _ _ EH) as SH.
    set (score := Z.max (Z.max (fst r) s2) 0) in *.
    set (better := lastrow && (if fwd then ms <? score else ms <=? score)) in *.
    replace (Z.of_nat coln + 1) with (Z.of_nat (S coln)) in Hrun by lia.
    replace (if better then Z.of_nat coln else Z.of_nat mpn) with (Z.of_nat (if better then coln else mpn)) in Hrun
      by (destruct better; reflexivity).
    (* the produced cell *)
    set (c := wstep pchar T B coln d hleft inGap).
    assert (Ec : c = mkW score (snd r) (fst r <? s2)).
    { unfold c. rewrite wstep_wr. cbv zeta. fold s2. rewrite <- Hr. reflexivity. }
    assert (Ecells : cells = c :: win_row_go pchar T B fprev prow n (S coln) (w_h c) (w_g c)) by reflexivity.
    assert (Hch : w_h c = score) by (rewrite Ec; reflexivity).
    assert (Hcc : w_c c = snd r) by (rewrite Ec; reflexivity).
    assert (Hcg : w_g c = (fst r <? s2)) by (rewrite Ec; reflexivity).
    rewrite <- Hcg in Hrun.
    specialize (IH H1 C1 (S coln) (w_g c) (if better then score else ms) (if better then coln else mpn) (w_h c)
                   H' C' ms' mp' Hrun ltac:(lia)).
    destruct IH as (I1 & I2 & I3 & I4).
    + rewrite SH. replace (row + (Z.of_nat (S coln) - f0) - 1) with (row + (Z.of_nat coln - f0)) by lia.
      rewrite Z.eqb_refl, Hch. reflexivity.
    + intros k Hk. destruct (Hdiag (S k) ltac:(lia)) as [A1 A2].
      replace (S coln + k)%nat with (coln + S k)%nat by lia.
      rewrite SH, SC.
      destruct (Z.eqb_spec (row + (Z.of_nat (coln + S k) - f0) - 1 - width) (row + (Z.of_nat coln - f0))) as [E|_]; [lia|].
      split; assumption.
    + split; [|split; [|split]].
      * intros k Hk. rewrite Ecells. destruct k as [|k].
        -- rewrite Nat.add_0_r. cbn [nth].
           destruct (I2 (row + (Z.of_nat coln - f0)) ltac:(lia)) as [A1 A2]. rewrite A1, A2, SH, SC, Z.eqb_refl.
           rewrite Hch, Hcc. auto.
        -- cbn [nth]. replace (coln + S k)%nat with (S coln + k)%nat by lia. apply I1. lia.
      * intros z Hz. destruct (I2 z ltac:(lia)) as [A1 A2]. rewrite A1, A2, SH, SC.
        destruct (Z.eqb_spec z (row + (Z.of_nat coln - f0))); [lia|auto].
      * rewrite I3, Ecells. cbn [win_best]. rewrite Hch.
        unfold better. destruct lastrow; cbn [andb]; reflexivity.
      * rewrite I4, Ecells. cbn [win_best]. rewrite Hch.
        unfold better. destruct lastrow; cbn [andb]; reflexivity.
Qed.

Lemma win_row_go_length : forall n col hleft inGap, length (win_row_go pchar T B fprev prow n col hleft inGap) = n.
Proof. induction n as [|n IH]; intros; cbn [win_row_go length]; [reflexivity|]. now rewrite IH. Qed.

End RowRef.

(* ---------- small list facts ---------- *)

Lemma nth_map_seq {A} (f : nat -> A) a n k d : (k < n)%nat -> nth k (map f (seq a n)) d = f (a + k)%nat.
Proof.
  intros Hk. rewrite (nth_indep _ d (f O)) by (rewrite map_length, seq_length; exact Hk).
  rewrite map_nth. now rewrite seq_nth.
Qed.

Lemma last_nth {A} (l : list A) d : last l d = nth (length l - 1) l d.
Proof.
  induction l as [|a l IH]; [reflexivity|]. destruct l as [|b l]; [reflexivity|].
  change (last (a :: b :: l) d) with (last (b :: l) d). rewrite IH. cbn [length].
  replace (S (S (length l)) - 1)%nat with (S (S (length l) - 1)) by lia. reflexivity.
Qed.

Lemma last_cons2 {A} (a b : A) l d : last (a :: b :: l) d = last (b :: l) d.
Proof. reflexivity. Qed.

(* ---------- all rows ---------- *)

Section RowsRef.
Variables (T B : list Z) (F : list nat) (pat : list Z) (M : nat) (width f0 lastIdx : Z) (lastN : nat).
Hypothesis Hctx : v2ctx T B F pat M width f0 lastIdx.
Hypothesis HlastN : lastIdx = Z.of_nat lastN.
Variable fwd : bool.

Notation cellz := (cellz width f0).

(* row i of the flat matrices holds the list row [r] (columns F[i] .. lastIdx) *)
Definition row_agree (H C : mat) (i : nat) (r : list wcell) : Prop :=
  forall j, (nn F i <= j <= lastN)%nat ->
    mc H (cellz i (Z.of_nat j)) = Some (w_h (nth (j - nn F i) r wdflt)) /\
    mc C (cellz i (Z.of_nat j)) = Some (w_c (nth (j - nn F i) r wdflt)).

Lemma p3_rows_refines : forall k pidx H C prow ms mpn H' C' ms' mp',
  (pidx + S k = M)%nat -> (1 <= pidx)%nat ->
  row_agree H C (pidx - 1) prow ->
  p3_rows fwd T B H C width f0 lastIdx M (skipn pidx F) (skipn pidx pat) pidx ms (Z.of_nat mpn) = Ok (H', C', ms', mp') ->
  let rows := win_rows T B lastN (nn F (pidx - 1)) prow (skipn pidx F) (skipn pidx pat) in
  ms' = fst (win_best fwd (last rows []) (nn F (M - 1)) ms mpn) /\
  mp' = Z.of_nat (snd (win_best fwd (last rows []) (nn F (M - 1)) ms mpn)).
Proof.
  pose proof (cx_lenF _ _ _ _ _ _ _ _ Hctx) as HlenF. pose proof (cx_lenP _ _ _ _ _ _ _ _ Hctx) as HlenP.
  pose proof (width_pos _ _ _ _ _ _ _ _ Hctx) as Hw.
  pose proof (cx_width _ _ _ _ _ _ _ _ Hctx) as HW.
  induction k as [|k IH]; intros pidx H C prow ms mpn H' C' ms' mp' Hk Hp Hprev Hrun rows.
  all: assert (HpM : (pidx < M)%nat) by lia.
  all: pose proof (F_gt_f0 _ _ _ _ _ _ _ _ Hctx pidx Hp HpM) as HF0.
  all: pose proof (F_le_last _ _ _ _ _ _ _ _ Hctx pidx HpM) as HFl.
  all: pose proof (F_ge_f0 _ _ _ _ _ _ _ _ Hctx (pidx - 1)%nat ltac:(lia)) as HFp0.
  all: pose proof (F_mono _ _ _ _ _ _ _ _ Hctx (pidx - 1)%nat pidx ltac:(lia) HpM) as HFm.
  all: subst rows; revert Hrun.
  all: rewrite (skipn_nth_cons F pidx O) by lia; rewrite (skipn_nth_cons pat pidx 0) by lia.
  all: fold (nn F pidx); fold (zn pat pidx); cbn [p3_rows win_rows]; intros Hrun.
  all: destruct (mset H (Z.of_nat pidx * width + Z.of_nat (nn F pidx) - f0 - 1) 0) as [H1|] eqn:E1; cbn [bind] in Hrun; [|discriminate].
  all: pose proof (mset_ok _ _ _ _ E1) as S1.
  all: match type of Hrun with (do r <- ?a; _) = _ => destruct a as [[[[H2 C2] ms2] mp2]|] eqn:E2 end; cbn [bind] in Hrun; [|discriminate].
  all: apply (p3_row_refines T B width f0 fwd _ _ _ (nn F (pidx - 1)) prow) with (hleft := 0) in E2;
    [ | lia
      | rewrite S1; replace (Z.of_nat pidx * width + (Z.of_nat (nn F pidx) - f0) - 1)
                       with (Z.of_nat pidx * width + Z.of_nat (nn F pidx) - f0 - 1) by lia;
        rewrite Z.eqb_refl; reflexivity
      | intros j Hj; rewrite S1;
        destruct (Z.eqb_spec (Z.of_nat pidx * width + (Z.of_nat (nn F pidx + j) - f0) - 1 - width)
                             (Z.of_nat pidx * width + Z.of_nat (nn F pidx) - f0 - 1)) as [E|_]; [lia|];
        destruct (Hprev (nn F pidx + j - 1)%nat ltac:(lia)) as [A1 A2];
        replace (Z.of_nat pidx * width + (Z.of_nat (nn F pidx + j) - f0) - 1 - width)
           with (cellz (pidx - 1) (Z.of_nat (nn F pidx + j - 1)))
           by (rewrite (cellz_pred width f0) by exact Hp; unfold V2MatrixFill.cellz; lia);
        split; assumption ].
  all: replace (Z.to_nat (lastIdx + 1 - Z.of_nat (nn F pidx))) with (lastN + 1 - nn F pidx)%nat in E2 by lia.
  all: fold (win_row (zn pat pidx) T B (nn F (pidx - 1)) prow (nn F pidx) lastN) in E2.
  all: set (r := win_row (zn pat pidx) T B (nn F (pidx - 1)) prow (nn F pidx) lastN) in *.
  all: destruct E2 as (R1 & R2 & R3 & R4).
  - (* last row *)
    assert (Elast : Nat.eqb pidx (M - 1) = true) by (apply Nat.eqb_eq; lia).
    rewrite Elast in R3, R4.
    rewrite (skipn_all' F (S pidx)) in * by lia. cbn [p3_rows win_rows] in *.
    inversion Hrun as [[EH' EC' Ems Emp]]. rewrite <- Ems, <- Emp. cbn [last].
    replace (M - 1)%nat with pidx by lia. auto.
  - assert (Elast : Nat.eqb pidx (M - 1) = false) by (apply Nat.eqb_neq; lia).
    rewrite Elast in R3, R4. subst ms2 mp2.
    assert (Hagree : row_agree H2 C2 (S pidx - 1) r).
    { replace (S pidx - 1)%nat with pidx by lia. intros j Hj.
      destruct (R1 (j - nn F pidx)%nat ltac:(lia)) as [A1 A2].
      replace (nn F pidx + (j - nn F pidx))%nat with j in A1, A2 by lia.
      unfold V2MatrixFill.cellz. split; assumption. }
    specialize (IH (S pidx) H2 C2 r ms mpn H' C' ms' mp' ltac:(lia) ltac:(lia) Hagree Hrun).
    replace (S pidx - 1)%nat with pidx in IH by lia.
    cbv zeta in IH.
    assert (Hne : exists a l, win_rows T B lastN (nn F pidx) r (skipn (S pidx) F) (skipn (S pidx) pat) = a :: l).
    { rewrite (skipn_nth_cons F (S pidx) O) by lia. rewrite (skipn_nth_cons pat (S pidx) 0) by lia.
      cbn [win_rows]. eauto. }
    destruct Hne as (a & l & Ea). rewrite Ea in *. rewrite last_cons2. exact IH.
Qed.

End RowsRef.

(* ---------- the theorem ---------- *)

From Fzf Require Import V2MatrixTrace V2MatrixProofs.

Lemma win_matrix_cons T B H0 C0 F pat lastN : (1 <= length F)%nat ->
  win_matrix T B H0 C0 F pat lastN =
  win_row0 H0 C0 (nn F O) lastN :: win_rows T B lastN (nn F O) (win_row0 H0 C0 (nn F O) lastN) (skipn 1 F) (skipn 1 pat).
Proof. destruct F as [|f Fs]; cbn [length]; [lia|]. reflexivity. Qed.

Theorem phase3_refines_proof : forall co sc cs nm fwd w pat st,
  0 <= s_bw sc -> 0 <= s_bd sc ->
  p2_ok co sc cs nm w pat st -> (2 <= length pat)%nat ->
  p2_maxScore st = 0 -> p2_maxPos st = O ->
  phase3_refines fwd pat st.
Proof.
  intros co sc cs nm fwd w pat st Hbw Hbd Hok HM Hms0 Hmp0.
  unfold phase3_refines. intros f0n H C H' C' ms mp Ef0. cbv zeta. intros Hwpos EH EC E3.
  pose proof (after_ctx co sc cs nm w pat st Hbw Hbd Hok HM) as Hctx.
  pose proof (ok_last_ge _ _ _ _ _ _ _ Hok) as HL.
  pose proof (ok_lenF _ _ _ _ _ _ _ Hok) as HlenF.
  destruct (get_ok_nth _ _ _ O Ef0) as [Ef _]. fold (nn (p2F st) O) in Ef. subst f0n.
  set (F := p2F st) in *. set (T := p2T st) in *. set (B := p2B st) in *.
  set (lastN := p2_lastIdx st) in *. set (M := length pat) in *.
  set (f0 := Z.of_nat (nn F O)) in *. set (lastIdx := Z.of_nat lastN) in *.
  set (width := lastIdx - f0 + 1) in *.
  pose proof (F_le_last _ _ _ _ _ _ _ _ Hctx O ltac:(lia)) as HF0l.
  (* row 0 *)
  assert (Hcells : Z.of_nat (Z.to_nat (width * Z.of_nat M)) = width * Z.of_nat M).
  { apply Z2Nat.id. apply Z.mul_nonneg_nonneg; lia. }
  assert (HwM : width <= width * Z.of_nat M).
  { replace width with (width * 1) at 1 by lia. apply Z.mul_le_mono_nonneg_l; lia. }
  assert (Hseg : forall l : list Z, length l = length w -> length (firstn (Z.to_nat width) (skipn (nn F O) l)) = Z.to_nat width).
  { intros l Hl. rewrite firstn_length, skipn_length, Hl. unfold width, f0, lastIdx in *. lia. }
  assert (Hsegn : forall (l : list Z) z, 0 <= z < width ->
            zn (firstn (Z.to_nat width) (skipn (nn F O) l)) (Z.to_nat z) = zn l (nn F O + Z.to_nat z)).
  { intros l z Hz. unfold zn. rewrite nth_firstn' by lia. apply nth_skipn'. }
  destruct (put_row_spec (firstn (Z.to_nat width) (skipn (nn F O) (p2H0 st))) (repeat None (Z.to_nat (width * Z.of_nat M))) 0)
    as (Hx & EHx & _ & CH); [lia|rewrite Hseg, repeat_length by apply (ok_lenH0 _ _ _ _ _ _ _ Hok); lia|].
  rewrite EH in EHx. inversion EHx; subst Hx. clear EHx.
  destruct (put_row_spec (firstn (Z.to_nat width) (skipn (nn F O) (p2C0 st))) (repeat None (Z.to_nat (width * Z.of_nat M))) 0)
    as (Cx & ECx & _ & CC); [lia|rewrite Hseg, repeat_length by apply (ok_lenC0 _ _ _ _ _ _ _ Hok); lia|].
  rewrite EC in ECx. inversion ECx; subst Cx. clear ECx.
  rewrite Hseg in CH by apply (ok_lenH0 _ _ _ _ _ _ _ Hok).
  rewrite Hseg in CC by apply (ok_lenC0 _ _ _ _ _ _ _ Hok).
  set (r0 := win_row0 (p2H0 st) (p2C0 st) (nn F O) lastN).
  assert (Hrow0 : row_agree F width f0 lastN H C (1 - 1) r0).
  { intros j Hj. cbn [Nat.sub] in *.
    assert (Ecell : cellz width f0 O (Z.of_nat j) = Z.of_nat j - f0) by (unfold cellz; lia).
    rewrite Ecell, CH, CC.
    destruct (Z.leb_spec 0 (Z.of_nat j - f0)) as [_|A]; [|unfold f0 in A; lia].
    destruct (Z.ltb_spec (Z.of_nat j - f0) (0 + Z.of_nat (Z.to_nat width))) as [_|A]; [|unfold width, lastIdx, f0 in A; lia].
    cbn [andb]. replace (Z.of_nat j - f0 - 0) with (Z.of_nat j - f0) by lia.
    rewrite !Hsegn by (unfold width, lastIdx, f0; lia).
    replace (nn F O + Z.to_nat (Z.of_nat j - f0))%nat with j by (unfold f0; lia).
    unfold r0, win_row0. rewrite nth_map_seq by lia.
    replace (nn F O + (j - nn F O))%nat with j by lia. cbn [w_h w_c]. auto. }
  change (tl F) with (skipn 1 F) in E3. change (tl pat) with (skipn 1 pat) in E3.
  rewrite Hms0, Hmp0 in E3.
  destruct (p3_rows_refines T B F pat M width f0 lastIdx lastN Hctx eq_refl fwd (M - 2) 1%nat H C r0 0 O H' C' ms mp
              ltac:(lia) ltac:(lia) Hrow0 E3) as [Rms Rmp].
  cbn [Nat.sub] in Rms, Rmp.
  split; [lia|].
  unfold win_result. fold T B F lastN.
  rewrite win_matrix_cons by lia. fold r0.
  assert (Hne : exists a l, win_rows T B lastN (nn F O) r0 (skipn 1 F) (skipn 1 pat) = a :: l).
  { rewrite (skipn_nth_cons F 1 O) by lia. rewrite (skipn_nth_cons pat 1 0) by (fold M; lia).
    cbn [win_rows]. eauto. }
  destruct Hne as (a & l & Ea). rewrite Ea in *. rewrite last_cons2.
  rewrite (last_nth F O), HlenF. fold (nn F (M - 1)).
  rewrite Rms, Rmp, Nat2Z.id. apply surjective_pairing.
Qed.

Print Assumptions phase3_refines_proof.

(* ---------- non-vacuity: "axbbc" / "abc" (ex_st of V2MatrixProofs.v satisfies p2_ok) ---------- *)

Example phase3_refines_ex : phase3_refines true ex_pat ex_st.
Proof.
  apply (phase3_refines_proof ex_co scheme_default true false true ex_w ex_pat ex_st); try (vm_compute; first [reflexivity|lia|discriminate]).
  exact ex_p2_ok.
Qed.

(* the flat fill returns (68, 4) (ex_fill_max), and so does the list version *)
Example phase3_refines_ex_value :
  win_result true (p2T ex_st) (p2B ex_st) (p2H0 ex_st) (p2C0 ex_st) (p2F ex_st) ex_pat (p2_lastIdx ex_st) = (68, 4%nat) /\
  (exists H C, v2_fill true ex_pat ex_st = Ok (H, C, 68, 4)).
Proof. split; [vm_compute; reflexivity|exact ex_fill_max]. Qed.
