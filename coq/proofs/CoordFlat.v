(* Flat (one constructor per branch) forms of the coordinator handlers, proved equal to the code-shaped
   definitions of CoordModel by exhaustive case analysis; the invariant proofs work on these. *)
From Fzf Require Import Prelude CoordSpec CoordModel.
Open Scope Z_scope.

Definition is_some {A} (o : option A) : bool := match o with Some _ => true | None => false end.

Definition coord_read_flat (s : st) : st :=
  if negb (e_new s || e_fin s) then s else
  match e_fin s, c_next s with
  | true, Some c =>
      mkSt (t_input s) (t_paused s) (t_sort s) (t_nth s) (t_merger s) (t_count s)
           false false (e_search s) (e_sfin s)
           true false []
           true None (c_query s) (c_sort s) (c_nth s) (if c_usesnap s then c_deny s else [])
           (bump_major (c_irev s)) (c_srev s) (c_usesnap s) (c_snap s) (c_count s)
           (m_pending s) (m_running s)
           [] (g_last s) (g_id s) (negb (c_usesnap s)) (g_cmd s) (Some c)
  | fin, _ =>
      let clear := c_usesnap s && fin in
      let us := c_usesnap s && negb fin in
      let q1 := if us then c_query s else if compat (c_srev s) (c_irev s) then c_query s else [] in
      let q := if t_paused s then q1 else t_input s in
      let snap := if us then c_snap s else cl s in
      let cnt := if us then c_count s else length (cl s) in
      let srev := if us then c_srev s else c_irev s in
      let deny := if clear then [] else c_deny s in
      let rd := c_reading s && negb fin in
      let r := mkMreq (g_id s) snap q (negb rd) (c_sort s) srev (c_nth s) deny in
      mkSt (t_input s) (t_paused s) (t_sort s) (t_nth s) (t_merger s) cnt
           false false (e_search s) (e_sfin s)
           (rd_alive s) (rd_dirty s) (cl s)
           rd (c_next s) q (c_sort s) (c_nth s) deny (c_irev s) srev us snap cnt
           (Some r) (m_running s)
           (g_deny s) (Some r) (S (g_id s)) (if clear then true else g_dclean s) (g_cmd s) (g_started s)
  end.

Ltac norm := cbv -[compat rev_eqb Nat.eqb length app bump_major bump_minor].
Ltac stuck := repeat match goal with
  | |- context[compat ?a ?b] => destruct (compat a b)
  | |- context[rev_eqb ?a ?b] => destruct (rev_eqb a b)
  end.

Lemma coord_read_flat_eq s : coord_read s = coord_read_flat s.
Proof.
  destruct s. destruct e_new, e_fin, c_next, c_usesnap, c_reading, t_paused; norm; reflexivity.
Qed.

Definition coord_search_flat (s : st) : st :=
  match e_search s with
  | None => s
  | Some v =>
      let bump1 := nonemptyb (q_deny v) && compat (q_rev v) (c_irev s) in
      let deny1 := if bump1 then c_deny s ++ q_deny v else c_deny s in
      let nth1 := match q_nth v with Some n => n | None => c_nth s end in
      let irev1 := if bump1 || is_some (q_nth v) then bump_minor (c_irev s) else c_irev s in
      let us1 := if is_some (q_cmd v) then q_sync v else c_usesnap s in
      let restarted := is_some (q_cmd v) && negb (c_reading s) in
      let next1 := match q_cmd v with Some c => if c_reading s then Some c else c_next s | None => c_next s end in
      let deny2 := if restarted then (if us1 then deny1 else []) else deny1 in
      let dclean2 := if restarted then negb us1 else g_dclean s in
      let irev2 := if restarted then bump_major irev1 else irev1 in
      let cl2 := if restarted then [] else cl s in
      let reading2 := if restarted then true else c_reading s in
      let ch := q_changed v in
      let take := ch && negb us1 && (negb (is_some (q_cmd v)) || negb (Nat.eqb (length cl2) 0)) in
      let q1 := if take then (if rev_eqb (c_srev s) irev2 then c_query s else []) else c_query s in
      let q := if ch then (if t_paused s then q1 else t_input s) else c_query s in
      let snap := if take then cl2 else c_snap s in
      let srev := if take then irev2 else c_srev s in
      let r := mkMreq (g_id s) snap q (negb reading2) (q_sort v) srev nth1 deny2 in
      mkSt (t_input s) (t_paused s) (t_sort s) (t_nth s) (t_merger s) (t_count s)
           (e_new s) (e_fin s) None (e_sfin s)
           (if restarted then true else rd_alive s) (if restarted then false else rd_dirty s) cl2
           reading2 next1 q (q_sort v) nth1 deny2 irev2 srev us1 snap (c_count s)
           (if ch then Some r else m_pending s) (m_running s)
           (if restarted then [] else g_deny s) (if ch then Some r else g_last s) (if ch then S (g_id s) else g_id s)
           dclean2 (g_cmd s) (if restarted then q_cmd v else g_started s)
  end.

Lemma coord_search_flat_eq s : coord_search s = coord_search_flat s.
Proof.
  destruct s. destruct e_search as [v|]; [|reflexivity]. destruct v.
  destruct q_deny, q_nth, q_cmd, c_reading, q_changed, q_sync, c_usesnap, t_paused, cl; norm; reflexivity.
Qed.

(* the merger on display is replaced by one step only: the coordinator handling EvtSearchFin *)
Lemma t_merger_step s l : l <> LCoordFin -> t_merger (step s l) = t_merger s.
Proof.
  intro Hl. destruct l; unfold step, step_r; try congruence.
  - destruct (rd_alive s); reflexivity.
  - destruct (rd_alive s && rd_dirty s); reflexivity.
  - destruct (rd_alive s); reflexivity.
  - unfold ui_step. 
    match goal with |- context[fold_left ?f ?l ?a] => generalize (fold_left f l a) end. intro a.
    destruct (a_cmd a) as [[c y]|]; destruct (a_changed a || negb (str_eqb (t_input s) (a_input a))); reflexivity.
  - rewrite coord_read_flat_eq. unfold coord_read_flat.
    destruct (e_new s), (e_fin s), (c_next s); reflexivity.
  - rewrite coord_search_flat_eq. unfold coord_search_flat. destruct (e_search s); reflexivity.
  - destruct (m_running s), (m_pending s); reflexivity.
  - destruct (m_running s); reflexivity.
  - destruct (m_running s), (m_pending s); reflexivity.
Qed.
