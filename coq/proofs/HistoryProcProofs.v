(* C18 proofs, process level: option layers -> effective history configuration; endings -> recording;
   sequences of program runs keep, in every file, what the spec says. *)
From Fzf Require Import Prelude HistorySpec HistoryModel HistoryProofs HistoryProcSpec HistoryProcModel.
Open Scope Z_scope.

(* ---------- option words ---------- *)

Definition word_ok (w : hopt) : Prop := match w with HSize n => (1 <= n)%nat | _ => True end.
Definition words_ok (ws : list hopt) : Prop := Forall word_ok ws.

Lemma eff_file_app cur a b : eff_file cur (a ++ b) = eff_file (eff_file cur a) b.
Proof. revert cur; induction a as [|w a IH]; intros cur; [reflexivity|]. destruct w; cbn; apply IH. Qed.

Lemma eff_size_app cur a b : eff_size cur (a ++ b) = eff_size (eff_size cur a) b.
Proof. revert cur; induction a as [|w a IH]; intros cur; [reflexivity|]. destruct w; cbn; apply IH. Qed.

Lemma eff_size_nosize cur ws : has_size ws = false -> eff_size cur ws = cur.
Proof. revert cur; induction ws as [|w ws IH]; intros cur H; [reflexivity|]. destruct w; cbn in *; try discriminate; now apply IH. Qed.

Lemma eff_file_nofile ws : has_file ws = false -> eff_file None ws = None.
Proof. induction ws as [|w ws IH]; intros H; [reflexivity|]. destruct w; cbn in *; try discriminate; now apply IH. Qed.

Lemma has_size_app a b : has_size (a ++ b) = has_size a || has_size b.
Proof. induction a as [|w a IH]; [reflexivity|]. destruct w; cbn; auto. Qed.

Lemma eff_size_ge1 cur ws : (1 <= cur)%nat -> words_ok ws -> (1 <= eff_size cur ws)%nat.
Proof.
  revert cur; induction ws as [|w ws IH]; intros cur Hc Hw; [exact Hc|].
  inversion Hw as [|? ? Hw1 Hw2]; subst. destruct w; cbn; auto.
Qed.

(* one vector, from any state in which the local historyMax agrees with the History object (if there is one) *)
Lemma parse_words_spec ws : words_ok ws -> forall H hmax,
  (forall p m, H = Some (p, m) -> m = hmax) ->
  parse_words H hmax ws =
    Ok (match eff_file (option_map fst H) ws with
        | Some p => Some (p, eff_size hmax ws)
        | None => None
        end).
Proof.
  induction ws as [|w ws IH]; intros Hw H hmax Hinv.
  - cbn. destruct H as [[p m]|]; cbn; [|reflexivity]. now rewrite (Hinv p m eq_refl).
  - inversion Hw as [|? ? Hw1 Hw2]; subst. destruct w as [p| |n|]; cbn [parse_words eff_file eff_size].
    + rewrite IH; [reflexivity|assumption|]. intros p' m' E. now inversion E.
    + rewrite IH; [reflexivity|assumption|]. intros p' m' E. discriminate.
    + cbn in Hw1. destruct (Nat.ltb_spec n 1) as [Hlt|_]; [lia|].
      rewrite IH; [|assumption|].
      * destruct H as [[p m]|]; reflexivity.
      * intros p' m' E. destruct H as [[p m]|]; inversion E; reflexivity.
    + apply IH; assumption.
Qed.

(* one list of options, from scratch: the model computes what the option list asks for *)
Theorem one_list_proof ws : words_ok ws -> parse_layers None [ws] = Ok (eff_config ws).
Proof.
  intros Hw. cbn [parse_layers]. unfold parse_layer. rewrite parse_words_spec; [|assumption|discriminate].
  reflexivity.
Qed.

(* a further layer on top of a prefix W that was computed correctly *)
Lemma parse_layer_step W l : words_ok l -> (has_size W = true -> has_file l = false) ->
  parse_layer (eff_config W) l = Ok (eff_config (W ++ l)).
Proof.
  intros Hl Hcond. unfold parse_layer, eff_config. rewrite eff_file_app, eff_size_app.
  destruct (eff_file None W) as [p|] eqn:EW.
  - rewrite parse_words_spec; [reflexivity|assumption|]. intros p' m' E. now inversion E.
  - rewrite parse_words_spec; [|assumption|discriminate]. cbn [option_map].
    destruct (has_size W) eqn:ES.
    + rewrite (eff_file_nofile l (Hcond eq_refl)). reflexivity.
    + rewrite (eff_size_nosize _ W ES). reflexivity.
Qed.

Lemma layers_from W ls : Forall words_ok ls -> layered_ok (has_size W) ls = true ->
  parse_layers (eff_config W) ls = Ok (eff_config (W ++ concat ls)).
Proof.
  revert W; induction ls as [|l ls IH]; intros W Hw Hok.
  - cbn. now rewrite app_nil_r.
  - inversion Hw as [|? ? Hw1 Hw2]; subst. cbn [layered_ok] in Hok. apply andb_true_iff in Hok as [H1 H2].
    cbn [parse_layers concat]. rewrite parse_layer_step; [|assumption|].
    + cbn [bind]. rewrite app_assoc. apply IH; [assumption|]. now rewrite has_size_app.
    + intros ES. rewrite ES in H1. cbn in H1. now apply negb_true_iff in H1.
Qed.

(* the layers of one invocation: unless a size stands in an earlier layer than a file, they mean their concatenation *)
Theorem layers_proof ls : Forall words_ok ls -> layered_ok false ls = true ->
  parse_layers None ls = Ok (eff_config (concat ls)).
Proof. intros Hw Hok. exact (layers_from [] ls Hw Hok). Qed.

(* the finding: a size in an earlier layer than the file is forgotten *)
Theorem layers_refuted_proof :
  exists p, parse_layers None [[HSize 5]; [HFile p]] = Ok (Some (p, 1000%nat)) /\
            parse_layers None [[HSize 5; HFile p]] = Ok (Some (p, 5%nat)) /\
            eff_config (concat [[HSize 5]; [HFile p]]) = Some (p, 5%nat).
Proof. exists [104]. repeat split. Qed.

(* ---------- endings ---------- *)

Theorem endings_record_proof e : records e = submits e.
Proof. destruct e as [[|]| | |]; reflexivity. Qed.

(* ---------- files ---------- *)

Lemma touch_entries F p q : fs_entries (touch F p q) = fs_entries (F q).
Proof.
  unfold touch. destruct (F p) eqn:E; [reflexivity|]. unfold fs_upd.
  destruct (str_eqb q p) eqn:Eq; [|reflexivity]. apply str_eqb_eq in Eq. subst q. now rewrite E.
Qed.

Lemma touch_words_entries ws : forall F q, fs_entries (touch_words F ws q) = fs_entries (F q).
Proof.
  induction ws as [|w ws IH]; intros F q; [reflexivity|]. destruct w; cbn [touch_words]; rewrite ?IH; try reflexivity.
  apply touch_entries.
Qed.

(* ---------- one run of the program ---------- *)

Definition psession_wf (s : psession) : Prop :=
  Forall op_nl_free (p_ops s) /\ Forall words_ok (p_layers s) /\ layered_ok false (p_layers s) = true.

Lemma words_ok_concat ls : Forall words_ok ls -> words_ok (concat ls).
Proof. induction 1; cbn; [constructor|]. apply Forall_app. split; assumption. Qed.

Lemma psession_lemma F s : psession_wf s ->
  exists F' seen inp, run_psession F s = Ok (F', eff_config (concat (p_layers s)), seen, inp) /\
    forall q, fs_entries (F' q) = proc_step (eff_config (concat (p_layers s))) (p_end s) inp q (fs_entries (F q)).
Proof.
  intros [Hops [Hw Hok]]. unfold run_psession. rewrite (layers_proof _ Hw Hok). cbn [bind].
  set (F1 := touch_words F (concat (p_layers s))).
  assert (HF1 : forall q, fs_entries (F1 q) = fs_entries (F q)) by (intros q; apply touch_words_entries).
  destruct (eff_config (concat (p_layers s))) as [[p n]|] eqn:Ecfg.
  - assert (Hn : (1 <= n)%nat).
    { unfold eff_config in Ecfg. destruct (eff_file None (concat (p_layers s))); inversion Ecfg; subst.
      apply eff_size_ge1; [unfold DEFAULT_HISTORY_SIZE; lia|apply words_ok_concat; assumption]. }
    destruct (session_lemma n (F1 p) (mkSession (p_ops s) (records (p_end s))) Hops) as [f' [seen [inp [Hr [Hinp Hf']]]]].
    rewrite Hr. cbn [bind fst snd]. do 3 eexists. split; [reflexivity|].
    intros q. unfold proc_step, fs_upd. cbn [ss_submit] in Hf'. rewrite endings_record_proof in Hf'.
    destruct (str_eqb q p) eqn:Eq; cbn [andb]; [|apply HF1].
    apply str_eqb_eq in Eq. subst q.
    destruct (submits (p_end s) && nonemptyb inp) eqn:Esub.
    + subst f'. rewrite fs_entries_some. rewrite HF1.
      destruct inp as [|c inp]; [rewrite andb_false_r in Esub; discriminate|].
      rewrite last_n_app_one by assumption.
      rewrite entries_render; [reflexivity|apply last_n_free, entries_free|assumption|discriminate].
    + subst f'. rewrite <- HF1. reflexivity.
  - do 3 eexists. split; [reflexivity|]. intros q. cbn [proc_step]. apply HF1.
Qed.

(* ---------- any number of runs ---------- *)

Definition log_step (q : str) (E : list str) (x : hcfg * ending * str) : list str :=
  proc_step (fst (fst x)) (snd (fst x)) (snd x) q E.

Theorem proc_sessions_proof ss : Forall psession_wf ss -> forall F,
  exists F' log, run_psessions_log F ss = Ok (F', log) /\
    map (fun x => (fst (fst x), snd (fst x))) log = map (fun s => (eff_config (concat (p_layers s)), p_end s)) ss /\
    forall q, fs_entries (F' q) = fold_left (log_step q) log (fs_entries (F q)).
Proof.
  induction ss as [|s ss IH]; intros Hwf F; cbn [run_psessions_log].
  - do 2 eexists. split; [reflexivity|]. split; reflexivity.
  - inversion Hwf as [|? ? H1 H2]; subst.
    destruct (psession_lemma F s H1) as [F1 [seen [inp [Hr Hent]]]]. rewrite Hr. cbn [bind fst snd].
    destruct (IH H2 F1) as [F' [log [Hrs [Hmap Hfold]]]]. rewrite Hrs. cbn [bind fst snd].
    do 2 eexists. split; [reflexivity|]. split.
    + cbn [map fst snd]. now rewrite Hmap.
    + intros q. cbn [fold_left]. rewrite Hfold. unfold log_step at 2. cbn [fst snd]. now rewrite Hent.
Qed.

(* closed form when every run uses the same file and limit: the existing spec of C18 *)
Lemma proc_fold_same p n log : (1 <= n)%nat ->
  Forall (fun x : hcfg * ending * str => fst (fst x) = Some (p, n)) log ->
  forall E, fold_left (log_step p) log E =
            fold_left (step n) (submitted (map (fun x => snd x) (filter (fun x => submits (snd (fst x))) log))) E.
Proof.
  intros Hn. induction log as [|x log IH]; intros Hall E; [reflexivity|].
  inversion Hall as [|? ? Hx Hl]; subst. cbn [fold_left filter]. rewrite IH by assumption.
  destruct x as [[cfg e] q]. cbn [fst snd] in *. subst cfg. unfold log_step at 1. cbn [fst snd proc_step].
  assert (Ep : str_eqb p p = true) by now apply str_eqb_eq. rewrite Ep. cbn [andb].
  destruct (submits e); cbn [andb map snd].
  - unfold submitted. cbn [filter]. destruct (nonemptyb q); cbn [fold_left]; reflexivity.
  - reflexivity.
Qed.

Theorem proc_sessions_same_proof ss p n : (1 <= n)%nat -> Forall psession_wf ss ->
  Forall (fun s => eff_config (concat (p_layers s)) = Some (p, n)) ss -> forall F,
  exists F' log, run_psessions_log F ss = Ok (F', log) /\
    let qs := map (fun x => snd x) (filter (fun x : hcfg * ending * str => submits (snd (fst x))) log) in
    fs_entries (F' p) = match submitted qs with
                        | [] => fs_entries (F p)
                        | _ => stored_after n (fs_entries (F p)) qs
                        end.
Proof.
  intros Hn Hwf Hsame F. destruct (proc_sessions_proof ss Hwf F) as [F' [log [Hr [Hmap Hfold]]]].
  exists F', log. split; [exact Hr|]. cbn zeta. rewrite Hfold.
  assert (Hall : Forall (fun x : hcfg * ending * str => fst (fst x) = Some (p, n)) log).
  { clear Hr Hfold. revert ss Hwf Hsame Hmap. induction log as [|x log IHl]; intros ss Hwf Hsame Hmap; [constructor|].
    destruct ss as [|s ss]; [discriminate|]. cbn [map] in Hmap. inversion Hmap as [[Hx1 Hx2 Hrest]].
    inversion Hsame as [|? ? Hs1 Hs2]; subst. inversion Hwf; subst.
    constructor; [congruence|]. eapply IHl; eassumption. }
  rewrite (proc_fold_same p n log Hn Hall).
  set (qs := map (fun x => snd x) (filter (fun x : hcfg * ending * str => submits (snd (fst x))) log)).
  destruct (submitted qs) eqn:E; [reflexivity|]. rewrite <- E.
  unfold stored_after. apply fold_step_closed; [assumption|apply submitted_nonempty|rewrite E; discriminate].
Qed.
