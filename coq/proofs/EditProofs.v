(* C09 proofs: the editor/cursor/selection model (EditModel) against the spec (EditSpec).
   All statements are for ALL configurations, states and action histories. *)
From Fzf Require Import Prelude EditSpec EditModel.
Open Scope Z_scope.

Ltac inv_ok :=
  repeat match goal with
  | H : Ok _ = Ok _ |- _ => inversion H; clear H; subst
  | H : Err _ = Ok _ |- _ => discriminate H
  | H : bind ?r _ = Ok _ |- _ => let E := fresh "E" in destruct r eqn:E; cbn [bind] in H; [|discriminate H]
  | H : (if ?b then _ else _) = Ok _ |- _ => let E := fresh "E" in destruct b eqn:E
  | H : (let '(_, _) := ?x in _) = Ok _ |- _ => let E := fresh "E" in destruct x eqn:E
  | H : match ?x with _ => _ end = Ok _ |- _ => let E := fresh "E" in destruct x eqn:E
  end.

  Lemma take_ok {A} (l : list A) n r : take l n = Ok r -> r = firstn n l /\ (n <= length l)%nat.
  Proof. unfold take. destruct (Nat.leb n (length l)) eqn:E; [|discriminate]. intro H; inversion H. split; [reflexivity|now apply Nat.leb_le]. Qed.
  Lemma drop_ok {A} (l : list A) n r : drop l n = Ok r -> r = skipn n l /\ (n <= length l)%nat.
  Proof. unfold drop. destruct (Nat.leb n (length l)) eqn:E; [|discriminate]. intro H; inversion H. split; [reflexivity|now apply Nat.leb_le]. Qed.
  Lemma slice_ok {A} (l : list A) a b r : slice l a b = Ok r -> r = skipn a (firstn b l) /\ (a <= b <= length l)%nat.
  Proof.
    unfold slice. destruct (Nat.leb a b) eqn:E; [|discriminate]. apply Nat.leb_le in E.
    destruct (take l b) eqn:T; cbn [bind]; [|discriminate]. apply take_ok in T as [-> Hb].
    intro D. apply drop_ok in D as [-> _]. split; [reflexivity|lia].
  Qed.


Ltac unpack := repeat match goal with
  | H : take _ _ = Ok _ |- _ => apply take_ok in H as [-> ?]
  | H : drop _ _ = Ok _ |- _ => apply drop_ok in H as [-> ?]
  | H : slice _ _ _ = Ok _ |- _ => apply slice_ok in H as [-> ?]
  end.
Ltac fin := cbn; repeat (match goal with |- context[match ?x with _ => _ end] => destruct x end; cbn); auto.

Section Proofs.
  Variable is_alnum : Z -> bool.
  Variable c : cfg.

  Notation do_action := (do_action is_alnum c).
  Notation do_edit := (do_edit is_alnum c).
  Notation do_list := (do_list c).
  Notation run := (run is_alnum c).

  (* ---------------------------------------------------------------- frames *)
  Lemma do_edit_frame s a s' : do_edit s a = Ok s' ->
    s_res s' = s_res s /\ s_cy s' = s_cy s /\ s_offset s' = s_offset s /\ s_sel s' = s_sel s.
  Proof.
    intro H. destruct a; cbn in H; unfold insert_at, rubout, current_item in H; inv_ok; fin.
  Qed.

  Lemma constrain_frame s s' : constrain c s = Ok s' ->
    s_input s' = s_input s /\ s_cx s' = s_cx s /\ s_yanked s' = s_yanked s /\ s_res s' = s_res s /\ s_sel s' = s_sel s.
  Proof. unfold constrain. intro H. inv_ok. cbn. auto. Qed.

  Lemma do_list_frame s a s' : do_list s a = Ok s' ->
    s_input s' = s_input s /\ s_cx s' = s_cx s /\ s_yanked s' = s_yanked s.
  Proof.
    intro H. destruct a; cbn in H; unfold toggle_and_move, toggle_current, update_list, current_item in H;
      try (inv_ok; fin; fail);
      try (apply constrain_frame in H; cbn in H; intuition congruence).
  Qed.

  (* ---------------------------------------------------------------- selection: limit *)
  Definition sel_le (sel : list item) : Prop := Z.of_nat (length sel) <= c_multi c.

  Lemma filter_length_le {A} (f : A -> bool) l : (length (filter f l) <= length l)%nat.
  Proof. induction l as [|x l IH]; cbn; [lia|]. destruct (f x); cbn; lia. Qed.

  Lemma select_item_le it sel : sel_le sel -> sel_le (snd (select_item c it sel)).
  Proof.
    unfold sel_le, select_item. intro H. destruct (c_multi c <=? Z.of_nat (length sel)) eqn:E; cbn; [exact H|].
    destruct (sel_mem (idx it) sel); cbn; [exact H|]. rewrite app_length. cbn. apply Z.leb_gt in E. lia.
  Qed.
  Lemma deselect_item_le it sel : sel_le sel -> sel_le (deselect_item it sel).
  Proof. unfold sel_le, deselect_item. intro H. pose proof (filter_length_le (fun x => negb (idx x =? idx it)) sel). lia. Qed.
  Lemma toggle_item_le it sel : sel_le sel -> sel_le (snd (toggle_item c it sel)).
  Proof. unfold toggle_item. intro H. destruct (negb (sel_mem (idx it) sel)); cbn; [now apply select_item_le|now apply deselect_item_le]. Qed.

  Lemma select_all_loop_le rs : forall sel, sel_le sel -> sel_le (select_all_loop c rs sel).
  Proof.
    induction rs as [|it r IH]; intros sel H; cbn; [exact H|].
    pose proof (select_item_le it sel H) as H1. destruct (select_item c it sel) as [ok sel']. cbn in H1.
    destruct ok; [now apply IH|exact H1].
  Qed.
  Lemma deselect_all_loop_le rs : forall sel, sel_le sel -> sel_le (deselect_all_loop rs sel).
  Proof.
    induction rs as [|it r IH]; intros sel H; cbn; [exact H|]. destruct sel as [|x sel]; [exact H|].
    apply IH. now apply deselect_item_le.
  Qed.
  Lemma toggle_all_first_le rs : forall i sel, sel_le sel -> sel_le (snd (toggle_all_first rs i sel)).
  Proof.
    induction rs as [|it r IH]; intros i sel H; cbn; [exact H|]. destruct sel as [|x sel]; [exact H|].
    destruct (sel_mem (idx it) (x :: sel)).
    - specialize (IH (S i) (deselect_item it (x :: sel)) (deselect_item_le it _ H)).
      destruct (toggle_all_first r (S i) (deselect_item it (x :: sel))) as [ps sel']. exact IH.
    - now apply IH.
  Qed.
  Lemma toggle_all_second_le rs prev : forall i sel, sel_le sel -> sel_le (toggle_all_second c rs i prev sel).
  Proof.
    induction rs as [|it r IH]; intros i sel H; cbn; [exact H|].
    destruct (existsb (Nat.eqb i) prev); [now apply IH|].
    pose proof (select_item_le it sel H) as H1. destruct (select_item c it sel) as [ok sel']. cbn in H1.
    destruct ok; [now apply IH|exact H1].
  Qed.

  Lemma toggle_current_inv s b s1 : toggle_current c s = Ok (b, s1) ->
    s_res s1 = s_res s /\ s_cy s1 = s_cy s /\ s_offset s1 = s_offset s /\ s_input s1 = s_input s /\ s_cx s1 = s_cx s /\
    s_yanked s1 = s_yanked s /\ (sel_le (s_sel s) -> sel_le (s_sel s1)).
  Proof.
    unfold toggle_current. intro H. inv_ok; cbn; repeat split; auto.
    intro L. match goal with E : toggle_item _ ?i _ = _ |- _ => pose proof (toggle_item_le i (s_sel s) L) as T; rewrite E in T; exact T end.
  Qed.

  Lemma do_list_sel_le s a s' : sel_le (s_sel s) -> do_list s a = Ok s' -> sel_le (s_sel s').
  Proof.
    intros L H. destruct a; cbn in H; unfold toggle_and_move in H;
      try (inv_ok; exact L);
      try (apply constrain_frame in H; cbn in H; destruct H as (_ & _ & _ & _ & ->); exact L).
    - (* toggle *) inv_ok; try exact L. match goal with E : toggle_current _ _ = Ok ?p |- _ => destruct p as [b s1]; apply toggle_current_inv in E; cbn; now apply E end.
    - (* toggle-in *) inv_ok; try exact L;
        match goal with E : toggle_current _ _ = Ok ?p |- _ => destruct p as [b s1]; apply toggle_current_inv in E; destruct b; cbn; now apply E end.
    - (* toggle-out *) inv_ok; try exact L;
        match goal with E : toggle_current _ _ = Ok ?p |- _ => destruct p as [b s1]; apply toggle_current_inv in E; destruct b; cbn; now apply E end.
    - (* select *) unfold current_item in H. inv_ok; fin; try exact L; apply select_item_le; exact L.
    - (* deselect *) unfold current_item in H. inv_ok; fin; try exact L; apply deselect_item_le; exact L.
    - (* select-all *) inv_ok. destruct (multi_on c); cbn; [now apply select_all_loop_le|exact L].
    - inv_ok. destruct (multi_on c); cbn; [now apply deselect_all_loop_le|exact L].
    - (* toggle-all *) inv_ok. destruct (multi_on c); cbn; [|exact L].
      pose proof (toggle_all_first_le (s_res s) O (s_sel s) L) as T.
      destruct (toggle_all_first (s_res s) 0 (s_sel s)) as [prev sel]. cbn in *. now apply toggle_all_second_le.
    - (* clear *) inv_ok. destruct (multi_on c); cbn; [|exact L]. unfold sel_le. cbn.
      unfold sel_le in L. lia.
    - (* update *) unfold update_list in H. inv_ok; cbn; try exact L; destruct reload; try exact L; unfold sel_le in *; cbn; lia.
  Qed.

  Lemma do_action_sel_le s a s' : sel_le (s_sel s) -> do_action s a = Ok s' -> sel_le (s_sel s').
  Proof.
    unfold EditModel.do_action. intros L H.
    destruct (is_edit a) eqn:Ed.
    - destruct (do_edit s a) as [s1|] eqn:E; cbn [bind] in H; [|discriminate].
      apply do_edit_frame in E as (_ & _ & _ & Es). inv_ok; cbn; rewrite Es; exact L.
    - destruct (do_list s a) as [s1|] eqn:E; cbn [bind] in H; [|discriminate].
      pose proof (do_list_sel_le s a s1 L E). inv_ok; cbn; assumption.
  Qed.

  Theorem sel_limit_proof : forall acts s s', sel_le (s_sel s) -> run s acts = Ok s' -> sel_le (s_sel s').
  Proof.
    induction acts as [|a r IH]; intros s s' L H; cbn in H; [inv_ok; exact L|].
    destruct (do_action s a) as [s1|] eqn:E; cbn [bind] in H; [|discriminate].
    eapply IH; [|exact H]. eapply do_action_sel_le; eauto.
  Qed.

  Theorem no_select_without_multi_proof : forall acts s s',
    c_multi c = 0 -> s_sel s = [] -> run s acts = Ok s' -> s_sel s' = [].
  Proof.
    intros acts s s' M S H. assert (L : sel_le (s_sel s)) by (unfold sel_le; rewrite S, M; cbn; lia).
    pose proof (sel_limit_proof acts s s' L H) as L'. unfold sel_le in L'. rewrite M in L'.
    destruct (s_sel s'); [reflexivity|cbn in L'; lia].
  Qed.

  (* ---------------------------------------------------------------- editor: cursor inside the query *)
  Lemma find_last_lt p2 s : forall i, find_last p2 s = Some i -> (S i < length s)%nat.
  Proof.
    induction s as [|a t IH]; cbn; intros i H; [discriminate|].
    destruct (find_last p2 t) as [j|] eqn:E.
    - inversion H; subst. specialize (IH j eq_refl). lia.
    - destruct t as [|b t']; [discriminate|]. destruct (p2 a b); [|discriminate]. inversion H; subst. cbn. lia.
  Qed.
  Lemma find_last_plus1_le p2 s : (find_last_plus1 p2 s <= length s)%nat.
  Proof. unfold find_last_plus1. destruct (find_last p2 s) eqn:E; [apply find_last_lt in E|]; lia. Qed.

  Lemma find_first_lt s : forall i, find_first_next is_alnum c s = Some i -> (i < length s)%nat.
  Proof.
    induction s as [|a t IH]; cbn; intros i H; [discriminate|].
    destruct t as [|b t'].
    - destruct (a =? NLc); inversion H; subst. lia.
    - destruct (isw is_alnum c a && negb (isw is_alnum c b)); [inversion H; subst; lia|].
      destruct (find_first_next is_alnum c (b :: t')) as [j|] eqn:E; [|discriminate].
      inversion H; subst. specialize (IH j eq_refl). cbn [length] in *. lia.
  Qed.
  Lemma find_first_plus1_le s : (find_first_plus1 is_alnum c s <= length s)%nat.
  Proof. unfold find_first_plus1. destruct (find_first_next is_alnum c s) eqn:E; [apply find_first_lt in E|]; lia. Qed.

  Definition cx_ok (s : st) : Prop := (s_cx s <= length (s_input s))%nat.

  Lemma do_edit_cx_ok s a s' : cx_ok s -> do_edit s a = Ok s' -> cx_ok s'.
  Proof.
    unfold cx_ok. intros L H.
    destruct a; cbn -[Nat.ltb Nat.leb Nat.min] in H; unfold insert_at, rubout, current_item in H; inv_ok; unpack;
      repeat (match goal with |- context[if ?b then _ else _] => destruct b eqn:? end); fin;
      rewrite ?app_length, ?firstn_length, ?skipn_length; cbn;
      try match goal with |- context[find_last_plus1 ?p ?l] => pose proof (find_last_plus1_le p l) end;
      try match goal with |- context[find_first_plus1 _ _ ?l] => pose proof (find_first_plus1_le l) end;
      rewrite ?firstn_length, ?skipn_length in *;
      repeat match goal with E : Nat.ltb _ _ = true |- _ => apply Nat.ltb_lt in E end;
      try lia; try match goal with E : s_input _ = [] |- _ => rewrite E; assumption end.
  Qed.

  Lemma do_action_cx_ok s a s' : cx_ok s -> do_action s a = Ok s' -> cx_ok s'.
  Proof.
    unfold EditModel.do_action. intros L H. destruct (is_edit a) eqn:Ed.
    - destruct (do_edit s a) as [s1|] eqn:E; cbn [bind] in H; [|discriminate].
      pose proof (do_edit_cx_ok s a s1 L E). inv_ok; auto. unfold cx_ok; cbn; lia.
    - destruct (do_list s a) as [s1|] eqn:E; cbn [bind] in H; [|discriminate].
      apply do_list_frame in E as (Ei & Ec & _). inv_ok; unfold cx_ok in *; cbn; try lia. rewrite Ei, Ec. exact L.
  Qed.

  Theorem cx_inv_proof : forall acts s s', cx_ok s -> run s acts = Ok s' -> cx_ok s'.
  Proof.
    induction acts as [|a r IH]; intros s s' L H; cbn in H; [inv_ok; exact L|].
    destruct (do_action s a) as [s1|] eqn:E; cbn [bind] in H; [|discriminate].
    eapply IH; [|exact H]. eapply do_action_cx_ok; eauto.
  Qed.

  (* at the end of every event the query holds at most MAXQ runes (unless there is no input section) *)
  Theorem truncate_bound_proof : forall s s', c_inputless c = false -> do_action s ATruncate = Ok s' ->
    (length (s_input s') <= MAXQ)%nat /\ (s_cx s' <= length (s_input s'))%nat.
  Proof.
    intros s s' NI H. unfold EditModel.do_action in H. cbn in H. rewrite NI in H. cbn in H. inv_ok. unpack. cbn.
    rewrite firstn_length. split; lia.
  Qed.

  (* ---------------------------------------------------------------- list cursor designates an existing line after a redraw *)
  Lemma constrain_z_range v lo hi : lo <= hi -> lo <= constrain_z v lo hi <= hi.
  Proof. unfold constrain_z. intro H. destruct (v <? lo) eqn:A; [lia|]. destruct (hi <? v) eqn:B; [lia|]. apply Z.ltb_ge in A, B. lia. Qed.
  Lemma constrain_z_id v lo hi : lo <= v <= hi -> constrain_z v lo hi = v.
  Proof. unfold constrain_z. intro H. destruct (v <? lo) eqn:A; [apply Z.ltb_lt in A; lia|]. destruct (hi <? v) eqn:B; [apply Z.ltb_lt in B; lia|]. reflexivity. Qed.

  Lemma constrain_loop_cy tries : forall cnt ml cy off r, constrain_loop c tries cnt ml cy off = Ok r ->
    fst r = match tries with O => cy | S _ => constrain_z cy 0 (Z.max 0 (cnt - 1)) end.
  Proof.
    induction tries as [|tries IH]; intros cnt ml cy off r H; cbn -[Z.max Z.min Z.div Z.to_nat] in H; [inv_ok; reflexivity|].
    set (cy1 := constrain_z cy 0 (Z.max 0 (cnt - 1))) in *.
    match type of H with bind ?x _ = _ => destruct x as [o|] eqn:E end; cbn [bind] in H; [|discriminate].
    destruct (o =? off); [inv_ok; reflexivity|].
    apply IH in H. rewrite H. destruct tries; [reflexivity|].
    apply constrain_z_id. apply constrain_z_range. lia.
  Qed.

  Theorem cursor_inv_proof : forall s s', 1 <= c_maxitems c -> constrain c s = Ok s' ->
    (count s' = 0 /\ current_item s' = Ok None) \/ 0 <= s_cy s' < count s'.
  Proof.
    intros s s' M H. unfold constrain in H.
    match type of H with bind ?x _ = _ => destruct x as [r|] eqn:E end; cbn [bind] in H; [|discriminate].
    inv_ok. apply constrain_loop_cy in E. unfold count in *. cbn [s_res s_cy].
    destruct (Z.to_nat (c_maxitems c)) eqn:T; [lia|]. rewrite E.
    pose proof (constrain_z_range (s_cy s) 0 (Z.max 0 (Z.of_nat (length (s_res s)) - 1)) ltac:(lia)) as R.
    destruct (Z.eq_dec (Z.of_nat (length (s_res s))) 0) as [Z0|NZ].
    - left. split; [exact Z0|]. unfold current_item, count. cbn [s_res s_cy]. rewrite Z0.
      rewrite andb_false_r. reflexivity.
    - right. lia.
  Qed.

  (* ---------------------------------------------------------------- selection: the model's primitives are the spec's *)
  Lemma select_item_spec it sel : select_item c it sel = sel_add (c_multi c) it sel.
  Proof. reflexivity. Qed.
  Lemma deselect_item_spec it sel : deselect_item it sel = sel_remove (idx it) sel.
  Proof. reflexivity. Qed.
  Lemma toggle_item_spec it sel : toggle_item c it sel = sel_toggle (c_multi c) it sel.
  Proof. unfold toggle_item, sel_toggle. destruct (sel_mem (idx it) sel); reflexivity. Qed.
  Lemma select_all_loop_spec rs : forall sel, select_all_loop c rs sel = sel_add_all (c_multi c) rs sel.
  Proof. induction rs as [|it r IH]; intro sel; cbn; [reflexivity|]. rewrite select_item_spec. destruct (sel_add (c_multi c) it sel) as [[] sel']; [apply IH|reflexivity]. Qed.

  Lemma sel_mem_app i a b : sel_mem i (a ++ b) = sel_mem i a || sel_mem i b.
  Proof. unfold sel_mem. apply existsb_app. Qed.
  Lemma sel_mem_deselect i it sel : sel_mem i (deselect_item it sel) = sel_mem i sel && negb (i =? idx it).
  Proof.
    unfold sel_mem, deselect_item. induction sel as [|x l IH]; cbn; [reflexivity|].
    destruct (idx x =? idx it) eqn:E; cbn.
    - rewrite IH. apply Z.eqb_eq in E. destruct (idx x =? i) eqn:F; cbn; [|reflexivity].
      apply Z.eqb_eq in F. assert (i =? idx it = true) as -> by (apply Z.eqb_eq; lia). cbn. apply andb_false_r.
    - rewrite IH. destruct (idx x =? i) eqn:F; cbn; [|reflexivity].
      apply Z.eqb_eq in F. apply Z.eqb_neq in E. assert (i =? idx it = false) as -> by (apply Z.eqb_neq; lia). reflexivity.
  Qed.

  (* toggle is an involution on the set of selected indexes *)
  Lemma toggle_item_twice it sel : sel_le sel ->
    forall i, sel_mem i (snd (toggle_item c it (snd (toggle_item c it sel)))) = sel_mem i sel.
  Proof.
    intros L i. unfold toggle_item at 2. destruct (sel_mem (idx it) sel) eqn:M; cbn [negb snd].
    - (* selected -> off -> on again (there is room: one was just removed) *)
      unfold toggle_item. rewrite sel_mem_deselect, M, Z.eqb_refl. cbn [negb andb snd].
      unfold select_item. rewrite sel_mem_deselect, M, Z.eqb_refl. cbn [negb andb].
      assert (LT : (length (deselect_item it sel) < length sel)%nat).
      { clear L. unfold deselect_item, sel_mem in *. induction sel as [|x l IH]; cbn in *; [discriminate|].
        destruct (idx x =? idx it) eqn:E; cbn.
        - pose proof (filter_length_le (fun x0 => negb (idx x0 =? idx it)) l). lia.
        - cbn in M. specialize (IH M). lia. }
      destruct (c_multi c <=? Z.of_nat (length (deselect_item it sel))) eqn:F.
      { apply Z.leb_le in F. unfold sel_le in L. lia. }
      cbn [snd]. rewrite sel_mem_app, sel_mem_deselect. cbn. rewrite orb_false_r.
      destruct (i =? idx it) eqn:G; cbn.
      + apply Z.eqb_eq in G. subst i. rewrite M, Z.eqb_refl. reflexivity.
      + rewrite andb_true_r. rewrite Z.eqb_sym, G. apply orb_false_r.
    - unfold select_item. destruct (c_multi c <=? Z.of_nat (length sel)) eqn:F; cbn [snd].
      + (* limit reached: nothing happens, twice *)
        unfold toggle_item. rewrite M. cbn [negb]. unfold select_item. rewrite F. reflexivity.
      + rewrite M. cbn [snd]. unfold toggle_item. rewrite sel_mem_app. cbn. rewrite Z.eqb_refl, orb_true_r. cbn [negb snd].
        rewrite sel_mem_deselect, sel_mem_app. cbn. rewrite orb_false_r.
        destruct (i =? idx it) eqn:G; cbn.
        * apply Z.eqb_eq in G. subst i. rewrite M. rewrite andb_false_r. reflexivity.
        * rewrite Z.eqb_sym, G, orb_false_r, andb_true_r. reflexivity.
  Qed.

  Theorem toggle_involution_proof : forall s s1 s2, sel_le (s_sel s) ->
    do_list s AToggle = Ok s1 -> do_list s1 AToggle = Ok s2 ->
    (forall i, sel_mem i (s_sel s2) = sel_mem i (s_sel s)) /\ s_cy s2 = s_cy s /\ s_res s2 = s_res s.
  Proof.
    intros s s1 s2 L H1 H2. cbn in H1, H2. unfold count in *.
    destruct (multi_on c && (0 <? Z.of_nat (length (s_res s)))) eqn:G.
    2:{ inversion H1; subst s1. rewrite G in H2. inversion H2; subst s2. auto. }
    unfold toggle_current, current_item, count in H1.
    destruct ((0 <=? s_cy s) && (0 <? Z.of_nat (length (s_res s))) && (s_cy s <? Z.of_nat (length (s_res s)))) eqn:C1; cbn [bind] in H1.
    2:{ cbn in H1. inversion H1; subst s1. unfold toggle_current, current_item, count in H2. rewrite G, C1 in H2. cbn in H2. inversion H2; subst s2. auto. }
    destruct (get (s_res s) (Z.to_nat (s_cy s))) as [it|] eqn:Gt; cbn [bind] in H1; [|discriminate].
    destruct (toggle_item c it (s_sel s)) as [ok sel1] eqn:T1. cbn in H1. inversion H1; subst s1. clear H1.
    cbn in H2. rewrite G in H2. unfold toggle_current, current_item, count in H2. cbn in H2. rewrite C1, Gt in H2. cbn in H2.
    destruct (toggle_item c it sel1) as [ok2 sel2] eqn:T2. cbn in H2. inversion H2; subst s2. clear H2. cbn. repeat split; auto.
    intro i. pose proof (toggle_item_twice it (s_sel s) L i) as TT. rewrite T1 in TT. cbn in TT. rewrite T2 in TT. exact TT.
  Qed.

  (* select-all / toggle-all add lines of the current results only; deselect-all removes lines of the current results only *)
  Lemma select_all_loop_in rs : forall sel x, In x (select_all_loop c rs sel) -> In x sel \/ In x rs.
  Proof.
    induction rs as [|it r IH]; intros sel x H; cbn in H; [auto|].
    unfold select_item in H. destruct (c_multi c <=? Z.of_nat (length sel)); [auto|].
    destruct (sel_mem (idx it) sel).
    - apply IH in H as [H|H]; [auto|right; now right].
    - apply IH in H as [H|H]; [|right; now right]. apply in_app_or in H as [H|[H|[]]]; [auto|right; now left].
  Qed.
  Lemma toggle_all_first_in rs : forall i sel x, In x (snd (toggle_all_first rs i sel)) -> In x sel.
  Proof.
    induction rs as [|it r IH]; intros i sel x H; cbn in H; [exact H|]. destruct sel as [|y sel]; [exact H|].
    destruct (sel_mem (idx it) (y :: sel)).
    - specialize (IH (S i) (deselect_item it (y :: sel)) x).
      destruct (toggle_all_first r (S i) (deselect_item it (y :: sel))) as [ps sel']. cbn [snd] in *.
      apply IH in H. unfold deselect_item in H. apply filter_In in H. tauto.
    - now apply IH in H.
  Qed.
  Lemma toggle_all_second_in rs prev : forall i sel x, In x (toggle_all_second c rs i prev sel) -> In x sel \/ In x rs.
  Proof.
    induction rs as [|it r IH]; intros i sel x H; cbn in H; [auto|].
    destruct (existsb (Nat.eqb i) prev).
    - apply IH in H as [H|H]; [auto|right; now right].
    - unfold select_item in H. destruct (c_multi c <=? Z.of_nat (length sel)); [auto|].
      destruct (sel_mem (idx it) sel).
      + apply IH in H as [H|H]; [auto|right; now right].
      + apply IH in H as [H|H]; [|right; now right]. apply in_app_or in H as [H|[H|[]]]; [auto|right; now left].
  Qed.
  Lemma deselect_all_loop_in rs : forall sel x, In x (deselect_all_loop rs sel) -> In x sel.
  Proof.
    induction rs as [|it r IH]; intros sel x H; cbn in H; [exact H|]. destruct sel as [|y sel]; [exact H|].
    apply IH in H. unfold deselect_item in H. apply filter_In in H. tauto.
  Qed.
  Lemma deselect_all_loop_kept rs : forall sel x, In x sel -> sel_mem (idx x) rs = false -> In x (deselect_all_loop rs sel).
  Proof.
    induction rs as [|it r IH]; intros sel x H M; cbn; [exact H|]. destruct sel as [|y sel]; [exact H|].
    cbn in M. apply orb_false_iff in M as [M1 M2]. apply IH; [|exact M2].
    unfold deselect_item. apply filter_In. split; [exact H|]. rewrite Z.eqb_sym, M1. reflexivity.
  Qed.

  Theorem select_all_subset_results_proof : forall s a s', (a = ASelectAll \/ a = AToggleAll) ->
    do_list s a = Ok s' -> forall x, In x (s_sel s') -> In x (s_sel s) \/ In x (s_res s).
  Proof.
    intros s a s' [-> | ->] H x I; cbn in H; inv_ok; destruct (multi_on c); cbn in I; auto.
    - now apply select_all_loop_in.
    - destruct (toggle_all_first (s_res s) 0 (s_sel s)) as [prev sel0] eqn:T. cbn in I.
      apply toggle_all_second_in in I as [I|I]; [left|auto].
      pose proof (toggle_all_first_in (s_res s) O (s_sel s) x) as F. rewrite T in F. auto.
  Qed.

  Theorem deselect_all_only_results_proof : forall s s', do_list s ADeselectAll = Ok s' ->
    (forall x, In x (s_sel s') -> In x (s_sel s)) /\
    (forall x, In x (s_sel s) -> sel_mem (idx x) (s_res s) = false -> In x (s_sel s')).
  Proof.
    intros s s' H. cbn in H. inv_ok. destruct (multi_on c); cbn; split; auto.
    - intros x. apply deselect_all_loop_in.
    - intros x. apply deselect_all_loop_kept.
  Qed.

  (* selections survive query edits and new result lists; a reload drops them *)
  Theorem selection_survives_query_proof : forall s a s',
    (is_edit a = true \/ exists rs, a = AUpdate rs false) -> do_action s a = Ok s' -> s_sel s' = s_sel s.
  Proof.
    intros s a s' D H. unfold EditModel.do_action in H. destruct D as [E|[rs ->]].
    - rewrite E in H. destruct (do_edit s a) as [s1|] eqn:F; cbn [bind] in H; [|discriminate].
      apply do_edit_frame in F as (_ & _ & _ & Fs). inv_ok; cbn; exact Fs.
    - cbn in H. unfold update_list in H. rewrite andb_false_r in H. cbn in H. inv_ok; reflexivity.
  Qed.
  Theorem reload_clears_proof : forall s rs s', do_action s (AUpdate rs true) = Ok s' -> s_sel s' = [] /\ s_res s' = rs.
  Proof.
    intros s rs s' H. unfold EditModel.do_action in H. cbn in H. unfold update_list in H. rewrite andb_false_r in H. cbn in H.
    inv_ok; cbn; auto.
  Qed.

  (* accept prints the selection in order of selection, or else the current line *)
  Theorem accept_prints_selection_or_current_proof : forall s out, output s = Ok out ->
    exists cur, current_item s = Ok cur /\ out = spec_output (s_sel s) cur.
  Proof.
    intros s out H. unfold output in H. destruct (s_sel s) as [|x l] eqn:S.
    - destruct (current_item s) as [cur|] eqn:C; cbn [bind] in H; [|discriminate]. inv_ok. exists cur. split; reflexivity.
    - inv_ok. destruct (current_item s) as [cur|e] eqn:C.
      + exists cur. split; reflexivity.
      + (* current_item cannot fail: the index was range-checked *)
        unfold current_item, count in C.
        destruct ((0 <=? s_cy s) && (0 <? Z.of_nat (length (s_res s))) && (s_cy s <? Z.of_nat (length (s_res s)))) eqn:G; [|discriminate].
        apply andb_true_iff in G as [G G3]. apply andb_true_iff in G as [G1 G2].
        apply Z.leb_le in G1. apply Z.ltb_lt in G3.
        assert (GL : forall (l : list item) n, (n < length l)%nat -> exists v, get l n = Ok v).
        { induction l0 as [|y l0 IH]; intros n Hn; [cbn in Hn; lia|]. destruct n; cbn; [eauto|]. apply IH. cbn in Hn. lia. }
        destruct (GL (s_res s) (Z.to_nat (s_cy s)) ltac:(lia)) as [v Hv]. rewrite Hv in C. discriminate.
  Qed.

  (* ---------------------------------------------------------------- the query line is a zipper editor *)
  Definition zabs (s : st) : zip := mkZip (rev (firstn (s_cx s) (s_input s))) (skipn (s_cx s) (s_input s)) (s_yanked s).

  (* the editor command an action stands for (replace-query reads the current line) *)
  Definition ecmd_of (s : st) (a : act) : ecmd :=
    match a with
    | AChar ch => EInsert [ch] | APut t => EInsert t
    | ABackwardDeleteChar => EBackDel | ADeleteChar => EDel | ABackwardChar => ELeft | AForwardChar => ERight
    | ABeginningOfLine => EHome | AEndOfLine => EEnd | AKillLine => EKillLine | AUnixLineDiscard => ELineDiscard
    | AUnixWordRubout => EWordRubout | ABackwardKillWord => EBackKillWord | ABackwardWord => EBackWord
    | AForwardWord => EFwdWord | AKillWord => EKillWord | AYank => EYank | AClearQuery => EClear | ACancel => ECancel
    | AChangeQuery t => ESet t
    | AReplaceQuery => match current_item s with Ok (Some it) => ESet (snd it) | _ => ENop end
    | ATruncate => ETrunc
    | _ => ENop
    end.

  Definition is_word_motion (a : act) : bool :=
    match a with AUnixWordRubout | ABackwardKillWord | ABackwardWord | AForwardWord | AKillWord => true | _ => false end.

  Lemma firstn_view (rb a : str) : firstn (length rb) (rev rb ++ a) = rev rb.
  Proof. rewrite <- (rev_length rb). rewrite firstn_app, Nat.sub_diag, firstn_all. cbn. apply app_nil_r. Qed.
  Lemma skipn_view (rb a : str) : skipn (length rb) (rev rb ++ a) = a.
  Proof. rewrite <- (rev_length rb). rewrite skipn_app, Nat.sub_diag, skipn_all. reflexivity. Qed.
  Lemma take_view (rb a : str) : take (rev rb ++ a) (length rb) = Ok (rev rb).
  Proof. unfold take. rewrite app_length, rev_length. replace (Nat.leb (length rb) (length rb + length a)) with true by (symmetry; apply Nat.leb_le; lia). now rewrite firstn_view. Qed.
  Lemma drop_view (rb a : str) : drop (rev rb ++ a) (length rb) = Ok a.
  Proof. unfold drop. rewrite app_length, rev_length. replace (Nat.leb (length rb) (length rb + length a)) with true by (symmetry; apply Nat.leb_le; lia). now rewrite skipn_view. Qed.

  Lemma zabs_view rb a y r cy o sel : zabs (mkSt (rev rb ++ a) (length rb) y r cy o sel) = mkZip rb a y.
  Proof. unfold zabs. cbn. now rewrite firstn_view, skipn_view, rev_involutive. Qed.

  Lemma view s : cx_ok s -> exists rb a, s_input s = rev rb ++ a /\ s_cx s = length rb.
  Proof.
    intro L. exists (rev (firstn (s_cx s) (s_input s))), (skipn (s_cx s) (s_input s)).
    rewrite rev_involutive, firstn_skipn, rev_length, firstn_length. unfold cx_ok in L. split; [reflexivity|lia].
  Qed.

  Definition viewed (rb a y : str) (s0 : st) : st := mkSt (rev rb ++ a) (length rb) y (s_res s0) (s_cy s0) (s_offset s0) (s_sel s0).

  (* reshaping helpers: a state is a viewed state as soon as text and cursor agree *)
  Lemma viewed_eq rb a y s0 rb0 a0 y0 inp cx : inp = rev rb ++ a -> cx = length rb ->
    set_edit (viewed rb0 a0 y0 s0) inp cx y = viewed rb a y s0.
  Proof. intros -> ->. reflexivity. Qed.

  Lemma do_edit_view rb a y s0 act s' : c_inputless c = false -> is_word_motion act = false ->
    do_edit (viewed rb a y s0) act = Ok s' ->
    exists rb' a' y', s' = viewed rb' a' y' s0 /\ mkZip rb' a' y' = zstep (isw is_alnum c) (mkZip rb a y) (ecmd_of (viewed rb a y s0) act).
  Proof.
    intros NI NW H.
    destruct act; try discriminate NW; cbn -[Nat.ltb Nat.leb Nat.min take drop MAXQ] in H;
      unfold insert_at in H; cbn -[Nat.ltb Nat.leb Nat.min take drop MAXQ] in H;
      rewrite ?take_view, ?drop_view in H; cbn -[Nat.ltb Nat.leb Nat.min take drop MAXQ] in H;
      try solve [inversion H; subst; exists rb, a, y; split; reflexivity].
    - (* char *) inv_ok. exists (c0 :: rb), a, y. split; [|reflexivity].
      apply viewed_eq; cbn; [now rewrite <- app_assoc|lia].
    - (* put *) inv_ok. exists (rev s ++ rb), a, y. split; [|reflexivity].
      apply viewed_eq; [now rewrite rev_app_distr, rev_involutive, <- app_assoc|rewrite app_length, rev_length; lia].
    - (* backward-delete-char *)
      destruct rb as [|x rb]; cbn -[take drop] in H.
      + inv_ok. exists [], a, y. split; reflexivity.
      + rewrite Nat.sub_0_r, <- app_assoc, take_view in H. cbn in H. inv_ok.
        exists rb, a, y. split; [|reflexivity]. apply viewed_eq; reflexivity.
    - (* delete-char *)
      rewrite app_length, rev_length in H.
      destruct a as [|x a].
      + replace (Nat.ltb (length rb) (length rb + length (@nil Z))) with false in H by (symmetry; apply Nat.ltb_ge; cbn; lia).
        rewrite andb_false_r in H. inv_ok. exists rb, [], y. split; reflexivity.
      + replace (Nat.ltb 0 (length rb + length (x :: a)) && Nat.ltb (length rb) (length rb + length (x :: a))) with true in H
          by (symmetry; apply andb_true_iff; split; apply Nat.ltb_lt; cbn; lia).
        replace (rev rb ++ x :: a) with (rev (x :: rb) ++ a) in H by (cbn; now rewrite <- app_assoc).
        replace (length rb + 1)%nat with (length (x :: rb)) in H by (cbn; lia). rewrite drop_view in H. cbn [bind] in H. inv_ok.
        exists rb, a, y. split; [|reflexivity]. apply viewed_eq; reflexivity.
    - (* backward-char *) inv_ok. destruct rb as [|x rb]; cbn.
      + exists [], a, y. split; reflexivity.
      + exists rb, (x :: a), y. split; [|reflexivity]. apply viewed_eq; [now rewrite <- app_assoc|lia].
    - (* forward-char *) inv_ok. rewrite app_length, rev_length. destruct a as [|x a].
      + replace (Nat.ltb (length rb) (length rb + length (@nil Z))) with false by (symmetry; apply Nat.ltb_ge; cbn; lia).
        exists rb, [], y. split; reflexivity.
      + replace (Nat.ltb (length rb) (length rb + length (x :: a))) with true by (symmetry; apply Nat.ltb_lt; cbn; lia).
        exists (x :: rb), a, y. split; [|reflexivity]. apply viewed_eq; cbn; [now rewrite <- app_assoc|lia].
    - (* beginning-of-line *) inv_ok. exists [], (rev rb ++ a), y. split; [reflexivity|].
      cbn. unfold move_left. cbn. now rewrite firstn_all, skipn_all.
    - (* end-of-line *) inv_ok. exists (rev a ++ rb), [], y. split.
      + apply viewed_eq; [now rewrite rev_app_distr, rev_involutive, app_nil_r|now rewrite !app_length, !rev_length, Nat.add_comm].
      + cbn. unfold move_right. cbn. now rewrite firstn_all, skipn_all.
    - (* kill-line *) rewrite app_length, rev_length in H. destruct a as [|x a].
      + replace (Nat.ltb (length rb) (length rb + length (@nil Z))) with false in H by (symmetry; apply Nat.ltb_ge; cbn; lia).
        inv_ok. exists rb, [], y. split; reflexivity.
      + replace (Nat.ltb (length rb) (length rb + length (x :: a))) with true in H by (symmetry; apply Nat.ltb_lt; cbn; lia).
        cbn [bind] in H. inv_ok. exists rb, [], (x :: a). split.
        * apply viewed_eq; [now rewrite app_nil_r|reflexivity].
        * cbn. unfold kill_right. cbn. now rewrite firstn_all, skipn_all.
    - (* unix-line-discard *) destruct rb as [|x rb].
      + cbn in H. inv_ok. exists [], a, y. split; reflexivity.
      + change (Nat.ltb 0 (length (x :: rb))) with true in H. cbn [bind] in H. inv_ok. exists [], a, (rev (x :: rb)). split; [reflexivity|].
        cbn -[rev firstn skipn]. unfold kill_left. cbn -[rev firstn skipn].
        change (S (length rb)) with (length (x :: rb)). now rewrite firstn_all, skipn_all.
    - (* yank *) inv_ok. exists (rev y ++ rb), a, y. split; [|reflexivity].
      apply viewed_eq; [now rewrite rev_app_distr, rev_involutive, <- app_assoc|rewrite app_length, rev_length; lia].
    - (* clear-query *) inv_ok. exists [], [], y. split; reflexivity.
    - (* cancel *) inv_ok. cbn. unfold ztext. cbn. destruct (rev rb ++ a) eqn:E.
      + exists rb, a, y. split; [|reflexivity]. unfold viewed. now rewrite E.
      + exists [], [], (z :: l). split; reflexivity.
    - (* change-query *) inv_ok. exists (rev s), [], y. split; [|reflexivity].
      apply viewed_eq; [now rewrite rev_involutive, app_nil_r|now rewrite rev_length].
    - (* replace-query *)
      change (current_item (viewed rb a y s0)) with (current_item s0) in *.
      unfold ecmd_of. change (current_item (viewed rb a y s0)) with (current_item s0).
      destruct (current_item s0) as [[it|]|] eqn:C; cbn [bind] in H; [| |discriminate]; inv_ok.
      + exists (rev (snd it)), [], y. split; [|reflexivity].
        apply viewed_eq; [now rewrite rev_involutive, app_nil_r|now rewrite rev_length].
      + exists rb, a, y. split; reflexivity.
    - (* truncate *) rewrite NI in H. cbn -[Nat.min take MAXQ] in H.
      cbn [zstep ecmd_of zb za zk]. set (M := MAXQ) in *. clearbody M.
      destruct (take (rev rb ++ a) (Nat.min (length (rev rb ++ a)) M)) as [inp'|] eqn:T; cbn [bind] in H; [|discriminate].
      apply take_ok in T as [-> _]. inv_ok.
      exists (skipn (length rb - M) rb), (firstn (M - length (skipn (length rb - M) rb)) a), y. split; [|reflexivity].
      rewrite skipn_length.
      assert (E1 : rev (skipn (length rb - M) rb) = firstn (Nat.min (length rb) M) (rev rb)).
      { rewrite <- (rev_involutive rb) at 2. rewrite skipn_rev, rev_involutive, rev_length. f_equal. lia. }
      assert (E2 : firstn (Nat.min (length (rev rb ++ a)) M) (rev rb ++ a) =
                   rev (skipn (length rb - M) rb) ++ firstn (M - (length rb - (length rb - M))) a).
      { rewrite E1, app_length, rev_length, firstn_app, rev_length.
        destruct (Nat.le_ge_cases (length rb) M) as [Hle|Hge].
        - rewrite (Nat.min_l _ _ Hle). rewrite !(firstn_all2 (rev rb)) by (rewrite rev_length; lia). f_equal.
          replace (length rb - (length rb - M))%nat with (length rb) by lia.
          destruct (Nat.le_ge_cases (length rb + length a) M) as [H2|H2].
          + rewrite !firstn_all2 by lia. reflexivity.
          + f_equal. lia.
        - rewrite (Nat.min_r _ _ Hge). replace (Nat.min (length rb + length a) M) with M by lia.
          replace (M - length rb)%nat with O by lia. replace (M - (length rb - (length rb - M)))%nat with O by lia. reflexivity. }
      apply viewed_eq; [exact E2|].
      rewrite E2, app_length, rev_length, skipn_length, firstn_length. lia.
  Qed.

  Lemma not_edit_nop s a : is_edit a = false -> ecmd_of s a = ENop.
  Proof. destruct a; cbn; intro H; try discriminate H; reflexivity. Qed.

  Lemma do_action_zabs s a s' : c_inputless c = false -> cx_ok s -> is_word_motion a = false ->
    do_action s a = Ok s' -> zabs s' = zstep (isw is_alnum c) (zabs s) (ecmd_of s a).
  Proof.
    intros NI L NW H. unfold EditModel.do_action in H. rewrite NI in H. cbn [andb] in H.
    destruct (is_edit a) eqn:Ed.
    - destruct (do_edit s a) as [s1|] eqn:E; cbn [bind] in H; [|discriminate]. inv_ok.
      destruct (view s L) as (rb & a0 & Hi & Hc).
      assert (Hs : s = viewed rb a0 (s_yanked s) s) by (destruct s; cbn in *; subst; reflexivity).
      assert (Hz : zabs s = mkZip rb a0 (s_yanked s)).
      { unfold zabs. rewrite Hi, Hc, firstn_view, skipn_view, rev_involutive. reflexivity. }
      assert (E' : do_edit (viewed rb a0 (s_yanked s) s) a = Ok s') by (rewrite <- Hs; exact E).
      apply do_edit_view in E' as (rb' & a' & y' & -> & Z); [|exact NI|exact NW].
      unfold viewed at 1. rewrite zabs_view, Hz, Z, <- Hs. reflexivity.
    - destruct (do_list s a) as [s1|] eqn:E; cbn [bind] in H; [|discriminate]. inv_ok.
      apply do_list_frame in E as (Ei & Ec & Ey). rewrite (not_edit_nop s a Ed). cbn. unfold zabs. now rewrite Ei, Ec, Ey.
  Qed.

  (* model run and zipper run side by side; the zipper is driven by the editor commands the actions stand for *)
  Fixpoint run_z (s : st) (z : zip) (acts : list act) : res (st * zip) :=
    match acts with
    | [] => Ok (s, z)
    | a :: r => do s' <- do_action s a; run_z s' (zstep (isw is_alnum c) z (ecmd_of s a)) r
    end.

  Lemma run_z_fst : forall acts s z s' z', run_z s z acts = Ok (s', z') -> run s acts = Ok s'.
  Proof.
    induction acts as [|a r IH]; intros s z s' z' H; cbn in *; [inv_ok; reflexivity|].
    destruct (do_action s a) as [s1|]; cbn [bind] in *; [|discriminate]. eapply IH; eauto.
  Qed.

  Theorem edit_refines_zipper_partial_proof : forall acts s s' z', c_inputless c = false -> cx_ok s ->
    forallb (fun a => negb (is_word_motion a)) acts = true ->
    run_z s (zabs s) acts = Ok (s', z') -> z' = zabs s'.
  Proof.
    induction acts as [|a r IH]; intros s s' z' NI L NW H; cbn in H; [inv_ok; reflexivity|].
    cbn in NW. apply andb_true_iff in NW as [NW1 NW2]. apply negb_true_iff in NW1.
    destruct (do_action s a) as [s1|] eqn:E; cbn [bind] in H; [|discriminate].
    rewrite <- (do_action_zabs s a s1 NI L NW1 E) in H.
    eapply IH; [exact NI| |exact NW2|exact H]. eapply do_action_cx_ok; eauto.
  Qed.

  (* without an input section (--no-input) no action changes the query *)
  Theorem inputless_query_constant_proof : forall acts s s', c_inputless c = true ->
    Forall (fun a => is_action a = true) acts -> s_cx s = length (s_input s) ->
    run s acts = Ok s' -> s_input s' = s_input s /\ s_cx s' = length (s_input s').
  Proof.
    induction acts as [|a r IH]; intros s s' I F C H; cbn in H; [inv_ok; auto|].
    inversion F as [|? ? Fa Fr]; subst.
    destruct (do_action s a) as [s1|] eqn:E; cbn [bind] in H; [|discriminate].
    unfold EditModel.do_action in E. rewrite I, Fa in E. cbn [andb] in E.
    match type of E with bind ?x _ = _ => destruct x as [s0|]; cbn [bind] in E; [|discriminate] end. inv_ok.
    apply IH in H; [|exact I|exact Fr|reflexivity]. cbn in H. exact H.
  Qed.
End Proofs.

Section ConstrainTotal.
  Variable c : cfg.

  (* ---------------------------------------------------------------- constrain never runs out of fuel *)
  Lemma adjust0_total cy ml so mn mx : forall fuel n, mn <= n ->
    Z.max 0 (so - (cy - n)) < Z.of_nat fuel ->
    exists r, adjust fuel false cy ml so mn mx n = Ok r /\ mn <= r <= n.
  Proof.
    induction fuel as [|f IH]; intros n Hn Hf; [cbn in Hf; lia|].
    cbn -[Z.max Z.min]. 
    destruct ((cy - n <? so) && (ml - (cy - n + 1) <? so)) eqn:B; [exists n; split; [reflexivity|lia]|].
    cbn [negb andb].
    destruct (cy - n <? so) eqn:L.
    - apply Z.ltb_lt in L. destruct (Z.max mn (n - 1) =? n) eqn:E; [exists n; split; [reflexivity|lia]|].
      apply Z.eqb_neq in E. assert (E1 : Z.max mn (n - 1) = n - 1) by lia. rewrite E1.
      destruct (IH (n - 1)) as (r & Hr & Rr); [lia|lia|]. exists r. split; [exact Hr|lia].
    - rewrite Z.eqb_refl. exists n. split; [reflexivity|lia].
  Qed.

  Lemma adjust1_total cy ml so mn mx : forall fuel n, n <= mx ->
    Z.max 0 (so - (ml - (cy - n + 1))) < Z.of_nat fuel ->
    exists r, adjust fuel true cy ml so mn mx n = Ok r /\ n <= r <= mx.
  Proof.
    induction fuel as [|f IH]; intros n Hn Hf; [cbn in Hf; lia|].
    cbn -[Z.max Z.min].
    destruct ((cy - n <? so) && (ml - (cy - n + 1) <? so)) eqn:B; [exists n; split; [reflexivity|lia]|].
    cbn [negb andb].
    destruct (ml - (cy - n + 1) <? so) eqn:L.
    - apply Z.ltb_lt in L. destruct (Z.min mx (n + 1) =? n) eqn:E; [exists n; split; [reflexivity|lia]|].
      apply Z.eqb_neq in E. assert (E1 : Z.min mx (n + 1) = n + 1) by lia. rewrite E1.
      destruct (IH (n + 1)) as (r & Hr & Rr); [lia|lia|]. exists r. split; [exact Hr|lia].
    - rewrite Z.eqb_refl. exists n. split; [reflexivity|lia].
  Qed.

  Lemma constrain_loop_total cnt ml : 1 <= ml -> forall tries cy off, exists r, constrain_loop c tries cnt ml cy off = Ok r.
  Proof.
    intros M. induction tries as [|tries IH]; intros cy off; [eexists; reflexivity|].
    cbn -[Z.max Z.min Z.div Z.to_nat adjust].
    set (cy1 := constrain_z cy 0 (Z.max 0 (cnt - 1))).
    set (mn := Z.max (cy1 - ml + 1) 0). set (mx := Z.max (Z.min (cnt - ml) cy1) 0).
    set (o0 := constrain_z off mn mx).
    assert (C1 : 0 <= cy1 <= Z.max 0 (cnt - 1)) by (apply constrain_z_range; lia).
    assert (MM : mn <= mx) by (unfold mn, mx; lia).
    assert (O0 : mn <= o0 <= mx) by (apply constrain_z_range; exact MM).
    destruct (0 <? c_scrolloff c) eqn:Sc.
    - apply Z.ltb_lt in Sc.
      set (so := Z.min (ml / 2) (c_scrolloff c)).
      assert (SO : so <= ml) by (unfold so; pose proof (Z.div_le_upper_bound ml 2 ml ltac:(lia) ltac:(lia)); lia).
      destruct (adjust0_total cy1 ml so mn mx (S (S (Z.to_nat ml))) o0) as (o1 & H1 & R1); [lia| |].
      { unfold mx in O0. lia. }
      rewrite H1. cbn [bind].
      destruct (adjust1_total cy1 ml so mn mx (S (S (Z.to_nat ml))) o1) as (o2 & H2 & R2); [lia| |].
      { unfold mn in R1. lia. }
      rewrite H2. cbn [bind]. destruct (o2 =? off); [eexists; reflexivity|apply IH].
    - cbn [bind]. destruct (o0 =? off); [eexists; reflexivity|apply IH].
  Qed.

  Theorem constrain_total_proof : forall s, exists s', constrain c s = Ok s'.
  Proof.
    intro s. unfold constrain.
    destruct (Z_lt_le_dec (c_maxitems c) 1) as [Lt|Ge].
    - replace (Z.to_nat (c_maxitems c)) with O by lia. cbn. eexists; reflexivity.
    - destruct (constrain_loop_total (count s) (c_maxitems c) Ge (Z.to_nat (c_maxitems c)) (s_cy s)
                  (constrain_z (s_offset s) 0 (count s))) as [r Hr].
      rewrite Hr. cbn [bind]. eexists; reflexivity.
  Qed.

  Theorem cursor_inv_total_proof : forall s, 1 <= c_maxitems c ->
    exists s', constrain c s = Ok s' /\
      ((count s' = 0 /\ current_item s' = Ok None) \/ 0 <= s_cy s' < count s').
  Proof.
    intros s M. destruct (constrain_total_proof s) as [s' H]. exists s'. split; [exact H|]. eapply cursor_inv_proof; eauto.
  Qed.
End ConstrainTotal.


(* ---------------------------------------------------------------- the word scanners travel exactly word_span *)
Definition nlfree (l : str) : Prop := Forall (fun x => x <> NLc) l.

Lemma drop_while_len {A} (p : A -> bool) l : (length (drop_while p l) <= length l)%nat.
Proof. induction l as [|x l IH]; cbn; [lia|]. destruct (p x); cbn; lia. Qed.

Lemma drop_while_skipn {A} (p : A -> bool) l : drop_while p l = skipn (length l - length (drop_while p l)) l.
Proof.
  induction l as [|x l IH]; cbn [drop_while]; [reflexivity|]. destruct (p x) eqn:E; cbn [length].
  - pose proof (drop_while_len p l). replace (S (length l) - length (drop_while p l))%nat with (S (length l - length (drop_while p l))) by lia.
    cbn [skipn]. exact IH.
  - now rewrite Nat.sub_diag.
Qed.

Lemma skipn_skipn' {A} : forall a b (l : list A), skipn a (skipn b l) = skipn (a + b) l.
Proof.
  intros a b. revert a. induction b as [|b IH]; intros a l; [now rewrite Nat.add_0_r|].
  destruct l as [|x l]; [now rewrite !skipn_nil|]. rewrite Nat.add_succ_r. cbn [skipn]. apply IH.
Qed.

Definition dw2 (w : Z -> bool) (l : str) : str := drop_while w (drop_while (fun c => negb (w c)) l).

Lemma dw2_len w l : (length (dw2 w l) <= length l)%nat.
Proof. unfold dw2. pose proof (drop_while_len w (drop_while (fun c => negb (w c)) l)). pose proof (drop_while_len (fun c => negb (w c)) l). lia. Qed.
Lemma word_span_le w l : (word_span w l <= length l)%nat.
Proof. unfold word_span. lia. Qed.
Lemma word_span_dw2 w l : word_span w l = (length l - length (dw2 w l))%nat.
Proof. reflexivity. Qed.
Lemma dw2_skipn w l : dw2 w l = skipn (word_span w l) l.
Proof.
  unfold word_span, dw2. set (l1 := drop_while (fun c => negb (w c)) l). set (l2 := drop_while w l1).
  assert (H1 : l1 = skipn (length l - length l1) l) by apply drop_while_skipn.
  assert (H2 : l2 = skipn (length l1 - length l2) l1) by apply drop_while_skipn.
  pose proof (drop_while_len w l1) as L2. fold l2 in L2.
  pose proof (drop_while_len (fun c => negb (w c)) l) as L1. fold l1 in L1.
  transitivity (skipn (length l1 - length l2) (skipn (length l - length l1) l)).
  - rewrite <- H1. exact H2.
  - rewrite skipn_skipn'. f_equal. lia.
Qed.
Lemma word_span_pos w x l : (1 <= word_span w (x :: l))%nat.
Proof.
  unfold word_span. cbn [drop_while]. destruct (w x) eqn:E; cbn [negb drop_while length].
  - rewrite E. pose proof (drop_while_len w l). lia.
  - pose proof (dw2_len w l). unfold dw2 in H. lia.
Qed.

Section Scan.
  Variable w : Z -> bool.
  Definition p2w (a b : Z) : bool := negb (w a) && w b.

  Lemma find_last_ext (p q : Z -> Z -> bool) : (forall a b, p a b = q a b) -> forall s, find_last p s = find_last q s.
  Proof. intros E s. induction s as [|a t IH]; cbn; [reflexivity|]. rewrite IH. destruct (find_last q t); [reflexivity|]. destruct t; [reflexivity|]. now rewrite E. Qed.

  Lemma find_last_one p x : find_last p [x] = None.
  Proof. reflexivity. Qed.

  Lemma find_last_snoc p : forall s y x,
    find_last p ((s ++ [y]) ++ [x]) = if p y x then Some (length s) else find_last p (s ++ [y]).
  Proof.
    induction s as [|a s IH]; intros y x.
    - cbn. destruct (p y x); reflexivity.
    - change (find_last p (((a :: s) ++ [y]) ++ [x])) with
        (match find_last p ((s ++ [y]) ++ [x]) with
         | Some j => Some (S j)
         | None => match (s ++ [y]) ++ [x] with b :: _ => if p a b then Some O else None | [] => None end
         end).
      rewrite IH. destruct (p y x); [reflexivity|].
      change (find_last p ((a :: s) ++ [y])) with
        (match find_last p (s ++ [y]) with
         | Some j => Some (S j)
         | None => match s ++ [y] with b :: _ => if p a b then Some O else None | [] => None end
         end).
      destruct (find_last p (s ++ [y])); [reflexivity|]. destruct s; reflexivity.
  Qed.

  (* backward, the cursor is right after a word character *)
  Lemma find_last_in_word : forall rb y, w y = true ->
    find_last_plus1 p2w (rev (y :: rb)) = length (drop_while w (y :: rb)).
  Proof.
    induction rb as [|z rb IH]; intros y Wy.
    - cbn. now rewrite Wy.
    - change (rev (y :: z :: rb)) with ((rev rb ++ [z]) ++ [y]).
      unfold find_last_plus1. rewrite find_last_snoc. unfold p2w at 1. rewrite Wy, andb_true_r.
      cbn [drop_while]. rewrite Wy.
      destruct (w z) eqn:Wz; cbn [negb].
      + specialize (IH z Wz). unfold find_last_plus1 in IH. change (rev (z :: rb)) with (rev rb ++ [z]) in IH.
        cbn [drop_while] in IH. rewrite Wz in IH. exact IH.
      + cbn [length]. now rewrite rev_length.
  Qed.

  Lemma find_last_is_span : forall rb, find_last_plus1 p2w (rev rb) = length (dw2 w rb).
  Proof.
    induction rb as [|x rb IH]; [reflexivity|].
    destruct (w x) eqn:Wx.
    - rewrite find_last_in_word by exact Wx. unfold dw2. cbn [drop_while]. rewrite Wx. cbn [negb drop_while]. rewrite Wx. reflexivity.
    - unfold dw2. cbn [drop_while]. rewrite Wx. cbn [negb]. fold (dw2 w rb). rewrite <- IH.
      destruct rb as [|z rb]; [reflexivity|].
      change (rev (x :: z :: rb)) with ((rev rb ++ [z]) ++ [x]). unfold find_last_plus1. rewrite find_last_snoc.
      unfold p2w at 1. rewrite Wx, andb_false_r. reflexivity.
  Qed.
End Scan.

Section Fwd.
  Variable is_alnum : Z -> bool.
  Variable c : cfg.
  Notation w := (isw is_alnum c).
  Notation ffn := (find_first_next is_alnum c).
  Notation ffp1 := (find_first_plus1 is_alnum c).

  Lemma ffn_some : forall l, nlfree l -> l <> [] -> exists j, ffn l = Some j.
  Proof.
    induction l as [|a t IH]; intros NL NE; [congruence|].
    inversion NL as [|? ? Ha Ht]; subst. destruct t as [|b t'].
    - cbn. destruct (a =? NLc) eqn:E; [apply Z.eqb_eq in E; contradiction|eauto].
    - change (ffn (a :: b :: t')) with
        (if w a && negb (w b) then Some O else match ffn (b :: t') with Some j => Some (S j) | None => None end).
      destruct (w a && negb (w b)); [eauto|]. destruct (IH Ht ltac:(discriminate)) as [j ->]. eauto.
  Qed.

  Lemma ffp1_cons_skip a b t : nlfree (a :: b :: t) -> w a && negb (w b) = false -> ffp1 (a :: b :: t) = S (ffp1 (b :: t)).
  Proof.
    intros NL E. unfold find_first_plus1.
    change (ffn (a :: b :: t)) with
      (if w a && negb (w b) then Some O else match ffn (b :: t) with Some j => Some (S j) | None => None end).
    rewrite E. inversion NL; subst. destruct (ffn_some (b :: t)) as [j ->]; [assumption|discriminate|reflexivity].
  Qed.

  Lemma ffp1_in_word : forall t a, w a = true -> nlfree (a :: t) ->
    ffp1 (a :: t) = (length (a :: t) - length (drop_while w (a :: t)))%nat.
  Proof.
    induction t as [|b t IH]; intros a Wa NL; inversion NL as [|? ? Ha Ht]; subst.
    - unfold find_first_plus1. cbn. rewrite Wa. destruct (a =? NLc) eqn:E; [apply Z.eqb_eq in E; contradiction|reflexivity].
    - destruct (w b) eqn:Wb.
      + rewrite ffp1_cons_skip; [|exact NL|rewrite Wa, Wb; reflexivity].
        rewrite (IH b Wb Ht). cbn [drop_while]. rewrite Wa, Wb.
        pose proof (drop_while_len w t). cbn [length]. lia.
      + unfold find_first_plus1.
        change (ffn (a :: b :: t)) with
          (if w a && negb (w b) then Some O else match ffn (b :: t) with Some j => Some (S j) | None => None end).
        rewrite Wa, Wb. cbn [drop_while andb negb]. rewrite Wa, Wb. cbn [length]. lia.
  Qed.

  Lemma find_first_is_span : forall l, nlfree l -> ffp1 l = word_span w l.
  Proof.
    induction l as [|a t IH]; intro NL; [reflexivity|].
    inversion NL as [|? ? Ha Ht]; subst.
    destruct (w a) eqn:Wa.
    - rewrite ffp1_in_word by assumption. unfold word_span. cbn [drop_while]. rewrite Wa. cbn [negb drop_while]. rewrite Wa. reflexivity.
    - unfold word_span. cbn [drop_while]. rewrite Wa. cbn [negb]. fold (dw2 w t).
      pose proof (dw2_len w t). destruct t as [|b t'].
      + unfold find_first_plus1. cbn. destruct (a =? NLc) eqn:E; [apply Z.eqb_eq in E; contradiction|reflexivity].
      + rewrite ffp1_cons_skip; [|exact NL|rewrite Wa; reflexivity]. rewrite (IH Ht). unfold word_span. fold (dw2 w (b :: t')).
        cbn [length] in *. lia.
  Qed.
End Fwd.

Lemma take_le {A} (l : list A) n : (n <= length l)%nat -> take l n = Ok (firstn n l).
Proof. intro H. unfold take. apply Nat.leb_le in H. now rewrite H. Qed.
Lemma drop_le {A} (l : list A) n : (n <= length l)%nat -> drop l n = Ok (skipn n l).
Proof. intro H. unfold drop. apply Nat.leb_le in H. now rewrite H. Qed.
Lemma slice_le {A} (l : list A) a b : (a <= b <= length l)%nat -> slice l a b = Ok (skipn a (firstn b l)).
Proof.
  intros [H1 H2]. unfold slice. apply Nat.leb_le in H1 as H1'. rewrite H1'. rewrite take_le by exact H2. cbn [bind].
  apply drop_le. rewrite firstn_length. lia.
Qed.

Section WordActions.
  Variable is_alnum : Z -> bool.
  Variable c : cfg.
  Notation w := (isw is_alnum c).
  Notation wb := (fun x : Z => negb (is_blank x)).

  Lemma bw_ncx (v : Z -> bool) rb : find_last_plus1 (p2w v) (rev rb) = (length rb - word_span v rb)%nat.
  Proof. rewrite find_last_is_span, word_span_dw2. pose proof (dw2_len v rb). lia. Qed.

  Lemma rubout_view rb a y s0 rx (v : Z -> bool) : (forall p q, rx p q = p2w v p q) ->
    rubout (viewed rb a y s0) rx =
    Ok (viewed (skipn (word_span v rb) rb) a (rev (firstn (word_span v rb) rb)) s0).
  Proof.
    intro RX. set (k := word_span v rb). assert (K : (k <= length rb)%nat) by apply word_span_le.
    unfold rubout. cbn [s_cx s_input viewed]. rewrite drop_view, take_view. cbn [bind].
    rewrite (find_last_ext rx (p2w v) RX) || (unfold find_last_plus1; rewrite (find_last_ext rx (p2w v) RX)).
    fold (find_last_plus1 (p2w v) (rev rb)). rewrite bw_ncx. fold k.
    rewrite slice_le by (rewrite app_length, rev_length; lia). cbn [bind].
    rewrite take_le by (rewrite app_length, rev_length; lia). cbn [bind].
    f_equal. rewrite firstn_view.
    rewrite skipn_rev. replace (length rb - (length rb - k))%nat with k by lia.
    rewrite firstn_app, rev_length. replace (length rb - k - length rb)%nat with O by lia. cbn [firstn]. rewrite app_nil_r.
    rewrite firstn_rev. replace (length rb - (length rb - k))%nat with k by lia.
    apply (viewed_eq (skipn k rb) a (rev (firstn k rb)) s0 rb a y); [reflexivity|now rewrite skipn_length].
  Qed.

  Lemma do_edit_view_word rb a y s0 act s' : c_inputless c = false -> is_word_motion act = true -> nlfree a ->
    do_edit is_alnum c (viewed rb a y s0) act = Ok s' ->
    exists rb' a' y', s' = viewed rb' a' y' s0 /\
      mkZip rb' a' y' = zstep w (mkZip rb a y) (ecmd_of (viewed rb a y s0) act).
  Proof.
    intros NI W NL H. destruct act; try discriminate W; cbn -[Nat.ltb take drop slice word_span] in H.
    - (* unix-word-rubout *)
      destruct rb as [|x rb].
      + cbn in H. inv_ok. exists [], a, y. split; reflexivity.
      + change (Nat.ltb 0 (length (x :: rb))) with true in H. cbv iota in H.
        rewrite (rubout_view (x :: rb) a y s0 _ wb) in H.
        2:{ intros p q. unfold rx_space_nonspace, p2w. now rewrite negb_involutive. }
        inv_ok. do 3 eexists. split; [reflexivity|].
        cbn [zstep ecmd_of zb za zk]. unfold kill_left. cbn [zb za zk].
        pose proof (word_span_pos wb x rb). destruct (word_span wb (x :: rb)); [lia|reflexivity].
    - (* backward-kill-word *)
      destruct rb as [|x rb].
      + cbn in H. inv_ok. exists [], a, y. split; reflexivity.
      + change (Nat.ltb 0 (length (x :: rb))) with true in H. cbv iota in H.
        rewrite (rubout_view (x :: rb) a y s0 _ w) in H by (intros; reflexivity).
        inv_ok. do 3 eexists. split; [reflexivity|].
        cbn [zstep ecmd_of zb za zk]. unfold kill_left. cbn [zb za zk].
        pose proof (word_span_pos w x rb). destruct (word_span w (x :: rb)); [lia|reflexivity].
    - (* backward-word *)
      rewrite take_view in H. cbn [bind] in H. inv_ok.
      set (k := word_span w rb). assert (K : (k <= length rb)%nat) by apply word_span_le.
      exists (skipn k rb), (rev (firstn k rb) ++ a), y. split; [|reflexivity].
      change (rx_word_rubout is_alnum c) with (p2w w). rewrite bw_ncx. fold k.
      apply viewed_eq; [|now rewrite skipn_length].
      rewrite app_assoc, <- rev_app_distr, firstn_skipn. reflexivity.
    - (* forward-word *)
      rewrite drop_view in H. cbn [bind] in H. inv_ok.
      rewrite (find_first_is_span is_alnum c a NL).
      set (k := word_span w a). assert (K : (k <= length a)%nat) by apply word_span_le.
      exists (rev (firstn k a) ++ rb), (skipn k a), y. split; [|reflexivity].
      apply viewed_eq.
      + rewrite rev_app_distr, rev_involutive, <- app_assoc, firstn_skipn. reflexivity.
      + rewrite app_length, rev_length, firstn_length. lia.
    - (* kill-word *)
      rewrite drop_view in H. cbn [bind] in H.
      rewrite (find_first_is_span is_alnum c a NL) in H.
      set (k := word_span w a) in *. assert (K : (k <= length a)%nat) by apply word_span_le.
      cbn [zstep ecmd_of zb za zk]. fold k. unfold kill_right. cbn [zb za zk].
      destruct k as [|k'] eqn:Ek.
      + rewrite Nat.add_0_r, Nat.ltb_irrefl in H. inv_ok. exists rb, a, y. split; reflexivity.
      + replace (Nat.ltb (length rb) (length rb + S k')) with true in H by (symmetry; apply Nat.ltb_lt; lia).
        rewrite slice_le in H by (rewrite app_length, rev_length; lia). cbn [bind] in H.
        rewrite take_view in H. cbn [bind] in H.
        rewrite drop_le in H by (rewrite app_length, rev_length; lia). cbn [bind] in H. inv_ok.
        exists rb, (skipn (S k') a), (firstn (S k') a). split; [|reflexivity].
        assert (F : firstn (length rb + S k') (rev rb ++ a) = rev rb ++ firstn (S k') a).
        { rewrite firstn_app, rev_length. rewrite firstn_all2 by (rewrite rev_length; lia). f_equal. f_equal. lia. }
        assert (S1 : skipn (length rb) (rev rb ++ firstn (S k') a) = firstn (S k') a) by apply skipn_view.
        assert (S2 : skipn (length rb + S k') (rev rb ++ a) = skipn (S k') a).
        { rewrite skipn_app, rev_length. rewrite skipn_all2 by (rewrite rev_length; lia). cbn [app]. f_equal. lia. }
        rewrite F, S1, S2. apply viewed_eq; reflexivity.
  Qed.
End WordActions.

(* ---------------------------------------------------------------- newline-freeness is an invariant; the full refinement *)
Lemma Forall_firstn' {A} (P : A -> Prop) n : forall l, Forall P l -> Forall P (firstn n l).
Proof. induction n as [|n IH]; intros l H; [constructor|]. destruct l; [constructor|]. inversion H; subst. cbn. constructor; auto. Qed.
Lemma Forall_skipn' {A} (P : A -> Prop) n : forall l, Forall P l -> Forall P (skipn n l).
Proof. induction n as [|n IH]; intros l H; [exact H|]. destruct l; [constructor|]. inversion H; subst. cbn. auto. Qed.
Lemma Forall_tl {A} (P : A -> Prop) l : Forall P l -> Forall P (tl l).
Proof. intro H. destruct l; [constructor|]. now inversion H. Qed.
Lemma Forall_rev' {A} (P : A -> Prop) l : Forall P l -> Forall P (rev l).
Proof. intro H. apply Forall_forall. intros x I. apply in_rev in I. rewrite Forall_forall in H. auto. Qed.
Lemma Forall_app' {A} (P : A -> Prop) l1 l2 : Forall P l1 -> Forall P l2 -> Forall P (l1 ++ l2).
Proof. intros H1 H2. apply Forall_forall. intros x I. apply in_app_or in I. rewrite Forall_forall in H1, H2. destruct I; auto. Qed.
Lemma Forall_app_l {A} (P : A -> Prop) l1 l2 : Forall P (l1 ++ l2) -> Forall P l1 /\ Forall P l2.
Proof. intro H. rewrite Forall_forall in H. split; apply Forall_forall; intros x I; apply H; apply in_or_app; auto. Qed.

Definition zok (z : zip) : Prop := nlfree (zb z) /\ nlfree (za z) /\ nlfree (zk z).
Definition cmd_ok (e : ecmd) : Prop := match e with EInsert t | ESet t => nlfree t | _ => True end.

Ltac nl := unfold nlfree in *; repeat (first [apply Forall_app' | apply Forall_rev' | apply Forall_firstn' | apply Forall_skipn' | apply Forall_tl | assumption | constructor]).

Lemma move_left_ok k z : zok z -> zok (move_left k z).
Proof. intros (B & A & K). unfold move_left, zok. cbn [zb za zk]. repeat split; nl. Qed.
Lemma move_right_ok k z : zok z -> zok (move_right k z).
Proof. intros (B & A & K). unfold move_right, zok. cbn [zb za zk]. repeat split; nl. Qed.
Lemma kill_left_ok k z : zok z -> zok (kill_left k z).
Proof. intros (B & A & K). unfold kill_left, zok. destruct k; cbn [zb za zk]; repeat split; nl. Qed.
Lemma kill_right_ok k z : zok z -> zok (kill_right k z).
Proof. intros (B & A & K). unfold kill_right, zok. destruct k; cbn [zb za zk]; repeat split; nl. Qed.

Lemma zstep_ok w z e : zok z -> cmd_ok e -> zok (zstep w z e).
Proof.
  intros Z E. destruct e; cbn [zstep];
    try (apply move_left_ok; exact Z); try (apply move_right_ok; exact Z);
    try (apply kill_left_ok; exact Z); try (apply kill_right_ok; exact Z); try exact Z.
  all: try (destruct Z as (B & A & K); cbn in E; unfold zinsert, zok; cbn [zb za zk]; repeat split; nl; fail).
  destruct Z as (B & A & K). destruct (ztext z) eqn:T; [repeat split; assumption|].
  unfold zok. cbn [zb za zk]. split; [constructor|split; [constructor|]]. rewrite <- T. unfold ztext. nl.
Qed.

Definition items_ok (rs : list item) : Prop := Forall (fun it => nlfree (snd it)) rs.
Definition act_ok (a : act) : Prop :=
  match a with
  | AChar ch => ch <> NLc
  | APut t | AChangeQuery t => nlfree t
  | AUpdate rs _ => items_ok rs
  | _ => True
  end.

Lemma get_in {A} (l : list A) : forall n x, get l n = Ok x -> In x l.
Proof. induction l as [|y l IH]; intros n x H; destruct n; cbn in H; try discriminate; [inversion H; now left|right; eauto]. Qed.

Section Full.
  Variable is_alnum : Z -> bool.
  Variable c : cfg.
  Notation w := (isw is_alnum c).

  Lemma ecmd_of_ok s a : items_ok (s_res s) -> act_ok a -> cmd_ok (ecmd_of s a).
  Proof.
    intros I A. destruct a; cbn in *; auto.
    - constructor; [exact A|constructor].
    - unfold current_item. destruct ((0 <=? s_cy s) && (0 <? count s) && (s_cy s <? count s)); cbn; [|exact Logic.I].
      destruct (get (s_res s) (Z.to_nat (s_cy s))) as [it|] eqn:G; cbn; [|exact Logic.I].
      apply get_in in G. unfold items_ok in I. rewrite Forall_forall in I. now apply I.
  Qed.

  Lemma do_list_res s a s' : do_list c s a = Ok s' -> s_res s' = match a with AUpdate rs _ => rs | _ => s_res s end.
  Proof.
    intro H. destruct a; cbn in H; unfold toggle_and_move, update_list in H;
      try (inv_ok; fin; fail);
      try (apply constrain_frame in H; cbn in H; intuition congruence);
      try (inv_ok; try reflexivity;
           match goal with E : toggle_current _ _ = Ok ?p |- _ => destruct p as [b s1]; apply toggle_current_inv in E; destruct b; cbn; intuition congruence end).
    all: unfold current_item in H; inv_ok; fin.
  Qed.

  Lemma word_is_edit a : is_word_motion a = true -> is_edit a = true.
  Proof. destruct a; cbn; intro H; try discriminate; reflexivity. Qed.

  Lemma do_action_zabs_full s a s' : c_inputless c = false -> cx_ok s -> nlfree (za (zabs s)) ->
    do_action is_alnum c s a = Ok s' -> zabs s' = zstep w (zabs s) (ecmd_of s a).
  Proof.
    intros NI L NL H. destruct (is_word_motion a) eqn:W; [|eapply do_action_zabs; eauto].
    unfold EditModel.do_action in H. rewrite NI in H. cbn [andb] in H. rewrite (word_is_edit a W) in H.
    destruct (do_edit is_alnum c s a) as [s1|] eqn:E; cbn [bind] in H; [|discriminate]. inv_ok.
    destruct (view s L) as (rb & a0 & Hi & Hc).
    assert (Hs : s = viewed rb a0 (s_yanked s) s) by (destruct s; cbn in *; subst; reflexivity).
    assert (Hz : zabs s = mkZip rb a0 (s_yanked s)).
    { unfold zabs. rewrite Hi, Hc, firstn_view, skipn_view, rev_involutive. reflexivity. }
    rewrite Hz in NL. cbn in NL.
    assert (E' : do_edit is_alnum c (viewed rb a0 (s_yanked s) s) a = Ok s') by (rewrite <- Hs; exact E).
    apply do_edit_view_word in E' as (rb' & a' & y' & -> & Z); [|exact NI|exact W|exact NL].
    unfold viewed at 1. rewrite zabs_view, Hz, Z, <- Hs. reflexivity.
  Qed.

  Definition st_ok (s : st) : Prop := cx_ok s /\ zok (zabs s) /\ items_ok (s_res s).

  Lemma do_action_st_ok s a s' : c_inputless c = false -> st_ok s -> act_ok a ->
    do_action is_alnum c s a = Ok s' -> st_ok s' /\ zabs s' = zstep w (zabs s) (ecmd_of s a).
  Proof.
    intros NI (L & Z & I) A H.
    pose proof (do_action_zabs_full s a s' NI L (proj1 (proj2 Z)) H) as R.
    split; [|exact R]. split; [eapply do_action_cx_ok; eauto|]. split.
    - rewrite R. apply zstep_ok; [exact Z|now apply ecmd_of_ok].
    - unfold EditModel.do_action in H. rewrite NI in H. cbn [andb] in H.
      destruct (is_edit a) eqn:Ed.
      + destruct (do_edit is_alnum c s a) as [s1|] eqn:E; cbn [bind] in H; [|discriminate]. inv_ok.
        apply do_edit_frame in E as (-> & _). exact I.
      + destruct (do_list c s a) as [s1|] eqn:E; cbn [bind] in H; [|discriminate]. inv_ok.
        apply do_list_res in E. rewrite E. destruct a; try exact I. exact A.
  Qed.

  Theorem edit_refines_zipper_proof : forall acts s s' z', c_inputless c = false -> st_ok s -> Forall act_ok acts ->
    run_z is_alnum c s (zabs s) acts = Ok (s', z') -> z' = zabs s'.
  Proof.
    induction acts as [|a r IH]; intros s s' z' NI S A H; cbn in H; [inv_ok; reflexivity|].
    inversion A as [|? ? Aa Ar]; subst.
    destruct (do_action is_alnum c s a) as [s1|] eqn:E; cbn [bind] in H; [|discriminate].
    destruct (do_action_st_ok s a s1 NI S Aa E) as (S1 & R). rewrite <- R in H.
    eapply IH; eauto.
  Qed.
End Full.

(* ---------------------------------------------------------------- cursor moves are the spec's cur_move / clamp_pos *)
Definition is_cursor_move (a : act) : bool :=
  match a with AUp | ADown | AFirst | ALast | APos _ | APageUp | APageDown | AHalfPageUp | AHalfPageDown => true | _ => false end.
Definition sp_of (c : cfg) : sparams :=
  mkSP (c_multi c) (c_cycle c) (negb (c_default_layout c)) (c_maxitems c) (c_inputless c).
(* what the user sees of a model state: the cursor as a redraw shows it *)
Definition sabs (s : st) : sstate := mkSS (zabs s) (s_res s) (clamp_pos (count s) (s_cy s)) (s_sel s).

Ltac zcases :=
  repeat (match goal with
  | |- context[?a <? ?b] => let E := fresh "E" in destruct (a <? b) eqn:E; [apply Z.ltb_lt in E|apply Z.ltb_ge in E]
  | |- context[?a =? ?b] => let E := fresh "E" in destruct (a =? b) eqn:E; [apply Z.eqb_eq in E|apply Z.eqb_neq in E]
  | H : context[?a <? ?b] |- _ => let E := fresh "E" in destruct (a <? b) eqn:E; [apply Z.ltb_lt in E|apply Z.ltb_ge in E]
  | H : context[?a =? ?b] |- _ => let E := fresh "E" in destruct (a =? b) eqn:E; [apply Z.eqb_eq in E|apply Z.eqb_neq in E]
  end; cbn [andb orb negb] in *).

Section Cursor.
  Variable c : cfg.

  Lemma constrain_cy s s' : 1 <= c_maxitems c -> constrain c s = Ok s' ->
    s_cy s' = constrain_z (s_cy s) 0 (Z.max 0 (count s - 1)) /\ s_res s' = s_res s /\ s_sel s' = s_sel s.
  Proof.
    intros M H. pose proof (constrain_frame c s s' H) as (_ & _ & _ & R & S). unfold constrain in H.
    match type of H with bind ?x _ = _ => destruct x as [r|] eqn:E end; cbn [bind] in H; [|discriminate].
    inv_ok. apply constrain_loop_cy in E. cbn [s_cy]. destruct (Z.to_nat (c_maxitems c)) eqn:T; [lia|]. auto.
  Qed.

  Definition cur_in (s : st) : Prop := count s = 0 \/ 0 <= s_cy s < count s.

  Lemma vset_spec s o : clamp_pos (count s) (s_cy (vset s o)) = clamp_pos (count s) o /\ cur_in (vset s o).
  Proof.
    unfold vset, cur_in, clamp_pos, clampz, constrain_z, count. cbn [s_cy s_res set_cy].
    set (n := Z.of_nat (length (s_res s))). assert (0 <= n) by (unfold n; lia). clearbody n.
    split; zcases; lia.
  Qed.

  Lemma clamp_pos_in n v : 0 <= v < n -> clamp_pos n v = v.
  Proof. intro H. unfold clamp_pos, clampz. zcases; lia. Qed.
  Lemma clamp_pos_0 v : clamp_pos 0 v = 0.
  Proof. unfold clamp_pos, clampz. zcases; lia. Qed.

  Lemma vmove_spec s (up : bool) : cur_in s ->
    clamp_pos (count s) (s_cy (vmove c s (if up then 1 else -1))) =
      cur_move (c_cycle c) (count s) (clamp_pos (count s) (s_cy s)) (dirz (sp_of c) up) /\ cur_in (vmove c s (if up then 1 else -1)).
  Proof.
    intro I. unfold vmove. split; [|apply vset_spec].
    rewrite (proj1 (vset_spec s _)).
    destruct I as [Z0|R].
    - rewrite Z0. unfold cur_move. rewrite !clamp_pos_0.
      repeat match goal with |- context[if ?b then _ else _] => destruct b end; rewrite ?clamp_pos_0; reflexivity.
    - rewrite (clamp_pos_in _ _ R). unfold cur_move, dirz, sp_of. cbn [sp_flip sp_cycle].
      set (n := count s) in *. set (cy := s_cy s) in *. clearbody n cy.
      destruct (c_default_layout c), (c_cycle c), up; cbn [xorb negb andb]; unfold clamp_pos, clampz; zcases; lia.
  Qed.

  Lemma constrain_vset s o s' : 1 <= c_maxitems c -> constrain c (vset s o) = Ok s' ->
    clamp_pos (count s') (s_cy s') = clamp_pos (count s) o /\ s_res s' = s_res s /\ s_sel s' = s_sel s /\ cur_in s'.
  Proof.
    intros M H. apply constrain_cy in H as (Cy & R & S); [|exact M].
    cbn [s_res s_sel s_cy vset set_cy] in R, S, Cy. change (count (vset s o)) with (count s) in Cy.
    assert (Cs : count s' = count s) by (unfold count; now rewrite R).
    unfold cur_in. rewrite Cs, Cy. repeat split; auto.
    - unfold clamp_pos, clampz, constrain_z, count. set (n := Z.of_nat (length (s_res s))).
      assert (0 <= n) by (unfold n; lia). clearbody n. zcases; lia.
    - unfold constrain_z, count. set (n := Z.of_nat (length (s_res s))).
      assert (0 <= n) by (unfold n; lia). clearbody n. zcases; lia.
  Qed.

  Theorem cursor_refines_cur_move_proof : forall s a s', 1 <= c_maxitems c -> is_cursor_move a = true -> cur_in s ->
    do_list c s a = Ok s' ->
    clamp_pos (count s') (s_cy s') = ss_pos (sstep_list (sp_of c) (sabs s) a) /\
    s_res s' = s_res s /\ s_sel s' = s_sel s /\ cur_in s'.
  Proof.
    intros s a s' M W I H. destruct a; try discriminate W; cbn [do_list] in H.
    - (* up *) inv_ok. pose proof (vmove_spec s true I) as (V & J). cbn [sstep_list smove with_pos ss_pos ss_count sabs ss_res].
      fold (count s). change (count (vmove c s 1)) with (count s). rewrite V. auto.
    - (* down *) inv_ok. pose proof (vmove_spec s false I) as (V & J). cbn [sstep_list smove with_pos ss_pos ss_count sabs ss_res].
      fold (count s). change (count (vmove c s (-1))) with (count s). rewrite V. auto.
    - (* first *) apply constrain_vset in H as (V & R & S & J); [|exact M].
      cbn [sstep_list with_pos ss_pos ss_count sabs ss_res]. fold (count s). auto.
    - (* last *) apply constrain_vset in H as (V & R & S & J); [|exact M].
      cbn [sstep_list with_pos ss_pos ss_count sabs ss_res]. fold (count s). auto.
    - (* pos *) apply constrain_vset in H as (V & R & S & J); [|exact M].
      cbn [sstep_list with_pos ss_pos ss_count sabs ss_res]. fold (count s). auto.
    - (* page-up *) inv_ok. unfold page_move. match goal with |- context[vset s ?o] => pose proof (vset_spec s o) as (V & J) end.
      cbn [sstep_list with_pos ss_pos]. change (ss_count (sabs s)) with (count s). change (ss_pos (sabs s)) with (clamp_pos (count s) (s_cy s)).
      split; [|auto]. etransitivity; [exact V|].
      unfold dirz, sp_of. cbn [sp_flip sp_page].
      destruct I as [Z0|R]; [rewrite Z0, !clamp_pos_0; reflexivity|rewrite (clamp_pos_in _ _ R)].
      destruct (c_default_layout c); cbn [xorb negb]; f_equal; lia.
    - (* page-down *) inv_ok. unfold page_move. match goal with |- context[vset s ?o] => pose proof (vset_spec s o) as (V & J) end.
      cbn [sstep_list with_pos ss_pos]. change (ss_count (sabs s)) with (count s). change (ss_pos (sabs s)) with (clamp_pos (count s) (s_cy s)).
      split; [|auto]. etransitivity; [exact V|].
      unfold dirz, sp_of. cbn [sp_flip sp_page].
      destruct I as [Z0|R]; [rewrite Z0, !clamp_pos_0; reflexivity|rewrite (clamp_pos_in _ _ R)].
      destruct (c_default_layout c); cbn [xorb negb]; f_equal; lia.
    - (* half-page-up *) inv_ok. unfold page_move. match goal with |- context[vset s ?o] => pose proof (vset_spec s o) as (V & J) end.
      cbn [sstep_list with_pos ss_pos]. change (ss_count (sabs s)) with (count s). change (ss_pos (sabs s)) with (clamp_pos (count s) (s_cy s)).
      split; [|auto]. etransitivity; [exact V|].
      unfold dirz, sp_of. cbn [sp_flip sp_page].
      destruct I as [Z0|R]; [rewrite Z0, !clamp_pos_0; reflexivity|rewrite (clamp_pos_in _ _ R)].
      destruct (c_default_layout c); cbn [xorb negb]; f_equal; lia.
    - (* half-page-down *) inv_ok. unfold page_move. match goal with |- context[vset s ?o] => pose proof (vset_spec s o) as (V & J) end.
      cbn [sstep_list with_pos ss_pos]. change (ss_count (sabs s)) with (count s). change (ss_pos (sabs s)) with (clamp_pos (count s) (s_cy s)).
      split; [|auto]. etransitivity; [exact V|].
      unfold dirz, sp_of. cbn [sp_flip sp_page].
      destruct I as [Z0|R]; [rewrite Z0, !clamp_pos_0; reflexivity|rewrite (clamp_pos_in _ _ R)].
      destruct (c_default_layout c); cbn [xorb negb]; f_equal; lia.
  Qed.
End Cursor.

(* ---------------------------------------------------------------- the model never fails *)
Lemma get_total {A} (l : list A) : forall n, (n < length l)%nat -> exists v, get l n = Ok v.
Proof. induction l as [|y l IH]; intros n Hn; [cbn in Hn; lia|]. destruct n; cbn; [eauto|]. apply IH. cbn in Hn. lia. Qed.

Lemma current_item_total s : exists r, current_item s = Ok r.
Proof.
  unfold current_item, count.
  destruct ((0 <=? s_cy s) && (0 <? Z.of_nat (length (s_res s))) && (s_cy s <? Z.of_nat (length (s_res s)))) eqn:G; [|eauto].
  apply andb_true_iff in G as [G G3]. apply andb_true_iff in G as [G1 G2]. apply Z.leb_le in G1. apply Z.ltb_lt in G3.
  destruct (get_total (s_res s) (Z.to_nat (s_cy s)) ltac:(lia)) as [v ->]. cbn. eauto.
Qed.

Section Total.
  Variable is_alnum : Z -> bool.
  Variable c : cfg.

  Ltac bnd :=
    rewrite ?app_length, ?firstn_length, ?skipn_length;
    repeat match goal with
    | |- context[find_last_plus1 ?p ?l] =>
        lazymatch goal with
        | _ : (find_last_plus1 p l <= length l)%nat |- _ => fail
        | _ => pose proof (find_last_plus1_le p l)
        end
    | |- context[find_first_plus1 is_alnum c ?l] =>
        lazymatch goal with
        | _ : (find_first_plus1 is_alnum c l <= length l)%nat |- _ => fail
        | _ => pose proof (find_first_plus1_le is_alnum c l)
        end
    end;
    rewrite ?firstn_length, ?skipn_length in *; lia.
  Ltac tk := repeat (first [ rewrite take_le by bnd | rewrite drop_le by bnd | rewrite slice_le by bnd ]; cbn [bind]).

  Lemma do_edit_total s a : cx_ok s -> exists s', do_edit is_alnum c s a = Ok s'.
  Proof.
    intro L. unfold cx_ok in L.
    destruct a; cbn -[Nat.ltb Nat.leb Nat.min take drop slice MAXQ]; unfold insert_at, rubout;
      cbn -[Nat.ltb Nat.leb Nat.min take drop slice MAXQ];
      repeat match goal with
      | |- context[Nat.ltb ?a ?b] => let E := fresh "E" in destruct (Nat.ltb a b) eqn:E; [apply Nat.ltb_lt in E|apply Nat.ltb_ge in E]
      end; cbn [andb]; tk; try (eexists; reflexivity).
    all: try (match goal with |- context[Nat.ltb ?a ?b] => destruct (Nat.ltb a b) end; eauto; fail).
    all: try (destruct (current_item_total s) as [r ->]; cbn [bind]; eauto; fail).
    all: destruct (c_inputless c); eauto.
  Qed.

  Lemma toggle_current_total s : exists r, toggle_current c s = Ok r.
  Proof.
    unfold toggle_current. destruct (current_item_total s) as [[it|] ->]; cbn [bind]; [|eauto].
    destruct (toggle_item c it (s_sel s)). eauto.
  Qed.

  Lemma do_list_total s a : exists s', do_list c s a = Ok s'.
  Proof.
    destruct a; cbn [do_list]; unfold toggle_and_move, update_list; try (eexists; reflexivity); try apply constrain_total_proof.
    all: try (destruct (multi_on c && (0 <? count s)); [|eauto]; destruct (toggle_current_total s) as [r ->]; cbn [bind]; eauto; fail).
    all: try (destruct (c_default_layout c); (destruct (multi_on c && (0 <? count s)); [|eauto]); destruct (toggle_current_total s) as [r ->]; cbn [bind]; eauto; fail).
    all: try (destruct (current_item_total s) as [r ->]; cbn [bind]; eauto; fail).
    (* update *)
    destruct (negb reload && c_track c).
    - destruct (0 <? count s).
      + destruct (current_item_total s) as [r ->]. cbn [bind].
        match goal with |- context[let '(_, _) := ?x in _] => destruct x end. eauto.
      + cbn [bind]. match goal with |- context[let '(_, _) := ?x in _] => destruct x end. eauto.
    - cbn [bind]. match goal with |- context[let '(_, _) := ?x in _] => destruct x end. eauto.
  Qed.

  Theorem run_never_fails_proof : forall acts s, cx_ok s -> exists s', run is_alnum c s acts = Ok s'.
  Proof.
    induction acts as [|a r IH]; intros s L; cbn [run]; [eauto|].
    assert (T : exists s1, do_action is_alnum c s a = Ok s1).
    { unfold EditModel.do_action. destruct (is_edit a).
      - destruct (do_edit_total s a L) as [s1 ->]. cbn [bind]. destruct (c_inputless c && is_action a); eauto.
      - destruct (do_list_total s a) as [s1 ->]. cbn [bind]. destruct (c_inputless c && is_action a); eauto. }
    destruct T as [s1 T]. rewrite T. cbn [bind]. apply IH. eapply do_action_cx_ok; eauto.
  Qed.
End Total.
