(* C08: one iteration of the terminal loop (LUi) preserves the invariant. *)
From Fzf Require Import Prelude CoordSpec CoordModel CoordFlat CoordProofs CoordTac.
Open Scope Z_scope.

(* what folding an action list over the accumulator guarantees, whatever the actions are *)
Definition acc_step_rel (a b : uiacc) : Prop :=
  ((a_newnth b = a_newnth a /\ a_nth b = a_nth a) \/ a_newnth b = Some (a_nth b)) /\
  (a_changed b = false ->
   a_changed a = false /\ a_sort b = a_sort a /\ a_nth b = a_nth a /\ a_deny b = a_deny a /\
   (a_paused b = a_paused a \/ a_paused b = true)).

Lemma acc_rel_refl a : acc_step_rel a a.
Proof. unfold acc_step_rel. intuition. Qed.

Lemma acc_rel_trans a b c : acc_step_rel a b -> acc_step_rel b c -> acc_step_rel a c.
Proof.
  unfold acc_step_rel. intros [N1 Q1] [N2 Q2]. split.
  - destruct N2 as [[E1 E2]|E]; [|right; exact E].
    destruct N1 as [[F1 F2]|F]; [left; split; congruence | right; congruence].
  - intro C. destruct (Q2 C) as (C1 & S2 & T2 & D2 & P2). destruct (Q1 C1) as (C0 & S1 & T1 & D1 & P1).
    repeat split; try congruence. destruct P2 as [P2|P2]; [|right; exact P2].
    destruct P1 as [P1|P1]; [left; congruence | right; congruence].
Qed.

Lemma acc_rel_prim a p : acc_step_rel a (prim_step fixed_rules a p).
Proof.
  unfold acc_step_rel. destruct a as [ai ap aso an ann ac ach ad]. destruct p; simpl.
  - (* PSetQuery *) split; [left; auto | intro C; repeat split; auto].
  - (* PToggleSort *) split; [left; auto | intro C; discriminate].
  - (* PExclude *) split; [left; auto | intro C; discriminate].
  - (* PChangeNth *) split; [right; reflexivity|].
    intro C. destruct (Z.eqb n an) eqn:E; [apply Z.eqb_eq in E; subst; repeat split; auto | discriminate].
  - (* PReload *) split; [left; auto | intro C; repeat split; auto].
  - (* PToggleSearch *) split; [left; auto|].
    intro C. apply orb_false_iff in C as [C1 C2]. repeat split; auto.
    right. destruct ap; [discriminate|reflexivity].
  - (* PEnableSearch *) split; [left; auto | intro C; discriminate].
  - (* PDisableSearch *) split; [left; auto | intro C; repeat split; auto].
Qed.

Lemma acc_rel_fold ps : forall a, acc_step_rel a (fold_left (prim_step fixed_rules) ps a).
Proof.
  induction ps as [|p ps IH]; intro a; cbn [fold_left]; [apply acc_rel_refl|].
  eapply acc_rel_trans; [apply acc_rel_prim | apply IH].
Qed.

(* the end of the iteration, after the action list has been folded into the accumulator a *)
Definition ui_fin (s : st) (a : uiacc) : st :=
  let changed := a_changed a || negb (str_eqb (t_input s) (a_input a)) in
  let same_input := compat (r_rev (t_merger s)) (c_irev s) in
  let s1 := set_t_input (a_input a) (set_t_paused (a_paused a) (set_t_sort (a_sort a) (set_t_nth (a_nth a) s))) in
  let s2 := set_g_deny (deny_after_exclude same_input (g_deny s) (a_deny a)) s1 in
  let s3 := match a_cmd a with Some (c, _) => set_g_cmd (Some c) s2 | None => s2 end in
  if changed || (match a_cmd a with Some _ => true | None => false end) then
    let n := mkSreq (a_sort a) (match a_cmd a with Some (_, y) => y | None => false end) (a_newnth a)
                    (match a_cmd a with Some (c, _) => Some c | None => None end)
                    changed (a_deny a) (r_rev (t_merger s)) in
    set_e_search (Some (merge_req fixed_rules (e_search s) n)) s3
  else s3.

Lemma ui_step_fin s ps :
  ui_step fixed_rules s ps =
  ui_fin s (fold_left (prim_step fixed_rules) ps (mkAcc (t_input s) (t_paused s) (t_sort s) (t_nth s) None None false [])).
Proof. reflexivity. Qed.

Definition acc_facts (s : st) (a : uiacc) : Prop :=
  ((a_newnth a = None /\ a_nth a = t_nth s) \/ a_newnth a = Some (a_nth a)) /\
  (a_changed a = false ->
   a_sort a = t_sort s /\ a_nth a = t_nth s /\ a_deny a = [] /\ (a_paused a = t_paused s \/ a_paused a = true)).

(* nothing is sent to the coordinator: no change that matters happened *)
Lemma inv_ui_quiet s a : Inv s -> acc_facts s a ->
  a_changed a = false -> str_eqb (t_input s) (a_input a) = true -> a_cmd a = None -> Inv (ui_fin s a).
Proof.
  intros H [N Q] C E Ec. unfold ui_fin. rewrite C, E, Ec. simpl.
  destruct (Q C) as (Q1 & Q2 & Q3 & Q4). apply str_eqb_eq in E.
  destruct H. destruct s. destruct a as [ai ap aso an ann ac ach ad]. unf. simpl in *. subst.
  unfold deny_after_exclude. rewrite app_nil_r.
  assert (Hd : (if compat (r_rev t_merger) c_irev then g_deny else g_deny) = g_deny) by (destruct (compat _ _); reflexivity).
  rewrite Hd.
  constructor.
  all: goal1.
  all: try solve [fin3].
  all: try solve [ edestruct i_fresh as (r0 & Fl & (Fq & Fs & Fn & Fd & Fi & Ff) & Fc); try eassumption; try reflexivity;
                   exists r0; destruct t_paused; simpl in *; intuition congruence ].
Qed.

(* a request is sent (merged into a pending one, if any) *)
Lemma inv_ui_send s a : Inv s -> acc_facts s a ->
  a_changed a || negb (str_eqb (t_input s) (a_input a)) || (match a_cmd a with Some _ => true | None => false end) = true ->
  Inv (ui_fin s a).
Proof.
  intros H [N Q] C. unfold ui_fin. rewrite C.
  destruct H. destruct s. destruct a as [ai ap aso an ann ac ach ad]. unf. unfold deny_after_exclude, merge_req, fixed_rules. simpl in *.
  destruct ac as [[c y]|]; destruct e_search as [p|]; try destruct p; simpl in *.
  all: constructor.
  all: goal1.
  all: try solve [fin3].
  all: try solve [ destruct ann; simpl in *; destruct N as [[? ?]|?]; try discriminate; try destruct q_nth; simpl in *; congruence ].
  all: try solve [ subst; simpl in *; intuition ].
  all: try solve [ try specialize (i_deny eq_refl); simpl in *; arith; try destruct q_deny; simpl in *;
                   repeat match goal with
                   | H : context[Nat.eqb ?a ?b] |- _ => let E := fresh "E" in destruct (Nat.eqb a b) eqn:E;
                         [apply Nat.eqb_eq in E | apply Nat.eqb_neq in E]
                   end;
                   simpl in *; rewrite ?app_nil_r in *; rewrite <- ?app_assoc in *; simpl in *;
                   first [ congruence | exfalso; intuition lia | intuition congruence
                         | rewrite i_deny; rewrite <- ?app_assoc; reflexivity ] ].
  all: try solve [ subst; simpl in *; split; [lia|]; rewrite ?Bool.orb_false_r in *;
                   first [ right; discriminate | left; rewrite C; reflexivity | left; apply orb_true_iff; left; assumption ] ].
Qed.

Lemma acc_facts_fold s ps :
  acc_facts s (fold_left (prim_step fixed_rules) ps (mkAcc (t_input s) (t_paused s) (t_sort s) (t_nth s) None None false [])).
Proof.
  destruct (acc_rel_fold ps (mkAcc (t_input s) (t_paused s) (t_sort s) (t_nth s) None None false [])) as [N Q].
  simpl in *. split.
  - destruct N as [[N1 N2]|N]; [left; split; assumption | right; exact N].
  - intro C. destruct (Q C) as (_ & Q1 & Q2 & Q3 & Q4). repeat split; assumption.
Qed.

Lemma inv_ui s ps : Inv s -> Inv (step s (LUi ps)).
Proof.
  intro H. unfold step, step_r. rewrite ui_step_fin.
  pose proof (acc_facts_fold s ps) as F.
  set (a := fold_left (prim_step fixed_rules) ps _) in *.
  destruct (a_changed a || negb (str_eqb (t_input s) (a_input a)) ||
            (match a_cmd a with Some _ => true | None => false end)) eqn:C.
  - now apply inv_ui_send.
  - apply orb_false_iff in C as [C1 C3]. apply orb_false_iff in C1 as [C1 C2].
    apply negb_false_iff in C2. apply inv_ui_quiet; try assumption.
    destruct (a_cmd a); [discriminate|reflexivity].
Qed.
