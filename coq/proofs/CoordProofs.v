(* C08 theorems about CoordModel: invariant of the coordinator transition system over ALL schedules. *)
From Fzf Require Import Prelude CoordSpec CoordModel.
Open Scope Z_scope.

(* ---------- what is still on its way to the coordinator ---------- *)
Definition eff_sort (s : st) : bool := match e_search s with Some r => q_sort r | None => c_sort s end.
Definition eff_nth (s : st) : nthv :=
  match e_search s with
  | Some r => match q_nth r with Some n => n | None => c_nth s end
  | None => c_nth s
  end.
Definition pend_deny (s : st) : list Z :=
  match e_search s with
  | Some r => if compat (q_rev r) (c_irev s) then q_deny r else []
  | None => []
  end.

(* ---------- the pipeline of mergers: displayed <- EvtSearchFin <- running scan <- mailbox ---------- *)
Definition rle (a b : mreq) : Prop := (r_id a <= r_id b)%nat /\ (major (r_rev a) <= major (r_rev b))%nat.
Definition ole (a b : option mreq) : Prop := match a, b with Some x, Some y => rle x y | _, _ => True end.
Definition obound (s : st) (o : option mreq) : Prop :=
  match o with Some r => (r_id r < g_id s)%nat /\ (major (r_rev r) <= major (c_srev s))%nat | None => True end.
Definition newest (s : st) : mreq :=
  match m_pending s, m_running s, e_sfin s with
  | Some r, _, _ => r
  | None, Some r, _ => r
  | None, None, Some r => r
  | None, None, None => t_merger s
  end.

Definition cur_ok (s : st) (r : mreq) : Prop :=
  r_query r = effq s /\ r_sort r = t_sort s /\ r_nth r = t_nth s /\ r_deny r = g_deny s /\
  r_items r = cl s /\ r_final r = true.

Record Inv (s : st) : Prop := mkInv {
  i_sort : eff_sort s = t_sort s;
  i_nth : eff_nth s = t_nth s;
  i_deny : g_dclean s = true -> g_deny s = c_deny s ++ pend_deny s;
  i_dirty : g_dclean s = false ->
            c_reading s = true /\
            (c_next s = None -> c_usesnap s = true /\ g_deny s = [] /\ (major (c_srev s) < major (c_irev s))%nat);
  i_snap_reading : c_usesnap s = true -> c_reading s = true;
  i_snap_clear : c_usesnap s = true -> c_next s <> None \/ g_dclean s = false;
  i_next_reading : c_next s <> None -> c_reading s = true;
  i_reading : c_reading s = true -> rd_alive s = true \/ e_fin s = true;
  i_srev : (major (c_srev s) <= major (c_irev s))%nat;
  i_c1 : ole (Some (t_merger s)) (e_sfin s);
  i_c2 : ole (Some (t_merger s)) (m_running s);
  i_c3 : ole (Some (t_merger s)) (m_pending s);
  i_c4 : ole (e_sfin s) (m_running s);
  i_c5 : ole (e_sfin s) (m_pending s);
  i_c6 : ole (m_running s) (m_pending s);
  i_b0 : obound s (Some (t_merger s));
  i_b1 : obound s (e_sfin s);
  i_b2 : obound s (m_running s);
  i_b3 : obound s (m_pending s);
  i_req : forall r, e_search s = Some r ->
          (major (q_rev r) <= major (r_rev (t_merger s)))%nat /\ (q_changed r = true \/ q_cmd r <> None);
  i_last : forall r, g_last s = Some r -> newest s = r;
  i_count : e_new s = false -> e_fin s = false -> rd_alive s = false -> t_count s = length (cl s);
  i_fresh : e_new s = false -> e_fin s = false -> e_search s = None -> rd_alive s = false ->
            exists r, g_last s = Some r /\ cur_ok s r /\ c_query s = effq s
}.

Lemma inv_init q so n : Inv (init q so n).
Proof.
  constructor; cbn; try tauto; try discriminate; try lia; try (intros; discriminate); try (split; lia).
Qed.

Ltac open_inv s H := destruct H; destruct s; unfold eff_sort, eff_nth, pend_deny, newest, obound, ole, cur_ok, effq in *; cbn in *.
Ltac close_inv := constructor; unfold eff_sort, eff_nth, pend_deny, newest, obound, ole, cur_ok, effq; cbn; intros;
  try solve [ assumption | discriminate | tauto | auto | congruence | lia | intuition (try discriminate; try congruence; try lia)
            | repeat (match goal with |- context[match ?x with _ => _ end] => destruct x end);
              intuition (try discriminate; try congruence; try lia)
            | unfold rle in *;
              repeat (match goal with H : forall r, ?e = Some r -> _, H2 : ?e = Some ?x |- _ => specialize (H x H2) end);
              repeat (match goal with |- context[match ?x with _ => _ end] => destruct x end);
              intuition (try discriminate; try congruence; try lia) ].

Lemma inv_push s its : Inv s -> Inv (step s (LPush its)).
Proof.
  intro H. unfold step, step_r. destruct (rd_alive s) eqn:Ea; [|exact H].
  open_inv s H. subst. close_inv.
Qed.

Lemma inv_poll s : Inv s -> Inv (step s LPoll).
Proof.
  intro H. unfold step, step_r. destruct (rd_alive s && rd_dirty s) eqn:Ea; [|exact H].
  open_inv s H. close_inv.
Qed.

Lemma inv_fin s : Inv s -> Inv (step s LFin).
Proof.
  intro H. unfold step, step_r. destruct (rd_alive s) eqn:Ea; [|exact H].
  open_inv s H. close_inv.
Qed.

Lemma inv_take s : Inv s -> Inv (step s LTake).
Proof.
  intro H. unfold step, step_r. destruct (m_running s) eqn:Er; [exact H|]. destruct (m_pending s) eqn:Ep; [|exact H].
  open_inv s H. subst. close_inv.
Qed.

Lemma inv_publish s : Inv s -> Inv (step s LPublish).
Proof.
  intro H. unfold step, step_r. destruct (m_running s) eqn:Er; [|exact H].
  open_inv s H. subst. close_inv.
  all: try (destruct m_pending0; intuition).
Qed.

Lemma inv_cancel s : Inv s -> Inv (step s LCancel).
Proof.
  intro H. unfold step, step_r. destruct (m_running s) eqn:Er; [|exact H]. destruct (m_pending s) eqn:Ep; [|exact H].
  open_inv s H. subst. close_inv.
Qed.

Lemma inv_coordfin s : Inv s -> Inv (step s LCoordFin).
Proof.
  intro H. unfold step, step_r, coord_sfin. destruct (e_sfin s) eqn:Er; [|exact H].
  open_inv s H. subst. close_inv.
Qed.

(* ---------- consequences of the invariant ---------- *)
Definition shown (filt : str -> bool -> nthv -> list item -> list item) (s : st) : list item :=
  filter_model filt (req_cfg (t_merger s)) (r_items (t_merger s)).

(* In a quiescent state the merger on display answers the CURRENT state: current query in effect, sort, nth,
   exclusions, over everything that is loaded, and it is final; the count shown is the number of loaded lines. *)
Lemma quiescent_from_inv filt s : Inv s -> quiescent s = true ->
  shown filt s = filter_model filt (cur_cfg s) (cl s) /\ t_count s = length (cl s) /\ r_final (t_merger s) = true.
Proof.
  intros H Q. unfold quiescent in Q.
  destruct (e_new s) eqn:E1; [discriminate|]. destruct (e_fin s) eqn:E2; [discriminate|].
  destruct (rd_alive s) eqn:E3; [discriminate|]. cbn in Q.
  destruct (e_search s) eqn:E4; [discriminate|]. destruct (e_sfin s) eqn:E5; [discriminate|].
  destruct (m_pending s) eqn:E6; [discriminate|]. destruct (m_running s) eqn:E7; [discriminate|].
  destruct (i_fresh s H E1 E2 E4 E3) as (r & Hl & (Hq & Hs & Hn & Hd & Hi & Hf) & _).
  pose proof (i_last s H r Hl) as Hn'. unfold newest in Hn'. rewrite E5, E6, E7 in Hn'.
  split; [|split].
  - unfold shown, req_cfg, cur_cfg, filter_model. cbn. rewrite Hn'. now rewrite Hq, Hs, Hn, Hd, Hi.
  - exact (i_count s H E1 E2 E3).
  - now rewrite Hn'.
Qed.

(* the internal steps of reader, matcher and the EvtSearchFin half of the coordinator keep the invariant *)
Definition simple_label (l : label) : bool :=
  match l with LUi _ | LCoordRead | LCoordSearch => false | _ => true end.

Lemma inv_simple_step s l : simple_label l = true -> Inv s -> Inv (step s l).
Proof.
  destruct l; cbn; intros E H; try discriminate.
  - now apply inv_push. - now apply inv_poll. - now apply inv_fin. - now apply inv_coordfin.
  - now apply inv_take. - now apply inv_publish. - now apply inv_cancel.
Qed.
