(* C15, ghost text: the full render with t.ghost (RenderGhostModel.render_g) is a faithful screen in the sense of
   RenderGhostSpec.faithful_g, wherever the cursor is: the prompt row shows prompt ++ query for every non-empty
   query, the ghost text only in the place of an empty query. *)
From Fzf Require Import Prelude RenderSpec RenderGhostSpec RenderModel RenderGhostModel RenderProofs.
Open Scope nat_scope.

(* ---- the model's two tests are the spec's ghost_on ---- *)
Lemma shown_split g q cx :
  (if is_nil (firstn cx q) && is_nil (skipn cx q) && negb (is_nil g) then g else firstn cx q ++ skipn cx q)
  = input_shown g q.
Proof.
  unfold input_shown, ghost_on. destruct q as [|x r].
  - destruct cx; cbn; destruct g; reflexivity.
  - destruct cx as [|k]; cbn; [reflexivity|]. now rewrite firstn_skipn.
Qed.

Lemma shift_len_cols g q : shift_len g q = input_cols g q.
Proof.
  unfold shift_len, input_cols, ghost_on. destruct q as [|x r].
  - destruct g; reflexivity.
  - cbn [length]. rewrite Nat.add_1_r. reflexivity.
Qed.

Lemma input_shown_length g q : length (input_shown g q) <= input_cols g q.
Proof. unfold input_shown, input_cols. destruct (ghost_on g q); lia. Qed.

(* ---- without a ghost text in effect everything is RenderSpec's / RenderModel's ---- *)
Lemma ghost_off_input g q : ghost_on g q = false -> input_shown g q = q /\ input_cols g q = length q + 1.
Proof. unfold input_shown, input_cols. intros ->. auto. Qed.

Lemma inline_right_col_at_eq c v : inline_right_col_at c v (length (prompt_text v) + 1) = inline_right_col c v.
Proof. reflexivity. Qed.

Lemma prompt_row_at_eq c v : prompt_row_text_at c v (prompt_text v) (length (prompt_text v) + 1) = prompt_row_text c v.
Proof. unfold prompt_row_text_at, prompt_row_text, info_shown_at, info_shown. destruct (c_info c); reflexivity. Qed.

Lemma ghost_off_prompt_row c g v : ghost_on g (v_query v) = false -> prompt_row_text_g c g v = prompt_row_text c v.
Proof.
  intros Hg. destruct (ghost_off_input _ _ Hg) as [E1 E2].
  unfold prompt_row_text_g, prompt_text_g, input_end. rewrite E1, E2.
  rewrite <- prompt_row_at_eq. unfold prompt_text. rewrite app_length, Nat.add_assoc. reflexivity.
Qed.

Lemma print_info_at_eq c t : print_info_at c (length (t_prompt t) + length (t_query t) + 1) t = print_info c t.
Proof. reflexivity. Qed.

Lemma set_draw_query t s p : t_query (set_draw t s p) = t_query t. Proof. reflexivity. Qed.
Lemma set_draw_prompt t s p : t_prompt (set_draw t s p) = t_prompt t. Proof. reflexivity. Qed.

Theorem ghost_off_render_proof : forall c g cx v, ghost_on g (v_query v) = false -> render_g c g cx v = render c v.
Proof.
  intros c g cx v Hg. destruct (ghost_off_input _ _ Hg) as [E1 E2].
  unfold render_g, render, paint_g, paint. do 2 f_equal.
  set (t1 := print_list_at c _).
  assert (Q1 : t_query t1 = v_query v) by reflexivity.
  assert (P1 : print_prompt_g c g cx t1 = print_prompt c t1).
  { unfold print_prompt_g, print_prompt. cbn zeta. rewrite shown_split, Q1, E1. reflexivity. }
  rewrite P1. unfold print_info_g. rewrite shift_len_cols.
  assert (Q2 : t_query (print_prompt c t1) = v_query v) by reflexivity.
  rewrite Q2, E2, Nat.add_assoc. f_equal.
Qed.

(* ---- the prompt row, for any text in the input area that ends before column pos ---- *)
Lemma inline_on_clean_at c (v : view) txt pos : length txt <= pos -> pos + 4 <= c_w c -> c_info c = IInline ->
  (fun r => put pos ([SP; LT; SP] ++ info_tail c (c_w c - (pos + 3) - 1) (info_text c v))
     (if c_sep c then r else clear_from (c_w c) pos r)) (pad (c_w c) txt) = prompt_row_text_at c v txt pos.
Proof.
  intros Hl Hw Hi. unfold prompt_row_text_at. rewrite Hi.
  destruct (c_sep c).
  - rewrite put_pad by lia. reflexivity.
  - rewrite clear_pad by lia. rewrite put_pad by (rewrite ?pad_length; lia).
    rewrite pad_pad by lia. reflexivity.
Qed.

Lemma inline_right_on_clean_at c (v : view) txt pos : length txt <= pos -> pos + 4 <= c_w c -> c_info c = IInlineRight ->
  let w := c_w c in let out := info_text c v in
  let newpos := Nat.max pos (w - length out - 3) in
  let pos1 := if newpos <? w then S newpos else newpos in
  let pos2 := if pos1 <? w - 1 then S pos1 else pos1 in
  put pos (repeat SP (newpos - pos) ++ (if newpos <? w then [SP] else []) ++ (if pos1 <? w - 1 then [SP] else [])
           ++ trim_msg (w - pos2 - 1) out) (pad w txt) = prompt_row_text_at c v txt pos.
Proof.
  intros Hl Hw Hi. cbn zeta. unfold prompt_row_text_at, info_shown_at, inline_right_col_at. rewrite Hi.
  set (out := info_text c v). set (w := c_w c) in *.
  set (newpos := Nat.max pos (w - length out - 3)).
  assert (Hn : newpos <= w - 3) by (unfold newpos; lia).
  destruct (Nat.ltb_spec newpos w); [|lia].
  destruct (Nat.ltb_spec (S newpos) (w - 1)); [|lia].
  rewrite put_pad by lia.
  change [SP] with (repeat SP 1). rewrite !app_assoc.
  rewrite pad_more by lia. rewrite pad_more by lia. rewrite pad_more by lia.
  replace (pos + (newpos - pos) + 1 + 1) with (S (S newpos)) by lia. reflexivity.
Qed.

(* what a faithful screen holds, in logical lines (RenderProofs.logical_rows with the prompt row of the ghost spec) *)
Definition logical_rows_g (c : cfg) (g : str) (v : view) : list row :=
  prompt_row_text_g c g v :: (if prompt_lines c =? 2 then [info_row_text c v] else []) ++
  map (header_row_text c) (hdr_logical c) ++ map (list_slot_text c v) (seq 0 (max_items c)).

Lemma logical_rows_g_tail c g v : tl (logical_rows_g c g v) = tl (logical_rows c v).
Proof. reflexivity. Qed.

Lemma paint_g_screen_term txt_of c g cx t : cfg_ok c -> view_ok_g c g (t_view t) -> coherent txt_of (t_matches t) ->
  t_screen (paint_g c g cx t) = logical_rows_g c g (t_view t).
Proof.
  intros Hc Hv Hco. unfold paint_g.
  set (t0 := set_draw t (repeat (blank (c_w c)) (c_h c)) (repeat il_none (c_h c))).
  destruct (print_list_at_ok txt_of c Hc t0 (blank_tinv txt_of c Hc t) Hco) as ((L1 & _ & _) & Fr & Vw & Ab).
  set (t1 := print_list_at c t0) in *.
  destruct (st_n c Hc) as [Hsn HW]. destruct Hc as [H4 Hh].
  assert (S1 : t_screen t1 = repeat (blank (c_w c)) (prompt_lines c) ++ repeat (blank (c_w c)) (nheader c)
                              ++ map (list_slot_text c (t_view t)) (seq 0 (max_items c))).
  { rewrite <- (firstn_skipn (list_start c) (t_screen t1)). rewrite Ab. cbn [t0 set_draw t_screen].
    rewrite firstn_repeat, app_assoc, repeat_app_len. f_equal; [f_equal; unfold list_start in *; lia|].
    unfold fresh, list_seg in Fr. rewrite firstn_all2 in Fr by (rewrite skipn_length; lia).
    rewrite Fr, Vw. reflexivity. }
  assert (E1 : t_view t1 = t_view t) by exact Vw.
  clearbody t1. clear Fr Ab L1 Vw. clearbody t0.
  destruct t1 as [p1 q1 m1 tot1 cy1 off1 sel1 scr1 prev1]. cbn [t_screen] in S1. subst scr1.
  unfold t_view in E1. cbn [t_prompt t_query t_matches t_total t_cy t_off t_sel] in E1.
  injection E1 as -> -> -> -> -> -> ->.
  assert (Hb : length (blank (c_w c)) = c_w c) by (unfold blank; apply repeat_length).
  assert (Hh2 : length (repeat (blank (c_w c)) (nheader c)) = length (hdr_logical c))
    by (rewrite repeat_length, hdr_logical_length; reflexivity).
  set (v := t_view t) in *.
  set (txt := prompt_text_g g v). set (pos := input_end g v).
  assert (Hl : length txt <= pos).
  { unfold txt, pos, prompt_text_g, input_end. rewrite app_length. pose proof (input_shown_length g (v_query v)). lia. }
  pose proof (inline_on_clean_at c v txt pos Hl) as Hil. pose proof (inline_right_on_clean_at c v txt pos Hl) as Hir.
  destruct Hv as [V1 V2]. fold pos in V2.
  assert (HA2 : forall a b post, print_header_from (c_w c) (c_tabstop c) 2 (hdr_logical c) (a :: b :: repeat (blank (c_w c)) (nheader c) ++ post)
                 = a :: b :: map (header_row_text c) (hdr_logical c) ++ post)
    by (intros a b post; exact (header_from_app (c_w c) (c_tabstop c) (hdr_logical c) [a; b] _ post Hh2)).
  assert (HA1 : forall a post, print_header_from (c_w c) (c_tabstop c) 1 (hdr_logical c) (a :: repeat (blank (c_w c)) (nheader c) ++ post)
                 = a :: map (header_row_text c) (hdr_logical c) ++ post)
    by (intros a post; exact (header_from_app (c_w c) (c_tabstop c) (hdr_logical c) [a] _ post Hh2)).
  unfold logical_rows_g, prompt_row_text_g. fold txt pos.
  unfold print_header, print_info_g, print_info_at, print_prompt_g. cbn zeta.
  cbn [set_draw t_screen t_prompt t_query t_matches t_total t_cy t_off t_sel t_prev].
  rewrite shown_split, shift_len_cols.
  change (t_prompt t) with (v_prompt v). change (t_query t) with (v_query v).
  change (length (v_prompt v) + input_cols g (v_query v)) with pos.
  match goal with |- context [info_text c (t_view ?x)] =>
    replace (info_text c (t_view x)) with (info_text c v) by reflexivity end.
  unfold prompt_lines in *.
  destruct (c_info c) eqn:Hi; [| |destruct (c_sep c) eqn:Hs|destruct (c_sep c) eqn:Hs];
    cbn [repeat app upd_at Nat.eqb]; rewrite prompt_clean by exact V1; fold (prompt_text_g g v); fold txt.
  - (* default *)
    rewrite HA2. f_equal; [unfold prompt_row_text_at; now rewrite Hi|f_equal].
    unfold info_row_text. rewrite Hi. destruct (c_sep c); rewrite ?clear0, ?(blank_pad (c_w c)), put0_pad by (cbn; lia); reflexivity.
  - (* inline *)
    rewrite HA1. f_equal. apply (Hil V2 eq_refl).
  - (* hidden, separator *)
    rewrite HA2. f_equal; [unfold prompt_row_text_at; now rewrite Hi|f_equal].
    unfold info_row_text. rewrite Hi. apply dashes_row; [exact Hb|lia].
  - (* hidden, no separator *)
    rewrite HA1. f_equal. unfold prompt_row_text_at. now rewrite Hi.
  - (* inline-right, separator *)
    specialize (Hir V2 eq_refl). cbn zeta in Hir. rewrite Hir. rewrite HA2. f_equal. f_equal.
    unfold info_row_text. rewrite Hi. apply dashes_row; [exact Hb|lia].
  - (* inline-right, no separator *)
    specialize (Hir V2 eq_refl). cbn zeta in Hir. rewrite Hir. rewrite HA1. reflexivity.
Qed.

Theorem paint_g_screen_proof : forall c g cx v, cfg_ok c -> view_ok_g c g v -> view_wf v ->
  t_screen (paint_g c g cx (term_of_view v)) = logical_rows_g c g v.
Proof.
  intros c g cx v Hc Hv [txt_of Hco].
  assert (Ev : t_view (term_of_view v) = v) by (destruct v; reflexivity).
  rewrite <- Ev at 2. apply (paint_g_screen_term txt_of); auto; now rewrite Ev.
Qed.

Lemma logical_rows_g_length c g v : cfg_ok c -> length (logical_rows_g c g v) = c_h c.
Proof. intros Hc. rewrite <- (logical_rows_length c v Hc). reflexivity. Qed.

(* the complete statement: the full render with a ghost text is a faithful screen, wherever the cursor is *)
Theorem render_g_faithful_proof : forall c g cx v, cfg_ok c -> view_ok_g c g v -> view_wf v ->
  faithful_g c g v (render_g c g cx v).
Proof.
  intros c g cx v Hc Hv Hw. pose proof (paint_g_screen_proof c g cx v Hc Hv Hw) as HS.
  pose proof (logical_rows_g_length c g v Hc) as HL.
  assert (HP : forall y, y < c_h c -> row_at (render_g c g cx v) (phys c y) = nth y (logical_rows_g c g v) []).
  { intros y Hy. unfold render_g. rewrite HS. now apply physical_nth. }
  assert (Hpl : 1 <= prompt_lines c) by (unfold prompt_lines; destruct (c_info c); try destruct (c_sep c); lia).
  assert (Hc' := Hc). destruct Hc as [H4 Hh].
  assert (Hnh : nheader c = length (c_header c) + length (c_hlines c)) by reflexivity.
  assert (Lp : length ([prompt_row_text_g c g v] ++ (if prompt_lines c =? 2 then [info_row_text c v] else [])) = prompt_lines c).
  { unfold prompt_lines. destruct (c_info c); try destruct (c_sep c); reflexivity. }
  assert (Hsplit : logical_rows_g c g v =
     ([prompt_row_text_g c g v] ++ (if prompt_lines c =? 2 then [info_row_text c v] else [])) ++
     map (header_row_text c) (hdr_logical c) ++ map (list_slot_text c v) (seq 0 (max_items c))) by reflexivity.
  split; [|split; [|split; [|split]]].
  - unfold render_g. rewrite HS. unfold physical.
    destruct (c_layout c); rewrite ?rev_length; auto.
    rewrite !app_length, !rev_length, !firstn_length, !skipn_length. lia.
  - (* prompt row *)
    unfold shows_prompt_g. replace (prompt_row c) with (phys c 0).
    + rewrite HP by lia. reflexivity.
    + unfold phys, prompt_row. destruct (c_layout c); try lia. destruct (Nat.ltb_spec 0 (prompt_lines c + length (c_header c))); lia.
  - (* info row *)
    intros H2. replace (info_row c) with (phys c 1).
    + rewrite HP by lia. unfold logical_rows_g. rewrite H2. reflexivity.
    + unfold phys, info_row. destruct (c_layout c); try lia. destruct (Nat.ltb_spec 1 (prompt_lines c + length (c_header c))); lia.
  - (* list rows *)
    intros i Hi. unfold render_g. rewrite HS. rewrite physical_list_row by auto.
    rewrite Hsplit. unfold list_start.
    rewrite app_nth2 by lia. rewrite Lp.
    rewrite app_nth2 by (rewrite map_length, hdr_logical_length; lia).
    rewrite map_length, hdr_logical_length.
    replace (prompt_lines c + nheader c + i - prompt_lines c - nheader c) with i by lia.
    rewrite (nth_indep _ [] (list_slot_text c v 0)) by (rewrite map_length, seq_length; exact Hi).
    rewrite map_nth, seq_nth by exact Hi. reflexivity.
  - (* header rows *)
    assert (Hnth : forall j, j < nheader c ->
              nth (prompt_lines c + j) (logical_rows_g c g v) [] = header_row_text c (nth j (hdr_logical c) [])).
    { intros j Hj. rewrite Hsplit.
      rewrite app_nth2 by lia. rewrite Lp. replace (prompt_lines c + j - prompt_lines c) with j by lia.
      rewrite app_nth1 by (rewrite map_length, hdr_logical_length; lia).
      rewrite (nth_indep _ [] (header_row_text c [])) by (rewrite map_length, hdr_logical_length; lia).
      apply map_nth. }
    split; intros k h Hk.
    + assert (Hlt : k < length (c_header c)) by (apply nth_error_Some; congruence).
      apply nth_error_nth with (d := []) in Hk.
      set (j := match c_layout c with LReverse => k | _ => length (c_header c) - 1 - k end).
      assert (Hj : j < length (c_header c)) by (unfold j; destruct (c_layout c); lia).
      replace (header_row c k) with (phys c (prompt_lines c + j)).
      * rewrite HP by lia. rewrite Hnth by lia. f_equal. unfold hdr_logical, j.
        destruct (c_layout c); rewrite app_nth1 by (rewrite ?rev_length; lia); rewrite ?rev_nth by lia; rewrite <- Hk; f_equal; lia.
      * unfold phys, header_row, j. destruct (c_layout c); try lia.
        destruct (Nat.ltb_spec (prompt_lines c + (length (c_header c) - 1 - k)) (prompt_lines c + length (c_header c))); lia.
    + assert (Hlt : k < length (c_hlines c)) by (apply nth_error_Some; congruence).
      apply nth_error_nth with (d := []) in Hk.
      replace (hline_row c k) with (phys c (prompt_lines c + (length (c_header c) + k))).
      * rewrite HP by lia. rewrite Hnth by lia. f_equal. unfold hdr_logical.
        destruct (c_layout c); rewrite app_nth2 by (rewrite ?rev_length; lia); rewrite ?rev_length; rewrite <- Hk; f_equal; lia.
      * unfold phys, hline_row. destruct (c_layout c); try lia.
        destruct (Nat.ltb_spec (prompt_lines c + (length (c_header c) + k)) (prompt_lines c + length (c_header c))); [lia|].
        destruct (Nat.ltb_spec (prompt_lines c + (length (c_header c) + k)) (prompt_lines c + length (c_header c) + length (c_hlines c))); lia.
Qed.

Lemma inline_right_col_at_ge c v pos : pos <= inline_right_col_at c v pos.
Proof.
  unfold inline_right_col_at. destruct (Nat.ltb_spec (Nat.max pos (c_w c - length (info_text c v) - 3)) (c_w c));
    match goal with |- context [if ?b then _ else _] => destruct b end; lia.
Qed.
Lemma firstn_pad_self w a : firstn (length a) (pad w a) = a.
Proof. unfold pad. rewrite firstn_app, Nat.sub_diag, firstn_all. cbn. apply app_nil_r. Qed.
Lemma firstn_pad_pad w x a r : length a <= x -> firstn (length a) (pad w (pad x a ++ r)) = a.
Proof. intros H. unfold pad at 2. rewrite <- app_assoc. apply firstn_pad_app. Qed.

(* the sentence of the property, on its own: for EVERY cursor position the prompt row of the render begins with
   prompt ++ query whenever the query is not empty - the ghost text never stands in for a query that exists *)
Theorem query_on_prompt_row_proof : forall c g cx v, cfg_ok c -> view_ok_g c g v -> view_wf v -> v_query v <> [] ->
  firstn (length (v_prompt v ++ v_query v)) (row_at (render_g c g cx v) (prompt_row c)) = v_prompt v ++ v_query v.
Proof.
  intros c g cx v Hc Hv Hw Hq.
  destruct (render_g_faithful_proof c g cx v Hc Hv Hw) as (_ & Hp & _). unfold shows_prompt_g in Hp. rewrite Hp.
  assert (Hg : ghost_on g (v_query v) = false) by (unfold ghost_on; destruct (v_query v); [congruence|reflexivity]).
  unfold prompt_row_text_g, prompt_text_g, input_end, input_shown, input_cols. rewrite Hg.
  unfold prompt_row_text_at.
  destruct (c_info c); first [apply firstn_pad_self | apply firstn_pad_pad; rewrite ?app_length; cbn [length];
    try (pose proof (inline_right_col_at_ge c v (length (v_prompt v) + (length (v_query v) + 1)))); lia].
Qed.

(* and the ghost text is what stands there while the query is empty *)
Theorem ghost_on_prompt_row_proof : forall c g cx v, cfg_ok c -> view_ok_g c g v -> view_wf v -> v_query v = [] ->
  firstn (length (v_prompt v ++ g)) (row_at (render_g c g cx v) (prompt_row c)) = v_prompt v ++ g.
Proof.
  intros c g cx v Hc Hv Hw Hq.
  destruct (render_g_faithful_proof c g cx v Hc Hv Hw) as (_ & Hp & _). unfold shows_prompt_g in Hp. rewrite Hp.
  unfold prompt_row_text_g, prompt_text_g, input_end, input_shown, input_cols, ghost_on. rewrite Hq.
  unfold prompt_row_text_at.
  destruct g as [|x g'].
  - rewrite !app_nil_r. destruct (c_info c); first [apply firstn_pad_self | apply firstn_pad_pad; cbn [length];
      try (pose proof (inline_right_col_at_ge c v (length (v_prompt v) + (0 + 1)))); lia].
  - destruct (c_info c); first [apply firstn_pad_self | apply firstn_pad_pad; rewrite ?app_length; cbn [length];
      try (pose proof (inline_right_col_at_ge c v (length (v_prompt v) + S (length g')))); lia].
Qed.
